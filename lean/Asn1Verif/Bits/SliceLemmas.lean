import Asn1Verif.Bits.Slice
/-
  Lemmas about the L0 mirror: the byte/mask/shift code equals the naive bit-vector semantics.
-/
namespace Asn1Verif.Bits
open Asn1Verif Outcome

theorem byte_len_eq : Consts.BYTE_LEN = 8 := rfl

/-! ### single bits -/

theorem one_getMsbD (j : Nat) : (1#8).getMsbD j = decide (j = 7) := by
  by_cases h : j < 8
  · have : j = 0 ∨ j = 1 ∨ j = 2 ∨ j = 3 ∨ j = 4 ∨ j = 5 ∨ j = 6 ∨ j = 7 := by omega
    rcases this with h|h|h|h|h|h|h|h <;> subst h <;> decide
  · rw [BitVec.getMsbD_of_ge _ _ (by omega)]; simp; omega

theorem byte_set (d : Byte) (k m : Nat) (hk : k < 8) (hm : m < 8) :
    (d ||| (1#8 <<< (7 - k))).getMsbD m = if m = k then true else d.getMsbD m := by
  simp only [BitVec.getMsbD_or, BitVec.getMsbD_shiftLeft]
  rw [one_getMsbD]
  by_cases h : m = k
  · subst h; simp; omega
  · simp [h]; omega

theorem byte_clear (d : Byte) (k m : Nat) (hk : k < 8) (hm : m < 8) :
    (d &&& ~~~(1#8 <<< (7 - k))).getMsbD m = if m = k then false else d.getMsbD m := by
  simp only [BitVec.getMsbD_and, BitVec.getMsbD_not, BitVec.getMsbD_shiftLeft]
  rw [one_getMsbD]
  by_cases h : m = k
  · subst h; simp; omega
  · simp [h, hm]; omega

@[simp] theorem length_setBit (bs : List Byte) (i : Nat) (b : Bool) :
    (setBit bs i b).length = bs.length := by
  simp [setBit]

theorem getBit_setBit (bs : List Byte) (i j : Nat) (b : Bool) (hi : i < bs.length * 8) :
    getBit (setBit bs i b) j = if j = i then b else getBit bs j := by
  unfold getBit setBit
  simp only [List.getD_eq_getElem?_getD, List.getElem?_modify]
  have hi8 : i / 8 < bs.length := by omega
  by_cases hji : j / 8 = i / 8
  · rw [hji]
    have : bs[i / 8]? = some bs[i / 8] := List.getElem?_eq_getElem hi8
    rw [this]
    simp only [Option.map_eq_map, Option.map_some, ite_true, Option.getD_some]
    have hk : i % 8 < 8 := Nat.mod_lt _ (by decide)
    have hm : j % 8 < 8 := Nat.mod_lt _ (by decide)
    cases b
    · simp only [Bool.false_eq_true, ite_false]
      rw [byte_clear _ _ _ hk hm]
      by_cases h : j = i
      · subst h; simp
      · have : j % 8 ≠ i % 8 := by omega
        simp [h, this]
    · simp only [ite_true]
      rw [byte_set _ _ _ hk hm]
      by_cases h : j = i
      · subst h; simp
      · have : j % 8 ≠ i % 8 := by omega
        simp [h, this]
  · have hne : j ≠ i := by intro h; subst h; exact hji rfl
    have : ¬ (i / 8 = j / 8) := fun h => hji h.symm
    cases h : bs[j / 8]? <;> simp [this, hne]

/-! ### the bitwise copy loop -/

@[simp] theorem length_copyLoop (src : List Byte) (sp : Nat) (dst : List Byte) (dp n : Nat) :
    (copyLoop src sp dst dp n).length = dst.length := by
  induction n generalizing sp dst dp with
  | zero => rfl
  | succ n ih => simp [copyLoop, ih]

theorem getBit_copyLoop (src : List Byte) (sp : Nat) (dst : List Byte) (dp n : Nat)
    (h : dp + n ≤ dst.length * 8) (j : Nat) :
    getBit (copyLoop src sp dst dp n) j =
      if dp ≤ j ∧ j < dp + n then getBit src (sp + (j - dp)) else getBit dst j := by
  induction n generalizing sp dst dp with
  | zero => simp [copyLoop]; omega
  | succ n ih =>
    simp only [copyLoop]
    rw [ih _ _ _ (by simp; omega)]
    rw [getBit_setBit _ _ _ _ (by omega)]
    by_cases h1 : dp + 1 ≤ j ∧ j < dp + 1 + n
    · have : dp ≤ j ∧ j < dp + (n + 1) := by omega
      simp only [h1, this, and_self, ite_true]
      congr 1; omega
    · simp only [h1, ite_false]
      by_cases h2 : j = dp
      · subst h2; simp
      · have : ¬ (dp ≤ j ∧ j < dp + (n + 1)) := by omega
        simp [h2, this]


/-! ### the byte loop of the bulk copy -/

theorem ff_getMsbD (j : Nat) : (0xFF#8).getMsbD j = decide (j < 8) := by
  by_cases h : j < 8
  · have : j = 0 ∨ j = 1 ∨ j = 2 ∨ j = 3 ∨ j = 4 ∨ j = 5 ∨ j = 6 ∨ j = 7 := by omega
    rcases this with h|h|h|h|h|h|h|h <;> subst h <;> decide
  · rw [BitVec.getMsbD_of_ge _ _ (by omega)]; simp; omega

theorem byte_left (d b : Byte) (off m : Nat) (ho : 0 < off) (ho8 : off < 8) (hm : m < 8) :
    ((d &&& (0xFF#8 <<< (8 - off))) ||| (b >>> off)).getMsbD m =
      if m < off then d.getMsbD m else b.getMsbD (m - off) := by
  simp only [BitVec.getMsbD_or, BitVec.getMsbD_and, BitVec.getMsbD_shiftLeft,
    BitVec.getMsbD_ushiftRight, ff_getMsbD]
  by_cases h : m < off
  · have : m + (8 - off) < 8 := by omega
    simp [h, this]
  · have : ¬ (m + (8 - off) < 8) := by omega
    simp [h, this, hm]

theorem byte_right (d b : Byte) (off m : Nat) (ho : 0 < off) (ho8 : off < 8) (hm : m < 8) :
    ((d &&& (0xFF#8 >>> off)) ||| (b <<< (8 - off))).getMsbD m =
      if m < off then b.getMsbD (m + (8 - off)) else d.getMsbD m := by
  simp only [BitVec.getMsbD_or, BitVec.getMsbD_and, BitVec.getMsbD_shiftLeft,
    BitVec.getMsbD_ushiftRight, ff_getMsbD]
  by_cases h : m < off
  · simp [h, hm]
  · have : m - off < 8 := by omega
    have h2 : b.getMsbD (m + (8 - off)) = false := BitVec.getMsbD_of_ge _ _ (by omega)
    simp [h, hm, this, h2]

theorem getBit_modify (bs : List Byte) (k : Nat) (f : Byte → Byte) (j : Nat) (hk : k < bs.length) :
    getBit (bs.modify k f) j = if j / 8 = k then (f bs[k]).getMsbD (j % 8) else getBit bs j := by
  unfold getBit
  simp only [List.getD_eq_getElem?_getD, List.getElem?_modify]
  by_cases h : j / 8 = k
  · subst h
    rw [List.getElem?_eq_getElem hk]; simp
  · have : ¬ (k = j / 8) := fun e => h e.symm
    cases h' : bs[j / 8]? <;> simp [h, this]

theorem getBit_eq_getElem (bs : List Byte) (j : Nat) (h : j / 8 < bs.length) :
    getBit bs j = (bs[j / 8]).getMsbD (j % 8) := by
  unfold getBit
  simp [List.getD_eq_getElem?_getD, List.getElem?_eq_getElem h]

@[simp] theorem length_bulkLoop (src : List Byte) (si : Nat) (dst : List Byte) (di off n : Nat) :
    (bulkLoop src si dst di off n).length = dst.length := by
  induction n generalizing si dst di with
  | zero => rfl
  | succ n ih => simp [bulkLoop, ih]

/-- one iteration of the unaligned byte loop writes the 8 bits of `byte` at bit `di*8+off` -/
theorem getBit_bulkStep (dst : List Byte) (byte : Byte) (di off j : Nat)
    (ho : 0 < off) (ho8 : off < 8) (hd : di + 1 < dst.length) :
    getBit ((dst.modify di (fun d => (d &&& (0xFF#8 <<< (8 - off))) ||| (byte >>> off))).modify
        (di + 1) (fun d => (d &&& (0xFF#8 >>> off)) ||| (byte <<< (8 - off)))) j =
      if di * 8 + off ≤ j ∧ j < di * 8 + off + 8 then byte.getMsbD (j - (di * 8 + off))
      else getBit dst j := by
  have hm : j % 8 < 8 := Nat.mod_lt _ (by decide)
  rw [getBit_modify _ _ _ _ (by simp; omega)]
  by_cases h1 : j / 8 = di + 1
  · simp only [h1, ite_true]
    rw [List.getElem_modify]
    have : ¬ (di = di + 1) := by omega
    simp only [this, ite_false]
    rw [byte_right _ _ _ _ ho ho8 hm]
    by_cases h2 : j % 8 < off
    · have : di * 8 + off ≤ j ∧ j < di * 8 + off + 8 := by omega
      simp only [h2, this, and_self, ite_true]
      congr 1; omega
    · have : ¬ (di * 8 + off ≤ j ∧ j < di * 8 + off + 8) := by omega
      simp only [h2, this, ite_false]
      rw [getBit_eq_getElem _ _ (by omega)]
      simp [h1]
  · simp only [h1, ite_false]
    rw [getBit_modify _ _ _ _ (by omega)]
    by_cases h3 : j / 8 = di
    · simp only [h3, ite_true]
      rw [byte_left _ _ _ _ ho ho8 hm]
      by_cases h2 : j % 8 < off
      · have : ¬ (di * 8 + off ≤ j ∧ j < di * 8 + off + 8) := by omega
        simp only [h2, this, ite_true, ite_false]
        rw [getBit_eq_getElem _ _ (by omega)]
        simp [h3]
      · have : di * 8 + off ≤ j ∧ j < di * 8 + off + 8 := by omega
        simp only [h2, this, and_self, ite_true, ite_false]
        congr 1; omega
    · have : ¬ (di * 8 + off ≤ j ∧ j < di * 8 + off + 8) := by omega
      simp [h3, this]

theorem getBit_bulkLoop (src : List Byte) (si : Nat) (dst : List Byte) (di off n : Nat)
    (ho : 0 < off) (ho8 : off < 8) (hd : di + n < dst.length) (hs : si + n ≤ src.length)
    (j : Nat) :
    getBit (bulkLoop src si dst di off n) j =
      if di * 8 + off ≤ j ∧ j < di * 8 + off + n * 8 then getBit src (si * 8 + (j - (di * 8 + off)))
      else getBit dst j := by
  induction n generalizing si dst di with
  | zero => simp [bulkLoop]; omega
  | succ n ih =>
    simp only [bulkLoop]
    rw [ih _ _ _ (by simp; omega) (by omega)]
    rw [getBit_bulkStep _ _ _ _ _ ho ho8 (by omega)]
    by_cases h1 : (di + 1) * 8 + off ≤ j ∧ j < (di + 1) * 8 + off + n * 8
    · have : di * 8 + off ≤ j ∧ j < di * 8 + off + (n + 1) * 8 := by omega
      simp only [h1, this, and_self, ite_true]
      congr 1; omega
    · simp only [h1, ite_false]
      by_cases h2 : di * 8 + off ≤ j ∧ j < di * 8 + off + 8
      · have : di * 8 + off ≤ j ∧ j < di * 8 + off + (n + 1) * 8 := by omega
        simp only [h2, this, and_self, ite_true]
        rw [getBit_eq_getElem src _ (by omega)]
        have e1 : (si * 8 + (j - (di * 8 + off))) / 8 = si := by omega
        have e2 : (si * 8 + (j - (di * 8 + off))) % 8 = j - (di * 8 + off) := by omega
        simp only [e1, e2, List.getD_eq_getElem?_getD]
        rw [List.getElem?_eq_getElem (by omega)]; simp
      · have : ¬ (di * 8 + off ≤ j ∧ j < di * 8 + off + (n + 1) * 8) := by omega
        simp [h2, this]

/-! ### the aligned branch: `copy_from_slice` -/

theorem length_copyFromSlice (src : List Byte) (si : Nat) (dst : List Byte) (di n : Nat)
    (hd : di + n ≤ dst.length) (hs : si + n ≤ src.length) :
    (copyFromSlice src si dst di n).length = dst.length := by
  simp [copyFromSlice]; omega

theorem getBit_copyFromSlice (src : List Byte) (si : Nat) (dst : List Byte) (di n : Nat)
    (hd : di + n ≤ dst.length) (hs : si + n ≤ src.length) (j : Nat) :
    getBit (copyFromSlice src si dst di n) j =
      if di * 8 ≤ j ∧ j < di * 8 + n * 8 then getBit src (si * 8 + (j - di * 8))
      else getBit dst j := by
  unfold getBit copyFromSlice
  simp only [List.getD_eq_getElem?_getD]
  by_cases h1 : j / 8 < di
  · have : ¬ (di * 8 ≤ j ∧ j < di * 8 + n * 8) := by omega
    simp only [this, ite_false]
    rw [List.append_assoc, List.getElem?_append_left (by simp; omega)]
    simp [h1]
  · by_cases h2 : j / 8 < di + n
    · have : di * 8 ≤ j ∧ j < di * 8 + n * 8 := by omega
      simp only [this, and_self, ite_true]
      rw [List.getElem?_append_left (by simp; omega)]
      rw [List.getElem?_append_right (by simp; omega)]
      have e1 : (si * 8 + (j - di * 8)) / 8 = si + (j / 8 - di) := by omega
      have e2 : (si * 8 + (j - di * 8)) % 8 = j % 8 := by omega
      simp only [List.length_take, e1, e2]
      have : min di dst.length = di := by omega
      rw [this, List.getElem?_take]
      have : j / 8 - di < n := by omega
      simp [this]
    · have : ¬ (di * 8 ≤ j ∧ j < di * 8 + n * 8) := by omega
      simp only [this, ite_false]
      rw [List.getElem?_append_right (by simp; omega)]
      simp only [List.length_append, List.length_take, List.length_drop, List.getElem?_drop]
      have e1 : min di dst.length = di := by omega
      have e2 : min n (src.length - si) = n := by omega
      rw [e1, e2]
      have e3 : di + n + (j / 8 - (di + n)) = j / 8 := by omega
      rw [e3]


/-! ### specification of a bit copy and the two copy functions -/

/-- `dst'` is `dst` with the `len` bits at `dp` replaced by the `len` bits of `src` at `sp` and
    nothing else changed (same length, every other bit as before). -/
def CopySpec (src : List Byte) (sp : Nat) (dst : List Byte) (dp len : Nat) (dst' : List Byte) :
    Prop :=
  dst'.length = dst.length ∧
    ∀ j, getBit dst' j = if dp ≤ j ∧ j < dp + len then getBit src (sp + (j - dp)) else getBit dst j

theorem getBit_of_ge (bs : List Byte) (j : Nat) (h : bs.length * 8 ≤ j) : getBit bs j = false := by
  unfold getBit
  have : bs.length ≤ j / 8 := by omega
  simp [List.getD_eq_getElem?_getD, List.getElem?_eq_none this]

/-- two byte lists of equal length with equal bits are equal -/
theorem ext_getBit (a b : List Byte) (hl : a.length = b.length)
    (h : ∀ j, getBit a j = getBit b j) : a = b := by
  apply List.ext_getElem hl
  intro i h1 h2
  apply BitVec.eq_of_getMsbD_eq
  intro k hk
  have := h (i * 8 + k)
  rw [getBit_eq_getElem _ _ (by omega), getBit_eq_getElem _ _ (by omega)] at this
  have e1 : (i * 8 + k) / 8 = i := by omega
  have e2 : (i * 8 + k) % 8 = k := by omega
  simpa [e1, e2] using this

theorem CopySpec.unique {src sp dst dp len a b} (ha : CopySpec src sp dst dp len a)
    (hb : CopySpec src sp dst dp len b) : a = b :=
  ext_getBit a b (ha.1.trans hb.1.symm) (fun j => (ha.2 j).trans (hb.2 j).symm)

theorem bitStringCopy_ok (src : List Byte) (sp : Nat) (dst : List Byte) (dp len : Nat)
    (hd : dp + len ≤ dst.length * 8) (hs : sp + len ≤ src.length * 8) :
    bitStringCopy src sp dst dp len = ok (copyLoop src sp dst dp len) ∧
      CopySpec src sp dst dp len (copyLoop src sp dst dp len) := by
  refine ⟨?_, ?_, ?_⟩
  · unfold bitStringCopy
    rw [byte_len_eq]
    have h1 : ¬ dst.length * 8 < dp + len := by omega
    have h2 : ¬ src.length * 8 < sp + len := by omega
    simp [h1, h2]
  · simp
  · intro j; exact getBit_copyLoop src sp dst dp len hd j

theorem bitStringCopy_err_space (src : List Byte) (sp : Nat) (dst : List Byte) (dp len : Nat)
    (hd : dst.length * 8 < dp + len) :
    bitStringCopy src sp dst dp len = err .insufficientSpace := by
  unfold bitStringCopy; rw [byte_len_eq]; simp [hd]

theorem bitStringCopy_err_data (src : List Byte) (sp : Nat) (dst : List Byte) (dp len : Nat)
    (hd : dp + len ≤ dst.length * 8) (hs : src.length * 8 < sp + len) :
    bitStringCopy src sp dst dp len = err .endOfStream := by
  unfold bitStringCopy; rw [byte_len_eq]
  have h1 : ¬ dst.length * 8 < dp + len := by omega
  simp [h1, hs]

theorem bulk_threshold_ge : 8 ≤ Consts.BULK_THRESHOLD := by decide

/-- the bulk copy computes exactly what the bit-by-bit copy computes, on every input -/
theorem bitStringCopyBulked_eq (src : List Byte) (sp : Nat) (dst : List Byte) (dp len : Nat) :
    bitStringCopyBulked src sp dst dp len = bitStringCopy src sp dst dp len := by
  unfold bitStringCopyBulked
  by_cases hlen : len ≤ Consts.BULK_THRESHOLD
  · simp [hlen]
  simp only [hlen, ite_false]
  rw [byte_len_eq]
  by_cases hd : dst.length * 8 < dp + len
  · simp [hd, bitStringCopy_err_space _ _ _ _ _ hd]
  by_cases hs : src.length * 8 < sp + len
  · have hd' : dp + len ≤ dst.length * 8 := by omega
    simp [hd, hs, bitStringCopy_err_data src sp dst dp len hd' hs]
  simp only [hd, hs, ite_false]
  have hT := bulk_threshold_ge
  have hd' : dp + len ≤ dst.length * 8 := by omega
  have hs' : sp + len ≤ src.length * 8 := by omega
  obtain ⟨hok, hspec⟩ := bitStringCopy_ok src sp dst dp len hd' hs'
  rw [hok]
  -- name the pieces
  generalize hhead : (8 - sp % 8) % 8 = head
  have hhead7 : head ≤ 7 := by omega
  have hal : (sp + head) % 8 = 0 := by omega
  generalize hdst0 : (if head ≠ 0 then copyLoop src sp dst dp head else dst) = dst0
  have hdst0_len : dst0.length = dst.length := by
    subst hdst0; split <;> simp
  have hdst0_bit : ∀ j, getBit dst0 j =
      if dp ≤ j ∧ j < dp + head then getBit src (sp + (j - dp)) else getBit dst j := by
    intro j; subst hdst0
    split
    · exact getBit_copyLoop src sp dst dp head (by omega) j
    · have : head = 0 := by omega
      subst this; simp; omega
  generalize hn : (len - head) / 8 = n
  generalize hr : (len - head) % 8 = r
  have hlen' : len = head + n * 8 + r := by omega
  have hr8 : r < 8 := by omega
  generalize hdst1 :
    (if (dp + head) % 8 = 0 then copyFromSlice src ((sp + head) / 8) dst0 ((dp + head) / 8) n
     else bulkLoop src ((sp + head) / 8) dst0 ((dp + head) / 8) ((dp + head) % 8) n) = dst1
  have hsi : (sp + head) / 8 * 8 = sp + head := by omega
  have hdst1 : dst1.length = dst.length ∧ ∀ j, getBit dst1 j =
      if dp + head ≤ j ∧ j < dp + head + n * 8 then getBit src (sp + head + (j - (dp + head)))
      else getBit dst0 j := by
    subst hdst1
    split
    next h0 =>
      have hdi : (dp + head) / 8 * 8 = dp + head := by omega
      refine ⟨?_, ?_⟩
      · rw [length_copyFromSlice _ _ _ _ _ (by omega) (by omega)]; exact hdst0_len
      · intro j
        rw [getBit_copyFromSlice _ _ _ _ _ (by omega) (by omega), hdi, hsi]
    next h0 =>
      refine ⟨?_, ?_⟩
      · simp [hdst0_len]
      · intro j
        have ho : 0 < (dp + head) % 8 := by omega
        have ho8 : (dp + head) % 8 < 8 := by omega
        rw [getBit_bulkLoop _ _ _ _ _ _ ho ho8 (by omega) (by omega)]
        have hdi : (dp + head) / 8 * 8 + (dp + head) % 8 = dp + head := by omega
        rw [hdi, hsi]
  obtain ⟨hdst1_len, hdst1_bit⟩ := hdst1
  by_cases hr0 : r = 0
  · simp only [hr0, ite_true]
    congr 1
    apply ext_getBit
    · rw [hdst1_len]; simp
    · intro j
      rw [hdst1_bit, hdst0_bit, hspec.2 j]
      by_cases c1 : dp + head ≤ j ∧ j < dp + head + n * 8
      · have : dp ≤ j ∧ j < dp + len := by omega
        simp only [c1, this, and_self, ite_true]
        congr 1; omega
      · simp only [c1, ite_false]
        by_cases c2 : dp ≤ j ∧ j < dp + head
        · have : dp ≤ j ∧ j < dp + len := by omega
          simp [c2, this]
        · have : ¬ (dp ≤ j ∧ j < dp + len) := by omega
          simp [c2, this]
  · simp only [hr0, ite_false]
    obtain ⟨hok2, hspec2⟩ := bitStringCopy_ok src (sp + head + n * 8) dst1 (dp + head + n * 8) r
      (by omega) (by omega)
    rw [hok2]
    congr 1
    apply ext_getBit
    · rw [hspec2.1, hdst1_len]; simp
    · intro j
      rw [hspec2.2 j, hdst1_bit, hdst0_bit, hspec.2 j]
      by_cases c0 : dp + head + n * 8 ≤ j ∧ j < dp + head + n * 8 + r
      · have : dp ≤ j ∧ j < dp + len := by omega
        simp only [c0, this, and_self, ite_true]
        congr 1; omega
      · simp only [c0, ite_false]
        by_cases c1 : dp + head ≤ j ∧ j < dp + head + n * 8
        · have : dp ≤ j ∧ j < dp + len := by omega
          simp only [c1, this, and_self, ite_true]
          congr 1; omega
        · simp only [c1, ite_false]
          by_cases c2 : dp ≤ j ∧ j < dp + head
          · have : dp ≤ j ∧ j < dp + len := by omega
            simp [c2, this]
          · have : ¬ (dp ≤ j ∧ j < dp + len) := by omega
            simp [c2, this]

end Asn1Verif.Bits
