import Asn1Verif.Bits.Slice
/-
  L0 — mirror of `src/protocol/per/unaligned/buffer.rs`: `BitBuffer` (growable, read + write
  cursor) and `Bits` (read-only view with declared bit length, `ScopedBitRead`).
-/
namespace Asn1Verif.Bits
open Asn1Verif Outcome

structure BitBuffer where
  buffer : List Byte := []
  wp : Nat := 0     -- write_position
  rp : Nat := 0     -- read_position
  deriving Repr, DecidableEq

namespace BitBuffer

/-- `from_bits(buffer, bit_length)`; `assert!(bit_length <= buffer.len() * BYTE_LEN)` -/
def fromBits (buffer : List Byte) (bitLen : Nat) : Outcome BitBuffer := do
  assert (decide (bitLen ≤ buffer.length * Consts.BYTE_LEN))
  pure { buffer := buffer, wp := bitLen, rp := 0 }

/-- `ensure_can_write_additional_bits(bit_len)` -/
def ensure (b : BitBuffer) (n : Nat) : BitBuffer :=
  if b.wp + n ≥ b.buffer.length * Consts.BYTE_LEN then
    let required := ((b.wp + n) + 7) / Consts.BYTE_LEN
    { b with buffer := b.buffer ++ List.replicate (required - b.buffer.length) 0#8 }
  else b

def writeBit (b : BitBuffer) (bit : Bool) : Outcome BitBuffer := do
  let b := b.ensure 1
  let (buf, wp) ← sliceWriteBit b.buffer b.wp bit
  pure { b with buffer := buf, wp := wp }

def writeBitsWithOffsetLen (b : BitBuffer) (src : List Byte) (off len : Nat) : Outcome BitBuffer := do
  -- fail before growing the buffer
  failIf (decide (src.length * Consts.BYTE_LEN < off + len)) .endOfStream
  let b := b.ensure len
  let (buf, wp) ← sliceWriteBitsWithOffsetLen b.buffer b.wp src off len
  pure { b with buffer := buf, wp := wp }

def writeBitsWithOffset (b : BitBuffer) (src : List Byte) (off : Nat) : Outcome BitBuffer := do
  let b := b.ensure (src.length * Consts.BYTE_LEN - off)    -- saturating_sub
  let (buf, wp) ← sliceWriteBitsWithOffset b.buffer b.wp src off
  pure { b with buffer := buf, wp := wp }

def writeBits (b : BitBuffer) (src : List Byte) : Outcome BitBuffer := do
  let b := b.ensure (src.length * Consts.BYTE_LEN)
  let (buf, wp) ← sliceWriteBits b.buffer b.wp src
  pure { b with buffer := buf, wp := wp }

def writeBitsWithLen (b : BitBuffer) (src : List Byte) (len : Nat) : Outcome BitBuffer := do
  failIf (decide (src.length * Consts.BYTE_LEN < len)) .endOfStream
  let b := b.ensure len
  let (buf, wp) ← sliceWriteBitsWithLen b.buffer b.wp src len
  pure { b with buffer := buf, wp := wp }

/-- `with_write_position_at(position, |b| b.write_bit(bit))` – the only use in the crate -/
def patchBit (b : BitBuffer) (position : Nat) (bit : Bool) : Outcome BitBuffer := do
  assert (decide (position ≤ b.buffer.length * 8))   -- debug_assert!
  let before := b.wp
  let b' ← ({ b with wp := position }).writeBit bit
  pure { b' with wp := before }

/-- `with_write_position_at(position, f)` for any write `f`: the write position is restored
    whatever `f` returns -/
def atPos (b : BitBuffer) (position : Nat) (f : BitBuffer → Outcome BitBuffer) : Outcome BitBuffer := do
  assert (decide (position ≤ b.buffer.length * 8))   -- debug_assert!
  let before := b.wp
  let b' ← f { b with wp := position }
  pure { b' with wp := before }

/-- `ensure_can_read_bits` -/
def ensureCanRead (b : BitBuffer) (n : Nat) : Outcome Unit :=
  failIf (decide (n > b.wp - b.rp)) .endOfStream

def readBit (b : BitBuffer) : Outcome (Bool × BitBuffer) :=
  if b.rp < b.wp then do
    let (bit, rp) ← sliceReadBit b.buffer b.rp
    pure (bit, { b with rp := rp })
  else err .endOfStream

def readBitsWithOffsetLen (b : BitBuffer) (dst : List Byte) (off len : Nat) :
    Outcome (List Byte × BitBuffer) := do
  b.ensureCanRead len
  let (dst', rp) ← sliceReadBitsWithOffsetLen b.buffer b.rp dst off len
  pure (dst', { b with rp := rp })

def readBits (b : BitBuffer) (dst : List Byte) : Outcome (List Byte × BitBuffer) := do
  b.ensureCanRead (dst.length * Consts.BYTE_LEN)
  let (dst', rp) ← sliceReadBits b.buffer b.rp dst
  pure (dst', { b with rp := rp })

def readBitsWithOffset (b : BitBuffer) (dst : List Byte) (off : Nat) :
    Outcome (List Byte × BitBuffer) := do
  b.ensureCanRead (dst.length * Consts.BYTE_LEN - off)    -- saturating_sub
  let (dst', rp) ← sliceReadBitsWithOffset b.buffer b.rp dst off
  pure (dst', { b with rp := rp })

def readBitsWithLen (b : BitBuffer) (dst : List Byte) (len : Nat) :
    Outcome (List Byte × BitBuffer) := do
  b.ensureCanRead len
  let (dst', rp) ← sliceReadBitsWithLen b.buffer b.rp dst len
  pure (dst', { b with rp := rp })

end BitBuffer

/-- `Bits<'a>`: read-only view of a slice with a declared bit length -/
structure BitsView where
  slice : List Byte
  pos : Nat := 0
  len : Nat
  deriving Repr, DecidableEq

namespace BitsView

/-- `Bits::from((slice, len))`; `debug_assert!(len <= slice.len() * BYTE_LEN)` -/
def fromSliceLen (slice : List Byte) (len : Nat) : Outcome BitsView := do
  assert (decide (len ≤ slice.length * Consts.BYTE_LEN))
  pure { slice := slice, pos := 0, len := len }

def ensureCanRead (b : BitsView) (n : Nat) : Outcome Unit :=
  failIf (decide (n > b.len - b.pos)) .endOfStream

def readBit (b : BitsView) : Outcome (Bool × BitsView) :=
  if b.pos < b.len then do
    let (bit, p) ← sliceReadBit b.slice b.pos
    pure (bit, { b with pos := p })
  else err .endOfStream

def readBitsWithOffsetLen (b : BitsView) (dst : List Byte) (off len : Nat) :
    Outcome (List Byte × BitsView) := do
  b.ensureCanRead len
  let (dst', p) ← sliceReadBitsWithOffsetLen b.slice b.pos dst off len
  pure (dst', { b with pos := p })

def readBits (b : BitsView) (dst : List Byte) : Outcome (List Byte × BitsView) := do
  b.ensureCanRead (dst.length * Consts.BYTE_LEN)
  let (dst', p) ← sliceReadBits b.slice b.pos dst
  pure (dst', { b with pos := p })

def readBitsWithOffset (b : BitsView) (dst : List Byte) (off : Nat) :
    Outcome (List Byte × BitsView) := do
  b.ensureCanRead (dst.length * Consts.BYTE_LEN - off)
  let (dst', p) ← sliceReadBitsWithOffset b.slice b.pos dst off
  pure (dst', { b with pos := p })

def readBitsWithLen (b : BitsView) (dst : List Byte) (len : Nat) :
    Outcome (List Byte × BitsView) := do
  b.ensureCanRead len
  let (dst', p) ← sliceReadBitsWithLen b.slice b.pos dst len
  pure (dst', { b with pos := p })

/-- `set_pos`: clamped to `len`, returns the actual position -/
def setPos (b : BitsView) (p : Nat) : BitsView := { b with pos := min p b.len }
/-- `set_len`: clamped to the slice -/
def setLen (b : BitsView) (l : Nat) : BitsView := { b with len := min l (b.slice.length * Consts.BYTE_LEN) }
/-- `remaining` (saturating) -/
def remaining (b : BitsView) : Nat := b.len - b.pos

end BitsView

end Asn1Verif.Bits
