import Asn1Verif.Codegen.IntTypeLemmas
/-
  C15 — The Rust type chosen for an INTEGER can hold every permitted value.

  Model: `Codegen/IntType.lean` (`choose start stop ext` = parser widening + the two cascades of
  asn1rs-model/src/rust.rs; `IntTy.fnMin/fnMax` = the generated `*_min()/*_max()`;
  `IntTy.constMin/constMax` = `MIN/MIN_T`, `MAX/MAX_T` of the `numbers::Constraint` impl;
  `IntTy.intoAsn` = the range inside `#[asn(integer(..))]`).  Lemmas: `Codegen/IntTypeLemmas.lean`.

  Reading of the property (all quantifiers unbounded over the i64 bounds the parser can read):

  * a constraint is `(min, max)` with `none` = `MIN`/`MAX`; it is `Valid` when the bounds are
    `i64` and `min ≤ max`;
  * `Permits min max v` — `v` satisfies the constraint;
  * "(within 64 bits)", "right signedness": `Window min v` — the 64-bit window of the signedness
    the constraint needs: signed `[-2^63, 2^63-1]` iff it permits a negative value (lower bound
    `MIN` or `< 0`), else unsigned `[0, 2^64-1]`;
  * "narrowest such standard integer type": no standard type (`i8 … u64`, either signedness!) with
    fewer bits holds every permitted value of the window;
  * the code's signedness policy: unsigned iff `min.unwrap_or_default() ≥ 0`.

  Where the current code violates the property the full statement is a `def … : Prop`, refuted on
  a concrete witness, next to the `_partial` theorem with the excluded region as hypothesis:
    - lower bound `MIN` (`min = none`): `unwrap_or_default()` makes it 0 → unsigned type
      (`INTEGER (MIN..100)` → `u8`; `INTEGER (MIN..-5)` → `u64` with `v_max() = 2^64-5`);
    - no constraint at all → `u64`.
-/
namespace Asn1Verif.Props.C15
open Asn1Verif Asn1Verif.Consts Asn1Verif.Codegen.IntType

/-! ### vocabulary -/

/-- well-formed constraint: `i64` bounds, lower ≤ upper -/
def Valid : Option Int → Option Int → Prop
  | some a, some b => InI64 a ∧ InI64 b ∧ a ≤ b
  | some a, none => InI64 a
  | none, some b => InI64 b
  | none, none => True

def LowerOk : Option Int → Int → Prop
  | none, _ => True
  | some a, v => a ≤ v

def UpperOk : Option Int → Int → Prop
  | none, _ => True
  | some b, v => v ≤ b

/-- `v` satisfies `(min..max)` -/
def Permits (min max : Option Int) (v : Int) : Prop := LowerOk min v ∧ UpperOk max v

/-- the constraint permits a negative value -/
def NegPermitted : Option Int → Prop
  | none => True
  | some a => a < 0

/-- 64-bit window of the signedness the constraint needs -/
def Window : Option Int → Int → Prop
  | none, v => RustInt.i64.holds v
  | some a, v => (a < 0 → RustInt.i64.holds v) ∧ (0 ≤ a → RustInt.u64.holds v)

instance : (min max : Option Int) → Decidable (Valid min max)
  | some a, some b => inferInstanceAs (Decidable (InI64 a ∧ InI64 b ∧ a ≤ b))
  | some a, none => inferInstanceAs (Decidable (InI64 a))
  | none, some b => inferInstanceAs (Decidable (InI64 b))
  | none, none => inferInstanceAs (Decidable True)

instance : (min : Option Int) → (v : Int) → Decidable (LowerOk min v)
  | none, _ => inferInstanceAs (Decidable True)
  | some a, v => inferInstanceAs (Decidable (a ≤ v))

instance : (max : Option Int) → (v : Int) → Decidable (UpperOk max v)
  | none, _ => inferInstanceAs (Decidable True)
  | some b, v => inferInstanceAs (Decidable (v ≤ b))

instance (min max : Option Int) (v : Int) : Decidable (Permits min max v) :=
  inferInstanceAs (Decidable (LowerOk min v ∧ UpperOk max v))

instance : (min : Option Int) → Decidable (NegPermitted min)
  | none => inferInstanceAs (Decidable True)
  | some a => inferInstanceAs (Decidable (a < 0))

instance : (min : Option Int) → (v : Int) → Decidable (Window min v)
  | none, v => inferInstanceAs (Decidable (RustInt.i64.holds v))
  | some a, v =>
    inferInstanceAs (Decidable ((a < 0 → RustInt.i64.holds v) ∧ (0 ≤ a → RustInt.u64.holds v)))

/-- local tactic: numeric facts, unfold the vocabulary in the named hypotheses -/
local macro "c15_setup" : tactic => `(tactic|
  (have hc := consts_facts
   try simp only [Valid, Permits, LowerOk, UpperOk, Window, NegPermitted, InI64] at *))

local macro "c15_finish" : tactic => `(tactic|
  (unfold_cascade <;> (repeat' split) <;>
   (try simp only [IntTy.kind, IntTy.fnMin, IntTy.fnMax, IntTy.rangeStr, IntTy.constMin, IntTy.constMax,
      IntTy.stored, IntTy.intoAsn, Option.map, Option.getD,
      RustInt.holds, RustInt.lo, RustInt.hi, RustInt.bits, RustInt.signed] at *) <;>
   unfold_casts <;> (try simp only [Option.some.injEq, Prod.mk.injEq, reduceCtorEq, and_true, true_and,
      false_and, and_false, or_false, false_or, and_self, Bool.true_eq_false, Bool.false_eq_true,
      true_iff, false_iff, iff_true, iff_false, not_false_eq_true, not_true_eq_false, Int.not_lt, Int.not_le]) <;>
   (try omega)))

/-! ### 1. the chosen type holds every permitted value -/

/-- full statement (false for the current code, see `holds_fails`) -/
def Holds : Prop :=
  ∀ (min max : Option Int) (ext : Bool) (v : Int),
    Valid min max → Permits min max v → Window min v → (choose min max ext).kind.holds v

/-- holds whenever the lower bound is a number (any upper bound incl. `MAX`, extensible or not) -/
theorem holds_partial (min max : Option Int) (ext : Bool) (v : Int)
    (hv : Valid min max) (hmin : min ≠ none) (hp : Permits min max v) (hw : Window min v) :
    (choose min max ext).kind.holds v := by
  rw [choose_eq_cascade]
  cases min with
  | none => exact absurd rfl hmin
  | some a => cases max <;> cases ext <;> c15_setup <;> c15_finish

set_option linter.unusedVariables false in
/-- … and for `(MIN..b, ...)` with negative `b` (the extensible cascade falls through to `i64`) -/
theorem holds_ext_min_negative_max (b v : Int) (hb : InI64 b) (hneg : b < 0)
    (hp : Permits none (some b) v) (hw : Window none v) :
    (choose none (some b) true).kind.holds v := by
  rw [choose_eq_cascade]; c15_setup; c15_finish

/-- `INTEGER (MIN..100)` becomes `u8`: `-1` is permitted and not representable -/
theorem holds_fails : ¬ Holds := by
  intro h
  have := h none (some 100) false (-1) (by decide) (by decide) (by decide)
  revert this; decide

/-- unconstrained `INTEGER` becomes `u64` -/
theorem holds_fails_unconstrained :
    Valid none none ∧ Permits none none (-1) ∧ Window none (-1) ∧
    (choose none none false) = .u64 none none false ∧ ¬ (choose none none false).kind.holds (-1) := by
  decide

/-- exactly where it fails: the chosen type holds every permitted value of the window iff the lower
    bound is a number or the range is `(MIN..negative, ...)` -/
theorem holds_iff (min max : Option Int) (ext : Bool) (hv : Valid min max) :
    (∀ v, Permits min max v → Window min v → (choose min max ext).kind.holds v) ↔
      (min ≠ none ∨ (ext = true ∧ ∃ b, max = some b ∧ b < 0)) := by
  constructor
  · intro h
    cases min with
    | some a => exact Or.inl (by simp)
    | none =>
      refine Or.inr ?_
      cases max with
      | none =>
        exfalso
        have := h (-1) (by simp [Permits, LowerOk, UpperOk]) (by decide)
        revert this; cases ext <;> decide
      | some b =>
        rw [choose_eq_cascade] at h
        by_cases hb : b < 0
        · cases ext with
          | true => exact ⟨rfl, b, rfl, hb⟩
          | false =>
            exfalso
            have hc := consts_facts
            simp only [Valid, InI64] at hv
            have := h b (by simp [Permits, LowerOk, UpperOk]) (by simp only [Window, RustInt.holds, RustInt.lo, RustInt.hi]; omega)
            revert this; c15_finish
        · exfalso
          have hc := consts_facts
          simp only [Valid, InI64] at hv
          have := h (-1) (by simp only [Permits, LowerOk, UpperOk, true_and]; omega) (by decide)
          revert this; cases ext <;> c15_finish
  · rintro (hmin | ⟨he, b, hb, hneg⟩)
    · exact fun v hp hw => holds_partial min max ext v hv hmin hp hw
    · subst he hb
      cases min with
      | some a => exact fun v hp hw => holds_partial _ _ _ v hv (by simp) hp hw
      | none => exact fun v hp hw => holds_ext_min_negative_max b v hv hneg hp hw

/-! ### 2. signedness policy -/

/-- full statement: signed iff a negative value is permitted (false, `MIN..`) -/
def RightSignedness : Prop :=
  ∀ (min max : Option Int) (ext : Bool), Valid min max →
    ((choose min max ext).kind.signed = true ↔ NegPermitted min)

theorem signedness_partial (min max : Option Int) (ext : Bool) (hv : Valid min max)
    (hmin : min ≠ none) :
    ((choose min max ext).kind.signed = true ↔ NegPermitted min) := by
  rw [choose_eq_cascade]
  cases min with
  | none => exact absurd rfl hmin
  | some a => cases max <;> cases ext <;> c15_setup <;> c15_finish

theorem signedness_fails : ¬ RightSignedness := by
  intro h
  have := h none (some 100) false (by decide)
  revert this; decide

/-- the policy of the code, stated for every constraint (no exclusion): not extensible ⇒ unsigned
    iff `min.unwrap_or_default() ≥ 0` -/
theorem signedness_policy_fixed (min max : Option Int) (hv : Valid min max) :
    ((choose min max false).kind.signed = false ↔ min.getD 0 ≥ 0) := by
  rw [choose_eq_cascade]
  cases min <;> cases max <;> c15_setup <;> c15_finish

/-! ### 3. narrowest -/

/-- Not extensible: no standard integer type with fewer bits — of either signedness — can hold
    every permitted value of the window.  Full statement, true for every valid constraint (for
    `MIN..` the chosen type is too *narrow*, which is `holds_fails`, never too wide). -/
theorem narrowest (min max : Option Int) (t' : RustInt) (hv : Valid min max)
    (h : ∀ v, Permits min max v → Window min v → t'.holds v) :
    (choose min max false).kind.bits ≤ t'.bits := by
  rw [choose_eq_cascade]
  have hc := consts_facts
  cases min with
  | none =>
    -- `i64::MIN` is permitted: only `i64` holds it, and nothing is wider
    have h1 : t'.holds I64_MIN := by
      apply h
      · cases max with
        | none => simp [Permits, LowerOk, UpperOk]
        | some b => simp only [Permits, LowerOk, UpperOk, true_and]; simp only [Valid, InI64] at hv; omega
      · simp only [Window, RustInt.holds, RustInt.lo, RustInt.hi]; omega
    have ht : t' = .i64 := by
      cases t' <;> simp only [RustInt.holds, RustInt.lo, RustInt.hi] at h1 <;> first | rfl | omega
    subst ht
    cases max <;> c15_finish
  | some a =>
    cases max with
    | some b =>
      simp only [Valid, InI64] at hv
      have h1 : t'.holds a := h a (by simp only [Permits, LowerOk, UpperOk]; omega)
        (by simp only [Window, RustInt.holds, RustInt.lo, RustInt.hi]; omega)
      have h2 : t'.holds b := h b (by simp only [Permits, LowerOk, UpperOk]; omega)
        (by simp only [Window, RustInt.holds, RustInt.lo, RustInt.hi]; omega)
      cases t' <;> simp only [RustInt.holds, RustInt.lo, RustInt.hi] at h1 h2 <;> c15_finish
    | none =>
      simp only [Valid, InI64] at hv
      have h1 : t'.holds a := h a (by simp only [Permits, LowerOk, UpperOk, and_true]; omega)
        (by simp only [Window, RustInt.holds, RustInt.lo, RustInt.hi]; omega)
      by_cases ha : a < 0
      · have h2 : t'.holds I64_MAX := h I64_MAX (by simp only [Permits, LowerOk, UpperOk, and_true]; omega)
          (by simp only [Window, RustInt.holds, RustInt.lo, RustInt.hi]; omega)
        cases t' <;> simp only [RustInt.holds, RustInt.lo, RustInt.hi] at h1 h2 <;> c15_finish
      · have h2 : t'.holds (2 ^ 64 - 1) := h (2 ^ 64 - 1) (by simp only [Permits, LowerOk, UpperOk, and_true]; omega)
          (by simp only [Window, RustInt.holds, RustInt.lo, RustInt.hi]; omega)
        cases t' <;> simp only [RustInt.holds, RustInt.lo, RustInt.hi] at h1 h2 <;> c15_finish

/-- the same for two declared bounds, as a refutation: a standard type with fewer bits than the
    chosen one — signed or unsigned — misses `a` or `b`; e.g. `[-1, 200]` gets `i16` because
    `i8` does not hold 200 and `u8` does not hold -1 -/
theorem narrower_cannot_hold (a b : Int) (t' : RustInt) (hv : Valid (some a) (some b))
    (hb : t'.bits < (choose (some a) (some b) false).kind.bits) :
    ¬ (t'.holds a ∧ t'.holds b) := by
  intro ⟨h1, h2⟩
  have := narrowest (some a) (some b) t' hv (by
    intro v hp _
    simp only [Permits, LowerOk, UpperOk, Window, RustInt.holds, RustInt.lo, RustInt.hi] at *
    omega)
  omega

/-! ### 4. extensible ranges map to 64-bit types -/

/-- every extensible range — any bounds whatsoever — becomes `i64` or `u64` and stays extensible -/
theorem extensible_is_64bit (min max : Option Int) :
    (choose min max true).kind.bits = 64 ∧ (choose min max true).ext = true := by
  rw [choose_eq_cascade]
  simp only [cascade, if_true]
  refine ⟨?_, extCascade_ext min max⟩
  rcases extCascade_kind min max with h | h <;> rw [h] <;> rfl

/-- a range that is not extensible never becomes extensible -/
theorem fixed_stays_fixed (min max : Option Int) : (choose min max false).ext = false := by
  rw [choose_eq_cascade]
  simp only [cascade, Bool.false_eq_true, if_false]
  exact fixedCascade_ext min max

/-- out-of-root values: with a numeric lower bound the 64-bit type holds the *whole* window of the
    root's signedness, not only the root range.  (For `min ≥ 0` that window is unsigned: a negative
    extension value is not representable in the `u64` the code chooses.) -/
theorem extensible_holds_window_partial (min max : Option Int) (v : Int) (hv : Valid min max)
    (hmin : min ≠ none) (hw : Window min v) : (choose min max true).kind.holds v := by
  rw [choose_eq_cascade]
  cases min with
  | none => exact absurd rfl hmin
  | some a => cases max <;> c15_setup <;> c15_finish

/-! ### 5. accessors, constants, attribute -/

/-- full statement: `*_min()` / `*_max()` return the declared bounds (false: `MIN..negative`) -/
def AccessorsDeclared : Prop :=
  ∀ (min max : Option Int) (ext : Bool), Valid min max →
    (∀ a, min = some a → (choose min max ext).fnMin = a) ∧
    (∀ b, max = some b → (choose min max ext).fnMax = b)

/-- excluded: `(MIN..b)` with `b < 0`, not extensible -/
theorem accessors_partial (min max : Option Int) (ext : Bool) (hv : Valid min max)
    (hex : ¬ (min = none ∧ ext = false ∧ ∃ b, max = some b ∧ b < 0)) :
    (∀ a, min = some a → (choose min max ext).fnMin = a) ∧
    (∀ b, max = some b → (choose min max ext).fnMax = b) := by
  rw [choose_eq_cascade]
  cases min <;> cases max <;> cases ext <;> c15_setup <;>
    simp only [Option.some.injEq, forall_eq', reduceCtorEq, false_implies, implies_true, true_and,
      and_true, false_and, and_false, not_false_eq_true, exists_eq_left', Int.not_lt] at hex ⊢ <;>
    c15_finish

/-- `INTEGER (MIN..-5)`: `v_max()` returns `18446744073709551611` -/
theorem accessors_fails : ¬ AccessorsDeclared := by
  intro h
  have := (h none (some (-5)) false (by decide)).2 (-5) rfl
  revert this; decide

/-- whatever the accessors return is a value of the generated type (the generated `const fn`
    compiles) — every valid constraint, no exclusion -/
theorem accessors_in_type (min max : Option Int) (ext : Bool) (hv : Valid min max) :
    (choose min max ext).kind.holds (choose min max ext).fnMin ∧
    (choose min max ext).kind.holds (choose min max ext).fnMax := by
  rw [choose_eq_cascade]
  cases min <;> cases max <;> cases ext <;> c15_setup <;> c15_finish

/-- full statement for `MIN/MIN_T`, `MAX/MAX_T`: a declared bound has its constant, except where
    the front end deliberately widens `(0..MAX)`, `(0..i64::MAX)`, `(MIN..i64::MAX)` to "no constraint" -/
def ConstantsDeclared : Prop :=
  ∀ (min max : Option Int) (ext : Bool), Valid min max →
    (∀ a, min = some a → (choose min max ext).constMin = some a ∨
        (a = 0 ∧ (max = none ∨ max = some I64_MAX) ∧ (choose min max ext).constMin = none)) ∧
    (∀ b, max = some b → (choose min max ext).constMax = some b ∨
        (b = I64_MAX ∧ (min = none ∨ min = some 0) ∧ (choose min max ext).constMax = none))

theorem constants_partial (min max : Option Int) (ext : Bool) (hv : Valid min max)
    (hex : ¬ (min = none ∧ ext = false ∧ ∃ b, max = some b ∧ b < 0)) :
    (∀ a, min = some a → (choose min max ext).constMin = some a ∨
        (a = 0 ∧ (max = none ∨ max = some I64_MAX) ∧ (choose min max ext).constMin = none)) ∧
    (∀ b, max = some b → (choose min max ext).constMax = some b ∨
        (b = I64_MAX ∧ (min = none ∨ min = some 0) ∧ (choose min max ext).constMax = none)) := by
  rw [choose_eq_cascade]
  cases min <;> cases max <;> cases ext <;> c15_setup <;>
    simp only [Option.some.injEq, forall_eq', reduceCtorEq, false_implies, implies_true, true_and,
      and_true, false_and, and_false, not_false_eq_true, exists_eq_left', Int.not_lt,
      or_false, false_or] at hex ⊢ <;>
    c15_finish

theorem constants_fails : ¬ ConstantsDeclared := by
  intro h
  have := (h none (some (-5)) false (by decide)).2 (-5) rfl
  revert this; decide

/-- both bounds declared (and not the widened `(0..i64::MAX)`): the stored range, both accessors, all
    four constants and the range inside `#[asn(integer(..))]` are exactly the declared bounds -/
theorem declared_bounds_everywhere (a b : Int) (ext : Bool) (hv : Valid (some a) (some b))
    (hw : ¬ (a = 0 ∧ b = I64_MAX)) :
    let t := choose (some a) (some b) ext
    t.fnMin = a ∧ t.fnMax = b ∧ t.constMin = some a ∧ t.constMax = some b ∧
    t.intoAsn = (some a, some b, ext) := by
  intro t
  show (choose (some a) (some b) ext).fnMin = a ∧ (choose (some a) (some b) ext).fnMax = b ∧
    (choose (some a) (some b) ext).constMin = some a ∧ (choose (some a) (some b) ext).constMax = some b ∧
    (choose (some a) (some b) ext).intoAsn = (some a, some b, ext)
  rw [choose_eq_cascade]
  cases ext <;> c15_setup <;> c15_finish

/-! ### non-vacuity: concrete instances satisfying the hypotheses, and the worked examples -/

example : Valid (some (-1)) (some 200) ∧ (some (-1) : Option Int) ≠ none ∧
    Permits (some (-1)) (some 200) 200 ∧ Window (some (-1)) 200 := by decide
example : (choose (some (-1)) (some 200) false) = .i16 (-1) 200 false := by decide
example : (choose (some 0) (some 255) false) = .u8 0 255 false := by decide
example : (choose (some 0) (some 256) false) = .u16 0 256 false := by decide
example : (choose (some (-128)) (some 127) false) = .i8 (-128) 127 false := by decide
example : (choose (some (-129)) (some 0) false) = .i16 (-129) 0 false := by decide
example : (choose (some 5) none false) = .u64 (some 5) (some 9223372036854775807) false := by decide
example : (choose (some (-5)) none false) = .i64 (-5) 9223372036854775807 false := by decide
example : (choose (some 0) (some 100) true) = .u64 (some 0) (some 100) true := by decide
example : (choose (some (-3)) (some 100) true) = .i64 (-3) 100 true := by decide
example : (choose none (some (-5)) true) = .i64 (-9223372036854775808) (-5) true := by decide
-- the deviations
example : (choose none (some 100) false) = .u8 0 100 false := by decide
example : (choose none (some 100) true) = .u64 none (some 100) true := by decide
example : (choose none (some (-5)) false) = .u64 (some 0) (some 18446744073709551611) false := by decide
example : (choose none none false) = .u64 none none false := by decide
example : (choose (some 0) none false) = .u64 none none false := by decide
-- hypotheses of `narrowest`, `narrower_cannot_hold`, `holds_ext_min_negative_max`,
-- `accessors_partial`, `declared_bounds_everywhere`
example : ∀ v, Permits (some 0) (some 100) v → Window (some 0) v → RustInt.i8.holds v := by
  intro v hp hw; simp only [Permits, LowerOk, UpperOk, Window, RustInt.holds, RustInt.lo, RustInt.hi] at *; omega
example : Valid (some (-1)) (some 200) ∧
    RustInt.i8.bits < (choose (some (-1)) (some 200) false).kind.bits ∧
    RustInt.u8.bits < (choose (some (-1)) (some 200) false).kind.bits := by decide
example : InI64 (-5) ∧ (-5 : Int) < 0 ∧ Permits none (some (-5)) (-7) ∧ Window none (-7) := by decide
example : ¬ ((some 3 : Option Int) = none ∧ false = false ∧ ∃ b, (some 9 : Option Int) = some b ∧ b < 0) := by
  simp
example : Valid (some 3) (some 9) ∧ ¬ ((3 : Int) = 0 ∧ (9 : Int) = I64_MAX) := by decide

end Asn1Verif.Props.C15
