import Asn1Verif.Uper.CompatSplit
import Asn1Verif.Codegen.TagsLemmas
/-
  C05 — Extension additions are forward/backward compatible across schema versions: if V2 differs
  from V1 only by appending extension additions (SEQUENCE/SET), extension alternatives (CHOICE) or
  extension values (ENUMERATED), then every V1 encoding decodes under V2 to the same root content
  with the new additions absent, and every V2 encoding decodes under V1 to the same root content
  with unknown additions skipped (unknown CHOICE/ENUMERATED extension values may be reported as an
  error but never as a wrong value).  In both directions the reader ends exactly at the end of the
  message.

  Code mirror:  `Uper/Impl.lean` (`enc`, `dec`; `readExtHeader`, `skipUnknown` mirror commit 91e31d8)
  Lemmas:       `Uper/Compat*.lean` on top of the C01 library `Uper/RoundTrip*.lean`:
                `walk` — along the common components the reader follows the writer whatever the two
                sides do behind them (`Cont`); forward tail = unknown-to-the-writer additions are
                absent; backward tail = `skipUnknown` steps over the bitmap and the open types.

  The bits stand between ARBITRARY `pre` and `post`, and the reader's cursor ends at
  `pre.length + bits.length`: exactly at the end of the message.
  ENUMERATED (`enum_fwd`, `enum_bwd_known`, `enum_bwd_unknown`) and the unknown CHOICE alternative
  (`choice_bwd_unknown`) are FULL statements (hypotheses: `u64` range facts only).  Where the
  content of a known component is read back, the hypothesis is `WF` of C01 (`_partial`): fewer than
  16K items per SEQUENCE OF / restricted string, open-type contents below 16K octets.  For
  `seq_bwd_partial` this includes the payloads of the additions V1 does not know: a fragmented
  (≥ 16K octets) unknown addition is NOT skipped correctly by `skip_unknown_extension_additions`
  (it reads one length determinant and jumps `len * 8` bits: known limitation, same class as the
  open-type finding of C01).

  SET.  The statements are about descriptors: the component list in the order of the generated
  `read_seq`/`write_seq`, and `addExtensions` APPENDS the new additions to it.  For a SEQUENCE that
  is the textual order.  For a SET the generator sorts (`sort_fields_canonically`, model
  `Codegen/Tags.lean`, property C16); `set_version_descriptor` ties the two: the descriptor the
  generator emits for a SET version with appended additions is the old descriptor followed by the
  new additions, with the same `EXTENDED_AFTER_FIELD` — so `seq_fwd_partial`/`seq_bwd_partial`
  apply to SET versions as they do to SEQUENCE versions.  (Before the repair of the sort the
  additions were sorted by tag among themselves and a new addition with a lower tag moved in
  front of an old one: former finding F-set-additions-sorted, witness `zoo_ver::SetV1/SetV2`.)
-/
namespace Asn1Verif.Props.C05
open Asn1Verif Asn1Verif.Per Asn1Verif.Uper Outcome

/-- V2 = V1 + extension additions (SEQUENCE/SET: all OPTIONAL/DEFAULT, which is what the generator
    emits) or + extension alternatives (CHOICE) -/
def addExtensions (t : Ty) (adds : Fields) : Option Ty :=
  match t with
  | .seq so fc (some k) fields =>
    if adds.allOpt then some (.seq so (fc + adds.length) (some k) (fields.append adds)) else none
  | .choice std total true alts => some (.choice std (total + adds.length) true (alts.append adds))
  | _ => none

/-- V2 = V1 + `n` extension values (ENUMERATED) -/
def addEnumValues (t : Ty) (n : Nat) : Option Ty :=
  match t with
  | .enum std total true => some (.enum std (total + n) true)
  | _ => none

/-- a V1 value seen as a V2 value: the new additions absent (`NONE` / the DEFAULT value) -/
def extendVal (adds : Fields) : Val → Val
  | .seq vs => .seq (vs.append adds.absents)
  | v => v

/-- the new versions keep the generated constants consistent -/
theorem addExtensions_consistent (t t2 : Ty) (adds : Fields) (hc : t.consistent = true)
    (ha : adds.consistent = true) (h : addExtensions t adds = some t2) : t2.consistent = true := by
  have happ := consistent_append
  cases t <;> simp only [addExtensions] at h <;> try (cases h; done)
  case seq so fc ea fields =>
    cases ea with
    | none => cases h
    | some k =>
      simp only at h
      split at h
      · injection h with h; subst h
        simp only [Ty.consistent, Bool.and_eq_true, beq_iff_eq, decide_eq_true_eq] at hc ⊢
        refine ⟨⟨by rw [Fields.length_append, hc.1.1], ?_, ?_⟩, happ _ _ hc.2 ha⟩
        · rw [Fields.length_append]; omega
        · rw [optCount_append _ _ _ (by omega)]; exact hc.1.2.2
      · cases h
  case choice std total ext alts =>
    cases ext with
    | false => cases h
    | true =>
      simp only at h
      injection h with h; subst h
      simp only [Ty.consistent, Bool.and_eq_true, beq_iff_eq, decide_eq_true_eq] at hc ⊢
      exact ⟨⟨by rw [Fields.length_append, hc.1.1], by omega⟩, happ _ _ hc.2 ha⟩

/-! ### ENUMERATED (full) -/

/-- forward: every V1 value reads back under V2 -/
theorem enum_fwd (std total n : Nat) (ext : Bool) (i : Nat) (bits pre post : Bits)
    (hstd : std ≤ U64_MAX) (hi : i < total) (hi64 : i ≤ U64_MAX)
    (h : enc (.enum std total ext) (.enum i) = ok bits) :
    dec (.enum std (total + n) ext) (pre ++ bits ++ post) pre.length
      = ok (.enum i, pre.length + bits.length) := by
  rw [List.append_assoc]
  refine rt_enum std (total + n) ext (.enum i) bits (by simpa [Ty.rtOk] using hstd)
    (by simp only [valOk, Bool.and_eq_true, decide_eq_true_eq]; omega) ?_ _ _ post
    (At.of_append pre bits post)
  simpa only [enc] using h

/-- backward, a value V1 knows -/
theorem enum_bwd_known (std total n : Nat) (ext : Bool) (i : Nat) (bits pre post : Bits)
    (hstd : std ≤ U64_MAX) (hi : i < total) (hi64 : i ≤ U64_MAX)
    (h : enc (.enum std (total + n) ext) (.enum i) = ok bits) :
    dec (.enum std total ext) (pre ++ bits ++ post) pre.length
      = ok (.enum i, pre.length + bits.length) := by
  rw [List.append_assoc]
  refine rt_enum std total ext (.enum i) bits (by simpa [Ty.rtOk] using hstd)
    (by simp only [valOk, Bool.and_eq_true, decide_eq_true_eq]; omega) ?_ _ _ post
    (At.of_append pre bits post)
  simpa only [enc] using h

/-- backward, an extension value V1 does not know: an error, never a value -/
theorem enum_bwd_unknown (std total n : Nat) (ext : Bool) (i : Nat) (bits pre post : Bits)
    (hstd : std ≤ U64_MAX) (hi : total ≤ i) (hi64 : i ≤ U64_MAX)
    (h : enc (.enum std (total + n) ext) (.enum i) = ok bits) :
    dec (.enum std total ext) (pre ++ bits ++ post) pre.length = err .invalidChoiceIndex := by
  rw [List.append_assoc]
  exact enum_unknown std total (total + n) ext i bits hi hstd hi64 h _ _ post
    (At.of_append pre bits post)

/-! ### CHOICE -/

/-- forward, reader only (full): whatever decodes under V1 decodes to the same value and position
    under V2, for every input -/
theorem choice_fwd_read (std total : Nat) (ext : Bool) (alts adds : Fields) (inp : Bits) (pos : Nat)
    (r : Val × Nat) (hc : (Ty.choice std total ext alts).consistent = true)
    (h : dec (.choice std total ext alts) inp pos = ok r) :
    dec (.choice std (total + adds.length) ext (alts.append adds)) inp pos = ok r := by
  simp only [Ty.consistent, Bool.and_eq_true, beq_iff_eq, decide_eq_true_eq] at hc
  exact choice_read_mono std total adds.length ext alts adds inp pos r hc.1.1 hc.1.2 h

/-- forward: a V1 encoding decodes under V2 to the same value -/
theorem choice_fwd_partial (std total : Nat) (alts adds : Fields) (v : Val) (t2 : Ty)
    (bits pre post : Bits) (h2 : addExtensions (.choice std total true alts) adds = some t2)
    (hw : WF (.choice std total true alts) v = true)
    (h : enc (.choice std total true alts) v = ok bits) :
    dec t2 (pre ++ bits ++ post) pre.length = ok (v, pre.length + bits.length) := by
  simp only [addExtensions, Option.some.injEq] at h2
  subst h2
  have hc : (Ty.choice std total true alts).consistent = true := by
    simp only [WF, Bool.and_eq_true] at hw; exact hw.1.1
  apply choice_fwd_read std total true alts adds _ _ _ hc
  simp only [WF, Bool.and_eq_true] at hw
  rw [List.append_assoc]
  exact rt _ hw.1.2 v bits hw.2 h _ _ post (At.of_append pre bits post)

/-- backward, an alternative V1 knows -/
theorem choice_bwd_known_partial (std total : Nat) (alts adds : Fields) (i : Nat) (x : Val) (t2 : Ty)
    (bits pre post : Bits) (h2 : addExtensions (.choice std total true alts) adds = some t2)
    (hw : WF (.choice std total true alts) (.choice i x) = true)
    (h : enc t2 (.choice i x) = ok bits) :
    dec (.choice std total true alts) (pre ++ bits ++ post) pre.length
      = ok (.choice i x, pre.length + bits.length) := by
  simp only [addExtensions, Option.some.injEq] at h2
  subst h2
  simp only [WF, Bool.and_eq_true] at hw
  have hc := hw.1.1
  simp only [Ty.consistent, Bool.and_eq_true, beq_iff_eq, decide_eq_true_eq] at hc
  have hi : i < alts.length := by
    have := hw.2
    simp only [valOk, Bool.and_eq_true, decide_eq_true_eq] at this
    omega
  rw [enc_choice_append std total _ true alts adds i x hi] at h
  rw [List.append_assoc]
  exact rt _ hw.1.2 _ bits hw.2 h _ _ post (At.of_append pre bits post)

/-- backward, an extension alternative V1 does not know (full): `InvalidChoiceIndex`, never a value -/
theorem choice_bwd_unknown (std total : Nat) (alts adds : Fields) (i : Nat) (x : Val) (t2 : Ty)
    (bits pre post : Bits) (h2 : addExtensions (.choice std total true alts) adds = some t2)
    (hs : std ≤ total) (hstd : std ≤ U64_MAX) (hi : total ≤ i) (hi64 : i ≤ U64_MAX)
    (h : enc t2 (.choice i x) = ok bits) :
    dec (.choice std total true alts) (pre ++ bits ++ post) pre.length = err .invalidChoiceIndex := by
  simp only [addExtensions, Option.some.injEq] at h2
  subst h2
  rw [List.append_assoc]
  exact choice_unknown std total _ alts _ i x bits hs hi hstd hi64 h _ _ post
    (At.of_append pre bits post)

/-! ### SEQUENCE / SET -/

/-- forward: a V1 encoding decodes under V2 to the same components with every new addition absent
    (`NONE` / its DEFAULT value), ending exactly behind the message -/
theorem seq_fwd_partial (so fc k : Nat) (fields adds : Fields) (v : Val) (t2 : Ty)
    (bits pre post : Bits) (h2 : addExtensions (.seq so fc (some k) fields) adds = some t2)
    (hw : WF (.seq so fc (some k) fields) v = true)
    (h : enc (.seq so fc (some k) fields) v = ok bits) :
    dec t2 (pre ++ bits ++ post) pre.length = ok (extendVal adds v, pre.length + bits.length) := by
  simp only [addExtensions] at h2
  split at h2
  · rename_i ho
    injection h2 with h2; subst h2
    cases v <;> try (simp [enc] at h; done)
    rename_i vs
    simp only [WF, Bool.and_eq_true] at hw
    obtain ⟨⟨hc, hrt⟩, hv⟩ := hw
    simp only [Ty.consistent, Bool.and_eq_true, beq_iff_eq, decide_eq_true_eq] at hc
    simp only [Ty.rtOk, Bool.and_eq_true, decide_eq_true_eq] at hrt
    simp only [valOk] at hv
    have hl : vs.length = fields.length := by
      simp only [enc] at h
      obtain ⟨fin, henc, _⟩ := bind_ok_elim h
      exact encFields_length _ _ _ _ _ henc
    rw [List.append_assoc]
    exact seq_fwd so fc so (fc + adds.length) k fields adds vs bits hc.1.2.1 hl hrt.2 hv hrt.1 ho h _ _
      post (At.of_append pre bits post)
  · cases h2

/-- backward: a V2 encoding — components of V1 `vs`, then the additions V1 does not know `avs` —
    decodes under V1 to `vs`, the unknown additions skipped, ending exactly behind the message -/
theorem seq_bwd_partial (so fc k : Nat) (fields adds : Fields) (vs avs : Vals) (t2 : Ty)
    (bits pre post : Bits) (h2 : addExtensions (.seq so fc (some k) fields) adds = some t2)
    (hc : (Ty.seq so fc (some k) fields).consistent = true) (hl : vs.length = fields.length)
    (hw : WF t2 (.seq (vs.append avs)) = true)
    (h : enc t2 (.seq (vs.append avs)) = ok bits) :
    dec (.seq so fc (some k) fields) (pre ++ bits ++ post) pre.length
      = ok (.seq vs, pre.length + bits.length) := by
  simp only [addExtensions] at h2
  split at h2
  · rename_i ho
    injection h2 with h2; subst h2
    simp only [WF, Bool.and_eq_true] at hw
    obtain ⟨⟨_, hrt⟩, hv⟩ := hw
    simp only [Ty.consistent, Bool.and_eq_true, beq_iff_eq, decide_eq_true_eq] at hc
    simp only [Ty.rtOk, Bool.and_eq_true, decide_eq_true_eq] at hrt
    simp only [valOk] at hv
    have hr := rtOk_append fields adds (k + 1) hrt.2
    have hvs := valOkFields_append fields adds vs avs (k + 1) hl hv
    have e : k + 1 - fields.length = 0 := by omega
    rw [e] at hvs
    rw [List.append_assoc]
    exact seq_bwd so fc so (fc + adds.length) k fields adds vs avs bits hc.1.2.1 hl hr.1 hvs.1 hrt.1 ho
      hvs.2 h _ _ post (At.of_append pre bits post)
  · cases h2

/-! ### SET: appending additions to the text appends them to the descriptor -/

/-- **SET versions**: V2's text is V1's text with extension additions appended (marker behind
    component `k`; the tagging mode stays — a list that is tagged automatically gets untagged
    additions only).  Then the order of the `read_value`/`write_value` calls the generator emits
    for V2 is the order emitted for V1 followed by the new additions as written, and
    `EXTENDED_AFTER_FIELD` is the same: V2's descriptor is `addExtensions` of V1's. -/
theorem set_version_descriptor (fields adds : List Codegen.Tags.RField) (k : Nat)
    (hk : k < fields.length)
    (hn : Codegen.Tags.NoneTagged fields → Codegen.Tags.NoneTagged adds)
    (em1 em2 : Codegen.Tags.Emitted)
    (h1 : Codegen.Tags.writeConstraints .sort fields (some k) = .ok em1)
    (h2 : Codegen.Tags.writeConstraints .sort (fields ++ adds) (some k) = .ok em2) :
    em2.order = em1.order ++ adds.map (·.name) ∧ em2.extAfter = em1.extAfter :=
  Codegen.Tags.writeConstraints_sort_append fields adds k hk hn em1 em2 h1 h2

section SetWitness
open Asn1Verif.Codegen.Tags

/-- `zoo_ver::SetV1 ::= SET { a [0] INTEGER (0..7), ..., b [5] BOOLEAN OPTIONAL }` -/
def setV1 : List RField :=
  [{ name := "a", tag := some (Tag.contextSpecific 0), typeTag := some (Tag.universal 2),
     kind := .builtin .integer, presence := .required },
   { name := "b", tag := some (Tag.contextSpecific 5), typeTag := some (Tag.universal 1),
     kind := .builtin .boolean, presence := .optional }]

/-- `SetV2` = `SetV1` + `c [2] INTEGER (0..255) OPTIONAL`: the new addition has a lower tag than
    the old one -/
def setV2Adds : List RField :=
  [{ name := "c", tag := some (Tag.contextSpecific 2), typeTag := some (Tag.universal 2),
     kind := .builtin .integer, presence := .optional }]

-- regression, the witness of the former finding: V2 is emitted `a, b, c` (was `a, c, b`, so that a
-- V1 encoding {a=5, b=TRUE} decoded under V2 as {a=5, c=128, b absent}); the hypotheses of
-- `set_version_descriptor` hold on it
example : (writeConstraints .sort setV1 (some 0)).bind (fun em => .ok (em.order, em.extAfter))
      = .ok (["a", "b"], some 0) ∧
    (writeConstraints .sort (setV1 ++ setV2Adds) (some 0)).bind
      (fun em => .ok (em.order, em.extAfter)) = .ok (["a", "b", "c"], some 0) := by
  simp [setV1, setV2Adds, writeConstraints, assignImplicitTags, tagConsts, tagConst, emitOrder,
    sortFieldsCanonically, prepare, sortKeyed, List.mergeSort,
    List.MergeSort.Internal.splitInTwo, List.merge, keyLe, extendedFlag, List.zipIdx,
    Outcome.bind]
example : 0 < setV1.length ∧ (NoneTagged setV1 → NoneTagged setV2Adds) := by decide

end SetWitness

/-! ### non-vacuity: three versions of a message -/

def msgV1 : Ty :=
  .seq 1 2 (some 1) (.cons .m (.int (some 0) (some 255) false 8 false) (.cons .o .bool .nil))

def addsV2 : Fields :=
  .cons .o (.str .ia5 none none false) (.cons (.d (.int 5)) (.int (some 0) (some 7) false 8 false) .nil)

def msgV2 : Ty :=
  .seq 1 4 (some 1) (.cons .m (.int (some 0) (some 255) false 8 false) (.cons .o .bool
    (.cons .o (.str .ia5 none none false)
      (.cons (.d (.int 5)) (.int (some 0) (some 7) false 8 false) .nil))))

def valV1 : Val := .seq (.cons (.int 77) (.cons (.some (.bool true)) .nil))
def valV2 : Val :=
  .seq ((Vals.cons (.int 77) (.cons (.some (.bool true)) .nil)).append
    (.cons (.some (.str [0x41#8, 0x42#8])) (.cons (.int 3) .nil)))

example : addExtensions msgV1 addsV2 = some msgV2 := rfl
example : WF msgV1 valV1 = true ∧ (enc msgV1 valV1).isOk = true := by decide +kernel
example : WF msgV2 valV2 = true ∧ (enc msgV2 valV2).isOk = true := by decide +kernel
example : msgV1.consistent = true := by decide
example : extendVal addsV2 valV1 =
    .seq (.cons (.int 77) (.cons (.some (.bool true)) (.cons .none (.cons (.int 5) .nil)))) := rfl

def choV1 : Ty := .choice 2 2 true (.cons .m .bool (.cons .m .null .nil))
def choAdds : Fields := .cons .m (.oct none none false) .nil
def choV2 : Ty := .choice 2 3 true (.cons .m .bool (.cons .m .null (.cons .m (.oct none none false) .nil)))

example : addExtensions choV1 choAdds = some choV2 := rfl
example : WF choV1 (.choice 0 (.bool true)) = true := by decide
example : (enc choV2 (.choice 2 (.oct [0xAB#8]))).isOk = true := by decide +kernel
-- `seq_bwd_partial`: the V2 value splits into V1's components and the unknown additions
example : (Vals.cons (.int 77) (.cons (.some (.bool true)) .nil)).length
    = (Fields.cons .m (.int (some 0) (some 255) false 8 false) (.cons .o .bool .nil)).length := rfl
-- `choice_bwd_known_partial` / `choice_bwd_unknown`: alternative 0 is known to V1, alternative 2 is not
example : (enc choV2 (.choice 0 (.bool true))).isOk = true := by decide +kernel
example : (2 : Nat) ≤ 2 ∧ (2 : Nat) ≤ U64_MAX ∧ (2 : Nat) ≤ 2 := by decide
-- `enum_fwd`, `enum_bwd_known`, `enum_bwd_unknown`
example : (3 : Nat) ≤ U64_MAX ∧ (2 : Nat) < 3 ∧ (3 : Nat) ≤ 4 ∧ (4 : Nat) ≤ U64_MAX := by decide
example : enc (.enum 3 3 true) (.enum 2) = ok [false, true, false] := by decide
example : addEnumValues (.enum 3 3 true) 2 = some (.enum 3 5 true) := rfl
example : enc (.enum 3 5 true) (.enum 4) = ok ([true] ++ [false, false, false, false, false, false, true]) := by
  decide

/-! ### the full statements (hypothesis `Typed`: no exclusion of the findings) and their refutation

  The `_partial` theorems above exclude, through `WF`, the regions of the C01 findings.  With
  `Typed` instead the statements are false for the current code; refuted on the smallest witness:
  a hand-written MANDATORY extension addition of SEQUENCE OF type (written inline, read as an open
  type).  In the regions of F-frag (≥ 16K items) and of fragmented open types (≥ 16K octets; for
  `seq_bwd` also the payload of an UNKNOWN addition, which `skip_unknown_extension_additions`
  steps over with a single length determinant) the witnesses are too large to evaluate here; see
  `C01.frag_ignored` for the symbolic form of F-frag. -/

def seq_fwd_full : Prop :=
  ∀ (so fc k : Nat) (fields adds : Fields) (v : Val) (t2 : Ty) (bits pre post : Bits),
    addExtensions (.seq so fc (some k) fields) adds = some t2 →
    Typed (.seq so fc (some k) fields) v = true → enc (.seq so fc (some k) fields) v = ok bits →
    dec t2 (pre ++ bits ++ post) pre.length = ok (extendVal adds v, pre.length + bits.length)

def seq_bwd_full : Prop :=
  ∀ (so fc k : Nat) (fields adds : Fields) (vs avs : Vals) (t2 : Ty) (bits pre post : Bits),
    addExtensions (.seq so fc (some k) fields) adds = some t2 →
    (Ty.seq so fc (some k) fields).consistent = true → vs.length = fields.length →
    Typed t2 (.seq (vs.append avs)) = true → enc t2 (.seq (vs.append avs)) = ok bits →
    dec (.seq so fc (some k) fields) (pre ++ bits ++ post) pre.length
      = ok (.seq vs, pre.length + bits.length)

def choice_fwd_full : Prop :=
  ∀ (std total : Nat) (alts adds : Fields) (v : Val) (t2 : Ty) (bits pre post : Bits),
    addExtensions (.choice std total true alts) adds = some t2 →
    Typed (.choice std total true alts) v = true → enc (.choice std total true alts) v = ok bits →
    dec t2 (pre ++ bits ++ post) pre.length = ok (v, pre.length + bits.length)

def badAdds : Fields := .cons .o .bool .nil
/-- `SEQUENCE { a BOOLEAN, ..., b SEQUENCE OF BOOLEAN }` with `b` mandatory -/
def badFields : Fields := .cons .m .bool (.cons .m (.seqOf none none false .bool) .nil)
def badV1 : Ty := .seq 0 2 (some 0) badFields
def badV2 : Ty := .seq 0 (2 + badAdds.length) (some 0) (badFields.append badAdds)
def badVal : Vals := .cons (.bool true) (.cons (.list (.cons (.bool true) .nil)) .nil)
def badBits : Bits := [true, true] ++ [false, false, false, false, false, false, false] ++ [true] ++
  [false, false, false, false, false, false, false, true, true]
/-- the same with the new addition absent: bitmap `10` -/
def badBits2 : Bits := [true, true] ++ [false, false, false, false, false, false, true] ++
  [true, false] ++ [false, false, false, false, false, false, false, true, true]

theorem seq_fwd_full_false : ¬ seq_fwd_full := fun h => by
  have := h 0 2 0 badFields badAdds (.seq badVal) badV2 badBits [] [] rfl (by decide +kernel)
    (by decide +kernel)
  have hok := congrArg Outcome.isOk this
  revert hok
  decide +kernel

theorem seq_bwd_full_false : ¬ seq_bwd_full := fun h => by
  have := h 0 2 0 badFields badAdds badVal (.cons .none .nil) badV2 badBits2 [] [] rfl
    (by decide +kernel) (by decide +kernel) (by decide +kernel) (by decide +kernel)
  have hok := congrArg Outcome.isOk this
  revert hok
  decide +kernel

theorem choice_fwd_full_false : ¬ choice_fwd_full := fun h => by
  have := h 1 1 (.cons .m badV1 .nil) (.cons .m .null .nil) (.choice 0 (.seq badVal))
    (.choice 1 (1 + 1) true ((Fields.cons .m badV1 .nil).append (.cons .m .null .nil)))
    ([false] ++ badBits) [] [] rfl (by decide +kernel) (by decide +kernel)
  have hok := congrArg Outcome.isOk this
  revert hok
  decide +kernel

end Asn1Verif.Props.C05
