import Asn1Verif.Proto.WireLemmas
import Asn1Verif.Proto.Codec
import Asn1Verif.Proto.CodecLemmas
import Asn1Verif.Proto.ReaderLemmas
import Asn1Verif.Proto.RoundTripLemmas
import Asn1Verif.Proto.IntWidthLemmas
/-
  C17 — Protobuf round trip preserves values up to proto3 default equivalence.

  Models: `Proto/Wire.lean` (mirror of src/protocol/protobuf/mod.rs), `Proto/Codec.lean` (mirror of
  src/rw/proto_write.rs, src/rw/proto_read.rs, peq.rs).  Lemmas: `Proto/WireLemmas.lean` (wire
  primitives), `Proto/CodecLemmas.lean` (back ends, counters), `Proto/ReaderLemmas.lean` (reader on
  untrusted input), `Proto/RoundTripLemmas.lean` (index of a written message, round trip),
  `Proto/IntWidthLemmas.lean` (the integer encoding against the Rust type of the converter).
  Tie to the code: `./check C17` (streams proto-rt, proto-peq, proto-dec over the compiled zoo).
-/
namespace Asn1Verif.Props.C17
open Asn1Verif Asn1Verif.Proto Outcome
open Asn1Verif.Uper (Ty Val Vals Fields Kind)

/-! ### wire primitives (all unbounded) -/

/-- every `u64` survives `write_varint` / `read_varint`, whatever follows in the buffer -/
theorem varint_roundtrip (n : Nat) (h : n < 2 ^ 64) (post : List Byte) :
    readVarint (writeVarint n ++ post) = ok (n, post) :=
  readVarint_writeVarint n h post

/-- `read_varint` is total: on every input it returns a value or `Err(Io(UnexpectedEof))`; it
    cannot overflow (the shift is a plain `<<` that drops bits; at most ten octets are read) -/
theorem varint_read_total (bs : List Byte) : readVarint bs ≠ panic :=
  readVarintLoop_ne_panic _ _ _ _

/-- the only error of `read_varint` is the end of the input -/
theorem varint_read_err (bs : List Byte) (k : ErrKind) (h : readVarint bs = err k) : k = .endOfStream :=
  readVarintLoop_err _ _ _ _ _ h

/-- a successful `read_varint` consumed between one and eleven… in fact at most ten octets;
    the bound proved here is the loop bound -/
theorem varint_read_consumes (bs : List Byte) (v : Nat) (rest : List Byte)
    (h : readVarint bs = ok (v, rest)) : ∃ pre, bs = pre ++ rest ∧ 0 < pre.length ∧ pre.length ≤ 11 :=
  readVarint_ok h

/-- over-long input: the eleventh octet is not looked at (ten continuation octets are accepted and
    the bits beyond 64 are dropped) — not a panic, but also not an error -/
example : readVarint (List.replicate 10 0xff#8 ++ [0x01#8]) = ok (2 ^ 64 - 1, [0x01#8]) := by decide

/-- `sint32`: zig-zag, `as u64` (sign extension), varint, `as u32`, un-zig-zag is the identity on
    every `i32` -/
theorem zigzag32_roundtrip (v : BitVec 32) (post : List Byte) :
    (readVarint (writeVarint (sint32ToVarint v) ++ post)).bind
      (fun (n, rest) => ok (varintToSint32 n, rest)) = ok (v, post) := by
  rw [readVarint_writeVarint _ (sint32ToVarint_lt v)]
  simp [Outcome.bind, varintToSint32_sint32ToVarint]

/-- `sint64` on every `i64` -/
theorem zigzag64_roundtrip (v : BitVec 64) (post : List Byte) :
    (readVarint (writeVarint (sint64ToVarint v) ++ post)).bind
      (fun (n, rest) => ok (varintToSint64 n, rest)) = ok (v, post) := by
  rw [readVarint_writeVarint _ (sint64ToVarint_lt v)]
  simp [Outcome.bind, varintToSint64_sint64ToVarint]

/-- the pure part: un-zig-zag inverts zig-zag for both widths -/
theorem unzigzag_zigzag (v32 : BitVec 32) (v64 : BitVec 64) :
    unzigzag32 (zigzag32 v32) = v32 ∧ unzigzag64 (zigzag64 v64) = v64 :=
  ⟨unzigzag32_zigzag32 v32, unzigzag64_zigzag64 v64⟩

/-- field numbers below 2^29 and the four wire types survive `write_tag` / `read_tag` -/
theorem tag_roundtrip (field : Nat) (h : field < 2 ^ 29) (f : Fmt) (post : List Byte) :
    readTag (writeTag field f ++ post) = ok ((field, f), post) :=
  readTag_writeTag h f post

/-- … and the bound is sharp: `field << 3` is a `u32` shift, field 2^29 is written as field 0 -/
example : readTag (writeTag (2 ^ 29) .varint) = ok ((0, .varint), []) := by decide

/-- `write_bytes`/`write_string` then `read_content_offset_and_length`: the content range announced
    is exactly the octets written -/
theorem bytes_roundtrip (b post : List Byte) (h : b.length < 2 ^ 64) :
    ∃ off, contentOffLen (writeBytes b ++ post) .lenDelim = ok (off, b.length) ∧
      ((writeBytes b ++ post).drop off).take b.length = b := by
  refine ⟨(writeVarint b.length).length, contentOffLen_writeBytes b post h, ?_⟩
  rw [writeBytes, List.append_assoc, List.drop_left, List.take_left]

theorem bool_roundtrip (b : Bool) (post : List Byte) :
    readBool (writeBool b ++ post) = ok (b, post) :=
  readBool_writeBool b post

/-! ### the two writer back ends -/

/-- `ProtobufWriter::default()` (growable `Vec`) and `ProtobufWriter::from(&mut [u8])` (fixed slice of
    `n` octets) produce the same octets whenever the slice is long enough; a slice that is too short
    yields the I/O error (`WriteZero`), never a partial success.  For every type and value. -/
theorem backends_agree (t : Ty) (v : Val) (bytes : List Byte) (h : encode t v = ok bytes) (n : Nat) :
    encodeTo ⟨none, []⟩ t v = ok bytes ∧
    encodeTo ⟨some n, []⟩ t v = (if bytes.length ≤ n then ok bytes else err .insufficientSpace) := by
  rcases encode_split t v with ⟨s, tot, e, i, rfl, rfl⟩ | ⟨h1, h2⟩
  · -- root ENUMERATED: one bare varint
    simp only [encode] at h
    simp only [encodeTo]
    split at h
    · rename_i hi
      simp only [ok.injEq] at h
      subst h
      simp only [hi, if_true, Sink.write, List.length_nil, Nat.zero_add, List.nil_append, map_ok, true_and]
      split <;> rfl
    · simp at h
  · rw [h1] at h
    rw [h2, h2]
    cases hI : encodeI t v with
    | panic => rw [hI] at h; simp at h
    | err k => rw [hI] at h; simp at h
    | ok l =>
      rw [hI] at h
      simp only [map_ok, ok.injEq] at h
      subst h
      simp only [bind_ok, writeItems_vec, List.nil_append, true_and]
      rw [writeItems_slice n [] l (by simp)]
      simp only [List.length_nil, Nat.zero_add, List.nil_append]
      by_cases hn : (itemsBytes l).length ≤ n
      · simp only [if_pos hn, bind_ok]
      · simp only [if_neg hn, bind_err]

/-- the hypothesis is satisfiable: SEQUENCE { a INTEGER (0..15), b BOOLEAN OPTIONAL } -/
example : encode (.seq 1 2 none (.cons .m (.int (some 0) (some 15) false 8 false) (.cons .o .bool .nil)))
    (.seq (.cons (.int 7) (.cons (.some (.bool true)) .nil))) = ok [0x08#8, 0x07#8, 0x10#8, 0x01#8] := by
  decide

/-! ### field numbers: writer and reader count alike -/

/-- the full statement: writer and reader assign the same field number to every component of every
    message type — after any `n` components the writer's `tag_counter` (started at 0) plus one and
    the reader's `tag_counter` (started at 1) are both `(number of non-NULL components among them)
    + 1`, whatever the value / the input -/
def counter_agree : Prop :=
  ∀ (fs : Fields) (n : Nat),
    (∀ vs ls c', encFieldsI (Fields.take fs n) vs 0 = ok (ls, c') → c' + 1 = Fields.countTo fs n + 1) ∧
    (∀ fx src tags vs st', decFields fx src (Fields.take fs n) (.enclosed 1 tags) = ok (vs, st') →
      ∃ tags', st' = .enclosed (Fields.countTo fs n + 1) tags')

/-- Field numbers are not stored anywhere: writer and reader each *count* while they walk the
    components.  For every component list and every position `n` such that no OPTIONAL NULL lies in
    front of it: after the first `n` components the writer's `tag_counter` (started at 0) is the
    number of non-NULL components among them — the next component is written with that number plus
    one — and the reader's `tag_counter` (started at 1) is the same number plus one, whatever the
    input was.  Absent OPTIONALs, lists (one step, however many elements), nested messages, CHOICEs
    count one; a mandatory NULL counts zero on both sides.  Induction over the component list. -/
theorem counter_agree_partial (fs : Fields) (n : Nat) (h : Fields.noOptNull (Fields.take fs n) = true) :
    (∀ vs ls c', encFieldsI (Fields.take fs n) vs 0 = ok (ls, c') → c' + 1 = Fields.countTo fs n + 1) ∧
    (∀ fx src tags vs st', decFields fx src (Fields.take fs n) (.enclosed 1 tags) = ok (vs, st') →
      ∃ tags', st' = .enclosed (Fields.countTo fs n + 1) tags') := by
  constructor
  · intro vs ls c' he
    have := encFieldsI_counter _ vs 0 ls c' h he
    rw [countTo_take] at this
    omega
  · intro fx src tags vs st' hd
    obtain ⟨tags', ht⟩ := decFields_counter fx src _ 1 tags vs st' h hd
    rw [countTo_take] at ht
    exact ⟨tags', by rw [ht, Nat.add_comm]⟩

/-- … and every field a component writes carries the writer's counter plus one -/
theorem writer_number (t : Ty) (v : Val) (c : Nat) (l : List Item) (c' : Nat) (h : encI t v c = ok (l, c')) :
    (c' = c + if Ty.counts t then 1 else 0) ∧ ∀ it ∈ l, it.num = c + 1 :=
  encI_num t v c l c' h

/-- non-vacuity: SEQUENCE { a NULL, b BOOLEAN OPTIONAL, c INTEGER (0..3) }, position 2 -/
example : Fields.noOptNull (Fields.take
    (.cons .m .null (.cons .o .bool (.cons .m (.int (some 0) (some 3) false 8 false) .nil))) 2) = true ∧
    Fields.countTo (.cons .m .null (.cons .o .bool (.cons .m (.int (some 0) (some 3) false 8 false) .nil))) 2 = 1 := by
  decide

/-- SEQUENCE { n NULL OPTIONAL, x BOOLEAN OPTIONAL, y BOOLEAN } -/
def optNullTy : Ty := .seq 2 3 none (.cons .o .null (.cons .o .bool (.cons .m .bool .nil)))
def optNullVal : Val := .seq (.cons (.some .null) (.cons .none (.cons (.bool true) .nil)))

/-- the full statement is false: an absent OPTIONAL NULL advances the writer's counter (`None` counts
    one), a present one does not, so the counter after it is not a function of the type -/
theorem counter_agree_false : ¬ counter_agree := by
  intro h
  have := (h (.cons .o .null .nil) 1).1 (.cons .none .nil) [[]] 1 (by decide)
  simp [Fields.countTo, Ty.counts] at this

/-- The hypothesis cannot be dropped.  An OPTIONAL NULL that is present does not count on the
    writer's side, an absent one does; the reader decides which one it was by looking for the
    *next* component's number.  `{ n present, x absent, y TRUE }` is written as field 2 = 1 and
    read back as `{ n absent, x TRUE, y FALSE }`: the counters disagree after the first component,
    and the values are not protobuf-equal. -/
theorem counter_disagree_opt_null :
    encode optNullTy optNullVal = ok [0x10#8, 0x01#8] ∧
    (match decode none optNullTy [0x10#8, 0x01#8] with
     | .ok v => v == Val.seq (.cons .none (.cons (.some (.bool true)) (.cons (.bool false) .nil))) &&
                !Val.protoEq optNullTy optNullVal v
     | _ => false) = true := by
  decide

/-! ### round trip up to proto3 default equivalence -/

/-- decidable forms of "the result is …" (`Val` has no decidable equality, only `==`) -/
def unwinds (o : Outcome Val) : Bool := o.isPanic
def yields (o : Outcome Val) (v : Val) : Bool :=
  match o with
  | .ok x => x == v
  | _ => false
def fails (o : Outcome Val) (k : ErrKind) : Bool :=
  match o with
  | .err e => e == k
  | _ => false

theorem eq_panic_of_unwinds {o : Outcome Val} (h : unwinds o = true) : o = panic := by
  cases o <;> simp [unwinds, Outcome.isPanic] at h ⊢


/-- SEQUENCE { i SEQUENCE { a INTEGER (0..15) } } -/
def nestedTy : Ty := .seq 0 1 none (.cons .m (.seq 0 1 none (.cons .m (.int (some 0) (some 15) false 8 false) .nil)) .nil)
/-- SEQUENCE { b BIT STRING } -/
def bitsTy : Ty := .seq 0 1 none (.cons .m (.bits none none false) .nil)
/-- SEQUENCE { l SEQUENCE OF SEQUENCE OF INTEGER (0..3) } (`Vec<Vec<u8>>`) -/
def listListTy : Ty :=
  .seq 0 1 none (.cons .m (.seqOf none none false (.seqOf none none false (.int (some 0) (some 3) false 8 false))) .nil)

/-- the full statement of C17 on the mirror: whatever the writer accepts is read back to a
    protobuf-equal value (`ProtobufEq`: identical, except that an absent OPTIONAL and a present
    value equal to `T::default()` are not told apart) -/
def proto_roundtrip : Prop :=
  ∀ (t : Ty) (v : Val) (bytes : List Byte), encode t v = ok bytes →
    ∃ v', decode none t bytes = ok v' ∧ Val.protoEq t v v' = true

/-- **Round trip**, proved by structural induction over the type for every value in the decidable
    region `rtOK t v` (`Proto/RoundTripLemmas.lean`), for the present reader (`fx = none`) and for
    every repaired one:
      * flat messages of scalars — BOOLEAN, INTEGER of all four wire classes (uint32, uint64, sint32,
        sint64; every `u64`/`i64`), ENUMERATED, the five string types, OCTET STRING, BIT STRING,
        mandatory NULL —, OPTIONAL and DEFAULT components of all of them in any combination,
      * SEQUENCE OF / SET OF of every such type and of nested messages and CHOICEs, also OPTIONAL
        (where `Some(vec![])` comes back as `None` — the one place where `ProtobufEq` is weaker
        than equality),
      * nested SEQUENCE / SET to any depth, transparent wrappers, CHOICE, CHOICE in CHOICE, CHOICE of
        SEQUENCE, at the root and as components.
    `rtOK` excludes exactly the shapes in which the code does NOT round-trip (counterexamples below,
    each reproduced on the real crate by `./check C17`):
      * an INTEGER value outside the range of the wire class selected from the constraint constants:
        not reachable for any INTEGER type the converter generates (`int_in_region_generated`,
        `int_roundtrip_generated` below — since the repair of F-proto-int-ext an extensible
        constraint selects the 64-bit class of its 64-bit Rust type), only for a hand-written
        `#[asn(integer(0..255))] x: u64`, i.e. a value that violates a non-extensible constraint,
      * SEQUENCE OF whose element is itself a SEQUENCE OF or NULL (F-proto-nested-list),
      * a CHOICE alternative that is NULL or a SEQUENCE OF (F-proto-choice-empty, F-proto-choice-list),
      * an OPTIONAL NULL component (`counter_disagree_opt_null`),
    and sizes the wire format cannot carry (2^29 or more components, an ENUMERATED index or a bit
    length of 2^32 / 2^64 or more; the output fits a `usize`). -/
theorem proto_roundtrip_partial (fx : Option Fix) (t : Ty) (v : Val) (bytes : List Byte)
    (hok : rtOK t v = true) (henc : encode t v = ok bytes) (hlen : bytes.length ≤ U64_MAX) :
    ∃ v', decode fx t bytes = ok v' ∧ Val.protoEq t v v' = true :=
  roundtrip fx t v bytes hok henc hlen

/-- SEQUENCE { a INTEGER (-5..5), b INTEGER OPTIONAL, l SEQUENCE OF SEQUENCE { x BOOLEAN OPTIONAL,
    s IA5String }, p CHOICE { q CHOICE { n INTEGER (0..100), f BOOLEAN }, t IA5String } OPTIONAL,
    z NULL, e ENUMERATED {..3} DEFAULT 1, o SEQUENCE OF INTEGER (0..255) OPTIONAL, bs BIT STRING } -/
def richTy : Ty :=
  .seq 3 8 none
    (.cons .m (.int (some (-5)) (some 5) false 8 true)
    (.cons .o (.int none none false 64 true)
    (.cons .m (.seqOf none none false
        (.seq 1 2 none (.cons .o .bool (.cons .m (.str .ia5 none none false) .nil))))
    (.cons .o (.choice 2 2 false
        (.cons .m (.choice 2 2 false
            (.cons .m (.int (some 0) (some 100) false 8 false) (.cons .m .bool .nil)))
        (.cons .m (.str .ia5 none none false) .nil)))
    (.cons .m .null
    (.cons (.d (.enum 1)) (.enum 3 3 false)
    (.cons .o (.seqOf none none false (.int (some 0) (some 255) false 8 false))
    (.cons .m (.bits none none false) .nil))))))))

def richVal : Val :=
  .seq (.cons (.int (-3)) (.cons (.some (.int (-1)))
    (.cons (.list (.cons (.seq (.cons .none (.cons (.str [0x41#8]) .nil)))
                  (.cons (.seq (.cons (.some (.bool false)) (.cons (.str []) .nil))) .nil)))
    (.cons (.some (.choice 0 (.choice 1 (.bool true))))
    (.cons .null (.cons (.enum 2) (.cons (.some (.list .nil))
    (.cons (.bits [true, false, true]) .nil))))))))

/-- non-vacuity: the rich value lies in the region, is written, and comes back protobuf-equal but
    not equal (`o = Some(vec![])` is read as `None`) -/
example : rtOK richTy richVal = true ∧
    (match encode richTy richVal with
     | .ok bytes =>
       (match decode none richTy bytes with
        | .ok v' => Val.protoEq richTy richVal v' && !(richVal == v')
        | _ => false)
     | _ => false) = true := by decide

/-! #### INTEGER: nothing is excluded for the types of the converter (F-proto-int-ext repaired) -/

/-- The INTEGER clause of `rtOK` is never reached by converter output: for every constraint
    `(min..max)` / `(min..max, ...)` with `i64` bounds (`none` = `MIN`/`MAX`; empty root included)
    the descriptor the generated code shows — constants of `write_integer_constraint_type`, Rust
    type of `asn_fixed_integer_to_rust_type` / `asn_extensible_integer_to_rust` — and every value
    the writer accepts for it (every value of that Rust type) lie in the region. -/
theorem int_in_region_generated (min max : Option Int) (ext : Bool)
    (hmin : Codegen.IntType.OptInI64 min) (hmax : Codegen.IntType.OptInI64 max) (i : Int) (c : Nat)
    (r : List Item × Nat) (henc : encI (generatedTy min max ext) (.int i) c = ok r) :
    rtOK (generatedTy min max ext) (.int i) = true := by
  simp only [generatedTy, encI] at henc
  split at henc
  · simp at henc
  · rename_i hc
    simp only [generatedTy, rtOK]
    exact generatedTy_fits min max ext hmin hmax i (Decidable.not_not.mp hc)

/-- **INTEGER round trip, unconditional.**  `X ::= INTEGER (min..max[, ...])` for every constraint
    with `i64` bounds — the one-component message the converter generates for it — and every value
    of its Rust type: what the writer emits is read back to the very same number, by the present
    reader and every repaired one.  No excluded region. -/
theorem int_roundtrip_generated (fx : Option Fix) (min max : Option Int) (ext : Bool)
    (hmin : Codegen.IntType.OptInI64 min) (hmax : Codegen.IntType.OptInI64 max) (i : Int) (bytes : List Byte)
    (henc : encode (wrap (generatedTy min max ext)) (wrapV (.int i)) = ok bytes) :
    decode fx (wrap (generatedTy min max ext)) bytes = ok (wrapV (.int i)) := by
  simp only [generatedTy] at henc ⊢
  exact wrap_int_roundtrip fx _ _ _ _ _ i bytes (generatedTy_fits min max ext hmin hmax i) henc

/-- … and for every extensible constraint on a 64-bit Rust type whatever its bounds (hand-written
    attributes included): `MIN`/`MAX` bound the root only, every `u64`/`i64` is written in full -/
theorem int_roundtrip_extensible (fx : Option Fix) (min max : Option Int) (signed : Bool) (i : Int)
    (bytes : List Byte)
    (henc : encode (wrap (.int min max true 64 signed)) (wrapV (.int i)) = ok bytes) :
    decode fx (wrap (.int min max true 64 signed)) bytes = ok (wrapV (.int i)) :=
  wrap_int_roundtrip fx min max true 64 signed i bytes
    (fun hc => intFits_ext min max i (castInt64_range signed i hc).1 (castInt64_range signed i hc).2) henc

/-- non-vacuity: INTEGER (-100..100, ...) (`i64`) holds -2^40, which is written (sint64) -/
example : generatedTy (some (-100)) (some 100) true = .int (some (-100)) (some 100) true 64 true ∧
    encode (wrap (generatedTy (some (-100)) (some 100) true)) (wrapV (.int (-1099511627776))) =
      ok [0x08#8, 0xff#8, 0xff#8, 0xff#8, 0xff#8, 0xff#8, 0x3f#8] := ⟨by rfl, by decide⟩

/-- regression (former witness of F-proto-int-ext, `roundtrip_fails_ext_int`): INTEGER (0..255, ...)
    is held in a `u64`; 2^32 + 5 was written `as u32` and came back as 5.  It is now inside the
    region, written as the uint64 varint `85 80 80 80 10` and read back unchanged; so is -1 (the
    `i64` view of `u64::MAX`), which came back as 4294967295. -/
example :
    let t : Ty := .seq 0 1 none (.cons .m (.int (some 0) (some 255) true 64 true) .nil)
    let v : Val := .seq (.cons (.int 4294967301) .nil)
    let w : Val := .seq (.cons (.int (-1)) .nil)
    rtOK t v = true ∧ rtOK t w = true ∧
    encode t v = ok [0x08#8, 0x85#8, 0x80#8, 0x80#8, 0x80#8, 0x10#8] ∧
    (match encode t v with
     | .ok bytes => yields (decode none t bytes) v && Val.protoEq t v v
     | _ => false) = true ∧
    (match encode t w with
     | .ok bytes => yields (decode none t bytes) w
     | _ => false) = true := by decide

/-- the in-root values keep their octets: 200 is `08 c8 01` as before (uint32 and uint64 varints
    coincide); a negative lower bound: zig-zag of `|v| < 2^30` is the same in 32 and 64 bits, above
    that the old code sign-extended the 32-bit zig-zag value to ten octets -/
example : intToVarint .u32 200 = intToVarint .u64 200 ∧
    intToVarint .s32 (2 ^ 30 - 1) = intToVarint .s64 (2 ^ 30 - 1) ∧
    intToVarint .s32 (-(2 ^ 30)) = intToVarint .s64 (-(2 ^ 30)) ∧
    intToVarint .s32 (2 ^ 30) = 2 ^ 64 - 2 ^ 31 ∧ intToVarint .s64 (2 ^ 30) = 2 ^ 31 := by decide

/-- F-proto-choice-empty: CHOICE { only NULL } is written as no octet at all and cannot be read -/
theorem roundtrip_fails_choice_null :
    let t : Ty := .choice 1 1 false (.cons .m .null .nil)
    let v : Val := .choice 0 .null
    rtOK t v = false ∧
    (match encode t v with
     | .ok bytes => bytes.isEmpty && fails (decode none t bytes) .endOfStream
     | _ => false) = true := by decide

/-- F-proto-choice-list: a SEQUENCE OF alternative with two elements comes back with one -/
theorem roundtrip_fails_choice_list :
    let t : Ty := .choice 1 1 false (.cons .m (.seqOf none none false .bool) .nil)
    let v : Val := .choice 0 (.list (.cons (.bool true) (.cons (.bool false) .nil)))
    rtOK t v = false ∧
    (match encode t v with
     | .ok bytes => yields (decode none t bytes) (.choice 0 (.list (.cons (.bool true) .nil)))
     | _ => false) = true := by decide

/-- F-proto-nested-list: `[[1, 2], [3]]` is written as three elements of one repeated field; the
    reader does not return.  `[[]]` (one empty inner list) is written as nothing and read as `[]`. -/
theorem roundtrip_fails_nested_list :
    (match encode listListTy (.seq (.cons (.list (.cons (.list (.cons (.int 1) (.cons (.int 2) .nil)))
        (.cons (.list (.cons (.int 3) .nil)) .nil))) .nil)) with
     | .ok bytes => bytes == [0x08#8, 0x01#8, 0x08#8, 0x02#8, 0x08#8, 0x03#8] && unwinds (decode none listListTy bytes)
     | _ => false) = true ∧
    (match encode listListTy (.seq (.cons (.list (.cons (.list .nil) .nil)) .nil)) with
     | .ok bytes => bytes.isEmpty && yields (decode none listListTy bytes) (.seq (.cons (.list .nil) .nil))
     | _ => false) = true := by decide

/-- SEQUENCE OF NULL: the elements write nothing, their number is lost (predicted by the mirror,
    confirmed on the real crate in a scratch harness; the zoo has no such type) -/
theorem roundtrip_fails_list_null :
    let t : Ty := .seq 0 1 none (.cons .m (.seqOf none none false .null) .nil)
    let v : Val := .seq (.cons (.list (.cons .null (.cons .null .nil))) .nil)
    rtOK t v = false ∧
    (match encode t v with
     | .ok bytes => bytes.isEmpty && yields (decode none t bytes) (.seq (.cons (.list .nil) .nil))
     | _ => false) = true := by decide

theorem proto_roundtrip_false : ¬ proto_roundtrip := by
  intro h
  obtain ⟨v', hd, _⟩ := h (.choice 1 1 false (.cons .m .null .nil)) (.choice 0 .null) [] (by decide)
  have : fails (decode none (.choice 1 1 false (.cons .m .null .nil)) []) .endOfStream = true := by decide
  rw [hd] at this
  simp [fails] at this

/-! ### the reader on untrusted input (protobuf part of C04) -/

/-- the full statement: the reader never unwinds -/
def proto_reader_total : Prop := ∀ (t : Ty) (bytes : List Byte), decode none t bytes ≠ panic

/-- F-proto-oob: a truncated nested message — field 1 announces four octets, one is present:
    `&self.source[position..range.end]` in `index_enclosed` is out of range -/
theorem reader_panics_truncated_nested : decode none nestedTy [0x0a#8, 0x04#8, 0x08#8] = panic :=
  eq_panic_of_unwinds (by decide)

/-- the valid message `0a 02 08 07` cut after two octets panics, after three (inner varint missing)
    it is an error: every cut inside the *announced* nested content panics -/
example : unwinds (decode none nestedTy [0x0a#8, 0x02#8]) = true ∧
    unwinds (decode none nestedTy [0x0a#8, 0x02#8, 0x08#8]) = true ∧
    fails (decode none nestedTy [0x0a#8]) .endOfStream = true := by decide

/-- F-proto-len-ovf: a ten-octet length varint (2^64 − 1): `content_position + content_length`
    overflows `usize` -/
theorem reader_panics_len_overflow :
    decode none nestedTy ([0x0a#8] ++ List.replicate 9 0xff#8 ++ [0x01#8]) = panic :=
  eq_panic_of_unwinds (by decide)

/-- F-proto-bits: a BIT STRING content shorter than the eight octets of the trailing bit length,
    and an absent mandatory BIT STRING: `bytes.len() - U64_SIZE` underflows -/
theorem reader_panics_bitstring_short :
    decode none bitsTy [0x0a#8, 0x03#8, 0x01#8, 0x02#8, 0x03#8] = panic ∧ decode none bitsTy [] = panic :=
  ⟨eq_panic_of_unwinds (by decide), eq_panic_of_unwinds (by decide)⟩

/-- F-proto-nested-list: any element in a SEQUENCE OF SEQUENCE OF: `read_set_or_sequence_of` in the
    `Root` state never leaves its loop (modelled as `panic`; the process dies by allocation failure) -/
theorem reader_diverges_nested_list : decode none listListTy [0x08#8, 0x01#8] = panic :=
  eq_panic_of_unwinds (by decide)

theorem proto_reader_total_false : ¬ proto_reader_total :=
  fun h => h nestedTy _ reader_panics_truncated_nested

/-- The reader with the proposed repairs — `checked_add` and `content_end ≤ range.end` in
    `index_enclosed`, a length check in the BIT STRING reader (either variant for the absent
    field), an error instead of the loop in the `Root` state — never unwinds: for every type and
    every input. -/
theorem proto_reader_total_fixed (f : Fix) (t : Ty) (bytes : List Byte) : decode (some f) t bytes ≠ panic := by
  have hg := dec_fixed_good f bytes t (.root 0 bytes.length) (by simp [RState.InB])
  simp only [decode]
  cases hd : dec (some f) bytes t (.root 0 bytes.length) with
  | panic => rw [hd] at hg; exact hg.elim
  | err e => simp
  | ok p => simp

/-- The present reader under the exact guard: run the repaired reader whose new checks fail with a
    class the reader uses nowhere else (`guardFix`).  If none of them fires — every announced length
    fits the enclosing range, every BIT STRING content has at least eight octets, no SEQUENCE OF is
    read in the `Root` state — the present reader returns the very same result, in particular it
    does not unwind.  (The buffer length fits a `usize`.) -/
theorem proto_reader_total_partial (t : Ty) (bytes : List Byte) (hlen : bytes.length ≤ U64_MAX)
    (hguard : decode (some guardFix) t bytes ≠ err .lengthExceedsLimit) :
    decode none t bytes = decode (some guardFix) t bytes ∧ decode none t bytes ≠ panic := by
  have ha := dec_agree bytes hlen t (.root 0 bytes.length) (by simp [RState.InB])
  have heq : decode none t bytes = decode (some guardFix) t bytes := by
    simp only [decode] at hguard ⊢
    rcases ha with h | h
    · rw [h] at hguard; exact absurd rfl hguard
    · rw [h]
  exact ⟨heq, by rw [heq]; exact proto_reader_total_fixed _ _ _⟩

/-- non-vacuity: a valid message passes the guard; an invalid one that is merely *rejected* passes
    it as well -/
example : yields (decode (some guardFix) nestedTy [0x0a#8, 0x02#8, 0x08#8, 0x07#8])
      (.seq (.cons (.seq (.cons (.int 7) .nil)) .nil)) = true ∧
    fails (decode (some guardFix) nestedTy [0x0a#8]) .endOfStream = true := by decide

/-- the guard is sufficient, not necessary: an unknown trailing field whose announced length
    exceeds the input is never sliced by the present reader (it is ignored), the guard refuses it -/
example : yields (decode none nestedTy [0x0a#8, 0x02#8, 0x08#8, 0x07#8, 0x12#8, 0x05#8])
      (.seq (.cons (.seq (.cons (.int 7) .nil)) .nil)) = true ∧
    fails (decode (some guardFix) nestedTy [0x0a#8, 0x02#8, 0x08#8, 0x07#8, 0x12#8, 0x05#8])
      .lengthExceedsLimit = true := by decide

end Asn1Verif.Props.C17
