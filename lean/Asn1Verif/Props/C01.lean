import Asn1Verif.Uper.RoundTrip
import Asn1Verif.Uper.RoundTripFrag
/-
  C01 — UPER round trip: if UPER encoding succeeds then decoding the produced bits yields a value
  equal to the original and consumes exactly the produced bits; also when several values are
  written back-to-back into one writer and read back in the same order from one reader.

  Code mirror:   `Uper/Impl.lean` (`enc` = `UperWriter`, `dec` = `UperReader` at a position of a
                 fixed input), tied to `src/rw/uper.rs` by the `uper` correspondence stream
  Lemmas:        `Uper/RoundTrip*.lean` on top of the C10 library `Per/PrimLemmas*.lean`

  `roundtrip_partial`: mutual structural induction over `Ty`/`Fields` — EVERY type (all constraint
  shapes, the deviation classes of C02 included: `(lb..MAX)`, `(MIN..ub)`, lengths with `ub ≥ 64K`),
  any nesting, any number of components / extension additions, OCTET/BIT/UTF8 strings of any
  length (fragmented), the bits embedded between ARBITRARY `pre` and `post` (hence back-to-back:
  `many_roundtrip`).  Hypothesis `WF t v` (decidable, recursive):
    `t.consistent`  the generated constants agree with the component list
    `t.rtOk`        INTEGER bounds within `i64` (`min.getD 0`, `max.getD i64::MAX`); ENUMERATED/CHOICE
                    root count, number of components, OCTET/BIT STRING upper bound within `u64`;
                    no MANDATORY extension addition of SEQUENCE OF type (written inline by
                    `write_sequence_of`, read as an open type by `read_sequence_of`: finding)
    `valOk t v`     INTEGER value within `i64` and unchanged by the cast to its Rust type
                    (`castInt width signed v = v`); ENUMERATED/CHOICE index `< total`, `≤ u64::MAX`;
                    SEQUENCE OF and restricted strings with fewer than 16384 items (finding F-frag:
                    the announced fragment size is ignored); the content of every open type
                    (present OPTIONAL/DEFAULT/buffered extension addition, extension alternative)
                    pads to fewer than 16384 octets (the reader does not reassemble fragments).
  Not needed: string contents (validity is implied by the successful encoding), DEFAULT values
  (`Val.beq` decides equality), any bound on OCTET/BIT/UTF8 string lengths.
  The full statement `roundtrip` (hypothesis `Typed`: the same WITHOUT the three exclusions) is
  false for the current code: refuted on a witness.
-/
namespace Asn1Verif.Props.C01
open Asn1Verif Asn1Verif.Per Asn1Verif.Uper Outcome

/-- the form used by the induction: `bits` stands at `pos` in the input (`Uper.At`) -/
theorem roundtrip_at_partial (t : Ty) (v : Val) (bits : Bits) (hw : WF t v = true)
    (h : enc t v = ok bits) (inp : Bits) (pos : Nat) (post : Bits) (hat : At inp pos bits post) :
    dec t inp pos = ok (v, pos + bits.length) := by
  simp only [WF, Bool.and_eq_true] at hw
  exact rt t hw.1.2 v bits hw.2 h inp pos post hat

/-- C01: decoding what was encoded, between arbitrary surroundings -/
theorem roundtrip_partial (t : Ty) (v : Val) (bits pre post : Bits) (hw : WF t v = true)
    (h : enc t v = ok bits) :
    dec t (pre ++ bits ++ post) pre.length = ok (v, pre.length + bits.length) := by
  rw [List.append_assoc]
  exact roundtrip_at_partial t v bits hw h _ _ post (At.of_append pre bits post)

/-- … alternatives of a CHOICE … -/
theorem roundtrip_alt_partial (alts : Fields) (i : Nat) (x : Val) (bits pre post : Bits)
    (ht : alts.rtOk alts.length = true) (hv : valOkAlt alts i x = true)
    (h : encAlt alts i x = ok bits) :
    decAlt alts i (pre ++ bits ++ post) pre.length = ok (x, pre.length + bits.length) := by
  rw [List.append_assoc]
  exact rtAlt alts alts.length i ht x bits hv h _ _ post (At.of_append pre bits post)

/-- … and the components of a SEQUENCE/SET (`Uper.FieldsRT`: the reader follows the writer's walk
    over the components, `Uper.StateInv` ties cursor, bitmap window and indices to the writer's
    accumulator) -/
theorem roundtrip_fields (fs : Fields) : FieldsRT fs := rtFields fs

/-! ### several values in one buffer -/

/-- values written back-to-back into one writer -/
def encMany : List (Ty × Val) → Outcome Bits
  | [] => ok []
  | tv :: r => do
    let a ← enc tv.1 tv.2
    let b ← encMany r
    ok (a ++ b)

/-- … and read in the same order from one reader -/
def decMany : List Ty → RdP (List Val)
  | [] => fun _ pos => ok ([], pos)
  | t :: r => fun inp pos => do
    let (v, p) ← dec t inp pos
    let (vs, p') ← decMany r inp p
    ok (v :: vs, p')

theorem many_roundtrip_at_partial : ∀ (l : List (Ty × Val)) (bits : Bits),
    (∀ tv ∈ l, WF tv.1 tv.2 = true) → encMany l = ok bits →
    ∀ (inp : Bits) (pos : Nat) (post : Bits), At inp pos bits post →
      decMany (l.map (·.1)) inp pos = ok (l.map (·.2), pos + bits.length)
  | [], bits, _, h, inp, pos, post, _ => by
    simp only [encMany] at h
    injection h with h; subst h
    rfl
  | tv :: r, bits, hw, h, inp, pos, post, hat => by
    simp only [encMany] at h
    obtain ⟨a, ha, h⟩ := bind_ok_elim h
    obtain ⟨b, hb, h⟩ := bind_ok_elim h
    injection h with h; subst h
    simp only [List.map_cons, decMany]
    rw [roundtrip_at_partial tv.1 tv.2 a (hw tv List.mem_cons_self) ha inp pos _ hat.left]
    simp only [Outcome.bind_ok]
    rw [many_roundtrip_at_partial r b (fun x hx => hw x (List.mem_cons_of_mem _ hx)) hb inp _ post
      hat.right]
    simp only [Outcome.bind_ok, List.length_append, Nat.add_assoc]

/-- C01, back-to-back: the values come back in order and the reader ends exactly at the end of the
    buffer (remaining = 0) -/
theorem many_roundtrip_partial (l : List (Ty × Val)) (bits : Bits)
    (hw : ∀ tv ∈ l, WF tv.1 tv.2 = true) (h : encMany l = ok bits) :
    decMany (l.map (·.1)) bits 0 = ok (l.map (·.2), bits.length) := by
  have := many_roundtrip_at_partial l bits hw h bits 0 [] ⟨by simp, Nat.zero_le _⟩
  simpa using this

/-! ### non-vacuity -/

def exTy : Ty :=
  .seq 2 5 (some 3)
    (.cons .m (.int (some 0) (some 255) false 8 false)
    (.cons .o (.seqOf (some 0) (some 4) true .bool)
    (.cons (.d (.enum 1)) (.enum 3 3 false)
    (.cons .m (.choice 2 3 true
      (.cons .m .bool (.cons .m .null (.cons .m (.oct none none false) .nil))))
    (.cons .o (.str .ia5 (some 1) (some 10) false) .nil)))))

/-- addition present, extension alternative (two open types), default omitted -/
def exVal : Val :=
  .seq (.cons (.int 200) (.cons (.some (.list (.cons (.bool true) (.cons (.bool false) .nil))))
    (.cons (.enum 1) (.cons (.choice 2 (.oct [0xAB#8])) (.cons (.some (.str [0x41#8])) .nil)))))

/-- `INTEGER (5..MAX)` in a `u64`: a deviation class of C02, round trip holds -/
def exTy2 : Ty := .int (some 5) (some I64_MAX) false 64 false

example : WF exTy exVal = true := by decide +kernel
example : (enc exTy exVal).isOk = true := by decide +kernel
example : WF exTy2 (.int 7) = true ∧ (enc exTy2 (.int 7)).isOk = true := by decide +kernel
example : ∀ tv ∈ [(exTy, exVal), (exTy2, Val.int 7), (Ty.null, Val.null)], WF tv.1 tv.2 = true := by
  decide +kernel
example : (encMany [(exTy, exVal), (exTy2, Val.int 7), (Ty.null, Val.null)]).isOk = true := by
  decide +kernel

-- `roundtrip_alt_partial`: the alternatives of the CHOICE inside `exTy`
def exAlts : Fields := .cons .m .bool (.cons .m .null (.cons .m (.oct none none false) .nil))
example : exAlts.rtOk exAlts.length = true ∧ valOkAlt exAlts 2 (.oct [0xAB#8]) = true ∧
    (encAlt exAlts 2 (.oct [0xAB#8])).isOk = true := by decide +kernel

/-! ### the full statement and its refutation -/

/-- C01 at full strength: every value of the Rust type (`Typed`: no exclusion of the findings) -/
def roundtrip : Prop :=
  ∀ (t : Ty) (v : Val) (bits pre post : Bits), Typed t v = true → enc t v = ok bits →
    dec t (pre ++ bits ++ post) pre.length = ok (v, pre.length + bits.length)

/-- A MANDATORY extension addition of SEQUENCE OF type: `write_sequence_of` does not wrap itself as
    an open type, `read_sequence_of` expects one.  `SEQUENCE { a BOOLEAN, ..., b SEQUENCE OF BOOLEAN }`
    with a hand-written (non-`Option`) addition: the encoding succeeds, decoding fails. -/
theorem roundtrip_false : ¬ roundtrip := fun h => by
  have := h (.seq 0 2 (some 0) (.cons .m .bool (.cons .m (.seqOf none none false .bool) .nil)))
    (.seq (.cons (.bool true) (.cons (.list (.cons (.bool true) .nil)) .nil)))
    ([true, true] ++ [false, false, false, false, false, false, false] ++ [true] ++
      [false, false, false, false, false, false, false, true, true]) [] []
    (by decide +kernel) (by decide +kernel)
  have hok := congrArg Outcome.isOk this
  revert hok
  decide +kernel

/-- Finding F-frag, for EVERY count `n ≥ 16K` that is not the announced fragment size: the writer
    emits `11 0000mm` + all `n` elements, the reader takes `m · 16K` elements — whatever it returns
    is not the value written (`SEQUENCE OF BOOLEAN`; 20000 booleans decode as 16384). -/
theorem frag_ignored (bs : List Bool) (hn : 16384 ≤ bs.length) (hm : bs.length ≤ I64MAXu)
    (hne : bs.length ≠ min (bs.length / 16384) 4 * 16384) (pre post : Bits) :
    ∃ bits, enc (.seqOf none none false .bool) (.list (boolVals bs)) = ok bits ∧
      dec (.seqOf none none false .bool) (pre ++ bits ++ post) pre.length
        ≠ ok (.list (boolVals bs), pre.length + bits.length) :=
  ⟨_, enc_bools bs hm, frag_ignored_read bs hn hne pre post _⟩

/-- … so the full statement fails there too: 20000 × TRUE -/
theorem roundtrip_false_frag : ¬ roundtrip := fun h => by
  have hl : (List.replicate 20000 true).length = 20000 := List.length_replicate
  obtain ⟨bits, he, hd⟩ := frag_ignored (List.replicate 20000 true) (by rw [hl]; decide)
    (by rw [hl, I64MAXu_eq]; decide) (by rw [hl]; decide) [] []
  refine hd (h _ _ bits [] [] ?_ he)
  simp only [Typed, Ty.consistent, Ty.descrOk, typedOk, boolVals_length, hl, Bool.true_and,
    Bool.and_eq_true, decide_eq_true_eq]
  exact ⟨by rw [I64MAXu_eq]; decide, allVals_bools _ (fun _ => rfl) _⟩

end Asn1Verif.Props.C01
