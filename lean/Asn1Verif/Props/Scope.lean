import Asn1Verif.Uper.ScopeRefineWrite
import Asn1Verif.Uper.ScopeRefineRead
import Asn1Verif.Uper.RejTotalLemmas
/-
  Scope — the compositional L2 mirror (`Uper/Impl.lean`: `enc`, `dec`) against the FAITHFUL mirror of
  the scope machine of `src/rw/uper.rs` (`Uper/Scope.lean`: `Scope.write`, `Scope.read` with
  `Scope`, `write_bit_field_entry`, `with_buffer`, `scope_pushed`, position patching).

  Not a numbered property: it strengthens the tie of C01–C06, whose theorems speak about `enc`/`dec`.
  The correspondence streams of the `uper` driver answer every `enc`/`rt`/`dec`/`conf`/`cross`/`many`
  request with both models (`scope-mismatch` if they differ), so the scope machine is validated
  against the real code on every stream and the theorems below carry the C-properties over to it.

  Models: `Uper/Scope.lean`.  Lemmas, writer: `Uper/ScopeLemmas.lean`, `Uper/ScopeRefineW.lean` (one
  component call = one `SeqAcc.step`; invariant of the walk), `Uper/ScopeRefineWrite.lean` (mutual
  induction over `Ty`/`Fields`).  Lemmas, reader: `Uper/ScopeLemmasR.lean`, `Uper/ScopeRefineR.lean`
  (the scope as a function of the parameters of `decFields`; one bit-field entry = the presence bit
  `decFields` reads; the skip loop), `Uper/ScopeRefineRead.lean` (invariant, simulation, mutual
  induction).

  Overview
    writer  `write_refines_in_scope`, `write_refines`, `encode_refines`, `no_patch_beyond_written`
            — FULL: every consistent descriptor (extensible or not), every value, every outcome.
    reader  `read_refines_in_scope`, `read_refines_partial`, `decode_refines_partial`,
            `read_never_panics` — every consistent descriptor without a mandatory extension
            addition of type SEQUENCE/SET (`Ty.noMandatorySeqAddition`; the converter never
            generates one); `ReadRefinesFull` is the statement without that hypothesis,
            `read_refines_full_false` the counterexample (there the REAL reader swallows a failed
            read of the extension header and goes on; `Impl.dec` propagates the error — the
            scope machine is right, checked against the crate).

  Hypotheses that remain (and why)
    * `t.consistent`: the generated constants agree with the component list (tie of C08; the
      driver refuses other descriptors).  Without it the scope machine patches beyond its
      bitmaps / runs into the `debug_assert!` of `scope_pushed`, `Impl` does something else.
    * reader: `inp.length < U64_MAX` — positions are `usize`; `saturating_add` in
      `read_from_field` is the identity below that; `pos ≤ inp.length` — invariant of `Bits`.
-/
namespace Asn1Verif.Props.Scope
open Asn1Verif Asn1Verif.Uper Asn1Verif.Per Outcome

/-! ### writer -/

/-- The refinement in an arbitrary enclosing scope (the component invariant): for a consistent
    descriptor, `T::write_value` in ANY writer state is `write_bit_field_entry(false, true)`
    followed by the compositional encoding of the value — wrapped as an open type exactly when the
    type's `write_*` goes through `with_buffer` and the scope is in its extension part. -/
theorem write_refines_in_scope (t : Ty) (hc : t.consistent = true) (v : Val) (w : Scope.W) :
    Scope.write t v w =
      Scope.writeBitFieldEntry w false true >>= fun w1 =>
        enc t v >>= fun c =>
          (if t.buffersOnWrite && Scope.openTy w1.scope then openType c else ok c) >>= fun b =>
            ok (w1.append b) := by
  rw [Scope.write_eq_comp t hc v w]
  simp only [Scope.comp, if_true]

/-- The position-patching writer refines to the compositional mirror: same outcome (`ok`, the same
    `err` kind, `panic`); on `ok` the buffer is `pre ++ bits` and the scope is restored.  In both
    modes of modelling choice (W1). -/
theorem write_refines (t : Ty) (hc : t.consistent = true) (v : Val) (pre : Bits) (strict : Bool) :
    Scope.write t v (Scope.W.of pre none strict) =
      enc t v >>= fun bits => ok (Scope.W.of (pre ++ bits) none strict) :=
  Scope.plain_of_comp (Scope.write_eq_comp t hc v) pre strict

/-- a whole message -/
theorem encode_refines (t : Ty) (hc : t.consistent = true) (v : Val) :
    Scope.encode t v = enc t v >>= fun bits => ok (Scope.W.of bits none false) := by
  unfold Scope.encode
  rw [Scope.fresh_eq, write_refines t hc v [] false]
  simp

/-- For consistent descriptors no patch (`with_write_position_at`) ever lands at or beyond the
    written length, anywhere during the run (also not in a run that ends with an error, nor inside
    a sub-writer of an open type): the strict mode of the model, in which such a patch is an
    immediate `panic`, computes what the faithful mode computes — and never panics, so neither the
    padding quirk of (W1) nor the `debug_assert!`s of `with_write_position_at` and `scope_pushed`
    nor the unsigned subtractions `FIELD_COUNT - (extension_after + 1)`, `number_of_ext_fields - 1`
    are ever hit. -/
theorem no_patch_beyond_written (t : Ty) (hc : t.consistent = true) (v : Val) (pre : Bits) :
    (Scope.write t v (Scope.W.of pre none true) >>= fun w => ok w.bits) =
      (Scope.write t v (Scope.W.of pre none false) >>= fun w => ok w.bits) ∧
    Scope.write t v (Scope.W.of pre none true) ≠ panic := by
  rw [write_refines t hc v pre true, write_refines t hc v pre false]
  have hp := enc_ne_panic t v
  cases h : enc t v with
  | ok bits => exact ⟨by simp, by simp⟩
  | err k => exact ⟨rfl, by simp⟩
  | panic => exact absurd h hp

/-- non-vacuity of `no_patch_beyond_written`: with a wrong generated constant
    (`STD_OPTIONAL_FIELDS = 0` for a SEQUENCE with one OPTIONAL component) the presence bit is
    patched at position 8 of an 8-bit buffer.  The faithful mode loses the bit (in the real buffer it
    lands in a fresh octet behind the written length) and goes on — here until the `debug_assert!`
    of `scope_pushed` —, the strict mode stops at the patch. -/
example :
    Scope.writeBitFieldEntry (Scope.W.of (List.replicate 8 true) (some (.optBitField 8 8)) false) true true =
      ok (Scope.W.of (List.replicate 8 true) (some (.optBitField 9 8)) false) ∧
    Scope.writeBitFieldEntry (Scope.W.of (List.replicate 8 true) (some (.optBitField 8 8)) true) true true =
      panic := by
  decide

/-- non-vacuity of `write_refines`: an extensible SEQUENCE with a root OPTIONAL and a present
    addition — extension bit and presence bit are patched, the addition is an open type -/
example :
    (Ty.seq 1 3 (some 1) (.cons .m .bool (.cons .o .bool (.cons .o .bool .nil)))).consistent = true ∧
    Scope.write (.seq 1 3 (some 1) (.cons .m .bool (.cons .o .bool (.cons .o .bool .nil))))
      (.seq (.cons (.bool true) (.cons (.some (.bool false)) (.cons (.some (.bool true)) .nil))))
      (Scope.W.of [true] none false) =
    ok (Scope.W.of ([true] ++ ([true, true, true, false] ++ [false, false, false, false, false, false, false] ++ [true] ++
        [false, false, false, false, false, false, false, true,
         true, false, false, false, false, false, false, false])) none false) := by
  refine ⟨by decide, ?_⟩
  rw [write_refines _ (by decide)]
  have hs : wSmall 0 = ok [false, false, false, false, false, false, false] := by decide
  simp [enc, encFields, SeqAcc.step, Ty.buffersOnWrite, Kind.isOptional, openType_true, Fields.length, hs]

/-- non-vacuity, directly on the scope machine (no refinement used): a root OPTIONAL is patched -/
example :
    Scope.write (.seq 1 2 none (.cons .o .bool (.cons .m .bool .nil)))
      (.seq (.cons (.some (.bool false)) (.cons (.bool true) .nil))) (Scope.W.of [false] none true) =
    ok (Scope.W.of [false, true, false, true] none true) := by decide

/-! ### reader -/

/-- The refinement in an arbitrary enclosing scope: `T::read_value` in ANY reader state (window =
    the whole input, cursor inside) is the bit-field entry — propagated with `?`, swallowed by
    `read_sequence` — followed by the compositional reader, behind a length determinant and with
    the cursor moved to the announced end exactly when the type's `read_*` goes through
    `with_buffer` and the scope is in its extension part (`Scope.rcomp`, `Scope.rbody`). -/
theorem read_refines_in_scope (t : Ty) (hc : t.consistent = true)
    (hm : t.noMandatorySeqAddition = true) (inp : Bits) (hL : inp.length < U64_MAX) (r : Scope.R)
    (hl : r.len = inp.length) (hp : r.pos ≤ inp.length) :
    Scope.read t inp r = Scope.rcomp t.isSeq t.buffersOnRead (dec t) inp r :=
  Scope.read_ok t hc hm inp hL r hl hp

/-- The scope-keeping reader refines to the compositional mirror: same outcome (`ok`, the same
    `err` kind, `panic`); on `ok` the same value, the same cursor, the scope restored. -/
theorem read_refines_partial (t : Ty) (hc : t.consistent = true)
    (hm : t.noMandatorySeqAddition = true) (inp : Bits) (hL : inp.length < U64_MAX) (pos : Nat)
    (hp : pos ≤ inp.length) :
    Scope.read t inp ⟨pos, inp.length, none⟩ =
      dec t inp pos >>= fun vp => ok (vp.1, ⟨vp.2, inp.length, none⟩) :=
  Scope.plainR_of_readOk (Scope.read_ok t hc hm inp hL) pos hp

/-- a whole message -/
theorem decode_refines_partial (t : Ty) (hc : t.consistent = true)
    (hm : t.noMandatorySeqAddition = true) (inp : Bits) (hL : inp.length < U64_MAX) :
    Scope.decode t inp 0 = dec t inp 0 >>= fun vp => ok (vp.1, ⟨vp.2, inp.length, none⟩) :=
  read_refines_partial t hc hm inp hL 0 (Nat.zero_le _)

/-- the reader of the scope machine never panics there: neither the `debug_assert!` of
    `scope_pushed` nor the `unwrap()` of `read_opt`/`read_default` nor `FIELD_COUNT -
    (extension_after + 1)` is ever hit (`dec` never panics: C04) -/
theorem read_never_panics (t : Ty) (hc : t.consistent = true)
    (hm : t.noMandatorySeqAddition = true) (inp : Bits) (hL : inp.length < U64_MAX) (pos : Nat)
    (hp : pos ≤ inp.length) : Scope.read t inp ⟨pos, inp.length, none⟩ ≠ panic := by
  rw [read_refines_partial t hc hm inp hL pos hp]
  have := (dec_good t inp pos).ne_panic
  cases h : dec t inp pos with
  | ok vp => simp
  | err k => simp
  | panic => exact absurd h this

/-- the full statement: without the hypothesis on mandatory SEQUENCE-typed additions -/
def ReadRefinesFull : Prop :=
  ∀ (t : Ty), t.consistent = true → ∀ (inp : Bits), inp.length < U64_MAX →
    Scope.decode t inp 0 = dec t inp 0 >>= fun vp => ok (vp.1, ⟨vp.2, inp.length, none⟩)

/-- `Outer ::= SEQUENCE { a BOOLEAN, ..., b Inner }`, `Inner ::= SEQUENCE {}` with `b` NOT wrapped
    in `Option` (hand-written descriptor; the converter would generate `Option<Inner>`) -/
def cxOuter : Ty := .seq 0 2 (some 0) (.cons .m .bool (.cons .m (.seq 0 0 none .nil) .nil))

/-- extension bit `1`, `a = 1`, then `110` = the beginning of a normally small length ≥ 64 whose
    14-bit length field is cut off by the end of the input, then `0000000 0` -/
def cxInp : Bits :=
  [true, true, true, true, false, false, false, false, false, false, false, false, false]

def cxVals : Vals := .cons (.bool true) (.cons (.seq .nil) .nil)
def cxB : Scope.R := ⟨5, 13, some (.extensibleSequence 0 (some (1, 1)) 0 1)⟩
def cxC : Scope.R := ⟨13, 13, some (.allBitField 13 13)⟩

/-- the compositional mirror: the header of the extension part cannot be read -/
theorem cx_dec_outer : dec cxOuter cxInp 0 = err .endOfStream := by rfl

theorem cx_skip_outer : Scope.skipUnknownAdditions cxInp cxB = ok cxC := by
  rw [Scope.skipUnknownAdditions_eq]
  have h1 : Scope.skipMore cxB.scope = true := by decide
  have h2 : Scope.entryQ cxInp cxB true = ok (some false, cxC) := by decide
  simp only [h1, if_true, h2, bind_ok, Option.getD_some, Bool.false_eq_true, if_false]
  rw [Scope.skipUnknownAdditions_eq]
  have h3 : Scope.skipMore cxC.scope = false := by decide
  simp only [h3, Bool.false_eq_true, if_false]

/-- the scope machine up to the skip loop: `read_sequence` of `b` has swallowed the failed header
    read, the cursor stands behind the three bits the failed read has consumed (`cxB`) -/
theorem cx_unfold_outer : Scope.decode cxOuter cxInp 0 =
    (((Scope.skipUnknownAdditions cxInp cxB >>= fun r5 => r5.popScope none >>= fun r6 => ok (cxVals, r6)) >>=
      fun x => ok (x.1, x.2.leave none)) >>= fun x => ok (Val.seq x.1, x.2)) := by
  rfl

/-- the scope machine (and the crate: `UperReader` on the hand-written type answers
    `Ok(Outer { a: true, b: Inner })` with 13 bits consumed): the second attempt to read the
    header, made by `skip_unknown_extension_additions` at the new cursor, succeeds -/
theorem cx_decode_outer : Scope.decode cxOuter cxInp 0 = ok (.seq cxVals, ⟨13, 13, none⟩) := by
  rw [cx_unfold_outer, cx_skip_outer]
  rfl


/-- the full statement is false for the current code -/
theorem read_refines_full_false : ¬ ReadRefinesFull := by
  intro h
  have := h cxOuter (by decide) cxInp (by decide)
  rw [cx_decode_outer, cx_dec_outer] at this
  cases this

/-- the counterexample lies outside the hypothesis of `read_refines_partial` … -/
example : cxOuter.noMandatorySeqAddition = false := by decide

/-- … and a type with an OPTIONAL SEQUENCE-typed addition and a mandatory CHOICE-typed one inside -/
example :
    (Ty.seq 1 3 (some 0) (.cons .o .bool (.cons .o (.seq 0 1 none (.cons .m .bool .nil))
      (.cons .m (.choice 1 1 false (.cons .m .bool .nil)) .nil)))).noMandatorySeqAddition = true ∧
    (Ty.seq 1 3 (some 0) (.cons .o .bool (.cons .o (.seq 0 1 none (.cons .m .bool .nil))
      (.cons .m (.choice 1 1 false (.cons .m .bool .nil)) .nil)))).consistent = true := by decide

/-- non-vacuity, directly on the scope machine: extension bit set, two additions announced, the
    first (OPTIONAL SEQUENCE) present as open type of one octet, the second absent -/
example :
    Scope.readFields (.cons .m .bool (.cons .o (.seq 0 1 none (.cons .m .bool .nil)) (.cons .o .bool .nil)))
      ([true, true] ++ [false, false, false, false, false, false, true] ++ [true, false] ++
        [false, false, false, false, false, false, false, true] ++
        [true, false, false, false, false, false, false, false])
      ⟨1, 27, some (.extensibleSequence 0 (some (1, 1)) 1 2)⟩ =
    ok (.cons (.bool true) (.cons (.some (.seq (.cons (.bool true) .nil))) (.cons .none .nil)),
        ⟨27, 27, some (.allBitField 11 11)⟩) := by rfl

end Asn1Verif.Props.Scope
