import Asn1Verif.Proto.Schema
import Asn1Verif.Proto.SchemaLemmas
/-
  C18 — Protobuf bytes agree with the generated .proto schema.

  Models: `Proto/Schema.lean` (mirror of asn1rs-model/src/protobuf.rs and
  asn1rs-model/src/generate/protobuf.rs: `RustType → ProtobufType`, numbering of
  `append_definition`), `Proto/Codec.lean` (the writer; a value is written as a list of `Item`s =
  `write_tagged_*` calls, nested messages inside their content).  Lemmas: `Proto/SchemaLemmas.lean`.
  The text of the generated files is compared with the schema model by the `proto wire` requests
  of `./check C18`, and the real octets are decoded under the real files by protoc.
-/
namespace Asn1Verif.Props.C18
open Asn1Verif Asn1Verif.Proto Asn1Verif.Proto.Schema Outcome
open Asn1Verif.Uper (Ty Val Vals Fields Kind)

/-- the schema numbers the fields of a message (the members of a oneof) 1, 2, 3, … in declaration
    order: every component has a number, NULL components included -/
theorem schema_numbers (fs : Fields) :
    (rows fs 0).map Prod.fst = (List.range fs.length).map (· + 1) := by
  simpa using rows_numbers fs 0

/-- the schema entry of component `j` is `(j + 1, ptype t_j)` -/
theorem schema_row (fs : Fields) (j : Nat) (k : Kind) (t : Ty) (h : Fields.get? fs j = some (k, t)) :
    row? fs j = some (j + 1, ptype t) := by
  simpa [row?] using rows_get fs 0 j k t h

/-- the full statement: every wire field the writer emits for component `j` of a message carries
    the number and the wire type of the schema entry of that component -/
def schema_wire_agree : Prop :=
  ∀ (fs : Fields) (vs : Vals) (ls : List (List Item)) (c' : Nat), encFieldsI fs vs 0 = ok (ls, c') →
  ∀ (j : Nat) (l : List Item), ls[j]? = some l →
  ∃ row, row? fs j = some row ∧ ∀ it ∈ l, it.num = row.1 ∧ it.fmt = row.2.wire

/-- What the writer really does, for every message type without OPTIONAL NULL and every value: the
    fields of component `j` carry the number `(number of non-NULL components before j) + 1` and the
    wire type of the schema type of the component (varint for bool / the four integer types /
    enums, length-delimited for string, bytes, BIT STRING and nested messages, the element's wire
    type for `repeated`).  Induction over the component list. -/
theorem writer_rows (fs : Fields) (vs : Vals) (ls : List (List Item)) (c' : Nat)
    (hnn : Fields.noOptNull fs = true) (henc : encFieldsI fs vs 0 = ok (ls, c'))
    (j : Nat) (l : List Item) (hl : ls[j]? = some l) :
    ∃ k t, Fields.get? fs j = some (k, t) ∧
      ∀ it ∈ l, it.num = Fields.countTo fs j + 1 ∧ it.fmt = (ptype t).wire := by
  obtain ⟨k, t, hg, hall⟩ := encFieldsI_rows fs vs 0 ls c' hnn henc j l hl
  exact ⟨k, t, hg, fun it hit => ⟨by simpa using (hall it hit).1, (hall it hit).2⟩⟩

/-- **Agreement**, where it holds: if no NULL component precedes component `j` (all `j` components
    in front of it count), every field written for it has exactly the number and wire type the
    schema declares.  Reuses the counter discipline of C17 (`encI_num`, `counter_agree`). -/
theorem schema_wire_agree_partial (fs : Fields) (vs : Vals) (ls : List (List Item)) (c' : Nat)
    (hnn : Fields.noOptNull fs = true) (henc : encFieldsI fs vs 0 = ok (ls, c'))
    (j : Nat) (l : List Item) (hl : ls[j]? = some l) (hnull : Fields.countTo fs j = j) :
    ∃ row, row? fs j = some row ∧ ∀ it ∈ l, it.num = row.1 ∧ it.fmt = row.2.wire := by
  obtain ⟨k, t, hg, hall⟩ := writer_rows fs vs ls c' hnn henc j l hl
  refine ⟨(j + 1, ptype t), schema_row fs j k t hg, fun it hit => ?_⟩
  obtain ⟨h1, h2⟩ := hall it hit
  exact ⟨by rw [h1, hnull], h2⟩

/-- the wire types agree unconditionally (only the numbers can be off) -/
theorem schema_wire_types_agree (fs : Fields) (vs : Vals) (ls : List (List Item)) (c' : Nat)
    (hnn : Fields.noOptNull fs = true) (henc : encFieldsI fs vs 0 = ok (ls, c'))
    (j : Nat) (l : List Item) (hl : ls[j]? = some l) :
    ∃ row, row? fs j = some row ∧ ∀ it ∈ l, it.fmt = row.2.wire := by
  obtain ⟨k, t, hg, hall⟩ := writer_rows fs vs ls c' hnn henc j l hl
  exact ⟨(j + 1, ptype t), schema_row fs j k t hg, fun it hit => (hall it hit).2⟩

/-- CHOICE: the single field inside the oneof wrapper carries the member number `index + 1` and the
    wire type of the member's schema type — for every CHOICE and every value (no exception) -/
theorem schema_oneof_agree (alts : Fields) (i : Nat) (x : Val) (content : List Item)
    (h : encAltI alts i i x = ok content) :
    ∃ row, row? alts i = some row ∧ ∀ it ∈ content, it.num = row.1 ∧ it.fmt = row.2.wire := by
  obtain ⟨k, t, hg, hall⟩ := encAltI_row alts i i x content h
  exact ⟨(i + 1, ptype t), schema_row alts i k t hg, hall⟩

/-- non-vacuity of the hypotheses of `schema_wire_agree_partial`:
    SEQUENCE { a INTEGER (0..7), b BOOLEAN OPTIONAL, n NULL }, component 1 -/
example :
    let fs : Fields := .cons .m (.int (some 0) (some 7) false 8 false) (.cons .o .bool (.cons .m .null .nil))
    Fields.noOptNull fs = true ∧ Fields.countTo fs 1 = 1 ∧
    (match encFieldsI fs (.cons (.int 5) (.cons (.some (.bool true)) (.cons .null .nil))) 0 with
     | .ok (ls, _) => ls.length == 3 && (ls[1]?.map (·.length)) == some 1
     | _ => false) = true := by decide

/-- SEQUENCE { a NULL, b BOOLEAN } — `message { bytes a = 1; bool b = 2; }` -/
def nullFirst : Fields := .cons .m .null (.cons .m .bool .nil)

/-- F-proto-null — the hypothesis `countTo fs j = j` cannot be dropped: the schema gives the NULL
    component the number 1 and `b` the number 2, the writer does not count the NULL and writes `b`
    as field 1 (`08 01`).  The full statement is false. -/
theorem schema_wire_disagree_null :
    row? nullFirst 1 = some (2, .bool) ∧
    (match encFieldsI nullFirst (.cons .null (.cons (.bool true) .nil)) 0 with
     | .ok (ls, _) => (ls[1]?.map (fun l => l.map Item.num)) == some [1] &&
                      itemsBytes ls.flatten == [0x08#8, 0x01#8]
     | _ => false) = true := by decide

theorem schema_wire_agree_false : ¬ schema_wire_agree := by
  intro h
  have henc : encFieldsI nullFirst (.cons .null (.cons (.bool true) .nil)) 0 =
      ok ([[], [.varint 1 1]], 1) := by decide
  obtain ⟨row, hr, hall⟩ := h nullFirst _ _ _ henc 1 [.varint 1 1] (by decide)
  have hrow : row? nullFirst 1 = some (2, .bool) := by decide
  rw [hrow] at hr
  simp only [Option.some.injEq] at hr
  subst hr
  have := (hall (.varint 1 1) (by simp)).1
  simp [Item.num] at this

end Asn1Verif.Props.C18
