import Asn1Verif.Proto.Schema
import Asn1Verif.Proto.SchemaLemmas
import Asn1Verif.Proto.IntWidthLemmas
/-
  C18 — Protobuf bytes agree with the generated .proto schema.

  Models: `Proto/Schema.lean` (mirror of asn1rs-model/src/protobuf.rs and
  asn1rs-model/src/generate/protobuf.rs: `RustType → ProtobufType`, numbering of
  `append_definition`), `Proto/Codec.lean` (the writer; a value is written as a list of `Item`s =
  `write_tagged_*` calls, nested messages inside their content), `Codegen/IntType.lean` (the Rust
  integer type the converter selects, from which the schema takes `uint32/uint64/sint32/sint64`).
  Lemmas: `Proto/SchemaLemmas.lean`, `Proto/IntWidthLemmas.lean`.
  The text of the generated files is compared with the schema model by the `proto wire` requests
  of `./check C18`, and the real octets are decoded under the real files by protoc.
-/
namespace Asn1Verif.Props.C18
open Asn1Verif Asn1Verif.Proto Asn1Verif.Proto.Schema Outcome
open Asn1Verif.Uper (Ty Val Vals Fields Kind)

/-- the schema numbers the fields of a message (the members of a oneof) 1, 2, 3, … in declaration
    order: every component has a number, NULL components included -/
theorem schema_numbers (fs : Fields) :
    (rows fs 0).map Prod.fst = (List.range fs.length).map (· + 1) := by
  simpa using rows_numbers fs 0

/-- the schema entry of component `j` is `(j + 1, ptype t_j)` -/
theorem schema_row (fs : Fields) (j : Nat) (k : Kind) (t : Ty) (h : Fields.get? fs j = some (k, t)) :
    row? fs j = some (j + 1, ptype t) := by
  simpa [row?] using rows_get fs 0 j k t h

/-- the full statement: every wire field the writer emits for component `j` of a message carries
    the number and the wire type of the schema entry of that component -/
def schema_wire_agree : Prop :=
  ∀ (fs : Fields) (vs : Vals) (ls : List (List Item)) (c' : Nat), encFieldsI fs vs 0 = ok (ls, c') →
  ∀ (j : Nat) (l : List Item), ls[j]? = some l →
  ∃ row, row? fs j = some row ∧ ∀ it ∈ l, it.num = row.1 ∧ it.fmt = row.2.wire

/-- What the writer really does, for every message type without OPTIONAL NULL and every value: the
    fields of component `j` carry the number `(number of non-NULL components before j) + 1` and the
    wire type of the schema type of the component (varint for bool / the four integer types /
    enums, length-delimited for string, bytes, BIT STRING and nested messages, the element's wire
    type for `repeated`).  Induction over the component list. -/
theorem writer_rows (fs : Fields) (vs : Vals) (ls : List (List Item)) (c' : Nat)
    (hnn : Fields.noOptNull fs = true) (henc : encFieldsI fs vs 0 = ok (ls, c'))
    (j : Nat) (l : List Item) (hl : ls[j]? = some l) :
    ∃ k t, Fields.get? fs j = some (k, t) ∧
      ∀ it ∈ l, it.num = Fields.countTo fs j + 1 ∧ it.fmt = (ptype t).wire := by
  obtain ⟨k, t, hg, hall⟩ := encFieldsI_rows fs vs 0 ls c' hnn henc j l hl
  exact ⟨k, t, hg, fun it hit => ⟨by simpa using (hall it hit).1, (hall it hit).2⟩⟩

/-- **Agreement**, where it holds: if no NULL component precedes component `j` (all `j` components
    in front of it count), every field written for it has exactly the number and wire type the
    schema declares.  Reuses the counter discipline of C17 (`encI_num`, `counter_agree`). -/
theorem schema_wire_agree_partial (fs : Fields) (vs : Vals) (ls : List (List Item)) (c' : Nat)
    (hnn : Fields.noOptNull fs = true) (henc : encFieldsI fs vs 0 = ok (ls, c'))
    (j : Nat) (l : List Item) (hl : ls[j]? = some l) (hnull : Fields.countTo fs j = j) :
    ∃ row, row? fs j = some row ∧ ∀ it ∈ l, it.num = row.1 ∧ it.fmt = row.2.wire := by
  obtain ⟨k, t, hg, hall⟩ := writer_rows fs vs ls c' hnn henc j l hl
  refine ⟨(j + 1, ptype t), schema_row fs j k t hg, fun it hit => ?_⟩
  obtain ⟨h1, h2⟩ := hall it hit
  exact ⟨by rw [h1, hnull], h2⟩

/-- the wire types agree unconditionally (only the numbers can be off) -/
theorem schema_wire_types_agree (fs : Fields) (vs : Vals) (ls : List (List Item)) (c' : Nat)
    (hnn : Fields.noOptNull fs = true) (henc : encFieldsI fs vs 0 = ok (ls, c'))
    (j : Nat) (l : List Item) (hl : ls[j]? = some l) :
    ∃ row, row? fs j = some row ∧ ∀ it ∈ l, it.fmt = row.2.wire := by
  obtain ⟨k, t, hg, hall⟩ := writer_rows fs vs ls c' hnn henc j l hl
  exact ⟨(j + 1, ptype t), schema_row fs j k t hg, fun it hit => (hall it hit).2⟩

/-- CHOICE: the single field inside the oneof wrapper carries the member number `index + 1` and the
    wire type of the member's schema type — for every CHOICE and every value (no exception) -/
theorem schema_oneof_agree (alts : Fields) (i : Nat) (x : Val) (content : List Item)
    (h : encAltI alts i i x = ok content) :
    ∃ row, row? alts i = some row ∧ ∀ it ∈ content, it.num = row.1 ∧ it.fmt = row.2.wire := by
  obtain ⟨k, t, hg, hall⟩ := encAltI_row alts i i x content h
  exact ⟨(i + 1, ptype t), schema_row alts i k t hg, hall⟩

/-! ### INTEGER: the varint is the encoding of the declared scalar type (F-proto-int-ext-width repaired) -/

/-- The wire type says only "varint"; which number a schema-driven parser makes of it depends on
    the declared scalar type (`uint32`, `uint64`: the plain value; `sint32`, `sint64`: zig-zag).
    For every INTEGER constraint with `i64` bounds and a non-empty root, extensible or not:
    the encoding `write_number` / `read_number` select from the constraint constants is the one of
    the scalar type `definition_type_to_protobuf_type` declares for the Rust type the converter
    selected — and that is what the schema model says for the descriptor of the generated code
    (`Schema.ptype`, compared with the real files by the `proto wire` requests). -/
theorem schema_int_encoding_agree (min max : Option Int) (ext : Bool)
    (hmin : Codegen.IntType.OptInI64 min) (hmax : Codegen.IntType.OptInI64 max)
    (hroot : RootNonEmpty min max) :
    (generatedClass min max ext).ptype = ptypeOfRust (Codegen.IntType.cascade min max ext).kind ∧
    ptype (generatedTy min max ext) = ptypeOfRust (Codegen.IntType.cascade min max ext).kind :=
  ⟨generatedClass_schema min max ext hmin hmax hroot, ptype_generatedTy min max ext hmin hmax hroot⟩

/-- … in particular an extensible constraint is written in the 64-bit encoding its schema type
    (`uint64` / `sint64`) demands, whatever its root -/
theorem schema_int_ext_is_64 (min max : Option Int)
    (hmin : Codegen.IntType.OptInI64 min) (hmax : Codegen.IntType.OptInI64 max)
    (hroot : RootNonEmpty min max) :
    (ptype (generatedTy min max true) = .uint64 ∧ generatedClass min max true = .u64) ∨
    (ptype (generatedTy min max true) = .sint64 ∧ generatedClass min max true = .s64) := by
  obtain ⟨h1, h2⟩ := schema_int_encoding_agree min max true hmin hmax hroot
  rw [h2, ← h1]
  rcases intClass_ext (Codegen.IntType.cascade min max true).constMin
    (Codegen.IntType.cascade min max true).constMax with h | h
  · left
    have : generatedClass min max true = .u64 := by
      simpa [generatedClass, Codegen.IntType.cascade, Codegen.IntType.extCascade_ext] using h
    exact ⟨by rw [this]; rfl, this⟩
  · right
    have : generatedClass min max true = .s64 := by
      simpa [generatedClass, Codegen.IntType.cascade, Codegen.IntType.extCascade_ext] using h
    exact ⟨by rw [this]; rfl, this⟩

/-- What the repair changed on the wire (extensible INTEGER: uint32 → uint64, sint32 → sint64):
    the varint of every value the 32-bit encodings carried in standard form is the same in the
    64-bit encoding — every `u32`, and every `-2^30 ≤ v < 2^30` under zig-zag.  Outside that range the
    old sint32 writer sign-extended the 32-bit zig-zag value to a ten-octet varint (regression
    example below), which only its own `as u32` reader undid. -/
theorem int_ext_wire_compat (v : Int) :
    (0 ≤ v → v < 2 ^ 32 → intToVarint .u32 v = intToVarint .u64 v) ∧
    (-(2 ^ 30) ≤ v → v < 2 ^ 30 → intToVarint .s32 v = intToVarint .s64 v) :=
  ⟨intToVarint_u32_eq_u64 v, intToVarint_s32_eq_s64 v⟩

/-- both hypotheses are met by 200 and by -5; the bound 2^30 is sharp on both sides -/
example : intToVarint .u32 200 = 200 ∧ intToVarint .s32 (-5) = 9 ∧ intToVarint .s64 (-5) = 9 ∧
    intToVarint .s32 (2 ^ 30) ≠ intToVarint .s64 (2 ^ 30) ∧
    intToVarint .s32 (-(2 ^ 30) - 1) ≠ intToVarint .s64 (-(2 ^ 30) - 1) := by decide

/-- non-vacuity: INTEGER (0..255, ...) → `u64`, `uint64`, class u64; INTEGER (-100..100, ...) →
    `i64`, `sint64`, class s64; INTEGER (-100..100) → `i8`, `sint32`, class s32 -/
example :
    generatedClass (some 0) (some 255) true = .u64 ∧
    (Codegen.IntType.cascade (some 0) (some 255) true).kind = .u64 ∧
    generatedClass (some (-100)) (some 100) true = .s64 ∧
    (Codegen.IntType.cascade (some (-100)) (some 100) true).kind = .i64 ∧
    generatedClass (some (-100)) (some 100) false = .s32 ∧
    (Codegen.IntType.cascade (some (-100)) (some 100) false).kind = .i8 := by decide

/-- the hypothesis `RootNonEmpty` cannot be dropped: `INTEGER (5..-3, ...)` (no value in the root;
    meaningless, but accepted by the front end) becomes an `i64` because its upper bound is
    negative — `sint64` in the schema — while the codec looks at the lower bound only and writes
    uint64.  (Round trip is not affected: `int_roundtrip_generated` has no such hypothesis.) -/
example : generatedClass (some 5) (some (-3)) true = .u64 ∧
    (Codegen.IntType.cascade (some 5) (some (-3)) true).kind = .i64 := by decide

/-- regression (former witnesses of F-proto-int-ext-width): in INTEGER (0..255, ...) (`u64`,
    `uint64 value = 1`) the value `u64::MAX` (−1 in the `i64` view of the codec) was written as
    `08 ff ff ff ff 0f` = 4294967295 and is now the ten-octet varint of 2^64 − 1; in INTEGER
    (-100..100, ...) (`i64`, `sint64 value = 1`) the value 2^30 was written as the sign-extended
    32-bit zig-zag value (ten octets, which a sint64 parser decodes to 2^63 − 2^30) and is now
    the varint of 2^31, the sint64 encoding of 2^30 -/
example :
    encode (wrap (.int (some 0) (some 255) true 64 true)) (wrapV (.int (-1))) =
      ok [0x08#8, 0xff#8, 0xff#8, 0xff#8, 0xff#8, 0xff#8, 0xff#8, 0xff#8, 0xff#8, 0xff#8, 0x01#8] ∧
    encode (wrap (.int (some (-100)) (some 100) true 64 true)) (wrapV (.int 1073741824)) =
      ok [0x08#8, 0x80#8, 0x80#8, 0x80#8, 0x80#8, 0x08#8] ∧
    varintToSint64 (2 ^ 31) = 1073741824#64 ∧
    sint32ToVarint 1073741824#32 = 2 ^ 64 - 2 ^ 31 ∧
    varintToSint64 (2 ^ 64 - 2 ^ 31) = BitVec.ofNat 64 (2 ^ 63 - 2 ^ 30) := by decide

/-- non-vacuity of the hypotheses of `schema_wire_agree_partial`:
    SEQUENCE { a INTEGER (0..7), b BOOLEAN OPTIONAL, n NULL }, component 1 -/
example :
    let fs : Fields := .cons .m (.int (some 0) (some 7) false 8 false) (.cons .o .bool (.cons .m .null .nil))
    Fields.noOptNull fs = true ∧ Fields.countTo fs 1 = 1 ∧
    (match encFieldsI fs (.cons (.int 5) (.cons (.some (.bool true)) (.cons .null .nil))) 0 with
     | .ok (ls, _) => ls.length == 3 && (ls[1]?.map (·.length)) == some 1
     | _ => false) = true := by decide

/-- SEQUENCE { a NULL, b BOOLEAN } — `message { bytes a = 1; bool b = 2; }` -/
def nullFirst : Fields := .cons .m .null (.cons .m .bool .nil)

/-- F-proto-null — the hypothesis `countTo fs j = j` cannot be dropped: the schema gives the NULL
    component the number 1 and `b` the number 2, the writer does not count the NULL and writes `b`
    as field 1 (`08 01`).  The full statement is false. -/
theorem schema_wire_disagree_null :
    row? nullFirst 1 = some (2, .bool) ∧
    (match encFieldsI nullFirst (.cons .null (.cons (.bool true) .nil)) 0 with
     | .ok (ls, _) => (ls[1]?.map (fun l => l.map Item.num)) == some [1] &&
                      itemsBytes ls.flatten == [0x08#8, 0x01#8]
     | _ => false) = true := by decide

theorem schema_wire_agree_false : ¬ schema_wire_agree := by
  intro h
  have henc : encFieldsI nullFirst (.cons .null (.cons (.bool true) .nil)) 0 =
      ok ([[], [.varint 1 1]], 1) := by decide
  obtain ⟨row, hr, hall⟩ := h nullFirst _ _ _ henc 1 [.varint 1 1] (by decide)
  have hrow : row? nullFirst 1 = some (2, .bool) := by decide
  rw [hrow] at hr
  simp only [Option.some.injEq] at hr
  subst hr
  have := (hall (.varint 1 1) (by simp)).1
  simp [Item.num] at this

end Asn1Verif.Props.C18
