import Asn1Verif.Front.TokenizerLemmas
import Asn1Verif.Front.TokenizerPanic
/-
  C13 — The model is invariant under whitespace and comment layout; each token's reported
  location is the line and column at which it actually starts.
  (+ `tokenize_panics_iff` for C14: the tokenizer's only panic, stated exactly.)

  Model:  `Front/Tokenizer.lean`       mirror of `Tokenizer::parse`, `Token::append` (`tokenize`)
          `Front/TokenizerFlat.lean`   the same function as one pass over the unsplit text (`run`)
                                       and the proof `tokenize = run`
  Spec:   `Front/TokenizerLayout.lean` `LexItem`, `Piece`, `Layout`, `render`, `layoutOk`,
                                       `posAfter`/`locOf`, `expectedTokens`  (definitions only)
  Lemmas: `Front/TokenizerLemmas.lean`, `Front/TokenizerPanic.lean`

  Vocabulary (all decidable, all plain structural functions):
    * `LexItem`   = `text s` (a run of characters that are neither separators, nor control
                    characters, nor spaces; no `--`, no `/*` inside) | `sep c` (one of the 13
                    separator characters of the tokenizer).  A stripped token is a `LexItem`.
    * `Piece`     = space | tab | CR LF | LF | `--` body LF | `/*` body `*/`.
                    line-comment bodies: no LF.  block-comment bodies: `closeScan 1 (body ++ "*/")
                    = some []`, i.e. the X.680 12.6.4 counting of `/*` and `*/` closes the comment
                    exactly at its final `*/` — nested comments allowed, any other characters
                    (also line breaks) allowed.
    * `Layout`    = a gap (list of pieces) before the first item and one after every item.
    * `render items L` = the token-level printer.
    * `layoutOk strict items L`: items and comment bodies are well formed, a text item ending in
      `-` is not directly followed by `--`, and two adjacent text items are separated:
        strict = false: by a non-empty gap                      (the property as stated)
        strict = true : by a gap that contains a piece other than a one-line block comment
                        (what the current code needs)
    * `posAfter p s` = position (line, 0-based column) after printing `s` from `p`;
      `locOf` = the 1-based `Location`; `expectedTokens items L` = the items as tokens, each with
      the location at which `render` put its first character.

  What is proved, stage by stage:
    1. whitespace-only layouts, tokens and locations      — full strength  (`whitespace_layouts`)
    2. … plus line comments                               — full strength  (`line_comment_layouts`)
    3. … plus block comments, nested, spanning lines      — PARTIAL        (`layout_tokens_partial`,
       `layout_invariance_partial`, `token_locations_partial`): the full statements
       `LayoutInvariance`, `LayoutLocations` are FALSE for the current code
       (`layoutInvariance_false`: `abc/* c */def` is one token `abcdef`, because `/*` does not push
       the pending token).  Excluded region = a gap between two text items that consists only of
       block comments without a line break.

  The defect is one missing statement in one match arm (planned repair R5).  The translator reads
  from the current source whether that arm pushes `previous` (`Consts.TOKENIZER_OPEN_FLUSHES`)
  and the model follows, so both worlds are covered by theorems that compile either way:
    `TOKENIZER_OPEN_FLUSHES = false` (now)  ⇒ `¬ LayoutInvariance`, `¬ LayoutLocations`
    `TOKENIZER_OPEN_FLUSHES = true`  (R5)   ⇒ `LayoutInvariance`, `LayoutLocations` (full strength)
  and `current_code_status` says which of the two holds for the source the check ran against.
-/
namespace Asn1Verif.Props.C13
open Asn1Verif Asn1Verif.Front Outcome

-- `eval_under hf` mentions `hf` only in the branch that is not taken for the current source
set_option linter.unusedVariables false

/-- the token sequence without locations -/
def strip (o : Outcome (List Token)) : Outcome (List LexItem) := (fun ts => ts.map Token.strip) <$> o

/-- a layout in the sense of the property: any non-empty gap separates two text items -/
def Valid (items : List LexItem) (L : Layout) : Prop := layoutOk false items L = true

/-- … in the sense of the code: a gap between two text items contains a piece that ends the
    pending token (`Piece.flushes`): whitespace, a line break, a line comment, a block comment with
    a line break in it — and, once the arm that opens a block comment pushes `previous`
    (`Consts.TOKENIZER_OPEN_FLUSHES`), any block comment -/
def ValidStrict (items : List LexItem) (L : Layout) : Prop := layoutOk true items L = true

instance (items : List LexItem) (L : Layout) : Decidable (Valid items L) :=
  inferInstanceAs (Decidable (_ = true))
instance (items : List LexItem) (L : Layout) : Decidable (ValidStrict items L) :=
  inferInstanceAs (Decidable (_ = true))

/-- Closed decidable statements about the code *as the translator found it*: evaluated by the
    kernel; when the hypothesis `hf` fixes the flag to the value the source does not have, the
    statement is vacuous. -/
macro "eval_under " hf:ident : tactic =>
  `(tactic| first | decide +kernel | exact absurd $hf (by decide +kernel))

/-! ### the model is the single pass the proofs talk about -/

theorem tokenize_is_single_pass (s : List Char) : tokenize s = run 1 0 .normal {} s :=
  tokenize_eq_run s

/-! ### stage 3 (general): tokens and locations under `ValidStrict` -/

/-- **Tokens and locations.**  For every item list and every layout (whitespace, line breaks,
    line comments, block comments — nested, spanning lines) that satisfies `ValidStrict`, the
    tokenizer returns exactly the items, each with the line and column at which `render` put its
    first character.  No bound on anything. -/
theorem layout_tokens_partial (items : List LexItem) (L : Layout) (h : ValidStrict items L) :
    tokenize (render items L) = ok (expectedTokens items L) := by
  rw [tokenize_eq_run]; exact run_render items L h

/-- `expectedTokens` without locations is the item list -/
theorem expected_strip (items : List LexItem) (L : Layout) :
    (expectedTokens items L).map Token.strip = items := located_strip _ _ _

/-- **Layout invariance (partial).**  Any two `ValidStrict` layouts of the same items give the
    same stripped token sequence, namely the items. -/
theorem layout_invariance_partial (items : List LexItem) (L₁ L₂ : Layout)
    (h₁ : ValidStrict items L₁) (h₂ : ValidStrict items L₂) :
    strip (tokenize (render items L₁)) = strip (tokenize (render items L₂)) ∧
      strip (tokenize (render items L₁)) = ok items := by
  rw [layout_tokens_partial items L₁ h₁, layout_tokens_partial items L₂ h₂]
  simp [strip, expected_strip]

/-- **Locations, index by index.**  Token `i` is item `i`, located at the position reached by
    printing everything before it (`before`), and `before` really is the text in front of item
    `i` in the rendered text. -/
theorem token_locations_partial (items : List LexItem) (L : Layout) (h : ValidStrict items L)
    (i : Nat) (hi : i < items.length) :
    ∃ toks before post, tokenize (render items L) = ok toks ∧ toks.length = items.length ∧
      render items L = before ++ (items[i].chars ++ post) ∧
      toks[i]? = some (items[i].tokenAt (locOf (posAfter (1, 0) before))) := by
  obtain ⟨post, hp⟩ := renderItems_split items L.after i hi
  refine ⟨expectedTokens items L, Gap.chars L.lead ++ renderItems (items.take i) L.after, post,
    layout_tokens_partial items L h, located_length _ _ _, ?_, ?_⟩
  · rw [render, hp, List.append_assoc]
  · rw [expectedTokens, located_getElem? items _ _ i hi, posAfter_append]

/-- what a position is: the line number counts the line feeds printed so far … -/
theorem posAfter_line (p : Nat × Nat) (s : List Char) :
    (posAfter p s).1 = p.1 + s.count '\n' := by
  induction s generalizing p with
  | nil => rfl
  | cons c s ih =>
    rw [posAfter_cons, ih]
    by_cases hc : c = '\n'
    · subst hc; simp [advance]; omega
    · simp [advance, hc]

/-- … and the (0-based) column counts the characters since the last line feed (`locOf` adds one):
    `posAfter` is the usual line/column of an editor that breaks lines at LF only. -/
theorem posAfter_spec (p : Nat × Nat) (t : List Char) (ht : t.contains '\n' = false) :
    posAfter p t = (p.1, p.2 + t.length) ∧
    ∀ s, posAfter p (s ++ '\n' :: t) = (p.1 + s.count '\n' + 1, t.length) := by
  refine ⟨posAfter_noNl p t ht, fun s => ?_⟩
  rw [posAfter_append, posAfter_cons, posAfter_noNl _ t ht]
  simp [advance, posAfter_line]

/-! ### the full statement, and why it is false for the current code -/

/-- the property as stated: *every* valid layout (any non-empty gap between two text items) -/
def LayoutInvariance : Prop :=
  ∀ (items : List LexItem) (L₁ L₂ : Layout), Valid items L₁ → Valid items L₂ →
    strip (tokenize (render items L₁)) = strip (tokenize (render items L₂)) ∧
      strip (tokenize (render items L₁)) = ok items

/-- the location half of the property as stated -/
def LayoutLocations : Prop :=
  ∀ (items : List LexItem) (L : Layout), Valid items L →
    tokenize (render items L) = ok (expectedTokens items L)

def witnessItems : List LexItem := [.text "abc".toList, .text "def".toList]
/-- `abc/* c */def` -/
def witnessGlued : Layout := ⟨[], [[.blockComment " c ".toList], []]⟩
/-- `abc def` -/
def witnessSpaced : Layout := ⟨[], [[.space], []]⟩

example : render witnessItems witnessGlued = "abc/* c */def".toList := by decide +kernel
example : Valid witnessItems witnessGlued ∧ Valid witnessItems witnessSpaced := by decide +kernel
example (hf : Consts.TOKENIZER_OPEN_FLUSHES = false) : ¬ ValidStrict witnessItems witnessGlued := by
  eval_under hf

/-- the `/*` quirk: a block comment alone does not separate two text items -/
theorem block_comment_glues_text (hf : Consts.TOKENIZER_OPEN_FLUSHES = false) :
    tokenize "abc/* c */def".toList = ok [.text ⟨1, 1⟩ "abcdef".toList] ∧
    tokenize "abc def".toList = ok [.text ⟨1, 1⟩ "abc".toList, .text ⟨1, 5⟩ "def".toList] := by
  eval_under hf

/-- the full statement does not hold for the code without repair R5 -/
theorem layoutInvariance_false (hf : Consts.TOKENIZER_OPEN_FLUSHES = false) :
    ¬ LayoutInvariance := by
  intro h
  have h := h witnessItems witnessGlued witnessSpaced (by decide +kernel) (by decide +kernel)
  have : ¬ (strip (tokenize (render witnessItems witnessGlued)) =
        strip (tokenize (render witnessItems witnessSpaced)) ∧
      strip (tokenize (render witnessItems witnessGlued)) = ok witnessItems) := by
    eval_under hf
  exact this h

theorem layoutLocations_false (hf : Consts.TOKENIZER_OPEN_FLUSHES = false) :
    ¬ LayoutLocations := by
  intro h
  have h := h witnessItems witnessGlued (by decide +kernel)
  have : ¬ (tokenize (render witnessItems witnessGlued) =
      ok (expectedTokens witnessItems witnessGlued)) := by
    eval_under hf
  exact this h

/-! ### … and true at full strength once the arm that opens a block comment pushes `previous` -/

theorem valid_strict_of_open_flushes (hf : Consts.TOKENIZER_OPEN_FLUSHES = true)
    (items : List LexItem) (L : Layout) (h : Valid items L) : ValidStrict items L := by
  simp only [Valid, ValidStrict, layoutOk, Bool.and_eq_true] at h ⊢
  exact ⟨h.1, itemsOk_strict_of items L.after false (gapsSeparate_of_open_flushes hf _) h.2⟩

/-- **The property at full strength (after R5)**: tokens and locations for *every* valid
    layout -/
theorem layout_locations_of_open_flushes (hf : Consts.TOKENIZER_OPEN_FLUSHES = true) :
    LayoutLocations :=
  fun items L h => layout_tokens_partial items L (valid_strict_of_open_flushes hf items L h)

/-- **The property at full strength (after R5)**: any two valid layouts, same tokens -/
theorem layout_invariance_of_open_flushes (hf : Consts.TOKENIZER_OPEN_FLUSHES = true) :
    LayoutInvariance :=
  fun items L₁ L₂ h₁ h₂ => layout_invariance_partial items L₁ L₂
    (valid_strict_of_open_flushes hf items L₁ h₁) (valid_strict_of_open_flushes hf items L₂ h₂)

/-- which of the two worlds the source is in that the translator read -/
theorem current_code_status :
    (Consts.TOKENIZER_OPEN_FLUSHES = false ∧ ¬ LayoutInvariance ∧ ¬ LayoutLocations) ∨
    (Consts.TOKENIZER_OPEN_FLUSHES = true ∧ LayoutInvariance ∧ LayoutLocations) := by
  cases hf : Consts.TOKENIZER_OPEN_FLUSHES with
  | false => exact Or.inl ⟨rfl, layoutInvariance_false hf, layoutLocations_false hf⟩
  | true =>
    exact Or.inr ⟨rfl, layout_invariance_of_open_flushes hf, layout_locations_of_open_flushes hf⟩

/-! ### stages 1 and 2: full strength without block comments -/

theorem valid_strict_of_blockFree (items : List LexItem) (L : Layout)
    (hb : L.blockFree = true) (h : Valid items L) : ValidStrict items L := by
  simp only [Valid, ValidStrict, layoutOk, Bool.and_eq_true] at h ⊢
  refine ⟨h.1, itemsOk_strict_of items L.after false ?_ h.2⟩
  simp only [Layout.blockFree, List.all_cons, Bool.and_eq_true] at hb
  simp only [gapsSeparate, List.all_eq_true, Bool.or_eq_true]
  intro g hg
  have hgb := List.all_eq_true.mp hb.2 g hg
  cases g with
  | nil => left; rfl
  | cons p g =>
    right
    simp only [List.all_cons, Bool.and_eq_true] at hgb
    simp only [List.any_cons, Bool.or_eq_true]
    left
    cases p <;> simp_all [Piece.flushes]

/-- **Stage 2, full strength**: layouts of whitespace, line breaks and line comments.  Every
    `Valid` layout (any non-empty gap between two text items) yields the items with the
    locations at which they were printed. -/
theorem line_comment_layouts (items : List LexItem) (L : Layout)
    (hb : L.blockFree = true) (h : Valid items L) :
    tokenize (render items L) = ok (expectedTokens items L) :=
  layout_tokens_partial items L (valid_strict_of_blockFree items L hb h)

/-- **Stage 1, full strength**: whitespace-only layouts (space, tab, CR LF, LF). -/
theorem whitespace_layouts (items : List LexItem) (L : Layout)
    (hw : L.whitespaceOnly = true) (h : Valid items L) :
    tokenize (render items L) = ok (expectedTokens items L) := by
  apply line_comment_layouts items L _ h
  simp only [Layout.whitespaceOnly, Layout.blockFree, List.all_eq_true] at hw ⊢
  intro g hg p hp
  have := hw g hg p hp
  cases p <;> simp_all

/-- invariance for stages 1 and 2 in the form of the property: two layouts, same tokens -/
theorem layout_invariance_no_block_comments (items : List LexItem) (L₁ L₂ : Layout)
    (hb₁ : L₁.blockFree = true) (hb₂ : L₂.blockFree = true)
    (h₁ : Valid items L₁) (h₂ : Valid items L₂) :
    strip (tokenize (render items L₁)) = strip (tokenize (render items L₂)) ∧
      strip (tokenize (render items L₁)) = ok items :=
  layout_invariance_partial items L₁ L₂ (valid_strict_of_blockFree items L₁ hb₁ h₁)
    (valid_strict_of_blockFree items L₂ hb₂ h₂)

/-! ### C14: the tokenizer's only panic -/

/-- The decidable panic condition on the input text (`panicScan`, Front/TokenizerPanic.lean): a
    left-to-right scan that only keeps the `/* … */` nesting depth; it holds iff the scan
    reaches, at depth > 0, a character other than `*` and `/` after which nothing or only one
    line terminator (`\n`, `\r\n`) follows — i.e. the last character of the last line lies
    inside a block comment and is neither `*` nor `/` — or the depth would exceed `i32::MAX`. -/
def PanicCond (s : List Char) : Prop := panicScan 0 .normal s = true

instance (s : List Char) : Decidable (PanicCond s) := inferInstanceAs (Decidable (_ = true))

/-- **The tokenizer panics exactly under `PanicCond`** … -/
theorem tokenize_panics_iff (s : List Char) : tokenize s = panic ↔ PanicCond s :=
  (tokenize_panic_iff s).1

/-- … has no error path … -/
theorem tokenize_never_err (s : List Char) (k : ErrKind) : tokenize s ≠ err k :=
  (tokenize_panic_iff s).2 k

/-- … and otherwise returns tokens. -/
theorem tokenize_total (s : List Char) (h : ¬ PanicCond s) : ∃ ts, tokenize s = ok ts := by
  cases hs : tokenize s with
  | ok ts => exact ⟨ts, rfl⟩
  | err k => exact absurd hs (tokenize_never_err s k)
  | panic => exact absurd ((tokenize_panics_iff s).mp hs) h

/-- a text without `/*` never panics -/
theorem no_block_comment_no_panic (s : List Char) (h : hasOpen s = false) : tokenize s ≠ panic := by
  intro hp
  have := (tokenize_panics_iff s).mp hp
  rw [PanicCond, panicScan_noOpen s .normal h] at this
  cases this

/-- every `ValidStrict` rendered text is outside the panic condition -/
theorem rendered_no_panic (items : List LexItem) (L : Layout) (h : ValidStrict items L) :
    ¬ PanicCond (render items L) := by
  intro hp
  have := (tokenize_panics_iff _).mpr hp
  rw [layout_tokens_partial items L h] at this
  cases this

/-! ### non-vacuity and documented behaviour of the current code -/

/-- a layout using every kind of piece, nested and multi-line comments included -/
def demoItems : List LexItem :=
  [.text "Name".toList, .sep ':', .sep ':', .sep '=', .text "INTEGER".toList, .sep '(',
   .text "-5".toList, .sep '.', .sep '.', .text "a-b".toList, .sep ')']

def demoLayout : Layout :=
  ⟨[.blockComment " head /* nested */ \n more ".toList, .crlf],
   [[.space, .lineComment " c -- still comment".toList, .tab], [], [], [.blockComment "x".toList],
    [.blockComment "a\n/*/*b*/*/".toList], [.lf], [], [], [.space, .space], [],
    [.lineComment "".toList]]⟩

example : ValidStrict demoItems demoLayout := by decide +kernel
example : Valid demoItems demoLayout := by decide +kernel
example : render demoItems demoLayout =
    ("/* head /* nested */ \n more */\r\nName -- c -- still comment\n\t::=/*x*/INTEGER/*a\n" ++
      "/*/*b*/*/*/(\n-5..  a-b)--\n").toList := by decide +kernel
example : tokenize (render demoItems demoLayout) = ok
    [.text ⟨3, 1⟩ "Name".toList, .separator ⟨4, 2⟩ ':', .separator ⟨4, 3⟩ ':',
     .separator ⟨4, 4⟩ '=', .text ⟨4, 10⟩ "INTEGER".toList, .separator ⟨5, 12⟩ '(',
     .text ⟨6, 1⟩ "-5".toList, .separator ⟨6, 3⟩ '.', .separator ⟨6, 4⟩ '.',
     .text ⟨6, 7⟩ "a-b".toList, .separator ⟨6, 10⟩ ')'] := by decide +kernel
example : expectedTokens demoItems demoLayout =
    [.text ⟨3, 1⟩ "Name".toList, .separator ⟨4, 2⟩ ':', .separator ⟨4, 3⟩ ':',
     .separator ⟨4, 4⟩ '=', .text ⟨4, 10⟩ "INTEGER".toList, .separator ⟨5, 12⟩ '(',
     .text ⟨6, 1⟩ "-5".toList, .separator ⟨6, 3⟩ '.', .separator ⟨6, 4⟩ '.',
     .text ⟨6, 7⟩ "a-b".toList, .separator ⟨6, 10⟩ ')'] := by decide +kernel
example : Layout.whitespaceOnly ⟨[.lf], [[.space], [.crlf, .tab]]⟩ = true := by decide +kernel
example : Valid [.text "a".toList, .text "b".toList] ⟨[.lf], [[.space], [.crlf, .tab]]⟩ := by decide +kernel

-- the side condition on block comment bodies: examples and non-examples
example : (Piece.blockComment " a /* b */ c ".toList).ok = true := by decide +kernel
example : (Piece.blockComment "".toList).ok = true := by decide +kernel
example : (Piece.blockComment "*".toList).ok = true := by decide +kernel   -- `/***/`
example : (Piece.blockComment " */ ".toList).ok = false := by decide +kernel -- closes too early
example : (Piece.blockComment " /* ".toList).ok = false := by decide +kernel -- never closes
example : (Piece.blockComment "/".toList).ok = false := by decide +kernel -- `/*/*/` reads `/*` `/*` `/`

-- the panic condition: examples
example : PanicCond "/* x".toList ∧ PanicCond "a /* b\r\n".toList ∧ PanicCond "/*\r".toList := by
  decide +kernel
example : ¬ PanicCond "/*".toList ∧ ¬ PanicCond "/* *".toList ∧ ¬ PanicCond "/* x\n\n".toList ∧
    ¬ PanicCond "-- /* x".toList ∧ ¬ PanicCond "/* x */".toList := by decide +kernel
example : tokenize "/* x".toList = panic := by decide +kernel
/-- an unterminated block comment is *not* always reported: these return tokens silently -/
example : tokenize "a /*".toList = ok [.text ⟨1, 1⟩ ['a']] ∧
    tokenize "a /* b *".toList = ok [.text ⟨1, 1⟩ ['a']] ∧
    tokenize "a /* b\n\n".toList = ok [.text ⟨1, 1⟩ ['a']] := by decide +kernel

/-- `--` drops the rest of the line; a second `--` does not end the comment (X.680 12.6.3 would
    continue with `b`).  Outside the property's quantifier (its line comments end at the line
    break), recorded here because it is a layout-dependent reading. -/
example : tokenize "a -- c -- b".toList = ok [.text ⟨1, 1⟩ ['a']] := by decide +kernel
/-- control characters other than TAB/CR/LF neither separate nor belong to a token; VT and FF
    (white space in X.680 12.1.6) glue their neighbours -/
example : tokenize ['a', Char.ofNat 11, 'b'] = ok [.text ⟨1, 1⟩ ['a', 'b']] := by decide +kernel
/-- a lone CR is a column, not a line break -/
example : tokenize "a\rb".toList = ok [.text ⟨1, 1⟩ ['a'], .text ⟨1, 3⟩ ['b']] := by decide +kernel
/-- why a text item ending in `-` may not be followed directly by `--`: inherent to the lexical
    grammar (also under X.680), not a defect -/
example : tokenize "a---c\n".toList = ok [.text ⟨1, 1⟩ ['a']] := by decide +kernel

end Asn1Verif.Props.C13
