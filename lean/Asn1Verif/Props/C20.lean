import Asn1Verif.Der.BasicLemmas
/-
  C20 — DER primitives round trip: identifier, length, BOOLEAN, INTEGER, ENUMERATED.

  Property theorems only; helper lemmas live in `Der/BasicLemmas.lean`, the model (mirror of
  `src/protocol/basic/distinguished/mod.rs` and `src/rw/der.rs`) in `Der/Basic.lean`.

  Every round trip has the shape `read (write x ++ post) = ok (x, post)` for an arbitrary
  continuation `post`: the reader returns the written value *and* leaves exactly `post`, i.e. it
  consumes exactly the bytes written; back-to-back composition follows by induction
  (`numbers_back_to_back`).  All quantifiers are unbounded (every `u64`, every `i64`, …).

  Writers never fail on a `Vec<u8>`; `…_writer_total` shows that the three checked subtractions
  of the writer never underflow, so the plain functions used below are what the code computes.

  Tag numbers: the writer ORs `number as u8` into the identifier octet and the reader takes the
  low six bits as the number, so the round trip holds exactly for `number < 64`
  (`identifier_roundtrip_iff`); the property's quantifier is `number < 31`
  (`identifier_roundtrip_lt31`).  The statement for all numbers is false (`identifier_any_number_false`).
-/
namespace Asn1Verif.Props.C20
open Asn1Verif Asn1Verif.Der Outcome

/-! ### what `leading_zeros` means in the model -/

/-- `lz64` (the model of `u64::leading_zeros`, defined through `Nat.log2`) has the defining
    property of a leading-zero count, and `lz64 n / 8` equals the explicit eight-way comparison
    cascade; the correspondence stream checks the same against the real instruction -/
theorem leading_zeros_model (n : Nat) (h : n < 2 ^ 64) :
    ((n = 0 → lz64 n = 64) ∧
     (n ≠ 0 → lz64 n ≤ 63 ∧ 2 ^ (63 - lz64 n) ≤ n ∧ n < 2 ^ (63 - lz64 n + 1))) ∧
    lz64 n / 8 =
      (if n = 0 then 8 else if n < 2 ^ 8 then 7 else if n < 2 ^ 16 then 6 else if n < 2 ^ 24 then 5
       else if n < 2 ^ 32 then 4 else if n < 2 ^ 40 then 3 else if n < 2 ^ 48 then 2
       else if n < 2 ^ 56 then 1 else 0) :=
  ⟨lz64_spec n h, lz64_div8_cascade n h⟩

/-! ### length (X.690 8.1.3) -/

/-- every `u64` length is read back unchanged and the reader stops exactly behind it -/
theorem length_roundtrip (n : Nat) (post : List Byte) (h : n < 2 ^ 64) :
    readLength (writeLength n ++ post) = ok (n, post) :=
  readLength_write n post h

/-- `write_length` never panics (`8 - leading_zeros/8` does not underflow), for any argument -/
theorem length_writer_total (n : Nat) : writeLengthC n = ok (writeLength n) :=
  writeLengthC_eq n

/-- the writer's output is the X.690 definite form: one octet up to 127, otherwise
    `0x80 | k` followed by the `k = 8 - ⌊lz/8⌋` significant bytes, most significant first -/
theorem length_encoding (n : Nat) :
    (n ≤ 127 → writeLength n = [0x00#8 ||| u8 n]) ∧
    (127 < n → writeLength n = (0x80#8 ||| u8 (intLen n)) :: beBytes (intLen n) n) :=
  ⟨writeLength_short n, fun h => by rw [writeLength_long n h, writeIntegerU64_eq]⟩

/-! ### identifier octet (X.690 8.1.2, low tag numbers) -/

/-- all four classes, every number below 64 -/
theorem identifier_roundtrip (t : Tag) (post : List Byte) (h : t.number < 64) :
    readIdentifier (writeIdentifier t ++ post) = ok (t, post) :=
  readIdentifier_write t post h

/-- the property's quantifier: class × number < 31 -/
theorem identifier_roundtrip_lt31 (c : TagClass) (n : Nat) (post : List Byte) (h : n < 31) :
    readIdentifier (writeIdentifier ⟨c, n⟩ ++ post) = ok (⟨c, n⟩, post) :=
  readIdentifier_write ⟨c, n⟩ post (by simp only; omega)

/-- `number < 64` is exactly the domain on which the identifier round-trips -/
theorem identifier_roundtrip_iff (t : Tag) (post : List Byte) :
    readIdentifier (writeIdentifier t ++ post) = ok (t, post) ↔ t.number < 64 := by
  constructor
  · intro h
    obtain ⟨_, _, _, hlt⟩ := readIdentifier_ok h
    exact hlt
  · exact readIdentifier_write t post

/-- the statement without the bound on the tag number … -/
def IdentifierRoundTripAnyNumber : Prop :=
  ∀ (t : Tag) (post : List Byte), readIdentifier (writeIdentifier t ++ post) = ok (t, post)

/-- … is false for the current code: `Universal(64)` is written as `0x40` and read as
    `Application(0)` -/
theorem identifier_any_number_false : ¬ IdentifierRoundTripAnyNumber := by
  intro h
  have := (identifier_roundtrip_iff ⟨.universal, 64⟩ []).mp (h _ _)
  exact absurd this (by decide)

example : readIdentifier (writeIdentifier ⟨.universal, 64⟩) = ok (⟨.application, 0⟩, []) := by decide
example : readIdentifier (writeIdentifier ⟨.application, 300⟩) = ok (⟨.application, 44⟩, []) := by decide

/-! ### BOOLEAN content octet (X.690 8.2) -/

theorem boolean_octet_roundtrip (v : Bool) (post : List Byte) :
    readBoolean (writeBoolean v ++ post) = ok (v, post) := by
  cases v <;> rfl

/-- any non-zero octet is `true`, only `0x00` is `false` -/
theorem boolean_octet_any_nonzero (b : Byte) (post : List Byte) :
    readBoolean (b :: post) = ok (decide (b ≠ 0#8), post) := by
  rw [readBoolean_cons]
  by_cases h : b = 0#8 <;> simp [h]

/-! ### INTEGER content octets (zero-extended big endian; not X.690 8.3 two's complement) -/

/-- the number of bytes the integer writers emit is the length `write_number` announces:
    `max(8 - ⌊lz/8⌋, 1) = 8 - min(⌊lz/8⌋, 7)` -/
theorem integer_len (n : Nat) (v : Int) :
    (writeIntegerU64 n).length = max (8 - lz64 n / 8) 1 ∧
    (writeIntegerI64 v).length = max (8 - lz64 (i64AsU64 v) / 8) 1 := by
  rw [length_writeIntegerU64, length_writeIntegerI64, number_len, number_len]
  exact ⟨rfl, rfl⟩

/-- every `u64`, read with the byte count the writer emitted -/
theorem integer_u64_roundtrip (n : Nat) (post : List Byte) (h : n < 2 ^ 64) :
    readIntegerU64 (writeIntegerU64 n).length (writeIntegerU64 n ++ post) = ok (n, post) := by
  rw [length_writeIntegerU64]; exact readIntegerU64_write n post h

/-- every `i64` (negative values travel as their 8-byte two's complement pattern) -/
theorem integer_i64_roundtrip (v : Int) (post : List Byte)
    (h1 : -(2 ^ 63 : Int) ≤ v) (h2 : v < 2 ^ 63) :
    readIntegerI64 (writeIntegerI64 v).length (writeIntegerI64 v ++ post) = ok (v, post) := by
  rw [length_writeIntegerI64, readIntegerI64_write, u64AsI64_i64AsU64 v h1 h2]

/-- a declared byte count above 8 is an error, not a panic; this is the only error besides a
    short source -/
theorem integer_byte_len_limit (k : Nat) (inp : List Byte) (h : 8 < k) :
    readIntegerU64 k inp = err .lengthExceedsLimit ∧ readIntegerI64 k inp = err .lengthExceedsLimit := by
  unfold readIntegerU64 readIntegerI64
  simp only [List.length_replicate]
  rw [if_pos h, if_pos h]
  exact ⟨rfl, rfl⟩

/-! ### `BasicWriter::write_number` / `BasicReader::read_number` (tag, length, content) -/

/-- every value of every Rust integer type (`u8 … u64`, `i8 … i64`) under every tag with
    number < 64; `u64` values ≥ 2^63 go through `as i64` and back -/
theorem number_roundtrip (t : NumTy) (tag : Tag) (v : Int) (post : List Byte)
    (ht : t.Valid) (hv : t.InRange v) (htag : tag.number < 64) :
    readNumber t tag (writeNumber t tag v ++ post) = ok (v, post) := by
  rw [readNumber_write t tag v post htag, fromI64_toI64 t v ht hv]

theorem number_roundtrip_i64 (tag : Tag) (v : Int) (post : List Byte)
    (h1 : -(2 ^ 63 : Int) ≤ v) (h2 : v < 2 ^ 63) (htag : tag.number < 64) :
    readNumber .i64 tag (writeNumber .i64 tag v ++ post) = ok (v, post) :=
  number_roundtrip .i64 tag v post (by decide) (by simp [NumTy.InRange, NumTy.i64]; omega) htag

theorem number_roundtrip_u64 (tag : Tag) (n : Nat) (post : List Byte)
    (h : n < 2 ^ 64) (htag : tag.number < 64) :
    readNumber .u64 tag (writeNumber .u64 tag n ++ post) = ok ((n : Int), post) :=
  number_roundtrip .u64 tag n post (by decide) (by simp [NumTy.InRange, NumTy.u64]; omega) htag

/-- `write_number` never panics (`8 - leading_zeros/8` and the nested `write_length`) -/
theorem number_writer_total (t : NumTy) (tag : Tag) (v : Int) :
    writeNumberC t tag v = ok (writeNumber t tag v) :=
  writeNumberC_eq t tag v

/-- shape of the written element: identifier, length = number of content octets, content -/
theorem number_encoding (t : NumTy) (tag : Tag) (v : Int) :
    writeNumber t tag v = writeIdentifier tag ++
      (writeLength (writeIntegerI64 (t.toI64 v)).length ++ writeIntegerI64 (t.toI64 v)) := by
  rw [writeNumber_eq, length_writeIntegerI64]
  simp only [NumTy.toI64, i64AsU64_u64AsI64 _ (i64AsU64_lt v)]

/-! back-to-back composition: any number of values in one writer, read by one reader -/

def writeNumbers (t : NumTy) (tag : Tag) : List Int → List Byte
  | [] => []
  | v :: vs => writeNumber t tag v ++ writeNumbers t tag vs

def readNumbers (t : NumTy) (tag : Tag) : Nat → List Byte → Outcome (List Int × List Byte)
  | 0, inp => ok ([], inp)
  | k + 1, inp => do
    let (v, r) ← readNumber t tag inp
    let (vs, r') ← readNumbers t tag k r
    ok (v :: vs, r')

theorem numbers_back_to_back (t : NumTy) (tag : Tag) (vs : List Int) (post : List Byte)
    (ht : t.Valid) (hv : ∀ v ∈ vs, t.InRange v) (htag : tag.number < 64) :
    readNumbers t tag vs.length (writeNumbers t tag vs ++ post) = ok (vs, post) := by
  induction vs with
  | nil => rfl
  | cons v vs ih =>
    simp only [writeNumbers, List.length_cons, readNumbers, List.append_assoc]
    rw [number_roundtrip t tag v _ ht (hv v (by simp)) htag]
    simp only [bind_ok]
    rw [ih (fun w hw => hv w (by simp [hw]))]
    rfl

/-! ### BOOLEAN element -/

theorem boolean_roundtrip (tag : Tag) (v : Bool) (post : List Byte) (htag : tag.number < 64) :
    readBooleanTlv tag (writeBooleanTlv tag v ++ post) = ok (v, post) := by
  unfold readBooleanTlv writeBooleanTlv
  simp only [List.append_assoc]
  rw [readIdentifier_write tag _ htag]
  simp only [bind_ok, ne_eq, not_true_eq_false, ite_false]
  rw [readLength_write 1 _ (by decide)]
  simp only [bind_ok]
  rw [if_neg (by omega)]
  exact boolean_octet_roundtrip v post

/-- "booleans accept any non-zero octet as true": identifier, length 1, then *any* content octet
    `c`; the result is `c ≠ 0` and the reader stops behind the octet -/
theorem boolean_any_nonzero (tag : Tag) (c : Byte) (post : List Byte) (htag : tag.number < 64) :
    readBooleanTlv tag (writeIdentifier tag ++ (writeLength 1 ++ c :: post))
      = ok (decide (c ≠ 0#8), post) := by
  unfold readBooleanTlv
  rw [readIdentifier_write tag _ htag]
  simp only [bind_ok, ne_eq, not_true_eq_false, ite_false]
  rw [readLength_write 1 _ (by decide)]
  simp only [bind_ok]
  rw [if_neg (by omega)]
  exact boolean_octet_any_nonzero c post

/-- a length other than 1 is rejected (error, never a panic) -/
theorem boolean_wrong_length (tag : Tag) (n : Nat) (rest : List Byte)
    (htag : tag.number < 64) (hn : n < 2 ^ 64) (h1 : n ≠ 1) :
    readBooleanTlv tag (writeIdentifier tag ++ (writeLength n ++ rest)) = err .other := by
  unfold readBooleanTlv
  rw [readIdentifier_write tag _ htag]
  simp only [bind_ok, ne_eq, not_true_eq_false, ite_false]
  rw [readLength_write n _ hn]
  simp only [bind_ok]
  rw [if_pos (by omega)]

/-! ### ENUMERATED (an INTEGER of type `u64` under the enumeration's tag) -/

/-- every index of every enumeration (`VARIANT_COUNT` is a `u64`) -/
theorem enumerated_roundtrip (tag : Tag) (count i : Nat) (post : List Byte)
    (hi : i < count) (hc : count ≤ 2 ^ 64) (htag : tag.number < 64) :
    readEnumerated tag count (writeEnumerated tag i ++ post) = ok (i, post) := by
  unfold readEnumerated writeEnumerated
  rw [number_roundtrip_u64 tag i post (by omega) htag]
  simp only [bind_ok, Int.toNat_natCast]
  rw [if_pos hi]

theorem enumerated_writer_total (tag : Tag) (i : Nat) :
    writeEnumeratedC tag i = ok (writeEnumerated tag i) :=
  writeEnumeratedC_eq tag i

/-- whatever the bytes are, an accepted index is below the variant count -/
theorem enumerated_index_in_range (tag : Tag) (count : Nat) (inp rest : List Byte) (i : Nat)
    (h : readEnumerated tag count inp = ok (i, rest)) : i < count := by
  unfold readEnumerated at h
  cases hn : readNumber .u64 tag inp with
  | err e => rw [hn] at h; simp at h
  | panic => rw [hn] at h; simp at h
  | ok p =>
    obtain ⟨v, r⟩ := p
    rw [hn] at h
    simp only [bind_ok] at h
    split at h
    · rename_i hlt
      simp only [ok.injEq, Prod.mk.injEq] at h
      rw [← h.1]; exact hlt
    · simp at h

/-! ### the reader on arbitrary bytes (feeds C04) -/

/-- no input whatsoever makes any DER read operation panic (in particular the
    `unreachable!()` of `read_identifier` is unreachable and `8 - byte_len` cannot underflow) -/
theorem reader_never_panics (inp : List Byte) (k : Nat) (t : NumTy) (tag : Tag) (count : Nat) :
    readIdentifier inp ≠ .panic ∧ readLength inp ≠ .panic ∧ readBoolean inp ≠ .panic ∧
    readIntegerU64 k inp ≠ .panic ∧ readIntegerI64 k inp ≠ .panic ∧
    readNumber t tag inp ≠ .panic ∧ readBooleanTlv tag inp ≠ .panic ∧
    readEnumerated tag count inp ≠ .panic :=
  ⟨readIdentifier_ne_panic inp, readLength_ne_panic inp, readBoolean_ne_panic inp,
   readIntegerU64_ne_panic k inp, readIntegerI64_ne_panic k inp, readNumber_ne_panic t tag inp,
   readBooleanTlv_ne_panic tag inp, readEnumerated_ne_panic tag count inp⟩

/-- a successful `read_length` on arbitrary bytes took 1..9 bytes from the front of the source
    and returns a `u64` -/
theorem read_length_consumes (inp rest : List Byte) (n : Nat) (h : readLength inp = ok (n, rest)) :
    ∃ got, inp = got ++ rest ∧ 1 ≤ got.length ∧ got.length ≤ 9 ∧ n < 2 ^ 64 :=
  readLength_ok h

/-- a successful `read_number` on arbitrary bytes took 2..18 bytes from the front of the source
    (never reads past it, never rewinds) and returns a value of the requested Rust type -/
theorem read_number_consumes (t : NumTy) (tag : Tag) (inp rest : List Byte) (v : Int)
    (h : readNumber t tag inp = ok (v, rest)) :
    ∃ got x, inp = got ++ rest ∧ 2 ≤ got.length ∧ got.length ≤ 18 ∧ v = t.fromI64 x :=
  readNumber_ok h

/-! ### non-vacuity: concrete instances satisfying the hypotheses, evaluated by the kernel -/

example : (18446744073709551615 : Nat) < 2 ^ 64 := by decide
example : writeLength 18446744073709551615 =
    [0x88#8, 0xff#8, 0xff#8, 0xff#8, 0xff#8, 0xff#8, 0xff#8, 0xff#8, 0xff#8] := by decide
example : writeLength 128 = [0x81#8, 0x80#8] ∧ writeLength 127 = [0x7f#8] := by decide
example : readLength (writeLength 65536 ++ [0xAA#8]) = ok (65536, [0xAA#8]) := by decide
example : (⟨.private_, 63⟩ : Tag).number < 64 := by decide
example : writeIdentifier ⟨.private_, 63⟩ = [0xff#8] := by decide
example : NumTy.u64.Valid ∧ NumTy.u64.InRange 18446744073709551615 ∧ ¬ NumTy.u64.InRange (-1) := by
  decide
example : (⟨true, 8⟩ : NumTy).Valid ∧ (⟨true, 8⟩ : NumTy).InRange (-128) := by decide
example : writeNumber .u64 ⟨.universal, 2⟩ 18446744073709551615 =
    [0x02#8, 0x08#8, 0xff#8, 0xff#8, 0xff#8, 0xff#8, 0xff#8, 0xff#8, 0xff#8, 0xff#8] := by decide
example : writeNumber .i64 ⟨.universal, 2⟩ 128 = [0x02#8, 0x01#8, 0x80#8] := by decide
example : writeNumber .i64 ⟨.universal, 2⟩ 0 = [0x02#8, 0x01#8, 0x00#8] := by decide
example : readNumber .i64 ⟨.universal, 2⟩ [0x02#8, 0x01#8, 0x80#8, 0x07#8] = ok (128, [0x07#8]) := by
  decide
example : writeBooleanTlv ⟨.universal, 1⟩ true = [0x01#8, 0x01#8, 0x01#8] := by decide
example : readBooleanTlv ⟨.universal, 1⟩ [0x01#8, 0x01#8, 0xff#8] = ok (true, []) := by decide
example : (2 : Nat) < 3 ∧ (3 : Nat) ≤ 2 ^ 64 := by decide
example : readEnumerated ⟨.universal, 10⟩ 3 (writeEnumerated ⟨.universal, 10⟩ 2) = ok (2, []) := by
  decide
example : readEnumerated ⟨.universal, 10⟩ 3 [0x0a#8, 0x01#8, 0x03#8] = err .invalidChoiceIndex := by
  decide
example : readNumbers .i64 ⟨.universal, 2⟩ 2 (writeNumbers .i64 ⟨.universal, 2⟩ [-1, 300]) =
    ok ([-1, 300], []) := by decide
-- `len as u32`: a declared length of 2^32 + 1 is read as 1 content octet (modelled as it is)
example : readNumber .i64 ⟨.universal, 2⟩
    [0x02#8, 0x85#8, 0x01#8, 0x00#8, 0x00#8, 0x00#8, 0x01#8, 0x7f#8] = ok (127, []) := by decide

end Asn1Verif.Props.C20
