import Asn1Verif.Uper.Conform
import Asn1Verif.Uper.RoundTrip
import Asn1Verif.Uper.ConformFrag
/-
  C02 — UPER encodings are bit-exact X.691 within the conformance profile.

  Code mirror:     `Uper/Impl.lean`   (`enc`, `dec`: compositional mirror of `src/rw/uper.rs`)
  Specification:   `X691/Encode.lean` (`X691.encode`, written from X.691 08/2015, UNALIGNED)
  Lemmas:          `Uper/ConformDefs|ConformLeaf|ConformNode|ConformSeq|Conform.lean`
                   on top of the C10 lemma library `Per/PrimLemmas*.lean`

  Writer:  `conform_write_partial` — mutual structural induction over `Ty`/`Fields`: for EVERY type
  none of whose nodes lies in a known deviation class (`NoKnownDeviation`, below) and every value
  inside the Rust ranges with fewer than 16K items per SEQUENCE OF / restricted string (`InRange`),
  the bits the writer produces are the X.691 encoding.  Nesting, number of components, number of
  extension additions, open-type sizes (fragmented from 16K octets on), OCTET/BIT STRING lengths:
  unbounded.
  The full statement `conform_write` (the profile of DESIGN.md section 4, `InProfile`) is false for
  the current code; it is refuted on one witness per deviation class.

  `NoKnownDeviation t` (`Ty.noDev`, decidable, recursive over every node of `t`):
    * INTEGER: `(lb..ub)` with `ub < i64::MAX` (extensible or not) or unconstrained non-extensible.
      Excluded: `(lb..MAX)` (63-bit constrained field instead of 11.7), `(MIN..ub)` (written as
      `(0..ub)` instead of 11.8), extensible without both bounds.
    * OCTET STRING, BIT STRING, restricted strings, SEQUENCE OF: `¬ Per.LenDeviates min max`, i.e.
      no bound at all or an upper bound `< 64K` (finding F-64k).  UTF8String: no condition.
    * SEQUENCE/SET: no MANDATORY extension addition whose type is a CHOICE or a SEQUENCE OF (the
      code writes those inline instead of as an open type); at most 64 extension additions (beyond,
      X.691 19.8 / 11.9.3.4 changes the form of the count; the code does not, and `X691.encode`
      transcribes the code's form 11.6 there: DESIGN.md 4.3, outside the profile).
  `InRange t v` = `t.consistent` ∧ `rangeOk t v` (decidable, recursive over type and value):
    * INTEGER value within `i64`; ENUMERATED index `< total ≤ u64::MAX`; CHOICE `total ≤ u64::MAX`;
      SEQUENCE: number of components `≤ u64::MAX`; OCTET/BIT STRING length `≤ i64::MAX`;
    * SEQUENCE OF and restricted strings: fewer than 16384 items (finding F-frag: the announced
      fragment size is ignored there).  No condition on open-type sizes.
-/
namespace Asn1Verif.Props.C02
open Asn1Verif Asn1Verif.Per Asn1Verif.Uper Outcome

/-- C02, writer direction, outside the known deviation classes -/
theorem conform_write_partial (t : Ty) (v : Val) (bits : Bits)
    (hd : NoKnownDeviation t = true) (hr : InRange t v = true) (h : enc t v = ok bits) :
    X691.encode t v = some bits := by
  simp only [InRange, Bool.and_eq_true] at hr
  exact cw t v bits hd hr.1 hr.2 h

/-- … alternatives of a CHOICE … -/
theorem conform_write_alt_partial (alts : Fields) (i : Nat) (x : Val) (bits : Bits)
    (hd : alts.noDev alts.length = true) (hc : alts.consistent = true)
    (hr : rangeOkAlt alts i x = true) (h : encAlt alts i x = ok bits) :
    X691.encodeAlt alts i x = some bits := (cwAlt alts alts.length i x bits hd hc hr h).1

/-- … and the components of a SEQUENCE/SET: the accumulator frame lemma.  Whatever the writer's
    append-only accumulator held before, a successful run over the components has appended exactly
    the four parts the specification builds (root presence bits, root component encodings, addition
    presence bits, addition open types), subject to the state of the extension machine
    (`Uper.Frame`). -/
theorem conform_write_fields_partial (fs : Fields) (vs : Vals) (rootLeft : Nat) (acc acc' : SeqAcc)
    (hd : fs.noDev rootLeft = true) (hc : fs.consistent = true) (hr : rangeOkFields fs vs = true)
    (h : encFields fs vs rootLeft acc = ok acc') :
    ∃ rp rb ap ab, X691.encodeFields fs vs rootLeft = some (rp, rb, ap, ab) ∧
      Frame acc acc' rp rb ap ab := cwFields fs vs rootLeft acc acc' hd hc hr h

/-- the writer's open type is 11.2 for every content length (16K fragmentation included) -/
theorem open_type_conform (content o : Bits) (h : Uper.openType content = ok o) :
    o = X691.openType content := openType_conform content o h

/-! ### reader direction -/

/-- C02, reader direction, for every value the writer accepts: the reader decodes the canonical
    X.691 encoding `xbits` of `v` — standing between arbitrary `pre` and `post` — to `v` and
    consumes exactly `xbits`.  (`conform_write_partial` + the round trip of C01; `WF` is the
    hypothesis of `C01.roundtrip_partial`: integers fit their Rust type, open-type contents below
    16K octets, no mandatory SEQUENCE OF addition.)
    NOT covered: canonical encodings of values the writer refuses although X.691 encodes them — an
    extensible SEQUENCE whose first extension addition is absent while a later one is present
    (`ExtensionFieldsInconsistent`); the reader side of that pattern is not proved here. -/
theorem conform_read_of_written (t : Ty) (v : Val) (xbits pre post : Bits)
    (hd : NoKnownDeviation t = true) (hr : InRange t v = true) (hw : WF t v = true)
    (hacc : (enc t v).isOk = true) (hx : X691.encode t v = some xbits) :
    dec t (pre ++ xbits ++ post) pre.length = ok (v, pre.length + xbits.length) := by
  cases he : enc t v with
  | err k => rw [he] at hacc; cases hacc
  | panic => rw [he] at hacc; cases hacc
  | ok bits =>
    have := conform_write_partial t v bits hd hr he
    rw [hx] at this
    injection this with this
    subst this
    simp only [WF, Bool.and_eq_true] at hw
    rw [List.append_assoc]
    exact rt t hw.1.2 v xbits hw.2 he _ _ post (At.of_append pre xbits post)

/-- the full reader statement (kept as a proposition; proved only in the form above) -/
def conform_read : Prop :=
  ∀ (t : Ty) (v : Val) (xbits pre post : Bits), InProfile t v = true →
    X691.encode t v = some xbits →
    dec t (pre ++ xbits ++ post) pre.length = ok (v, pre.length + xbits.length)

/-- … false for the current code: the canonical encoding `00000001 00000010` of the value 7 of
    `INTEGER (5..MAX)` is read as a 63-bit field (end of stream) -/
theorem conform_read_false : ¬ conform_read := fun h => by
  have := h (.int (some 5) (some I64_MAX) false 64 true) (.int 7)
    ([false, false, false, false, false, false, false, true] ++
      [false, false, false, false, false, false, true, false]) [] []
    (by decide +kernel) (by decide +kernel)
  have hok := congrArg Outcome.isOk this
  revert hok
  decide +kernel

/-! ### non-vacuity: an extensible SEQUENCE with OPTIONAL SEQUENCE OF, DEFAULT ENUMERATED, an
    extensible CHOICE and an OPTIONAL IA5String extension addition -/

def exTy : Ty :=
  .seq 2 5 (some 3)
    (.cons .m (.int (some 0) (some 255) false 8 false)
    (.cons .o (.seqOf (some 0) (some 4) true .bool)
    (.cons (.d (.enum 1)) (.enum 3 3 false)
    (.cons .m (.choice 2 3 true
      (.cons .m .bool (.cons .m .null (.cons .m (.oct none none false) .nil))))
    (.cons .o (.str .ia5 (some 1) (some 10) false) .nil)))))

/-- addition absent, root alternative -/
def exVal1 : Val :=
  .seq (.cons (.int 200) (.cons (.some (.list (.cons (.bool true) (.cons (.bool false) .nil))))
    (.cons (.enum 2) (.cons (.choice 0 (.bool true)) (.cons .none .nil)))))

/-- addition present, extension alternative (two open types) -/
def exVal2 : Val :=
  .seq (.cons (.int 200) (.cons (.some (.list (.cons (.bool true) (.cons (.bool false) .nil))))
    (.cons (.enum 1) (.cons (.choice 2 (.oct [0xAB#8])) (.cons (.some (.str [0x41#8])) .nil)))))

example : NoKnownDeviation exTy = true := by decide
example : InRange exTy exVal1 = true ∧ InRange exTy exVal2 = true := by decide
example : WF exTy exVal1 = true ∧ WF exTy exVal2 = true := by decide +kernel
example : enc exTy exVal1 = ok [false, true, true, true, true, false, false, true, false, false, false,
    false, false, true, false, true, false, true, false, false, false, true] := by decide
example : (enc exTy exVal2).isOk = true ∧ (X691.encode exTy exVal2).map Outcome.ok = some (enc exTy exVal2) := by
  decide +kernel

-- `conform_write_alt_partial`, `conform_write_fields_partial`: the parts of `exTy`
def exAlts : Fields := .cons .m .bool (.cons .m .null (.cons .m (.oct none none false) .nil))
example : exAlts.noDev exAlts.length = true ∧ exAlts.consistent = true ∧
    rangeOkAlt exAlts 2 (.oct [0xAB#8]) = true ∧ (encAlt exAlts 2 (.oct [0xAB#8])).isOk = true := by
  decide +kernel
def exFields : Fields :=
  .cons .m (.int (some 0) (some 255) false 8 false) (.cons .o (.seqOf (some 0) (some 4) true .bool) .nil)
def exVals : Vals := .cons (.int 200) (.cons .none .nil)
example : exFields.noDev 1 = true ∧ exFields.consistent = true ∧ rangeOkFields exFields exVals = true ∧
    (encFields exFields exVals 1 {}).isOk = true := by decide +kernel

/-! ### the full statement and its refutation, one witness per deviation class -/

/-- C02 at full strength: the whole profile of DESIGN.md section 4 -/
def conform_write : Prop :=
  ∀ (t : Ty) (v : Val) (bits : Bits), InProfile t v = true → enc t v = ok bits →
    X691.encode t v = some bits

/-- refutation from a witness -/
theorem conform_write_false_of (t : Ty) (v : Val) (bits : Bits) (hp : InProfile t v = true)
    (he : enc t v = ok bits) (hx : X691.encode t v ≠ some bits) : ¬ conform_write :=
  fun h => hx (h t v bits hp he)

/-- `INTEGER (5..MAX)`, value 7: the code writes a 63-bit constrained field, X.691 13.2.3 / 11.7
    demands the semi-constrained form `00000001 00000010` -/
theorem conform_write_false_int_lb_max : ¬ conform_write :=
  conform_write_false_of (.int (some 5) (some I64_MAX) false 64 true) (.int 7)
    (List.replicate 61 false ++ [true, false]) (by decide +kernel) (by decide +kernel)
    (by decide +kernel)

/-- the same with the upper bound absent from the descriptor -/
theorem conform_write_false_int_lb_none : ¬ conform_write :=
  conform_write_false_of (.int (some 5) none false 64 true) (.int 7)
    (List.replicate 61 false ++ [true, false]) (by decide +kernel) (by decide +kernel)
    (by decide +kernel)

/-- `INTEGER (MIN..10)`, value 3: written as `(0..10)` in 4 bits, X.691 13.2.4 / 11.8 demands the
    unconstrained form `00000001 00000011` -/
theorem conform_write_false_int_min_ub : ¬ conform_write :=
  conform_write_false_of (.int none (some 10) false 8 true) (.int 3)
    [false, false, true, true] (by decide +kernel) (by decide +kernel) (by decide +kernel)

/-- `OCTET STRING (SIZE(1..MAX))`, value `'00'H` (finding F-64k): the length is written as a 63-bit
    field, X.691 11.9.4.2 demands `00000001` -/
theorem conform_write_false_len_64k : ¬ conform_write :=
  conform_write_false_of (.oct (some 1) none false) (.oct [0#8])
    (List.replicate 63 false ++ List.replicate 8 false) (by decide +kernel) (by decide +kernel)
    (by decide +kernel)

/-- `SEQUENCE OF BOOLEAN (SIZE(0..65536))` with one element: 17-bit length instead of `00000001` -/
theorem conform_write_false_len_64k_seqof : ¬ conform_write :=
  conform_write_false_of (.seqOf (some 0) (some 65536) false .bool) (.list (.cons (.bool true) .nil))
    (List.replicate 16 false ++ [true, true]) (by decide +kernel) (by decide +kernel)
    (by decide +kernel)

/-- a MANDATORY extension addition of SEQUENCE OF type is written inline, X.691 19.9 demands an
    open type -/
theorem conform_write_false_mandatory_addition : ¬ conform_write :=
  conform_write_false_of
    (.seq 0 2 (some 0) (.cons .m .bool (.cons .m (.seqOf none none false .bool) .nil)))
    (.seq (.cons (.bool true) (.cons (.list (.cons (.bool true) .nil)) .nil)))
    ([true, true] ++ [false, false, false, false, false, false, false] ++ [true] ++
      [false, false, false, false, false, false, false, true, true])
    (by decide +kernel) (by decide +kernel) (by decide +kernel)

/-- Finding F-frag against the standard, for EVERY count `n ≥ 16K` (`SEQUENCE OF BOOLEAN`): the
    writer accepts and emits ONE length determinant `11 0000mm` followed by all `n` elements; X.691
    11.9.3.8 demands a length determinant per fragment (at least 8 more bits). -/
theorem frag_not_conform (bs : List Bool) (hn : 16384 ≤ bs.length) (hm : bs.length ≤ I64MAXu) :
    ∃ bits, enc (.seqOf none none false .bool) (.list (boolVals bs)) = ok bits ∧
      X691.encode (.seqOf none none false .bool) (.list (boolVals bs)) ≠ some bits :=
  ⟨_, enc_bools bs hm, Uper.frag_not_conform bs hn⟩

/-- … so the full statement fails in this class too: 20000 × TRUE -/
theorem conform_write_false_frag : ¬ conform_write := by
  have hl : (List.replicate 20000 true).length = 20000 := List.length_replicate
  obtain ⟨bits, he, hx⟩ := frag_not_conform (List.replicate 20000 true) (by rw [hl]; decide)
    (by rw [hl, I64MAXu_eq]; decide)
  refine conform_write_false_of _ _ bits ?_ he hx
  have h1 : (Ty.seqOf none none false .bool).consistent = true := rfl
  have h2 : (Ty.seqOf none none false .bool).inProfile = true := rfl
  have h3 : profileOk (.seqOf none none false .bool)
      (.list (boolVals (List.replicate 20000 true))) = true := by
    simp only [profileOk, boolVals_length, hl, Bool.and_eq_true, decide_eq_true_eq]
    exact ⟨by rw [I64MAXu_eq]; decide, allVals_bools _ (fun _ => rfl) _⟩
  have h4 : (X691.encode (.seqOf none none false .bool)
      (.list (boolVals (List.replicate 20000 true)))).isSome = true := by
    rw [x691_bools]; rfl
  simp only [InProfile, h1, h2, h3, h4, Bool.and_self]

end Asn1Verif.Props.C02
