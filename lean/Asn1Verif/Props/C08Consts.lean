import Asn1Verif.Codegen.ConstsLemmas
import Asn1Verif.Codegen.ConstsLemmasInt
import Asn1Verif.Props.C15
/-
  C08, second half — the descriptor constants the attribute macro expands to match the source
  ASN.1 constraints.

  Model: `Codegen/ConstsModel.lean`.  `constsOf : Src → Uper.Ty` computes, from the type the front
  end delivers (`asn::Type`), the descriptor with the constants the generated code contains
  (STD_OPTIONAL_FIELDS, FIELD_COUNT, EXTENDED_AFTER_FIELD, VARIANT_COUNT, STD_VARIANT_COUNT,
  EXTENSIBLE, MIN, MAX, DEFAULT_VALUE, the Rust integer type), mirroring `convert_asn_to_rust`, the
  attribute round trip of the INTEGER range and `AsnDefWriter` *as coded*; `defConstsOf` is the
  descriptor of a definition (`N ::= T`), which is what `uper desc N` of the harness prints for
  every compiled zoo type.  Tie: stream `consts` (tools/consts_stream.py): `defConstsOf` of the
  source of every zoo type, evaluated by Lean, = the descriptor read back from the compiled code.

  1. `consts_consistent`: the constants always agree with the component list (`Ty.consistent`, the
     predicate the L2 theorems C01–C06 assume and the driver checks) — for every source whose marker
     indices name an existing item (`WellFormedSrc`).  The parsers guarantee that except for
     `SEQUENCE { ... }` without any component (`extension_after = Some(0)`, F-ext-first), where the
     generator panics before any constant is written (F-empty-ext); `consts_consistent_full_false`.
  2. `consts_match_*`: each constant in terms of the source.  Deviations of the code are `_partial`
     theorems with the excluded region as hypothesis, the full statement as a `def`, and a
     counterexample:
       - leading marker `SEQUENCE { ..., a T }`: the first addition is a root component;
       - INTEGER with an open end: `(a..MAX)` gets MAX = i64::MAX, `(MIN..b)` gets MIN = 0 (not
         extensible; `u64`/`u8`..) resp. 0 / i64::MIN (extensible, after the macro round trip);
         `(MIN..b)`, `b < 0`, not extensible: MAX = 2^64 + b (C15 F-int-min);
       - `(MIN..0, ...)`: the struct field is `u64`, the descriptor type the macro derives is `i64`.
-/
namespace Asn1Verif.Props.C08Consts
open Asn1Verif Asn1Verif.Consts Asn1Verif.Uper Asn1Verif.Codegen.IntType Asn1Verif.Codegen.ConstsModel
open Asn1Verif.Props.C15 (Valid)

/-! ### 1. the constants agree with the component list -/

/-- every type position: component, element, alternative -/
theorem consts_consistent (s : Src) (h : WellFormedSrc s) : (constsOf s).consistent = true :=
  constsOf_consistent s h

/-- every definition `N ::= s` (what the codec is handed for the generated type `N`) -/
theorem def_consts_consistent (s : Src) (h : WellFormedSrc s) : (defConstsOf s).consistent = true :=
  defConstsOf_consistent s h

/-- FULL statement, without the hypothesis -/
def ConstsConsistentFull : Prop := ∀ s : Src, (constsOf s).consistent = true

/-- `SEQUENCE { ... }`: EXTENDED_AFTER_FIELD = Some(0), FIELD_COUNT = 0 -/
theorem consts_consistent_full_false : ¬ ConstsConsistentFull := by
  intro h
  have := h (Src.sequenceSrc .nil (some .nil))
  revert this; decide

/-- what the parser records for `SEQUENCE { root, ..., adds }` is well-formed unless there is no
    component at all: the excluded region of `consts_consistent`, as far as the front end can reach
    it, is exactly `{ ... }` -/
theorem parsed_marker_ok (root adds : Comps) :
    markerOk (some (root.length - 1)) (root.append adds).length = true ↔ 0 < root.length + adds.length := by
  simp only [markerOk, decide_eq_true_eq, Comps.length_append]
  omega

/-- CHOICE / ENUMERATED: the parsers refuse a marker in front of the first item, so the recorded
    index always names an item -/
theorem parsed_marker_ok_alts (root adds : Nat) (h : 0 < root) :
    markerOk (some (root - 1)) (root + adds) = true := by
  simp only [markerOk, decide_eq_true_eq]
  omega

/-! ### 2a. SEQUENCE / SET -/

/-- the prefix STD_OPTIONAL_FIELDS is about: all components, or those up to and including the one
    the marker follows -/
def rootLen (extensionAfter : Option Nat) (len : Nat) : Nat :=
  match extensionAfter with
  | some k => k + 1
  | none => len

/-- FIELD_COUNT = number of components; EXTENDED_AFTER_FIELD = the recorded marker position;
    STD_OPTIONAL_FIELDS = number of components declared OPTIONAL or DEFAULT before or at the
    marker; every component keeps its position and the descriptor of its type.  No hypothesis. -/
theorem consts_match_seq (cs : Comps) (ea : Option Nat) :
    ∃ fs : Fields,
      constsOf (.sequence cs ea) = .seq (cs.optCount (rootLen ea cs.length)) cs.length ea fs ∧
      fs.length = cs.length ∧
      ∀ j, fs.get? j = (cs.get? j).map fun pt => (convKind ea j pt.1, constsOf pt.2) := by
  refine ⟨fieldsOf ea 0 cs, ?_, fieldsOf_length ea cs 0, ?_⟩
  · cases ea <;> simp only [constsOf, fieldsOf_length, stdOpt_declared, rootLen]
  · intro j
    rw [fieldsOf_get? ea cs 0 j, Nat.zero_add]

/-- a SET has the constants of the SEQUENCE with the same (sorted) component list -/
theorem consts_match_set (cs : Comps) (ea : Option Nat) :
    constsOf (.set cs ea) = constsOf (.sequence cs ea) := by
  simp only [constsOf]

/-- no marker: every component has the declared kind -/
theorem kinds_without_marker (j : Nat) (p : Presence) : convKind none j p = p.toKind :=
  convKind_none j p

/-- root components (position at or before the marker) have the declared kind -/
theorem kinds_root (k j : Nat) (p : Presence) (h : j ≤ k) : convKind (some k) j p = p.toKind :=
  convKind_root k j p h

/-- additions (position behind the marker) are never mandatory after conversion … -/
theorem kinds_additions (k j : Nat) (p : Presence) (h : k < j) :
    (convKind (some k) j p).isOptional = true :=
  convKind_addition k j p h

/-- … and keep the declared kind if they were declared OPTIONAL / DEFAULT -/
theorem kinds_additions_declared (k j : Nat) (p : Presence) (hp : p.isOptional = true) :
    convKind (some k) j p = p.toKind :=
  convKind_addition_declared k j p hp

/-- what the source `SEQUENCE { root, ..., adds }` demands of the constants -/
def SeqSourceMatch (root adds : Comps) : Prop :=
  ∃ fs : Fields,
    constsOf (Src.sequenceSrc root (some adds)) =
      .seq (root.optCount root.length) (root.length + adds.length) (some (root.length - 1)) fs ∧
    (∀ j, j < root.length → fs.get? j = (root.get? j).map fun pt => (pt.1.toKind, constsOf pt.2)) ∧
    (∀ j, ∃ k, fs.get? (root.length + j) = (adds.get? j).map (fun pt => (k, constsOf pt.2)) ∧
      k.isOptional = true)

/-- FULL statement -/
def SeqSourceMatchFull : Prop := ∀ root adds : Comps, SeqSourceMatch root adds

/-- holds whenever the marker follows at least one component -/
theorem consts_match_seq_source_partial (root adds : Comps) (h : 0 < root.length) :
    SeqSourceMatch root adds := by
  obtain ⟨fs, h1, _, h3⟩ := consts_match_seq (root.append adds) (some (root.length - 1))
  refine ⟨fs, ?_, ?_, ?_⟩
  · simp only [Src.sequenceSrc]
    rw [h1]
    have : rootLen (some (root.length - 1)) (root.append adds).length = root.length := by
      simp only [rootLen]; omega
    rw [this, Comps.optCount_append_left root adds root.length (Nat.le_refl _), Comps.length_append]
  · intro j hj
    rw [h3 j, Comps.get?_append_left root adds j hj]
    cases root.get? j with
    | none => rfl
    | some pt =>
      simp only [Option.map]
      rw [convKind_root (root.length - 1) j pt.1 (by omega)]
  · intro j
    rw [h3 (root.length + j), Comps.get?_append_right root adds j]
    cases adds.get? j with
    | none => exact ⟨.o, rfl, rfl⟩
    | some pt =>
      exact ⟨convKind (some (root.length - 1)) (root.length + j) pt.1, rfl,
        convKind_addition _ _ _ (by omega)⟩

/-- `SEQUENCE { ..., a BOOLEAN }` (F-ext-first): recorded as `extension_after = Some(0)`, so the
    addition `a` stays mandatory and is announced as the root component the marker follows -/
theorem consts_match_seq_source_full_false : ¬ SeqSourceMatchFull := by
  intro h
  obtain ⟨fs, h1, _, h3⟩ := h .nil (.cons .mandatory .boolean .nil)
  obtain ⟨k, hk, hopt⟩ := h3 0
  have h1' : Ty.seq 0 1 (some 0) (.cons .m .bool .nil) = .seq 0 1 (some 0) fs := h1
  injection h1' with _ _ _ hfs
  subst hfs
  simp only [Comps.length, Nat.add_zero, Fields.get?, Comps.get?, Option.map, Option.some.injEq,
    Prod.mk.injEq] at hk
  rw [← hk.1] at hopt
  exact absurd hopt (by decide)

/-- no marker at all: full -/
theorem consts_match_seq_source_nomarker (root : Comps) :
    ∃ fs : Fields,
      constsOf (Src.sequenceSrc root none) = .seq (root.optCount root.length) root.length none fs ∧
      ∀ j, fs.get? j = (root.get? j).map fun pt => (pt.1.toKind, constsOf pt.2) := by
  obtain ⟨fs, h1, _, h3⟩ := consts_match_seq root none
  refine ⟨fs, h1, ?_⟩
  intro j
  rw [h3 j]
  cases root.get? j with
  | none => rfl
  | some pt => simp only [Option.map, convKind_none]

/-! ### 2b. CHOICE / ENUMERATED -/

/-- VARIANT_COUNT = number of alternatives, STD_VARIANT_COUNT = recorded index + 1 (all of them
    without marker), EXTENSIBLE = marker present; every alternative keeps its position -/
theorem consts_match_choice (alts : Alts) (ea : Option Nat) :
    constsOf (.choice alts ea) = .choice (stdVariants ea alts.length) alts.length ea.isSome (altsOf alts) := by
  simp only [constsOf, altsOf_length]

theorem consts_match_enum (n : Nat) (ea : Option Nat) :
    constsOf (.enumerated n ea) = .enum (stdVariants ea n) n ea.isSome := by
  simp only [constsOf]

/-- `CHOICE { root, ..., adds }`: STD_VARIANT_COUNT = root alternatives, VARIANT_COUNT = all.
    (`root = []` with a marker is refused by the parser.) -/
theorem consts_match_choice_source (root adds : Alts) (h : 0 < root.length) :
    constsOf (Src.choiceSrc root (some adds)) =
      .choice root.length (root.length + adds.length) true (altsOf (root.append adds)) := by
  simp only [Src.choiceSrc, consts_match_choice, stdVariants, Alts.length_append, Option.isSome]
  have : root.length - 1 + 1 = root.length := by omega
  rw [this]

theorem consts_match_choice_source_nomarker (root : Alts) :
    constsOf (Src.choiceSrc root none) = .choice root.length root.length false (altsOf root) := by
  simp only [Src.choiceSrc, consts_match_choice, stdVariants, Option.isSome]

/-- `ENUMERATED { root items, ..., adds items }` -/
theorem consts_match_enum_source (root adds : Nat) (h : 0 < root) :
    constsOf (Src.enumSrc root (some adds)) = .enum root (root + adds) true := by
  simp only [Src.enumSrc, consts_match_enum, stdVariants, Option.isSome]
  have : root - 1 + 1 = root := by omega
  rw [this]

theorem consts_match_enum_source_nomarker (root : Nat) :
    constsOf (Src.enumSrc root none) = .enum root root false := by
  simp only [Src.enumSrc, consts_match_enum, stdVariants, Option.isSome]

/-! ### 2c. SIZE -/

/-- MIN / MAX / EXTENSIBLE of strings, octet strings, bit strings, SEQUENCE OF, SET OF are the
    declared size: `Any ↦ (None, None, false)`, `Fix(n, e) ↦ (Some n, Some n, e)`,
    `Range(a, b, e) ↦ (Some a, Some b, e)` -/
theorem consts_match_size (cs : Charset) (sz : Size) (e : Src) :
    constsOf (.string cs sz) = .str cs sz.min sz.max sz.extensible ∧
    constsOf (.octetString sz) = .oct sz.min sz.max sz.extensible ∧
    constsOf (.bitString sz) = .bits sz.min sz.max sz.extensible ∧
    constsOf (.sequenceOf sz e) = .seqOf sz.min sz.max sz.extensible (constsOf e) ∧
    constsOf (.setOf sz e) = .seqOf sz.min sz.max sz.extensible (constsOf e) := by
  simp only [constsOf, and_self]

theorem size_declared (n a b : Nat) (e : Bool) :
    (Size.any.min, Size.any.max, Size.any.extensible) = (none, none, false) ∧
    ((Size.fix n e).min, (Size.fix n e).max, (Size.fix n e).extensible) = (some n, some n, e) ∧
    ((Size.range a b e).min, (Size.range a b e).max, (Size.range a b e).extensible) = (some a, some b, e) :=
  ⟨rfl, rfl, rfl⟩

/-! ### 2d. INTEGER -/

theorem valid_in (lo hi : Option Int) (hv : Valid lo hi) : OptInI64 lo ∧ OptInI64 hi := by
  cases lo with
  | none =>
    cases hi with
    | none => exact ⟨trivial, trivial⟩
    | some b => exact ⟨trivial, hv⟩
  | some a =>
    cases hi with
    | none => exact ⟨hv, trivial⟩
    | some b => exact ⟨hv.1, hv.2.1⟩

/-- the descriptor of an INTEGER: constants and Rust type of the macro's second run -/
theorem consts_match_int_descriptor (lo hi : Option Int) (ext : Bool) :
    constsOf (.integer lo hi ext) =
      .int (intTy lo hi ext).constMin (intTy lo hi ext).constMax (intTy lo hi ext).ext
        (intTy lo hi ext).kind.bits (codecSigned (intTy lo hi ext).kind) := rfl

/-- EXTENSIBLE is the declared one, always -/
theorem consts_match_int_extensible (lo hi : Option Int) (ext : Bool) : (intTy lo hi ext).ext = ext := by
  unfold intTy reconvert
  rw [choose_eq_cascade]
  have h1 : ∀ t : IntTy, t.intoAsn.2.2 = t.ext := by intro t; cases t <;> rfl
  have h2 : ∀ a b e, (cascade a b e).ext = e := by
    intro a b e
    cases e
    · simp only [cascade, Bool.false_eq_true, if_false]; exact fixedCascade_ext a b
    · simp only [cascade, if_true]; exact extCascade_ext a b
  rw [h2, h1, h2]

/-- not extensible: the attribute round trip changes nothing — the walker works on exactly the type
    the converter chose (C15's theorems about `choose` apply verbatim) -/
theorem int_second_run_fixed (lo hi : Option Int) (hv : Valid lo hi) :
    intTy lo hi false = choose lo hi false := by
  unfold intTy
  rw [choose_eq_cascade]
  exact reconvert_fixed lo hi (valid_in lo hi hv).1 (valid_in lo hi hv).2

/-- extensible: the second run closes an open end of the printed range -/
theorem int_second_run_ext (lo hi : Option Int) (hv : Valid lo hi) :
    intTy lo hi true =
      match lo, hi with
      | none, some b =>
        if b = I64_MAX then .u64 none none true
        else if 0 < b then .u64 (some 0) (some b) true
        else .i64 I64_MIN b true
      | some a, none =>
        if a = 0 then .u64 none none true
        else if 0 < a then .u64 (some a) (some I64_MAX) true
        else .i64 a I64_MAX true
      | lo, hi => choose lo hi true := by
  unfold intTy
  rw [choose_eq_cascade, reconvert_ext lo hi (valid_in lo hi hv).1 (valid_in lo hi hv).2]
  cases lo <;> cases hi <;> simp only [choose_eq_cascade]

/-- `(MIN..b, ...)` -/
theorem int_ext_min_open (b : Int) (hb : InI64 b) :
    intTy none (some b) true =
      if b = I64_MAX then .u64 none none true
      else if 0 < b then .u64 (some 0) (some b) true
      else .i64 I64_MIN b true :=
  int_second_run_ext none (some b) hb

/-- `(a..MAX, ...)` -/
theorem int_ext_max_open (a : Int) (ha : InI64 a) :
    intTy (some a) none true =
      if a = 0 then .u64 none none true
      else if 0 < a then .u64 (some a) (some I64_MAX) true
      else .i64 a I64_MAX true :=
  int_second_run_ext (some a) none ha

/-- `(a..b, ...)` and `(MIN..MAX, ...)`: the round trip changes nothing -/
theorem int_ext_closed (a b : Int) (hv : Valid (some a) (some b)) :
    intTy (some a) (some b) true = choose (some a) (some b) true :=
  int_second_run_ext (some a) (some b) hv

theorem int_ext_unconstrained : intTy none none true = choose none none true :=
  int_second_run_ext none none trivial

/-- FULL statement for MIN / MAX: a declared bound has its constant, except where the front end
    deliberately widens `(0..MAX)`, `(0..i64::MAX)`, `(MIN..i64::MAX)` to "no constraint"
    (the statement of C15 `ConstantsDeclared`, now for the constants of the macro expansion) -/
def IntConstsDeclared : Prop :=
  ∀ (lo hi : Option Int) (ext : Bool), Valid lo hi →
    (∀ a, lo = some a → (intTy lo hi ext).constMin = some a ∨
        (a = 0 ∧ (hi = none ∨ hi = some I64_MAX) ∧ (intTy lo hi ext).constMin = none)) ∧
    (∀ b, hi = some b → (intTy lo hi ext).constMax = some b ∨
        (b = I64_MAX ∧ (lo = none ∨ lo = some 0) ∧ (intTy lo hi ext).constMax = none))

/-- excluded (as in C15): `(MIN..b)` with `b < 0`, not extensible -/
theorem consts_match_int_partial (lo hi : Option Int) (ext : Bool) (hv : Valid lo hi)
    (hex : ¬ (lo = none ∧ ext = false ∧ ∃ b, hi = some b ∧ b < 0)) :
    (∀ a, lo = some a → (intTy lo hi ext).constMin = some a ∨
        (a = 0 ∧ (hi = none ∨ hi = some I64_MAX) ∧ (intTy lo hi ext).constMin = none)) ∧
    (∀ b, hi = some b → (intTy lo hi ext).constMax = some b ∨
        (b = I64_MAX ∧ (lo = none ∨ lo = some 0) ∧ (intTy lo hi ext).constMax = none)) := by
  cases ext with
  | false =>
    rw [int_second_run_fixed lo hi hv]
    exact C15.constants_partial lo hi false hv hex
  | true =>
    have hc := consts_facts
    have h1 := C15.constants_partial lo hi true hv hex
    cases lo with
    | none =>
      cases hi with
      | none => rw [int_ext_unconstrained]; exact h1
      | some b =>
        refine ⟨fun a ha => (by cases ha), ?_⟩
        intro b' hb'
        cases hb'
        rw [int_ext_min_open b hv]
        by_cases hb : b = I64_MAX
        · rw [if_pos hb]; exact Or.inr ⟨hb, Or.inl rfl, rfl⟩
        · rw [if_neg hb]
          by_cases hp : 0 < b
          · rw [if_pos hp]; exact Or.inl rfl
          · rw [if_neg hp]; exact Or.inl rfl
    | some a =>
      cases hi with
      | none =>
        refine ⟨?_, fun b hb => (by cases hb)⟩
        intro a' ha'
        cases ha'
        rw [int_ext_max_open a hv]
        by_cases ha : a = 0
        · rw [if_pos ha]; exact Or.inr ⟨ha, Or.inl rfl, rfl⟩
        · rw [if_neg ha]
          by_cases hp : 0 < a
          · rw [if_pos hp]; exact Or.inl rfl
          · rw [if_neg hp]; exact Or.inl rfl
      | some b => rw [int_ext_closed a b hv]; exact h1

/-- `INTEGER (MIN..-5)`: MAX = 18446744073709551611 (written into a `const MAX: Option<i64>`) -/
theorem consts_match_int_full_false : ¬ IntConstsDeclared := by
  intro h
  have := (h none (some (-5)) false (by decide)).2 (-5) rfl
  revert this; decide

/-- FULL statement for the open ends: where the source declares no bound (and the front end did not
    widen the other one away) there is no constant -/
def IntOpenEndsOpen : Prop :=
  ∀ (lo hi : Option Int) (ext : Bool), Valid lo hi →
    (lo = none → (intTy lo hi ext).constMin = none) ∧ (hi = none → (intTy lo hi ext).constMax = none)

/-- `INTEGER (5..MAX)`: MAX = Some(i64::MAX) (C02 F-semi); `INTEGER (MIN..5)`: MIN = Some(0) -/
theorem int_open_ends_false : ¬ IntOpenEndsOpen := by
  intro h
  have := (h (some 5) none false (by decide)).2 rfl
  revert this; decide

/-- what the constants are at an open end, exactly.  Upper end `(a..MAX)`, `a ≠ 0`: i64::MAX. -/
theorem int_open_max (a : Int) (ext : Bool) (ha : InI64 a) (h0 : a ≠ 0) :
    (intTy (some a) none ext).constMax = some I64_MAX := by
  have hc := consts_facts
  have hv : Valid (some a) none := ha
  cases ext with
  | true =>
    rw [int_ext_max_open a ha, if_neg h0]
    by_cases hp : 0 < a
    · rw [if_pos hp]; rfl
    · rw [if_neg hp]; rfl
  | false =>
    rw [int_second_run_fixed _ _ hv, choose_eq_cascade]
    simp only [InI64] at ha
    unfold_cascade
    simp only [h0, if_false]
    (repeat' split) <;> simp only [IntTy.constMax, IntTy.stored, Option.some.injEq] <;>
      unfold_casts <;> omega

/-- lower end `(MIN..b)`, `b ≠ i64::MAX`, not extensible: 0 (the type is unsigned, C15 F-int-min) -/
theorem int_open_min_fixed (b : Int) (hb : InI64 b) (h0 : b ≠ I64_MAX) :
    (intTy none (some b) false).constMin = some 0 := by
  have hc := consts_facts
  have hv : Valid none (some b) := hb
  rw [int_second_run_fixed _ _ hv, choose_eq_cascade]
  simp only [InI64] at hb
  unfold_cascade
  simp only [h0, if_false]
  (repeat' split) <;> simp only [IntTy.constMin, IntTy.stored, Option.some.injEq] <;>
    unfold_casts <;> omega

/-- lower end `(MIN..b, ...)`: 0 for positive `b`, else i64::MIN -/
theorem int_open_min_ext (b : Int) (hb : InI64 b) (h0 : b ≠ I64_MAX) :
    (intTy none (some b) true).constMin = some (if 0 < b then 0 else I64_MIN) := by
  rw [int_ext_min_open b hb, if_neg h0]
  by_cases hp : 0 < b
  · rw [if_pos hp, if_pos hp]; rfl
  · rw [if_neg hp, if_neg hp]; rfl

/-- FULL statement: the descriptor's integer type is the type of the struct field (first run) -/
def IntTypeStable : Prop :=
  ∀ (lo hi : Option Int) (ext : Bool), Valid lo hi → (intTy lo hi ext).kind = (choose lo hi ext).kind

/-- excluded: `(MIN..0, ...)` -/
theorem int_type_stable_partial (lo hi : Option Int) (ext : Bool) (hv : Valid lo hi)
    (hex : ¬ (lo = none ∧ hi = some 0 ∧ ext = true)) :
    (intTy lo hi ext).kind = (choose lo hi ext).kind := by
  cases ext with
  | false => rw [int_second_run_fixed lo hi hv]
  | true =>
    have hc := consts_facts
    cases lo with
    | none =>
      cases hi with
      | none => rw [int_ext_unconstrained]
      | some b =>
        have hb : InI64 b := hv
        have hb0 : b ≠ 0 := by intro h; exact hex ⟨rfl, by rw [h], rfl⟩
        rw [int_ext_min_open b hb, choose_eq_cascade]
        simp only [InI64] at hb
        by_cases h1 : b = I64_MAX
        · rw [if_pos h1, ext_first_min b h1]
        · rw [if_neg h1]
          by_cases hp : 0 < b
          · rw [if_pos hp, ext_min_unsigned b h1 (by omega)]; rfl
          · rw [if_neg hp, ext_min_signed b (by omega)]
    | some a =>
      cases hi with
      | none =>
        have ha : InI64 a := hv
        rw [int_ext_max_open a ha, choose_eq_cascade]
        simp only [InI64] at ha
        by_cases h1 : a = 0
        · rw [if_pos h1, ext_first_max a h1]
        · rw [if_neg h1]
          by_cases hp : 0 < a
          · rw [if_pos hp, ext_max_unsigned a h1 (by omega)]; rfl
          · rw [if_neg hp, ext_max_signed a (by omega)]
      | some b => rw [int_ext_closed a b hv]

/-- `INTEGER (MIN..0, ...)`: the converter declares the field `u64`, the macro describes it as
    `Integer<i64, ..>` with MIN = i64::MIN -/
theorem int_type_stable_false : ¬ IntTypeStable := by
  intro h
  have := h none (some 0) true (by decide)
  revert this; decide

/-! ### non-vacuity, worked examples, descriptors of compiled zoo types (as printed by the harness) -/

-- hypotheses of `consts_consistent`, `consts_match_seq_source_partial`, `consts_match_choice_source`,
-- `consts_match_enum_source`, `consts_match_int_partial`, `int_open_*`, `int_type_stable_partial`
example : WellFormedSrc (.sequence (.cons .optional (.ref (.enumerated 4 (some 1)))
    (.cons .mandatory (.choice (.cons .null (.cons (.sequenceOf .any .boolean) .nil)) (some 0)) .nil)) (some 0)) := by
  decide
example : 0 < (Comps.cons .optional .boolean .nil).length := by decide
example : 0 < (Alts.cons .boolean .nil).length := by decide
example : Valid (some 5) none ∧ ¬ ((some 5 : Option Int) = none ∧ true = false ∧ ∃ b, (none : Option Int) = some b ∧ b < 0) := by
  refine ⟨by decide, ?_⟩
  intro h; cases h.1
example : InI64 5 ∧ (5 : Int) ≠ 0 ∧ (5 : Int) ≠ I64_MAX := by decide
example : Valid none (some 5) ∧ ¬ ((none : Option Int) = none ∧ (some 5 : Option Int) = some 0 ∧ true = true) := by
  refine ⟨by decide, ?_⟩
  intro h; exact absurd h.2.1 (by decide)

-- `kinds_root`, `kinds_additions`, `kinds_additions_declared`, `parsed_marker_ok_alts`,
-- `consts_match_enum_source`, `int_second_run_*`, `int_ext_*`
example : (1 : Nat) ≤ 1 ∧ (1 : Nat) < 2 ∧ (Presence.default (.int 3)).isOptional = true ∧ (0 : Nat) < 2 := by decide
example : Valid (some (-5)) (some 5) ∧ Valid none (some 7) ∧ InI64 7 ∧ InI64 (-5) := by decide
-- outside the hypothesis of `consts_match_choice_source` / `consts_match_enum_source` (a marker in
-- front of the first item: refused by the parsers, so never handed to the generator) the recorded
-- index would be `0 - 1 = 0` and announce one root item
example : constsOf (Src.enumSrc 0 (some 2)) = .enum 1 2 true := by rfl

-- the deviations, evaluated
example : intTy (some 5) none false = .u64 (some 5) (some 9223372036854775807) false := by decide
example : intTy (some 5) none true = .u64 (some 5) (some 9223372036854775807) true := by decide
example : choose (some 5) none true = .u64 (some 5) none true := by decide
example : intTy none (some 5) true = .u64 (some 0) (some 5) true := by decide
example : choose none (some 5) true = .u64 none (some 5) true := by decide
example : intTy none (some 0) true = .i64 (-9223372036854775808) 0 true := by decide
example : choose none (some 0) true = .u64 none (some 0) true := by decide
example : intTy none (some 5) false = .u8 0 5 false := by decide
example : intTy none (some (-5)) false = .u64 (some 0) (some 18446744073709551611) false := by decide

-- zoo_leaf::IntSemi ::= INTEGER (5..MAX)
example : defConstsOf (.integer (some 5) none false)
    = .seq 0 1 none (.cons .m (.int (some 5) (some 9223372036854775807) false 64 true) .nil) := by rfl
-- zoo_leaf::IntHalf ::= INTEGER (0..9223372036854775807)
example : defConstsOf (.integer (some 0) (some 9223372036854775807) false)
    = .seq 0 1 none (.cons .m (.int none none false 64 true) .nil) := by rfl
-- zoo_leaf::ColorX ::= ENUMERATED { red, green, ..., blue, yellow }
example : defConstsOf (Src.enumSrc 2 (some 2)) = .enum 2 4 true := by rfl
-- zoo_leaf::OctLb ::= OCTET STRING (SIZE(1..MAX))   (the parser reads MAX as i64::MAX)
example : defConstsOf (.octetString (.range 1 9223372036854775807 false))
    = .seq 0 1 none (.cons .m (.oct (some 1) (some 9223372036854775807) false) .nil) := by rfl
-- zoo_leaf::ListList ::= SEQUENCE OF SEQUENCE (SIZE(0..3)) OF INTEGER (0..3)
example : defConstsOf (.sequenceOf .any (.sequenceOf (.range 0 3 false) (.integer (some 0) (some 3) false)))
    = .seq 0 1 none (.cons .m (.seqOf none none false
        (.seqOf (some 0) (some 3) false (.int (some 0) (some 3) false 8 false))) .nil) := by rfl
-- zoo_shape::S5 ::= SEQUENCE { f0 INTEGER (0..7) DEFAULT 3 }
example : defConstsOf (Src.sequenceSrc (.cons (.default (.int 3)) (.integer (some 0) (some 7) false) .nil) none)
    = .seq 1 1 none (.cons (.d (.int 3)) (.int (some 0) (some 7) false 8 false) .nil) := by rfl
-- zoo_set::SetX ::= SET { b [1] BOOLEAN, a [0] INTEGER (0..3), ..., d [3] BOOLEAN OPTIONAL, c [2] INTEGER (0..3) OPTIONAL }
-- after `sort_fields_canonically` (root components by tag, extension additions as written): a, b, d, c
example : defConstsOf (.set (.cons .mandatory (.integer (some 0) (some 3) false) (.cons .mandatory .boolean
      (.cons .optional .boolean (.cons .optional (.integer (some 0) (some 3) false) .nil)))) (some 1))
    = .seq 0 4 (some 1) (.cons .m (.int (some 0) (some 3) false 8 false) (.cons .m .bool
      (.cons .o .bool (.cons .o (.int (some 0) (some 3) false 8 false) .nil)))) := by rfl
-- zoo_nested::DefX ::= SEQUENCE { a BOOLEAN, ..., b INTEGER (0..7) DEFAULT 3, c BOOLEAN DEFAULT TRUE }
example : defConstsOf (Src.sequenceSrc (.cons .mandatory .boolean .nil)
      (some (.cons (.default (.int 3)) (.integer (some 0) (some 7) false) (.cons (.default (.bool true)) .boolean .nil))))
    = .seq 0 3 (some 0) (.cons .m .bool (.cons (.d (.int 3)) (.int (some 0) (some 7) false 8 false)
      (.cons (.d (.bool true)) .bool .nil))) := by rfl
-- zoo_nested::PickX ::= CHOICE { num INTEGER (0..100), flag BOOLEAN, ..., txt IA5String (SIZE(0..5)), inner Inner }
example : defConstsOf (Src.choiceSrc (.cons (.integer (some 0) (some 100) false) (.cons .boolean .nil))
      (some (.cons (.string .ia5 (.range 0 5 false))
        (.cons (.ref (.sequence (.cons .mandatory (.integer (some 0) (some 15) false) (.cons .optional .boolean .nil)) none)) .nil))))
    = .choice 2 4 true (.cons .m (.int (some 0) (some 100) false 8 false) (.cons .m .bool
      (.cons .m (.str .ia5 (some 0) (some 5) false)
        (.cons .m (.seq 1 2 none (.cons .m (.int (some 0) (some 15) false 8 false) (.cons .o .bool .nil))) .nil)))) := by rfl
-- zoo_leaf::ListColor ::= SEQUENCE OF ColorX   (reference to a structured definition: no wrapper)
example : defConstsOf (.sequenceOf .any (.ref (Src.enumSrc 2 (some 2))))
    = .seq 0 1 none (.cons .m (.seqOf none none false (.enum 2 4 true)) .nil) := by rfl
-- a mandatory extension addition is wrapped in `Option`: SEQUENCE { a BOOLEAN, ..., b BOOLEAN }
example : constsOf (Src.sequenceSrc (.cons .mandatory .boolean .nil) (some (.cons .mandatory .boolean .nil)))
    = .seq 0 2 (some 0) (.cons .m .bool (.cons .o .bool .nil)) := by rfl
-- the leading marker: SEQUENCE { ..., a BOOLEAN }
example : constsOf (Src.sequenceSrc .nil (some (.cons .mandatory .boolean .nil)))
    = .seq 0 1 (some 0) (.cons .m .bool .nil) := by rfl

end Asn1Verif.Props.C08Consts
