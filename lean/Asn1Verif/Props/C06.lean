import Asn1Verif.Uper.RejLemmas
import Asn1Verif.Uper.RejTotalLemmas
/-
  C06 — The encoder rejects constraint-violating values; it never emits a wrong encoding.

  Property theorems only.  Model: `enc` of `Uper/Impl.lean` (mirror of `UperWriter` in
  `src/rw/uper.rs` over the L1 primitives of `Per/Prim.lean`).  Lemmas: `Uper/RejLemmas.lean`,
  `Uper/RejTotalLemmas.lean` (and `Uper/SeqLemmas.lean` for SEQUENCE).

  All statements are for ALL bounds, ALL values, ALL field lists / element lists; no `u64`/`i64`
  range hypothesis was needed for any of them.

  The two halves of the property:
    * "a value outside a non-extensible constraint makes UPER encoding fail with an error" — the
      theorems below, by kind of constraint (`int_rejects`, `size_rejects_*`, `alphabet_rejects`,
      `index_rejects_*`), their propagation through SEQUENCE / SEQUENCE OF / CHOICE
      (`violation_propagates_*`, `never_ok_if_component_err`) and the closure over the whole value
      tree: `violation_anywhere_is_an_error` (an `err`, neither an encoding nor a panic —
      `enc_never_panics`);
    * "it never succeeds with bits that decode to a different value" is the round trip
      `enc t v = ok bits → dec t bits 0 = ok (v, bits.length)`, i.e. `Props.C01.roundtrip` (property
      C01, proved there); together with the theorems here: an encoding exists only for values
      inside the constraints, and then it decodes to the same value.
    * "for extensible constraints an out-of-root value is encoded in the extension form":
      `int_ext_out_of_root`, `size_ext_out_of_root_*`, `index_ext_*` give the form (first bit `1`,
      then the unconstrained / normally-small form); that it "still round-trips" is again C01.

  "Outside the constraint" is taken as the code takes it: a missing lower bound of an INTEGER counts
  as 0 when an upper bound is given (`const_unwrap_or!(C::MIN, 0)`), so `int_rejects` also covers
  negative values of `INTEGER (MIN..10)` — those are wrongly *refused* (a finding of C15/C01, not of
  this property: refusing is the safe side here).  `OutsideInt`/`int_rejects_semantic` is the
  statement for the ASN.1 reading of the constraint.
-/
namespace Asn1Verif.Props.C06
open Asn1Verif Asn1Verif.Uper Asn1Verif.Per Outcome

/-! ### INTEGER range -/

/-- Not extensible, at least one bound given: a value below the (effective) lower bound or above
    the (effective) upper bound is refused with `ValueNotInRange`. -/
theorem int_rejects (min max : Option Int) (w : Nat) (s : Bool) (v : Int)
    (hb : min.isSome = true ∨ max.isSome = true)
    (hv : v < min.getD 0 ∨ v > max.getD I64_MAX) :
    enc (.int min max false w s) (.int v) = err .valueNotInRange :=
  enc_int_rejects hb hv

/-- `v` violates the ASN.1 constraint `(min..max)` (`none` = `MIN`/`MAX`) -/
def OutsideInt (min max : Option Int) (v : Int) : Prop :=
  (∃ m, min = some m ∧ v < m) ∨ (∃ m, max = some m ∧ v > m)

theorem int_rejects_semantic (min max : Option Int) (w : Nat) (s : Bool) (v : Int)
    (h : OutsideInt min max v) :
    enc (.int min max false w s) (.int v) = err .valueNotInRange := by
  rcases h with ⟨m, rfl, hv⟩ | ⟨m, rfl, hv⟩
  · exact enc_int_rejects (Or.inl rfl) (Or.inl hv)
  · exact enc_int_rejects (Or.inr rfl) (Or.inr hv)

/-- single-value range `INTEGER (c)` / `(c..c)`: every other value is refused (the encoding of the
    permitted value is empty, so accepting anything else could never round-trip) -/
theorem int_single_value_rejects (c : Int) (w : Nat) (s : Bool) (v : Int) (h : v ≠ c) :
    enc (.int (some c) (some c) false w s) (.int v) = err .valueNotInRange :=
  enc_int_rejects (Or.inl rfl) (by simp only [Option.getD_some]; omega)

/-! ### SIZE -/

/-- UTF8String: the number of characters is checked -/
theorem size_rejects_utf8 (min max : Option Nat) (bytes : List Byte) (chars : List Nat)
    (hd : utf8Decode bytes = some chars)
    (h : chars.length < min.getD 0 ∨ chars.length > max.getD U64_MAX) :
    enc (.str .utf8 min max false) (.str bytes) = err .sizeNotInRange :=
  enc_utf8_size_rejects hd h

/-- IA5String / NumericString / PrintableString / VisibleString (characters inside the alphabet) -/
theorem size_rejects_str (cs : Charset) (min max : Option Nat) (bytes : List Byte)
    (chars : List Nat) (hcs : cs ≠ .utf8) (hd : utf8Decode bytes = some chars)
    (hval : chars.all cs.isValid = true)
    (h : chars.length < min.getD 0 ∨ chars.length > max.getD U64_MAX) :
    enc (.str cs min max false) (.str bytes) = err .sizeNotInRange :=
  enc_str_size_rejects hcs hd hval h

theorem size_rejects_oct (min max : Option Nat) (bytes : List Byte)
    (h : bytes.length < min.getD 0 ∨ bytes.length > max.getD I64MAXu) :
    enc (.oct min max false) (.oct bytes) = err .sizeNotInRange :=
  enc_oct_size_rejects h

theorem size_rejects_bits (min max : Option Nat) (bs : List Bool)
    (h : bs.length < min.getD 0 ∨ bs.length > max.getD I64MAXu) :
    enc (.bits min max false) (.bits bs) = err .sizeNotInRange :=
  enc_bits_size_rejects h

/-- SEQUENCE OF / SET OF — whatever the elements are (the size is checked first) -/
theorem size_rejects_seqOf (min max : Option Nat) (elem : Ty) (vs : Vals)
    (h : vs.length < min.getD 0 ∨ vs.length > max.getD I64MAXu) :
    enc (.seqOf min max false elem) (.list vs) = err .sizeNotInRange :=
  enc_seqOf_size_rejects h

/-! ### permitted alphabet -/

/-- a restricted string with a character outside its alphabet — at any position, whatever the
    size constraint, extensible or not — is refused with `InvalidString` -/
theorem alphabet_rejects (cs : Charset) (min max : Option Nat) (ext : Bool) (bytes : List Byte)
    (chars : List Nat) (hcs : cs ≠ .utf8) (hd : utf8Decode bytes = some chars)
    (hbad : chars.any (fun c => !cs.isValid c) = true) :
    enc (.str cs min max ext) (.str bytes) = err .invalidString :=
  enc_str_alphabet_rejects hcs hd hbad

/-! ### ENUMERATED / CHOICE index -/

theorem index_rejects_enum (std total i : Nat) (h : i ≥ std) :
    enc (.enum std total false) (.enum i) = err .invalidChoiceIndex :=
  enc_enum_rejects h

/-- (the index is written before the alternative is looked at: also for an alternative the
    descriptor does not know) -/
theorem index_rejects_choice (std total i : Nat) (alts : Fields) (x : Val) (h : i ≥ std) :
    enc (.choice std total false alts) (.choice i x) = err .invalidChoiceIndex :=
  enc_choice_rejects h

/-! ### a violation inside comes through -/

/-- SEQUENCE / SET: the first failing root component — all components before it fit their kind and
    encode (`PrefixFine`) — makes the SEQUENCE fail with the same error -/
theorem violation_propagates_seq (so fc : Nat) (ea : Option Nat) (fields : Fields) (vs : Vals)
    (i : Nat) (k : Kind) (t : Ty) (v : Val) (e : ErrKind)
    (hi : i < rootCountOf ea fields) (hf : fields.get? i = some (k, t)) (hv : vs.get? i = some v)
    (hp : presentOf k v = some true) (he : enc t (contentOf k v) = err e)
    (hall : PrefixFine fields vs (rootCountOf ea fields) i) :
    enc (.seq so fc ea fields) (.seq vs) = err e :=
  enc_seq_component_err hi hf hv hp he hall

/-- SEQUENCE OF / SET OF: size acceptable, the first failing element -/
theorem violation_propagates_seqOf (min max : Option Nat) (ext : Bool) (elem : Ty) (vs : Vals)
    (i : Nat) (v : Val) (e : ErrKind)
    (hsize : ext = true ∨ (min.getD 0 ≤ vs.length ∧ vs.length ≤ max.getD I64MAXu))
    (hv : vs.get? i = some v) (he : enc elem v = err e)
    (hall : ∀ j, j < i → ∃ vj b, vs.get? j = some vj ∧ enc elem vj = ok b) :
    enc (.seqOf min max ext elem) (.list vs) = err e :=
  enc_seqOf_elem_err hsize hv he hall

/-- CHOICE: a permitted alternative (root, or any when extensible) whose value is refused -/
theorem violation_propagates_choice (std total : Nat) (ext : Bool) (alts : Fields) (i : Nat)
    (x : Val) (k : Kind) (t : Ty) (e : ErrKind) (hidx : i < std ∨ ext = true)
    (ha : alts.get? i = some (k, t)) (he : enc t x = err e) :
    enc (.choice std total ext alts) (.choice i x) = err e :=
  enc_choice_alt_err hidx ha he

/-- Whatever else happens: if the encoder of some present component (root or extension addition,
    at any index) does not succeed, the SEQUENCE encoder does not succeed. -/
theorem never_ok_if_component_err (so fc : Nat) (ea : Option Nat) (fields : Fields) (vs : Vals)
    (i : Nat) (k : Kind) (t : Ty) (v : Val)
    (hf : fields.get? i = some (k, t)) (hv : vs.get? i = some v) (hp : presentOf k v = some true)
    (he : ∀ b, enc t (contentOf k v) ≠ ok b) :
    ∀ bits, enc (.seq so fc ea fields) (.seq vs) ≠ ok bits := by
  intro bits hb
  obtain ⟨v', hv', p, hp', hc⟩ := enc_seq_ok_component hb hf
  rw [hv] at hv'
  simp only [Option.some.injEq] at hv'
  subst hv'
  rw [hp] at hp'
  simp only [Option.some.injEq] at hp'
  obtain ⟨c, hc⟩ := hc hp'.symm
  exact he c hc

/-- … an element of a SEQUENCE OF … -/
theorem never_ok_if_element_err (min max : Option Nat) (ext : Bool) (elem : Ty) (vs : Vals)
    (i : Nat) (v : Val) (hv : vs.get? i = some v) (he : ∀ b, enc elem v ≠ ok b) :
    ∀ bits, enc (.seqOf min max ext elem) (.list vs) ≠ ok bits := by
  intro bits hb
  obtain ⟨c, hc⟩ := enc_seqOf_ok_elem hb hv
  exact he c hc

/-- … the chosen alternative of a CHOICE. -/
theorem never_ok_if_alternative_err (std total : Nat) (ext : Bool) (alts : Fields) (i : Nat)
    (x : Val) (k : Kind) (t : Ty) (ha : alts.get? i = some (k, t)) (he : ∀ b, enc t x ≠ ok b) :
    ∀ bits, enc (.choice std total ext alts) (.choice i x) ≠ ok bits := by
  intro bits hb
  obtain ⟨k', t', c, ha', hc⟩ := enc_choice_ok_alt hb
  rw [ha] at ha'
  simp only [Option.some.injEq, Prod.mk.injEq] at ha'
  obtain ⟨_, rfl⟩ := ha'
  exact he c hc

/-- The writer never unwinds, for any descriptor and any value tree. -/
theorem enc_never_panics (t : Ty) (v : Val) : enc t v ≠ panic := enc_ne_panic t v

/-- The closure: a violation of a non-extensible constraint ANYWHERE in the value tree (`Violates`:
    at the top, inside present components, elements, chosen alternatives, at any depth) makes the
    encoder return an error — no encoding, no panic. -/
theorem violation_anywhere_is_an_error (t : Ty) (v : Val) (h : Violates t v) :
    ∃ e, enc t v = err e :=
  violates_err h

/-- Conversely stated: an encoding exists only for value trees without any violation. -/
theorem ok_implies_no_violation (t : Ty) (v : Val) (bits : Bits) (h : enc t v = ok bits) :
    ¬ Violates t v :=
  fun hv => violates_not_ok hv bits h

/-! ### extensible constraints: the extension form -/

/-- INTEGER `(min..max, ...)`, value outside the root: bit `1`, then the unconstrained whole
    number (X.691 13.1 / 11.8) — which can always be written -/
theorem int_ext_out_of_root (min max : Option Int) (w : Nat) (s : Bool) (v : Int)
    (hv : v < min.getD 0 ∨ v > max.getD I64_MAX) :
    ∃ b, wUnconstrained v = ok b ∧ enc (.int min max true w s) (.int v) = ok (true :: b) :=
  enc_int_ext_out hv

/-- … for an `i64` value (what the Rust type can hold) that is X.691 11.8 -/
theorem int_ext_out_of_root_x691 (min max : Option Int) (w : Nat) (s : Bool) (v : Int)
    (hv : v < min.getD 0 ∨ v > max.getD I64_MAX) (hl : I64_MIN ≤ v) (hu : v ≤ I64_MAX) :
    enc (.int min max true w s) (.int v) = ok (true :: X691.unconstrained v) :=
  enc_int_ext_out_x691 hv hl hu

/-- … inside the root: bit `0`, then the constrained whole number (X.691 11.5) -/
theorem int_ext_in_root (min max : Option Int) (w : Nat) (s : Bool) (v : Int)
    (h1 : min.getD 0 ≤ v) (h2 : v ≤ max.getD I64_MAX) :
    enc (.int min max true w s) (.int v) =
      ok (false :: X691.constrained (min.getD 0) (max.getD I64_MAX) v) :=
  enc_int_ext_in h1 h2

/-- OCTET STRING `(SIZE (min..max, ...))`, length outside the root: bit `1`, the unconstrained
    length determinant, the octets (first fragment; `tail` = the further fragments, none below 16K) -/
theorem size_ext_out_of_root_oct (min max : Option Nat) (bytes : List Byte)
    (h : bytes.length < min.getD 0 ∨ bytes.length > max.getD I64MAXu) :
    ∃ hdr f tail, wLen none none bytes.length = ok (hdr, f) ∧
      enc (.oct min max true) (.oct bytes) =
        ok (true :: hdr ++ bytesBits (bytes.take (f.getD bytes.length)) ++ tail) ∧
      (f = none → tail = []) :=
  enc_oct_ext_out h

theorem size_ext_out_of_root_bits (min max : Option Nat) (bs : List Bool)
    (h : bs.length < min.getD 0 ∨ bs.length > max.getD I64MAXu) :
    ∃ hdr f tail, wLen none none bs.length = ok (hdr, f) ∧
      enc (.bits min max true) (.bits bs) =
        ok (true :: hdr ++ bs.take (f.getD bs.length) ++ tail) ∧
      (f = none → tail = []) :=
  enc_bits_ext_out h

theorem size_ext_out_of_root_str (cs : Charset) (min max : Option Nat) (bytes : List Byte)
    (chars : List Nat) (hcs : cs ≠ .utf8) (hd : utf8Decode bytes = some chars)
    (hval : chars.all cs.isValid = true)
    (h : chars.length < min.getD 0 ∨ chars.length > max.getD U64_MAX) :
    ∃ l f, wLen none none chars.length = ok (l, f) ∧
      enc (.str cs min max true) (.str bytes) =
        ok (true :: l ++ (chars.map (charBits cs)).flatten) :=
  enc_str_ext_out hcs hd hval h

theorem size_ext_out_of_root_seqOf (min max : Option Nat) (elem : Ty) (vs : Vals) (body : Bits)
    (h : vs.length < min.getD 0 ∨ vs.length > max.getD I64MAXu)
    (hb : encListWith (enc elem) vs = ok body) :
    ∃ l f, wLen none none vs.length = ok (l, f) ∧
      enc (.seqOf min max true elem) (.list vs) = ok (true :: l ++ body) :=
  enc_seqOf_ext_out h hb

/-- the unconstrained length determinant used above is that of X.691 11.9.3.5–8, for every length
    (`Props.C10.len_unconstrained_pattern`); in closed form: -/
theorem unconstrained_length (n : Nat) :
    wLen none none n = ok (X691.lenU n) ∧
    wLen none none n =
      if n ≤ 127 then ok (false :: natBits 7 n, none)
      else if n < 16384 then ok (true :: false :: natBits 14 n, none)
      else ok (true :: true :: natBits 6 (min (n / 16384) 4), some (min (n / 16384) 4 * 16384)) :=
  ⟨Per.wLen_unc n, wLen_unc_closed n⟩

/-- UTF8String: the size constraint is not PER-visible; with an extensible constraint nothing is
    checked and the encoding is the unconstrained OCTET STRING of the UTF-8 bytes -/
theorem size_ext_utf8 (min max : Option Nat) (bytes : List Byte) (chars : List Nat)
    (hd : utf8Decode bytes = some chars) :
    enc (.str .utf8 min max true) (.str bytes) = wOctets none none false bytes :=
  enc_utf8_ext hd

/-- ENUMERATED `{ …, ... }`, index outside the root: bit `1`, normally small number `i − std`
    (X.691 14.3 / 11.6) -/
theorem index_ext_enum (std total i : Nat) (h : i ≥ std) :
    ∃ b, wSmall (i - std) = ok b ∧ enc (.enum std total true) (.enum i) = ok (true :: b) :=
  enc_enum_ext_out h

/-- … for a `u64` index that is the index encoding of X.691 14.3 -/
theorem index_ext_enum_x691 (std total i : Nat) (h : i ≥ std) (hi : i ≤ U64_MAX) :
    enc (.enum std total true) (.enum i) = ok (X691.index std true i) :=
  enc_enum_ext_out_x691 h hi

/-- … in the root: (bit `0`,) constrained number — X.691 14.2 / 14.3 -/
theorem index_root_enum (std total i : Nat) (ext : Bool) (h : i < std) :
    enc (.enum std total ext) (.enum i) = ok (X691.index std ext i) :=
  enc_enum_root ext h

/-- CHOICE `{ …, ... }`, alternative outside the root: bit `1`, normally small index, the
    alternative's encoding as open type (X.691 23.8) -/
theorem index_ext_choice (std total i : Nat) (alts : Fields) (x : Val) (c o : Bits)
    (h : i ≥ std) (hc : encAlt alts i x = ok c) (ho : openType c = ok o) :
    ∃ b, wSmall (i - std) = ok b ∧
      enc (.choice std total true alts) (.choice i x) = ok (true :: b ++ o) :=
  enc_choice_ext_out h hc ho

theorem index_root_choice (std total i : Nat) (alts : Fields) (x : Val) (c : Bits) (ext : Bool)
    (h : i < std) (hc : encAlt alts i x = ok c) :
    enc (.choice std total ext alts) (.choice i x) = ok (X691.index std ext i ++ c) :=
  enc_choice_root ext h hc

/-! ### non-vacuity: concrete instances satisfying the hypotheses -/

-- int_rejects, int_single_value_rejects (the repaired defect: `INTEGER (5)` with value 7)
example : enc (.int (some 5) (some 5) false 8 false) (.int 7) = err .valueNotInRange := by decide
example : enc (.int (some 0) (some 255) false 8 false) (.int 256) = err .valueNotInRange := by
  decide
example : enc (.int (some (-3)) none false 64 true) (.int (-4)) = err .valueNotInRange := by
  decide
example : OutsideInt (some 0) (some 255) 256 := Or.inr ⟨255, rfl, by decide⟩
example : ((some 5 : Option Int).isSome = true ∨ (some 5 : Option Int).isSome = true) ∧
    ((7 : Int) < (some 5 : Option Int).getD 0 ∨ (7 : Int) > (some 5 : Option Int).getD I64_MAX) :=
  by decide

-- size_rejects_*: "abcd" in SIZE (1..3); 4 octets in SIZE (2); 1 bit in SIZE (2..8); 3 elements in SIZE (0..2)
example : enc (.str .utf8 (some 1) (some 3) false) (.str [0x61#8, 0x62#8, 0x63#8, 0x64#8]) =
    err .sizeNotInRange := by decide
example : utf8Decode [0x61#8, 0x62#8, 0x63#8, 0x64#8] = some [97, 98, 99, 100] := by decide
example : enc (.str .ia5 (some 1) (some 3) false) (.str [0x61#8, 0x62#8, 0x63#8, 0x64#8]) =
    err .sizeNotInRange := by decide
example : [97, 98, 99, 100].all Charset.ia5.isValid = true := by decide
example : enc (.oct (some 2) (some 2) false) (.oct [1#8, 2#8, 3#8, 4#8]) = err .sizeNotInRange := by
  decide
example : enc (.bits (some 2) (some 8) false) (.bits [true]) = err .sizeNotInRange := by decide
example : enc (.seqOf none (some 2) false .bool)
    (.list (.cons (.bool true) (.cons (.bool true) (.cons (.bool false) .nil)))) =
    err .sizeNotInRange := by decide

-- alphabet_rejects: "1a" as NumericString
example : enc (.str .numeric none none false) (.str [0x31#8, 0x61#8]) = err .invalidString := by
  decide
example : utf8Decode [0x31#8, 0x61#8] = some [49, 97] ∧
    [49, 97].any (fun c => !Charset.numeric.isValid c) = true := by decide

-- index_rejects_*
example : enc (.enum 3 3 false) (.enum 3) = err .invalidChoiceIndex := by decide
example : enc (.choice 2 2 false (.cons .m .bool (.cons .m .null .nil))) (.choice 2 .null) =
    err .invalidChoiceIndex := by decide

/-- `SEQUENCE { a BOOLEAN, b INTEGER (0..7) OPTIONAL, c SEQUENCE OF INTEGER (0..7) }` -/
def exFields : Fields :=
  .cons .m .bool (.cons .o (.int (some 0) (some 7) false 8 false)
    (.cons .m (.seqOf none none false (.int (some 0) (some 7) false 8 false)) .nil))
/-- `{ a TRUE, b 9, c {} }` — `b` violates its range -/
def exVals : Vals := .cons (.bool true) (.cons (.some (.int 9)) (.cons (.list .nil) .nil))
/-- `{ a TRUE, c { 1, 8 } }` — the second element of `c` violates its range -/
def exVals2 : Vals :=
  .cons (.bool true) (.cons .none (.cons (.list (.cons (.int 1) (.cons (.int 8) .nil))) .nil))

-- violation_propagates_seq / never_ok_if_component_err
example : enc (.seq 1 3 none exFields) (.seq exVals) = err .valueNotInRange := by decide
example : exFields.get? 1 = some (.o, .int (some 0) (some 7) false 8 false) ∧
    exVals.get? 1 = some (.some (.int 9)) ∧ presentOf .o (.some (.int 9)) = some true ∧
    enc (.int (some 0) (some 7) false 8 false) (contentOf .o (.some (.int 9))) =
      err .valueNotInRange := ⟨rfl, rfl, rfl, by decide⟩
example : PrefixFine exFields exVals (rootCountOf none exFields) 1 := by
  intro i hi k t hg
  match i, hi with
  | 0, _ =>
    simp only [exFields, Fields.get?, Option.some.injEq, Prod.mk.injEq] at hg
    obtain ⟨rfl, rfl⟩ := hg
    exact ⟨.bool true, true, rfl, rfl, fun _ _ => ⟨[true], rfl⟩⟩
-- violation_propagates_seqOf / never_ok_if_element_err
example : enc (.seqOf none none false (.int (some 0) (some 7) false 8 false))
    (.list (.cons (.int 1) (.cons (.int 8) .nil))) = err .valueNotInRange := by decide
-- violation_propagates_choice
example : enc (.choice 2 2 false (.cons .m .bool (.cons .m (.int (some 0) (some 7) false 8 false) .nil)))
    (.choice 1 (.int 8)) = err .valueNotInRange := by decide
-- violation_anywhere_is_an_error: the violation two levels down
example : Violates (.seq 1 3 none exFields) (.seq exVals2) :=
  .comp (i := 2) (k := .m) (t := .seqOf none none false (.int (some 0) (some 7) false 8 false))
    rfl rfl rfl
    (.elem (i := 1) (v := .int 8) rfl (.int (Or.inl rfl) (Or.inr (by decide))))
example : enc (.seq 1 3 none exFields) (.seq exVals2) = err .valueNotInRange := by decide

-- int_ext_out_of_root / int_ext_in_root: `INTEGER (0..7, ...)` with 8 → `1` + length 1 + `00001000`;
-- with 5 → `0` + `101`
example : enc (.int (some 0) (some 7) true 8 false) (.int 8) =
    ok ([true] ++ [false, false, false, false, false, false, false, true] ++
        [false, false, false, false, true, false, false, false]) := by decide
example : enc (.int (some 0) (some 7) true 8 false) (.int 5) = ok [false, true, false, true] := by
  decide
-- size_ext_out_of_root_*: 1 octet in SIZE (2, ...) → `1` + `0 0000001` + the octet
example : enc (.oct (some 2) (some 2) true) (.oct [0xff#8]) =
    ok ([true] ++ [false, false, false, false, false, false, false, true] ++
        [true, true, true, true, true, true, true, true]) := by decide
example : enc (.bits (some 2) (some 8) true) (.bits [true]) =
    ok ([true] ++ [false, false, false, false, false, false, false, true] ++ [true]) := by decide
example : enc (.str .ia5 (some 2) (some 3) true) (.str [0x61#8]) =
    ok ([true] ++ [false, false, false, false, false, false, false, true] ++
        [true, true, false, false, false, false, true]) := by decide
example : enc (.seqOf (some 2) (some 3) true .bool) (.list (.cons (.bool true) .nil)) =
    ok ([true] ++ [false, false, false, false, false, false, false, true] ++ [true]) := by decide
-- index_ext_*: ENUMERATED { a, b, ..., c } with c → `1` + `0 000000`
example : enc (.enum 2 3 true) (.enum 2) = ok [true, false, false, false, false, false, false, false] := by
  decide
example : enc (.enum 2 3 true) (.enum 1) = ok [false, true] := by decide
example : enc (.choice 1 2 true (.cons .m .bool (.cons .m .bool .nil))) (.choice 0 (.bool true)) =
    ok [false, true] := by decide
example : encAlt (.cons .m .bool (.cons .m .bool .nil)) 1 (.bool true) = ok [true] := by decide

-- never_ok_if_*: the hypothesis "no encoding" of a component / element / alternative
example : ∀ b, enc (.int (some 0) (some 7) false 8 false) (contentOf .o (.some (.int 9))) ≠ ok b := by
  intro b h
  rw [show enc (.int (some 0) (some 7) false 8 false) (contentOf .o (.some (.int 9))) =
    err .valueNotInRange from by decide] at h
  cases h
-- violation_propagates_seqOf: the hypotheses spelled out for `{ 1, 8 }`
example : let vs : Vals := .cons (.int 1) (.cons (.int 8) .nil)
    ((false = true) ∨ ((none : Option Nat).getD 0 ≤ vs.length ∧
      vs.length ≤ (none : Option Nat).getD I64MAXu)) ∧
    vs.get? 1 = some (.int 8) ∧
    enc (.int (some 0) (some 7) false 8 false) (.int 8) = err .valueNotInRange ∧
    ∀ j, j < 1 → ∃ vj b, vs.get? j = some vj ∧ enc (.int (some 0) (some 7) false 8 false) vj = ok b := by
  refine ⟨Or.inr (by decide), rfl, by decide, ?_⟩
  intro j hj
  have : j = 0 := by omega
  subst this
  exact ⟨.int 1, [false, false, true], rfl, by decide⟩
-- violation_propagates_choice: root alternative 1
example : (1 < 2 ∨ false = true) ∧
    (Fields.cons .m .bool (.cons .m (.int (some 0) (some 7) false 8 false) .nil)).get? 1 =
      some (.m, .int (some 0) (some 7) false 8 false) := ⟨Or.inl (by decide), rfl⟩
-- int_ext_out_of_root_x691 / index_ext_enum_x691: the range hypotheses
example : I64_MIN ≤ (8 : Int) ∧ (8 : Int) ≤ I64_MAX ∧ (2 : Nat) ≤ U64_MAX := by decide
-- size_ext_out_of_root_seqOf: the elements encode
example : encListWith (enc .bool) (.cons (.bool true) .nil) = ok [true] := by decide
-- index_ext_choice: alternative 1 (an extension addition) of `CHOICE { a BOOLEAN, ..., b BOOLEAN }`
-- → `1` + `0 000000` + open type (length 1, octet `0x80`)
example : openType [true] = ok [false, false, false, false, false, false, false, true,
    true, false, false, false, false, false, false, false] := openType_true
example : enc (.choice 1 2 true (.cons .m .bool (.cons .m .bool .nil))) (.choice 1 (.bool true)) =
    ok ([true] ++ [false, false, false, false, false, false, false] ++
        [false, false, false, false, false, false, false, true,
         true, false, false, false, false, false, false, false]) := by
  have hs : wSmall 0 = ok [false, false, false, false, false, false, false] := by decide
  obtain ⟨b, hb, he⟩ := index_ext_choice 1 2 1 (.cons .m .bool (.cons .m .bool .nil)) (.bool true)
    [true] _ (by decide) (by decide) openType_true
  rw [he]
  simp only [Nat.sub_self, hs, Outcome.ok.injEq] at hb
  rw [← hb]
  rfl

end Asn1Verif.Props.C06
