import Asn1Verif.Uper.DiagLemmas
/-
  C19 — The diagnostic feature flag does not change decoding results.

  Models: `Uper/Impl.lean` (`dec`, the reader of the build without the feature) and
  `Uper/Diag.lean` (`decD`, the reader of the build with `descriptive-deserialize-errors`: the same
  control flow, threading the `scope_description` vector as a write-only log; the two
  `ScopeDescription::warning` sites push *conditionally on decoded values*).
  Lemmas: `Uper/DiagLemmas.lean` (`Erases`, mutual structural induction over `Ty` / `Fields`).

  `diag_erasure` is the property: for every type descriptor, input, start position and initial
  log the +feature reader returns exactly the outcome of the plain reader — the same `Ok` value
  with the same cursor (= the same number of consumed bits), the same error class, (and a panic
  where the other panics).  `log_monotone`: the log is write-only.  The tie of both models to the
  two real builds is the correspondence stream `uper-diag` (tools/checks/c19.py).
-/
namespace Asn1Verif.Props.C19
open Asn1Verif Asn1Verif.Uper Asn1Verif.Per Outcome

/-- **The feature does not change the result.**  Whatever the log so far, the +feature reader
    computes the outcome of the plain reader: same `Ok` value and cursor, same error class. -/
theorem diag_erasure (t : Ty) (inp : Bits) (pos : Nat) (log : List LogEntry) :
    (decD t inp pos log).1 = dec t inp pos :=
  (decD_erases t inp pos log).1

/-- the same for the two other entry points of the mutual recursion (alternative `i` of a CHOICE,
    the components of a SEQUENCE) -/
theorem diag_erasure_alt (alts : Fields) (i : Nat) (inp : Bits) (pos : Nat) (log : List LogEntry) :
    (decAltD alts i inp pos log).1 = decAlt alts i inp pos :=
  (decAltD_erases alts i inp pos log).1

theorem diag_erasure_fields (fs : Fields) (rootLeft optIdx addIdx : Nat) (ctx : SeqCtx)
    (inp : Bits) (pos : Nat) (log : List LogEntry) :
    (decFieldsD fs rootLeft optIdx addIdx ctx inp pos log).1 =
      decFields fs rootLeft optIdx addIdx ctx inp pos :=
  (decFieldsD_erases fs rootLeft optIdx addIdx ctx inp pos log).1

/-- **The log is write-only**: what the reader returns extends what it was given (also on error) -/
theorem log_monotone (t : Ty) (inp : Bits) (pos : Nat) (log : List LogEntry) :
    log <+: (decD t inp pos log).2 := by
  obtain ⟨suf, h⟩ := (decD_erases t inp pos log).2
  exact ⟨suf, h.symm⟩

/-- the result never depends on the diagnostics collected so far -/
theorem result_independent_of_log (t : Ty) (inp : Bits) (pos : Nat) (log₁ log₂ : List LogEntry) :
    (decD t inp pos log₁).1 = (decD t inp pos log₂).1 := by
  rw [diag_erasure, diag_erasure]

/-- spelled out: same `Ok` value and same number of consumed bits … -/
theorem same_ok (t : Ty) (inp : Bits) (pos : Nat) (log : List LogEntry) (v : Val) (p : Nat) :
    (decD t inp pos log).1 = ok (v, p) ↔ dec t inp pos = ok (v, p) := by
  rw [diag_erasure]

/-- … same error class … -/
theorem same_err (t : Ty) (inp : Bits) (pos : Nat) (log : List LogEntry) (k : ErrKind) :
    (decD t inp pos log).1 = err k ↔ dec t inp pos = err k := by
  rw [diag_erasure]

/-- … and the feature introduces no panic (nor removes one) -/
theorem same_panic (t : Ty) (inp : Bits) (pos : Nat) (log : List LogEntry) :
    (decD t inp pos log).1 = .panic ↔ dec t inp pos = .panic := by
  rw [diag_erasure]

/-! ### non-vacuity: the log DOES depend on the data, the result does not

  `T ::= SEQUENCE { a BOOLEAN, ..., b BOOLEAN OPTIONAL }` as this version of the type knows it
  (one extension addition).  `inA` announces one addition, `inB` (sent by a newer version)
  announces two, the second one absent.  Both decode to the same value; only the second run logs
  the warning `read_number_of_ext_fields(2) > *number_of_ext_fields(1)`. -/

def tSeq : Ty := .seq 0 2 (some 0) (.cons .m .bool (.cons .o .bool .nil))

/-- ext=1, a=1, count-1=0 (7 bits), bitmap `1`, open type: length 1, octet `1000 0000` -/
def inA : Bits :=
  [true, true, false, false, false, false, false, false, false, true,
   false, false, false, false, false, false, false, true,
   true, false, false, false, false, false, false, false]

/-- the same with count-1=1 and bitmap `10` -/
def inB : Bits :=
  [true, true, false, false, false, false, false, false, true, true, false,
   false, false, false, false, false, false, false, true,
   true, false, false, false, false, false, false, false]

def isOkWith (o : Outcome (Val × Nat)) (v : Val) (p : Nat) : Bool :=
  match o with
  | .ok (w, q) => w == v && q == p
  | _ => false

example : tSeq.consistent = true := by decide

/-- same value (cursor at the respective end), the warning only in the second log -/
example :
    isOkWith (decD tSeq inA 0 []).1 (.seq (.cons (.bool true) (.cons (.some (.bool true)) .nil))) 26 = true ∧
    isOkWith (decD tSeq inB 0 []).1 (.seq (.cons (.bool true) (.cons (.some (.bool true)) .nil))) 27 = true ∧
    LogEntry.warningExtFields 2 1 ∉ (decD tSeq inA 0 []).2 ∧
    LogEntry.warningExtFields 2 1 ∈ (decD tSeq inB 0 []).2 := by decide +kernel

/-- the other value-dependent site: an extensible ENUMERATED with two known variants; the index
    sent is 2 resp. 3: same error class, different warnings -/
example :
    (decD (.enum 2 2 true) [true, false, false, false, false, false, false, false] 0 []).1
      = err .invalidChoiceIndex ∧
    (decD (.enum 2 2 true) [true, false, false, false, false, false, false, true] 0 []).1
      = err .invalidChoiceIndex ∧
    LogEntry.warningEnumIndex 2 1 ∈
      (decD (.enum 2 2 true) [true, false, false, false, false, false, false, false] 0 []).2 ∧
    LogEntry.warningEnumIndex 3 1 ∈
      (decD (.enum 2 2 true) [true, false, false, false, false, false, false, true] 0 []).2 ∧
    (decD (.enum 2 2 true) [true, false, false, false, false, false, false, false] 0 []).2 ≠
      (decD (.enum 2 2 true) [true, false, false, false, false, false, false, true] 0 []).2 := by
  refine ⟨by rfl, by rfl, by decide, by decide, by decide⟩

/-- the log is returned also on error (the real build moves it into the `Error`) -/
example : (decD .bool [] 0 []) = (err .endOfStream, [.boolean, .result (err .endOfStream)]) := by
  rfl

end Asn1Verif.Props.C19
