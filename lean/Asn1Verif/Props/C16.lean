import Asn1Verif.Codegen.TagsLemmas
/-
  C16 — SET components are encoded in canonical tag order (X.680 8.6); tags assigned per X.680.

  Property theorems only; the model is `Codegen/Tags.lean`, helper lemmas `Codegen/TagsLemmas.lean`.
  All statements are about arbitrary component lists (no bound on the number of components).

  Overview
  * the order itself           `ranks_in_x680_order`, `tag_order_is_x680`, `class_order`
  * the SET sort (walker)      `set_order` (root components: a permutation, pairwise in canonical
                               order; extension additions: exactly as written — X.691 21.1),
                               `set_order_perm`, `set_order_sorted`, `sort_key_of_component`,
                               `root_before_extension`, `set_order_stable`,
                               `set_order_ext_after` (`EXTENDED_AFTER_FIELD` untouched by the sort),
                               `set_order_append_additions` (a new version that appends additions
                               keeps the order of everything the old version knows: the premise of
                               C05 for SET)
  * automatic tags             `automatic_tags_iff`, `automatic_set_order_textual`
  * SEQUENCE                   `sequence_order_textual`, `sequence_pipeline_order_textual`
  * TagResolver                `resolver_reference`, `resolver_cycle_has_no_tag`,
                               `resolver_choice_is_minimum`, `resolver_fuel_independent`,
                               `resolver_total` (every module, cyclic or not — the repaired
                               resolver keeps a stack of the names being resolved),
                               `resolver_default_fuel_suffices`, `resolver_unchanged_on_acyclic`
                               (on acyclic modules the repaired resolver = the one without stack)
  * whole pipeline             `pipeline_terminates`, `pipeline_never_panics`, `pipeline_order_perm`
  * against X.680/X.691        `SetOrderCanonical` (full statement, FALSE for the current code:
                               `set_order_canonical_fails_choice`), `set_order_canonical_partial`
                               (any marker position, also in front of the first component);
                               `ExtensionSplitPerText` (full, FALSE: `extension_split_fails_marker`),
                               `extension_split_partial`
  * TAG constants              `tag_const` (= `TagConstPerX680`, full since the repair of the SET OF
                               and DEFAULT arms), `tag_const_explicit`, `own_tag` (SET: UNIVERSAL 17,
                               full since the repair)
-/
namespace Asn1Verif.Props.C16
open Asn1Verif Asn1Verif.Codegen.Tags

/-! ### the order -/

/-- the derived `Ord` of `enum Tag` ranks the classes as X.680 8.6 a) demands:
    UNIVERSAL < APPLICATION < context-specific < PRIVATE (ranks re-extracted from tag.rs) -/
theorem ranks_in_x680_order :
    Consts.TAG_ORD_DERIVED = true ∧
    Consts.TAG_RANK_Universal < Consts.TAG_RANK_Application ∧
    Consts.TAG_RANK_Application < Consts.TAG_RANK_ContextSpecific ∧
    Consts.TAG_RANK_ContextSpecific < Consts.TAG_RANK_Private := by decide

/-- X.680 8.6: class first, then ascending number; a total order, distinct tags never tie -/
theorem tag_order_is_x680 (a b c : Tag) :
    (a.le b = true ↔ a.cls < b.cls ∨ (a.cls = b.cls ∧ a.num ≤ b.num)) ∧
    (a.le b || b.le a) = true ∧
    (a.le b = true → b.le c = true → a.le c = true) ∧
    (a.le b = true → b.le a = true → a = b) :=
  ⟨Tag.le_iff a b, Tag.le_total a b, Tag.le_trans a b c, Tag.le_antisymm a b⟩

/-- any universal tag sorts before any application tag, … — whatever the numbers -/
theorem class_order (m n : Nat) :
    (Tag.universal m).le (Tag.application n) = true ∧
    (Tag.application m).le (Tag.contextSpecific n) = true ∧
    (Tag.contextSpecific m).le (Tag.priv n) = true ∧
    (Tag.application m).le (Tag.universal n) = false ∧
    (Tag.contextSpecific m).le (Tag.application n) = false ∧
    (Tag.priv m).le (Tag.contextSpecific n) = false := by
  simp [Tag.le, Tag.universal, Tag.application, Tag.contextSpecific, Tag.priv,
    Consts.TAG_RANK_Universal, Consts.TAG_RANK_Application, Consts.TAG_RANK_ContextSpecific,
    Consts.TAG_RANK_Private]

/-- the `Tag::DEFAULT_*` constants (re-extracted) are the universal tags of X.680 -/
theorem default_tags_are_x680 (k : Builtin) : defaultTag k = Tag.universal (x680Universal k) := by
  cases k <;> rfl

/-! ### the SET sort -/

/-- "`a` may stand in front of `b`" among root components (X.680 8.6): class rank, then number -/
def TagBefore (a b : RField) : Prop :=
  ∃ ta tb, a.tag = some ta ∧ b.tag = some tb ∧
    (ta.cls < tb.cls ∨ (ta.cls = tb.cls ∧ ta.num ≤ tb.num))

/-- "`a` may stand in front of `b`" (X.691 21.1): a root component before an extension addition;
    two root components in canonical tag order; two extension additions in either order as far as
    tags go — their order is the textual one (`set_order`, third clause) -/
def CanonBefore (a b : Bool × RField) : Prop :=
  (a.1 = false ∧ b.1 = true) ∨ (a.1 = true ∧ b.1 = true) ∨
  (a.1 = false ∧ b.1 = false ∧ TagBefore a.2 b.2)

/-- every component the sort sees carries a tag, once `sort_fields_canonically` returns -/
theorem sorted_fields_tagged (fields : List RField) (e : Option Nat) (out : List RField)
    (h : sortFieldsCanonically fields e = .ok out) :
    ∀ p ∈ prepare fields e, ∃ t, p.2.tag = some t := by
  unfold sortFieldsCanonically at h
  split at h
  · cases h
  · rename_i hany
    intro p hp
    have hany' : (prepare fields e).any (fun p => p.2.tag.isNone) = false := by
      cases hb : (prepare fields e).any (fun p => p.2.tag.isNone) with
      | false => rfl
      | true => exact absurd hb hany
    have := List.any_eq_false.1 hany' p hp
    cases ht : p.2.tag with
    | none => simp [ht] at this
    | some t => exact ⟨t, rfl⟩

/-- **the SET order** (X.691 21.1, X.680 8.6).  With `n` the number of root components
    (`extension_after + 1`; all of them without a marker) and every component carrying its own
    tag where given, else the tag of its type (`RField.withTypeTag`):
    * the first `n` emitted components are a permutation of the root components,
    * pairwise in canonical tag order (class rank, then number),
    * and the extension additions follow exactly as they are written: the emitted list behind
      position `n` IS the textual list behind position `n`. -/
theorem set_order (fields : List RField) (e : Option Nat) (out : List RField)
    (h : sortFieldsCanonically fields e = .ok out) :
    (out.take (rootCount e fields.length)).Perm
      ((fields.take (rootCount e fields.length)).map RField.withTypeTag) ∧
    (out.take (rootCount e fields.length)).Pairwise TagBefore ∧
    out.drop (rootCount e fields.length) =
      (fields.drop (rootCount e fields.length)).map RField.withTypeTag := by
  obtain ⟨ht, hd⟩ := sortFieldsCanonically_split fields e out h
  have htag := sorted_fields_tagged fields e out h
  have hperm := List.mergeSort_perm ((prepare fields e).take (rootCount e fields.length)) keyLe
  refine ⟨?_, ?_, hd⟩
  · rw [ht]
    have := hperm.map (·.2)
    rwa [List.map_take, map_snd_prepare, ← List.map_take] at this
  · rw [ht, List.pairwise_map]
    refine (List.pairwise_mergeSort keyLe_trans keyLe_total _).imp_of_mem ?_
    intro a b ha hb hab
    have ha' := hperm.mem_iff.1 ha
    have hb' := hperm.mem_iff.1 hb
    have fa := flag_take_prepare fields e a ha'
    have fb := flag_take_prepare fields e b hb'
    obtain ⟨ta, hta⟩ := htag a (List.mem_of_mem_take ha')
    obtain ⟨tb, htb⟩ := htag b (List.mem_of_mem_take hb')
    rw [keyLe_iff] at hab
    rcases hab with ⟨_, h2⟩ | ⟨h1, _⟩ | ⟨_, _, h3⟩
    · rw [fb] at h2; cases h2
    · rw [fa] at h1; cases h1
    · rw [hta, htb] at h3
      exact ⟨ta, tb, hta, htb, (Tag.le_iff ta tb).1 h3⟩

/-- … in terms of names: behind the root components the emitted names are the textual names -/
theorem set_order_additions_textual (fields : List RField) (e : Option Nat) (out : List RField)
    (h : sortFieldsCanonically fields e = .ok out) :
    (out.drop (rootCount e fields.length)).map (·.name) =
      (fields.drop (rootCount e fields.length)).map (·.name) := by
  rw [(set_order fields e out h).2.2, List.map_map]
  rfl

/-- the sort does not touch `extension_after`: the descriptor's `EXTENDED_AFTER_FIELD` is the index
    the walker was handed, and the root components are the ones in front of it before and after -/
theorem set_order_ext_after (o : EncodingOrdering) (fields : List RField) (e : Option Nat)
    (em : Emitted) (h : writeConstraints o fields e = .ok em) : em.extAfter = e :=
  writeConstraints_extAfter o fields e em h

/-- **a new version that appends extension additions** (marker behind component `k` of the old
    list) emits the old order followed by the new additions as written: nothing the old version
    knows changes its place (the premise of C05 for SET; false before the repair, when the
    additions were sorted among themselves) -/
theorem set_order_append_additions (fields adds : List RField) (k : Nat) (hk : k < fields.length)
    (out : List RField) (h : sortFieldsCanonically fields (some k) = .ok out)
    (ha : ∀ f ∈ adds, (f.tag.orElse fun _ => f.typeTag).isSome = true) :
    sortFieldsCanonically (fields ++ adds) (some k) = .ok (out ++ adds.map RField.withTypeTag) :=
  sortFieldsCanonically_append fields adds k hk out h ha

/-- the emitted SET order is a permutation of the components: nothing lost, nothing doubled.
    (`prepare` only fills in the type's tag where the component has none.) -/
theorem set_order_perm (fields : List RField) (e : Option Nat) (out : List RField)
    (h : sortFieldsCanonically fields e = .ok out) :
    out.Perm ((prepare fields e).map (·.2)) ∧
    (out.map (·.name)).Perm (fields.map (·.name)) := by
  unfold sortFieldsCanonically at h
  split at h
  · cases h
  · simp only [Outcome.ok.injEq] at h
    subst h
    have hp := (sortKeyed_perm fields e).map (·.2)
    refine ⟨hp, ?_⟩
    have := hp.map (·.name)
    simpa [List.map_map, Function.comp_def, map_name_prepare] using
      (sortKeyed_perm fields e).map (·.2.name) |>.trans (by rw [map_name_prepare])

/-- the whole emitted list is in order w.r.t. `CanonBefore`: any component emitted earlier may
    stand in front of any component emitted later -/
theorem set_order_sorted (fields : List RField) (e : Option Nat) (out : List RField)
    (h : sortFieldsCanonically fields e = .ok out) :
    ∃ keyed : List (Bool × RField), out = keyed.map (·.2) ∧ keyed.Perm (prepare fields e) ∧
      keyed.Pairwise CanonBefore := by
  have htag0 := sorted_fields_tagged fields e out h
  unfold sortFieldsCanonically at h
  split at h
  · cases h
  · simp only [Outcome.ok.injEq] at h
    refine ⟨sortKeyed fields e, h.symm, sortKeyed_perm fields e, ?_⟩
    have htag : ∀ p ∈ sortKeyed fields e, ∃ t, p.2.tag = some t := fun p hp =>
      htag0 p ((sortKeyed_perm fields e).mem_iff.1 hp)
    refine (sortKeyed_pairwise fields e).imp_of_mem ?_
    intro a b ha hb hab
    rw [keyLe_iff] at hab
    rcases hab with hab | hab | ⟨h1, h2, h3⟩
    · exact Or.inl hab
    · exact Or.inr (Or.inl hab)
    · obtain ⟨ta, hta⟩ := htag a ha
      obtain ⟨tb, htb⟩ := htag b hb
      rw [hta, htb] at h3
      exact Or.inr (Or.inr ⟨h1, h2, ta, tb, hta, htb, (Tag.le_iff ta tb).1 h3⟩)

/-- what the key of component `i` is: the extended flag of its textual index, its explicit tag
    where given, else the tag of its type -/
theorem sort_key_of_component (fields : List RField) (e : Option Nat) (i : Nat)
    (h : i < fields.length) :
    (prepare fields e)[i]'(by rw [length_prepare]; exact h) =
      (extendedFlag e i,
       { fields[i] with tag := fields[i].tag.orElse fun _ => fields[i].typeTag }) := by
  simp [prepare]

/-- root components before extension additions: once an addition has been emitted, only
    additions follow -/
theorem root_before_extension (fields : List RField) (e : Option Nat) :
    (sortKeyed fields e).Pairwise (fun a b => a.1 = true → b.1 = true) := by
  refine (sortKeyed_pairwise fields e).imp ?_
  intro a b hab ha
  rw [keyLe_iff] at hab
  rcases hab with ⟨h1, _⟩ | ⟨_, h2⟩ | ⟨h1, _, _⟩
  · rw [ha] at h1; cases h1
  · exact h2
  · rw [ha] at h1; cases h1

/-- stability: two components in textual order whose keys do not force a swap (in particular:
    equal keys) keep their textual order -/
theorem set_order_stable (fields : List RField) (e : Option Nat) (a b : Bool × RField)
    (hab : [a, b].Sublist (prepare fields e)) (hle : keyLe a b = true) :
    [a, b].Sublist (sortKeyed fields e) :=
  sortKeyed_stable fields e [a, b] (List.pairwise_pair.2 hle) hab

/-! ### automatic tags -/

/-- automatic tags `0..n-1` (context class, textual index) are assigned iff no component of the
    list carries a tag; otherwise every component keeps exactly what it had -/
theorem automatic_tags_iff (fields : List RField) :
    (NoneTagged fields →
      assignImplicitTags fields =
        fields.zipIdx.map fun (f, i) => { f with tag := some (Tag.contextSpecific i) }) ∧
    (¬ NoneTagged fields → assignImplicitTags fields = fields) ∧
    (assignImplicitTags fields ≠ fields ↔ NoneTagged fields ∧ fields ≠ []) := by
  refine ⟨assignImplicitTags_of_noneTagged fields, assignImplicitTags_of_tagged fields, ?_⟩
  constructor
  · intro hne
    by_cases hn : NoneTagged fields
    · refine ⟨hn, ?_⟩
      intro hnil; subst hnil
      exact hne (by simp [assignImplicitTags])
    · exact absurd (assignImplicitTags_of_tagged fields hn) hne
  · rintro ⟨hn, hne⟩ heq
    cases fields with
    | nil => exact hne rfl
    | cons f rest =>
      have h1 : f.tag = none := hn f (by simp)
      rw [assignImplicitTags_of_noneTagged _ hn] at heq
      simp only [List.zipIdx_cons, List.map_cons, List.cons.injEq] at heq
      have := congrArg RField.tag heq.1
      simp [h1] at this

/-- … and then the list is already in canonical order, wherever the extension marker is:
    the SET is emitted in textual order -/
theorem automatic_set_order_textual (fields : List RField) (e : Option Nat)
    (h : NoneTagged fields) :
    emitOrder .sort (assignImplicitTags fields) e = .ok (assignImplicitTags fields) :=
  sort_assignImplicitTags_of_noneTagged fields e h

/-! ### SEQUENCE -/

/-- SEQUENCE: the sort is not applied, the emitted order is the textual order -/
theorem sequence_order_textual (fields : List RField) (e : Option Nat) :
    emitOrder .keep fields e = .ok fields := rfl

theorem sequence_pipeline_order_textual (env : Env) (c : Components) (em : Emitted)
    (h : emit env .keep c = some (.ok em)) : em.order = c.fields.map (·.name) :=
  emit_keep_order env c em h

/-! ### TagResolver -/

/-- the type tag of an untagged reference to a name that is not being resolved already is the tag
    of the referenced definition: its own tag if it has one, else the tag of its body (references
    are followed, the name goes on the stack) -/
theorem resolver_reference (env : Env) (fuel : Nat) (vis : List String) (n : String) (d : Def)
    (hv : vis.contains n = false) (h : env.lookup n = some d) :
    resolveTypeTag env (fuel + 1) vis (.ref n) =
      (match d.tag with
       | some t => some (some t)
       | none => resolveTypeTag env fuel (n :: vis) d.ty) := by
  simp only [resolveTypeTag, hv, h]
  cases d.tag <;> rfl

/-- … and `resolve_tag` starts with an empty stack -/
theorem resolver_reference_top (env : Env) (fuel : Nat) (n : String) (d : Def)
    (h : env.lookup n = some d) :
    resolveTag env (fuel + 1) n =
      (match d.tag with
       | some t => some (some t)
       | none => resolveTypeTag env fuel [n] d.ty) :=
  resolver_reference env fuel [] n d rfl h

/-- **a reference that leads back to a name whose tag is being resolved has no tag** (`None`);
    the resolver returns instead of recursing for ever -/
theorem resolver_cycle_has_no_tag (env : Env) (fuel : Nat) (vis : List String) (n : String)
    (h : n ∈ vis) : resolveTypeTag env (fuel + 1) vis (.ref n) = some none :=
  resolveTypeTag_visiting env fuel vis n h

/-- an untagged CHOICE resolves to the smallest tag among its root alternatives -/
theorem resolver_choice_is_minimum (env : Env) (fuel : Nat) (vis : List String)
    (alts : List (Option Tag × Ty)) (e : Option Nat) (m : Tag)
    (h : resolveTypeTag env (fuel + 1) vis (.choice alts e) = some (some m)) :
    ∃ ts, collectTags (resolveTypeTag env fuel vis) (rootAlts alts e) = some (some ts) ∧
      m ∈ ts ∧ ∀ t ∈ ts, m.le t = true := by
  simp only [resolveTypeTag] at h
  cases hc : collectTags (resolveTypeTag env fuel vis) (rootAlts alts e) with
  | none => simp [hc] at h
  | some y =>
    cases y with
    | none => simp [hc] at h
    | some ts =>
      simp only [hc, Option.some.injEq] at h
      exact ⟨ts, rfl, minTag_mem ts m h, minTag_le ts m h⟩

/-- the answer of the resolver does not depend on the fuel (a device of the mirror) -/
theorem resolver_fuel_independent (env : Env) (f f' : Nat) (hff : f ≤ f') (vis : List String)
    (t : Ty) (x : Option Tag) (h : resolveTypeTag env f vis t = some x) :
    resolveTypeTag env f' vis t = some x :=
  resolveTypeTag_mono env f f' hff vis t x h

/-- **total**: for EVERY module — reference cycles included —, every stack and every type the
    resolver answers as soon as the fuel reaches the explicit bound
    `depth t + (definitions not on the stack) · (deepest definition + 1)` -/
theorem resolver_total (env : Env) (fuel : Nat) (vis : List String) (t : Ty)
    (hf : fuelBound env vis t ≤ fuel) : ∃ x, resolveTypeTag env fuel vis t = some x :=
  resolveTypeTag_total env fuel vis t hf

/-- **the repair changes nothing where the resolver used to answer**: on an acyclic module (some
    rank function decreases along every reference of every definition) the stack is never hit and
    the repaired resolver computes, with the same fuel, exactly what the resolver without a stack
    (`resolveTypeTagUnrepaired`, the code before the repair) computed -/
theorem resolver_unchanged_on_acyclic (env : Env) (r : String → Nat) (hac : Acyclic env r)
    (fuel : Nat) (t : Ty) :
    resolveTypeTag env fuel [] t = resolveTypeTagUnrepaired env fuel t :=
  resolveTypeTag_eq_unrepaired env r hac fuel [] t (by intro n hn; cases hn)

/-- the fuel the compiled driver uses is enough, for every module and type -/
theorem resolver_default_fuel_suffices (env : Env) (t : Ty) :
    ∃ x, resolveTypeTag env (defaultFuel env t) [] t = some x :=
  defaultFuel_sufficient env t

/-! ### the whole pipeline -/

/-- **stage 1 always terminates**: the pipeline answers (an emitted type, the compile error of
    stage 2, or the one panic) for every module, reference cycles included -/
theorem pipeline_terminates (env : Env) (o : EncodingOrdering) (c : Components) :
    ∃ r, emit env o c = some r :=
  emit_isSome env o c

/-- the two-stage pipeline never panics, except for an extension marker in an empty list
    (`SET { ... }`); in particular "Field .. is missing a tag assignment" and "Complex type ..
    requires a tag" are unreachable: stage 2 refuses such input with a compile error before -/
theorem pipeline_never_panics (env : Env) (o : EncodingOrdering) (c : Components)
    (h : c.fields ≠ [] ∨ c.markers = []) : emit env o c ≠ some .panic :=
  emit_ne_panic env o c h

/-- whatever is emitted is a permutation of the declared components -/
theorem pipeline_order_perm (env : Env) (o : EncodingOrdering) (c : Components) (em : Emitted)
    (h : emit env o c = some (.ok em)) : em.order.Perm (c.fields.map (·.name)) :=
  emit_order_perm env o c em h

/-! ### end to end against X.680 / X.691 -/

/-- **full statement** (one marker at most; a second root list is outside the statement):
    whenever the generator emits a SET, the order is the one X.691 21.1 prescribes (`specOrder`:
    root components in the canonical order of X.680 8.6 under X.680's tags, extension additions
    as written).  FALSE for the current code, see the counterexample. -/
def SetOrderCanonical : Prop :=
  ∀ (env : Env) (c : Components) (em : Emitted), c.markers.length ≤ 1 →
    emit env .sort c = some (.ok em) → em.order = specOrder env c

/-- **partial** (one open finding, F-C16-1): when no automatically tagged CHOICE decides a
    position (`TagsAgree`, decidable), the emitted SET order is the prescribed one — for every
    position of the marker, in front of the first component included (there the whole list is
    additions and stays as written; what is wrong in that case is the split the descriptor
    states, `ExtensionSplitPerText` below) -/
theorem set_order_canonical_partial (env : Env) (c : Components) (em : Emitted)
    (hm : c.markers.length ≤ 1) (ht : TagsAgree env c)
    (h : emit env .sort c = some (.ok em)) : em.order = specOrder env c :=
  emit_sort_eq_specOrder env c em hm ht h

/-- **full statement**: the components the descriptor treats as extension additions
    (`EXTENDED_AFTER_FIELD`: every index above it) are exactly the ones declared behind the
    marker.  FALSE for the current code (marker in front of the first component). -/
def ExtensionSplitPerText : Prop :=
  ∀ (env : Env) (o : EncodingOrdering) (c : Components) (em : Emitted), c.markers.length ≤ 1 →
    emit env o c = some (.ok em) →
    ∀ i, i < c.fields.length → extendedFlag em.extAfter i = c.isExtension i

/-- **partial** (open finding F-C16-2): with the marker not in front of the first component -/
theorem extension_split_partial (env : Env) (o : EncodingOrdering) (c : Components) (em : Emitted)
    (hm : c.markers.length ≤ 1) (h0 : 0 ∉ c.markers) (h : emit env o c = some (.ok em)) (i : Nat) :
    extendedFlag em.extAfter i = c.isExtension i := by
  rw [emit_extAfter env o c em h]
  exact extendedFlag_eq_isExtension c hm h0 i

/-! #### counterexamples: the full statements are false for the current code -/

/-- `Cb ::= CHOICE { v0 BOOLEAN, v1 INTEGER }` — no alternative tagged: automatic tags `[0] [1]` -/
def envCb : Env :=
  [{ name := "Cb", tag := none,
     ty := .choice [(none, .builtin .boolean), (none, .builtin .integer)] none }]

/-- `SET { a [APPLICATION 1] INTEGER, c Cb }` -/
def setWithAutoChoice : Components :=
  { fields := [{ name := "a", tag := some (Tag.application 1), ty := .builtin .integer },
               { name := "c", tag := none, ty := .ref "Cb" }] }

/-- `SET { ..., a [APPLICATION 1] INTEGER, b BOOLEAN }` -/
def setMarkerFirst : Components :=
  { fields := [{ name := "a", tag := some (Tag.application 1), ty := .builtin .integer },
               { name := "b", tag := none, ty := .builtin .boolean }],
    markers := [0] }

/-- evaluation of a concrete instance (the sort is `List.mergeSort`, defined by well-founded
    recursion, so `simp` unfolds it instead of `decide`) -/
macro "eval_tags" : tactic => `(tactic|
  simp [emit, allSome, toRField, rustTypeTag, resolveTag, resolveTypeTag,
    collectTags, rootAlts, minTag, Env.lookup, defaultFuel, envDepth, Ty.depth, altsDepth,
    rkindOf, defaultTag, extensionAfter, writeConstraints, assignImplicitTags, tagConsts, tagConst,
    RField.innerTag, ownDefaultTag, emitOrder, sortFieldsCanonically, prepare, sortKeyed,
    List.mergeSort, List.MergeSort.Internal.splitInTwo, List.merge, keyLe, optTagLe, Tag.le,
    extendedFlag, Tag.application,
    Tag.universal, Tag.contextSpecific, Tag.priv, Tag.ofPair, List.zipIdx,
    Consts.TAG_RANK_Application, Consts.TAG_RANK_Universal, Consts.TAG_RANK_ContextSpecific,
    Consts.TAG_RANK_Private, Consts.TAG_DEFAULT_BOOLEAN, Consts.TAG_DEFAULT_INTEGER,
    Consts.TAG_DEFAULT_SEQUENCE, Consts.TAG_DEFAULT_SEQUENCE_OF, Consts.TAG_DEFAULT_SET,
    Consts.TAG_DEFAULT_SET_OF, Consts.TAG_DEFAULT_NULL,
    specOrder, specKeyed, specTag, specAuto, specTypeTag, specTagLe, x680Universal,
    Components.isExtension, Option.join, Outcome.bind, RField.withTypeTag])

/-- the generator orders `c` by `UNIVERSAL 1` (BOOLEAN, as if the alternatives were not
    tagged automatically) and emits `c, a` … -/
theorem emitted_with_auto_choice :
    (emit envCb .sort setWithAutoChoice).map (fun o => o.bind fun em => .ok em.order)
      = some (.ok ["c", "a"]) := by
  unfold envCb setWithAutoChoice; eval_tags

/-- … X.680 gives `c` the tag `[0]`: canonical order `a, c` -/
theorem spec_with_auto_choice : specOrder envCb setWithAutoChoice = ["a", "c"] := by
  unfold envCb setWithAutoChoice; eval_tags

theorem set_order_canonical_fails_choice : ¬ SetOrderCanonical := by
  intro h
  have h1 := emitted_with_auto_choice
  cases hem : emit envCb .sort setWithAutoChoice with
  | none => simp [hem] at h1
  | some o =>
    cases o with
    | ok em =>
      have := h envCb setWithAutoChoice em (by decide) hem
      rw [spec_with_auto_choice] at this
      simp [hem, this, Outcome.bind] at h1
    | err k => simp [hem, Outcome.bind] at h1
    | panic => simp [hem, Outcome.bind] at h1

/-- marker in front of the first component: the emitted order `a, b` is the prescribed one (both
    are additions, they stay as written) — but the descriptor announces `a` as a root component:
    `EXTENDED_AFTER_FIELD = Some(0)` … -/
theorem emitted_marker_first :
    (emit [] .sort setMarkerFirst).map (fun o => o.bind fun em => .ok (em.order, em.extAfter))
      = some (.ok (["a", "b"], some 0)) := by
  unfold setMarkerFirst; eval_tags

theorem spec_marker_first : specOrder [] setMarkerFirst = ["a", "b"] := by
  unfold setMarkerFirst; eval_tags

/-- … although `a` is declared behind the marker -/
theorem extension_split_fails_marker : ¬ ExtensionSplitPerText := by
  intro h
  have h1 := emitted_marker_first
  cases hem : emit [] .sort setMarkerFirst with
  | none => simp [hem] at h1
  | some o =>
    cases o with
    | ok em =>
      have h2 := h [] .sort setMarkerFirst em (by decide) hem 0 (by decide)
      have h3 : em.extAfter = some 0 := by
        simp only [hem, Option.map_some, Outcome.bind, Option.some.injEq, Outcome.ok.injEq,
          Prod.mk.injEq] at h1
        exact h1.2
      rw [h3] at h2
      revert h2; decide
    | err k => simp [hem, Outcome.bind] at h1
    | panic => simp [hem, Outcome.bind] at h1

/-! ### the `TAG` constants -/

/-- an explicit tag is what the component gets, whatever its type -/
theorem tag_const_explicit (rf : RField) (t : Tag) (h : rf.tag = some t) :
    tagConst rf = .ok t := by
  unfold tagConst
  cases rf.presence <;> cases rf.kind <;> simp [h]

/-- **full statement**: an untagged component of a plain type gets the universal tag of its
    type — mandatory, OPTIONAL or DEFAULT, SET OF included. -/
def TagConstPerX680 : Prop :=
  ∀ (rf : RField) (k : Builtin), rf.kind = .builtin k → rf.tag = none →
    tagConst rf = .ok (Tag.universal (x680Universal k))

/-- the full statement holds (it was `tag_const_partial`, without DEFAULT components and SET OF,
    before `write_field_constraint` was repaired: both used `Tag::DEFAULT_SEQUENCE_OF`) -/
theorem tag_const : TagConstPerX680 := by
  intro rf k hk ht
  unfold tagConst
  cases rf.presence <;> simp only [hk, ht, RField.innerTag] <;> cases k <;> rfl

/-- regression, the witnesses of the two former findings: `b SET OF …` untagged has `TAG`
    `UNIVERSAL 17` (was 16), `b BOOLEAN DEFAULT TRUE` untagged has `UNIVERSAL 1` (was 16) -/
example : tagConst { name := "b", tag := none, typeTag := some (Tag.universal 17),
                     kind := .builtin .setOf, presence := .required } = .ok (Tag.universal 17) := by
  decide
example : tagConst { name := "b", tag := none, typeTag := some (Tag.universal 1),
                     kind := .builtin .boolean, presence := .default } = .ok (Tag.universal 1) := by
  decide
-- a DEFAULT component of a referenced type takes the tag stage 1 printed for the reference
example : tagConst { name := "b", tag := none, typeTag := some (Tag.application 7),
                     kind := .complex, presence := .default } = .ok (Tag.application 7) := by
  decide

/-- **the type's own `TAG`** (the type carries no tag of its own): `UNIVERSAL 16` for a SEQUENCE,
    `UNIVERSAL 17` for a SET (was 16 for both before `write_sequence_or_set_constraint` was
    repaired) -/
theorem own_tag (o : EncodingOrdering) (fields : List RField) (e : Option Nat) (em : Emitted)
    (h : writeConstraints o fields e = .ok em) :
    em.ownTag = Tag.universal (x680Universal (match o with | .keep => .sequence | .sort => .set)) := by
  rw [writeConstraints_ownTag o fields e em h]
  cases o <;> rfl

/-! ### non-vacuity -/

/-- `SET { a [APPLICATION 1] INTEGER, b BOOLEAN, ..., c [0] NULL, d X }`, `X ::= [PRIVATE 2] INTEGER` -/
def envX : Env := [{ name := "X", tag := some (Tag.priv 2), ty := .builtin .integer }]
def sampleSet : Components :=
  { fields := [{ name := "a", tag := some (Tag.application 1), ty := .builtin .integer },
               { name := "b", tag := none, ty := .builtin .boolean },
               { name := "c", tag := some (Tag.contextSpecific 0), ty := .builtin .null },
               { name := "d", tag := none, ty := .ref "X" }],
    markers := [2] }

-- the hypotheses of `set_order_canonical_partial` / `extension_split_partial` hold for it and it
-- is reordered: b, a | c, d
example : sampleSet.markers.length ≤ 1 ∧ 0 ∉ sampleSet.markers ∧ TagsAgree envX sampleSet := by
  decide
example : (emit envX .sort sampleSet).map (fun o => o.bind fun em => .ok (em.order, em.extAfter))
    = some (.ok (["b", "a", "c", "d"], some 1)) := by
  unfold envX sampleSet; eval_tags
example : specOrder envX sampleSet = ["b", "a", "c", "d"] := by
  unfold envX sampleSet; eval_tags
/-- the same with the additions in descending tag order:
    `SET { a [APPLICATION 1] INTEGER, b BOOLEAN, ..., c [5] NULL, d [2] INTEGER }` -/
def sampleSetDesc : Components :=
  { fields := [{ name := "a", tag := some (Tag.application 1), ty := .builtin .integer },
               { name := "b", tag := none, ty := .builtin .boolean },
               { name := "c", tag := some (Tag.contextSpecific 5), ty := .builtin .null },
               { name := "d", tag := some (Tag.contextSpecific 2), ty := .builtin .integer }],
    markers := [2] }
-- the root components are sorted (b, a), the additions stay as written (c, d — before the repair
-- of `sort_fields_canonically`: d, c)
example : (emit [] .sort sampleSetDesc).map (fun o => o.bind fun em => .ok (em.order, em.extAfter))
    = some (.ok (["b", "a", "c", "d"], some 1)) := by
  unfold sampleSetDesc; eval_tags
example : specOrder [] sampleSetDesc = ["b", "a", "c", "d"] := by
  unfold sampleSetDesc; eval_tags
/-- regression, the witness of the former finding F-set-additions-sorted (C05, `zoo_ver::SetV1/V2`):
    `SetV1 ::= SET { a [0] INTEGER, ..., b [5] BOOLEAN OPTIONAL }`,
    `SetV2 ::= SET { a [0] INTEGER, ..., b [5] BOOLEAN OPTIONAL, c [2] INTEGER OPTIONAL }` -/
def rfA : RField :=
  { name := "a", tag := some (Tag.contextSpecific 0), typeTag := some (Tag.universal 2),
    kind := .builtin .integer, presence := .required }
def rfB : RField :=
  { name := "b", tag := some (Tag.contextSpecific 5), typeTag := some (Tag.universal 1),
    kind := .builtin .boolean, presence := .optional }
def rfC : RField :=
  { name := "c", tag := some (Tag.contextSpecific 2), typeTag := some (Tag.universal 2),
    kind := .builtin .integer, presence := .optional }
-- V2 is emitted a, b, c = V1's order followed by the new addition (was a, c, b)
example : sortFieldsCanonically [rfA, rfB] (some 0) = .ok [rfA, rfB] ∧
    sortFieldsCanonically ([rfA, rfB] ++ [rfC]) (some 0) = .ok ([rfA, rfB] ++ [rfC]) := by
  unfold rfA rfB rfC; eval_tags
-- `set_order` / `set_order_append_additions`: the hypotheses on this instance
example : rootCount (some 0) [rfA, rfB].length = 1 ∧ 0 < [rfA, rfB].length ∧
    ∀ f ∈ [rfC], (f.tag.orElse fun _ => f.typeTag).isSome = true := by decide
-- the marker in front of the first component is inside `set_order_canonical_partial` now (it was
-- excluded while the additions were sorted), outside `extension_split_partial`
example : setMarkerFirst.markers.length ≤ 1 ∧ TagsAgree [] setMarkerFirst ∧
    0 ∈ setMarkerFirst.markers := by decide
-- `TagsAgree` is false exactly on the counterexample
example : ¬ TagsAgree envCb setWithAutoChoice := by decide
-- an all-untagged list satisfies `NoneTagged`, a mixed one does not
def rfUntagged : RField :=
  { name := "a", tag := none, typeTag := some (Tag.universal 2), kind := .builtin .integer,
    presence := .required }
def rfTagged : RField := { rfUntagged with tag := some (Tag.priv 1) }
example : NoneTagged [rfUntagged, rfUntagged] := by decide
example : ¬ NoneTagged [rfUntagged, rfTagged] := by decide
-- a module that is not listed in dependency order
def envChain : Env :=
  [{ name := "A", tag := none, ty := .ref "B" },
   { name := "B", tag := none, ty := .choice [(none, .ref "C"), (some (Tag.priv 1), .builtin .null)] none },
   { name := "C", tag := none, ty := .builtin .integer }]
example : resolveTypeTag envChain (defaultFuel envChain (.ref "A")) [] (.ref "A")
    = some (some (Tag.universal 2)) := by decide
-- `resolver_total`: the bound for `A` in `envChain` (1 + 3 · (2 + 1) = 10) and the least amount
-- that works (5)
example : fuelBound envChain [] (.ref "A") = 10 ∧
    resolveTypeTag envChain 4 [] (.ref "A") = none ∧
    resolveTypeTag envChain 5 [] (.ref "A") = some (some (Tag.universal 2)) := by decide
-- `resolver_reference` / `resolver_choice_is_minimum`: instances of the hypotheses
example : (envChain.lookup "B").map (·.name) = some "B" ∧ ["A"].contains "B" = false := by decide
example : resolveTypeTag envChain 5 ["B", "A"] envChain[1].ty = some (some (Tag.universal 2)) := by
  decide
-- `resolver_unchanged_on_acyclic`: `envChain` is acyclic, with its rank function; on the cyclic
-- `envRec` below the resolver without a stack exhausts every amount of fuel tried
def rankChain (n : String) : Nat := if n = "A" then 2 else if n = "B" then 1 else 0
example : Acyclic envChain rankChain := by unfold Acyclic; decide
example : resolveTypeTagUnrepaired envChain 5 (.ref "A") = some (some (Tag.universal 2)) := by decide
example : resolveTypeTagUnrepaired
    [{ name := "R", tag := none, ty := .choice [(none, .ref "R"), (none, .builtin .integer)] none }]
    50 (.ref "R") = none := by decide
-- reference cycles (the witnesses of the former finding tags.cyclic-abort: the real resolver
-- overflowed its stack) now have a defined answer: no tag
/-- `R ::= CHOICE { x R, y INTEGER }` -/
def envRec : Env :=
  [{ name := "R", tag := none,
     ty := .choice [(none, .ref "R"), (none, .builtin .integer)] none }]
/-- `A ::= B`, `B ::= A` -/
def envLoop : Env :=
  [{ name := "A", tag := none, ty := .ref "B" }, { name := "B", tag := none, ty := .ref "A" }]
example : resolveTypeTag envRec (defaultFuel envRec (.ref "R")) [] (.ref "R") = some none := by
  decide
example : resolveTypeTag envLoop (defaultFuel envLoop (.ref "A")) [] (.ref "A") = some none ∧
    resolveTypeTag [{ name := "A", tag := none, ty := .ref "A" }] 2 [] (.ref "A") = some none := by
  decide
-- a cycle that is cut by explicit tags is not followed: `R ::= CHOICE { x [0] R, y [1] INTEGER }`
example : resolveTypeTag
    [{ name := "R", tag := none,
       ty := .choice [(some (Tag.contextSpecific 0), .ref "R"),
                      (some (Tag.contextSpecific 1), .builtin .integer)] none }]
    3 [] (.ref "R") = some (some (Tag.contextSpecific 0)) := by decide
-- `resolver_cycle_has_no_tag`: an instance of the hypothesis
example : "R" ∈ ["R"] := by decide
-- the whole pipeline on the first witness, `SET { a R, b [APPLICATION 1] BOOLEAN }`: `complex(R)`
-- without a tag is refused by stage 2 (compile error), the process does not abort
example : emit envRec .sort
    { fields := [{ name := "a", tag := none, ty := .ref "R" },
                 { name := "b", tag := some (Tag.application 1), ty := .builtin .boolean }] }
    = some (.err .other) := by unfold envRec; eval_tags
-- stability: two components with the same key stay in textual order
def rfX : RField :=
  { name := "x", tag := some (Tag.universal 1), typeTag := none, kind := .complex,
    presence := .required }
def rfY : RField :=
  { name := "y", tag := none, typeTag := some (Tag.universal 1), kind := .builtin .boolean,
    presence := .required }
example : (sortKeyed [rfX, rfY] none).map (·.2.name) = ["x", "y"] := by
  unfold rfX rfY; eval_tags
example : (sortKeyed [rfY, rfX] none).map (·.2.name) = ["y", "x"] := by
  unfold rfX rfY; eval_tags

-- `set_order_perm` / `set_order_sorted` / `own_tag` / `set_order_ext_after`: an instance of the hypothesis
example : sortFieldsCanonically [rfTagged, rfY] none
    = .ok [{ rfY with tag := some (Tag.universal 1) }, rfTagged] := by
  unfold rfTagged rfUntagged rfY; eval_tags
example : (writeConstraints .sort [rfTagged, rfY] none).bind (fun em => .ok (em.order, em.ownTag))
    = .ok (["y", "a"], Tag.universal 17) := by
  unfold rfTagged rfUntagged rfY; eval_tags
-- regression, the witness of the former finding tags.set-own-tag: `SET { a BOOLEAN }` has `TAG`
-- `UNIVERSAL 17` (was 16); the same list as a SEQUENCE: 16
example : (emit [] .sort { fields := [{ name := "a", tag := none, ty := .builtin .boolean }] }).map
      (fun o => o.bind fun em => .ok em.ownTag) = some (.ok (Tag.universal 17)) ∧
    (emit [] .keep { fields := [{ name := "a", tag := none, ty := .builtin .boolean }] }).map
      (fun o => o.bind fun em => .ok em.ownTag) = some (.ok (Tag.universal 16)) := by
  eval_tags
-- `set_order_stable`: a pair in textual order with equal keys
example : [(false, rfX), (false, { rfY with tag := some (Tag.universal 1) })].Sublist
      (prepare [rfX, rfY] none) ∧
    keyLe (false, rfX) (false, { rfY with tag := some (Tag.universal 1) }) = true := by decide
-- `sequence_pipeline_order_textual` / `pipeline_order_perm`: the same components as a SEQUENCE
example : (emit envX .keep sampleSet).map (fun o => o.bind fun em => .ok em.order)
    = some (.ok ["a", "b", "c", "d"]) := by
  unfold envX sampleSet; eval_tags
-- `pipeline_never_panics`: the hypothesis, and the excluded shape `SET { ... }` does panic
example : sampleSet.fields ≠ [] ∨ sampleSet.markers = [] := by decide
example : emit [] .sort { fields := [], markers := [0] } = some .panic := by eval_tags
-- `tag_const`, `tag_const_explicit`
example : rfUntagged.kind = .builtin .integer ∧ rfUntagged.tag = none := by decide
example : tagConst rfUntagged = .ok (Tag.universal 2) ∧ tagConst rfTagged = .ok (Tag.priv 1) := by
  decide
-- an unresolvable reference ends in the compile error of stage 2, not in a panic
example : emit [] .sort { fields := [{ name := "a", tag := some (Tag.priv 1), ty := .ref "Nope" }] }
    = some (.err .other) := by eval_tags

end Asn1Verif.Props.C16
