import Asn1Verif.Front.ParserModuleRoundTrip
/-
  C07 — Parsing preserves every declared element of an ASN.1 module.

  Models: `Front/Ast.lean` (data model = mirror of `Model<Asn<Unresolved>>`), `Front/Parser*.lean`
  (mirror of `Model::try_from` and every per-construct parser), `Front/Printer.lean` (the
  pretty-printer the property quantifies over, abstract module → token list).
  Vocabulary (`canon`, the supported subset `…Wf`, the three lossy behaviours) in
  `Front/ParserSpec.lean`; lemmas in `Front/Parser*Lemmas.lean`, `Front/Parser*RoundTrip*.lean`.

  What is proved.  `parse_print_partial`: for EVERY module `A` of the supported subset —
  arbitrary nesting depth, arbitrarily many definitions, components, alternatives, variants —
  `parse (printTokens A) = ok (canon A)`: name, object identifier, imports (symbols, module,
  identifier), value references, definitions in order, and for each type its kind, component /
  alternative / variant names and order, INTEGER range and named numbers, SIZE constraints with
  their extensibility, tags with class, OPTIONAL / DEFAULT with the default literal or name, and
  the extension marker position.  `canon` contains only the SIZE normal forms
  (`SIZE(0..MAX)` = none, `SIZE(n..n)` = `SIZE(n)`).  The composition over nested types is
  finished (structural induction on the tree, `parse_print_Type`), so the fallback "depth ≤ 1"
  is not needed.

  What is *not* hidden in `canon`: two lossy behaviours of the current parser are explicit
  decidable hypotheses of `parse_print_partial`, and for each of them a concrete counterexample
  shows that the full statement `parse_print_full` is false for the code as it is:
    1. `moduleNoWiden`   — `INTEGER (0..MAX)` / `(MIN..9223372036854775807)` lose their bound;
    2. `moduleNiceNames` — module / import names lose a trailing `Module`.
  A third lossy behaviour cannot even be expressed as a printed model (the data model stores the
  index of the last root component): an extension marker *before the first component* is recorded
  as if it stood after it — `ext_marker_first_collapses` below.

  Repaired (the hypothesis / restriction is gone, the old witness is a regression `example`):
    * a value reference called `min` / `max` / `Max` … used as a bound was taken for the keyword
      (former hypothesis `moduleNoKwRef`): the keyword match is exact now; the supported subset
      only asks that a reference in a bound position is not spelled `MIN` / `MAX` itself;
    * a string literal whose first token is a separator lost that character, and the empty
      literals `""`, `''H` were not recognised (`read_string_literal` took the first token after
      the opening delimiter for content text whatever it was): `parse_print_StringTokens` holds
      for every token sequence, `parse_print_Literal` includes the empty octet string.

  Scope notes.  The theorem is about token lists (layouts of the same tokens are property C13).
  String literals: in a printed *module* one text token between the quotes, or none (the real
  parser rebuilds a literal from token columns; the model assumes one blank between the tokens of
  a literal — see the header of `Front/Parser.lean`); literals of several tokens are covered by
  `parse_print_StringTokens` under that layout.  The parser model uses a recursion budget
  (`tokens.length + 1`); for printed modules the theorem shows that it suffices.  For arbitrary token lists sufficiency of
  the budget is not proved here (every recursive call happens after at least one token has been
  consumed; the pseudo error `fuel` was never observed in the correspondence runs).
-/
namespace Asn1Verif.Props.C07
open Asn1Verif Asn1Verif.Front.Syn

/-! ### per construct: `parseX (printX x ++ rest) = ok (x', rest)` for arbitrary `rest` -/

/-- tags: class and number, in front of any text token -/
theorem parse_print_Tag (tag : Option Tag) (h : tagWf tag = true) (s : String) (rest : List Token) :
    nextWithOptTag (printTag tag ++ .text s :: rest) = .ok ((.text s, tag), rest) :=
  nextWithOptTag_print tag h s rest

/-- INTEGER: named numbers, both bounds (`MIN`/`MAX`, literal, reference), extensibility -/
theorem parse_print_Integer (r : Range URange) (cs : List (String × Int))
    (hr : rangeWf r = true) (hw : rangeNoWiden r = true)
    (hcs : constsWfI cs = true) (fuel : Nat) (hfuel : cs.length ≤ fuel)
    (rest : List Token) (hrest : RestOk rest) :
    parseInteger fuel (printConstants tInt cs ++ (printRange r ++ rest)) = .ok ((r, cs), rest) :=
  parseInteger_print r cs hr hw hcs fuel hfuel rest hrest

/-- SIZE: `SIZE(n)`, `SIZE(a..b)`, with `, ...`; the result is the canonical form -/
theorem parse_print_Size (s : Size USz) (hw : sizeWf s = true)
    (rest : List Token) (hrest : RestOk rest) :
    maybeReadSize (printSize s ++ rest) = .ok (canonSize s, rest) :=
  maybeReadSize_print s hw rest hrest

/-- ENUMERATED: variant names in order, numbers, marker position -/
theorem parse_print_Enumerated (e : Enumerated) (hw : enumWf e = true) (fuel : Nat)
    (hfuel : 2 * e.variants.length ≤ fuel) (rest : List Token) :
    parseEnumerated fuel (printEnumerated e ++ rest) = .ok (e, rest) :=
  parseEnumerated_print e hw fuel hfuel rest

/-- DEFAULT / value literals: TRUE/FALSE, integers, strings, octet strings (the empty string and
    the empty octet string included) -/
theorem parse_print_Literal (v : LiteralValue) (hw : litWf v = true) (rest : List Token) :
    readLiteral (printLit v ++ rest) = .ok (.lit v, rest) :=
  readLiteral_print v hw rest

/-- string literals of any number of tokens: between the delimiters any words and separator
    characters other than the delimiter — none at all, or a separator in first position — are
    read back as the tokens joined by single blanks (`litText`); no hypothesis on the tokens -/
theorem parse_print_StringTokens (delim : Char) (ws : List Token)
    (hws : ∀ t ∈ ws, t.eqSep delim = false) (rest : List Token) :
    readStringLiteral delim (printStringTokens delim ws ++ rest) =
      .ok (delim :: (litText ws ++ [delim]), rest) :=
  readStringLiteral_tokens delim ws hws rest

/-- observation on the result of `readLiteral`: the literal and the tokens left -/
def litIs (r : FR (LitResult × List Token)) (v : LiteralValue) (rest : List Token) : Bool :=
  match r with
  | .ok (.lit w, ts) => w == v && ts == rest
  | _ => false

/-- regression (was F-strdefault-first-sep): `DEFAULT ", a"` used to come back as `"  a"` -/
example : litIs (readLiteral [.sep '"', .sep ',', .text "a", .sep '"', .sep '}'])
    (.string ", a") [.sep '}'] = true := by decide
example : litIs (readLiteral [.sep '"', .sep '(', .text "x", .sep ')', .sep '"'])
    (.string "( x )") [] = true := by decide
/-- regression (was F-strdefault-empty): `""`, `''H`, `''B` used to swallow the closing delimiter
    and run on to the next one (`s UTF8String DEFAULT "", t IA5String DEFAULT "x"` gave `, t …`) -/
example : litIs (readLiteral [.sep '"', .sep '"', .sep ',', .text "t"])
    (.string "") [.sep ',', .text "t"] = true := by decide
example : litIs (readLiteral [.sep '\'', .sep '\'', .text "H", .sep '}'])
    (.octetString []) [.sep '}'] = true := by decide
example : litIs (readLiteral [.sep '\'', .sep '\'', .text "B", .sep '}'])
    (.octetString []) [.sep '}'] = true := by decide
example : litWf (.octetString []) = true ∧ litWf (.string "") = true := by decide

/-- the OPTIONAL / DEFAULT part of a component, up to the `,` or `}` that ends it -/
theorem parse_print_Presence (opt : Bool) (d : Option UConst) (hod : opt = true → d = none)
    (hd : ∀ x, d = some x → defaultWf x = true) (c : Char) (hc : c = ',' ∨ c = '}')
    (more : List Token) :
    fieldTail (presenceToks opt d ++ .sep c :: more) = .ok ((opt, d, c == ','), more) :=
  fieldTail_print opt d hod hd c hc more

/-- any type, nested to any depth -/
theorem parse_print_Type (t : UTy) (fuel : Nat) (rest : List Token) (hw : tyWf t = true)
    (hnw : tyNoWiden t = true) (hr : RestOk rest)
    (hf : (tyTail t).length < fuel) :
    parseRoleGiven fuel (tyHead t) (tyTail t ++ rest) = .ok (canonTy t, rest) :=
  parseRoleGiven_print t fuel rest hw hnw hr hf

/-- SEQUENCE / SET component lists: names, tags, types, OPTIONAL / DEFAULT, marker position -/
theorem parse_print_ComponentTypeList (fs : UFields) (ext : Option Nat) (fuel : Nat)
    (rest : List Token) (hw : fieldsWf fs = true) (hext : extWf ext fs.length = true)
    (hnw : fieldsNoWiden fs = true)
    (hf : (printFieldsLoop fs ext 0).length ≤ fuel) :
    componentLoop fuel 0 (printFieldsLoop fs ext 0 ++ rest) = .ok ((canonFields fs, ext), rest) := by
  have := fieldsRT_all fs ext 0 fuel rest hw hnw hf
  rwa [extIn_all ext _ hext] at this

/-- CHOICE alternative lists: names, tags, types, marker position -/
theorem parse_print_Choice (vs : UVariants) (ext : Option Nat) (fuel : Nat) (rest : List Token)
    (hne : 0 < vs.length) (hw : variantsWf vs = true) (hext : extWf ext vs.length = true)
    (hnw : variantsNoWiden vs = true)
    (hf : (printVariantsLoop vs ext 0).length ≤ fuel) :
    choiceLoop fuel 0 false (printVariantsLoop vs ext 0 ++ rest) =
      .ok ((canonVariants vs, ext), rest) := by
  have := variantsRT_all vs ext 0 false fuel rest hne hw hnw (by simp) hf
  rwa [extIn_all ext _ hext] at this

/-- object identifiers: name, number and name-and-number forms -/
theorem parse_print_OID (o : Option Oid) (hw : oidWf o = true) (fuel : Nat) (rest : List Token)
    (hf : (printOid o).length < fuel + 1) (hrest : nextIsSep '{' rest = none) :
    maybeReadOid fuel (printOid o ++ rest) = .ok (o, rest) :=
  maybeReadOid_print o hw fuel rest hf hrest

/-- IMPORTS: symbol lists, module names, identifiers, up to the `;` -/
theorem parse_print_Imports (is : List Import) (hw : is.all importWf = true) (fuel : Nat)
    (rest : List Token) (hf : (printImportsBody is).length < fuel + 1) :
    importsLoop fuel [] (printImportsBody is ++ rest) = .ok (is, rest) :=
  importsLoop_print is hw fuel rest hf

/-! ### the property -/

/-- **C07** on the supported subset minus the two lossy behaviours (explicit hypotheses) -/
theorem parse_print_partial (A : UModule) (hw : moduleWf A = true)
    (h1 : moduleNoWiden A = true) (h2 : moduleNiceNames A = true) :
    parseModule (printTokens A) = .ok (canon A) :=
  parseModuleFuel_print A hw h1 h2 _ (by omega)

/-- the full statement the property asks for -/
def parse_print_full : Prop :=
  ∀ A : UModule, moduleWf A = true → parseModule (printTokens A) = .ok (canon A)

/-! ### counterexamples: the full statement is false for the code as it is -/

/-- observations on a parse result, to compare results without equality on modules -/
def nameIs (r : FR UModule) (s : String) : Bool :=
  match r with
  | .ok m => m.name == s
  | .error _ => false

def firstRangeIs (r : FR UModule) (lo hi : Option URange) : Bool :=
  match r with
  | .ok m =>
    match m.definitions with
    | ⟨_, _, .integer rg _⟩ :: _ => rg.min == lo && rg.max == hi
    | _ => false
  | .error _ => false

def intDef (name : String) (lo hi : Option URange) : UDefinition :=
  ⟨name, none, .integer ⟨lo, hi, false⟩ []⟩

/-- 1. `A ::= INTEGER (0..MAX)` -/
def cexWiden : UModule := ⟨"M", none, [], [intDef "A" (some (.lit 0)) none], []⟩
/-- 2. a module called `FooModule` -/
def cexName : UModule := ⟨"FooModule", none, [], [intDef "A" none none], []⟩

example : moduleWf cexWiden = true ∧ moduleNoWiden cexWiden = false := by decide
example : moduleWf cexName = true ∧ moduleNiceNames cexName = false := by decide

/-- `(0..MAX)` comes back without the lower bound -/
theorem cex_widen :
    firstRangeIs (parseModule (printTokens cexWiden)) none none = true ∧
    firstRangeIs (.ok (canon cexWiden)) (some (.lit 0)) none = true := by decide

/-- `FooModule` comes back as `Foo` -/
theorem cex_name :
    nameIs (parseModule (printTokens cexName)) "Foo" = true ∧
    nameIs (.ok (canon cexName)) "FooModule" = true := by decide

/-- each of the two hypotheses of `parse_print_partial` is needed -/
theorem parse_print_full_false : ¬ parse_print_full := by
  intro h
  have h1 := h cexName (by decide)
  have h2 := cex_name
  rw [h1] at h2
  exact absurd h2.1 (by decide)

theorem parse_print_needs_noWiden :
    ¬ (∀ A : UModule, moduleWf A = true → moduleNiceNames A = true →
        parseModule (printTokens A) = .ok (canon A)) := by
  intro h
  have h1 := h cexWiden (by decide) (by decide)
  have h2 := cex_widen
  rw [h1] at h2
  exact absurd h2.1 (by decide)

theorem parse_print_needs_niceNames :
    ¬ (∀ A : UModule, moduleWf A = true → moduleNoWiden A = true →
        parseModule (printTokens A) = .ok (canon A)) := by
  intro h
  have h1 := h cexName (by decide) (by decide)
  have h2 := cex_name
  rw [h1] at h2
  exact absurd h2.1 (by decide)

/-! ### regression: value references called `min` / `max` (was F-ref-min-max, former hypothesis
    `moduleNoKwRef` with the counterexample `cex_kwref`: `(1..max)` came back as `(1..MAX)`) -/

/-- `max INTEGER ::= 5   A ::= INTEGER (1..max)   B ::= OCTET STRING (SIZE(min..Max))` -/
def regKwRef : UModule :=
  ⟨"M", none, [],
    [intDef "A" (some (.lit 1)) (some (.ref "max")),
     intDef "A2" (some (.ref "mIN")) (some (.ref "Max")),
     ⟨"B", none, .octetString (.range (.ref "min") (.ref "Max") false)⟩],
    [⟨"max", .integer ⟨none, none, false⟩ [], .integer 5⟩]⟩

/-- the old witness lies in the domain of `parse_print_partial` now … -/
example : moduleWf regKwRef = true ∧ moduleNoWiden regKwRef = true ∧
    moduleNiceNames regKwRef = true := by decide
example : parseModule (printTokens regKwRef) = .ok (canon regKwRef) :=
  parse_print_partial regKwRef (by decide) (by decide) (by decide)
/-- … and evaluates to the declared bounds -/
example : firstRangeIs (parseModule (printTokens regKwRef)) (some (.lit 1)) (some (.ref "max")) = true := by
  decide
/-- the keywords themselves are still keywords, and only in this spelling -/
example : rangeBound (.text "MAX") "MAX" = none ∧ rangeBound (.text "max") "MAX" = some (.ref "max") ∧
    sizeBound (.text "MIN") "MIN" 0 = none ∧ sizeBound (.text "Min") "MIN" 0 = some (.ref "Min") := by
  decide

/-- 4. the leading extension marker: `SEQUENCE { ... , a INTEGER }` and
    `SEQUENCE { a INTEGER , ... }` — two different declarations (in the first `a` is an extension
    addition, in the second a root component) — are parsed to the same model. -/
def leadingMarker : List Token :=
  [.sep '{', .sep '.', .sep '.', .sep '.', .sep ',', .text "a", .text "INTEGER", .sep '}']
def trailingMarker : List Token :=
  [.sep '{', .text "a", .text "INTEGER", .sep ',', .sep '.', .sep '.', .sep '.', .sep '}']

def extOf (r : FR (UTy × List Token)) : Option (Option Nat) :=
  match r with
  | .ok (.sequence _ e, _) => some e
  | _ => none

theorem ext_marker_first_collapses :
    extOf (parseRoleGiven 10 "SEQUENCE" leadingMarker) = some (some 0) ∧
    extOf (parseRoleGiven 10 "SEQUENCE" trailingMarker) = some (some 0) := by decide

/-! ### non-vacuity: a module with every construct satisfies the hypotheses -/

def sample : UModule :=
  { name := "Sample"
    oid := some [.nameAndNumberForm "iso" 1, .nameForm "standard", .numberForm 8571]
    imports := [⟨["Other", "limit"], "Lib", some [.numberForm 1, .numberForm 2]⟩, ⟨["X"], "Y", none⟩]
    valueReferences := [⟨"top", .integer ⟨some (.lit 0), some (.lit 255), false⟩ [], .integer 100⟩,
                        ⟨"flag", .boolean, .boolean true⟩]
    definitions := [
      ⟨"Colour", some (.application 3), .enumerated ⟨[⟨"red", none⟩, ⟨"green", some 5⟩, ⟨"blue", none⟩], some 1⟩⟩,
      ⟨"Rec", none, .sequence
        (.cons "a" (some (.contextSpecific 0)) (.optional (.integer ⟨some (.lit (-5)), some (.ref "top"), true⟩ [("one", 1)])) none
        (.cons "b" none (.string (.range (.lit 1) (.ref "limit") true) .utf8) (some (.lit (.string "hello")))
        (.cons "c" (some (.priv 7)) (.typeReference "Colour" none) (some (.ref "green"))
        (.cons "d" none (.sequenceOf (.choice (.cons "x" none .boolean (.cons "y" (some (.universal 4))
            (.octetString (.fix (.lit 4) false)) .nil)) (some 0)) (.range (.lit 0) (.lit SIZE_MAX) false))
          none
        (.cons "e" none (.bitString (.range (.lit 8) (.lit 8) false) [("f", 0)]) (some (.lit (.octetString [171, 205])))
          .nil)))))
        (some 1)⟩,
      ⟨"Empty", none, .set .nil none⟩] }

example : moduleWf sample = true ∧ moduleNoWiden sample = true ∧
    moduleNiceNames sample = true := by decide

/-- … and `canon` really changes it only in the two SIZE constraints -/
example : (canon sample).definitions.map (·.name) = ["Colour", "Rec", "Empty"] := by decide

example : RestOk [.text "OPTIONAL"] ∧ RestOk [.sep ','] ∧ RestOk [] :=
  ⟨RestOk.text _ _ (by decide), RestOk.sep _ _ (by decide) (by decide), RestOk.nil⟩

end Asn1Verif.Props.C07
