import Asn1Verif.Front.ResolveAllLemmas
import Asn1Verif.Front.ResolveChaseLemmas
/-
  C12 — Value references and imports resolve exactly like the literals they name.

  Model: `Front/Resolve.lean` (mirror of `ResolveScope::{value_reference, definition,
  model_with_imported_item, try_resolve}`, the four `Resolver` impls, `Asn/Type/Size/Integer/
  ComponentTypeList/Choice::try_resolve`, `MultiModuleResolver::try_resolve_all`).
  Vocabulary in `Front/ResolveSubst.lean` (literal variant `substTy`/`substModule`, side
  conditions), lemmas in `Front/Resolve*Lemmas.lean`, `Front/ResolveNested.lean`.

  What is proved (all without bound on nesting, number of items or modules):
  * `subst_*`: in any scope, a value reference used in an INTEGER range (`subst_Integer`), a SIZE
    constraint (`subst_Size`) or after DEFAULT (`subst_Default`) resolves to the same thing as
    the literal it names; lifted to every nested type (`subst_Type`) and to whole modules
    (`subst`): the module with references and its literal variant resolve to the same
    `Model<Asn<Resolved>>`, for every scope of loaded sibling modules.  The table `σ` may cover
    any subset of the names.  Staging: one module without imports (`subst_single_module`), then
    names found through imports — by module name (`import_by_name`), by object identifier
    (`import_by_oid`), through any chain (the table only has to agree with what the scope finds:
    `Agrees`, which `agrees_sigmaOf` provides for the scope's own table).
  * `load_order`: permuting the list of loaded modules does not change the result of any module,
    provided no import matches two loaded modules (`AllUnambiguous`).  Without that proviso the
    statement is false for the code as it is: `load_order_needs_unambiguous`.
  * `unresolved_*`, `illtyped_*`: a name with no definition in reach ⇒ `FailedToResolveReference`;
    a name whose value is not an integer where an integer is needed ⇒ `FailedToParseLiteral`;
    `resolved_*_sound`: a successfully resolved bound is the literal itself or the integer found
    under the name — never anything else.
  * `cyclic_import_rejected`: the import chase follows at most `scope.len()` imports (repaired
    code; before, it had no bound and overflowed the stack): a name that no loaded module
    defines is not found however the imports are wired, cycles included, and its use is
    `FailedToResolveReference` (`cyclic_import_self`, `cyclic_import_pair`: the two witnesses of
    the former finding, evaluated).
  * `size_negative_rejected`: a *negative* referenced value used as SIZE bound is refused with
    `FailedToResolveReference` (repaired code: `usize::try_from`; before, `as usize` wrapped it
    to 2^64-1), which is also what the literal text `SIZE(-1)` gets (`-1` does not parse as a
    number and is looked up as a name).  `resolved_Size_sound`: a resolved SIZE bound is the
    literal or the non-negative integer found under the name, never anything else.

  Side condition, necessary for the code as it is:
  * DEFAULT names are looked up among the variants of a referenced ENUMERATED type first, so a
    table name must not clash with such a variant (`SafeTy`; the names are "fresh").
  `substSizeAtom` leaves a reference to a negative value alone (it has no literal form); both
  sides of `subst_Size` are then the same refusal.

  `subst` keeps the scope `S` of siblings fixed; `subst_all` is the statement for
  `MultiModuleResolver::try_resolve_all` itself: *every* loaded module replaced by its literal
  variant (each with its own table) — the list of resolved models is the same.  Together with
  `load_order` this is the property's quantifier "for all schemas, all subsets of literals, same
  or sibling module with/without OID, all load orders".

  The import chase: `chase_total` / `chase_total_definition` — it comes back for EVERY module,
  scope and name (no acyclicity hypothesis; the full statement `ResolverTotal` of C14).
  `chase_bound_never_observable` / `chase_bound_never_observable_definition` — the bound of
  `scope.len()` hops is not observable, for EVERY module, scope and name (no hypothesis): every
  budget ≥ `chaseFuel scope` gives the answer the repaired code gives.  The pigeonhole step is
  proved (`Front/ResolveChaseLemmas.lean`): a chase that wants more than `scope.len()` hops has
  stood in `scope.len() + 1` modules of `scope`, so in some module twice, so it comes back to that
  module for ever and finds nothing with any budget.  The bound is also sharp
  (`chase_bound_sharp`: one hop fewer loses a value that is there).
  `chase_bound_not_observable` — the older, conditional form (a rank ≤ `scope.length` decreases
  along every step), kept.
-/
namespace Asn1Verif.Props.C12
open Asn1Verif Asn1Verif.Front.Syn

/-! ### a reference resolves like the literal it names -/

/-- INTEGER ranges -/
theorem subst_Integer (sc : Scope) (σ : Sigma) (ha : Agrees sc σ) (r : Range URange) :
    sc.resolveRange (substRange σ r) = sc.resolveRange r :=
  resolveRange_subst sc σ ha r

/-- SIZE constraints (including `reconsider_constraints` afterwards) -/
theorem subst_Size (sc : Scope) (σ : Sigma) (ha : Agrees sc σ) (s : Size USz) :
    sc.resolveSize (substSize σ s) = sc.resolveSize s :=
  resolveSize_subst sc σ ha s

/-- DEFAULT values on a component of (resolved) type `ty` -/
theorem subst_Default (sc : Scope) (σ : Sigma) (ha : Agrees sc σ) (ty : RTy) (uty : UTy)
    (hty : ∀ r tag, ty = .typeReference r tag → ∃ tag', uty = .typeReference r tag')
    (d : UConst) (hs : DefaultOk sc σ uty (some d)) :
    sc.resolveDefault ty (substDefault σ d) = sc.resolveDefault ty d :=
  resolveDefault_subst sc σ ha ty uty hty d hs

/-- every nested type -/
theorem subst_Type (sc : Scope) (σ : Sigma) (ha : Agrees sc σ) (t : UTy)
    (hs : SafeTy sc σ t) : sc.resolveTy (substTy σ t) = sc.resolveTy t :=
  resolveTy_subst sc σ ha t hs

/-- **subst**: module `A` with value references, loaded together with the modules `S`, resolves
    to the same model as its literal variant -/
theorem subst (σ : Sigma) (A : UModule) (S : List UModule) (ha : Agrees ⟨A, S⟩ σ)
    (hs : SafeModule ⟨A, S⟩ σ A) :
    Scope.tryResolve ⟨substModule σ A, S⟩ = Scope.tryResolve ⟨A, S⟩ :=
  tryResolve_substModule σ A S ha hs

/-- **subst** for `try_resolve_all`: all loaded modules `S` replaced by their literal variants
    (`τ m` = the table used for module `m`; it may cover any subset of the names `m` can see) -/
theorem subst_all (τ : UModule → Sigma) (S : List UModule)
    (hall : ∀ m ∈ S, Agrees ⟨m, S⟩ (τ m) ∧ SafeModule ⟨m, S⟩ (τ m) m) :
    tryResolveAll (S.map (substAllWith τ)) = tryResolveAll S :=
  tryResolveAll_substAll τ S hall

/-- the table a scope defines itself: every name it can find -/
def sigmaOf (sc : Scope) : Sigma := fun n =>
  match sc.valueReference n with
  | .ok (some vr) => some vr.value
  | _ => none

theorem agrees_sigmaOf (sc : Scope) : Agrees sc (sigmaOf sc) := by
  intro n v h
  simp only [sigmaOf] at h
  split at h
  · rename_i vr hvr
    exact ⟨vr, hvr, by simpa using h⟩
  · cases h

/-- stage 1: one module without imports, `Model::try_resolve` on both sides -/
theorem subst_single_module (σ : Sigma) (A : UModule) (hnoimp : A.imports = [])
    (ha : Agrees ⟨A, [A]⟩ σ) (hs : SafeModule ⟨A, [A]⟩ σ A) :
    tryResolve (substModule σ A) = tryResolve A := by
  have h1 := tryResolve_substModule σ A [A] ha hs
  -- the scope list is never consulted: no imports
  have hscope : ScopeEquiv ⟨substModule σ A, [A]⟩ ⟨substModule σ A, [substModule σ A]⟩ := by
    have himp : (substModule σ A).imports = [] := hnoimp
    constructor
    · intro n
      simp only [Scope.valueOf, Scope.valueReference, chaseFuel, List.length_cons, List.length_nil]
      rw [valueReference, valueReference]
      simp [modelWithImportedItem, himp]
    · intro n
      simp only [Scope.enumView, Scope.resolveTypeRef, Scope.definition, chaseFuel,
        List.length_cons, List.length_nil]
      rw [definition, definition]
      simp [modelWithImportedItem, himp]
  have h2 : Scope.tryResolve ⟨substModule σ A, [substModule σ A]⟩ =
      Scope.tryResolve ⟨substModule σ A, [A]⟩ := by
    simp only [Scope.tryResolve, resolveValueRefs_congr hscope, resolveDefinitions_congr hscope]
  simp only [tryResolve, h2, h1]

/-! ### where names are found -/

/-- a value reference of the module itself -/
theorem lookup_local (A : UModule) (S : List UModule) (n : String) (vr : UValueReference)
    (h : A.valueReferences.find? (fun v => v.name == n) = some vr) :
    (Scope.mk A S).valueReference n = .ok (some vr) :=
  valueReference_local A S n vr h

/-- imported, the sibling found **by name** -/
theorem import_by_name (A B : UModule) (S : List UModule) (n : String) (imp : Import)
    (vr : UValueReference)
    (hlocal : A.valueReferences.find? (fun v => v.name == n) = none)
    (himp : A.imports.find? (fun i => i.what.any (· == n)) = some imp)
    (hmod : S.find? (importMatches imp) = some B) (_hname : B.name = imp.«from»)
    (hdef : B.valueReferences.find? (fun v => v.name == n) = some vr) :
    (Scope.mk A S).valueReference n = .ok (some vr) :=
  valueReference_imported A B S n imp vr hlocal himp hmod hdef

/-- imported, the sibling found **by object identifier** — the name in the import may differ -/
theorem import_by_oid (A B : UModule) (S : List UModule) (n : String) (imp : Import)
    (vr : UValueReference) (o : Oid)
    (hlocal : A.valueReferences.find? (fun v => v.name == n) = none)
    (himp : A.imports.find? (fun i => i.what.any (· == n)) = some imp)
    (hB : B ∈ S) (ho1 : B.oid = some o) (ho2 : imp.fromOid = some o)
    (hfirst : ∀ c ∈ S, importMatches imp c = true → c = B)
    (hdef : B.valueReferences.find? (fun v => v.name == n) = some vr) :
    (Scope.mk A S).valueReference n = .ok (some vr) := by
  have hm : importMatches imp B = true := importMatches_oid imp B o ho1 ho2
  have hfind : S.find? (importMatches imp) = some B := by
    cases h : S.find? (importMatches imp) with
    | none =>
      rw [List.find?_eq_none] at h
      exact absurd hm (h B hB)
    | some c =>
      rw [hfirst c (List.mem_of_find?_eq_some h) (List.find?_some h)]
  exact valueReference_imported A B S n imp vr hlocal himp hfind hdef

/-! ### load order -/

/-- **load order**: any permutation `S'` of the loaded modules gives every module the same
    resolved model (or the same error) -/
theorem load_order (m : UModule) (S S' : List UModule) (hm : m ∈ S) (hp : S.Perm S')
    (hu : AllUnambiguous S) : Scope.tryResolve ⟨m, S'⟩ = Scope.tryResolve ⟨m, S⟩ :=
  tryResolve_perm m S S' hm hp hu

def load_order_full : Prop :=
  ∀ (m : UModule) (S S' : List UModule), m ∈ S → S.Perm S' →
    Scope.valueOf ⟨m, S'⟩ = Scope.valueOf ⟨m, S⟩

/-- `IMPORTS v FROM Xx { 2 2 }` with `Xx { 1 1 }` (v = 1) and `Yy { 2 2 }` (v = 2) loaded -/
def cexMain : UModule :=
  ⟨"Main", none, [⟨["v"], "Xx", some [.numberForm 2, .numberForm 2]⟩], [], []⟩
def cexX : UModule :=
  ⟨"Xx", some [.numberForm 1, .numberForm 1], [], [], [⟨"v", .integer ⟨none, none, false⟩ [], .integer 1⟩]⟩
def cexY : UModule :=
  ⟨"Yy", some [.numberForm 2, .numberForm 2], [], [], [⟨"v", .integer ⟨none, none, false⟩ [], .integer 2⟩]⟩

/-- the value found under `v` depends on the load order -/
theorem load_order_needs_unambiguous :
    Scope.valueOf ⟨cexMain, [cexMain, cexX, cexY]⟩ "v" = .ok (some (.integer 1)) ∧
    Scope.valueOf ⟨cexMain, [cexMain, cexY, cexX]⟩ "v" = .ok (some (.integer 2)) := by decide

theorem load_order_full_false : ¬ load_order_full := by
  intro h
  have h1 := h cexMain [cexMain, cexX, cexY] [cexMain, cexY, cexX] (by simp)
    (List.Perm.cons _ (List.Perm.swap _ _ _))
  have h2 := load_order_needs_unambiguous
  rw [congrFun h1 "v"] at h2
  rw [h2.2] at h2
  exact absurd h2.1 (by decide)

/-! ### unresolved and ill-typed references -/

theorem unresolved_Integer (sc : Scope) (n : String) (h : sc.valueReference n = .ok none) :
    sc.resolveInt (.ref n) = .error .failedToResolveReference :=
  resolveInt_unresolved sc n h

theorem unresolved_Size (sc : Scope) (n : String) (h : sc.valueReference n = .ok none) :
    sc.resolveSizeVal (.ref n) = .error .failedToResolveReference :=
  resolveSizeVal_unresolved sc n h

theorem unresolved_Default (sc : Scope) (n : String) (h : sc.valueReference n = .ok none) :
    sc.resolveConst (.ref n) = .error .failedToResolveReference :=
  resolveConst_unresolved sc n h

theorem illtyped_Integer (sc : Scope) (n : String) (vr : UValueReference)
    (h : sc.valueReference n = .ok (some vr)) (hv : vr.value.toInteger = none) :
    sc.resolveInt (.ref n) = .error .failedToParseLiteral :=
  resolveInt_illtyped sc n vr h hv

theorem illtyped_Size (sc : Scope) (n : String) (vr : UValueReference)
    (h : sc.valueReference n = .ok (some vr)) (hv : vr.value.toInteger = none) :
    sc.resolveSizeVal (.ref n) = .error .failedToParseLiteral :=
  resolveSizeVal_illtyped sc n vr h hv

/-- no definition in the module and no import that lists the name ⇒ nothing is found -/
theorem unresolved_when_not_in_reach (A : UModule) (S : List UModule) (n : String)
    (hlocal : A.valueReferences.find? (fun v => v.name == n) = none)
    (himp : A.imports.find? (fun i => i.what.any (· == n)) = none) :
    (Scope.mk A S).valueReference n = .ok none :=
  valueReference_none_no_import A S n hlocal himp

/-- the import points to a module that is not loaded ⇒ nothing is found -/
theorem unresolved_when_not_loaded (A : UModule) (S : List UModule) (n : String) (imp : Import)
    (hlocal : A.valueReferences.find? (fun v => v.name == n) = none)
    (himp : A.imports.find? (fun i => i.what.any (· == n)) = some imp)
    (hmod : S.find? (importMatches imp) = none) :
    (Scope.mk A S).valueReference n = .ok none :=
  valueReference_none_not_loaded A S n imp hlocal himp hmod

/-- never a silently substituted bound: what `resolve` returns for an INTEGER bound is the
    literal itself or the integer value found under the name -/
theorem resolved_Integer_sound (sc : Scope) (l : URange) (i : Int) (h : sc.resolveInt l = .ok i) :
    l = .lit i ∨ ∃ n vr, l = .ref n ∧ sc.valueReference n = .ok (some vr) ∧
      vr.value = .integer i := by
  cases l with
  | lit j =>
    left
    simp only [Scope.resolveInt, Except.ok.injEq] at h
    rw [h]
  | ref n =>
    right
    simp only [Scope.resolveInt] at h
    cases hv : sc.valueReference n with
    | error e => simp [hv] at h
    | ok o =>
      cases o with
      | none => simp [hv] at h
      | some vr =>
        refine ⟨n, vr, rfl, hv, ?_⟩
        cases hval : vr.value <;> simp [hv, hval, LiteralValue.toInteger] at h
        rw [h]

/-- … and for a SIZE bound the literal itself or the found integer, which is not negative -/
theorem resolved_Size_sound (sc : Scope) (l : USz) (k : Nat) (h : sc.resolveSizeVal l = .ok k) :
    l = .lit k ∨ ∃ n vr i, l = .ref n ∧ sc.valueReference n = .ok (some vr) ∧
      vr.value = .integer i ∧ 0 ≤ i ∧ k = i.toNat := by
  cases l with
  | lit j =>
    left
    simp only [Scope.resolveSizeVal, Except.ok.injEq] at h
    rw [h]
  | ref n =>
    right
    simp only [Scope.resolveSizeVal] at h
    cases hv : sc.valueReference n with
    | error e => simp [hv] at h
    | ok o =>
      cases o with
      | none => simp [hv] at h
      | some vr =>
        cases hval : vr.value <;> simp [hv, hval, LiteralValue.toInteger] at h
        rename_i i
        by_cases h0 : 0 ≤ i
        · rw [usizeTryFrom_nonneg i h0] at h
          simp only [Except.ok.injEq] at h
          exact ⟨n, vr, i, rfl, hv, hval, h0, h.symm⟩
        · rw [usizeTryFrom_neg i (by omega)] at h
          cases h

/-! ### negative SIZE bounds; cyclic imports (both repaired in the code) -/

/-- **a negative value under a SIZE bound is refused** (`usize::try_from`), with the error the
    literal text `SIZE(-1)` gets -/
theorem size_negative_rejected (sc : Scope) (n : String) (vr : UValueReference) (i : Int)
    (h : sc.valueReference n = .ok (some vr)) (hv : vr.value = .integer i) (hneg : i < 0) :
    sc.resolveSizeVal (.ref n) = .error .failedToResolveReference := by
  rw [resolveSizeVal_ref_found sc n vr i h hv, usizeTryFrom_neg i hneg]

/-- `n INTEGER ::= -1`, `A ::= OCTET STRING (SIZE(n))` (the witness of the former finding
    `resolve.size_negative_wraps`: it resolved to SIZE(2^64-1)) -/
def cexNeg : UModule :=
  ⟨"Neg", none, [], [⟨"A", none, .octetString (.fix (.ref "n") false)⟩],
    [⟨"n", .integer ⟨none, none, false⟩ [], .integer (-1)⟩]⟩

/-- the same module with the literal text `SIZE(-1)`: the parser reads `-1` as a name -/
def cexNegLit : UModule :=
  ⟨"Neg", none, [], [⟨"A", none, .octetString (.fix (.ref "-1") false)⟩],
    [⟨"n", .integer ⟨none, none, false⟩ [], .integer (-1)⟩]⟩

/-- the error class of a result (the models have no decidable equality; the classes do) -/
def errOf {α : Type} : FR α → Option FErr
  | .error e => some e
  | .ok _ => none

theorem size_negative_witness :
    Scope.resolveSizeVal ⟨cexNeg, [cexNeg]⟩ (.ref "n") = .error .failedToResolveReference ∧
    errOf (tryResolve cexNeg) = some .failedToResolveReference ∧
    errOf (tryResolve cexNegLit) = some .failedToResolveReference := by decide

/-- **a cyclic import is an unresolved reference**: a name that neither the module nor any
    loaded module defines is not found — however the imports are wired, in particular when they
    lead in a circle — and its use as a bound is `FailedToResolveReference` -/
theorem cyclic_import_rejected (A : UModule) (S : List UModule) (n : String)
    (hA : (A.valueReferences.find? fun vr => vr.name == n) = none)
    (hS : ∀ m ∈ S, (m.valueReferences.find? fun vr => vr.name == n) = none) :
    (Scope.mk A S).valueReference n = .ok none ∧
    (Scope.mk A S).resolveInt (.ref n) = .error .failedToResolveReference ∧
    (Scope.mk A S).resolveSizeVal (.ref n) = .error .failedToResolveReference ∧
    (Scope.mk A S).resolveConst (.ref n) = .error .failedToResolveReference := by
  have h : (Scope.mk A S).valueReference n = .ok none :=
    valueReference_none_of_undefined S n hS (chaseFuel S) A hA
  exact ⟨h, resolveInt_unresolved _ n h, resolveSizeVal_unresolved _ n h,
    resolveConst_unresolved _ n h⟩

/-- … likewise for a type name (`FailedToResolveType`) -/
theorem cyclic_import_rejected_type (A : UModule) (S : List UModule) (n : String)
    (hA : (A.definitions.find? fun d => d.name == n) = none)
    (hS : ∀ m ∈ S, (m.definitions.find? fun d => d.name == n) = none) :
    (Scope.mk A S).definition n = .ok none ∧
    errOf ((Scope.mk A S).resolveTypeRef n) = some .failedToResolveType := by
  have h : (Scope.mk A S).definition n = .ok none :=
    definition_none_of_undefined S n hS (chaseFuel S) A hA
  refine ⟨h, ?_⟩
  simp [Scope.resolveTypeRef, h, errOf]

/-- `IMPORTS ghost FROM Selfish;` inside `Selfish`, `A ::= INTEGER (0..ghost)` (the witness of
    the former finding `resolve.cyclic_import_overflow`: stack overflow) -/
def cexSelf : UModule :=
  ⟨"Selfish", none, [⟨["ghost"], "Selfish", none⟩],
    [⟨"A", none, .integer ⟨some (.lit 0), some (.ref "ghost"), false⟩ []⟩], []⟩

/-- `Ping` imports `ghost` from `Pong`, `Pong` imports it from `Ping`, nobody defines it -/
def cexPing : UModule :=
  ⟨"Ping", none, [⟨["ghost"], "Pong", none⟩],
    [⟨"A", none, .integer ⟨some (.lit 0), some (.ref "ghost"), false⟩ []⟩], []⟩
def cexPong : UModule :=
  ⟨"Pong", none, [⟨["ghost"], "Ping", none⟩], [⟨"B", none, .integer ⟨none, none, false⟩ []⟩], []⟩

/-- the chase of the self-import ends with "not found" for every budget, and the module is
    refused with `FailedToResolveReference` -/
theorem cyclic_import_self :
    (∀ k, valueReference k cexSelf [cexSelf] "ghost" = .ok none) ∧
    Scope.valueReference ⟨cexSelf, [cexSelf]⟩ "ghost" = .ok none ∧
    errOf (tryResolve cexSelf) = some .failedToResolveReference := by
  refine ⟨fun k => ?_, by rfl, by decide⟩
  exact valueReference_none_of_undefined [cexSelf] "ghost" (by decide) k cexSelf (by decide)

/-- the two-module cycle, in both load orders -/
theorem cyclic_import_pair :
    errOf (tryResolveAll [cexPing, cexPong]) = some .failedToResolveReference ∧
    errOf (tryResolveAll [cexPong, cexPing]) = some .failedToResolveReference := by decide

/-- **the import chase always comes back** — for every module, scope and name -/
theorem chase_total (A : UModule) (S : List UModule) (n : String) :
    ∃ r, (Scope.mk A S).valueReference n = .ok r :=
  valueReference_total S n (chaseFuel S) A

theorem chase_total_definition (A : UModule) (S : List UModule) (n : String) :
    ∃ r, (Scope.mk A S).definition n = .ok r :=
  definition_total S n (chaseFuel S) A

/-- **the bound does not cut an acyclic chase short**: when the imports followed for `n` are
    acyclic (a rank decreases along every step) and the rank of the start module is at most the
    number of loaded modules, every budget from `scope.len()` hops on gives the same answer -/
theorem chase_bound_not_observable (A : UModule) (S : List UModule) (n : String)
    (rank : UModule → Nat)
    (hdec : ∀ m ∈ A :: S, ∀ m', (m.valueReferences.find? fun vr => vr.name == n) = none →
      modelWithImportedItem m S n = some m' → rank m' < rank m)
    (hrank : rank A ≤ S.length) (k : Nat) (hk : chaseFuel S ≤ k) :
    valueReference k A S n = (Scope.mk A S).valueReference n :=
  valueReference_le_of_rank A S n rank hdec (chaseFuel S) k (by unfold chaseFuel; omega) hk

/-- **the hop bound of the repair is never observable**: every larger budget gives the same
    answer — for every module, scope and name, cyclic imports included (pigeonhole:
    `chase_fuel_irrelevant` in `Front/ResolveChaseLemmas.lean`) -/
theorem chase_bound_never_observable (A : UModule) (S : List UModule) (n : String) (k : Nat)
    (hk : chaseFuel S ≤ k) : valueReference k A S n = (Scope.mk A S).valueReference n :=
  valueReference_fuel_irrelevant A S n k hk

/-- … likewise for a type name -/
theorem chase_bound_never_observable_definition (A : UModule) (S : List UModule) (n : String)
    (k : Nat) (hk : chaseFuel S ≤ k) : definition k A S n = (Scope.mk A S).definition n :=
  definition_fuel_irrelevant A S n k hk

/-! ### non-vacuity -/

/-- `lo INTEGER ::= 3`, `hi INTEGER ::= 9`, `R ::= INTEGER (lo..hi, ...)`,
    `S ::= UTF8String (SIZE(lo..hi))`, `D ::= SEQUENCE { d INTEGER DEFAULT lo }` -/
def sample : UModule :=
  ⟨"Main", none, [],
    [⟨"R", none, .integer ⟨some (.ref "lo"), some (.ref "hi"), true⟩ []⟩,
     ⟨"S", none, .string (.range (.ref "lo") (.ref "hi") false) .utf8⟩,
     ⟨"D", none, .sequence (.cons "d" none (.integer ⟨none, none, false⟩ []) (some (.ref "lo")) .nil) none⟩],
    [⟨"lo", .integer ⟨none, none, false⟩ [], .integer 3⟩,
     ⟨"hi", .integer ⟨none, none, false⟩ [], .integer 9⟩]⟩

def sampleSigma : Sigma := fun n =>
  if n = "lo" then some (.integer 3) else if n = "hi" then some (.integer 9) else none

example : Agrees ⟨sample, [sample]⟩ sampleSigma := by
  intro n v h
  simp only [sampleSigma] at h
  split at h
  · rename_i hn; subst hn
    exact ⟨⟨"lo", .integer ⟨none, none, false⟩ [], .integer 3⟩, by rfl, by simpa using h⟩
  · split at h
    · rename_i hn; subst hn
      exact ⟨⟨"hi", .integer ⟨none, none, false⟩ [], .integer 9⟩, by rfl, by simpa using h⟩
    · cases h

example : SafeModule ⟨sample, [sample]⟩ sampleSigma sample := by
  constructor
  · intro v hv
    simp [sample] at hv
    rcases hv with rfl | rfl <;> simp [SafeTy]
  · intro d hd
    simp [sample] at hd
    rcases hd with rfl | rfl | rfl <;> simp [SafeTy, SafeFields, DefaultOk, DefaultSafe]

/-- the literal variant really is different text: the references are gone -/
example : (substModule sampleSigma sample).definitions.map (fun d => match d.ty with
    | .integer r _ => r.min == some (.lit 3) && r.max == some (.lit 9)
    | _ => true) = [true, true, true] := by decide

example : AllUnambiguous [cexX, cexY] := by
  intro m hm imp himp
  simp at hm
  rcases hm with rfl | rfl <;> simp [cexX, cexY] at himp

-- `size_negative_rejected`: the hypotheses hold for the witness
example : ∃ vr, Scope.valueReference ⟨cexNeg, [cexNeg]⟩ "n" = .ok (some vr) ∧
    vr.value = .integer (-1) ∧ (-1 : Int) < 0 :=
  ⟨⟨"n", .integer ⟨none, none, false⟩ [], .integer (-1)⟩, by rfl, rfl, by decide⟩
-- … while a non-negative value resolves as before
example : Scope.resolveSizeVal ⟨sample, [sample]⟩ (.ref "hi") = .ok 9 := by decide

-- `cyclic_import_rejected`: the hypotheses hold for the two-module cycle
example : (cexPing.valueReferences.find? fun vr => vr.name == "ghost") = none ∧
    ∀ m ∈ [cexPing, cexPong], (m.valueReferences.find? fun vr => vr.name == "ghost") = none := by
  decide

/-- `Top` imports `v` from `Mid`, `Mid` from `Leaf`, `Leaf` defines it -/
def chainTop : UModule := ⟨"Top", none, [⟨["v"], "Mid", none⟩], [], []⟩
def chainMid : UModule := ⟨"Mid", none, [⟨["v"], "Leaf", none⟩], [], []⟩
def chainLeaf : UModule :=
  ⟨"Leaf", none, [], [], [⟨"v", .integer ⟨none, none, false⟩ [], .integer 7⟩]⟩
def chainRank (m : UModule) : Nat :=
  if m.name = "Top" then 2 else if m.name = "Mid" then 1 else 0

-- `chase_bound_not_observable`: the hypotheses hold for the chain (all three modules loaded,
-- the rank of `Top` is 2 ≤ 3), and the value is found through two imports
example : (∀ m ∈ chainTop :: [chainLeaf, chainMid, chainTop], ∀ m',
      (m.valueReferences.find? fun vr => vr.name == "v") = none →
      modelWithImportedItem m [chainLeaf, chainMid, chainTop] "v" = some m' →
      chainRank m' < chainRank m) ∧ chainRank chainTop ≤ [chainLeaf, chainMid, chainTop].length := by
  refine ⟨?_, by decide⟩
  intro m hm m' hfind himp
  simp only [List.mem_cons, List.not_mem_nil, or_false] at hm
  rcases hm with rfl | rfl | rfl | rfl
  · have : m' = chainMid := by
      simpa [modelWithImportedItem, chainTop, chainMid, chainLeaf] using himp.symm
    subst this; decide
  · exact absurd hfind (by decide)
  · have : m' = chainLeaf := by
      simpa [modelWithImportedItem, chainTop, chainMid, chainLeaf] using himp.symm
    subst this; decide
  · have : m' = chainMid := by
      simpa [modelWithImportedItem, chainTop, chainMid, chainLeaf] using himp.symm
    subst this; decide
example : Scope.valueOf ⟨chainTop, [chainLeaf, chainMid, chainTop]⟩ "v" = .ok (some (.integer 7)) := by
  decide

/-- `Ra` imports `ghost` from `Rb`, `Rb` from `Rc`, `Rc` from `Ra`; nobody defines it.  `Rc` also
    defines `w`, which `Ra` imports from `Rb` and `Rb` from `Rc` -/
def ringA : UModule := ⟨"Ra", none, [⟨["ghost", "w"], "Rb", none⟩], [], []⟩
def ringB : UModule := ⟨"Rb", none, [⟨["ghost", "w"], "Rc", none⟩], [], []⟩
def ringC : UModule :=
  ⟨"Rc", none, [⟨["ghost"], "Ra", none⟩], [], [⟨"w", .integer ⟨none, none, false⟩ [], .integer 5⟩]⟩

-- `chase_bound_never_observable` on the three-module ring: a budget of 100 calls answers what
-- the repaired code (4 calls) answers — for the name that goes round the ring …
example : valueReference 100 ringA [ringA, ringB, ringC] "ghost" =
    Scope.valueReference ⟨ringA, [ringA, ringB, ringC]⟩ "ghost" :=
  chase_bound_never_observable ringA [ringA, ringB, ringC] "ghost" 100 (by decide)
-- … the ring really is one (three hops lead from `Ra` back to `Ra`), and the answer is "not found"
example : orbit (fun m => m.valueReferences.find? fun vr => vr.name == "ghost")
      [ringA, ringB, ringC] "ghost" 3 ringA = some ringA ∧
    Scope.valueOf ⟨ringA, [ringA, ringB, ringC]⟩ "ghost" = .ok none := ⟨by rfl, by decide⟩
-- … and for the name that is found two imports away in the same cyclic scope
example : valueReference 100 ringA [ringA, ringB, ringC] "w" =
      Scope.valueReference ⟨ringA, [ringA, ringB, ringC]⟩ "w" ∧
    Scope.valueOf ⟨ringA, [ringA, ringB, ringC]⟩ "w" = .ok (some (.integer 5)) :=
  ⟨chase_bound_never_observable ringA [ringA, ringB, ringC] "w" 100 (by decide), by decide⟩

/-- the bound is sharp: the module that asks need not be loaded itself, so `scope.len()` hops can
    all be needed — `Top` (not in the scope) finds `v` with exactly `chaseFuel` = 3 calls, and
    with one call fewer it would not -/
theorem chase_bound_sharp :
    chaseFuel [chainLeaf, chainMid] = 3 ∧
    Scope.valueOf ⟨chainTop, [chainLeaf, chainMid]⟩ "v" = .ok (some (.integer 7)) ∧
    (valueReference 2 chainTop [chainLeaf, chainMid] "v").toOption.map (·.map (·.value)) =
      some none := by decide

end Asn1Verif.Props.C12
