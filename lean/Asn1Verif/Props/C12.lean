import Asn1Verif.Front.ResolveAllLemmas
/-
  C12 — Value references and imports resolve exactly like the literals they name.

  Model: `Front/Resolve.lean` (mirror of `ResolveScope::{value_reference, definition,
  model_with_imported_item, try_resolve}`, the four `Resolver` impls, `Asn/Type/Size/Integer/
  ComponentTypeList/Choice::try_resolve`, `MultiModuleResolver::try_resolve_all`).
  Vocabulary in `Front/ResolveSubst.lean` (literal variant `substTy`/`substModule`, side
  conditions), lemmas in `Front/Resolve*Lemmas.lean`, `Front/ResolveNested.lean`.

  What is proved (all without bound on nesting, number of items or modules):
  * `subst_*`: in any scope, a value reference used in an INTEGER range (`subst_Integer`), a SIZE
    constraint (`subst_Size`) or after DEFAULT (`subst_Default`) resolves to the same thing as
    the literal it names; lifted to every nested type (`subst_Type`) and to whole modules
    (`subst`): the module with references and its literal variant resolve to the same
    `Model<Asn<Resolved>>`, for every scope of loaded sibling modules.  The table `σ` may cover
    any subset of the names.  Staging: one module without imports (`subst_single_module`), then
    names found through imports — by module name (`import_by_name`), by object identifier
    (`import_by_oid`), through any chain (the table only has to agree with what the scope finds:
    `Agrees`, which `agrees_sigmaOf` provides for the scope's own table).
  * `load_order`: permuting the list of loaded modules does not change the result of any module,
    provided no import matches two loaded modules (`AllUnambiguous`).  Without that proviso the
    statement is false for the code as it is: `load_order_needs_unambiguous`.
  * `unresolved_*`, `illtyped_*`: a name with no definition in reach ⇒ `FailedToResolveReference`;
    a name whose value is not an integer where an integer is needed ⇒ `FailedToParseLiteral`;
    `resolved_*_sound`: a successfully resolved bound is the literal itself or the integer found
    under the name — never anything else.
  * `cyclic_import_diverges`: the import chase of the real code has no visited set; on a module
    that imports an undefined name from itself the model's chase runs out of fuel (= unbounded
    recursion, stack overflow of the real resolver).

  Side conditions, all necessary for the code as it is, each with a counterexample:
  * SIZE bounds: a *negative* referenced value has no literal form (`SIZE(-1)` does not parse as a
    number); the reference is cast `as usize` — `size_negative_wraps`.  `substSizeAtom` therefore
    leaves such a reference alone.
  * DEFAULT names are looked up among the variants of a referenced ENUMERATED type first, so a
    table name must not clash with such a variant (`SafeTy`; the names are "fresh").

  `subst` keeps the scope `S` of siblings fixed; `subst_all` is the statement for
  `MultiModuleResolver::try_resolve_all` itself: *every* loaded module replaced by its literal
  variant (each with its own table) — the list of resolved models is the same.  Together with
  `load_order` this is the property's quantifier "for all schemas, all subsets of literals, same
  or sibling module with/without OID, all load orders".

  Fuel of the import chase (`scope.length + 1` steps): `chase_fuel_enough` — it comes back
  whenever the chase is acyclic, witnessed by a rank ≤ `scope.length` that decreases along every
  step; `chase_fuel_mono` — more fuel never changes a result; in the other direction
  `cyclic_import_diverges` shows the divergence for every amount of fuel.  (That a chase still
  running after `scope.length + 1` steps must have revisited a module — pigeonhole — is argued
  in the header of `Front/Resolve.lean`, not proved.)
-/
namespace Asn1Verif.Props.C12
open Asn1Verif Asn1Verif.Front.Syn

/-! ### a reference resolves like the literal it names -/

/-- INTEGER ranges -/
theorem subst_Integer (sc : Scope) (σ : Sigma) (ha : Agrees sc σ) (r : Range URange) :
    sc.resolveRange (substRange σ r) = sc.resolveRange r :=
  resolveRange_subst sc σ ha r

/-- SIZE constraints (including `reconsider_constraints` afterwards) -/
theorem subst_Size (sc : Scope) (σ : Sigma) (ha : Agrees sc σ) (h64 : SigmaI64 σ) (s : Size USz) :
    sc.resolveSize (substSize σ s) = sc.resolveSize s :=
  resolveSize_subst sc σ ha h64 s

/-- DEFAULT values on a component of (resolved) type `ty` -/
theorem subst_Default (sc : Scope) (σ : Sigma) (ha : Agrees sc σ) (ty : RTy) (uty : UTy)
    (hty : ∀ r tag, ty = .typeReference r tag → ∃ tag', uty = .typeReference r tag')
    (d : UConst) (hs : DefaultOk sc σ uty (some d)) :
    sc.resolveDefault ty (substDefault σ d) = sc.resolveDefault ty d :=
  resolveDefault_subst sc σ ha ty uty hty d hs

/-- every nested type -/
theorem subst_Type (sc : Scope) (σ : Sigma) (ha : Agrees sc σ) (h64 : SigmaI64 σ) (t : UTy)
    (hs : SafeTy sc σ t) : sc.resolveTy (substTy σ t) = sc.resolveTy t :=
  resolveTy_subst sc σ ha h64 t hs

/-- **subst**: module `A` with value references, loaded together with the modules `S`, resolves
    to the same model as its literal variant -/
theorem subst (σ : Sigma) (A : UModule) (S : List UModule) (ha : Agrees ⟨A, S⟩ σ)
    (h64 : SigmaI64 σ) (hs : SafeModule ⟨A, S⟩ σ A) :
    Scope.tryResolve ⟨substModule σ A, S⟩ = Scope.tryResolve ⟨A, S⟩ :=
  tryResolve_substModule σ A S ha h64 hs

/-- **subst** for `try_resolve_all`: all loaded modules `S` replaced by their literal variants
    (`τ m` = the table used for module `m`; it may cover any subset of the names `m` can see) -/
theorem subst_all (τ : UModule → Sigma) (S : List UModule)
    (hall : ∀ m ∈ S, Agrees ⟨m, S⟩ (τ m) ∧ SigmaI64 (τ m) ∧ SafeModule ⟨m, S⟩ (τ m) m) :
    tryResolveAll (S.map (substAllWith τ)) = tryResolveAll S :=
  tryResolveAll_substAll τ S hall

/-- the table a scope defines itself: every name it can find -/
def sigmaOf (sc : Scope) : Sigma := fun n =>
  match sc.valueReference n with
  | .ok (some vr) => some vr.value
  | _ => none

theorem agrees_sigmaOf (sc : Scope) : Agrees sc (sigmaOf sc) := by
  intro n v h
  simp only [sigmaOf] at h
  split at h
  · rename_i vr hvr
    exact ⟨vr, hvr, by simpa using h⟩
  · cases h

/-- stage 1: one module without imports, `Model::try_resolve` on both sides -/
theorem subst_single_module (σ : Sigma) (A : UModule) (hnoimp : A.imports = [])
    (ha : Agrees ⟨A, [A]⟩ σ) (h64 : SigmaI64 σ) (hs : SafeModule ⟨A, [A]⟩ σ A) :
    tryResolve (substModule σ A) = tryResolve A := by
  have h1 := tryResolve_substModule σ A [A] ha h64 hs
  -- the scope list is never consulted: no imports
  have hscope : ScopeEquiv ⟨substModule σ A, [A]⟩ ⟨substModule σ A, [substModule σ A]⟩ := by
    have himp : (substModule σ A).imports = [] := hnoimp
    constructor
    · intro n
      simp only [Scope.valueOf, Scope.valueReference, chaseFuel, List.length_cons, List.length_nil]
      rw [valueReference, valueReference]
      simp [modelWithImportedItem, himp]
    · intro n
      simp only [Scope.enumView, Scope.resolveTypeRef, Scope.definition, chaseFuel,
        List.length_cons, List.length_nil]
      rw [definition, definition]
      simp [modelWithImportedItem, himp]
  have h2 : Scope.tryResolve ⟨substModule σ A, [substModule σ A]⟩ =
      Scope.tryResolve ⟨substModule σ A, [A]⟩ := by
    simp only [Scope.tryResolve, resolveValueRefs_congr hscope, resolveDefinitions_congr hscope]
  simp only [tryResolve, h2, h1]

/-! ### where names are found -/

/-- a value reference of the module itself -/
theorem lookup_local (A : UModule) (S : List UModule) (n : String) (vr : UValueReference)
    (h : A.valueReferences.find? (fun v => v.name == n) = some vr) :
    (Scope.mk A S).valueReference n = .ok (some vr) :=
  valueReference_local A S n vr h

/-- imported, the sibling found **by name** -/
theorem import_by_name (A B : UModule) (S : List UModule) (n : String) (imp : Import)
    (vr : UValueReference)
    (hlocal : A.valueReferences.find? (fun v => v.name == n) = none)
    (himp : A.imports.find? (fun i => i.what.any (· == n)) = some imp)
    (hmod : S.find? (importMatches imp) = some B) (_hname : B.name = imp.«from»)
    (hdef : B.valueReferences.find? (fun v => v.name == n) = some vr) :
    (Scope.mk A S).valueReference n = .ok (some vr) :=
  valueReference_imported A B S n imp vr hlocal himp hmod hdef

/-- imported, the sibling found **by object identifier** — the name in the import may differ -/
theorem import_by_oid (A B : UModule) (S : List UModule) (n : String) (imp : Import)
    (vr : UValueReference) (o : Oid)
    (hlocal : A.valueReferences.find? (fun v => v.name == n) = none)
    (himp : A.imports.find? (fun i => i.what.any (· == n)) = some imp)
    (hB : B ∈ S) (ho1 : B.oid = some o) (ho2 : imp.fromOid = some o)
    (hfirst : ∀ c ∈ S, importMatches imp c = true → c = B)
    (hdef : B.valueReferences.find? (fun v => v.name == n) = some vr) :
    (Scope.mk A S).valueReference n = .ok (some vr) := by
  have hm : importMatches imp B = true := importMatches_oid imp B o ho1 ho2
  have hfind : S.find? (importMatches imp) = some B := by
    cases h : S.find? (importMatches imp) with
    | none =>
      rw [List.find?_eq_none] at h
      exact absurd hm (h B hB)
    | some c =>
      rw [hfirst c (List.mem_of_find?_eq_some h) (List.find?_some h)]
  exact valueReference_imported A B S n imp vr hlocal himp hfind hdef

/-! ### load order -/

/-- **load order**: any permutation `S'` of the loaded modules gives every module the same
    resolved model (or the same error) -/
theorem load_order (m : UModule) (S S' : List UModule) (hm : m ∈ S) (hp : S.Perm S')
    (hu : AllUnambiguous S) : Scope.tryResolve ⟨m, S'⟩ = Scope.tryResolve ⟨m, S⟩ :=
  tryResolve_perm m S S' hm hp hu

def load_order_full : Prop :=
  ∀ (m : UModule) (S S' : List UModule), m ∈ S → S.Perm S' →
    Scope.valueOf ⟨m, S'⟩ = Scope.valueOf ⟨m, S⟩

/-- `IMPORTS v FROM Xx { 2 2 }` with `Xx { 1 1 }` (v = 1) and `Yy { 2 2 }` (v = 2) loaded -/
def cexMain : UModule :=
  ⟨"Main", none, [⟨["v"], "Xx", some [.numberForm 2, .numberForm 2]⟩], [], []⟩
def cexX : UModule :=
  ⟨"Xx", some [.numberForm 1, .numberForm 1], [], [], [⟨"v", .integer ⟨none, none, false⟩ [], .integer 1⟩]⟩
def cexY : UModule :=
  ⟨"Yy", some [.numberForm 2, .numberForm 2], [], [], [⟨"v", .integer ⟨none, none, false⟩ [], .integer 2⟩]⟩

/-- the value found under `v` depends on the load order -/
theorem load_order_needs_unambiguous :
    Scope.valueOf ⟨cexMain, [cexMain, cexX, cexY]⟩ "v" = .ok (some (.integer 1)) ∧
    Scope.valueOf ⟨cexMain, [cexMain, cexY, cexX]⟩ "v" = .ok (some (.integer 2)) := by decide

theorem load_order_full_false : ¬ load_order_full := by
  intro h
  have h1 := h cexMain [cexMain, cexX, cexY] [cexMain, cexY, cexX] (by simp)
    (List.Perm.cons _ (List.Perm.swap _ _ _))
  have h2 := load_order_needs_unambiguous
  rw [congrFun h1 "v"] at h2
  rw [h2.2] at h2
  exact absurd h2.1 (by decide)

/-! ### unresolved and ill-typed references -/

theorem unresolved_Integer (sc : Scope) (n : String) (h : sc.valueReference n = .ok none) :
    sc.resolveInt (.ref n) = .error .failedToResolveReference :=
  resolveInt_unresolved sc n h

theorem unresolved_Size (sc : Scope) (n : String) (h : sc.valueReference n = .ok none) :
    sc.resolveSizeVal (.ref n) = .error .failedToResolveReference :=
  resolveSizeVal_unresolved sc n h

theorem unresolved_Default (sc : Scope) (n : String) (h : sc.valueReference n = .ok none) :
    sc.resolveConst (.ref n) = .error .failedToResolveReference :=
  resolveConst_unresolved sc n h

theorem illtyped_Integer (sc : Scope) (n : String) (vr : UValueReference)
    (h : sc.valueReference n = .ok (some vr)) (hv : vr.value.toInteger = none) :
    sc.resolveInt (.ref n) = .error .failedToParseLiteral :=
  resolveInt_illtyped sc n vr h hv

theorem illtyped_Size (sc : Scope) (n : String) (vr : UValueReference)
    (h : sc.valueReference n = .ok (some vr)) (hv : vr.value.toInteger = none) :
    sc.resolveSizeVal (.ref n) = .error .failedToParseLiteral :=
  resolveSizeVal_illtyped sc n vr h hv

/-- no definition in the module and no import that lists the name ⇒ nothing is found -/
theorem unresolved_when_not_in_reach (A : UModule) (S : List UModule) (n : String)
    (hlocal : A.valueReferences.find? (fun v => v.name == n) = none)
    (himp : A.imports.find? (fun i => i.what.any (· == n)) = none) :
    (Scope.mk A S).valueReference n = .ok none :=
  valueReference_none_no_import A S n hlocal himp

/-- the import points to a module that is not loaded ⇒ nothing is found -/
theorem unresolved_when_not_loaded (A : UModule) (S : List UModule) (n : String) (imp : Import)
    (hlocal : A.valueReferences.find? (fun v => v.name == n) = none)
    (himp : A.imports.find? (fun i => i.what.any (· == n)) = some imp)
    (hmod : S.find? (importMatches imp) = none) :
    (Scope.mk A S).valueReference n = .ok none :=
  valueReference_none_not_loaded A S n imp hlocal himp hmod

/-- never a silently substituted bound: what `resolve` returns for an INTEGER bound is the
    literal itself or the integer value found under the name -/
theorem resolved_Integer_sound (sc : Scope) (l : URange) (i : Int) (h : sc.resolveInt l = .ok i) :
    l = .lit i ∨ ∃ n vr, l = .ref n ∧ sc.valueReference n = .ok (some vr) ∧
      vr.value = .integer i := by
  cases l with
  | lit j =>
    left
    simp only [Scope.resolveInt, Except.ok.injEq] at h
    rw [h]
  | ref n =>
    right
    simp only [Scope.resolveInt] at h
    cases hv : sc.valueReference n with
    | error e => simp [hv] at h
    | ok o =>
      cases o with
      | none => simp [hv] at h
      | some vr =>
        refine ⟨n, vr, rfl, hv, ?_⟩
        cases hval : vr.value <;> simp [hv, hval, LiteralValue.toInteger] at h
        rw [h]

/-- … and for a SIZE bound the literal itself or the found integer cast with `as usize` -/
theorem resolved_Size_sound (sc : Scope) (l : USz) (k : Nat) (h : sc.resolveSizeVal l = .ok k) :
    l = .lit k ∨ ∃ n vr i, l = .ref n ∧ sc.valueReference n = .ok (some vr) ∧
      vr.value = .integer i ∧ k = i64AsUsize i := by
  cases l with
  | lit j =>
    left
    simp only [Scope.resolveSizeVal, Except.ok.injEq] at h
    rw [h]
  | ref n =>
    right
    simp only [Scope.resolveSizeVal] at h
    cases hv : sc.valueReference n with
    | error e => simp [hv] at h
    | ok o =>
      cases o with
      | none => simp [hv] at h
      | some vr =>
        cases hval : vr.value <;> simp [hv, hval, LiteralValue.toInteger] at h
        rename_i i
        exact ⟨n, vr, i, rfl, hv, hval, h.symm⟩

/-! ### side conditions are needed; the cyclic import -/

/-- `n INTEGER ::= -1`, `SIZE(n)`: the reference resolves to 2^64-1; there is no literal variant -/
def cexNeg : UModule :=
  ⟨"Neg", none, [], [⟨"A", none, .octetString (.fix (.ref "n") false)⟩],
    [⟨"n", .integer ⟨none, none, false⟩ [], .integer (-1)⟩]⟩

theorem size_negative_wraps :
    Scope.resolveSizeVal ⟨cexNeg, [cexNeg]⟩ (.ref "n") = .ok 18446744073709551615 := by decide

/-- `IMPORTS ghost FROM Selfish;` inside `Selfish`, `A ::= INTEGER (0..ghost)` -/
def cexSelf : UModule :=
  ⟨"Selfish", none, [⟨["ghost"], "Selfish", none⟩],
    [⟨"A", none, .integer ⟨some (.lit 0), some (.ref "ghost"), false⟩ []⟩], []⟩

/-- the chase never ends (the real resolver overflows its stack) -/
theorem cyclic_import_diverges :
    Scope.valueReference ⟨cexSelf, [cexSelf]⟩ "ghost" = .error .fuel ∧
    (∀ fuel, valueReference fuel cexSelf [cexSelf] "ghost" = .error .fuel) := by
  refine ⟨by rfl, ?_⟩
  intro fuel
  induction fuel with
  | zero => rfl
  | succ f ih =>
    rw [valueReference]
    have h1 : cexSelf.valueReferences.find? (fun vr => vr.name == "ghost") = none := by decide
    have h2 : modelWithImportedItem cexSelf [cexSelf] "ghost" = some cexSelf := by
      simp [modelWithImportedItem, cexSelf]
    rw [h1, h2]
    exact ih

/-- more fuel never changes a chase that came back -/
theorem chase_fuel_mono (S : List UModule) (n : String) (m : UModule)
    (r : Option UValueReference) (f f' : Nat) (hle : f ≤ f')
    (h : valueReference f m S n = .ok r) : valueReference f' m S n = .ok r :=
  valueReference_fuel_le S n m r f f' hle h

/-- the supplied fuel is enough when the imports followed for `n` are acyclic -/
theorem chase_fuel_enough (A : UModule) (S : List UModule) (n : String) (rank : UModule → Nat)
    (hdec : ∀ m m', (m.valueReferences.find? fun vr => vr.name == n) = none →
      modelWithImportedItem m S n = some m' → rank m' < rank m)
    (hrank : rank A ≤ S.length) : ∃ r, (Scope.mk A S).valueReference n = .ok r :=
  valueReference_of_rank S n rank hdec (S.length + 1) A (by omega)

/-! ### non-vacuity -/

/-- `lo INTEGER ::= 3`, `hi INTEGER ::= 9`, `R ::= INTEGER (lo..hi, ...)`,
    `S ::= UTF8String (SIZE(lo..hi))`, `D ::= SEQUENCE { d INTEGER DEFAULT lo }` -/
def sample : UModule :=
  ⟨"Main", none, [],
    [⟨"R", none, .integer ⟨some (.ref "lo"), some (.ref "hi"), true⟩ []⟩,
     ⟨"S", none, .string (.range (.ref "lo") (.ref "hi") false) .utf8⟩,
     ⟨"D", none, .sequence (.cons "d" none (.integer ⟨none, none, false⟩ []) (some (.ref "lo")) .nil) none⟩],
    [⟨"lo", .integer ⟨none, none, false⟩ [], .integer 3⟩,
     ⟨"hi", .integer ⟨none, none, false⟩ [], .integer 9⟩]⟩

def sampleSigma : Sigma := fun n =>
  if n = "lo" then some (.integer 3) else if n = "hi" then some (.integer 9) else none

example : Agrees ⟨sample, [sample]⟩ sampleSigma := by
  intro n v h
  simp only [sampleSigma] at h
  split at h
  · rename_i hn; subst hn
    exact ⟨⟨"lo", .integer ⟨none, none, false⟩ [], .integer 3⟩, by rfl, by simpa using h⟩
  · split at h
    · rename_i hn; subst hn
      exact ⟨⟨"hi", .integer ⟨none, none, false⟩ [], .integer 9⟩, by rfl, by simpa using h⟩
    · cases h

example : SigmaI64 sampleSigma := by
  intro n i h
  simp only [sampleSigma] at h
  split at h
  · injection h with h; injection h with h; omega
  · split at h
    · injection h with h; injection h with h; omega
    · cases h

example : SafeModule ⟨sample, [sample]⟩ sampleSigma sample := by
  constructor
  · intro v hv
    simp [sample] at hv
    rcases hv with rfl | rfl <;> simp [SafeTy]
  · intro d hd
    simp [sample] at hd
    rcases hd with rfl | rfl | rfl <;> simp [SafeTy, SafeFields, DefaultOk, DefaultSafe]

/-- the literal variant really is different text: the references are gone -/
example : (substModule sampleSigma sample).definitions.map (fun d => match d.ty with
    | .integer r _ => r.min == some (.lit 3) && r.max == some (.lit 9)
    | _ => true) = [true, true, true] := by decide

example : AllUnambiguous [cexX, cexY] := by
  intro m hm imp himp
  simp at hm
  rcases hm with rfl | rfl <;> simp [cexX, cexY] at himp

end Asn1Verif.Props.C12
