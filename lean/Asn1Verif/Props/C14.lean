import Asn1Verif.Props.C13
import Asn1Verif.Props.C12
import Asn1Verif.Front.TotalModule
import Asn1Verif.Front.TotalStable
import Asn1Verif.Front.TotalResolve
import Asn1Verif.Front.TotalFront
import Asn1Verif.Codegen.TagsLemmas
/-
  C14 — The front end is total: malformed text gives an error, not a panic or hang.

  "For every input string, tokenizing, parsing, resolving and converting to the Rust and protobuf
  models terminates with either a model or an error value carrying the offending token; the only
  sanctioned panic is the documented one for an unterminated block comment."

  Models (mirrors of asn1rs-model, defects included):
    Front/Tokenizer*.lean   `Tokenizer::parse`                       (property C13)
    Front/Parser*.lean      `Model::try_from` and every `read_*` / `TryFrom<&mut Peekable<_>>`
    Front/Resolve.lean      `ResolveScope::try_resolve`, the import chase
    Front/TotalFront.lean   `bridge`, `frontEnd` = tokenizer ∘ bridge ∘ parser ∘ resolver
    Codegen/Tags.lean       `TagResolver` (the only non-structural recursion of `to_rust`; C16)
  Lemmas: Front/Total{Base,Leaf,Lit,Type,Module,Stable,Resolve}.lean.

  What is proved, stage by stage.

  1. TOKENIZER — full.  `tokenizer_panics_iff`: `tokenize s = panic ↔ PanicCond s` (the documented
     unterminated-block-comment panic, stated exactly as the code implements it);
     `tokenizer_never_err`, `tokenizer_total`.  (C13's theorems, re-exported.)

  2. PARSER — full, for EVERY token list (arbitrary garbage, not only printed modules).
     The Rust parser is a recursive descent with no recursion budget.  The mirror gives every
     loop iteration / recursive call one unit of `fuel` and answers the pseudo error `fuel` when
     the budget `tokens.length + 1` is used up.  `parser_terminates`: that never happens.  The
     proof is the termination argument of the Rust code made explicit: for every function
     `f fuel ts` of `Front/Parser.lean` (all 19 budgeted ones; the unbudgeted ones likewise)

         ts.length < fuel  ⊢  f fuel ts ≠ error fuel  ∧  (f fuel ts = ok (_, rest) → rest.length ≤ ts.length)

     (`Post`, Front/TotalBase.lean), by induction on the budget: every recursive call is made on
     the rest left by at least one consuming primitive (`nextOrErr`, `nextSepEq`, …, whose posts
     are exact: `rest.length + 1 = ts.length`).  Re-exported per construct below
     (`type_parser_terminates`, `choice_parser_terminates`, …).  No construct is excluded.
     `parser_total`: every token list is mapped to a model or to one of the 15 `ErrorKind`
     classes (13 of them carry the offending token in the real code, `parse::Error::token()`;
     `MissingModuleName` and `UnexpectedEndOfStream` have no token to carry).
     `parser_budget_irrelevant`: every budget above the number of tokens gives the same answer —
     the budget is a device of the mirror, not an observable (Front/TotalStable.lean).
     Recursion DEPTH is a different matter: see finding `front.nesting_depth` below.

  3. COMPOSITION — `front_end_total`: for every text outside `PanicCond`, tokenize, `bridge`,
     parse: a model or an error class, never `fuel`; `front_end_panics_iff`.

  4. RESOLVER — full.  `ResolveScope::try_resolve` is a structural walk over the module plus the
     import chase of `value_reference` / `definition`, which follows at most `scope.len()` imports
     (repaired code; before, it had no bound and `IMPORTS ghost FROM Selfish;` inside `Selfish`
     overflowed the stack — former finding front.cyclic_reference (b)).  `resolver_total`: every
     chase comes back, for every module, scope and name (the full statement `ResolverTotal`, no
     acyclicity hypothesis; = C12 `chase_total`).  `resolve_total`, `resolve_single_module_total`,
     `resolve_all_total`: `try_resolve` / `Model::try_resolve` / `try_resolve_all` answer with a
     model or one of the three classes of `resolve::Error`, never with the pseudo error.
     `resolve_cyclic_import_is_error`: the former witness is now `FailedToResolveReference`.
     `front_end_resolve_total` composes 1–4: outside the documented panic the composed function
     answers with a resolved model or an error class of the parser or the resolver.

  5. CONVERSION — full for the only non-structural recursion.  `convert_asn_to_rust` /
     `convert_rust_to_protobuf` are structural recursions over the resolved model (no budget
     needed, no panic site, see the table) except for `TagResolver::resolve_tag` /
     `resolve_type_tag`, which follow type references and keep a stack of the names being
     resolved (repaired code; before, `A ::= A` overflowed the stack in `to_rust` — former finding
     front.cyclic_reference (a) = F-C16-6).  `tag_resolver_total` (= C16 `resolver_total`): for
     every module, cyclic or not, the resolver answers within an explicit recursion bound; the
     full statement `TagResolverTotal` holds (`tag_resolver_total_full`);
     `tag_resolver_cycle_has_no_tag`: `A ::= A` has no tag.

  ──────────────────────────────────────────────────────────────────────────────────────────────
  PANIC SITES of the real front end (asn1rs-model/src, every `unwrap`/`expect`/index/slice/
  `panic!`/`unreachable!`/`debug_assert!`/overflow-checked arithmetic on the path
  Tokenizer::parse → Model::try_from → try_resolve → to_rust → to_protobuf), and why each cannot
  fire — or the request that makes it fire.  "guard" = a local fact established a few lines
  before; the fuzz stream (tools/checks/c14.py) is the check for those.

  file:line                        site                                   verdict
  parse/tokenizer.rs:41            panic!("unclosed comment blocks")      FIRES — the sanctioned panic; exactly `PanicCond`
                                                                          (`tokenizer_panics_iff`); e.g. `parse fuzz 2f2a2078` (`/* x`)
  parse/tokenizer.rs:27            nest_lvl -= 1 (i32)                    guard: inside `if nest_lvl > 0`
  parse/tokenizer.rs:33,60         nest_lvl += 1 (i32)                    needs 2^31 unclosed `/*` (≥ 4 GiB of text); modelled as panic
                                                                          in `PanicCond`, not exercisable
  parse/tokenizer.rs               line_count - 1                         guard: evaluated inside the loop over `asn.lines()` (count ≥ 1); the count
                                                                          is taken once before the loop (was: once per comment line, quadratic)
  parse/tokenizer.rs:70,77         line_0 + 1, column_0 + 1 (usize)       bounded by the text length
  parse/tokenizer.rs:89            c as u8                                cast, cannot panic
  asn/peekable.rs:88,103,116,130   debug_assert!(token …)                 guard: the token just peeked is the token taken (`peek` then `next`)
  asn/peekable.rs:90               unreachable!()                         guard: `peeked.text().is_some()` on the same token
  asn/model.rs:227                 token.text().unwrap_or_default()       not a panic (`unwrap_or_default`)
  asn/model.rs:232,243,250         column + chars().count() (usize)       bounded by the line length
  asn/model.rs:239,246             prev_loc.column()..loc.column()        a reversed range is empty (token on a later line), no panic
  asn/model.rs:457-458             name.len() - to_remove.len(); truncate guard: `name.ends_with(to_remove)`; the suffix is ASCII, so the
                                                                          cut is on a char boundary
  asn/mod.rs:312                   slice[1..slice.len() - 1]              would panic for the 1-byte string `"`; unreachable: `read_string_literal`
                                                                          always returns both delimiters (≥ 2 bytes) and a text token never
                                                                          contains `"` (separator character)
  asn/mod.rs:325,348               slice[1..slice.len() - 2]              would panic for `'h` / `'b`; unreachable: `read_hex_or_bit_string_literal`
                                                                          returns `'` … `'` + suffix (≥ 3 bytes); a text token never contains `'`
  asn/mod.rs:331,337               hex[..offset], hex[p..p + 2]           guard: `hex.chars().all(is_ascii_hexdigit)` (ASCII ⇒ char boundaries),
                                                                          `p + 2 ≤ len` by `offset + 2·(len/2) = len`
  asn/mod.rs:332,337               u8::from_str_radix(..).ok()?           `?` on Option, no panic
  asn/mod.rs:349                   (bits.len() + 7) / 8                   bounded by the text length
  asn/mod.rs:353                   vec.len() - 1 - (i / 8)                guard: `i < bits.chars().count() ≤ bits.len()`, so `i/8 ≤ vec.len() - 1`
  asn/mod.rs:354-355               2u8.pow(i % 8); vec[..] += value       exponent ≤ 7; every bit position is added once, sum ≤ 255
  asn/enumerated.rs:87             variants.len() - 1                     guard: `variants.is_empty()` returns the error first (line 80)
  asn/choice.rs:84                 variants.len() - 1                     guard: `variants.is_empty()` returns the error first (line 77)
  asn/components.rs:35             field_len.saturating_sub(1)            saturating (the `Some(0)` for a leading marker is finding F-C16-2, not a panic)
  asn/inner_type_constraints.rs:86 level += 1 (usize)                     bounded by the number of tokens
  asn/inner_type_constraints.rs:87 level -= 1 (usize)                     guard: the loop condition `!(level == 0 && peek == ')')` — a `)` taken
                                                                          inside the loop has `level ≥ 1` (mirrored by `valueConstraint`)
  asn/size.rs:63,108,132           i64::MAX as usize                      constant cast
  asn/size.rs:97,103,131           start.unwrap_or_default()              not a panic
  asn/integer.rs:52,60 size.rs:89,116 tag.rs:99 enumerated.rs:103 asn/model.rs:73,77,493,498
                                   str::parse::<i64|u64|usize>()          returns `Err` on overflow (`99999999999999999999999`,
                                                                          `-9223372036854775809`): the text becomes a *reference* name
                                                                          (ranges, sizes) or an error class (tags, enum numbers, constants)
  asn/resolve_scope.rs (Resolver<usize>)  usize::try_from(value)          returns `Err` for a negative value (C12 `size_negative_rejected`), no panic
  asn/resolve_scope.rs  value_reference_within / definition_within        recursion bounded by `hops` (≤ `scope.len()`), `hops.checked_sub(1)?` is
                                                                          an `Option`, no panic (`resolver_total`); was: unbounded recursion on an
                                                                          import cycle, repaired
  asn/tag_resolver.rs   resolve_tag_visiting / resolve_type_tag_visiting  recursion bounded by the stack `visiting` (one entry per definition) and
                                                                          the nesting of the type (`tag_resolver_total`); was: unbounded recursion on
                                                                          a reference cycle (`A ::= A`), repaired
  asn/tag_resolver.rs              extension_after + 1                    `extension_after < variants.len()`
  asn/model.rs:292-325 (+ choice.rs:89, components.rs:43, asn/model.rs:359,371)
                                   read_role_given_text ↔ Choice/ComponentTypeList/read_field
                                                                          RECURSION DEPTH = nesting depth of the text, no limit: a text with
                                                                          ≈ 5000 nested `SEQUENCE {` (65 KB) overflows the 8 MiB main-thread stack
                                                                          → process abort: FIRES, finding front.nesting_depth
  rust.rs:970                      (min + 1).abs()  (i64)                 guard: `min < 0` in this branch, so `min + 1 ∈ [i64::MIN + 1, 0]`
  rust.rs:960-963,972-975          min as u8 … max as i32                 casts
  rust.rs:1160                     panic!("Invalid string literal")       `as_rust_const_literal_expect` is called by the code generator only, not by `to_rust`
  protobuf.rs:54                   panic!("ProtobufType::OneOf …")        `ProtobufType::to_rust` is not called by `to_protobuf`
  parse/error.rs:34                Backtrace::new()                       not a panic (captures a backtrace for every error value)
-/
namespace Asn1Verif.Props.C14
open Asn1Verif Asn1Verif.Front Outcome

/-! ### 1. tokenizer (re-export of C13) -/

/-- the documented panic condition: the text ends inside a block comment and the last character
    of its last line is neither `*` nor `/` (or the nesting depth would exceed `i32::MAX`) -/
abbrev PanicCond := C13.PanicCond

/-- **The tokenizer panics exactly under `PanicCond`.** -/
theorem tokenizer_panics_iff (s : List Char) : tokenize s = panic ↔ PanicCond s :=
  C13.tokenize_panics_iff s

/-- the tokenizer has no error path -/
theorem tokenizer_never_err (s : List Char) (k : ErrKind) : tokenize s ≠ err k :=
  C13.tokenize_never_err s k

/-- **… and otherwise returns tokens.** -/
theorem tokenizer_total (s : List Char) (h : ¬ PanicCond s) : ∃ ts, tokenize s = ok ts :=
  C13.tokenize_total s h

/-! ### 2. parser: terminates on every token list -/

/-- **The parser terminates.**  For every token list — arbitrary garbage — the recursion budget
    `tokens.length + 1` of the mirror is never exhausted: the recursive descent, which in Rust has
    no budget at all, ends because every recursive step consumes at least one token. -/
theorem parser_terminates (ts : List Syn.Token) : Syn.parseModule ts ≠ .error .fuel :=
  Syn.parseModule_ne_fuel ts

/-- **The parser is total**: a model, or one of the error classes of `parse::ErrorKind`. -/
theorem parser_total (ts : List Syn.Token) :
    (∃ m, Syn.parseModule ts = .ok m) ∨ (∃ e, e ≠ .fuel ∧ Syn.parseModule ts = .error e) := by
  cases h : Syn.parseModule ts with
  | ok m => exact Or.inl ⟨m, rfl⟩
  | error e => exact Or.inr ⟨e, fun he => parser_terminates ts (he ▸ h), rfl⟩

/-- any budget above the number of tokens is enough (the `+ 1` of `parseModule` is the least) -/
theorem parser_terminates_any_budget (fuel : Nat) (ts : List Syn.Token) (h : ts.length < fuel) :
    Syn.parseModuleFuel fuel ts ≠ .error .fuel :=
  (Syn.parseModuleFuel_post fuel ts h).ne_fuel

/-- **The budget is not observable**: every budget above the number of tokens yields the answer
    of `parseModule` (so `parseModule` is the budget-free meaning of the mirror, and the theorems of
    C07 about `parseModule` do not depend on the particular `tokens.length + 1`) -/
theorem parser_budget_irrelevant (fuel : Nat) (ts : List Syn.Token) (h : ts.length < fuel) :
    Syn.parseModuleFuel fuel ts = Syn.parseModule ts :=
  Syn.parseModuleFuel_eq_parseModule fuel ts h

/-- the invariant behind it, for the nesting constructs (`read_role_given_text`, the loops of
    `Choice::try_from` and `ComponentTypeList::try_from` incl. `read_field`): with a budget above
    the number of tokens the call neither runs out nor hands back more input than it got -/
theorem type_parser_terminates (fuel : Nat) (text : String) (ts : List Syn.Token)
    (h : ts.length < fuel) :
    Syn.parseRoleGiven fuel text ts ≠ .error .fuel ∧
      ∀ ty rest, Syn.parseRoleGiven fuel text ts = .ok (ty, rest) → rest.length ≤ ts.length :=
  ⟨(Syn.parseRoleGiven_post fuel text ts h).ne_fuel,
   fun _ _ hr => (Syn.parseRoleGiven_post fuel text ts h).of_ok hr⟩

theorem choice_parser_terminates (fuel n : Nat) (ext : Bool) (ts : List Syn.Token)
    (h : ts.length < fuel) :
    Syn.choiceLoop fuel n ext ts ≠ .error .fuel ∧
      ∀ r rest, Syn.choiceLoop fuel n ext ts = .ok (r, rest) → rest.length ≤ ts.length :=
  ⟨(Syn.choiceLoop_post fuel n ext ts h).ne_fuel,
   fun _ _ hr => (Syn.choiceLoop_post fuel n ext ts h).of_ok hr⟩

theorem components_parser_terminates (fuel n : Nat) (ts : List Syn.Token) (h : ts.length < fuel) :
    Syn.componentLoop fuel n ts ≠ .error .fuel ∧
      ∀ r rest, Syn.componentLoop fuel n ts = .ok (r, rest) → rest.length ≤ ts.length :=
  ⟨(Syn.componentLoop_post fuel n ts h).ne_fuel,
   fun _ _ hr => (Syn.componentLoop_post fuel n ts h).of_ok hr⟩

/-- the loops that do not nest: named numbers, ENUMERATED, WITH COMPONENTS, object identifiers,
    IMPORTS, the module body -/
theorem flat_loops_terminate (fuel : Nat) (ts : List Syn.Token) (h : ts.length < fuel) :
    Syn.constantsLoop Syn.constantI64 fuel ts ≠ .error .fuel ∧
    Syn.constantsLoop Syn.constantU64 fuel ts ≠ .error .fuel ∧
    (∀ n ext, Syn.enumLoop fuel n ext ts ≠ .error .fuel) ∧
    Syn.innerEntries fuel ts ≠ .error .fuel ∧
    Syn.oidLoop fuel ts ≠ .error .fuel ∧
    (∀ what, Syn.importsLoop fuel what ts ≠ .error .fuel) ∧
    Syn.bodyLoop fuel ts ≠ .error .fuel :=
  ⟨(Syn.constantsLoop_post _ Syn.constantI64_post fuel ts h).ne_fuel,
   (Syn.constantsLoop_post _ Syn.constantU64_post fuel ts h).ne_fuel,
   fun n ext => (Syn.enumLoop_post fuel n ext ts h).ne_fuel,
   (Syn.innerEntries_post fuel ts h).ne_fuel,
   (Syn.oidLoop_post fuel ts h).ne_fuel,
   fun what => (Syn.importsLoop_post fuel what ts h).ne_fuel,
   (Syn.bodyLoop_post fuel ts h).ne_fuel⟩

/-! ### 3. composition: text → tokens → model or error class -/

/-- **The front end up to the parsed model is total** outside the documented panic: the text is
    tokenized, the tokens are handed over by `bridge`, and the parser answers with a model or an
    error class — never with the exhausted budget. -/
theorem front_end_total (s : List Char) (h : ¬ PanicCond s) :
    ∃ ts, tokenize s = ok ts ∧
      ((∃ m, Syn.parseModule (ts.map bridge) = .ok m) ∨
       (∃ e, e ≠ .fuel ∧ Syn.parseModule (ts.map bridge) = .error e)) := by
  obtain ⟨ts, hts⟩ := tokenizer_total s h
  exact ⟨ts, hts, parser_total _⟩

/-- the composed function panics exactly under `PanicCond` and has no `err` outcome of its own -/
theorem front_end_panics_iff (s : List Char) : frontEnd s = panic ↔ PanicCond s := by
  rw [← tokenizer_panics_iff]
  unfold frontEnd
  cases hs : tokenize s with
  | ok ts => constructor <;> intro h <;> cases h
  | err k => exact absurd hs (tokenizer_never_err s k)
  | panic => exact ⟨fun _ => rfl, fun _ => rfl⟩

theorem parseResolve_parse_error (ts : List Syn.Token) (e : Syn.FErr)
    (h : parseResolve ts = .error (.parse, e)) : Syn.parseModule ts = .error e := by
  unfold parseResolve at h
  cases hp : Syn.parseModule ts with
  | error e' => simp only [hp] at h; cases h; rfl
  | ok m =>
    simp only [hp] at h
    cases hr : Syn.tryResolve m with
    | error e' => simp only [hr] at h; cases h
    | ok r => simp only [hr] at h; cases h

theorem parseResolve_resolve_error (ts : List Syn.Token) (e : Syn.FErr)
    (h : parseResolve ts = .error (.resolve, e)) :
    ∃ m, Syn.parseModule ts = .ok m ∧ Syn.tryResolve m = .error e := by
  unfold parseResolve at h
  cases hp : Syn.parseModule ts with
  | error e' => simp only [hp] at h; cases h
  | ok m =>
    simp only [hp] at h
    cases hr : Syn.tryResolve m with
    | error e' => simp only [hr] at h; cases h; exact ⟨m, rfl, hr⟩
    | ok r => simp only [hr] at h; cases h

/-- a parse-stage verdict of the composed function is never the exhausted budget -/
theorem front_end_parse_error_ne_fuel (s : List Char) (e : Syn.FErr)
    (h : frontEnd s = ok (.error (.parse, e))) : e ≠ .fuel := by
  unfold frontEnd at h
  cases hs : tokenize s with
  | err k => rw [hs] at h; cases h
  | panic => rw [hs] at h; cases h
  | ok ts =>
    rw [hs] at h
    have h' : parseResolve (ts.map bridge) = .error (.parse, e) := by
      have : (ok (parseResolve (ts.map bridge)) : Outcome _) = ok (.error (.parse, e)) := h
      exact Outcome.ok.inj this
    intro he
    exact parser_terminates _ (he ▸ parseResolve_parse_error _ _ h')

/-! ### 4. resolver: total -/

/-- **The import chase always comes back** — the full statement, for every module, scope and
    name; no hypothesis on the imports (cycles included) -/
def ResolverTotal : Prop :=
  ∀ (A : Syn.UModule) (S : List Syn.UModule) (n : String),
    ∃ r, (Syn.Scope.mk A S).valueReference n = .ok r

theorem resolver_total : ResolverTotal :=
  fun A S n => C12.chase_total A S n

/-- … likewise the chase for a type name -/
theorem resolver_total_definition (A : Syn.UModule) (S : List Syn.UModule) (n : String) :
    ∃ r, (Syn.Scope.mk A S).definition n = .ok r :=
  C12.chase_total_definition A S n

/-- **`ResolveScope::try_resolve` is total**: for every module in every scope a resolved model or
    an error class of `resolve::Error`, never the pseudo error of the mirror -/
theorem resolve_total (sc : Syn.Scope) : sc.tryResolve ≠ .error .fuel :=
  Syn.Scope.tryResolve_ne_fuel sc

/-- `Model::try_resolve` (the scope is the module itself) — every module, self-imports included -/
theorem resolve_single_module_total (m : Syn.UModule) : Syn.tryResolve m ≠ .error .fuel :=
  Syn.tryResolve_ne_fuel m

/-- `MultiModuleResolver::try_resolve_all` — every list of modules, import cycles included -/
theorem resolve_all_total (ms : List Syn.UModule) : Syn.tryResolveAll ms ≠ .error .fuel :=
  Syn.tryResolveAll_ne_fuel ms

/-- the witness of the former finding (`IMPORTS ghost FROM Selfish;` inside `Selfish`: the real
    resolver overflowed its stack) is refused with `FailedToResolveReference` -/
theorem resolve_cyclic_import_is_error :
    C12.errOf (Syn.tryResolve C12.cexSelf) = some .failedToResolveReference :=
  C12.cyclic_import_self.2.2

/-- **Text to resolved model**: outside the documented panic the composed function answers with
    a resolved model or with an error class of the parser or of the resolver — never with the
    exhausted budget of the mirror, at no stage. -/
theorem front_end_resolve_total (s : List Char) (h : ¬ PanicCond s) :
    ∃ r, frontEnd s = ok r ∧ ∀ st, r ≠ .error (st, .fuel) := by
  obtain ⟨ts, hts⟩ := tokenizer_total s h
  refine ⟨parseResolve (ts.map bridge), by unfold frontEnd; rw [hts]; rfl, ?_⟩
  intro st hst
  cases st with
  | parse => exact absurd (parseResolve_parse_error _ _ hst) (parser_terminates _)
  | resolve =>
    obtain ⟨m, _, hr⟩ := parseResolve_resolve_error _ _ hst
    exact resolve_single_module_total m hr

/-! ### 5. conversion: `TagResolver` is total -/

open Asn1Verif.Codegen.Tags in
/-- **`TagResolver` answers for every module** (C16 `resolver_total`): reference cycles included,
    within the explicit recursion bound
    `depth t + (definitions not on the stack) · (deepest definition + 1)` -/
theorem tag_resolver_total (env : Env) (fuel : Nat) (vis : List String) (t : Ty)
    (hf : fuelBound env vis t ≤ fuel) : ∃ x, resolveTypeTag env fuel vis t = some x :=
  resolveTypeTag_total env fuel vis t hf

open Asn1Verif.Codegen.Tags in
/-- the full statement: the tag of every type is found with some finite amount of recursion -/
def TagResolverTotal : Prop :=
  ∀ (env : Env) (t : Ty), ∃ fuel x, resolveTypeTag env fuel [] t = some x

open Asn1Verif.Codegen.Tags in
theorem tag_resolver_total_full : TagResolverTotal :=
  fun env t => ⟨defaultFuel env t, defaultFuel_sufficient env t⟩

open Asn1Verif.Codegen.Tags in
/-- `A ::= A` -/
def envSelf : Env := [{ name := "A", tag := none, ty := .ref "A" }]

open Asn1Verif.Codegen.Tags in
/-- the witness of the former finding (`A ::= A`: `to_rust` overflowed the stack) has no tag —
    for every amount of fuel from 2 on -/
theorem tag_resolver_cycle_has_no_tag (fuel : Nat) :
    resolveTypeTag envSelf (fuel + 2) [] (.ref "A") = some none := by
  have hl : envSelf.lookup "A" = some { name := "A", tag := none, ty := .ref "A" } := rfl
  rw [resolveTypeTag]
  simp only [List.contains_nil, Bool.false_eq_true, if_false, hl]
  exact resolveTypeTag_visiting envSelf fuel ["A"] "A" (by simp)

open Asn1Verif.Codegen.Tags in
/-- the conversion pipeline of C16 (stage 1 + stage 2 on the item under test) always answers -/
theorem conversion_terminates (env : Env) (o : EncodingOrdering) (c : Components) :
    ∃ r, emit env o c = some r :=
  emit_isSome env o c

/-! ### non-vacuity -/

/-- the error class of a result (the models have no decidable equality; the classes do) -/
def errOf {α : Type} : Syn.FR α → Option Syn.FErr
  | .error e => some e
  | .ok _ => none

/-- the verdict of the composed function on a text: `panic`, `ok none` (a resolved model) or
    `ok (some (stage, class))` -/
def verdict (s : String) : Outcome (Option (Stage × Syn.FErr)) :=
  (fun r => match r with | .error e => some e | .ok _ => none) <$> frontEnd s.toList

/-- garbage is mapped to error classes … -/
example : errOf (Syn.parseModule []) = some .missingModuleName := by decide
example : errOf (Syn.parseModule [.sep '{', .text "END"]) = some .missingModuleName := by decide
example : errOf (Syn.parseModule [.text "M", .text "BEGIN"]) = some .unexpectedEndOfStream := by
  decide
example : errOf (Syn.parseModule [.text "M", .sep '{', .sep '{']) = some .unexpectedToken := by
  decide
example : errOf (Syn.parseModule [.text "M", .text "BEGIN", .text "A", .sep ':', .sep ':', .sep '=',
    .text "SEQUENCE", .sep '{', .text "a", .text "CHOICE", .sep '{', .sep '.', .sep '.', .sep '.']) =
    some .invalidPositionForExtensionMarker := by decide
example : errOf (Syn.parseModule [.text "M", .text "BEGIN", .text "A", .sep ':', .sep ':', .sep '=',
    .text "INTEGER", .sep '{', .text "a", .sep '(', .text "99999999999999999999999", .sep ')',
    .sep '}', .text "END"]) = some .invalidValueForConstant := by decide
example : errOf (Syn.parseModule [.text "M", .text "BEGIN", .text "A", .sep ':', .sep ':', .sep '=',
    .sep '[', .text "-9223372036854775809", .sep ']', .text "BOOLEAN", .text "END"]) =
    some .invalidTag := by decide
/-- … and a deep nest of unclosed constructs ends with `eof`, not with the budget -/
example : errOf (Syn.parseModule
    ([.text "M", .text "BEGIN", .text "A", .sep ':', .sep ':', .sep '='] ++
      (List.replicate 12 [Syn.Token.text "SEQUENCE", .sep '{', .text "a"]).flatten)) =
    some .unexpectedEndOfStream := by decide
/-- … while a well-formed module is a model -/
example : errOf (Syn.parseModule [.text "M", .text "BEGIN", .text "A", .sep ':', .sep ':', .sep '=',
    .text "SEQUENCE", .text "OF", .text "SET", .sep '{', .text "a", .text "A", .text "OPTIONAL",
    .sep '}', .text "END"]) = none := by decide
/-- the budget pays for nesting depth, not for length: `A ::= SEQUENCE OF SEQUENCE OF SEQUENCE OF
    INTEGER` (14 tokens, budget 15) needs 5 units -/
example :
    let ts : List Syn.Token := [.text "M", .text "BEGIN", .text "A", .sep ':', .sep ':', .sep '=',
      .text "SEQUENCE", .text "OF", .text "SEQUENCE", .text "OF", .text "SEQUENCE", .text "OF",
      .text "INTEGER", .text "END"]
    errOf (Syn.parseModuleFuel 4 ts) = some .fuel ∧ errOf (Syn.parseModuleFuel 5 ts) = none ∧
      errOf (Syn.parseModule ts) = none := by decide

/-- `bridge` on the tokens of a text -/
example : (fun ts => ts.map bridge) <$> tokenize "A ::= {".toList =
    ok [.text "A", .sep ':', .sep ':', .sep '=', .sep '{'] := by decide +kernel
/-- the composed function on texts: the panic, an error class, a model -/
example : verdict "M BEGIN /* x" = panic := by decide +kernel
example : ¬ PanicCond "M BEGIN A ::= }".toList ∧
    verdict "M BEGIN A ::= }" = ok (some (.parse, .unexpectedToken)) := by decide +kernel
example : verdict "M DEFINITIONS ::= BEGIN A ::= INTEGER (0..7) END" = ok none := by
  decide +kernel
/-- the self-import, from its text: an unresolved reference (was: stack overflow) -/
example : ¬ PanicCond "S DEFINITIONS ::= BEGIN IMPORTS g FROM S; A ::= INTEGER (0..g) END".toList ∧
    verdict "S DEFINITIONS ::= BEGIN IMPORTS g FROM S; A ::= INTEGER (0..g) END" =
    ok (some (.resolve, .failedToResolveReference)) := by decide +kernel
/-- … and a self-import of a name the module does define resolves -/
example : verdict "S DEFINITIONS ::= BEGIN IMPORTS g FROM S; g INTEGER ::= 7 A ::= INTEGER (0..g) END" =
    ok none := by decide +kernel

open Asn1Verif.Codegen.Tags in
/-- `A ::= B`, `B ::= CHOICE { x INTEGER, y C }`, `C ::= BOOLEAN` -/
def envOk : Env :=
  [{ name := "A", tag := none, ty := .ref "B" },
   { name := "B", tag := none, ty := .choice [(none, .builtin .integer), (none, .ref "C")] none },
   { name := "C", tag := none, ty := .builtin .boolean }]
open Asn1Verif.Codegen.Tags in
/-- `tag_resolver_total`: the bound for `A` in `envOk` is 10; the resolver finds BOOLEAN's tag -/
example : fuelBound envOk [] (.ref "A") ≤ 10 ∧
    resolveTypeTag envOk 10 [] (.ref "A") = some (some (Tag.universal 1)) := by decide
open Asn1Verif.Codegen.Tags in
/-- the cyclic witnesses of the former finding, evaluated: `A ::= A`; `A ::= B`, `B ::= A`;
    `A ::= CHOICE { x INTEGER, y CHOICE { z A } }` — no tag, no divergence -/
example :
    resolveTypeTag envSelf (defaultFuel envSelf (.ref "A")) [] (.ref "A") = some none ∧
    resolveTypeTag [{ name := "A", tag := none, ty := .ref "B" },
                    { name := "B", tag := none, ty := .ref "A" }] 8 [] (.ref "A") = some none ∧
    resolveTypeTag [{ name := "A", tag := none,
                      ty := .choice [(none, .builtin .integer),
                                     (none, .choice [(none, .ref "A")] none)] none }]
      8 [] (.ref "A") = some none := by decide

end Asn1Verif.Props.C14
