import Asn1Verif.Bits.BufferLemmas
/-
  C11 — Bit-level buffer operations equal a naive bit-vector model.

  Property theorems only; helper lemmas live in `Bits/SliceLemmas.lean`, `Bits/BufferLemmas.lean`.
  Models: `Bits/Slice.lean` (mirror of slice.rs), `Bits/Buffer.lean` (mirror of buffer.rs).
  `getBit bs i` is the naive model: bit `i` (MSB first) of the byte list.
-/
namespace Asn1Verif.Props.C11
open Asn1Verif Asn1Verif.Bits Outcome

/-- Writing `len` bits from any bit offset `sp` of `src` to any bit position `dp` of `dst`
    (the function behind every `write_bits*`/`read_bits*`): when both are long enough the result
    has the same length, exactly the `len` destination bits equal the source bits, and every other
    bit is unchanged.  No bound on any size. -/
theorem copy_spec (src : List Byte) (sp : Nat) (dst : List Byte) (dp len : Nat)
    (hd : dp + len ≤ dst.length * 8) (hs : sp + len ≤ src.length * 8) :
    ∃ dst', bitStringCopyBulked src sp dst dp len = ok dst' ∧ dst'.length = dst.length ∧
      ∀ j, getBit dst' j =
        if dp ≤ j ∧ j < dp + len then getBit src (sp + (j - dp)) else getBit dst j := by
  rw [bitStringCopyBulked_eq]
  obtain ⟨h1, h2, h3⟩ := bitStringCopy_ok src sp dst dp len hd hs
  exact ⟨_, h1, h2, h3⟩

/-- … and fails with an error (never a panic, never a partial success) otherwise:
    destination too short ⇒ `InsufficientSpaceInDestinationBuffer`, else source too short ⇒
    `InsufficientDataInSourceBuffer`. -/
theorem copy_err_iff (src : List Byte) (sp : Nat) (dst : List Byte) (dp len : Nat) :
    (dst.length * 8 < dp + len → bitStringCopyBulked src sp dst dp len = err .insufficientSpace) ∧
    (dp + len ≤ dst.length * 8 → src.length * 8 < sp + len →
        bitStringCopyBulked src sp dst dp len = err .endOfStream) := by
  rw [bitStringCopyBulked_eq]
  exact ⟨bitStringCopy_err_space src sp dst dp len, bitStringCopy_err_data src sp dst dp len⟩

/-- the optimised (head / whole bytes / tail) copy is extensionally the bit-by-bit copy -/
theorem bulked_eq_simple : bitStringCopyBulked = bitStringCopy := by
  funext src sp dst dp len; exact bitStringCopyBulked_eq src sp dst dp len

theorem copy_never_panics (src : List Byte) (sp : Nat) (dst : List Byte) (dp len : Nat) :
    bitStringCopyBulked src sp dst dp len ≠ .panic := by
  rw [bitStringCopyBulked_eq]; unfold bitStringCopy
  split; · simp
  split <;> simp

/-- slice writer `(&mut [u8], &mut usize)`: one bit -/
theorem slice_write_bit (bs : List Byte) (pos : Nat) (x : Bool) :
    (pos < bs.length * 8 → sliceWriteBit bs pos x = ok (setBit bs pos x, pos + 1) ∧
        ∀ j, getBit (setBit bs pos x) j = if j = pos then x else getBit bs j) ∧
    (bs.length * 8 ≤ pos → sliceWriteBit bs pos x = err .endOfStream) := by
  unfold sliceWriteBit; rw [byte_len_eq]
  constructor
  · intro h
    have : ¬ (pos + 1 > bs.length * 8) := by omega
    exact ⟨by simp [this], fun j => getBit_setBit bs pos j x h⟩
  · intro h
    have : pos + 1 > bs.length * 8 := by omega
    simp [this]

/-- slice reader `(&[u8], &mut usize)`: one bit; at or past the end it is an error -/
theorem slice_read_bit (bs : List Byte) (pos : Nat) :
    sliceReadBit bs pos =
      if pos < bs.length * 8 then ok (getBit bs pos, pos + 1) else err .endOfStream := by
  unfold sliceReadBit; rw [byte_len_eq]
  by_cases h : pos < bs.length * 8
  · have : ¬ (pos ≥ bs.length * 8) := by omega
    simp [h, this]
  · have : pos ≥ bs.length * 8 := by omega
    simp [h, this]

/-- slice writer and slice reader agree on where bit `pos` lives: whatever one `write_bit`
    stored at any in-range position is what `read_bit` returns from there, both cursors end at
    `pos + 1`, and a read anywhere else sees the old bit. -/
theorem slice_write_then_read_bit (bs : List Byte) (pos : Nat) (x : Bool)
    (h : pos < bs.length * 8) :
    ∃ bs', sliceWriteBit bs pos x = ok (bs', pos + 1) ∧ bs'.length = bs.length ∧
      sliceReadBit bs' pos = ok (x, pos + 1) ∧
      ∀ j, j ≠ pos → j < bs.length * 8 → sliceReadBit bs' j = ok (getBit bs j, j + 1) := by
  obtain ⟨hw, hg⟩ := (slice_write_bit bs pos x).1 h
  refine ⟨setBit bs pos x, hw, length_setBit bs pos x, ?_, ?_⟩
  · rw [slice_read_bit, length_setBit, if_pos h, hg pos, if_pos rfl]
  · intro j hj hjl
    rw [slice_read_bit, length_setBit, if_pos hjl, hg j, if_neg hj]

/-- multi-bit write through the slice writer: cursor advances by exactly `len` -/
theorem slice_write_bits (bs : List Byte) (pos : Nat) (src : List Byte) (off len : Nat)
    (hd : pos + len ≤ bs.length * 8) (hs : off + len ≤ src.length * 8) :
    ∃ bs', sliceWriteBitsWithOffsetLen bs pos src off len = ok (bs', pos + len) ∧
      CopySpec src off bs pos len bs' := by
  unfold sliceWriteBitsWithOffsetLen
  rw [bitStringCopyBulked_eq]
  obtain ⟨h1, h2⟩ := bitStringCopy_ok src off bs pos len hd hs
  rw [h1]; exact ⟨_, rfl, h2⟩

/-- reading is the mirror image -/
theorem slice_read_bits (bs : List Byte) (pos : Nat) (dst : List Byte) (off len : Nat)
    (hd : off + len ≤ dst.length * 8) (hs : pos + len ≤ bs.length * 8) :
    ∃ dst', sliceReadBitsWithOffsetLen bs pos dst off len = ok (dst', pos + len) ∧
      CopySpec bs pos dst off len dst' := by
  unfold sliceReadBitsWithOffsetLen
  rw [bitStringCopyBulked_eq]
  obtain ⟨h1, h2⟩ := bitStringCopy_ok bs pos dst off len hd hs
  rw [h1]; exact ⟨_, rfl, h2⟩

/-! ### the growable buffer: invariant over arbitrary operation sequences -/

inductive WOp where
  | bit (x : Bool)
  | bits (src : List Byte) (off len : Nat)

def WOp.run (b : BitBuffer) : WOp → Outcome BitBuffer
  | .bit x => b.writeBit x
  | .bits src off len => b.writeBitsWithOffsetLen src off len

def WOp.bitsWritten : WOp → List Bool
  | .bit x => [x]
  | .bits src off len => bitsOf src off len

def WOp.Valid : WOp → Prop
  | .bit _ => True
  | .bits src off len => off + len ≤ src.length * 8

def runOps (b : BitBuffer) : List WOp → Outcome BitBuffer
  | [] => ok b
  | op :: ops => op.run b >>= fun b' => runOps b' ops

/-- one step: a valid write succeeds, keeps the invariant (exactly ⌈bit_len/8⌉ bytes, zero
    padding), appends exactly the written bits and leaves the read cursor alone -/
theorem step_inv (b : BitBuffer) (op : WOp) (h : b.Inv) (hv : op.Valid) :
    ∃ b', op.run b = ok b' ∧ b'.Inv ∧ b'.abs = b.abs ++ op.bitsWritten ∧ b'.rp = b.rp := by
  cases op with
  | bit x => exact BitBuffer.writeBit_abs b x h
  | bits src off len => exact BitBuffer.writeBitsWithOffsetLen_abs b src off len h hv

/-- an invalid write (source too short) is an error, not a panic -/
theorem step_invalid (b : BitBuffer) (op : WOp) (h : b.Inv) (hv : ¬ op.Valid) :
    op.run b = err .endOfStream := by
  cases op with
  | bit x => exact absurd trivial hv
  | bits src off len =>
    exact BitBuffer.writeBitsWithOffsetLen_err b src off len (by simp [WOp.Valid] at hv; omega)

/-- every reachable state: any sequence of valid writes starting from the empty buffer (or any
    state satisfying the invariant) -/
theorem ops_inv (b : BitBuffer) (ops : List WOp) (h : b.Inv) (hv : ∀ op ∈ ops, op.Valid) :
    ∃ b', runOps b ops = ok b' ∧ b'.Inv ∧
      b'.abs = b.abs ++ (ops.map WOp.bitsWritten).flatten ∧ b'.rp = b.rp := by
  induction ops generalizing b with
  | nil => exact ⟨b, rfl, h, by simp, rfl⟩
  | cons op ops ih =>
    obtain ⟨b1, h1, h2, h3, h4⟩ := step_inv b op h (hv op (by simp))
    obtain ⟨b2, g1, g2, g3, g4⟩ := ih b1 h2 (fun o ho => hv o (by simp [ho]))
    refine ⟨b2, ?_, g2, ?_, by rw [g4, h4]⟩
    · simp [runOps, h1, g1]
    · rw [g3, h3]; simp

/-- no operation sequence whatsoever makes the buffer panic -/
theorem ops_never_panic (b : BitBuffer) (ops : List WOp) (h : b.Inv) : runOps b ops ≠ .panic := by
  induction ops generalizing b with
  | nil => simp [runOps]
  | cons op ops ih =>
    by_cases hv : op.Valid
    · obtain ⟨b1, h1, h2, _, _⟩ := step_inv b op h hv
      simp only [runOps, h1, Outcome.bind_ok]; exact ih b1 h2
    · simp [runOps, step_invalid b op h hv]

theorem bit_len_advances (b : BitBuffer) (src : List Byte) (off len : Nat) (h : b.Inv)
    (hs : off + len ≤ src.length * 8) :
    ∃ b', b.writeBitsWithOffsetLen src off len = ok b' ∧ b'.wp = b.wp + len ∧
      b'.buffer.length = (b.wp + len + 7) / 8 := by
  obtain ⟨b', h1, h2, h3, _, _⟩ := BitBuffer.writeBitsWithOffsetLen_spec b src off len h hs
  exact ⟨b', h1, h3, by rw [h2.1, h3]⟩

/-- A write placed at a position inside the written bits (`with_write_position_at(p, |b| b.write_bits*(..))`)
    is the naive in-place update: it succeeds, the bits `p .. p + len` become the source bits, every other
    written bit, the bit length, the number of octets, the read cursor and the invariant stay as they were.
    (Placing a write so that it reaches beyond the written bits is outside the property; the model covers
    it and is compared there by the correspondence stream only.) -/
theorem placed_write (b : BitBuffer) (p : Nat) (src : List Byte) (off len : Nat) (h : b.Inv)
    (hs : off + len ≤ src.length * 8) (hp : p + len ≤ b.wp) :
    ∃ b', b.atPos p (fun b => b.writeBitsWithOffsetLen src off len) = ok b' ∧ b'.Inv ∧
      b'.wp = b.wp ∧ b'.rp = b.rp ∧ b'.buffer.length = b.buffer.length ∧
      b'.abs = b.abs.take p ++ bitsOf src off len ++ b.abs.drop (p + len) := by
  obtain ⟨b', h1, h2, h3, h4, h5, h6⟩ := BitBuffer.atPos_bits_spec b p src off len h hs hp
  refine ⟨b', h1, h2, h3, h4, h5, ?_⟩
  apply List.ext_getElem
  · simp [BitBuffer.abs, h3]; omega
  · intro i hi1 hi2
    have hi : i < b.wp := by simpa [BitBuffer.abs, h3] using hi1
    simp only [BitBuffer.abs] at *
    rw [getElem_bitsOf, h6]
    by_cases ha : i < p
    · rw [List.getElem_append_left (by simp; omega), List.getElem_append_left (by simp; omega)]
      simp [bitsOf]
      intro h7; omega
    · by_cases hb : i < p + len
      · rw [List.getElem_append_left (by simp; omega), List.getElem_append_right (by simp; omega)]
        simp only [List.length_take, length_bitsOf, getElem_bitsOf]
        rw [if_pos (by omega)]
        congr 1; omega
      · rw [List.getElem_append_right (by simp; omega)]
        simp only [List.length_append, List.length_take, length_bitsOf, List.getElem_drop,
          getElem_bitsOf]
        rw [if_neg (by omega)]
        congr 1; omega

/-- … in particular the single bit the crate itself patches (presence and extension bits): -/
theorem placed_bit (b : BitBuffer) (p : Nat) (x : Bool) (h : b.Inv) (hp : p < b.wp) :
    ∃ b', b.atPos p (fun b => b.writeBitsWithOffsetLen [if x then 0x80#8 else 0#8] 0 1) = ok b' ∧
      b'.Inv ∧ b'.wp = b.wp ∧ b'.abs = b.abs.set p x := by
  obtain ⟨b', h1, h2, h3, _, _, h6⟩ := placed_write b p [if x then 0x80#8 else 0#8] 0 1 h (by simp) (by omega)
  refine ⟨b', h1, h2, h3, ?_⟩
  rw [h6]
  have hx : bitsOf [if x then 0x80#8 else 0#8] 0 1 = [x] := by cases x <;> decide
  rw [hx]
  apply List.ext_getElem
  · simp [BitBuffer.abs]; omega
  · intro i hi1 hi2
    have hlen : b.abs.length = b.wp := by simp [BitBuffer.abs]
    rw [List.getElem_set]
    by_cases ha : i < p
    · rw [List.getElem_append_left (by simp; omega), List.getElem_append_left (by simp; omega)]
      simp [show p ≠ i by omega]
    · by_cases hb : i = p
      · subst hb
        rw [List.getElem_append_left (by simp; omega), List.getElem_append_right (by simp; omega)]
        simp [hlen]
      · rw [List.getElem_append_right (by simp; omega)]
        simp only [List.length_append, List.length_take, List.length_singleton, List.getElem_drop]
        simp only [show p ≠ i by omega, ite_false]
        congr 1; omega

/-- … and the call the crate itself makes, `with_write_position_at(p, |b| b.write_bit(x))` (the model's
    `patchBit`, which the scope machine of `Uper/Scope.lean` uses for every presence and extension bit):
    inside the written bits it sets exactly bit `p` -/
theorem patch_bit (b : BitBuffer) (p : Nat) (x : Bool) (h : b.Inv) (hp : p < b.wp) :
    ∃ b', b.patchBit p x = ok b' ∧ b'.Inv ∧ b'.wp = b.wp ∧ b'.rp = b.rp ∧
      b'.buffer.length = b.buffer.length ∧ b'.abs = b.abs.set p x := by
  obtain ⟨b', h1, h2, h3, h4, h5, h6⟩ := BitBuffer.patchBit_spec b p x h hp
  refine ⟨b', h1, h2, h3, h4, h5, ?_⟩
  apply List.ext_getElem
  · simp [BitBuffer.abs, h3]
  · intro i hi1 hi2
    simp only [BitBuffer.abs] at *
    rw [getElem_bitsOf, h6, List.getElem_set]
    by_cases hip : p = i
    · subst hip; simp
    · simp [hip, getElem_bitsOf]
      intro hi; exact absurd hi.symm hip

/-- reading back from the buffer: the mirror image, bounded by the *declared* length -/
theorem buffer_read (b : BitBuffer) (dst : List Byte) (off len : Nat) (h : b.Inv)
    (hrp : b.rp ≤ b.wp) (hd : off + len ≤ dst.length * 8) :
    (b.rp + len ≤ b.wp →
      ∃ dst', b.readBitsWithOffsetLen dst off len = ok (dst', { b with rp := b.rp + len }) ∧
        CopySpec b.buffer b.rp dst off len dst') ∧
    (b.wp < b.rp + len → b.readBitsWithOffsetLen dst off len = err .endOfStream) := by
  have hw : b.wp ≤ b.buffer.length * 8 := by rw [h.1]; omega
  exact ⟨fun hr => BitBuffer.readBitsWithOffsetLen_ok b dst off len hw hr hd,
         fun hr => BitBuffer.readBitsWithOffsetLen_eos b dst off len hrp hr⟩

/-- write then read through the buffer: from any state satisfying the invariant whose read cursor
    stands at the write cursor (the empty buffer, or one read to its end), a valid `write_bits*`
    of `len` bits followed by a `read_bits*` of `len` bits gives back exactly the bits written, and
    the buffer is again read to its end.  No bound on sizes or offsets. -/
theorem buffer_write_then_read (b : BitBuffer) (src dst : List Byte) (off len : Nat) (h : b.Inv)
    (hrp : b.rp = b.wp) (hs : off + len ≤ src.length * 8) (hd : len ≤ dst.length * 8) :
    ∃ b' dst' b'', b.writeBitsWithOffsetLen src off len = ok b' ∧
      b'.readBitsWithOffsetLen dst 0 len = ok (dst', b'') ∧
      bitsOf dst' 0 len = bitsOf src off len ∧ b''.rp = b''.wp ∧ b''.wp = b.wp + len := by
  obtain ⟨b', h1, h2, h3, h4⟩ := step_inv b (.bits src off len) h hs
  have hwp : b'.wp = b.wp + len := by
    have := congrArg List.length h3
    simpa [BitBuffer.abs, WOp.bitsWritten] using this
  obtain ⟨dst', g1, g2, g3⟩ := (buffer_read b' dst 0 len h2 (by omega) (by omega)).1 (by omega)
  refine ⟨b', dst', _, h1, g1, ?_, by simp; omega, by simp; omega⟩
  apply List.ext_getElem
  · simp
  · intro i hi1 hi2
    have hi : i < len := by simpa using hi1
    rw [getElem_bitsOf, getElem_bitsOf, g3]
    have hc : (0 ≤ 0 + i ∧ 0 + i < 0 + len) := by omega
    rw [if_pos hc]
    have e1 : getBit b'.buffer (b'.rp + (0 + i - 0)) = (b'.abs)[b.wp + i]'(by simp [BitBuffer.abs]; omega) := by
      simp only [BitBuffer.abs]; rw [getElem_bitsOf]; congr 1; omega
    rw [e1]
    simp only [h3, WOp.bitsWritten]
    rw [List.getElem_append_right (by simp [BitBuffer.abs])]
    simp [BitBuffer.abs, getElem_bitsOf]
/-- every history: after ANY sequence of valid writes (single bits and bit runs, any lengths and
    offsets) into a fresh buffer, one read of the total number of bits returns exactly the
    concatenation of everything written, in order, and leaves the buffer read to its end. -/
theorem ops_then_read_all (ops : List WOp) (dst : List Byte) (hv : ∀ op ∈ ops, op.Valid)
    (hd : ((ops.map WOp.bitsWritten).flatten).length ≤ dst.length * 8) :
    ∃ b' dst' b'', runOps {} ops = ok b' ∧
      b'.readBitsWithOffsetLen dst 0 ((ops.map WOp.bitsWritten).flatten).length = ok (dst', b'') ∧
      bitsOf dst' 0 ((ops.map WOp.bitsWritten).flatten).length = (ops.map WOp.bitsWritten).flatten ∧
      b''.rp = b''.wp := by
  obtain ⟨b', h1, h2, h3, h4⟩ := ops_inv {} ops BitBuffer.inv_default hv
  have habs0 : ({} : BitBuffer).abs = [] := by simp [BitBuffer.abs, bitsOf]
  rw [habs0, List.nil_append] at h3
  generalize hN : ((ops.map WOp.bitsWritten).flatten) = bits at *
  have hwp : b'.wp = bits.length := by
    have := congrArg List.length h3
    simpa [BitBuffer.abs] using this
  have hrp : b'.rp = 0 := by rw [h4]
  obtain ⟨dst', g1, g2, g3⟩ :=
    (buffer_read b' dst 0 bits.length h2 (by omega) (by omega)).1 (by omega)
  refine ⟨b', dst', _, h1, g1, ?_, by simp; omega⟩
  apply List.ext_getElem
  · simp
  · intro i hi1 hi2
    rw [getElem_bitsOf, g3]
    have hc : (0 ≤ 0 + i ∧ 0 + i < 0 + bits.length) := by omega
    rw [if_pos hc]
    have e1 : getBit b'.buffer (b'.rp + (0 + i - 0)) = (b'.abs)[i]'(by simp [BitBuffer.abs]; omega) := by
      simp only [BitBuffer.abs]; rw [getElem_bitsOf]; congr 1; omega
    rw [e1]
    simp only [h3]
/-- the read-only view `Bits`: same, bounded by its declared bit length, not by the slice -/
theorem bits_read (b : BitsView) (dst : List Byte) (off len : Nat) (h : b.Inv)
    (hd : off + len ≤ dst.length * 8) :
    (b.pos + len ≤ b.len →
      ∃ dst', b.readBitsWithOffsetLen dst off len = ok (dst', { b with pos := b.pos + len }) ∧
        CopySpec b.slice b.pos dst off len dst') ∧
    (b.len < b.pos + len → b.readBitsWithOffsetLen dst off len = err .endOfStream) :=
  ⟨fun hr => BitsView.readBitsWithOffsetLen_ok b dst off len h hr hd,
   fun hr => BitsView.readBitsWithOffsetLen_eos b dst off len h.2 hr⟩

theorem bits_read_bit (b : BitsView) (h : b.Inv) :
    b.readBit = if b.pos < b.len then ok (getBit b.slice b.pos, { b with pos := b.pos + 1 })
      else err .endOfStream := BitsView.readBit_spec b h

/-! ### non-vacuity: concrete instances satisfying the hypotheses -/

example : (3 : Nat) + 20 ≤ [0xff#8, 0xff#8, 0xff#8, 0xff#8, 0xff#8].length * 8 ∧
    0 + 20 ≤ [0#8, 0#8, 0#8, 0#8].length * 8 := by decide
example : bitStringCopyBulked [0#8, 0#8, 0#8, 0#8] 0 [0xff#8, 0xff#8, 0xff#8, 0xff#8, 0xff#8] 3 20
    = ok [0xe0#8, 0x00#8, 0x01#8, 0xff#8, 0xff#8] := by decide
example : (WOp.bits [0xAB#8, 0xCD#8] 3 9).Valid := by simp [WOp.Valid]
example : (BitsView.mk [0xAA#8, 0xBB#8] 0 12).Inv := by simp [BitsView.Inv]
example : (BitBuffer.mk [0xff#8, 0xf0#8] 12 0).patchBit 9 false = ok (BitBuffer.mk [0xff#8, 0xb0#8] 12 0) := by decide
-- `slice_write_then_read_bit`: bit 9 of a two-byte slice
example : (9 : Nat) < [0xff#8, 0xf0#8].length * 8 ∧
    sliceWriteBit [0xff#8, 0xf0#8] 9 false = ok ([0xff#8, 0xb0#8], 10) ∧
    sliceReadBit [0xff#8, 0xb0#8] 9 = ok (false, 10) := by decide
-- `buffer_write_then_read`: 9 bits from source offset 3 into a buffer holding 5 consumed bits
example : (BitBuffer.mk [0xa8#8] 5 5).Inv ∧ (3 : Nat) + 9 ≤ [0xAB#8, 0xCD#8].length * 8 ∧
    (9 : Nat) ≤ [0#8, 0#8].length * 8 := by
  refine ⟨⟨by decide, ?_⟩, by decide, by decide⟩
  intro j hj
  by_cases h8 : j < 8
  · have : j = 5 ∨ j = 6 ∨ j = 7 := by simp at hj; omega
    rcases this with rfl | rfl | rfl <;> decide
  · exact getBit_of_ge _ j (by simp; omega)
-- `ops_then_read_all`: a non-trivial history satisfying its hypotheses
example : (∀ op ∈ [WOp.bit true, WOp.bits [0xAB#8, 0xCD#8] 3 9, WOp.bit false], op.Valid) := by
  simp [WOp.Valid]
-- `placed_write`: a 12-bit buffer, 5 bits from source offset 2 placed at position 3
example : (BitBuffer.mk [0xff#8, 0xf0#8] 12 0).atPos 3 (fun b => b.writeBitsWithOffsetLen [0x00#8] 2 5)
    = ok (BitBuffer.mk [0xe0#8, 0xf0#8] 12 0) := by decide

end Asn1Verif.Props.C11
