import Asn1Verif.Per.GlueOct
import Asn1Verif.Props.C10
import Asn1Verif.Props.C11
/-
  Glue — the abstraction step between C11 (L0, bytes) and C10 (L1, bit lists), by theorems.
  (Not a numbered property: it strengthens the tie between C11 and C10.)

  `Per/Prim.lean` (L1) mirrors `src/protocol/per/unaligned/mod.rs` on the abstraction
      writers return the bits they append / readers consume from the front of the remaining input,
  with `natBits w v` standing for `write_bits_with_offset(&v.to_be_bytes(), 64 - w)`, `bytesBits`
  for `write_bits`, `rdNat w` for `read_bits_with_offset(&mut [0u8; 8], 64 - w)` + `from_be_bytes`.
  `Per/Concrete.lean` mirrors the *same* Rust functions directly on the L0 operations of
  `Bits/Buffer.lean` (`BitBuffer` for writing, `BitsView` = `Bits<'a>` for reading), with the same
  calls and arguments.  This file proves that the two mirrors agree:

    WRITE  `WriteRefines (Per.wF args) (Concrete.wF args)`: on every `BitBuffer` satisfying the
           C11 invariant the concrete writer succeeds iff the L1 writer does, appends exactly the
           L1 bits to `abs`, keeps the invariant and the read cursor; same error class otherwise;
           a panic iff the L1 model panics.
    READ   `ReadRefines (Per.rF args) (Concrete.rF args)`: on every `BitsView` satisfying its
           invariant the concrete reader returns the L1 value on `remaining v`, with the cursor at
           `len - rest.length` and `remaining` of the new view equal to the L1 rest; same error
           class otherwise; a panic iff the L1 model panics.

  Hypotheses: only the ranges of the Rust argument types (`Option<u64>` upper bound `≤ u64::MAX`,
  `i64` bounds inside `i64`, `std_variants ≤ u64::MAX`).  No bound on lengths: the OCTET STRING
  statements include the 16K fragment loops and `read_bytes_chunked` (strong induction).

  Lemmas: `Per/GlueBits.lean` (numbers ↔ bytes ↔ bits), `Per/GlueSign.lean` (sign extension by
  masks), `Per/GlueWrite.lean`, `Per/GlueRead.lean`, `Per/GlueOct.lean`.
-/
namespace Asn1Verif.Props.Glue
open Asn1Verif Asn1Verif.Bits Asn1Verif.Per Asn1Verif.Per.Glue Outcome

/-! ## 1. numbers ↔ bytes ↔ bits -/

/-- **key lemma, writing.** What `write_bits_with_offset(&v.to_be_bytes(), 64 - w)` appends, the
    low `w` bits of the 8 big-endian bytes, is `natBits w v` (most significant bit first).
    No range hypothesis on `v`: both sides only see the low 64 bits. -/
theorem to_be_bytes_low_bits (w v : Nat) (hw : w ≤ 64) :
    bitsOf (Concrete.toBeBytes v) (64 - w) w = natBits w v := bitsOf_toBeBytes w v hw

/-- `write_bits(&v.to_be_bytes()[8 - k ..])` appends the low `8k` bits -/
theorem to_be_bytes_tail (k v : Nat) (hk : k ≤ 8) :
    bytesBits ((Concrete.toBeBytes v).drop (8 - k)) = natBits (8 * k) v :=
  bytesBits_toBeBytes_drop k v hk

/-- a one-byte source, `write_bits_with_offset(&[m], 8 - w)` -/
theorem byte_low_bits (w m : Nat) (hw : w ≤ 8) :
    bitsOf [BitVec.ofNat 8 m] (8 - w) w = natBits w m := bitsOf_singleton w m hw

/-- the L1 notation for the bits of a byte slice is the L0 notation -/
theorem bytesBits_is_bitsOf (bytes : List Byte) :
    bytesBits bytes = bitsOf bytes 0 (8 * bytes.length) := bytesBits_eq_bitsOf bytes

/-- `from_be_bytes` is the big-endian value of the bits -/
theorem from_be_bytes_value (bytes : List Byte) :
    Concrete.fromBeBytes bytes = bitsToNat (bytesBits bytes) := (bitsToNat_bytesBits bytes).symm

theorem from_be_to_be (v : Nat) (h : v ≤ U64_MAX) :
    Concrete.fromBeBytes (Concrete.toBeBytes v) = v :=
  fromBeBytes_toBeBytes_of_lt (by rw [U64_MAX_eq] at h; omega)

/-- **key lemma, reading.** Copying `w` bits into a zeroed `n`-byte array at bit offset `8n - w`
    (what `read_bits_with_offset(&mut [0u8; n], 8n - w)` does, C11 `CopySpec`) and `from_be_bytes`
    give the value of the bits read. -/
theorem read_into_zeroed (src : List Byte) (sp n w : Nat) (dst' : List Byte) (hw : w ≤ 8 * n)
    (h : CopySpec src sp (Concrete.zeroBytes n) (8 * n - w) w dst') :
    Concrete.fromBeBytes dst' = bitsToNat (bitsOf src sp w) := fromBeBytes_of_copy hw h

/-- `i64::to_be_bytes` (bytes of the 64-bit two's complement pattern `BitVec.ofInt 64`) is
    `to_be_bytes` of `value as u64` -/
theorem i64_to_be_bytes (v : Int) :
    Concrete.toBeBytesI64 v = Concrete.toBeBytes (i64AsU64 v) := toBeBytesI64_eq v

/-- `i64::from_be_bytes` (`BitVec.toInt` of the pattern) is `u64::from_be_bytes(..) as i64` -/
theorem i64_from_be_bytes (bytes : List Byte) (h : bytes.length = 8) :
    Concrete.fromBeBytesI64 bytes = u64AsI64 (Concrete.fromBeBytes bytes) :=
  fromBeBytesI64_eq bytes (by have := fromBeBytes_lt bytes; rw [h] at this; exact this)

theorem i64_bytes_roundtrip (v : Int) (h1 : I64_MIN ≤ v) (h2 : v ≤ I64_MAX) :
    Concrete.fromBeBytesI64 (Concrete.toBeBytesI64 v) = v := fromBeBytesI64_toBeBytesI64 v h1 h2

/-- the sign extension of `read_2s_compliment_binary_integer` as coded (whole bytes `= 0xFF`, then
    `bytes[k] |= 0x80 >> i`): every bit in front of bit `off` is set, nothing else changes -/
theorem sign_extension_bits (dst : List Byte) (hlen : dst.length = 8) (off : Nat) (hoff : off < 64)
    (j : Nat) :
    getBit (Concrete.orLoop (Concrete.fillFF dst (off / 8)) (off / 8) (off % 8)) j =
      if j < off then true else getBit dst j := getBit_signExtend dst hlen off hoff j

/-- the probe `bytes[k] & (0x80 >> i) != 0` tests bit `i` of the byte -/
theorem sign_probe (x : Byte) (i : Nat) (hi : i < 8) :
    (x &&& (0x80#8 >>> i) ≠ 0#8) ↔ x.getMsbD i = true := byte_probe x i hi

example : (3 : Nat) ≤ 64 ∧ bitsOf (Concrete.toBeBytes 5) (64 - 3) 3 = [true, false, true] := by decide
example : Concrete.toBeBytesI64 (-2) =
    [0xff#8, 0xff#8, 0xff#8, 0xff#8, 0xff#8, 0xff#8, 0xff#8, 0xfe#8] := by decide
example : Concrete.fromBeBytesI64 [0xff#8, 0xff#8, 0xff#8, 0xff#8, 0xff#8, 0xff#8, 0xff#8, 0xfe#8]
    = -2 := by decide

/-! ## 2. the refinement statements -/

/-- WRITE: the concrete writer `c` (on a `BitBuffer`) refines the L1 writer result `m` -/
def WriteRefines (m : Outcome Bits) (c : BitBuffer → Outcome BitBuffer) : Prop :=
  ∀ b : BitBuffer, b.Inv →
    match m with
    | .ok bits => ∃ b', c b = ok b' ∧ b'.Inv ∧ b'.abs = b.abs ++ bits ∧ b'.rp = b.rp
    | .err k => c b = err k
    | .panic => c b = panic

/-- WRITE, for a writer that also returns a value (`write_length_determinant`) -/
def WriteRefinesV {α : Type} (m : Outcome (Bits × α)) (c : BitBuffer → Outcome (α × BitBuffer)) :
    Prop :=
  ∀ b : BitBuffer, b.Inv →
    match m with
    | .ok (bits, a) => ∃ b', c b = ok (a, b') ∧ b'.Inv ∧ b'.abs = b.abs ++ bits ∧ b'.rp = b.rp
    | .err k => c b = err k
    | .panic => c b = panic

/-- READ: the concrete reader `c` (on a `BitsView`) refines the L1 reader `m`.
    `remaining v` = bits `pos … len-1` of the slice. -/
def ReadRefines {α : Type} (m : Rd α) (c : BitsView → Outcome (α × BitsView)) : Prop :=
  ∀ v : BitsView, v.Inv →
    match m (remaining v) with
    | .ok (a, rest) =>
        c v = ok (a, { v with pos := v.len - rest.length }) ∧
        BitsView.Inv { v with pos := v.len - rest.length } ∧
        remaining { v with pos := v.len - rest.length } = rest
    | .err k => c v = err k
    | .panic => c v = panic

theorem remaining_def (v : BitsView) : remaining v = (bitsOf v.slice 0 v.len).drop v.pos := rfl

/-- `remaining` is the window `pos … len` of the slice -/
theorem remaining_window (v : BitsView) (h : v.Inv) :
    remaining v = bitsOf v.slice v.pos (v.len - v.pos) := by
  have := remaining_take v (v.len - v.pos) (by have := h.2; omega)
  rw [← this, List.take_of_length_le (by simp)]

/-! ### consequences in the usual form -/

theorem WriteRefines.ok {m : Outcome Bits} {c : BitBuffer → Outcome BitBuffer} {bits : Bits}
    (h : WriteRefines m c) (hm : m = .ok bits) (b : BitBuffer) (hb : b.Inv) :
    ∃ b', c b = .ok b' ∧ b'.Inv ∧ b'.abs = b.abs ++ bits ∧ b'.rp = b.rp := by
  have := h b hb; rw [hm] at this; exact this

theorem WriteRefines.err {m : Outcome Bits} {c : BitBuffer → Outcome BitBuffer} {k : ErrKind}
    (h : WriteRefines m c) (hm : m = .err k) (b : BitBuffer) (hb : b.Inv) : c b = .err k := by
  have := h b hb; rw [hm] at this; exact this

theorem ReadRefines.ok {α : Type} {m : Rd α} {c : BitsView → Outcome (α × BitsView)}
    (h : ReadRefines m c) (v : BitsView) (hv : v.Inv) {a : α} {rest : Bits}
    (hm : m (remaining v) = .ok (a, rest)) :
    c v = .ok (a, { v with pos := v.len - rest.length }) ∧
      remaining { v with pos := v.len - rest.length } = rest := by
  have := h v hv; rw [hm] at this; exact ⟨this.1, this.2.2⟩

theorem ReadRefines.err {α : Type} {m : Rd α} {c : BitsView → Outcome (α × BitsView)}
    (h : ReadRefines m c) (v : BitsView) (hv : v.Inv) {k : ErrKind}
    (hm : m (remaining v) = .err k) : c v = .err k := by
  have := h v hv; rw [hm] at this; exact this

/-- a byte-level reader that refines a total L1 reader (C10 `…_read_total`) never panics on any
    view, and on success its cursor has moved forward and not beyond the declared length -/
theorem ReadRefines.total {α : Type} {m : Rd α} {c : BitsView → Outcome (α × BitsView)}
    (h : ReadRefines m c) (ht : C10.ReadTotal m) (v : BitsView) (hv : v.Inv) :
    c v ≠ .panic ∧ ∀ a v', c v = .ok (a, v') →
      v'.slice = v.slice ∧ v'.len = v.len ∧ v.pos ≤ v'.pos ∧ v'.pos ≤ v.len := by
  have hr := h v hv
  obtain ⟨hnp, hsuf⟩ := ht (remaining v)
  cases hm : m (remaining v) with
  | ok p =>
    obtain ⟨a, rest⟩ := p
    rw [hm] at hr
    obtain ⟨pre, hpre⟩ := hsuf a rest hm
    have hl : (remaining v).length = pre.length + rest.length := by rw [hpre]; simp
    rw [length_remaining] at hl
    refine ⟨by rw [hr.1]; simp, fun a' v' e => ?_⟩
    rw [hr.1] at e
    injection e with e; injection e with _ e
    subst e
    have := hv.2
    exact ⟨rfl, rfl, by simp only; omega, by simp only; omega⟩
  | err k => rw [hm] at hr; rw [hr]; exact ⟨by simp, fun _ _ e => by cases e⟩
  | panic => exact absurd hm hnp

/-! ## 3. the functions, one by one (stage order of the task) -/

theorem optU64_getD {ub : Option Nat} (h : C10.OptU64 ub) : ub.getD I64MAXu ≤ U64_MAX :=
  optGetD_le h

/-! ### 11.3 non-negative-binary-integer in a field (`Some((lower, upper))` branch) -/

theorem nnbi_field_write (lb ub : Option Nat) (value : Nat) (hub : C10.OptU64 ub) :
    WriteRefines (Per.wNNBIc lb ub value) (Concrete.wNNBIc lb ub value) :=
  fun b hb => wNNBIc_refines lb ub value b hb (optU64_getD hub)

theorem nnbi_field_read (lb ub : Option Nat) (hub : C10.OptU64 ub) :
    ReadRefines (Per.rNNBIc lb ub) (Concrete.rNNBIc lb ub) :=
  fun v hv => (rNNBIc_refines lb ub v hv (optU64_getD hub)).spelled

/-! ### 11.9 length determinant -/

theorem len_write (lb ub : Option Nat) (value : Nat) (hub : C10.OptU64 ub) :
    WriteRefinesV (Per.wLen lb ub value) (Concrete.wLen lb ub value) :=
  fun b hb => wLen_refines lb ub value b hb (optU64_getD hub)

theorem len_read (lb ub : Option Nat) (hub : C10.OptU64 ub) :
    ReadRefines (Per.rLen lb ub) (Concrete.rLen lb ub) :=
  fun v hv => (rLen_refines lb ub v hv (optU64_getD hub)).spelled

/-! ### 11.5 constrained whole number -/

theorem constrained_write (lb ub value : Int) (hl : I64_MIN ≤ lb) (hu : ub ≤ I64_MAX) :
    WriteRefines (Per.wConstrained lb ub value) (Concrete.wConstrained lb ub value) :=
  fun b hb => wConstrained_refines lb ub value b hb hl hu

theorem constrained_read (lb ub : Int) (hl : I64_MIN ≤ lb) (hu : ub ≤ I64_MAX) :
    ReadRefines (Per.rConstrained lb ub) (Concrete.rConstrained lb ub) :=
  fun v hv => (rConstrained_refines lb ub v hv hl hu).spelled

/-! ### 11.6 normally small non-negative whole number (= normally small length) -/

theorem small_write (value : Nat) : WriteRefines (Per.wSmall value) (Concrete.wSmall value) :=
  fun b hb => wSmall_refines value b hb

theorem small_read : ReadRefines Per.rSmall Concrete.rSmall :=
  fun v hv => (rSmall_refines v hv).spelled

/-! ### enumeration / choice index -/

theorem index_write (std : Nat) (ext : Bool) (index : Nat) (hstd : std ≤ U64_MAX) :
    WriteRefines (Per.wIndex std ext index) (Concrete.wIndex std ext index) :=
  fun b hb => wIndex_refines std ext index b hb hstd

theorem index_read (std : Nat) (ext : Bool) (hstd : std ≤ U64_MAX) :
    ReadRefines (Per.rIndex std ext) (Concrete.rIndex std ext) :=
  fun v hv => (rIndex_refines std ext v hv hstd).spelled

/-! ### 11.4 2's-complement-binary-integer -/

theorem twos_write (bitLen : Nat) (value : Int) :
    WriteRefines (Per.w2s bitLen value) (Concrete.w2s bitLen value) :=
  fun b hb => w2s_refines bitLen value b hb

/-- includes the sign extension by byte and bit masks as coded -/
theorem twos_read (bitLen : Nat) : ReadRefines (Per.r2s bitLen) (Concrete.r2s bitLen) :=
  fun v hv => (r2s_refines bitLen v hv).spelled

/-! ### 11.3 non-negative-binary-integer, general (both branches) -/

theorem nnbi_write (lb ub : Option Nat) (value : Nat) (hub : C10.OptU64 ub) :
    WriteRefines (Per.wNNBI lb ub value) (Concrete.wNNBI lb ub value) :=
  fun b hb => wNNBI_refines lb ub value b hb (optU64_getD hub)

theorem nnbi_read (lb ub : Option Nat) (hub : C10.OptU64 ub) :
    ReadRefines (Per.rNNBI lb ub) (Concrete.rNNBI lb ub) :=
  fun v hv => (rNNBI_refines lb ub v hv (optU64_getD hub)).spelled

/-! ### 11.7 semi-constrained, 11.8 unconstrained whole number -/

theorem semi_write (lb value : Int) (hl : I64_MIN ≤ lb) (hv : value ≤ I64_MAX) :
    WriteRefines (Per.wSemi lb value) (Concrete.wSemi lb value) :=
  fun b hb => wSemi_refines lb value b hb hl hv

theorem semi_read (lb : Int) : ReadRefines (Per.rSemi lb) (Concrete.rSemi lb) :=
  fun v hv => (rSemi_refines lb v hv).spelled

theorem unconstrained_write (value : Int) :
    WriteRefines (Per.wUnconstrained value) (Concrete.wUnconstrained value) :=
  fun b hb => wUnconstrained_refines value b hb

theorem unconstrained_read : ReadRefines Per.rUnconstrained Concrete.rUnconstrained :=
  fun v hv => (rUnconstrained_refines v hv).spelled

/-! ### 17 octet string, with the 16K fragment loops and `read_bytes_chunked` -/

/-- the `written_bytes` loop alone, entered after `written ≤ src.len()` bytes -/
theorem octets_write_loop (src : List Byte) (written : Nat) (hw : written ≤ src.length) :
    WriteRefines (Per.wOctFrag (src.drop written)) (Concrete.wOctLoop src written) :=
  fun b hb => wOctLoop_refines src _ written b rfl hw hb

theorem octets_write (lb ub : Option Nat) (ext : Bool) (src : List Byte) (hub : C10.OptU64 ub) :
    WriteRefines (Per.wOctets lb ub ext src) (Concrete.wOctets lb ub ext src) :=
  fun b hb => wOctets_refines lb ub ext src b hb (optU64_getD hub)

/-- `read_bytes_chunked` reads `n` whole bytes or fails with end-of-stream, for every positive
    chunk size (so the literal `64 * 1024` in the Rust function does not matter) -/
theorem read_bytes_chunked (chunk : Nat) (hc : 0 < chunk) (n : Nat) (v : BitsView)
    (buffer : List Byte) (hv : v.Inv) :
    ((remaining v).length < 8 * n ∧
      Concrete.readBytesChunked chunk v buffer n = err .endOfStream) ∨
    (8 * n ≤ (remaining v).length ∧ ∃ v',
      Concrete.readBytesChunked chunk v buffer n =
        ok (buffer ++ bitsBytes ((remaining v).take (8 * n)), v') ∧
      v'.slice = v.slice ∧ v'.len = v.len ∧ v'.Inv ∧
      remaining v' = (remaining v).drop (8 * n)) :=
  readBytesChunked_spec chunk hc n v buffer hv

theorem octets_read_loop (acc : List Byte) :
    ReadRefines (Per.rOctFrag acc) (Concrete.rOctLoop acc) :=
  fun v hv => (rOctLoop_refines _ v acc rfl hv).spelled

theorem octets_read (lb ub : Option Nat) (ext : Bool) (hub : C10.OptU64 ub) :
    ReadRefines (Per.rOctets lb ub ext) (Concrete.rOctets lb ub ext) :=
  fun v hv => (rOctets_refines lb ub ext v hv (optU64_getD hub)).spelled

/-! ## 4. corollaries: C10 at byte level -/

/-- the bytes of a buffer after a write, viewed from where the write started, hold exactly the
    appended bits -/
theorem view_of_written (b b' : BitBuffer) (bits : Bits) (hinv' : b'.Inv)
    (habs : b'.abs = b.abs ++ bits) :
    BitsView.Inv ⟨b'.buffer, b.wp, b'.wp⟩ ∧ remaining ⟨b'.buffer, b.wp, b'.wp⟩ = bits := by
  have hlen : b'.wp = b.wp + bits.length := by
    have := congrArg List.length habs
    simpa [BitBuffer.abs] using this
  refine ⟨⟨by have := hinv'.1; simp only; omega, by simp only; omega⟩, ?_⟩
  show (bitsOf b'.buffer 0 b'.wp).drop b.wp = bits
  have : bitsOf b'.buffer 0 b'.wp = b'.abs := rfl
  rw [this, habs, List.drop_left' (by simp [BitBuffer.abs])]

/-- C10 `constrained_pattern` at byte level: on a buffer with the invariant,
    `write_constrained_whole_number(lb, ub, v)` appends exactly the X.691 bits -/
theorem concrete_constrained_pattern (lb ub v : Int) (b : BitBuffer) (hb : b.Inv)
    (hl : I64_MIN ≤ lb) (hu : ub ≤ I64_MAX) (h1 : lb ≤ v) (h2 : v ≤ ub) :
    ∃ b', Concrete.wConstrained lb ub v b = ok b' ∧ b'.Inv ∧
      b'.abs = b.abs ++ X691.constrained lb ub v ∧ b'.rp = b.rp :=
  (constrained_write lb ub v hl hu).ok (C10.constrained_pattern lb ub v h1 h2) b hb

/-- C10 `constrained_rejects` at byte level -/
theorem concrete_constrained_rejects (lb ub v : Int) (b : BitBuffer) (hb : b.Inv)
    (hl : I64_MIN ≤ lb) (hu : ub ≤ I64_MAX) (h : ¬ (lb ≤ v ∧ v ≤ ub)) :
    ∃ k, Concrete.wConstrained lb ub v b = err k := by
  obtain ⟨k, hk⟩ := C10.constrained_rejects lb ub v h
  exact ⟨k, (constrained_write lb ub v hl hu).err hk b hb⟩

/-- C10 `constrained_roundtrip` at byte level, end to end: write into a buffer, read the written
    bytes back through a `Bits` view placed where the write started — the value comes back and the
    cursor stands at the end of what was written -/
theorem concrete_constrained_roundtrip (lb ub v : Int) (b : BitBuffer) (hb : b.Inv)
    (hl : I64_MIN ≤ lb) (hu : ub ≤ I64_MAX) (h1 : lb ≤ v) (h2 : v ≤ ub) :
    ∃ b', Concrete.wConstrained lb ub v b = ok b' ∧
      Concrete.rConstrained lb ub ⟨b'.buffer, b.wp, b'.wp⟩ = ok (v, ⟨b'.buffer, b'.wp, b'.wp⟩) := by
  obtain ⟨b', e, hinv', habs, _⟩ := concrete_constrained_pattern lb ub v b hb hl hu h1 h2
  obtain ⟨hvi, hrem⟩ := view_of_written b b' _ hinv' habs
  have hrt := C10.constrained_roundtrip lb ub v [] h1 h2 hl hu
  rw [List.append_nil, ← hrem] at hrt
  have := (constrained_read lb ub hl hu).ok _ hvi hrt
  refine ⟨b', e, ?_⟩
  rw [this.1]; simp

/-- C10 `len_pattern_partial` at byte level (bits and announced fragment) -/
theorem concrete_len_pattern_partial (lb ub : Option Nat) (n : Nat) (b : BitBuffer) (hb : b.Inv)
    (hub : C10.OptU64 ub) (hd : ¬ LenDeviates lb ub) (h : C10.LenAdm lb ub n) :
    ∃ b', Concrete.wLen lb ub n b = ok ((X691.len lb ub n).2, b') ∧ b'.Inv ∧
      b'.abs = b.abs ++ (X691.len lb ub n).1 ∧ b'.rp = b.rp := by
  have := len_write lb ub n hub b hb
  rw [C10.len_pattern_partial lb ub n hd h] at this
  exact this

/-- C10 `index_pattern` at byte level -/
theorem concrete_index_pattern (std : Nat) (ext : Bool) (i : Nat) (b : BitBuffer) (hb : b.Inv)
    (hs : std ≤ U64_MAX) (h : i < std ∨ ext = true) (hi : i ≤ U64_MAX) :
    ∃ b', Concrete.wIndex std ext i b = ok b' ∧ b'.Inv ∧
      b'.abs = b.abs ++ X691.index std ext i ∧ b'.rp = b.rp :=
  (index_write std ext i hs).ok (C10.index_pattern std ext i h hi) b hb

/-- C10 `twos_pattern` at byte level -/
theorem concrete_twos_pattern (w : Nat) (v : Int) (b : BitBuffer) (hb : b.Inv) (h1 : 1 ≤ w)
    (h2 : w ≤ 64) :
    ∃ b', Concrete.w2s w v b = ok b' ∧ b'.Inv ∧ b'.abs = b.abs ++ X691.twos w v ∧ b'.rp = b.rp :=
  (twos_write w v).ok (C10.twos_pattern w v h1 h2) b hb

/-- C10 `octets_pattern_partial` at byte level: every length, every number of fragments -/
theorem concrete_octets_pattern_partial (lb ub : Option Nat) (ext : Bool) (s : List Byte)
    (b : BitBuffer) (hb : b.Inv) (hub : C10.OptU64 ub) (hd : ¬ LenDeviates lb ub)
    (hn : s.length ≤ I64MAXu) (h : C10.StrAdm lb ub ext s.length) :
    ∃ b', Concrete.wOctets lb ub ext s b = ok b' ∧ b'.Inv ∧
      b'.abs = b.abs ++ X691.octets lb ub ext s ∧ b'.rp = b.rp :=
  (octets_write lb ub ext s hub).ok (C10.octets_pattern_partial lb ub ext s hd hn h) b hb

/-- C10 `octets_selfconsistent` at byte level, end to end and in *every* region of the bounds:
    whatever `write_octetstring` accepts, `read_octetstring` reads back from the written bytes -/
theorem concrete_octets_roundtrip (lb ub : Option Nat) (ext : Bool) (s : List Byte) (b b' : BitBuffer)
    (hb : b.Inv) (hub : C10.OptU64 ub) (hw : Concrete.wOctets lb ub ext s b = ok b') :
    Concrete.rOctets lb ub ext ⟨b'.buffer, b.wp, b'.wp⟩ = ok (s, ⟨b'.buffer, b'.wp, b'.wp⟩) := by
  have href := octets_write lb ub ext s hub b hb
  cases hm : Per.wOctets lb ub ext s with
  | ok bits =>
    rw [hm] at href
    obtain ⟨b'', e, hinv', habs, _⟩ := href
    rw [hw] at e
    injection e with e; subst e
    obtain ⟨hvi, hrem⟩ := view_of_written b b' bits hinv' habs
    have hrt := C10.octets_selfconsistent lb ub ext s bits [] hub hm
    rw [List.append_nil, ← hrem] at hrt
    have := (octets_read lb ub ext hub).ok _ hvi hrt
    rw [this.1]; simp
  | err k => rw [hm] at href; rw [hw] at href; cases href
  | panic => rw [hm] at href; rw [hw] at href; cases href

/-- C10 `…_read_total` at byte level: on *any* view (any bytes, any cursor, any declared length)
    the byte-level readers do not panic and do not move the cursor backwards or past the declared
    length -/
theorem concrete_readers_total (v : BitsView) (hv : v.Inv) :
    (∀ lb ub, C10.OptU64 ub → Concrete.rNNBI lb ub v ≠ panic) ∧
    (∀ lb ub, C10.OptU64 ub → Concrete.rLen lb ub v ≠ panic) ∧
    (∀ w, Concrete.r2s w v ≠ panic) ∧
    (∀ lb ub, I64_MIN ≤ lb → ub ≤ I64_MAX → Concrete.rConstrained lb ub v ≠ panic) ∧
    Concrete.rSmall v ≠ panic ∧
    (∀ std ext, std ≤ U64_MAX → Concrete.rIndex std ext v ≠ panic) ∧
    (∀ lb ub ext, C10.OptU64 ub → Concrete.rOctets lb ub ext v ≠ panic) :=
  ⟨fun lb ub h => ((nnbi_read lb ub h).total (C10.nnbi_read_total lb ub) v hv).1,
   fun lb ub h => ((len_read lb ub h).total (C10.len_read_total lb ub) v hv).1,
   fun w => ((twos_read w).total (C10.twos_read_total w) v hv).1,
   fun lb ub hl hu => ((constrained_read lb ub hl hu).total (C10.constrained_read_total lb ub) v hv).1,
   (small_read.total C10.small_read_total v hv).1,
   fun std ext hs => ((index_read std ext hs).total (C10.index_read_total std ext) v hv).1,
   fun lb ub ext h => ((octets_read lb ub ext h).total (C10.octets_read_total lb ub ext) v hv).1⟩

/-! ## non-vacuity: concrete instances -/

-- buffers satisfying the invariant: the empty one, and one with 3 bits written
example : BitBuffer.Inv {} := BitBuffer.inv_default
example : ∃ b', Concrete.wConstrained (-3) 4 1 {} = ok b' ∧ b'.Inv ∧ b'.abs = [true, false, false] := by
  obtain ⟨b', e, i, a, _⟩ :=
    concrete_constrained_pattern (-3) 4 1 {} BitBuffer.inv_default (by decide) (by decide)
      (by decide) (by decide)
  exact ⟨b', e, i, by rw [a]; decide⟩
-- views satisfying the invariant
example : BitsView.Inv ⟨[0xAA#8, 0xBB#8], 3, 12⟩ := by simp [BitsView.Inv]
-- argument ranges
example : C10.OptU64 (some 70000) ∧ C10.OptU64 none :=
  ⟨C10.optU64_some (by decide), C10.optU64_none⟩
-- the two mirrors evaluated on the same requests
example : Concrete.wConstrained (-3) 4 1 {} = ok ⟨[0x80#8], 3, 0⟩ ∧
    Per.wConstrained (-3) 4 1 = ok [true, false, false] := by decide
example : Concrete.rConstrained (-3) 4 ⟨[0x80#8], 0, 3⟩ = ok (1, ⟨[0x80#8], 3, 3⟩) := by
  decide +kernel
example : Concrete.wNNBI none none 300 {} = ok ⟨[0x02#8, 0x01#8, 0x2c#8], 24, 0⟩ := by decide
example : Concrete.wLen none none 100000 {} = ok (some 65536, ⟨[0xc4#8], 8, 0⟩) := by decide
example : Concrete.w2s 5 (-4) {} = ok ⟨[0xe0#8], 5, 0⟩ := by decide
-- sign extension: bits 1…5 of `1111 0000` are `11100` = -4 in 5 bits
example : Concrete.r2s 5 ⟨[0xf0#8], 1, 6⟩ = ok (-4, ⟨[0xf0#8], 6, 6⟩) := by decide
example : Concrete.r2s 5 ⟨[0xf0#8], 1, 5⟩ = err .endOfStream := by decide
example : Concrete.wIndex 5 true 7 {} = ok ⟨[0x82#8], 8, 0⟩ := by decide
example : Concrete.wIndex 5 false 5 {} = err .invalidChoiceIndex := by decide
example : Concrete.wOctets (some 1) (some 20) true [0xab#8] {} = ok ⟨[0x02#8, 0xac#8], 14, 0⟩ := by
  decide +kernel
-- (the readers with loops are defined by well-founded recursion, which `decide` does not unfold:
--  their instance comes from the end-to-end theorem)
example : Concrete.rOctets (some 1) (some 20) true ⟨[0x02#8, 0xac#8], 0, 14⟩ =
    ok ([0xab#8], ⟨[0x02#8, 0xac#8], 14, 14⟩) :=
  concrete_octets_roundtrip (some 1) (some 20) true [0xab#8] {} ⟨[0x02#8, 0xac#8], 14, 0⟩
    BitBuffer.inv_default (C10.optU64_some (by decide)) (by decide +kernel)


/-! ## the range hypotheses cannot be dropped (they are the Rust argument types)

  Both mirrors are total on `Nat`/`Int`; outside the Rust types they differ, e.g. for an upper
  bound of `2^64` (not a `u64`) the L1 model writes a field of `bitWidth (2^64) = 65` bits, the
  byte-level code — `leading_zeros` of a 64-bit word, 8 bytes of `to_be_bytes` — writes 64. -/
example : ¬ C10.OptU64 (some (2 ^ 64)) ∧
    Per.wNNBIc none (some (2 ^ 64)) 0 = ok (List.replicate 65 false) ∧
    Concrete.wNNBIc none (some (2 ^ 64)) 0 {} = ok ⟨List.replicate 8 0#8, 64, 0⟩ :=
  ⟨fun h => absurd (h _ rfl) (by decide), by decide +kernel, by decide +kernel⟩

end Asn1Verif.Props.Glue
