import Asn1Verif.Uper.ReadTotalWork
import Asn1Verif.Props.C20
import Asn1Verif.Props.C17
/-
  C04 — Decoders never panic, hang or over-read on arbitrary input.

  Models: `Per/Prim.lean` (L1, mirror of `src/protocol/per/unaligned/mod.rs`), `Uper/Impl.lean`
  (L2, mirror of `src/rw/uper.rs`), `Der/Basic.lean` (DER primitives).  Lemmas:
  `Per/ReadTotal.lean`, `Uper/ReadTotal.lean`, `Uper/ReadTotalWork.lean`.

  The reader works on `inp : Bits` = exactly the declared bits (the first `bit_len` bits of the
  byte string; L0/C11 shows that reads through `Bits` never see anything else), so "never beyond
  the declared length" is `p ≤ inp.length`.

  * never panics:       `l1_readers_total`, `uper_total` (+ `_alt`, `_fields`), `der_reader_total`
  * never over-reads:   `l1_readers_total` (the rest is a suffix of the input), `no_overread`
  * never hangs:        all model functions are total Lean definitions — `dec`/`decAlt`/`decFields`
                        by structural recursion over `Ty`/`Fields`, `decListWith` over `Nat`, the
                        three loops `rOctFrag`, `rBitFrag` (on the remaining input) and
                        `skipUnknown` (on `nRead - idx`) by well-founded recursion; the `panic`
                        that guards the decreasing argument of the fragment loops is unreachable
                        (`fragment_loop_progress`).  What remains is quantitative:
  * work/allocation relative to the input: `octets_len_le_input`, `bitstring_len_le_input`,
                        `uper_alloc_le_input`, `work_bound_partial`; the full statement
                        `WorkBounded` is FALSE for the current code (`not_workBounded`,
                        `zero_width_work`): SEQUENCE OF an element type of width zero iterates as
                        often as the (up to 63 bit wide) length field says.  Open finding.
  * accessors:          `remaining_after_ok`.
  The protobuf reader is not covered here.

  Scope of the statements about the REAL reader (what the theorems need from outside):
  * the tie between `Uper/Impl.lean` and `UperReader` is the differential stream over descriptors
    that are `Ty.consistent` (generated code always is).  The theorems hold for every `Ty`, but for
    an inconsistent hand-written descriptor the real reader has a `debug_assert!(scope.exhausted())`
    in `scope_pushed` the mirror does not model (it cannot fail for a consistent one).
  * `inp` = the first `bit_len` bits presupposes `bit_len ≤ 8 * bytes.len()`; with a larger
    declared length `Bits::from((slice, len))` itself fails its `debug_assert!` before any decoding.
  * `UperReader::read_sequence` ignores the error of its own `read_bit_field_entry(false)`
    (`let _ = …;` without `?`); generated code cannot reach a failing call there (extension
    additions are always read through `read_opt`/`read_default`, which propagate the error).
-/
namespace Asn1Verif.Props.C04
open Asn1Verif Asn1Verif.Per Asn1Verif.Per.RT Asn1Verif.Uper Outcome

/-! ### 1. L1: every PER primitive reader, all arguments, all inputs -/

/-- `r` never panics and only consumes from the front of its input -/
def RdTotal {α : Type} (r : Per.Rd α) : Prop :=
  ∀ bs : Bits, r bs ≠ .panic ∧ ∀ a rest, r bs = ok (a, rest) → ∃ pre, bs = pre ++ rest

theorem rdTotal_of_good {α : Type} {r : Per.Rd α} (h : ∀ bs, Good bs (r bs)) : RdTotal r :=
  fun bs => good_iff.1 (h bs)

/-- the suffix form is the same as "the rest is the input without its first
    `bs.length - rest.length` bits" -/
theorem suffix_iff_drop (rest bs : Bits) :
    (∃ pre, bs = pre ++ rest) ↔ rest.length ≤ bs.length ∧ rest = bs.drop (bs.length - rest.length) :=
  isSuffix_iff.symm.trans isSuffix_iff_drop

/-- **L1 totality**: every reader of `Per/Prim.lean` -/
theorem l1_readers_total :
    RdTotal rdBit ∧ (∀ w, RdTotal (rdNat w)) ∧ (∀ n, RdTotal (rdBits n)) ∧
    (∀ lb ub, RdTotal (rNNBIc lb ub)) ∧ (∀ lb ub, RdTotal (rLen lb ub)) ∧
    (∀ lb ub, RdTotal (rNNBI lb ub)) ∧ (∀ bitLen, RdTotal (r2s bitLen)) ∧
    (∀ lb ub, RdTotal (rConstrained lb ub)) ∧ RdTotal rSmall ∧ (∀ lb, RdTotal (rSemi lb)) ∧
    RdTotal rUnconstrained ∧ (∀ std ext, RdTotal (rIndex std ext)) ∧
    (∀ acc, RdTotal (rOctFrag acc)) ∧ (∀ lb ub ext, RdTotal (rOctets lb ub ext)) ∧
    (∀ acc, RdTotal (rBitFrag acc)) ∧ (∀ lb ub ext, RdTotal (rBitString lb ub ext)) :=
  ⟨rdTotal_of_good rdBit_good, fun _ => rdTotal_of_good (rdNat_good _),
   fun _ => rdTotal_of_good (rdBits_good _), fun _ _ => rdTotal_of_good (rNNBIc_good _ _),
   fun _ _ => rdTotal_of_good (rLen_good _ _), fun _ _ => rdTotal_of_good (rNNBI_good _ _),
   fun _ => rdTotal_of_good (r2s_good _), fun _ _ => rdTotal_of_good (rConstrained_good _ _),
   rdTotal_of_good rSmall_good, fun _ => rdTotal_of_good (rSemi_good _),
   rdTotal_of_good rUnconstrained_good, fun _ _ => rdTotal_of_good (rIndex_good _ _),
   fun _ => rdTotal_of_good (rOctFrag_good _), fun _ _ _ => rdTotal_of_good (rOctets_good _ _ _),
   fun _ => rdTotal_of_good (rBitFrag_good _), fun _ _ _ => rdTotal_of_good (rBitString_good _ _ _)⟩

/-- the fragment loops make progress: an unconstrained length determinant consumes at least 8
    bits, so the `panic` guarding the well-founded recursion of `rOctFrag`/`rBitFrag` is dead code
    (and the loop of the real code cannot spin on the same position) -/
theorem fragment_loop_progress (bs rest : Bits) (n : Nat) (h : rLen none none bs = ok (n, rest)) :
    rest.length + 8 ≤ bs.length :=
  rLen_none_consumes h

/-! ### 2. L2: the UPER reader, every type, every input, every position -/

/-- **the UPER reader never panics** — for every type descriptor (consistent with its constants
    or not), every input and every start position (inside the input or not) -/
theorem uper_total (t : Ty) (inp : Bits) (pos : Nat) : dec t inp pos ≠ .panic :=
  (dec_good t inp pos).ne_panic

theorem uper_total_alt (alts : Fields) (i : Nat) (inp : Bits) (pos : Nat) :
    decAlt alts i inp pos ≠ .panic :=
  (decAlt_good alts i inp pos).ne_panic

theorem uper_total_fields (fs : Fields) (rootLeft optIdx addIdx : Nat) (ctx : SeqCtx) (inp : Bits)
    (pos : Nat) : decFields fs rootLeft optIdx addIdx ctx inp pos ≠ .panic :=
  (decFields_good fs rootLeft optIdx addIdx ctx inp pos).ne_panic

/-- **no over-read**: started inside the input, a successful read ends at a cursor that is not
    left of the start and not beyond the declared length -/
theorem no_overread (t : Ty) (inp : Bits) (pos : Nat) (v : Val) (p : Nat) (hp : pos ≤ inp.length)
    (h : dec t inp pos = ok (v, p)) : pos ≤ p ∧ p ≤ inp.length :=
  (dec_good t inp pos).bounds h hp

theorem no_overread_fields (fs : Fields) (rootLeft optIdx addIdx : Nat) (ctx : SeqCtx)
    (inp : Bits) (pos : Nat) (vs : Vals) (p : Nat) (hp : pos ≤ inp.length)
    (h : decFields fs rootLeft optIdx addIdx ctx inp pos = ok (vs, p)) : pos ≤ p ∧ p ≤ inp.length :=
  (decFields_good fs rootLeft optIdx addIdx ctx inp pos).bounds h hp

/-- decoding a whole message: from position 0 the hypothesis is void -/
theorem decode_total (t : Ty) (inp : Bits) :
    dec t inp 0 ≠ .panic ∧ ∀ v p, dec t inp 0 = ok (v, p) → p ≤ inp.length :=
  ⟨uper_total t inp 0, fun v p h => (no_overread t inp 0 v p (Nat.zero_le _) h).2⟩

/-- the primitives lifted to a position never end beyond the declared length, wherever started -/
theorem lifted_primitive_le {α : Type} (r : Per.Rd α) (inp : Bits) (pos p : Nat) (a : α)
    (h : liftL1 r inp pos = ok (a, p)) : p ≤ inp.length :=
  liftL1_le h

/-! ### 3. work and allocation relative to the input size -/

/-- OCTET STRING: 8 bits of input consumed per octet returned (fragments included) -/
theorem octets_len_le_input (lb ub : Option Nat) (ext : Bool) (bs rest : Bits)
    (data : List (BitVec 8)) (h : rOctets lb ub ext bs = ok (data, rest)) :
    8 * data.length + rest.length ≤ bs.length :=
  rOctets_len_le h

/-- BIT STRING: one bit of input per bit returned -/
theorem bitstring_len_le_input (lb ub : Option Nat) (ext : Bool) (bs rest data : Bits)
    (h : rBitString lb ub ext bs = ok (data, rest)) : data.length + rest.length ≤ bs.length :=
  rBitString_len_le h

/-- the same at L2, and for the restricted strings (`strUnit` = 8 bits per byte of a UTF8String,
    `charWidth` = 7 resp. 4 bits per character of the others) -/
theorem uper_alloc_le_input (inp : Bits) (pos p : Nat) (v : Val) (hp : pos ≤ inp.length) :
    (∀ min max ext, dec (.oct min max ext) inp pos = ok (v, p) →
        ∃ b, v = .oct b ∧ 8 * b.length + pos ≤ p) ∧
    (∀ min max ext, dec (.bits min max ext) inp pos = ok (v, p) →
        ∃ b, v = .bits b ∧ b.length + pos ≤ p) ∧
    (∀ cs min max ext, dec (.str cs min max ext) inp pos = ok (v, p) →
        ∃ b, v = .str b ∧ b.length * strUnit cs + pos ≤ p) :=
  ⟨fun _ _ _ h => dec_oct_len_le h hp, fun _ _ _ h => dec_bits_len_le h hp,
   fun _ _ _ _ h => dec_str_len_le h hp⟩

/-- `Ty.minBits` is a lower bound of what a successful read consumes -/
theorem min_bits_consumed (t : Ty) (inp : Bits) (pos : Nat) (v : Val) (p : Nat)
    (hp : pos ≤ inp.length) (h : dec t inp pos = ok (v, p)) : pos + t.minBits ≤ p :=
  ((dec_goodN t inp pos).bounds h hp).1

/-- the full statement: the number of elements a SEQUENCE OF reader returns — the number of
    iterations of its loop and the size of the vector it builds — is bounded by the number of
    input bits -/
def WorkBounded : Prop :=
  ∀ (min max : Option Nat) (ext : Bool) (elem : Ty) (inp : Bits) (pos : Nat) (vs : Vals) (p : Nat),
    pos ≤ inp.length → dec (.seqOf min max ext elem) inp pos = ok (.list vs, p) →
      vs.length ≤ inp.length

/-- **work bound**, partial: holds when every element consumes at least one bit
    (`1 ≤ elem.minBits`: BOOLEAN, an INTEGER with a non-trivial range, anything extensible, a
    non-extensible SEQUENCE with such a mandatory component, …); then the elements are even paid
    for by the bits between start and end: `vs.length ≤ p - pos` -/
theorem work_bound_partial (min max : Option Nat) (ext : Bool) (elem : Ty) (inp : Bits) (pos : Nat)
    (vs : Vals) (p : Nat) (hmin : 1 ≤ elem.minBits) (hp : pos ≤ inp.length)
    (h : dec (.seqOf min max ext elem) inp pos = ok (.list vs, p)) :
    vs.length + pos ≤ p ∧ vs.length ≤ inp.length := by
  obtain ⟨vs', e, h1, h2⟩ := seqOf_count h hp
  have e' : vs = vs' := by injection e
  subst e'
  have : vs.length * 1 ≤ vs.length * elem.minBits := Nat.mul_le_mul_left _ hmin
  omega

/-- in general: `len * minBits elem` bits are consumed -/
theorem work_bound_general (min max : Option Nat) (ext : Bool) (elem : Ty) (inp : Bits) (pos : Nat)
    (v : Val) (p : Nat) (hp : pos ≤ inp.length)
    (h : dec (.seqOf min max ext elem) inp pos = ok (v, p)) :
    ∃ vs, v = .list vs ∧ vs.length * elem.minBits + pos ≤ p ∧ p ≤ inp.length :=
  seqOf_count h hp

/-- zero-width elements: the loop runs `n` times without consuming anything — the work is the
    announced length, independent of the input -/
theorem zero_width_work (n : Nat) (inp : Bits) (pos : Nat) :
    decListWith (dec .null) n inp pos = ok (Vals.ofList (List.replicate n .null), pos) :=
  decListWith_null inp pos n

theorem length_ofList_replicate (n : Nat) (v : Val) :
    (Vals.ofList (List.replicate n v)).length = n := by
  induction n with
  | zero => rfl
  | succ n ih => simp only [List.replicate_succ, Vals.ofList, Vals.length, ih]

/-- … and the announced length comes from a 63 bit wide field: for every `n < 2^63` the 63-bit
    input `n` makes `SEQUENCE (SIZE (0..MAX)) OF NULL` return `n` elements -/
theorem zero_width_unbounded (n : Nat) (hn : n < 2 ^ 63) :
    dec (.seqOf (some 0) (some I64MAXu) false .null) (natBits 63 n) 0 =
      ok (.list (Vals.ofList (List.replicate n .null)), 63) :=
  seqOf_null_unbounded n hn

/-- the full statement is false for the current code (known finding: no limit on the number of
    zero-width elements) -/
theorem not_workBounded : ¬ WorkBounded := by
  intro h
  have := h (some 0) (some I64MAXu) false .null (natBits 63 64) 0 _ 63 (Nat.zero_le _)
    (zero_width_unbounded 64 (by decide))
  rw [length_ofList_replicate, natBits_length] at this
  omega

/-! ### 4. accessors after a read -/

/-- `bits_remaining()` after a successful read: the cursor is inside the input, so the
    subtraction `len - pos` of `remaining()` cannot underflow, and the read has not produced
    bits: what remains is at most what remained before.  After a failed read the model has no
    cursor (`Outcome.err` carries none): the real reader keeps whatever position the failing
    primitive left, which by `l1_readers_total`/`lifted_primitive_le` and the clamping `set_pos`
    is ≤ the declared length as well. -/
theorem remaining_after_ok (t : Ty) (inp : Bits) (pos : Nat) (v : Val) (p : Nat)
    (hp : pos ≤ inp.length) (h : dec t inp pos = ok (v, p)) :
    p + (inp.length - p) = inp.length ∧ inp.length - p ≤ inp.length - pos := by
  have := no_overread t inp pos v p hp h
  omega

/-! ### DER primitives (proved in C20) -/

/-- the DER reader of the primitives it implements never panics -/
theorem der_reader_total (inp : List Der.Byte) (k : Nat) (t : Der.NumTy) (tag : Der.Tag)
    (count : Nat) :
    Der.readIdentifier inp ≠ .panic ∧ Der.readLength inp ≠ .panic ∧ Der.readBoolean inp ≠ .panic ∧
    Der.readIntegerU64 k inp ≠ .panic ∧ Der.readIntegerI64 k inp ≠ .panic ∧
    Der.readNumber t tag inp ≠ .panic ∧ Der.readBooleanTlv tag inp ≠ .panic ∧
    Der.readEnumerated tag count inp ≠ .panic :=
  C20.reader_never_panics inp k t tag count

/-! ### non-vacuity -/

-- hostile inputs: truncated, over-long length, unknown extension additions
example : dec (.int (some 0) (some 255) false 8 false) [true, false, true] 0 = err .endOfStream := by
  rfl
example : dec (.oct none none false) [false, true, true, true, true, true, true, true] 0
    = err .endOfStream := by rfl
example : dec .bool [true] 5 = err .endOfStream := by rfl
-- types satisfying the hypothesis of `work_bound_partial`
example : (Ty.int (some 0) (some 255) false 8 false).minBits = 1 := by decide
example : (Ty.seq 0 2 none (.cons .m .bool (.cons .m (.int (some 0) (some 7) false 8 false) .nil))).minBits
    = 2 := by decide
-- … and an instance of the theorem: three BOOLEANs from 8 + 3 bits
example : ∃ vs p, dec (.seqOf none none false .bool)
    [false, false, false, false, false, false, true, true, true, false, true] 0 = ok (.list vs, p) ∧
    vs.length = 3 ∧ p = 11 := ⟨_, _, by rfl, by rfl, by rfl⟩
-- a type NOT covered (width zero)
example : Ty.null.minBits = 0 ∧ (Ty.int (some 5) (some 5) false 8 false).minBits = 0 ∧
    (Ty.seq 0 0 none .nil).minBits = 0 := by decide

/-! ### the protobuf reader -/

/-- the reader variant the code currently is, selected by the translator flag
    `Consts.PROTO_READER_CHECKED` (what `Driver/ProtoStream.lean` runs against the real reader) -/
def protoCurrentFix : Option Proto.Fix :=
  if Consts.PROTO_READER_CHECKED then some ⟨.endOfStream, true⟩ else none

/-- The protobuf reader never panics on any input, for every type — for the code as the translator
    read it (`PROTO_READER_CHECKED = true` since the `fix:` commits ff0cfec, 11b3503, b49d2ea).  With
    the flag `false` (the pinned code) the statement is false: `Props.C17.proto_reader_total_false`. -/
theorem proto_reader_total (h : Consts.PROTO_READER_CHECKED = true) (t : Uper.Ty)
    (bytes : List Uper.Byte) : Proto.decode protoCurrentFix t bytes ≠ .panic := by
  unfold protoCurrentFix
  rw [h]
  exact Props.C17.proto_reader_total_fixed ⟨.endOfStream, true⟩ t bytes

/-- non-vacuity: the flag is what the translator extracted from the current source -/
example : Consts.PROTO_READER_CHECKED = true := by decide

end Asn1Verif.Props.C04
