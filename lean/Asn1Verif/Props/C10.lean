import Asn1Verif.Per.PrimLemmasWhole
import Asn1Verif.Per.PrimLemmasBitStr
/-
  C10 — PER primitive codecs are correct for every runtime bound and value.

  Code mirror:     `Per/Prim.lean`   (`Per.w…` writers return the appended bits, `Per.r…` readers
                                      consume from the front of the remaining input)
  Specification:   `X691/Prim.lean`  (written from X.691 08/2015, UNALIGNED variant)
  Lemmas:          `Per/PrimLemmasBits|Num|Whole|Str|BitStr.lean`

  For every primitive `P`:
    `P_pattern`     admissible ⇒ the writer produces exactly the X.691 bits
    `P_roundtrip`   admissible ⇒ the reader, started on those bits followed by ANY `post`, returns
                    the value and leaves exactly `post` (same number of bits consumed; back-to-back)
    `P_rejects`     inadmissible ⇒ the writer returns `Err` (never panics, never writes)
    `P_read_total`  on ANY input the reader does not panic and leaves a suffix of its input
  The only hypotheses besides admissibility are the ranges of the Rust argument types
  (`u64`: `≤ U64_MAX`, `i64`: `I64_MIN ≤ · ≤ I64_MAX`, slice lengths `≤ i64::MAX`).  No bound on
  any length: OCTET/BIT STRING statements go through the 16K fragment recursion by strong
  induction.

  Known deviation (finding F-64k, `LenDeviates`): with a bound given and an upper bound ≥ 64K (or a
  lower bound and no upper bound) the length determinant is written as a constrained / 63-bit
  field instead of the unconstrained form of 11.9.4.2 and nothing is fragmented.  There the
  `_pattern`/`_roundtrip` theorems are `_partial` (hypothesis `¬ LenDeviates lb ub`), the full
  statements are `def … : Prop` with an evaluated counterexample, and what *does* hold in that
  region — writer and reader are inverse to each other — is proved as `…_selfconsistent`.
-/
namespace Asn1Verif.Props.C10
open Asn1Verif Asn1Verif.Per Outcome

/-- "no panic, no over-read": not a panic, and an `ok` result leaves a suffix of the input -/
def ReadTotal {α : Type} (f : Rd α) : Prop :=
  ∀ input, f input ≠ panic ∧ ∀ v rest, f input = ok (v, rest) → ∃ pre, input = pre ++ rest

theorem readTotal_of_good {α : Type} {f : Rd α} (h : ∀ bs, Good bs (f bs)) : ReadTotal f :=
  fun input => ⟨(h input).1, fun v rest e => by
    obtain ⟨pre, hp⟩ := (h input).2 v rest e
    exact ⟨pre, hp.symm⟩⟩

/-- `Option<u64>` argument in range -/
def OptU64 (o : Option Nat) : Prop := ∀ x, o = some x → x ≤ U64_MAX

/-! ### 11.3 non-negative-binary-integer (helper of all others; public in `PackedWrite`) -/

/-- with a bound: `value − lower` in a field of `bitWidth (upper − lower)` bits, where a missing
    lower bound is 0 and a missing upper bound is `i64::MAX` (the function's contract) -/
theorem nnbi_field_pattern (lb ub : Option Nat) (v : Nat) (hb : lb.isSome ∨ ub.isSome)
    (h1 : lb.getD 0 ≤ v) (h2 : v ≤ ub.getD I64MAXu) :
    wNNBI lb ub v = ok (natBits (bitWidth (ub.getD I64MAXu - lb.getD 0)) (v - lb.getD 0)) := by
  rw [wNNBI_bounded lb ub v hb]; exact wNNBIc_ok lb ub v h1 h2

theorem nnbi_field_roundtrip (lb ub : Option Nat) (v : Nat) (post : Bits) (hb : lb.isSome ∨ ub.isSome)
    (h1 : lb.getD 0 ≤ v) (h2 : v ≤ ub.getD I64MAXu) (hv : v ≤ U64_MAX) :
    rNNBI lb ub (natBits (bitWidth (ub.getD I64MAXu - lb.getD 0)) (v - lb.getD 0) ++ post)
      = ok (v, post) := by
  rw [rNNBI_bounded lb ub _ hb]; exact rNNBIc_rt lb ub v post h1 h2 hv

theorem nnbi_field_rejects (lb ub : Option Nat) (v : Nat) (hb : lb.isSome ∨ ub.isSome)
    (h : v < lb.getD 0 ∨ ub.getD I64MAXu < v) : ∃ k, wNNBI lb ub v = err k := by
  rw [wNNBI_bounded lb ub v hb]; exact ⟨_, wNNBIc_err lb ub v h⟩

/-- without bounds: minimum octets preceded by their count (the body of 11.7) -/
theorem nnbi_unbounded_pattern (v : Nat) (hv : v ≤ U64_MAX) :
    wNNBI none none v = ok (X691.semiNat v) := wNNBI_unb v hv

theorem nnbi_unbounded_roundtrip (v : Nat) (post : Bits) (hv : v ≤ U64_MAX) :
    rNNBI none none (X691.semiNat v ++ post) = ok (v, post) := rNNBI_unb v post hv

theorem nnbi_read_total (lb ub : Option Nat) : ReadTotal (rNNBI lb ub) :=
  readTotal_of_good (good_rNNBI lb ub)

example : (some 3 : Option Nat).isSome ∨ (none : Option Nat).isSome := Or.inl rfl
example : wNNBI (some 3) (some 10) 7 = ok [true, false, false] := by decide
example : ∃ k, wNNBI (some 3) (some 10) 11 = err k := ⟨.valueNotInRange, by decide⟩

/-! ### 11.4 2's-complement-binary-integer (public in `PackedWrite`) -/

/-- any `i64` in a field of `1 ≤ w ≤ 64` bits: `v mod 2^w` (for a value outside the range of `w`
    bits these are the low bits — the callers of this function never do that, see
    `unconstrained_pattern`) -/
theorem twos_pattern (w : Nat) (v : Int) (h1 : 1 ≤ w) (h2 : w ≤ 64) :
    w2s w v = ok (X691.twos w v) := w2s_ok w v h1 h2

theorem twos_roundtrip (w : Nat) (v : Int) (post : Bits) (h1 : 1 ≤ w) (h2 : w ≤ 64)
    (hl : -(2 : Int) ^ (w - 1) ≤ v) (hu : v < (2 : Int) ^ (w - 1)) :
    r2s w (X691.twos w v ++ post) = ok (v, post) := r2s_rt w v post h1 h2 hl hu

theorem twos_rejects (w : Nat) (v : Int) (h : w = 0 ∨ 64 < w) : ∃ k, w2s w v = err k :=
  ⟨_, w2s_err w v h⟩

theorem twos_read_total (w : Nat) : ReadTotal (r2s w) := readTotal_of_good (good_r2s w)

example : w2s 8 (-2) = ok [true, true, true, true, true, true, true, false] := by decide
example : -(2 : Int) ^ (8 - 1) ≤ -128 ∧ (-128 : Int) < (2 : Int) ^ (8 - 1) := by decide
example : ∃ k, w2s 65 1 = err k := ⟨.bitLenNotInRange, by decide⟩

/-! ### 11.5 constrained whole number -/

theorem constrained_pattern (lb ub v : Int) (h1 : lb ≤ v) (h2 : v ≤ ub) :
    wConstrained lb ub v = ok (X691.constrained lb ub v) := wConstrained_ok lb ub v h1 h2

theorem constrained_roundtrip (lb ub v : Int) (post : Bits) (h1 : lb ≤ v) (h2 : v ≤ ub)
    (hl : I64_MIN ≤ lb) (hu : ub ≤ I64_MAX) :
    rConstrained lb ub (X691.constrained lb ub v ++ post) = ok (v, post) :=
  rConstrained_rt lb ub v post h1 h2 hl hu

/-- `v < lb`, `v > ub` and also every `v` when `lb > ub` -/
theorem constrained_rejects (lb ub v : Int) (h : ¬ (lb ≤ v ∧ v ≤ ub)) :
    ∃ k, wConstrained lb ub v = err k :=
  ⟨_, wConstrained_err lb ub v (by omega)⟩

theorem constrained_read_total (lb ub : Int) : ReadTotal (rConstrained lb ub) :=
  readTotal_of_good (good_rConstrained lb ub)

example : wConstrained (-3) 4 1 = ok [true, false, false] := by decide
example : wConstrained I64_MIN I64_MAX (-1) = ok (false :: List.replicate 63 true) := by decide
example : ∃ k, wConstrained 5 5 7 = err k := ⟨.valueNotInRange, by decide⟩
example : ∃ k, wConstrained 5 4 5 = err k := ⟨.valueNotInRange, by decide⟩

/-! ### 11.7 semi-constrained whole number -/

theorem semi_pattern (lb v : Int) (h : lb ≤ v) (hl : I64_MIN ≤ lb) (hv : v ≤ I64_MAX) :
    wSemi lb v = ok (X691.semi lb v) := wSemi_ok lb v h hl hv

theorem semi_roundtrip (lb v : Int) (post : Bits) (h : lb ≤ v) (hl : I64_MIN ≤ lb)
    (hv : v ≤ I64_MAX) : rSemi lb (X691.semi lb v ++ post) = ok (v, post) :=
  rSemi_rt lb v post h hl hv

theorem semi_rejects (lb v : Int) (h : v < lb) : ∃ k, wSemi lb v = err k := ⟨_, wSemi_err lb v h⟩

theorem semi_read_total (lb : Int) : ReadTotal (rSemi lb) := readTotal_of_good (good_rSemi lb)

/-- the specification's octet count really is "the minimum number of octets" -/
theorem semi_spec_minimal (n : Nat) :
    n < 2 ^ (8 * X691.nnOctets n) ∧ ∀ k, 1 ≤ k → n < 2 ^ (8 * k) → X691.nnOctets n ≤ k :=
  ⟨lt_two_pow_nnOctets n, fun k hk h => nnOctets_min n k hk h⟩

example : wSemi 5 5 = ok (X691.semi 5 5) ∧
    X691.semi 5 5 = [false, false, false, false, false, false, false, true] ++ List.replicate 8 false := by
  decide
example : wSemi I64_MIN I64_MAX = ok (List.replicate 4 false ++ [true, false, false, false]
    ++ List.replicate 64 true) := by decide

/-! ### 11.8 unconstrained whole number -/

theorem unconstrained_pattern (v : Int) (hl : I64_MIN ≤ v) (hu : v ≤ I64_MAX) :
    wUnconstrained v = ok (X691.unconstrained v) := wUnconstrained_ok v hl hu

theorem unconstrained_roundtrip (v : Int) (post : Bits) (hl : I64_MIN ≤ v) (hu : v ≤ I64_MAX) :
    rUnconstrained (X691.unconstrained v ++ post) = ok (v, post) := rUnconstrained_rt v post hl hu

theorem unconstrained_read_total : ReadTotal rUnconstrained :=
  readTotal_of_good good_rUnconstrained

/-- the specification's octet count is the least `k ≥ 1` with `−2^(8k−1) ≤ v < 2^(8k−1)` -/
theorem unconstrained_spec_minimal (v : Int) :
    (-(2 : Int) ^ (8 * X691.twosOctets v - 1) ≤ v ∧ v < (2 : Int) ^ (8 * X691.twosOctets v - 1)) ∧
    ∀ k, 1 ≤ k → -(2 : Int) ^ (8 * k - 1) ≤ v → v < (2 : Int) ^ (8 * k - 1) →
      X691.twosOctets v ≤ k :=
  ⟨twosOctets_range v, fun k hk h1 h2 => twosOctets_min v k hk h1 h2⟩

example : wUnconstrained (-129) = ok ([false, false, false, false, false, false, true, false] ++
    [true, true, true, true, true, true, true, true, false, true, true, true, true, true, true, true]) := by
  decide
example : X691.unconstrained 128 = [false, false, false, false, false, false, true, false] ++
    [false, false, false, false, false, false, false, false, true, false, false, false, false, false, false, false] := by
  decide

/-! ### 11.6 normally small non-negative whole number (every `u64` is admissible) -/

theorem small_pattern (v : Nat) (hv : v ≤ U64_MAX) : wSmall v = ok (X691.small v) := wSmall_ok v hv

theorem small_roundtrip (v : Nat) (post : Bits) (hv : v ≤ U64_MAX) :
    rSmall (X691.small v ++ post) = ok (v, post) := rSmall_rt v post hv

theorem small_read_total : ReadTotal rSmall := readTotal_of_good good_rSmall

example : wSmall 63 = ok [false, true, true, true, true, true, true] := by decide
example : wSmall 64 = ok ([true] ++ [false, false, false, false, false, false, false, true] ++
    [false, true, false, false, false, false, false, false]) := by decide

/-! ### 14 / 23 enumeration and choice index -/

theorem index_pattern (std : Nat) (ext : Bool) (i : Nat) (h : i < std ∨ ext = true)
    (hi : i ≤ U64_MAX) : wIndex std ext i = ok (X691.index std ext i) := by
  by_cases c : i < std
  · exact wIndex_root std ext i c
  · have he : ext = true := by
      rcases h with h | h
      · exact absurd h c
      · exact h
    subst he
    exact wIndex_ext std i (by omega) hi

theorem index_roundtrip (std : Nat) (ext : Bool) (i : Nat) (post : Bits) (h : i < std ∨ ext = true)
    (hs : std ≤ U64_MAX) (hi : i ≤ U64_MAX) :
    rIndex std ext (X691.index std ext i ++ post) = ok (i, post) := rIndex_rt std ext i post h hs hi

theorem index_rejects (std i : Nat) (h : std ≤ i) : ∃ k, wIndex std false i = err k :=
  ⟨_, wIndex_err std i h⟩

theorem index_read_total (std : Nat) (ext : Bool) : ReadTotal (rIndex std ext) :=
  readTotal_of_good (good_rIndex std ext)

example : wIndex 5 true 2 = ok [false, false, true, false] := by decide
example : wIndex 5 true 7 = ok [true, false, false, false, false, false, true, false] := by decide
example : wIndex 1 false 0 = ok [] := by decide
example : ∃ k, wIndex 5 false 5 = err k := ⟨.invalidChoiceIndex, by decide⟩

/-! ### 11.9 length determinant -/

/-- admissible length for the bounds -/
def LenAdm (lb ub : Option Nat) (v : Nat) : Prop := lb.getD 0 ≤ v ∧ ∀ u, ub = some u → v ≤ u

/-- bits *and* the announced fragment size (`none`: the whole length is announced) -/
theorem len_pattern_partial (lb ub : Option Nat) (v : Nat) (hd : ¬ LenDeviates lb ub)
    (h : LenAdm lb ub v) : wLen lb ub v = ok (X691.len lb ub v) :=
  wLen_pattern lb ub v hd h.1 h.2

/-- the reader returns what was announced: `v`, or the fragment size `m·16K` (11.9.3.8) -/
theorem len_roundtrip_partial (lb ub : Option Nat) (v : Nat) (post : Bits) (hd : ¬ LenDeviates lb ub)
    (h : LenAdm lb ub v) :
    rLen lb ub ((X691.len lb ub v).1 ++ post) = ok ((X691.len lb ub v).2.getD v, post) :=
  rLen_pattern lb ub v post hd h.1 h.2

theorem len_rejects_partial (lb ub : Option Nat) (v : Nat) (hd : ¬ LenDeviates lb ub)
    (h : ¬ LenAdm lb ub v) : ∃ k, wLen lb ub v = err k := by
  apply wLen_rejects lb ub v hd
  unfold LenAdm at h
  by_cases h1 : lb.getD 0 ≤ v
  · right
    cases ub with
    | none => exact absurd ⟨h1, fun u hu => by cases hu⟩ h
    | some u =>
      refine ⟨u, rfl, ?_⟩
      apply Nat.lt_of_not_le; intro hle
      exact h ⟨h1, fun u' hu' => by cases hu'; exact hle⟩
  · left; omega

theorem len_read_total (lb ub : Option Nat) : ReadTotal (rLen lb ub) :=
  readTotal_of_good (good_rLen lb ub)

/-- the unconstrained form for EVERY length, with the fragment announced -/
theorem len_unconstrained_pattern (v : Nat) : wLen none none v = ok (X691.lenU v) := wLen_unc v

/-- the full statements … -/
def len_pattern_full : Prop :=
  ∀ (lb ub : Option Nat) (v : Nat), OptU64 lb → OptU64 ub → v ≤ U64_MAX → LenAdm lb ub v →
    wLen lb ub v = ok (X691.len lb ub v)

def len_roundtrip_full : Prop :=
  ∀ (lb ub : Option Nat) (v : Nat) (post : Bits), OptU64 lb → OptU64 ub → v ≤ U64_MAX →
    LenAdm lb ub v →
    rLen lb ub ((X691.len lb ub v).1 ++ post) = ok ((X691.len lb ub v).2.getD v, post)

def len_rejects_full : Prop :=
  ∀ (lb ub : Option Nat) (v : Nat), OptU64 lb → OptU64 ub → v ≤ U64_MAX → ¬ LenAdm lb ub v →
    ∃ k, wLen lb ub v = err k

theorem optU64_none : OptU64 none := fun _ h => by cases h
theorem optU64_some {x : Nat} (h : x ≤ U64_MAX) : OptU64 (some x) := fun _ e => by cases e; exact h

/-- … are false for the current code (finding F-64k): `SIZE(1..MAX)` with one element is written
    as 63 zero bits, X.691 11.9.4.2 demands `0 0000001` -/
theorem len_pattern_full_false : ¬ len_pattern_full := fun h => by
  have := h (some 1) none 1 (optU64_some (by decide)) optU64_none (by decide)
    ⟨by decide, fun u hu => by cases hu⟩
  revert this; decide

theorem len_roundtrip_full_false : ¬ len_roundtrip_full := fun h => by
  have := h (some 1) none 1 [] (optU64_some (by decide)) optU64_none (by decide)
    ⟨by decide, fun u hu => by cases hu⟩
  revert this; decide

/-- `lb = ub ≥ 64K`: nothing is written and the value is not looked at -/
theorem len_rejects_full_false : ¬ len_rejects_full := fun h => by
  have := h (some 70000) (some 70000) 5 (optU64_some (by decide)) (optU64_some (by decide))
    (by decide) (fun h => absurd h.1 (by decide))
  obtain ⟨k, hk⟩ := this
  have h5 : wLen (some 70000) (some 70000) 5 = ok ([], none) := by decide
  rw [h5] at hk; cases hk

/-- What does hold in EVERY region, the deviating one included: writer and reader of the length
    determinant are inverse to each other on admissible lengths (no fragment announced there). -/
theorem len_selfconsistent (lb ub : Option Nat) (v : Nat) (bits post : Bits)
    (hw : wLen lb ub v = ok (bits, none)) (h1 : lb.getD 0 ≤ v) (h2 : v ≤ ub.getD I64MAXu)
    (hv : v ≤ U64_MAX) : rLen lb ub (bits ++ post) = ok (v, post) :=
  rLen_wLen lb ub v bits post hw h1 h2 hv

/-- in the deviating region the writer never announces a fragment (so `len_selfconsistent`
    applies to everything it accepts) and refuses lengths outside non-degenerate bounds -/
theorem len_deviating_no_fragment (lb ub : Option Nat) (v : Nat) (hdr : Bits) (f : Option Nat)
    (hd : LenDeviates lb ub) (hw : wLen lb ub v = ok (hdr, f)) : f = none := by
  have hs : (lb.isSome || ub.isSome) = true := by
    rcases hd.1 with h | h <;> simp [h]
  exact wLen_bounded_none lb ub v hdr f hs hw

/-- … and, unless `lb = ub`, refuses what lies outside the bounds -/
theorem len_deviating_rejects (lb ub : Option Nat) (v : Nat) (hd : LenDeviates lb ub) (hne : lb ≠ ub)
    (h : v < lb.getD 0 ∨ ub.getD I64MAXu < v) : ∃ k, wLen lb ub v = err k := by
  have hs : (lb.isSome || ub.isSome) = true := by
    rcases hd.1 with h | h <;> simp [h]
  exact ⟨_, wLen_dev_rejects lb ub v hs hd.2 hne h⟩

example : ¬ LenDeviates (some 3) (some 65535) ∧ LenAdm (some 3) (some 65535) 300 :=
  ⟨by decide, by decide, fun u hu => by cases hu; decide⟩
example : ¬ LenDeviates none none := by decide
example : LenDeviates (some 1) none ∧ LenDeviates none (some 65536) := by decide
example : wLen none none 100000 = ok ([true, true, false, false, false, true, false, false], some 65536) := by
  decide
example : wLen (some 1) (some 70000) 2 = ok (List.replicate 16 false ++ [true], none) := by decide
example : ∃ k, wLen (some 1) (some 70000) 70001 = err k := ⟨.valueNotInRange, by decide⟩

/-! ### 17 OCTET STRING -/

/-- admissible: the size is in the root, or the constraint is extensible -/
def StrAdm (lb ub : Option Nat) (ext : Bool) (n : Nat) : Prop :=
  ext = true ∨ X691.inRoot lb ub n = true

theorem octets_pattern_partial (lb ub : Option Nat) (ext : Bool) (s : List (BitVec 8))
    (hd : ¬ LenDeviates lb ub) (hn : s.length ≤ I64MAXu) (h : StrAdm lb ub ext s.length) :
    wOctets lb ub ext s = ok (X691.octets lb ub ext s) := wOctets_pattern lb ub ext s hd hn h

/-- every length, every fragment count -/
theorem octets_roundtrip_partial (lb ub : Option Nat) (ext : Bool) (s : List (BitVec 8))
    (post : Bits) (hd : ¬ LenDeviates lb ub) (hub : OptU64 ub) (hn : s.length ≤ I64MAXu)
    (h : StrAdm lb ub ext s.length) :
    rOctets lb ub ext (X691.octets lb ub ext s ++ post) = ok (s, post) :=
  rOctets_wOctets lb ub ext s _ post hub (wOctets_pattern lb ub ext s hd hn h)

/-- full: every shape of bounds, F-64k included -/
theorem octets_rejects (lb ub : Option Nat) (s : List (BitVec 8))
    (h : X691.inRoot lb ub s.length = false) : ∃ k, wOctets lb ub false s = err k :=
  ⟨_, wOctets_rejects lb ub s (not_inRoot_outOfRange lb ub _ h)⟩

theorem octets_read_total (lb ub : Option Nat) (ext : Bool) : ReadTotal (rOctets lb ub ext) :=
  readTotal_of_good (good_rOctets lb ub ext)

/-- full: whatever `wOctets` accepts — any bounds (also the deviating ones), any length, any
    number of fragments — `rOctets` reads back, consuming exactly the written bits -/
theorem octets_selfconsistent (lb ub : Option Nat) (ext : Bool) (s : List (BitVec 8))
    (bits post : Bits) (hub : OptU64 ub) (hw : wOctets lb ub ext s = ok bits) :
    rOctets lb ub ext (bits ++ post) = ok (s, post) :=
  rOctets_wOctets lb ub ext s bits post hub hw

/-- the unconstrained fragmented form for every length (the fragment loop alone) -/
theorem octets_fragments_pattern (s : List (BitVec 8)) :
    wOctFrag s = ok (X691.fragU bytesBits s) := wOctFrag_eq _ s rfl

def octets_pattern_full : Prop :=
  ∀ (lb ub : Option Nat) (ext : Bool) (s : List (BitVec 8)), OptU64 lb → OptU64 ub →
    s.length ≤ I64MAXu → StrAdm lb ub ext s.length →
    wOctets lb ub ext s = ok (X691.octets lb ub ext s)

def octets_roundtrip_full : Prop :=
  ∀ (lb ub : Option Nat) (ext : Bool) (s : List (BitVec 8)) (post : Bits), OptU64 lb → OptU64 ub →
    s.length ≤ I64MAXu → StrAdm lb ub ext s.length →
    rOctets lb ub ext (X691.octets lb ub ext s ++ post) = ok (s, post)

/-- X.691 for `OCTET STRING (SIZE(1..MAX))`, value `'00'H`: `00000001 00000000` -/
theorem x691_octets_witness : X691.octets (some 1) none false [0#8] =
    [false, false, false, false, false, false, false, true] ++ List.replicate 8 false := by
  unfold X691.octets X691.sized
  rw [fragU_lt _ _ (by decide)]
  decide

theorem octets_pattern_full_false : ¬ octets_pattern_full := fun h => by
  have := h (some 1) none false [0#8] (optU64_some (by decide)) optU64_none (by decide)
    (Or.inr (by decide))
  rw [x691_octets_witness] at this
  revert this; decide

theorem octets_roundtrip_full_false : ¬ octets_roundtrip_full := fun h => by
  have := h (some 1) none false [0#8] [] (optU64_some (by decide)) optU64_none (by decide)
    (Or.inr (by decide))
  rw [x691_octets_witness] at this
  revert this; decide

/-- the specification itself: an exact multiple of 16K ends with the zero length octet
    (11.9.3.8 NOTE) -/
theorem fragments_exact_multiple {α : Type} (enc : List α → Bits) (s : List α)
    (h : s.length = 16384) :
    X691.fragU enc s = [true, true, false, false, false, false, false, true] ++ enc s ++
      (List.replicate 8 false ++ enc []) := by
  have h1 : min (s.length / 16384) 4 * 16384 = s.length := by rw [h]; decide
  have e1 : (X691.lenU 16384).1 = [true, true, false, false, false, false, false, true] := by decide
  have e2 : (X691.lenU 0).1 = List.replicate 8 false := by decide
  rw [fragU_ge _ _ (by omega), h1, List.take_length, List.drop_length,
    fragU_lt _ _ (by rw [List.length_nil]; omega), List.length_nil, h, e1, e2]

/-- non-vacuity with fragments: 40000 octets (32K fragment + 7232 octets), followed by data -/
example : rOctets none none false
    (X691.octets none none false (List.replicate 40000 0xA5#8) ++ [true, false]) =
    ok (List.replicate 40000 0xA5#8, [true, false]) :=
  octets_roundtrip_partial none none false _ _ (by decide) optU64_none
    (by rw [List.length_replicate, I64MAXu_eq]; omega)
    (Or.inr (by rw [List.length_replicate]; decide))

example : ¬ LenDeviates (some 2) (some 5) ∧ StrAdm (some 2) (some 5) true 7 :=
  ⟨by decide, Or.inl rfl⟩
example : wOctets (some 2) (some 5) true [1#8, 2#8, 3#8] = ok ([false] ++ [false, true] ++
    bytesBits [1#8, 2#8, 3#8]) := by decide
example : wOctets (some 1) (some 70000) false [0xff#8] = ok (List.replicate 17 false ++
    List.replicate 8 true) := by decide
example : ∃ k, wOctets (some 2) (some 5) false [1#8] = err k := ⟨.sizeNotInRange, by decide⟩

/-! ### 16 BIT STRING -/

theorem bitstring_pattern_partial (lb ub : Option Nat) (ext : Bool) (s : Bits)
    (hd : ¬ LenDeviates lb ub) (hn : s.length ≤ I64MAXu) (h : StrAdm lb ub ext s.length) :
    wBitString lb ub ext s = ok (X691.bitString lb ub ext s) := wBitString_pattern lb ub ext s hd hn h

theorem bitstring_roundtrip_partial (lb ub : Option Nat) (ext : Bool) (s post : Bits)
    (hd : ¬ LenDeviates lb ub) (hub : OptU64 ub) (hn : s.length ≤ I64MAXu)
    (h : StrAdm lb ub ext s.length) :
    rBitString lb ub ext (X691.bitString lb ub ext s ++ post) = ok (s, post) :=
  rBitString_wBitString lb ub ext s _ post hub (wBitString_pattern lb ub ext s hd hn h)

theorem bitstring_rejects (lb ub : Option Nat) (s : Bits)
    (h : X691.inRoot lb ub s.length = false) : ∃ k, wBitString lb ub false s = err k :=
  ⟨_, wBitString_rejects lb ub s (not_inRoot_outOfRange lb ub _ h)⟩

theorem bitstring_read_total (lb ub : Option Nat) (ext : Bool) : ReadTotal (rBitString lb ub ext) :=
  readTotal_of_good (good_rBitString lb ub ext)

theorem bitstring_selfconsistent (lb ub : Option Nat) (ext : Bool) (s bits post : Bits)
    (hub : OptU64 ub) (hw : wBitString lb ub ext s = ok bits) :
    rBitString lb ub ext (bits ++ post) = ok (s, post) :=
  rBitString_wBitString lb ub ext s bits post hub hw

theorem bitstring_fragments_pattern (s : Bits) : wBitFrag s = ok (X691.fragU id s) :=
  wBitFrag_eq _ s rfl

def bitstring_pattern_full : Prop :=
  ∀ (lb ub : Option Nat) (ext : Bool) (s : Bits), OptU64 lb → OptU64 ub →
    s.length ≤ I64MAXu → StrAdm lb ub ext s.length →
    wBitString lb ub ext s = ok (X691.bitString lb ub ext s)

def bitstring_roundtrip_full : Prop :=
  ∀ (lb ub : Option Nat) (ext : Bool) (s post : Bits), OptU64 lb → OptU64 ub →
    s.length ≤ I64MAXu → StrAdm lb ub ext s.length →
    rBitString lb ub ext (X691.bitString lb ub ext s ++ post) = ok (s, post)

/-- X.691 for `BIT STRING (SIZE(0..65536))`, value `'1'B`: `00000001 1` -/
theorem x691_bitstring_witness : X691.bitString none (some 65536) false [true] =
    [false, false, false, false, false, false, false, true, true] := by
  unfold X691.bitString X691.sized
  rw [fragU_lt _ _ (by decide)]
  decide

theorem bitstring_pattern_full_false : ¬ bitstring_pattern_full := fun h => by
  have := h none (some 65536) false [true] optU64_none (optU64_some (by decide)) (by decide)
    (Or.inr (by decide))
  rw [x691_bitstring_witness] at this
  revert this; decide

theorem bitstring_roundtrip_full_false : ¬ bitstring_roundtrip_full := fun h => by
  have := h none (some 65536) false [true] [] optU64_none (optU64_some (by decide)) (by decide)
    (Or.inr (by decide))
  rw [x691_bitstring_witness] at this
  revert this; decide

/-- non-vacuity with fragments: 100000 bits (64K + 32K fragments + 1696 bits), extension form -/
example : rBitString (some 0) (some 10) true
    (X691.bitString (some 0) (some 10) true (List.replicate 100000 true) ++ [false]) =
    ok (List.replicate 100000 true, [false]) :=
  bitstring_roundtrip_partial (some 0) (some 10) true _ _ (by decide) (optU64_some (by decide))
    (by rw [List.length_replicate, I64MAXu_eq]; omega) (Or.inl rfl)

example : wBitString (some 3) (some 3) false [true, false, true] = ok [true, false, true] := by decide
example : wBitString none none false [true, false, true] = ok ([false, false, false, false, false,
    false, true, true] ++ [true, false, true]) := by decide
example : wBitString none (some 65536) false [true] = ok (List.replicate 16 false ++ [true, true]) := by
  decide
example : ∃ k, wBitString (some 3) (some 3) false [true] = err k := ⟨.sizeNotInRange, by decide⟩

end Asn1Verif.Props.C10
