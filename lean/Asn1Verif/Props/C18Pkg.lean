import Asn1Verif.Proto.PackageLemmas
/-
  C18 ("for every module, the generated .proto file is valid proto3"), the part that is decided by
  proof: the `package` line and the file name.

  Model: Proto/Package.lean (`model_name`, `model_file_name`, `model_to_package` of
  generate/protobuf.rs as they are after ae3699b, fed with `make_name_nice` + `rust_module_name(_,
  false)` as `Converter::to_protobuf` does); tied to the code by the stream `proto-package`
  (ops `proto package`, `proto package-fn`).  Grammar: `FullIdent` = protoc's reading of
  `fullIdent = ident { "." ident }`, `ident = [A-Za-z_][A-Za-z0-9_]*`.

  Results
  * `package_valid`: for every name over `[A-Za-z0-9_-]` (a superset of X.680 12.2, and every such
    name without `--` is a single tokenizer token: `alphabet_is_one_token`) the package is empty
    exactly when `make_name_nice` leaves no letter or digit, otherwise it is a `fullIdent` whose
    components have the shape `[a-z_][a-z0-9]*`.
  * `package_line_valid` (the statement C18 needs: the line `package …;` is proto3) is FALSE: module
    `Module` (a legal X.680 module reference) is renamed to the empty string by `make_name_nice` and
    gets `package ;`.  `package_line_valid_iff` says exactly which names are affected, without any
    hypothesis; `package_line_valid_partial` is the positive half for X.680 names.
  * `package_valid_all_tokens` (the same over everything the tokenizer delivers as one text token)
    is FALSE as well: `A+B` gives `package a+b;`; the parser does not check module names.
  * object identifier branch: `oid_component_valid`, `oid_component_sharp`, `oid_package_valid`;
    the only invalid outcome over the alphabet is the empty identifier `{ }` (not X.680, accepted by
    `read_oid`): `oid_package_line_valid_false`.
  * `file_name_shape`; a `/` in a module name token goes into the file name
    (`file_name_shape_all_tokens_false`).
-/
namespace Asn1Verif.Props.C18Pkg
open Asn1Verif.Codegen.Names Asn1Verif.Proto.Package

/-! ### regression: the witnesses of the defect repaired in ae3699b, and friends -/

example :
    packageOfModule "ISO-8859".toList none = "iso._8859".toList ∧
    makeNameNice "Fleet-Module".toList = "Fleet-".toList ∧
    packageOfModule "Fleet-Module".toList none = "fleet".toList ∧
    packageOfModule "Rnd-Mod-2".toList none = "rnd.mod._2".toList ∧
    packageOfModule "CAM-PDU-Descriptions".toList none = "cam.pdu.descriptions".toList ∧
    packageOfModule "PKIX1Explicit88".toList none = "pkix1explicit88".toList ∧
    fileNameOfModule "ISO-8859".toList = "iso_8859.proto".toList ∧
    fileNameOfModule "Fleet-Module".toList = "fleet_.proto".toList ∧
    packageOfModule "Oid-Mod".toList (some [.nameAndNumberForm "iso".toList 1,
      .nameAndNumberForm "standard".toList 0, .numberForm 4711]) = "iso.standard._4711".toList ∧
    packageOfModule "Oid-Mod".toList (some [.nameAndNumberForm "joint-iso-itu-t".toList 2,
      .nameForm "x-509".toList, .nameAndNumberForm "2nd".toList 2]) =
      "joint_iso_itu_t.x_509._2nd".toList := by decide

/-- the function itself (as `to_rust_keep_names()` would feed it): capitals split components -/
example :
    modelToPackage "ISO-8859".toList none = "iso._8859".toList ∧
    modelToPackage "My_ModuleDefs-2x".toList none = "my.module.defs._2x".toList ∧
    modelFileName "My-ModuleDefs".toList = "my__module_defs.proto".toList := by decide

/-! ### the alphabet -/

/-- every non-empty text over `[A-Za-z0-9_-]` without `--` is delivered by the tokenizer as one
    `Token::Text`: the theorems below speak about names that can really reach the generator -/
theorem alphabet_is_one_token (n : Name) (h : NameAlphabet n = true) (hne : n ≠ [])
    (hc : noCommentStart n = true) : TokenText n = true :=
  nameAlphabet_tokenText h hne hc

example : NameAlphabet "ISO-8859_x-Module".toList = true ∧ "ISO-8859_x-Module".toList ≠ [] ∧
    noCommentStart "ISO-8859_x-Module".toList = true := by decide

/-- X.680 names are over the alphabet -/
theorem asn_in_alphabet (n : Name) (h : AsnIdent n = true) : NameAlphabet n = true := by
  have hw := Asn1Verif.Proto.Package.nameAlphabet_iff n
  rw [hw]
  cases n with
  | nil => simp [AsnIdent] at h
  | cons c cs =>
    simp only [AsnIdent, Bool.and_eq_true, List.all_eq_true] at h
    intro d hd
    unfold nameChar
    rcases List.mem_cons.mp hd with rfl | hd
    · have : d.isAlphanum = true := by unfold Char.isAlphanum; simp [h.1.1]
      simp [this]
    · have := h.1.2 d hd
      simp only [Bool.or_eq_true] at this ⊢
      exact .inl this

/-! ### `package_valid` -/

/-- For every module name over `[A-Za-z0-9_-]`, the package computed without an object identifier
    is empty exactly when `make_name_nice` leaves no letter or digit of the name; otherwise it is a
    proto3 `fullIdent`, and each of its dot-separated components has the shape `[a-z_][a-z0-9]*`
    (so: non-empty, `[A-Za-z_][A-Za-z0-9_]*`). -/
theorem package_valid (n : Name) (h : NameAlphabet n = true) :
    (packageOfModule n none = [] ↔ hasAlnum (makeNameNice n) = false) ∧
    (packageOfModule n none ≠ [] →
      FullIdent (packageOfModule n none) = true ∧
      ∀ w ∈ splitOn '.' (packageOfModule n none), PkgComponent w = true ∧ ProtoIdent w = true) := by
  have hp : ∀ c ∈ pipelineName n, pathChar c = true :=
    fun c hc => lowIdc_pathChar (pipelineName_chars h c hc)
  have hnil : packageOfModule n none = [] ↔ hasAlnum (makeNameNice n) = false := by
    unfold packageOfModule
    rw [package_nil_iff, only_seps_iff hp, pipelineName_hasAlnum]
  refine ⟨hnil, fun hne => ?_⟩
  have ha : hasAlnum (pipelineName n) = true := by
    cases hx : hasAlnum (pipelineName n) with
    | true => rfl
    | false =>
      rw [pipelineName_hasAlnum] at hx
      exact absurd (hnil.mpr hx) hne
  refine ⟨(package_fullIdent_iff _).mpr ⟨hp, ha⟩, ?_⟩
  have hcomp : pathComponents (pipelineName n) ≠ [] := by
    intro h0
    apply hne
    unfold packageOfModule modelToPackage
    rw [h0]; rfl
  unfold packageOfModule
  rw [package_split _ hp hcomp]
  intro w hw
  have := pathComponents_shape _ hp w hw
  exact ⟨this, pkgComponent_ident this⟩

example : NameAlphabet "ISO-8859".toList = true ∧ packageOfModule "ISO-8859".toList none ≠ [] ∧
    splitOn '.' (packageOfModule "ISO-8859".toList none) = ["iso".toList, "_8859".toList] := by
  decide

/-- the same for the function on any argument over the alphabet (dots allowed), whatever produced
    it: `model_to_package(path, None)` -/
theorem package_valid_fn (path : Name) (h : ∀ c ∈ path, pathChar c = true) :
    (modelToPackage path none = [] ↔ hasAlnum path = false) ∧
    (modelToPackage path none ≠ [] →
      FullIdent (modelToPackage path none) = true ∧
      ∀ w ∈ splitOn '.' (modelToPackage path none), PkgComponent w = true) := by
  have hnil : modelToPackage path none = [] ↔ hasAlnum path = false := by
    rw [package_nil_iff, only_seps_iff h]
  refine ⟨hnil, fun hne => ?_⟩
  have ha : hasAlnum path = true := by
    cases hx : hasAlnum path with
    | true => rfl
    | false => exact absurd (hnil.mpr hx) hne
  refine ⟨(package_fullIdent_iff _).mpr ⟨h, ha⟩, ?_⟩
  have hcomp : pathComponents path ≠ [] := by
    intro h0
    apply hne
    unfold modelToPackage
    rw [h0]; rfl
  rw [package_split _ h hcomp]
  exact pathComponents_shape _ h

example : (∀ c ∈ "My_ModuleDefs-2x".toList, pathChar c = true) ∧
    modelToPackage "My_ModuleDefs-2x".toList none ≠ [] := by decide

/-! ### the `package` line as C18 needs it: a `fullIdent`, for every module -/

/-- FULL statement: every X.680 name, used as a module name, gets a `package` line that is
    proto3. -/
def package_line_valid : Prop :=
  ∀ n : Name, AsnIdent n = true → FullIdent (packageOfModule n none) = true

/-- FALSE for the current code: `Module DEFINITIONS ::= BEGIN … END` is given the name `""` by the
    parser (`make_name_nice`), the header line is `package ;`, the file is `.proto` -/
theorem package_line_valid_false : ¬ package_line_valid := by
  intro h
  exact absurd (h "Module".toList (by decide)) (by decide)

theorem module_Module_witness :
    AsnIdent "Module".toList = true ∧ makeNameNice "Module".toList = [] ∧
    packageOfModule "Module".toList none = [] ∧ FullIdent [] = false ∧
    fileNameOfModule "Module".toList = ".proto".toList := by decide

/-- EXACTLY which module names get a proto3 `package` line — no hypothesis on the name: what
    `make_name_nice` leaves of it is over `[A-Za-z0-9_.-]` and contains a letter or digit. -/
theorem package_line_valid_iff (n : Name) :
    FullIdent (packageOfModule n none) = true ↔
      (∀ c ∈ makeNameNice n, pathChar c = true) ∧ hasAlnum (makeNameNice n) = true :=
  packageOfModule_fullIdent_iff n

/-- for an X.680 name the excluded region is the single name `Module` -/
theorem asn_excluded_iff (n : Name) (h : AsnIdent n = true) :
    hasAlnum (makeNameNice n) = false ↔ n = "Module".toList :=
  asn_nice_no_alnum_iff h

/-- PARTIAL form of `package_line_valid`: every X.680 name other than `Module` -/
theorem package_line_valid_partial (n : Name) (h : AsnIdent n = true)
    (hm : n ≠ "Module".toList) : FullIdent (packageOfModule n none) = true := by
  rw [package_line_valid_iff]
  constructor
  · intro c hc
    exact nameChar_pathChar
      ((Asn1Verif.Proto.Package.nameAlphabet_iff _).mp (nameAlphabet_nice (asn_in_alphabet n h)) c hc)
  · cases hx : hasAlnum (makeNameNice n) with
    | true => rfl
    | false => exact absurd ((asn_excluded_iff n h).mp hx) hm

example : AsnIdent "My-Module".toList = true ∧ "My-Module".toList ≠ "Module".toList ∧
    packageOfModule "My-Module".toList none = "my".toList := by decide

/-- over the whole alphabet the excluded names are those of which only `-` and `_` are left -/
theorem package_line_valid_alphabet (n : Name) (h : NameAlphabet n = true)
    (ha : hasAlnum (makeNameNice n) = true) : FullIdent (packageOfModule n none) = true := by
  rw [package_line_valid_iff]
  exact ⟨fun c hc => nameChar_pathChar
    ((Asn1Verif.Proto.Package.nameAlphabet_iff _).mp (nameAlphabet_nice h) c hc), ha⟩

example : NameAlphabet "-_9-Module".toList = true ∧
    hasAlnum (makeNameNice "-_9-Module".toList) = true ∧
    packageOfModule "-_9-Module".toList none = "_9".toList := by decide

/-! ### everything the tokenizer lets through -/

/-- FULL statement over every (ASCII) text the tokenizer delivers as one token: empty or a
    `fullIdent`. -/
def package_valid_all_tokens : Prop :=
  ∀ n : Name, TokenText n = true →
    packageOfModule n none = [] ∨ FullIdent (packageOfModule n none) = true

/-- FALSE: the parser takes any text token as the module name; `A+B` gives `package a+b;` -/
theorem package_valid_all_tokens_false : ¬ package_valid_all_tokens := by
  intro h
  rcases h "A+B".toList (by decide) with h1 | h1
  · exact absurd h1 (by decide)
  · exact absurd h1 (by decide)

theorem token_plus_witness :
    TokenText "A+B".toList = true ∧ packageOfModule "A+B".toList none = "a+b".toList ∧
    FullIdent "a+b".toList = false := by decide

/-- PARTIAL form: the excluded region is "some character outside `[A-Za-z0-9_-]`"; by
    `package_line_valid_iff` the hypothesis is sharp (any such character other than `.`, which no
    token contains, that survives `make_name_nice` makes the package invalid). -/
theorem package_valid_all_tokens_partial (n : Name) (_ht : TokenText n = true)
    (h : NameAlphabet n = true) :
    packageOfModule n none = [] ∨ FullIdent (packageOfModule n none) = true := by
  by_cases he : packageOfModule n none = []
  · exact .inl he
  · exact .inr ((package_valid n h).2 he).1

example : TokenText "Ends-With-".toList = true ∧ NameAlphabet "Ends-With-".toList = true := by
  decide

/-! ### the object identifier branch -/

/-- every component — `NameForm` / `NameAndNumberForm` with a non-empty name over the alphabet,
    `NumberForm` with any number — is printed as `[a-z_][a-z0-9_]*`, hence as a proto3 `ident` -/
theorem oid_component_valid (c : OidComp) (h : OidCompOk c = true) :
    LowerIdent (oidCompPackage c) = true ∧ ProtoIdent (oidCompPackage c) = true :=
  ⟨oidCompPackage_shape h, lowerIdent_ident (oidCompPackage_shape h)⟩

example : OidCompOk (.nameAndNumberForm "2nd-Edition".toList 2) = true ∧
    oidCompPackage (.nameAndNumberForm "2nd-Edition".toList 2) = "_2nd_edition".toList := by
  decide

/-- exactly which name spellings give an invalid identifier — no hypothesis on the name: the empty
    one, and every one with a character outside `[A-Za-z0-9_-]` (both name forms alike) -/
theorem oid_component_sharp (name : Name) (k : Nat) :
    (ProtoIdent (oidCompPackage (.nameForm name)) = true ↔
      (name ≠ [] ∧ NameAlphabet name = true)) ∧
    oidCompPackage (.nameAndNumberForm name k) = oidCompPackage (.nameForm name) := by
  refine ⟨?_, rfl⟩
  rw [oidCompPackage_name_ident_iff]
  simp only [OidCompOk, Bool.and_eq_true, Bool.not_eq_true', List.isEmpty_eq_false_iff]

/-- a number is printed as `_<decimal digits>` -/
theorem oid_number_component (k : Nat) :
    oidCompPackage (.numberForm k) = '_' :: Nat.toDigits 10 k :=
  oidCompPackage_number k

/-- the package of a module with an object identifier: one component per identifier component,
    empty exactly for the empty identifier, otherwise a `fullIdent` -/
theorem oid_package_valid (path : Name) (oid : Oid) (h : ∀ c ∈ oid, OidCompOk c = true) :
    (modelToPackage path (some oid) = [] ↔ oid = []) ∧
    (oid ≠ [] →
      FullIdent (modelToPackage path (some oid)) = true ∧
      splitOn '.' (modelToPackage path (some oid)) = oid.map oidCompPackage) := by
  have hid : ∀ w ∈ oid.map oidCompPackage, ProtoIdent w = true := by
    intro w hw
    obtain ⟨c, hc, rfl⟩ := List.mem_map.mp hw
    exact (oid_component_valid c (h c hc)).2
  have hne : ∀ w ∈ oid.map oidCompPackage, w ≠ [] := by
    intro w hw h0
    have := hid w hw
    rw [h0] at this; exact absurd this (by decide)
  unfold modelToPackage
  refine ⟨?_, fun ho => ?_⟩
  · rw [joinWith_eq_nil_iff _ hne, List.map_eq_nil_iff]
  · have hm : oid.map oidCompPackage ≠ [] := by rw [ne_eq, List.map_eq_nil_iff]; exact ho
    refine ⟨fullIdent_joinWith_of_idents _ hm hid, ?_⟩
    exact splitOn_joinWith _ hm
      (fun w hw d hd => identCont_ne_dot (protoIdent_chars (hid w hw) d hd))

example : (∀ c ∈ ([.nameAndNumberForm "iso".toList 1, .numberForm 4711] : Oid), OidCompOk c = true) :=
  by decide

/-- FULL statement for this branch: a proto3 `package` line for every object identifier over the
    alphabet. -/
def oid_package_line_valid : Prop :=
  ∀ (path : Name) (oid : Oid), (∀ c ∈ oid, OidCompOk c = true) →
    FullIdent (modelToPackage path (some oid)) = true

/-- FALSE, but only for the empty identifier `X { } DEFINITIONS …` (`read_oid` returns
    `Some(ObjectIdentifier(vec![]))`; X.680 does not allow it): the module name is ignored and the
    line is `package ;` -/
theorem oid_package_line_valid_false : ¬ oid_package_line_valid := by
  intro h
  exact absurd (h "X".toList [] (by simp)) (by decide)

/-- PARTIAL form: every non-empty identifier -/
theorem oid_package_line_valid_partial (path : Name) (oid : Oid)
    (h : ∀ c ∈ oid, OidCompOk c = true) (hne : oid ≠ []) :
    FullIdent (modelToPackage path (some oid)) = true :=
  ((oid_package_valid path oid h).2 hne).1

/-! ### the file name -/

/-- the file of a module whose name is over the alphabet: `<stem>.proto`, no `/`, the stem over
    `[a-z0-9_]` and equal to the stem of the generated `.rs` file (C09's `emitModule`) -/
theorem file_name_shape (n : Name) (h : NameAlphabet n = true) :
    ".proto".toList <:+ fileNameOfModule n ∧ '/' ∉ fileNameOfModule n ∧
    fileNameOfModule n = emitModule n ++ ".proto".toList ∧
    ∀ d ∈ emitModule n, lowIdc d = true := by
  have hstem : ∀ d ∈ emitModule n, lowIdc d = true := by
    rw [emitModule_eq]; exact pipelineName_chars h
  refine ⟨proto_suffix _, ?_, fileNameOfModule_eq n, hstem⟩
  rw [fileNameOfModule_eq]
  intro hs
  rcases List.mem_append.mp hs with hs | hs
  · exact absurd (hstem _ hs) (by decide)
  · exact absurd hs (by decide)

example : NameAlphabet "CAM-PDU-Descriptions".toList = true ∧
    fileNameOfModule "CAM-PDU-Descriptions".toList = "cam_pdu_descriptions.proto".toList := by
  decide

/-- the functions on any argument: `.proto` at the end; a `/` comes out iff one goes in -/
theorem file_name_shape_fn (path : Name) :
    ".proto".toList <:+ modelFileName path ∧ ('/' ∈ modelFileName path ↔ '/' ∈ path) :=
  ⟨proto_suffix _, slash_mem_modelFileName path⟩

/-- … and in the pipeline -/
theorem file_name_slash_iff (n : Name) :
    '/' ∈ fileNameOfModule n ↔ '/' ∈ makeNameNice n := by
  unfold fileNameOfModule
  rw [slash_mem_modelFileName]
  exact slash_mem_moduleA _

/-- FULL statement over every token -/
def file_name_shape_all_tokens : Prop :=
  ∀ n : Name, TokenText n = true → '/' ∉ fileNameOfModule n

/-- FALSE: `/` is a text character of the tokenizer (only `/*` is special); module `A/B` is written
    to `a/b.proto`, module `/tmp/x` to `/tmp/x.proto` (`.` is a separator, so `..` cannot occur) -/
theorem file_name_shape_all_tokens_false : ¬ file_name_shape_all_tokens := by
  intro h
  exact absurd (h "/tmp/x".toList (by decide)) (by decide)

theorem token_slash_witness :
    TokenText "/tmp/x".toList = true ∧ fileNameOfModule "/tmp/x".toList = "/tmp/x.proto".toList :=
  by decide

/-! ### the grammar of the specification text -/

/-- The proto3 specification's `ident` starts with a letter; the code repairs a leading digit by
    a leading underscore, which protoc's tokenizer accepts as a letter.  Under the letter-only
    reading the repaired packages are not `fullIdent`s: the theorems above are about protoc's
    language (`FullIdent`), which is what `./check C18` validates files against. -/
theorem strict_reading_differs :
    FullIdent (packageOfModule "ISO-8859".toList none) = true ∧
    StrictFullIdent (packageOfModule "ISO-8859".toList none) = false ∧
    StrictFullIdent (packageOfModule "CAM-PDU-Descriptions".toList none) = true := by decide

end Asn1Verif.Props.C18Pkg
