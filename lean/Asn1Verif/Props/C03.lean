import Asn1Verif.Uper.SeqLemmas
import Asn1Verif.Uper.SeqReadLemmas
import Asn1Verif.Uper.RejTotalLemmas
/-
  C03 — OPTIONAL / DEFAULT / extension presence semantics for every SEQUENCE / SET shape.

  Property theorems only.  Models: `Uper/Impl.lean` (`enc`, `encFields`, `SeqAcc.step`; `dec`,
  `decFields` — the compositional mirror of `src/rw/uper.rs`, SET = SEQUENCE there), universe
  `Uper/Types.lean`.  Lemmas: `Uper/SeqPrimLemmas.lean`, `Uper/SeqLemmas.lean` (writer),
  `Uper/SeqReadLemmas.lean` (reader), `Uper/RejTotalLemmas.lean` (the writer never panics); the L1
  facts come from `Per/PrimLemmas*.lean` (C10).

  Every statement is about an arbitrary field list `fields : Fields` (any number of components, any
  mix of mandatory / OPTIONAL / DEFAULT, any component types, with or without extension marker)
  and an arbitrary value list `vs : Vals`.

  Vocabulary (defined in `Uper/SeqLemmas.lean` by plain recursion over (fields, values) —
  independent of the accumulator and the extension state machine of the mirror):
    `presentOf k v`            is the component present? (`m` ↦ yes; `o`: `none` ↦ no, `some _` ↦ yes;
                               `d dv`: `v ≠ dv`; `Option.none` = the value does not fit the kind)
    `contentOf k v`            the value the component's own encoder runs on
    `rootPresence fields vs n` one bit per OPTIONAL/DEFAULT component among the first `n`, in order
    `additionPresence fields vs n`  one bit per component behind the first `n`
    `Layout fields vs n rb ab` `rb`/`ab` hold one bit string per root component / per addition:
                               `[]` for an absent one, its own encoding for a present root component
                               (`RootBody`), its encoding as open type for a present addition
                               (`AddBody`); exactly one value per component
    `CompFails`, `Shaped`, `PrefixFine`   see `refusal_iff`, `refusal_converse`

  Overview
    writer   `seq_layout_nonext`, `seq_layout_nonext_component`, `seq_layout_ext`, `ext_bit_iff`,
             `layout_component`, `layout_lengths`, `root_body_cases`, `add_body_cases`,
             `default_omitted_iff`, `optional_omitted_iff`,
             `add_body_open_type`, `refusal_iff`, `refusal_converse`, `refusal_nonext`,
             `enc_seq_never_panics_of_components`, `enc_seq_never_panics`
    reader   one step: `root_absent_step`, `root_present_step`, `addition_no_ext_step`,
             `addition_bitmap_step`, `addition_first_step`;
             whole list: `absent_components_decode_absent`, `absent_additions_no_ext`,
             `absent_additions_bitmap`; whole SEQUENCE: `dec_seq_absent_root`,
             `dec_seq_absent_additions`

  Hypotheses that remain (and why):
    * `seq_layout_ext`: `fields.length - (k+1) - 1 ≤ U64_MAX` — the number of additions minus one is
      written as a `u64` (`write_normally_small_non_negative_whole_number`); for a field list
      with more than 2^64 additions the mirror's `natBits 64` truncates, the Rust `usize` cannot
      hold such a count.  No bound like "≤ 64 additions" is needed: `Per.wSmall_ok` (C10) covers both
      forms of X.691 11.6.
    * a mandatory extension addition whose type is a CHOICE or SEQUENCE OF is NOT wrapped as an open
      type by the code (`Ty.buffersOnWrite`); `AddBody` says so explicitly (X.691 19.9 wants every
      addition as open type — that deviation belongs to C02; the converter wraps every extension
      addition in `Option<..>`, so generated types only have OPTIONAL/DEFAULT additions, for which
      the wrapper is always there).  Note: the *reader* unwraps a mandatory SEQUENCE OF addition
      (`Ty.buffersOnRead`), so such a hand-written type would not round-trip.
    * `add_body_open_type`: the wrapper equals `X691.openType` unless the padded component encoding
      is longer than `i64::MAX` octets (then `write_octetstring(None, None, …)` refuses it).
  The bit-level round trip (`dec (enc v) = v`) is property C01; here are the facts on both sides
  that do not need it.
-/
namespace Asn1Verif.Props.C03
open Asn1Verif Asn1Verif.Uper Asn1Verif.Per Outcome

/-! ### writer: layout of a successfully encoded SEQUENCE / SET -/

/-- Not extensible: the encoding is the preamble — exactly one presence bit per OPTIONAL/DEFAULT
    component, in order — followed by the encodings of the present components, in order; absent
    components contribute nothing. -/
theorem seq_layout_nonext (so fc : Nat) (fields : Fields) (vs : Vals) (bits : Bits)
    (h : enc (.seq so fc none fields) (.seq vs) = ok bits) :
    ∃ bodies : List Bits, Layout fields vs fields.length bodies [] ∧
      bits = rootPresence fields vs fields.length ++ bodies.flatten ∧
      (rootPresence fields vs fields.length).length = fields.optCount fields.length :=
  enc_seq_nonext_layout h

/-- … spelled out per component: component `i` has a value `v`; its entry in `bodies` is `[]` when
    it is absent and the result of its own encoder (on `v`, resp. on the `x` of `some x`) when it
    is present. -/
theorem seq_layout_nonext_component (so fc : Nat) (fields : Fields) (vs : Vals) (bits : Bits)
    (h : enc (.seq so fc none fields) (.seq vs) = ok bits) :
    ∃ bodies : List Bits, bits = rootPresence fields vs fields.length ++ bodies.flatten ∧
      bodies.length = fields.length ∧ vs.length = fields.length ∧
      ∀ i k t, fields.get? i = some (k, t) →
        ∃ v b, vs.get? i = some v ∧ bodies[i]? = some b ∧
          ((presentOf k v = some true ∧ enc t (contentOf k v) = ok b) ∨
           (presentOf k v = some false ∧ b = [])) := by
  obtain ⟨bodies, hl, hb, _⟩ := enc_seq_nonext_layout h
  refine ⟨bodies, hb, by simpa using hl.lengths.2.1, hl.lengths.1, ?_⟩
  intro i k t hi
  obtain ⟨v, b, hv, hbi, hrb⟩ := hl.get_root (Nat.le_refl _) hi
  refine ⟨v, b, hv, hbi, ?_⟩
  unfold RootBody at hrb
  split at hrb
  · rename_i hp; exact Or.inl ⟨hp, hrb⟩
  · rename_i hp; exact Or.inr ⟨hp, hrb⟩
  · exact absurd hrb id

/-- Extensible (`extAfter = some k`: components `0..k` are the root, the rest are additions):
      extension bit  = "some addition is present",
      root preamble  = one bit per OPTIONAL/DEFAULT *root* component,
      root bodies,
    and, only when the extension bit is set,
      number of additions − 1 as normally small number (X.691 11.6 / 19.8),
      one presence bit per addition (all of them, whatever their kind),
      the present additions as open types.
    Moreover the extension bit is set iff the FIRST addition is present (on success). -/
theorem seq_layout_ext (so fc k : Nat) (fields : Fields) (vs : Vals) (bits : Bits)
    (hn : fields.length - (k + 1) - 1 ≤ U64_MAX)
    (h : enc (.seq so fc (some k) fields) (.seq vs) = ok bits) :
    ∃ rootBodies addBodies : List Bits, Layout fields vs (k + 1) rootBodies addBodies ∧
      bits = (additionPresence fields vs (k + 1)).any id ::
        rootPresence fields vs (k + 1) ++ rootBodies.flatten ++
        (if (additionPresence fields vs (k + 1)).any id then
          X691.small (fields.length - (k + 1) - 1) ++ additionPresence fields vs (k + 1) ++
            addBodies.flatten
         else []) ∧
      (rootPresence fields vs (k + 1)).length = fields.optCount (k + 1) ∧
      (additionPresence fields vs (k + 1)).length = fields.length - (k + 1) ∧
      ((additionPresence fields vs (k + 1)).any id = true ↔
        (additionPresence fields vs (k + 1)).head? = some true) :=
  enc_seq_ext_layout hn h

/-- the extension bit of a successful encoding: set iff an extension addition is present, iff the
    first one is -/
theorem ext_bit_iff (so fc k : Nat) (fields : Fields) (vs : Vals) (bits : Bits)
    (h : enc (.seq so fc (some k) fields) (.seq vs) = ok bits) :
    bits.head? = some ((additionPresence fields vs (k + 1)).any id) ∧
    ((additionPresence fields vs (k + 1)).any id = true ↔
      (additionPresence fields vs (k + 1)).head? = some true) := by
  obtain ⟨rb, ab, sm, _, _, hb, _, _, hx⟩ := enc_seq_ext_layout_gen h
  exact ⟨by rw [hb]; rfl, hx⟩

/-- what `Layout` says about component `i`: it has a value; a root component (`i < n`) owns entry
    `i` of the root bodies, an addition entry `i − n` of the addition bodies -/
theorem layout_component (fields : Fields) (vs : Vals) (n : Nat) (rb ab : List Bits)
    (h : Layout fields vs n rb ab) (i : Nat) (k : Kind) (t : Ty)
    (hi : fields.get? i = some (k, t)) :
    ∃ v, vs.get? i = some v ∧
      if i < n then ∃ b, rb[i]? = some b ∧ RootBody k t v b
      else ∃ b, ab[i - n]? = some b ∧ AddBody k t v b :=
  h.get hi

/-- one value and one body per component -/
theorem layout_lengths (fields : Fields) (vs : Vals) (n : Nat) (rb ab : List Bits)
    (h : Layout fields vs n rb ab) :
    vs.length = fields.length ∧ rb.length = min n fields.length ∧ ab.length = fields.length - n :=
  h.lengths

/-- the body of a root component, by presence -/
theorem root_body_cases (k : Kind) (t : Ty) (v : Val) (b : Bits) (h : RootBody k t v b) :
    (presentOf k v = some true ∧ enc t (contentOf k v) = ok b) ∨
    (presentOf k v = some false ∧ b = []) := by
  unfold RootBody at h
  split at h
  · rename_i hp; exact Or.inl ⟨hp, h⟩
  · rename_i hp; exact Or.inr ⟨hp, h⟩
  · exact absurd h id

/-- the body of an extension addition, by presence -/
theorem add_body_cases (k : Kind) (t : Ty) (v : Val) (b : Bits) (h : AddBody k t v b) :
    (presentOf k v = some true ∧ ∃ c, enc t (contentOf k v) = ok c ∧
      (if k.isOptional || t.buffersOnWrite then openType c = ok b else b = c)) ∨
    (presentOf k v = some false ∧ b = []) := by
  unfold AddBody at h
  split at h
  · rename_i hp; exact Or.inl ⟨hp, h⟩
  · rename_i hp; exact Or.inr ⟨hp, h⟩
  · exact absurd h id

/-- the open-type wrapper around a present addition is the open type of X.691 11.2 / 19.9 (an
    unconstrained-length octet string of the padded encoding, fragmented from 16K octets on) —
    unless the padded encoding is longer than `i64::MAX` octets, which the writer refuses -/
theorem add_body_open_type (k : Kind) (t : Ty) (v : Val) (b : Bits) (h : AddBody k t v b)
    (hp : presentOf k v = some true) (hw : (k.isOptional || t.buffersOnWrite) = true) :
    ∃ c, enc t (contentOf k v) = ok c ∧ openType c = ok b ∧
      ((if c.isEmpty then [0#8] else padToBytes c).length ≤ I64MAXu → b = X691.openType c) := by
  unfold AddBody at h
  rw [hp] at h
  obtain ⟨c, hc, ho⟩ := h
  rw [if_pos hw] at ho
  refine ⟨c, hc, ho, fun hlen => ?_⟩
  rw [openType_x691 c hlen] at ho
  exact (Outcome.ok.inj ho).symm

/-- a DEFAULT component is omitted (bit `0`, no body) exactly when its value equals the default -/
theorem default_omitted_iff (dv v : Val) :
    (presentOf (.d dv) v = some false ↔ v = dv) ∧ (presentOf (.d dv) v = some true ↔ v ≠ dv) :=
  ⟨presentOf_default_absent dv v, presentOf_default_present dv v⟩

/-- an OPTIONAL component is omitted exactly when its value is `none` -/
theorem optional_omitted_iff (v : Val) :
    (presentOf .o v = some false ↔ v = .none) ∧ (presentOf .o v = some true ↔ ∃ x, v = .some x) := by
  cases v <;> simp [presentOf]

/-! ### writer: when it refuses -/

/-- The SEQUENCE encoder fails with `e` only
      (1) with `ExtensionFieldsInconsistent`, and then the first extension addition is absent and a
          later one is present; or
      (2) because some present component `i` fails with `e` — its own encoder, or (additions only)
          the open-type wrapper around its encoding (`CompFails`); or
      (3) because the value list does not fit the field list (`¬ Shaped`: wrong number of values,
          an OPTIONAL component that is neither `none` nor `some _`) — the driver's `bad-op`. -/
theorem refusal_iff (so fc : Nat) (ea : Option Nat) (fields : Fields) (vs : Vals) (e : ErrKind)
    (h : enc (.seq so fc ea fields) (.seq vs) = err e) :
    (e = .extensionInconsistent ∧
      ∃ rest, additionPresence fields vs (rootCountOf ea fields) = false :: rest ∧
        rest.any id = true) ∨
    CompFails fields vs (rootCountOf ea fields) e ∨
    (e = .illTyped ∧ ¬ Shaped fields vs) :=
  enc_seq_err h

/-- … and conversely: first addition absent, a later addition `j` present, the components before
    `j` fit their kinds and the root components encode ⇒ `ExtensionFieldsInconsistent`. -/
theorem refusal_converse (so fc k : Nat) (fields : Fields) (vs : Vals) (j : Nat)
    (k1 : Kind) (t1 : Ty) (v1 : Val) (kj : Kind) (tj : Ty) (vj : Val)
    (hfirst : fields.get? (k + 1) = some (k1, t1) ∧ vs.get? (k + 1) = some v1 ∧
      presentOf k1 v1 = some false)
    (hlater : k + 1 < j ∧ fields.get? j = some (kj, tj) ∧ vs.get? j = some vj ∧
      presentOf kj vj = some true)
    (hfine : PrefixFine fields vs (k + 1) j) :
    enc (.seq so fc (some k) fields) (.seq vs) = err .extensionInconsistent :=
  enc_seq_inconsistent hfirst hlater hfine

/-- a sequence without extension marker never raises `ExtensionFieldsInconsistent` of its own:
    whatever it fails with is a component's failure or a misfit of the value list -/
theorem refusal_nonext (so fc : Nat) (fields : Fields) (vs : Vals) (e : ErrKind)
    (h : enc (.seq so fc none fields) (.seq vs) = err e) :
    CompFails fields vs fields.length e ∨ (e = .illTyped ∧ ¬ Shaped fields vs) := by
  rcases enc_seq_err h with ⟨_, rest, hr, _⟩ | h | h
  · -- there are no additions
    exfalso
    have hnil : ∀ (fields : Fields) (vs : Vals) (n : Nat), fields.length ≤ n →
        additionPresence fields vs n = [] := by
      intro fields
      induction hlen : fields.length generalizing fields with
      | zero =>
        intro vs n _
        cases fields with
        | nil => cases vs <;> simp [additionPresence]
        | cons k t r => simp [Fields.length] at hlen
      | succ m ih =>
        intro vs n hn
        cases fields with
        | nil => cases vs <;> simp [additionPresence]
        | cons k t r =>
          cases vs with
          | nil => simp [additionPresence]
          | cons v vs =>
            simp only [Fields.length, Nat.add_right_cancel_iff] at hlen
            cases n with
            | zero => omega
            | succ n => simpa [additionPresence] using ih r hlen vs n (by omega)
    rw [rootCountOf_none, hnil fields vs fields.length (Nat.le_refl _)] at hr
    cases hr
  · exact Or.inl h
  · exact Or.inr h

/-- if no component encoder panics, the SEQUENCE encoder does not panic (the extension state
    machine, the open-type wrapper and the addition count never unwind) -/
theorem enc_seq_never_panics_of_components (so fc : Nat) (ea : Option Nat) (fields : Fields)
    (vs : Vals)
    (hc : ∀ i k t v, fields.get? i = some (k, t) → vs.get? i = some v →
      presentOf k v = some true → enc t (contentOf k v) ≠ panic) :
    enc (.seq so fc ea fields) (.seq vs) ≠ panic :=
  enc_seq_ne_panic hc

/-- … and since no encoder of the mirror panics (`enc_ne_panic`, mutual induction over all type
    descriptors): the SEQUENCE / SET encoder never panics, for any field list and any value tree -/
theorem enc_seq_never_panics (so fc : Nat) (ea : Option Nat) (fields : Fields) (vs : Vals) :
    enc (.seq so fc ea fields) (.seq vs) ≠ panic :=
  enc_ne_panic _ _

/-! ### reader: one component step -/

/-- root OPTIONAL/DEFAULT component whose presence bit (at `presPos + optIdx`) is `0`: decoded as
    absent (`none`, resp. the default value); the cursor does not move for it -/
theorem root_absent_step (k : Kind) (t : Ty) (rest : Fields) (n optIdx addIdx : Nat)
    (ctx : SeqCtx) (inp : Bits) (pos : Nat) (hk : k.isOptional = true)
    (hb : inp[ctx.presPos + optIdx]? = some false) :
    decFields (.cons k t rest) (n + 1) optIdx addIdx ctx inp pos =
      (decFields rest n (optIdx + 1) addIdx ctx inp pos >>= fun r =>
        ok (.cons k.absent r.1, r.2)) :=
  decFields_root_absent k t rest n optIdx addIdx ctx inp pos hk hb

/-- … whose presence bit is `1`: its decoder runs at the cursor; OPTIONAL wraps the result -/
theorem root_present_step (k : Kind) (t : Ty) (rest : Fields) (n optIdx addIdx : Nat)
    (ctx : SeqCtx) (inp : Bits) (pos : Nat) (hk : k.isOptional = true)
    (hb : inp[ctx.presPos + optIdx]? = some true) :
    decFields (.cons k t rest) (n + 1) optIdx addIdx ctx inp pos =
      (dec t inp pos >>= fun xp =>
        decFields rest n (optIdx + 1) addIdx ctx inp xp.2 >>= fun r =>
          ok (.cons (k.wrap xp.1) r.1, r.2)) :=
  decFields_root_present k t rest n optIdx addIdx ctx inp pos hk hb

/-- extension addition, extension bit `0`: an OPTIONAL/DEFAULT addition is absent, cursor unmoved -/
theorem addition_no_ext_step (k : Kind) (t : Ty) (rest : Fields) (optIdx addIdx : Nat)
    (ctx : SeqCtx) (inp : Bits) (pos : Nat) (hx : ctx.extBit = false) (hk : k.isOptional = true) :
    decFields (.cons k t rest) 0 optIdx addIdx ctx inp pos =
      (decFields rest 0 optIdx (addIdx + 1) ctx inp pos >>= fun r =>
        ok (.cons k.absent r.1, r.2)) :=
  decFields_add_noext_absent k t rest optIdx addIdx ctx inp pos hx hk

/-- extension addition, extension bit `1`, bitmap window `(win, nRead)` known: an OPTIONAL/DEFAULT
    addition whose bitmap bit is `0`, or beyond the announced count, is absent, cursor unmoved -/
theorem addition_bitmap_step (k : Kind) (t : Ty) (rest : Fields) (optIdx addIdx : Nat)
    (ctx : SeqCtx) (inp : Bits) (pos win nRead : Nat) (hx : ctx.extBit = true)
    (hw : ctx.addWin = some (win, nRead)) (hk : k.isOptional = true)
    (hb : nRead ≤ addIdx ∨ inp[win + addIdx]? = some false) :
    decFields (.cons k t rest) 0 optIdx addIdx ctx inp pos =
      (decFields rest 0 optIdx (addIdx + 1) ctx inp pos >>= fun r =>
        ok (.cons k.absent r.1, r.2)) :=
  decFields_add_bitmap_absent k t rest optIdx addIdx ctx inp pos win nRead hx hw hk hb

/-- the first extension addition: the header (count, bitmap window) is read at the cursor first -/
theorem addition_first_step (k : Kind) (t : Ty) (rest : Fields) (optIdx addIdx : Nat)
    (ctx : SeqCtx) (inp : Bits) (pos win nRead pos' : Nat) (hx : ctx.extBit = true)
    (hw : ctx.addWin = none) (hh : readExtHeader inp pos = ok ((win, nRead), pos'))
    (hk : k.isOptional = true)
    (hb : nRead ≤ addIdx ∨ inp[win + addIdx]? = some false) :
    decFields (.cons k t rest) 0 optIdx addIdx ctx inp pos =
      (decFields rest 0 optIdx (addIdx + 1) { ctx with addWin := some (win, nRead) } inp pos' >>=
        fun r => ok (.cons k.absent r.1, r.2)) :=
  decFields_add_first_absent k t rest optIdx addIdx ctx inp pos win nRead pos' hx hw hh hk hb

/-! ### reader: the whole field list -/

/-- Whatever `decFields` returns for a field list: every root OPTIONAL/DEFAULT component `i` whose
    bit in the presence bitmap (bit number `optCount i` = OPTIONAL/DEFAULT components before it)
    is `0` is absent in the result — `none` for OPTIONAL, the default value for DEFAULT. -/
theorem absent_components_decode_absent (fields : Fields) (rl optIdx addIdx : Nat) (ctx : SeqCtx)
    (inp : Bits) (pos : Nat) (vs : Vals) (p : Nat)
    (h : decFields fields rl optIdx addIdx ctx inp pos = ok (vs, p))
    (i : Nat) (k : Kind) (t : Ty) (hi : i < rl) (hg : fields.get? i = some (k, t))
    (hk : k.isOptional = true)
    (hb : inp[ctx.presPos + optIdx + fields.optCount i]? = some false) :
    vs.get? i = some k.absent :=
  decFields_absent_root fields rl optIdx addIdx ctx inp pos vs p h i k t hi hg hk hb

/-- extension bit `0`: every OPTIONAL/DEFAULT extension addition is absent in the result -/
theorem absent_additions_no_ext (fields : Fields) (rl optIdx addIdx : Nat) (ctx : SeqCtx)
    (inp : Bits) (pos : Nat) (vs : Vals) (p : Nat)
    (h : decFields fields rl optIdx addIdx ctx inp pos = ok (vs, p)) (hx : ctx.extBit = false)
    (i : Nat) (k : Kind) (t : Ty) (hi : rl ≤ i) (hg : fields.get? i = some (k, t))
    (hk : k.isOptional = true) :
    vs.get? i = some k.absent :=
  decFields_absent_noext fields rl optIdx addIdx ctx inp pos vs p h hx i k t hi hg hk

/-- extension bit `1`, bitmap window known: every OPTIONAL/DEFAULT addition whose bitmap bit is `0`
    (or which the sender did not announce) is absent in the result -/
theorem absent_additions_bitmap (fields : Fields) (rl optIdx addIdx : Nat) (ctx : SeqCtx)
    (inp : Bits) (pos : Nat) (vs : Vals) (p win nRead : Nat)
    (h : decFields fields rl optIdx addIdx ctx inp pos = ok (vs, p)) (hx : ctx.extBit = true)
    (hw : ctx.addWin = some (win, nRead))
    (i : Nat) (k : Kind) (t : Ty) (hi : rl ≤ i) (hg : fields.get? i = some (k, t))
    (hk : k.isOptional = true)
    (hb : nRead ≤ addIdx + (i - rl) ∨ inp[win + (addIdx + (i - rl))]? = some false) :
    vs.get? i = some k.absent :=
  decFields_absent_bitmap fields rl optIdx addIdx ctx inp pos vs p win nRead h hx hw i k t hi hg hk hb

/-- A decoded SEQUENCE/SET: the root bitmap starts right behind the extension bit (if the type has
    one); every root OPTIONAL/DEFAULT component whose bit is `0` is `none` / the default value. -/
theorem dec_seq_absent_root (so fc : Nat) (ea : Option Nat) (fields : Fields) (inp : Bits)
    (pos : Nat) (val : Val) (p : Nat) (h : dec (.seq so fc ea fields) inp pos = ok (val, p)) :
    ∃ vs, val = .seq vs ∧
      ∀ i k t, i < rootCountOf ea fields → fields.get? i = some (k, t) → k.isOptional = true →
        inp[pos + (if ea.isSome then 1 else 0) + fields.optCount i]? = some false →
        vs.get? i = some k.absent :=
  Uper.dec_seq_absent_root h

/-- A decoded extensible SEQUENCE/SET whose extension bit is `0`: every OPTIONAL/DEFAULT extension
    addition is `none` / the default value. -/
theorem dec_seq_absent_additions (so fc k0 : Nat) (fields : Fields) (inp : Bits) (pos : Nat)
    (val : Val) (p : Nat) (h : dec (.seq so fc (some k0) fields) inp pos = ok (val, p))
    (hx : inp[pos]? = some false) :
    ∃ vs, val = .seq vs ∧
      ∀ i k t, k0 + 1 ≤ i → fields.get? i = some (k, t) → k.isOptional = true →
        vs.get? i = some k.absent :=
  Uper.dec_seq_absent_additions h hx

/-! ### non-vacuity: concrete instances satisfying the hypotheses -/

/-- `SEQUENCE { a BOOLEAN, b BOOLEAN OPTIONAL, c BOOLEAN DEFAULT FALSE }` -/
def exFields : Fields :=
  .cons .m .bool (.cons .o .bool (.cons (.d (.bool false)) .bool .nil))
/-- `{ a TRUE, c TRUE }` -/
def exVals : Vals := .cons (.bool true) (.cons .none (.cons (.bool true) .nil))
/-- `{ a TRUE, b FALSE, c FALSE }` — `c` equals its default -/
def exValsD : Vals := .cons (.bool true) (.cons (.some (.bool false)) (.cons (.bool false) .nil))

-- seq_layout_nonext: preamble `01` (b absent, c present), bodies `1`, ``, `1`
example : enc (.seq 2 3 none exFields) (.seq exVals) = ok [false, true, true, true] := by decide
example : rootPresence exFields exVals exFields.length = [false, true] := by decide
example : Layout exFields exVals exFields.length [[true], [], [true]] [] := by
  have hb : (Val.bool true == Val.bool false) = false := rfl
  simp [Layout, exFields, exVals, RootBody, presentOf, contentOf, enc, Fields.length, hb]
-- DEFAULT equal to the default: bit `0`, no body
example : enc (.seq 2 3 none exFields) (.seq exValsD) = ok [true, false, true, false] := by decide

/-- `SEQUENCE { a BOOLEAN, b BOOLEAN OPTIONAL, ..., c BOOLEAN OPTIONAL, d BOOLEAN DEFAULT FALSE }` -/
def exFieldsX : Fields :=
  .cons .m .bool (.cons .o .bool (.cons .o .bool (.cons (.d (.bool false)) .bool .nil)))
/-- `{ a TRUE, c TRUE }`: first addition present -/
def exValsX : Vals :=
  .cons (.bool true) (.cons .none (.cons (.some (.bool true)) (.cons (.bool false) .nil)))
/-- `{ a TRUE }`: no addition present -/
def exValsN : Vals := .cons (.bool true) (.cons .none (.cons .none (.cons (.bool false) .nil)))
/-- `{ a TRUE, d TRUE }`: first addition absent, second present — refused -/
def exValsBad : Vals :=
  .cons (.bool true) (.cons .none (.cons .none (.cons (.bool true) .nil)))

-- seq_layout_ext, extension part present:
--   ext bit `1`, root preamble `0`, root body `1`, count-1 = 1 as `0 000001`, bitmap `10`, open type
example : enc (.seq 1 4 (some 1) exFieldsX) (.seq exValsX) =
    ok ([true] ++ [false] ++ [true] ++ [false, false, false, false, false, false, true] ++
        [true, false] ++
        [false, false, false, false, false, false, false, true,
         true, false, false, false, false, false, false, false]) := by
  have hs : wSmall 1 = ok [false, false, false, false, false, false, true] := by decide
  have hb : (Val.bool false == Val.bool false) = true := rfl
  simp [exFieldsX, exValsX, encFields, SeqAcc.step, enc, Kind.isOptional, openType_true,
    Fields.length, hs, hb]
example : exFieldsX.length - (1 + 1) - 1 ≤ U64_MAX := by decide
example : additionPresence exFieldsX exValsX 2 = [true, false] := by decide
-- no addition present: ext bit `0`, nothing behind the root
example : enc (.seq 1 4 (some 1) exFieldsX) (.seq exValsN) = ok [false, false, true] := by decide

-- refusal_iff / refusal_converse: first addition absent, second present
example : enc (.seq 1 4 (some 1) exFieldsX) (.seq exValsBad) = err .extensionInconsistent := by
  decide
example : additionPresence exFieldsX exValsBad 2 = [false, true] := by decide
example : exFieldsX.get? 2 = some (.o, .bool) ∧ exValsBad.get? 2 = some .none ∧
    presentOf .o .none = some false := ⟨rfl, rfl, rfl⟩
example : 1 + 1 < 3 ∧ exFieldsX.get? 3 = some (.d (.bool false), .bool) ∧
    exValsBad.get? 3 = some (.bool true) ∧ presentOf (.d (.bool false)) (.bool true) = some true :=
  ⟨by decide, rfl, rfl, rfl⟩
example : PrefixFine exFieldsX exValsBad 2 3 := by
  intro i hi k t hg
  match i, hi with
  | 0, _ =>
    simp only [exFieldsX, Fields.get?, Option.some.injEq, Prod.mk.injEq] at hg
    obtain ⟨rfl, rfl⟩ := hg
    exact ⟨.bool true, true, rfl, rfl, fun _ _ => ⟨[true], rfl⟩⟩
  | 1, _ =>
    simp only [exFieldsX, Fields.get?, Option.some.injEq, Prod.mk.injEq] at hg
    obtain ⟨rfl, rfl⟩ := hg
    exact ⟨.none, false, rfl, rfl, fun h => by cases h⟩
  | 2, _ =>
    simp only [exFieldsX, Fields.get?, Option.some.injEq, Prod.mk.injEq] at hg
    obtain ⟨rfl, rfl⟩ := hg
    exact ⟨.none, false, rfl, rfl, fun h => by cases h⟩
-- a component's own error comes through (`CompFails`): INTEGER (0..7) with value 9
example : enc (.seq 0 1 none (.cons .m (.int (some 0) (some 7) false 8 false) .nil))
    (.seq (.cons (.int 9) .nil)) = err .valueNotInRange := by decide
-- a value list that does not fit (`¬ Shaped`)
example : enc (.seq 2 3 none exFields) (.seq (.cons (.bool true) .nil)) = err .illTyped := by decide
example : ¬ Shaped exFields (.cons (.bool true) .nil) := by simp [Shaped, exFields]

-- enc_seq_never_panics_of_components: BOOLEAN components never panic
example : ∀ i k t v, exFieldsX.get? i = some (k, t) → exValsX.get? i = some v →
    presentOf k v = some true → enc t (contentOf k v) ≠ panic := by
  intro i k t v hf _ _
  have ht : t = .bool := by
    match i with
    | 0 | 1 | 2 | 3 =>
      simp only [exFieldsX, Fields.get?, Option.some.injEq, Prod.mk.injEq] at hf
      exact hf.2.symm
    | _ + 4 => simp [exFieldsX, Fields.get?] at hf
  subst ht
  cases (contentOf k v) <;> simp [enc]

-- reader: `0 1` (b absent, c present) + `1` (a) + `1` (c) decodes to `{ a TRUE, c TRUE }`
example : dec (.seq 2 3 none exFields) [false, true, true, true] 0 = ok (.seq exVals, 4) := by
  rfl
-- … its presence bit of `b` (bit number `optCount 1 = 0` of the bitmap at position 0) is `0`
example : [false, true, true, true][0 + (if (none : Option Nat).isSome then 1 else 0) +
    exFields.optCount 1]? = some false := by decide
-- `0 00 1`: DEFAULT component absent ⇒ decodes to the default `FALSE`
example : dec (.seq 2 3 none exFields) [false, false, true] 0 =
    ok (.seq (.cons (.bool true) (.cons .none (.cons (.bool false) .nil))), 3) := by rfl
-- extension bit `0`: additions absent / default
example : dec (.seq 1 4 (some 1) exFieldsX) [false, false, true] 0 = ok (.seq exValsN, 3) := by
  rfl
-- one step, root presence bit `0`
example : ([false, true, true, true] : Bits)[(SeqCtx.mk 0 false none 0).presPos + 0]? = some false := by
  decide

-- root_body_cases / add_body_cases / add_body_open_type
example : RootBody .m .bool (.bool true) [true] := by simp [RootBody, presentOf, contentOf, enc]
example : AddBody .o .bool (.some (.bool true))
    [false, false, false, false, false, false, false, true,
     true, false, false, false, false, false, false, false] := by
  simp [AddBody, presentOf, contentOf, enc, Kind.isOptional, openType_true]
example : (if ([true] : Bits).isEmpty then [0#8] else padToBytes [true]).length ≤ I64MAXu := by
  rw [padToBytes_true]; decide

/-- the encoding of `exValsX` from above -/
def exBitsX : Bits :=
  [true] ++ [false] ++ [true] ++ [false, false, false, false, false, false, true] ++
    [true, false] ++
    [false, false, false, false, false, false, false, true,
     true, false, false, false, false, false, false, false]

-- root_absent_step / root_present_step: kinds and bits
example : Kind.o.isOptional = true ∧ (Kind.d (.bool false)).isOptional = true := ⟨rfl, rfl⟩
example : ([false, true, true, true] : Bits)[(SeqCtx.mk 0 false none 0).presPos + 1]? = some true := by
  decide
-- absent_components_decode_absent: the walk over `exFields` behind the two-bit preamble
example : decFields exFields 3 0 0 ⟨0, false, none, 0⟩ [false, true, true, true] 2 =
    ok (exVals, 4) := by rfl
-- addition_first_step: the header behind the root components of `exBitsX`: 2 additions announced,
-- bitmap at position 10, cursor behind it
example : readExtHeader exBitsX 3 = ok ((10, 2), 12) := by decide
-- addition_bitmap_step / absent_additions_bitmap: second addition `d BOOLEAN DEFAULT FALSE`,
-- its bitmap bit (position 10 + 1) is `0` ⇒ the default
example : exBitsX[10 + 1]? = some false := by decide
example : decFields (.cons (.d (.bool false)) .bool .nil) 0 1 1 ⟨1, true, some (10, 2), 2⟩ exBitsX 28 =
    ok (.cons (.bool false) .nil, 28) := by
  rw [decFields_add_bitmap_absent _ _ _ _ _ _ _ _ 10 2 rfl rfl rfl (Or.inr (by decide))]
  simp [decFields, skipUnknown_done, Kind.absent]
-- absent_additions_no_ext: extension bit `0`
example : decFields exFieldsX 2 0 0 ⟨1, false, none, 2⟩ [false, false, true] 2 =
    ok (exValsN, 3) := by rfl

end Asn1Verif.Props.C03
