import Asn1Verif.Codegen.AttrLemmas
/-
  C08 — generated Rust code carries the whole model (codegen is invertible).

  Proved here: the attribute language of a component (`#[asn(<type>, tag(..), const(..))]`), the
  part of the generated text that carries types, constraints, tags, defaults and constants.
  `fieldToks` mirrors what `RustCodeGenerator` prints, `parseField` what the attribute macro builds
  from it (Codegen/Attr.lean).  `attr_roundtrip`: on the fragment `FieldOk`, parsing the printed
  attribute gives back the type (up to the mangled spelling of ENUMERATED items in defaults), the
  tag and the constants.  The full statement is FALSE for the current code; every excluded region
  is a concrete counterexample below (and a finding class of tools/checks/c08.py).
  The constants of the macro expansion (`consts_match`) are in Props/C08Consts.lean.

  Not covered by theorems (exercised on the real code by the stream op `attr reparse` only): the
  definition header (`sequence`/`choice`/.., `extensible_after`), `Model<Rust>` <-> `asn::Type`
  (`into_asn`, `convert_asn_to_rust`), the descriptor constants of the macro expansion.
-/
namespace Asn1Verif.Props.C08
open Asn1Verif.Codegen.Names Asn1Verif.Codegen.Attr

/-- what the macro holds for the component after reading a faithful copy of what the generator
    had: type (item names in defaults mangled, as printed), tag, constants pushed into the
    integer by `into_asn`; `rustTy` is the component's Rust type as written in the struct -/
def readBack (rustTy : Name) (f : FieldIn) : Role :=
  intoAsn rustTy { primary := norm f.ty, tag := f.tag, consts := f.consts }

/-- FULL statement: every component attribute the generator can print is read back. -/
def attr_roundtrip_full : Prop :=
  ∀ (f : FieldIn) (rustTy : Name), parseField rustTy (fieldToks f) = some (readBack rustTy f)

/-- PARTIAL form: the fragment `FieldOk` = all types built from boolean, null, integers that are
    unconstrained or have two bounds, restricted strings / octet strings / bit strings with any
    size constraint, `optional`, `default` with a boolean / string / integer / item literal,
    `sequence_of` / `set_of` with any size constraint, tagged `complex` references — arbitrarily
    nested — with any tag and any list of named numbers; all numbers within the ranges of the
    Rust types the parser uses (`i64`, `usize`).  Structural induction (`parseTy_typeToks`). -/
theorem attr_roundtrip (f : FieldIn) (rustTy : Name) (h : FieldOk f) :
    parseField rustTy (fieldToks f) = some (readBack rustTy f) := by
  unfold parseField readBack
  rw [parseAttr_fieldToks f h]
  rfl

/-- the type alone, in any context that does not continue with a parenthesis -/
theorem type_roundtrip (t : AType) (h : Frag t) (rest : List Tok) (hr : NoLp rest) :
    parseTy ((typeToks t).length + 1) (typeToks t ++ rest) = some (norm t, rest) :=
  parseTy_typeToks t h _ rest (by have := depth_le_length t; omega) hr

/-! ### what `readBack` keeps and what it loses -/

/-- named numbers survive on an integer component … -/
theorem consts_carried (mn mx : Option Int) (ext : Bool) (tag : Option Tag) (cs : List (Name × Int))
    (rustTy : Name) :
    readBack rustTy ⟨.integer mn mx ext [], tag, cs⟩ = ⟨.integer mn mx ext cs, tag⟩ := rfl

/-- … also an optional one … -/
theorem consts_carried_optional (mn mx : Option Int) (ext : Bool) (tag : Option Tag)
    (cs : List (Name × Int)) (rustTy : Name) :
    readBack rustTy ⟨.optional (.integer mn mx ext []), tag, cs⟩
      = ⟨.optional (.integer mn mx ext cs), tag⟩ := rfl

/-- … and are dropped, whatever they are, when the integer has a DEFAULT (`into_asn` looks through
    `Optional` only) -/
theorem consts_lost_under_default (t : AType) (v : Lit) (tag : Option Tag) (cs : List (Name × Int))
    (rustTy : Name) :
    readBack rustTy ⟨.default t v, tag, cs⟩ = ⟨.default (norm t) (normLit v), tag⟩ := rfl

/-- a reference at the top of the attribute takes its name from the Rust type of the field and,
    if it has none, the component's tag -/
theorem complex_top (n rustTy : Name) (t : Option Tag) (tag : Option Tag) :
    readBack rustTy ⟨.complex n t, tag, []⟩ = ⟨.complex rustTy (t.or tag), tag⟩ := rfl

/-! ### the full statement is false: one counterexample per excluded region -/

/-- `integer(min..5,...)` (INTEGER (MIN..5,...)) comes back as `0..5` -/
theorem int_min_unbounded_not_fixed :
    parseField [] (fieldToks ⟨.integer none (some 5) true [], none, []⟩)
      = some ⟨.integer (some 0) (some 5) true [], none⟩ := by decide

/-- … and as `i64::MIN..-5` when the upper bound is not positive -/
theorem int_min_unbounded_negative :
    parseField [] (fieldToks ⟨.integer none (some (-5)) true [], none, []⟩)
      = some ⟨.integer (some I64_MIN) (some (-5)) true [], none⟩ := by decide

/-- `integer(5..max,...)` comes back as `5..i64::MAX` -/
theorem int_max_unbounded_not_fixed :
    parseField [] (fieldToks ⟨.integer (some 5) none true [], none, []⟩)
      = some ⟨.integer (some 5) (some I64_MAX) true [], none⟩ := by decide

/-- `default(octet_string, [0xab, ])` is rejected -/
theorem octet_default_rejected :
    parseField [] (fieldToks ⟨.default (.octetString .any) (.octets [0xab]), none, []⟩) = none := by
  decide

/-- `complex(Foo)` (no tag could be resolved) is rejected -/
theorem complex_untagged_rejected :
    parseField "Foo".toList (fieldToks ⟨.complex "Foo".toList none, none, []⟩) = none := by decide

/-- `size(3..3)` comes back as `size(3)` (not reachable: `reconsider_constraints` normalises) -/
theorem size_equal_bounds_normalised :
    parseField [] (fieldToks ⟨.octetString (.range 3 3 false), none, []⟩)
      = some ⟨.octetString (.fix 3 false), none⟩ := by decide

theorem attr_roundtrip_full_false : ¬ attr_roundtrip_full := by
  intro h
  have h1 := h ⟨.integer none (some 5) true [], none, []⟩ []
  rw [int_min_unbounded_not_fixed] at h1
  exact absurd h1 (by decide)

/-! ### non-vacuity: concrete members of the fragment -/

example : FieldOk ⟨.sequenceOf (.optional (.integer (some (-5)) (some 10) true [])) (.range 1 4 true),
    some (.application 3), []⟩ := by
  refine ⟨⟨⟨rfl, Or.inr ⟨-5, 10, rfl, rfl, ?_, ?_⟩⟩, ?_⟩, ?_, ?_⟩
  · unfold InI64; decide
  · unfold InI64; decide
  · exact ⟨by decide, by decide, by decide⟩
  · intro t ht; cases ht; show (3 : Nat) ≤ USIZE_MAX; decide
  · intro c hc; simp at hc

example : parseField [] (fieldToks ⟨.sequenceOf (.optional (.integer (some (-5)) (some 10) true []))
      (.range 1 4 true), some (.application 3), []⟩)
    = some ⟨.sequenceOf (.optional (.integer (some (-5)) (some 10) true [])) (.range 1 4 true),
      some (.application 3)⟩ := by decide

example : parseField "u8".toList (fieldToks ⟨.integer (some 0) (some 7) false [], some (.contextSpecific 2),
      [("ONE".toList, 1), ("NEG".toList, -2)]⟩)
    = some ⟨.integer (some 0) (some 7) false [("ONE".toList, 1), ("NEG".toList, -2)],
      some (.contextSpecific 2)⟩ := by decide

example : parseField [] (fieldToks ⟨.default (.complex "Foo".toList (some (.universal 10)))
      (.enumVariant "foo-bar".toList "def-g".toList), none, []⟩)
    = some ⟨.default (.complex "Foo".toList (some (.universal 10)))
      (.enumVariant "FooBar".toList "DefG".toList), none⟩ := by decide

end Asn1Verif.Props.C08
