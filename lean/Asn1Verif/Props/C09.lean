import Asn1Verif.Codegen.NamesLemmas
/-
  C09 — every accepted module yields Rust code that rustc accepts.

  What is *proved* here is the naming logic: which identifiers the generator prints for an ASN.1
  identifier (model `Codegen/Names.lean`, both mangling layers of the crate), that they always
  have the lexical shape of a Rust identifier, exactly when they are Rust keywords, and when two
  different ASN.1 names are forced onto the same Rust name.  rustc itself is not modelled: whether
  the generated file compiles is decided by `cargo check` in `tools/checks/c09.py` (exploration).

  `ident_legal` (the full statement) is FALSE for the current code: `KEYWORDS` of
  generate/rust.rs has 9 entries and is consulted for struct fields only.  It is stated as a
  `def … : Prop`, refuted on concrete witnesses, and proved under explicit hypotheses as
  `ident_legal_partial`; the hypotheses are sharp (`field_keyword_iff`, `variant_keyword_iff`,
  `const_never_keyword`).
-/
namespace Asn1Verif.Props.C09
open Asn1Verif.Codegen.Names

/-- a legal, non-keyword Rust identifier: `[A-Za-z_][A-Za-z0-9_]*` (so non-empty) and not in
    `RustKeywords2021` -/
def Legal (m : Name) : Prop := RustIdentShape m = true ∧ isRustKeyword m = false

/-- FULL statement: every X.680 identifier gives legal names in all five roles. -/
def ident_legal : Prop :=
  ∀ n : Name, AsnIdent n = true →
    Legal (emitField n) ∧ Legal (emitVariant n) ∧ Legal (emitType n) ∧ Legal (emitConst n) ∧
    Legal (emitModule n)

/-! ### the full statement is false today -/

/-- refuted on a witness that no completion of `KEYWORDS` repairs: ENUMERATED item / CHOICE
    alternative `self` is printed as the variant `Self` (variants are never checked) -/
theorem ident_legal_false : ¬ ident_legal := by
  intro h
  have := (h "self".toList (by decide)).2.1.2
  exact absurd this (by decide)

/-- component `match`: since the `fix:` commit that completed `KEYWORDS` (R6) it is escaped
    (`pub match_: bool`); before, it was printed verbatim. -/
theorem field_keyword_escaped :
    AsnIdent "match".toList = true ∧ emitField "match".toList = "match_".toList ∧
    isRustKeyword (emitField "match".toList) = false := by decide

/-- ENUMERATED item / CHOICE alternative `self` becomes the variant `Self` -/
theorem variant_self_is_keyword :
    AsnIdent "self".toList = true ∧ emitVariant "self".toList = "Self".toList ∧
    isRustKeyword (emitVariant "self".toList) = true := by decide

/-- type assignment `Self ::= …` is printed as `pub struct Self` -/
theorem type_Self_is_keyword :
    AsnIdent "Self".toList = true ∧ isRustKeyword (emitType "Self".toList) = true := by decide

/-- module `Module` loses its whole name (`make_name_nice`): file `.rs`, `use super::::{…}`;
    module `Match` is imported as `use super::match::{…}` -/
theorem module_names_illegal :
    AsnIdent "Module".toList = true ∧ emitModule "Module".toList = [] ∧
    AsnIdent "Match".toList = true ∧ isRustKeyword (emitModule "Match".toList) = true := by decide

/-! ### lexical shape: unconditional, for every identifier the tokenizer lets through -/

theorem weak_of_asn {n : Name} (h : AsnIdent n = true) : WeakIdent n = true := by
  cases n with
  | nil => simp [AsnIdent] at h
  | cons c cs =>
    simp only [AsnIdent, Bool.and_eq_true, List.all_eq_true] at h
    simp only [WeakIdent, Bool.and_eq_true, List.all_eq_true]
    refine ⟨h.1.1, fun d hd => ?_⟩
    have := h.1.2 d hd
    simp only [Bool.or_eq_true] at this ⊢
    rcases this with h1 | h1
    · exact .inl (.inl h1)
    · exact .inl (.inr h1)

private theorem weak_cases {n : Name} (h : WeakIdent n = true) :
    ∃ c cs, n = c :: cs ∧ c.isAlpha = true ∧ ∀ d ∈ n, inc d = true := by
  cases n with
  | nil => simp [WeakIdent] at h
  | cons c cs =>
    simp only [WeakIdent, Bool.and_eq_true, List.all_eq_true] at h
    refine ⟨c, cs, rfl, h.1, fun d hd => ?_⟩
    rcases List.mem_cons.mp hd with rfl | hd
    · have := h.1; unfold inc; char_nat; omega
    · exact h.2 d hd

private theorem shape_cons {x : Char} {r : Name} (hx : x.isAlpha = true)
    (hr : ∀ d ∈ r, idc d = true) : RustIdentShape (x :: r) = true := by
  simp only [RustIdentShape, Bool.and_eq_true, List.all_eq_true, hx, Bool.true_or, true_and]
  exact hr

/-- Every name the generator prints for a struct field, an enum variant, a type or a constant is
    non-empty and matches `[A-Za-z_][A-Za-z0-9_]*` — for every identifier made of a letter followed
    by letters, digits, hyphens and underscores (a superset of X.680 12.2/12.3).  Induction over
    the character list (lemmas `moduleA_go_idc`, `variantA_go_alnum`). -/
theorem ident_shape (n : Name) (h : WeakIdent n = true) :
    RustIdentShape (emitField n) = true ∧ RustIdentShape (emitVariant n) = true ∧
    RustIdentShape (emitType n) = true ∧ RustIdentShape (emitConst n) = true := by
  obtain ⟨c, cs, rfl, hc, hall⟩ := weak_cases h
  have hcs : ∀ d ∈ cs, inc d = true := fun d hd => hall d (by simp [hd])
  -- variant / type
  have hv : RustIdentShape (variantA (c :: cs)) = true := by
    rw [variantA_cons_alpha cs hc]
    refine shape_cons (alpha_toUpper hc) (fun d hd => ?_)
    have := variantA_go_alnum cs false true hcs d hd
    unfold idc; simp [this]
  -- field
  obtain ⟨r, hr⟩ := moduleA_cons_alpha false cs hc
  have hx : (if c.isUpper then c.toLower else c).isAlpha = true := by
    split
    · exact alpha_toLower hc
    · exact hc
  have hidc : ∀ d ∈ moduleA false (c :: cs), idc d = true := moduleA_go_idc false _ _ _ _ _ hall
  have hf : RustIdentShape (emitField (c :: cs)) = true := by
    rw [emitField_eq]; unfold fieldA
    rw [hr] at hidc ⊢
    have hr' : ∀ d ∈ r, idc d = true := fun d hd => hidc d (by simp [hd])
    generalize (if c.isUpper = true then c.toLower else c) = x at hx ⊢
    split
    · rw [List.cons_append]
      refine shape_cons hx (fun d hd => ?_)
      rcases List.mem_append.mp hd with hd | hd
      · exact hr' d hd
      · simp only [List.mem_singleton] at hd; rw [hd]; decide
    · exact shape_cons hx hr'
  -- constant
  obtain ⟨r1, hr1⟩ := moduleA_cons_alpha true cs hc
  have hidc1 : ∀ d ∈ moduleA true (c :: cs), idc d = true := moduleA_go_idc true _ _ _ _ _ hall
  have hk : RustIdentShape (emitConst (c :: cs)) = true := by
    unfold emitConst constantA
    rw [hr1] at hidc1 ⊢
    rw [List.map_cons]
    refine shape_cons (alpha_toUpper hx) (fun d hd => ?_)
    obtain ⟨d0, hd0, rfl⟩ := List.mem_map.mp hd
    exact idc_toUpper (hidc1 d0 (by simp [hd0]))
  exact ⟨hf, by rw [emitVariant_eq]; exact hv, hv, hk⟩

private theorem stripSuffix_take (n s : Name) : ∃ k, stripSuffix n s = n.take k := by
  unfold stripSuffix
  split
  · exact ⟨_, rfl⟩
  · exact ⟨n.length, by simp⟩

private theorem weak_take {n : Name} (h : WeakIdent n = true) (k : Nat) (hne : n.take k ≠ []) :
    WeakIdent (n.take k) = true := by
  cases n with
  | nil => simp [WeakIdent] at h
  | cons c cs =>
    cases k with
    | zero => simp at hne
    | succ k =>
      simp only [WeakIdent, Bool.and_eq_true, List.all_eq_true, List.take_succ_cons] at h ⊢
      exact ⟨h.1, fun d hd => h.2 d (List.mem_of_mem_take hd)⟩

/-- … and for a module name, provided `make_name_nice` leaves anything of it -/
theorem module_shape (n : Name) (h : WeakIdent n = true) (hne : makeNameNice n ≠ []) :
    RustIdentShape (emitModule n) = true := by
  obtain ⟨k1, h1⟩ := stripSuffix_take n "_Module".toList
  obtain ⟨k2, h2⟩ := stripSuffix_take (stripSuffix n "_Module".toList) "Module".toList
  have hw : WeakIdent (makeNameNice n) = true := by
    unfold makeNameNice at hne ⊢
    rw [h2] at hne ⊢
    refine weak_take ?_ k2 hne
    rw [h1] at hne ⊢
    refine weak_take h k1 ?_
    intro h0; rw [h0] at hne; simp at hne
  obtain ⟨c, cs, hn, hc, hall⟩ := weak_cases hw
  rw [emitModule_eq, hn]
  obtain ⟨r, hr⟩ := moduleA_cons_alpha false cs hc
  have hidc : ∀ d ∈ moduleA false (c :: cs), idc d = true :=
    moduleA_go_idc false _ _ _ _ _ (by rw [← hn]; exact hall)
  rw [hr] at hidc ⊢
  refine shape_cons ?_ (fun d hd => hidc d (by simp [hd]))
  split
  · exact alpha_toLower hc
  · exact hc

/-! ### keywords: exactly which names are affected -/

/-- a printed field name is a Rust keyword iff the snake-cased component name is one of the
    keywords missing from the generator's `KEYWORDS` (no hypothesis on `n`) -/
theorem field_keyword_iff (n : Name) :
    isRustKeyword (emitField n) = true ↔ fieldA n ∈ uncoveredKeywords := by
  rw [emitField_eq]
  constructor
  · intro h
    split at h
    · next hk =>
      have : fieldA n ∈ keywordsB := by simpa using hk
      rw [kwB_suffix_not_kw _ this] at h; exact absurd h (by simp)
    · next hk =>
      exact mem_uncovered ((isRustKeyword_iff _).mp h) (by simpa using hk)
  · intro h
    obtain ⟨h1, h2⟩ := uncovered_sub h
    rw [h2]; simp only [Bool.false_eq_true, if_false]
    exact (isRustKeyword_iff _).mpr h1

/-- a printed variant / type name is a keyword iff it is `Self` -/
theorem variant_keyword_iff (n : Name) (h : WeakIdent n = true) :
    isRustKeyword (emitVariant n) = true ↔ emitVariant n = "Self".toList := by
  obtain ⟨c, cs, rfl, hc, _⟩ := weak_cases h
  rw [emitVariant_eq, variantA_cons_alpha cs hc]
  constructor
  · intro hk
    exact kw_upper_first _ ((isRustKeyword_iff _).mp hk) (upper_toUpper_of_alpha hc)
  · intro he; rw [he]; decide

theorem emitType_eq_emitVariant (n : Name) : emitType n = emitVariant n := by
  rw [emitVariant_eq]; rfl

/-- a printed constant name is never a keyword, whatever the input: it contains no lower-case
    letter, every Rust keyword does -/
theorem const_never_keyword (n : Name) : isRustKeyword (emitConst n) = false := by
  cases hk : isRustKeyword (emitConst n) with
  | false => rfl
  | true =>
    have hl := kw_has_lower _ ((isRustKeyword_iff _).mp hk)
    simp only [List.any_eq_true] at hl
    obtain ⟨d, hd, hlow⟩ := hl
    unfold emitConst constantA at hd
    obtain ⟨d0, _, rfl⟩ := List.mem_map.mp hd
    rw [not_lower_toUpper] at hlow
    exact absurd hlow (by simp)

/-- PARTIAL form of `ident_legal`: legal in every role, provided the name is not in one of the
    (exactly characterised) keyword gaps and is not eaten by `make_name_nice`.  Module names are
    never escaped by the code, hence the unrestricted keyword hypothesis for that role. -/
theorem ident_legal_partial (n : Name) (h : AsnIdent n = true)
    (hf : fieldA n ∉ uncoveredKeywords)
    (hv : emitVariant n ≠ "Self".toList)
    (hm : makeNameNice n ≠ [] ∧ isRustKeyword (emitModule n) = false) :
    Legal (emitField n) ∧ Legal (emitVariant n) ∧ Legal (emitType n) ∧ Legal (emitConst n) ∧
    Legal (emitModule n) := by
  have hw := weak_of_asn h
  obtain ⟨s1, s2, s3, s4⟩ := ident_shape n hw
  have kf : isRustKeyword (emitField n) = false := by
    cases hk : isRustKeyword (emitField n) with
    | false => rfl
    | true => exact absurd ((field_keyword_iff n).mp hk) hf
  have kv : isRustKeyword (emitVariant n) = false := by
    cases hk : isRustKeyword (emitVariant n) with
    | false => rfl
    | true => exact absurd ((variant_keyword_iff n hw).mp hk) hv
  exact ⟨⟨s1, kf⟩, ⟨s2, kv⟩, ⟨s3, by rw [emitType_eq_emitVariant]; exact kv⟩,
    ⟨s4, const_never_keyword n⟩, ⟨module_shape n hw hm.1, hm.2⟩⟩

/-! ### the two mangling layers -/

/-- The generator's own mangling (layer B) is the identity on everything `convert_asn_to_rust`
    (layer A) hands to it, except for the keyword suffix of fields — for every input. -/
theorem layerB_identity (n : Name) :
    emitVariant n = variantA n ∧ emitModule n = moduleA false (makeNameNice n) ∧
    emitField n = (if keywordsB.contains (fieldA n) then fieldA n ++ ['_'] else fieldA n) :=
  ⟨emitVariant_eq n, emitModule_eq n, emitField_eq n⟩

/-! ### collisions -/

/-- `RustCodeGenerator::rust_field_name(_, false)` identifies exactly the names that are equal up
    to exchanging `-` and `_` position by position (`foo-bar ~ foo_bar`) -/
theorem collision_char (a b : Name) : fieldB false a = fieldB false b ↔ SepEq a b := by
  unfold fieldB
  simp only [Bool.false_and, Bool.false_eq_true, if_false]
  exact replHyphen_eq_iff a b

/-- names differing only in the separator are forced onto the same Rust name in every role
    (field, variant, type, constant, helper type) — whatever else they contain -/
theorem sep_must_collide (a b : Name) (h : SepEq a b) :
    emitField a = emitField b ∧ emitVariant a = emitVariant b ∧ emitType a = emitType b ∧
    emitConst a = emitConst b ∧ emitHelper a = emitHelper b := by
  have hm0 : moduleA false a = moduleA false b := moduleA_go_sepEq false h _ _ _ _
  have hm1 : moduleA true a = moduleA true b := moduleA_go_sepEq true h _ _ _ _
  have hv : variantA a = variantA b := variantA_go_sepEq h _ _
  refine ⟨?_, ?_, hv, ?_, ?_⟩
  · unfold emitField fieldA; rw [hm0]
  · unfold emitVariant; rw [hv]
  · unfold emitConst constantA; rw [hm1]
  · unfold emitHelper fieldA; rw [hm0]

/-- … with the keyword check switched on as well -/
theorem sep_must_collide_checked (a b : Name) (h : SepEq a b) : fieldB true a = fieldB true b := by
  unfold fieldB
  rw [(replHyphen_eq_iff a b).mpr h]

/-- Exactness on the conventional spelling: two X.680 identifiers written with lower-case letters,
    digits and single hyphens (`secret-message`) get the same struct field name only if they are
    the same identifier — every field collision involves a capital letter or an underscore. -/
theorem field_collision_lower_hyphen (a b : Name) (ha : AsnIdent a = true) (hb : AsnIdent b = true)
    (la : LowerHyphen a = true) (lb : LowerHyphen b = true) :
    emitField a = emitField b ↔ a = b := by
  constructor
  · intro h
    have nu : ∀ n : Name, LowerHyphen n = true → ∀ c ∈ n, c ≠ '_' := by
      intro n hn c hc
      simp only [LowerHyphen, List.all_eq_true] at hn
      exact (lowerHyphenChar_facts (hn c hc)).2
    have inj := replHyphen_injective a b (nu a la) (nu b lb)
    rw [emitField_eq, emitField_eq, fieldA_lowerHyphen a la, fieldA_lowerHyphen b lb] at h
    -- a trailing `_` can only come from a trailing separator, which an identifier does not have
    have noSnoc : ∀ (n x : Name), AsnIdent n = true → LowerHyphen n = true →
        replHyphen n ≠ x ++ ['_'] := by
      intro n x hn ln he
      obtain ⟨c, hc, hsep⟩ := replHyphen_snoc n x he
      rcases hsep with rfl | rfl
      · exact asnIdent_last n hn _ hc rfl
      · exact nu n ln _ (List.mem_of_getLast? hc) rfl
    split at h <;> split at h
    · exact inj (List.append_cancel_right h)
    · exact absurd h.symm (noSnoc b _ hb lb)
    · exact absurd h (noSnoc a _ ha la)
    · exact inj h
  · intro h; rw [h]

/-! ### concrete instances (non-vacuity, and collisions that are not separator-only) -/

example : WeakIdent "foo_bar-Baz1".toList = true ∧ AsnIdent "foo-bar1".toList = true ∧
    makeNameNice "My-Module".toList ≠ [] ∧ LowerHyphen "secret-message".toList = true ∧
    AsnIdent "secret-message".toList = true := by decide

example : AsnIdent "foo-bar".toList = true ∧ fieldA "foo-bar".toList ∉ uncoveredKeywords ∧
    emitVariant "foo-bar".toList ≠ "Self".toList ∧ makeNameNice "foo-bar".toList ≠ [] ∧
    isRustKeyword (emitModule "foo-bar".toList) = false := by decide
example : emitField "foo-bar".toList = "foo_bar".toList ∧ emitVariant "foo-bar".toList = "FooBar".toList ∧
    emitConst "foo-bar".toList = "FOO_BAR".toList ∧ emitModule "Foo-Bar".toList = "foo_bar".toList := by decide
example : emitField "use".toList = "use_".toList ∧ emitField "match".toList = "match_".toList := by decide
example : SepEq "foo-bar".toList "foo_bar".toList :=
  .same _ (.same _ (.same _ (.sep (.inl rfl) (.inr rfl) (SepEq.refl _))))
/-- case conversion collides names that are not `SepEq`: `foo-bar`/`fooBar` as fields,
    `ab-c`/`abC` as variants -/
example : emitField "foo-bar".toList = emitField "fooBar".toList ∧
    emitVariant "ab-c".toList = emitVariant "abC".toList ∧
    emitConst "a1".toList = emitConst "a-1".toList := by decide
/-- distinct fields `x1`, `x_1` whose helper types `AsnDefTFieldX1` coincide -/
example : emitField "x1".toList ≠ emitField "x-1".toList ∧
    emitHelper "x1".toList = emitHelper "x-1".toList := by decide
example : emitInline "T".toList "a".toList = emitType "TA".toList := by decide
example : uncoveredKeywords.length + keywordsB.length = rustKeywords.length := by decide

end Asn1Verif.Props.C09
