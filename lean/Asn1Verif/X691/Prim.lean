import Asn1Verif.Per.Prim
/-
  X.691 (08/2015), UNALIGNED variant of BASIC-PER: executable specification of the primitive
  encodings of clauses 11.5–11.9, 14/23 (index), 16 and 17, written from the text of the standard
  (not from the Rust code).  Every function is pure and yields the bit pattern (`List Bool`, first
  bit first) that the standard assigns to an abstract value.

  Shared with the code mirror are only the *notations*
    `Per.natBits w n`   "non-negative-binary-integer encoding of `n` in a field of `w` bits" (11.3)
    `Per.bytesBits`     the bits of a sequence of octets, most significant bit first
    `bitWidth n`        number of significant bits of `n`, i.e. the least `w` with `n < 2^w`
                        (so that `bitWidth (ub − lb)` = ⌈log2 (ub − lb + 1)⌉, 11.5.3 / 11.5.6)

  Nothing here knows about `u64`/`i64`: the functions are defined for all naturals / integers.
  The theorems in `Props/C10.lean` relate them to the code on the ranges of the Rust types.
-/
namespace Asn1Verif.X691
open Asn1Verif Asn1Verif.Per

/-! ### 11.5 constrained whole number -/

/-- 11.5.3/11.5.4/11.5.6 (UNALIGNED): the offset `n = v − lb` of a value in a range of
    `range + 1 = ub − lb + 1` values.  A range of one value produces the empty bit-field (11.5.4);
    otherwise the offset is a non-negative-binary-integer in the minimum number of bits necessary
    to represent the range, ⌈log2 (range + 1)⌉ (11.5.6). -/
def offsetField (range n : Nat) : Bits :=
  if range = 0 then [] else natBits (bitWidth range) n

/-- 11.5 for `lb ≤ v ≤ ub` -/
def constrained (lb ub v : Int) : Bits := offsetField (ub - lb).toNat (v - lb).toNat

/-- 11.5 for naturals (lengths, indices) -/
def constrainedNat (lb ub v : Nat) : Bits := offsetField (ub - lb) (v - lb)

/-! ### 11.9 length determinant -/

/- 16K = 16384, 64K = 65536 -/

/-- 11.9.3.5–11.9.3.8 (UNALIGNED: no alignment), the "unconstrained" length determinant for `n`
    items: the bits, and `some f` when only a fragment of `f` items is announced by it
    (11.9.3.8: `f` = 16K · m, m = 4, 3, 2 or 1 — as many 16K blocks as possible, at most four),
    in which case the encoding of the remaining `n − f` items (possibly none) follows the fragment
    with a length determinant of its own.
      n ≤ 127          `0` + n in 7 bits                       (11.9.3.6)
      128 ≤ n < 16K    `10` + n in 14 bits                     (11.9.3.7)
      n ≥ 16K          `11` + m in 6 bits                      (11.9.3.8) -/
def lenU (n : Nat) : Bits × Option Nat :=
  if n ≤ 127 then (false :: natBits 7 n, none)
  else if n < 16384 then (true :: false :: natBits 14 n, none)
  else
    let m := min (n / 16384) 4
    (true :: true :: natBits 6 m, some (m * 16384))

/-- 11.9.4: a length `n` with the PER-visible bounds `lb` (default 0) and `ub` (`none` = unbounded).
    11.9.4.1: `ub < 64K` ⇒ constrained whole number `(lb, ub)` (nothing when `lb = ub`);
    11.9.4.2: `ub ≥ 64K` or unset ⇒ the unconstrained form 11.9.3.5–8 (the lower bound is not used). -/
def len (lb ub : Option Nat) (n : Nat) : Bits × Option Nat :=
  match ub with
  | some u => if u < 65536 then (constrainedNat (lb.getD 0) u n, none) else lenU n
  | none => lenU n

/-! ### 11.7 semi-constrained, 11.8 unconstrained, 11.6 normally small whole numbers -/

/-- minimum number of octets (at least one, 11.3 NOTE / 11.7.4) holding `n` as a
    non-negative-binary-integer: the least `k ≥ 1` with `n < 2^(8k)` -/
def nnOctets (n : Nat) : Nat := max 1 ((bitWidth n + 7) / 8)

/-- 11.7: `n = v − lb` as a non-negative-binary-integer in the minimum number of octets, preceded by
    the (unconstrained, 11.9) length determinant of that number of octets -/
def semiNat (n : Nat) : Bits :=
  let k := nnOctets n
  (lenU k).1 ++ natBits (8 * k) n

def semi (lb v : Int) : Bits := semiNat (v - lb).toNat

/-- 11.4: 2's-complement-binary-integer of `v` in a field of `w` bits (`−2^(w−1) ≤ v < 2^(w−1)`):
    the non-negative-binary-integer `v mod 2^w` -/
def twos (w : Nat) (v : Int) : Bits := natBits w (v % (2 : Int) ^ w).toNat

/-- minimum number of octets `k ≥ 1` with `−2^(8k−1) ≤ v < 2^(8k−1)` (11.8.3 with 11.4.6) -/
def twosOctets (v : Int) : Nat :=
  if 0 ≤ v then bitWidth v.toNat / 8 + 1 else bitWidth (-v - 1).toNat / 8 + 1

/-- 11.8: 2's-complement-binary-integer in the minimum number of octets, preceded by their count -/
def unconstrained (v : Int) : Bits :=
  let k := twosOctets v
  (lenU k).1 ++ twos (8 * k) v

/-- 11.6: `n ≤ 63`: a single `0` bit and `n` in a 6-bit field (11.6.1); otherwise a single `1` bit and
    `n` as a semi-constrained whole number with lower bound 0 (11.6.2) -/
def small (n : Nat) : Bits :=
  if n ≤ 63 then false :: natBits 6 n else true :: semiNat n

/-! ### 14 / 23: enumeration and choice index -/

/-- `std` root alternatives (indices `0 … std−1`), `ext` = the type has an extension marker.
    14.2 / 23.6: not extensible ⇒ constrained whole number `(0, std−1)`;
    14.3 / 23.5, 23.7: extensible ⇒ one bit, `0` + the same for a root alternative,
    `1` + normally small non-negative whole number `index − std` for an extension addition (23.8). -/
def index (std : Nat) (ext : Bool) (i : Nat) : Bits :=
  if i < std then (if ext then [false] else []) ++ constrainedNat 0 (std - 1) i
  else true :: small (i - std)

/-! ### 11.9.3.8 fragmentation, 17 OCTET STRING, 16 BIT STRING -/

/-- The items `xs` (octets or bits, `enc` = their bits) under the unconstrained length form
    (11.9.3.5–8): fewer than 16K items: length + items; otherwise a fragment of 64K, 48K, 32K or
    16K items (the largest that fits) preceded by `11` + block count, followed by the encoding of
    the remaining items in the same manner — so that an exact multiple of 16K ends with a
    zero length octet (11.9.3.8 NOTE). -/
def fragU {α : Type} (enc : List α → Bits) (xs : List α) : Bits :=
  if _h : xs.length < 16384 then (lenU xs.length).1 ++ enc xs
  else
    let f := min (xs.length / 16384) 4 * 16384
    (lenU xs.length).1 ++ enc (xs.take f) ++ fragU enc (xs.drop f)
termination_by xs.length
decreasing_by
  simp only [List.length_drop]
  omega

/-- is the size `n` inside the root of the (effective) size constraint `(lb … ub)`? -/
def inRoot (lb ub : Option Nat) (n : Nat) : Bool :=
  decide (lb.getD 0 ≤ n) && (match ub with | some u => decide (n ≤ u) | none => true)

/-- 17 (OCTET STRING) / 16 (BIT STRING, no named bits) with the effective size constraint
    `(lb … ub)` (`none` = no bound) and `ext` = the constraint is extensible; `enc` as in `fragU`.
      17.3/16.6   extensible and size outside the root: `1`, then as if unconstrained
                  (semi-constrained length with lower bound 0, 11.9.3.5–8 with fragmentation);
                  extensible and inside: `0`, then as below
      17.5        `ub = 0`: nothing (for BIT STRING this is the fixed size 0 of 16.8/16.10)
      17.6, 17.7 / 16.9, 16.10   fixed size `lb = ub < 64K`: the items, no length
      17.8 / 16.11               otherwise: length determinant 11.9.4 (constrained when `ub < 64K`,
                  else unconstrained with fragmentation) + items -/
def sized {α : Type} (enc : List α → Bits) (lb ub : Option Nat) (ext : Bool) (xs : List α) : Bits :=
  let n := xs.length
  if ext && !inRoot lb ub n then true :: fragU enc xs
  else
    (if ext then [false] else []) ++
    (match ub with
     | some u =>
       if u = 0 then []
       else if lb = some u ∧ u < 65536 then enc xs
       else if u < 65536 then constrainedNat (lb.getD 0) u n ++ enc xs
       else fragU enc xs
     | none => fragU enc xs)

def octets (lb ub : Option Nat) (ext : Bool) (s : List (BitVec 8)) : Bits :=
  sized bytesBits lb ub ext s

def bitString (lb ub : Option Nat) (ext : Bool) (s : Bits) : Bits :=
  sized id lb ub ext s

end Asn1Verif.X691
