import Asn1Verif.X691.Prim
import Asn1Verif.Uper.Impl
/-
  X.691 (08/2015) UNALIGNED BASIC-PER: executable specification of the encoding of a value of an
  ASN.1 type, written from the standard (clauses 12–14, 16–23, 30 and 11.2), on the universe
  `Ty`/`Val` of `Uper/Types.lean`.  `Ty` is the descriptor of the generated Rust type, read as the
  ASN.1 type it stands for (DESIGN.md section 4):
    * an upper bound of `i64::MAX` in the descriptor is the keyword `MAX` (no upper bound);
    * ENUMERATED and CHOICE indices are the canonical ones (profile: declaration order = value / tag
      order);
    * the `width`/`signed` of an INTEGER and the generated constants `stdOpt`/`fieldCount` are not
      PER-visible and ignored here.
  `none` = the value is not a value of the type (wrong shape, outside a non-extensible constraint,
  character outside the alphabet).
  Shared with the code mirror are only notations (`natBits`, `bytesBits`, `utf8Decode`,
  `Charset.isValid`, `charBits`, `padToBytes`) — not the control flow.
-/
namespace Asn1Verif.X691
open Asn1Verif Asn1Verif.Per Asn1Verif.Uper

/-- the PER-visible upper bound of a size / an integer: `MAX` is recorded as `i64::MAX` -/
def ubNat (max : Option Nat) : Option Nat := max.filter (fun m => decide (m < I64MAXu))
def ubInt (max : Option Int) : Option Int := max.filter (fun m => decide (m < I64_MAX))

/-- 11.2: an open type field: the complete encoding of the value (padded to octets, a single zero
    octet when empty) as an unconstrained-length octet string (fragmented from 16K octets on) -/
def openType (content : Bits) : Bits :=
  fragU bytesBits (if content.isEmpty then [0#8] else padToBytes content)

/-- 13: INTEGER in its root (or not extensible) -/
def intRoot (min max : Option Int) (v : Int) : Option Bits :=
  match min, ubInt max with
  | some lb, some ub => if lb ≤ v ∧ v ≤ ub then some (constrained lb ub v) else none   -- 13.2.2 → 11.5
  | some lb, none => if lb ≤ v then some (semi lb v) else none                          -- 13.2.3 → 11.7
  | none, some ub => if v ≤ ub then some (unconstrained v) else none                    -- 13.2.4 → 11.8
  | none, none => some (unconstrained v)

def inSize (min max : Option Nat) (n : Nat) : Bool := inRoot min (ubNat max) n

/-- presence of a component value -/
def present : Kind → Val → Option Bool
  | .m, _ => some true
  | .o, .none => some false
  | .o, .some _ => some true
  | .o, _ => none
  | .d dv, v => some (!(v == dv))

/-- the encodings of the elements -/
def encodeListWith (f : Val → Option Bits) : Vals → Option (List Bits)
  | .nil => some []
  | .cons v vs =>
    match f v, encodeListWith f vs with
    | some a, some r => some (a :: r)
    | _, _ => none

mutual
def encode : Ty → Val → Option Bits
  | .bool, v =>
    match v with
    | .bool b => some [b]                                                -- 12
    | _ => none
  | .null, v =>
    match v with
    | .null => some []                                                   -- 18
    | _ => none
  | .int min max ext _ _, v =>
    match v with
    | .int i =>
      if ext then
        match intRoot min max i with
        | some b => some (false :: b)                                    -- 13.1, in the root
        | none => some (true :: unconstrained i)                         -- 13.1 / 13.2.? outside: 11.8
      else intRoot min max i
    | _ => none
  | .enum std total ext, v =>
    match v with
    | .enum i => if i < total ∧ (i < std ∨ ext) then some (index std ext i) else none   -- 14
    | _ => none
  | .str cs min max ext, v =>
    match v with
    | .str bytes =>
      match utf8Decode bytes with
      | none => none
      | some chars =>
        match cs with
        | .utf8 => some (fragU bytesBits bytes)                          -- 30.5: not known-multiplier
        | cs =>
          if chars.all cs.isValid ∧ (ext ∨ inSize min max chars.length) then
            some (sized (fun l => (l.map (charBits cs)).flatten) min (ubNat max) ext chars)   -- 30
          else none
    | _ => none
  | .oct min max ext, v =>
    match v with
    | .oct bytes =>
      if ext ∨ inSize min max bytes.length then some (octets min (ubNat max) ext bytes) else none   -- 17
    | _ => none
  | .bits min max ext, v =>
    match v with
    | .bits bs =>
      if ext ∨ inSize min max bs.length then some (bitString min (ubNat max) ext bs) else none      -- 16
    | _ => none
  | .seqOf min max ext elem, v =>
    match v with
    | .list vs =>
      match encodeListWith (encode elem) vs with
      | some items =>
        if ext ∨ inSize min max items.length then
          some (sized List.flatten min (ubNat max) ext items)            -- 20
        else none
      | none => none
    | _ => none
  | .seq _ _ extAfter fields, v =>
    match v with
    | .seq vs =>
      let rootCount := match extAfter with
        | none => fields.length
        | some k => k + 1
      match encodeFields fields vs rootCount with
      | some (rootPres, rootBody, addPres, addBody) =>
        match extAfter with
        | none => some (rootPres ++ rootBody)                            -- 19.2–19.5
        | some _ =>
          if addPres.any id then
            -- 19.1 extension bit, 19.7–19.9: count − 1 as normally small length, bitmap, open types
            some (true :: rootPres ++ rootBody ++ small (addPres.length - 1) ++ addPres ++ addBody)
          else some (false :: rootPres ++ rootBody)
      | none => none
    | _ => none
  | .choice std total ext alts, v =>
    match v with
    | .choice i x =>
      if i < total ∧ (i < std ∨ ext) then
        match encodeAlt alts i x with
        | some content =>
          if i < std then some (index std ext i ++ content)              -- 23.6 / 23.7
          else some (index std ext i ++ openType content)                -- 23.8
        | none => none
      else none
    | _ => none

def encodeAlt : Fields → Nat → Val → Option Bits
  | .nil, _, _ => none
  | .cons _ t _, 0, v => encode t v
  | .cons _ _ rest, i + 1, v => encodeAlt rest i v

/-- (root presence bits, root component encodings, addition presence bits, addition open types) -/
def encodeFields : Fields → Vals → Nat → Option (Bits × Bits × Bits × Bits)
  | .nil, vs, _ =>
    match vs with
    | .nil => some ([], [], [], [])
    | _ => none
  | .cons k t rest, vs, rootLeft =>
    match vs with
    | .nil => none
    | .cons v vs =>
      match present k v, encodeFields rest vs (rootLeft - 1) with
      | some p, some (rp, rb, ap, ab) =>
        let content : Option Bits :=
          if p then
            match k, v with
            | .o, .some x => encode t x
            | .o, _ => none
            | _, v => encode t v
          else some []
        match content with
        | some c =>
          if rootLeft > 0 then
            some ((if k.isOptional then [p] else []) ++ rp, c ++ rb, ap, ab)
          else
            some (rp, rb, p :: ap, (if p then openType c else []) ++ ab)
        | none => none
      | _, _ => none
end

end Asn1Verif.X691
