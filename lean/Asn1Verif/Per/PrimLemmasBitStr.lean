import Asn1Verif.Per.PrimLemmasStr
/-
  BIT STRING (16) against `X691.bitString`: same structure as `PrimLemmasStr.lean`, the items are
  bits (`enc = id`).
-/
namespace Asn1Verif.Per
open Asn1Verif Outcome

/-! ### the writer's fragment loop -/

theorem wBitFrag_lt (rest : Bits) (h : rest.length < 16384) :
    wBitFrag rest = ok ((X691.lenU rest.length).1 ++ rest) := by
  rw [wBitFrag, wLen_unc']
  dsimp only
  have hfs : (X691.lenU rest.length).2.getD rest.length = rest.length := by
    rw [lenU_snd_lt h]; rfl
  rw [hfs, if_pos (Nat.le_refl _), dif_pos (show rest.length < Consts.MIN_FRAGMENT_SIZE from h),
    List.take_length]

theorem wBitFrag_ge (rest : Bits) (h : 16384 ≤ rest.length) :
    wBitFrag rest =
      (wBitFrag (rest.drop (min (rest.length / 16384) 4 * 16384)) >>= fun more =>
        ok ((X691.lenU rest.length).1
          ++ rest.take (min (rest.length / 16384) 4 * 16384) ++ more)) := by
  have hb := frag_bounds h
  rw [wBitFrag, wLen_unc']
  dsimp only
  have hfs : (X691.lenU rest.length).2.getD rest.length = min (rest.length / 16384) 4 * 16384 := by
    rw [lenU_snd_ge h]; rfl
  rw [hfs, if_pos hb.2,
    dif_neg (show ¬ min (rest.length / 16384) 4 * 16384 < Consts.MIN_FRAGMENT_SIZE from
      Nat.not_lt.2 hb.1)]
  cases wBitFrag (List.drop (min (rest.length / 16384) 4 * 16384) rest) <;> rfl

theorem wBitFrag_eq : ∀ (n : Nat) (rest : Bits), rest.length = n →
    wBitFrag rest = ok (X691.fragU id rest) := by
  intro n
  induction n using Nat.strongRecOn with
  | ind n ih =>
    intro rest hn
    by_cases h : rest.length < 16384
    · rw [wBitFrag_lt rest h, fragU_lt _ _ h]; rfl
    · have hge : 16384 ≤ rest.length := by omega
      have hb := frag_bounds hge
      rw [wBitFrag_ge rest hge, fragU_ge _ _ hge,
        ih (rest.length - min (rest.length / 16384) 4 * 16384) (by omega) _ (by simp)]
      rfl

/-! ### `wBitString` -/

/-- the closure `body` of `wBitString` -/
def bitBody (pre : Bits) (bits : Bits) (hdr : Bits) (fragment : Option Nat) : Outcome Bits :=
  let first := fragment.getD bits.length
  if first ≤ bits.length then
    match fragment with
    | none => ok (pre ++ hdr ++ bits.take first)
    | some _ => do
      let more ← wBitFrag (bits.drop first)
      ok (pre ++ hdr ++ bits.take first ++ more)
  else err .endOfStream

theorem wBitString_eq (lb ub : Option Nat) (ext : Bool) (src : Bits) :
    wBitString lb ub ext src =
      (let oor := decide (src.length < lb.getD 0 ∨ src.length > ub.getD I64MAXu)
       let pre : Bits := if ext then [oor] else []
       if oor then
        if ext then do
          let (hdr, f) ← wLen none none src.length
          bitBody pre src hdr f
        else err .sizeNotInRange
      else if lb.isSome && lb = ub && decide (ub.getD I64MAXu < Consts.LENGTH_64K) then
        bitBody pre src [] none
      else do
        let (hdr, f) ← wLen lb ub src.length
        bitBody pre src hdr f) := rfl

theorem wBitString_out (lb ub : Option Nat) (ext : Bool) (src : Bits)
    (h : src.length < lb.getD 0 ∨ src.length > ub.getD I64MAXu) :
    wBitString lb ub ext src =
      (if ext then do
        let (hdr, f) ← wLen none none src.length
        bitBody [true] src hdr f
      else err .sizeNotInRange) := by
  rw [wBitString_eq]
  cases ext <;> simp [h]

theorem wBitString_in (lb ub : Option Nat) (ext : Bool) (src : Bits)
    (h : ¬ (src.length < lb.getD 0 ∨ src.length > ub.getD I64MAXu)) :
    wBitString lb ub ext src =
      (if lb.isSome && lb = ub && decide (ub.getD I64MAXu < Consts.LENGTH_64K) then
        bitBody (if ext then [false] else []) src [] none
      else do
        let (hdr, f) ← wLen lb ub src.length
        bitBody (if ext then [false] else []) src hdr f) := by
  rw [wBitString_eq]
  simp only [h, decide_false, Bool.false_eq_true, if_false]

theorem bitBody_none (pre src hdr : Bits) :
    bitBody pre src hdr none = ok (pre ++ hdr ++ src) := by
  simp [bitBody]

theorem bitBody_unc (pre src : Bits) :
    bitBody pre src (X691.lenU src.length).1 (X691.lenU src.length).2
      = ok (pre ++ X691.fragU id src) := by
  unfold bitBody
  by_cases h : src.length < 16384
  · rw [lenU_snd_lt h, fragU_lt _ _ h]
    simp
  · have hge : 16384 ≤ src.length := by omega
    have hb := frag_bounds hge
    rw [lenU_snd_ge hge, fragU_ge _ _ hge]
    simp only [Option.getD_some, hb.2, if_true]
    rw [wBitFrag_eq _ _ rfl]
    simp

theorem wBitString_ext_out (lb ub : Option Nat) (src : Bits)
    (h : src.length < lb.getD 0 ∨ src.length > ub.getD I64MAXu) :
    wBitString lb ub true src = ok (true :: X691.fragU id src) := by
  rw [wBitString_out _ _ _ _ h, wLen_unc']
  simp only [if_true, Outcome.bind_ok]
  rw [bitBody_unc]; rfl

theorem wBitString_rejects (lb ub : Option Nat) (src : Bits)
    (h : src.length < lb.getD 0 ∨ src.length > ub.getD I64MAXu) :
    wBitString lb ub false src = err .sizeNotInRange := by
  rw [wBitString_out _ _ _ _ h]; rfl

/-- the pattern outside the deviating region -/
theorem wBitString_pattern (lb ub : Option Nat) (ext : Bool) (src : Bits)
    (hd : ¬ LenDeviates lb ub) (hn : src.length ≤ I64MAXu)
    (hadm : ext = true ∨ X691.inRoot lb ub src.length = true) :
    wBitString lb ub ext src = ok (X691.bitString lb ub ext src) := by
  unfold X691.bitString X691.sized
  by_cases hin : X691.inRoot lb ub src.length = true
  · have hoor : ¬ (src.length < lb.getD 0 ∨ src.length > ub.getD I64MAXu) := by
      rw [outOfRange_iff lb ub _ hn, hin]; simp
    have hc : (ext && !X691.inRoot lb ub src.length) = false := by simp [hin]
    rw [wBitString_in _ _ _ _ hoor]
    simp only [hc, Bool.false_eq_true, if_false]
    cases ub with
    | none =>
      have := not_dev_none hd; subst this
      simp only [Option.isSome_none, Bool.false_and, Bool.false_eq_true, if_false]
      rw [wLen_unc']
      simp only [Outcome.bind_ok]
      rw [bitBody_unc]
    | some u =>
      have hu : u < 65536 := not_dev_some hd
      have hlen : lb.getD 0 ≤ src.length ∧ src.length ≤ u := by
        simp only [Option.getD_some] at hoor; omega
      simp only [Option.getD_some, c_LENGTH_64K, hu, decide_true, Bool.and_true, if_true]
      by_cases hfix : lb = some u
      · simp only [hfix, Option.isSome_some, Bool.true_and, decide_true, if_true, true_and]
        rw [bitBody_none]
        by_cases hu0 : u = 0
        · have : src = [] := List.eq_nil_of_length_eq_zero (by simp [hfix] at hlen; omega)
          simp [hu0, this]
        · simp [hu0]
      · simp only [hfix, decide_false, Bool.and_false, Bool.false_eq_true, if_false, false_and]
        rw [wLen_con lb u _ hu hlen.1 hlen.2]
        simp only [Outcome.bind_ok]
        rw [bitBody_none]
        by_cases hu0 : u = 0
        · have : src = [] := List.eq_nil_of_length_eq_zero (by omega)
          simp [hu0, this, X691.constrainedNat, X691.offsetField]
        · simp [hu0]
  · have hin' : X691.inRoot lb ub src.length = false := by simpa using hin
    have hext : ext = true := by
      rcases hadm with h | h
      · exact h
      · exact absurd h hin
    subst hext
    rw [wBitString_ext_out lb ub src (not_inRoot_outOfRange lb ub _ hin')]
    simp [hin']

/-! ### the reader's fragment loop -/

theorem rBitFrag_step (acc bs : Bits) (n : Nat) (r data r' : Bits)
    (h1 : rLen none none bs = ok (n, r)) (h2 : rdBits n r = ok (data, r')) :
    rBitFrag acc bs =
      if n < Consts.LENGTH_16K then ok (acc ++ data, r')
      else if _hlt : r'.length < bs.length then rBitFrag (acc ++ data) r'
      else panic := by
  rw [rBitFrag, h1]; dsimp only; rw [h2]

theorem rBitFrag_rt : ∀ (n : Nat) (s : Bits), s.length = n → ∀ (acc post : Bits),
    rBitFrag acc (X691.fragU id s ++ post) = ok (acc ++ s, post) := by
  intro n
  induction n using Nat.strongRecOn with
  | ind n ih =>
    intro s hn acc post
    by_cases h : s.length < 16384
    · rw [rBitFrag_step acc _ _ _ _ _ (rLen_fragU_lt id s post h)
        (rdBits_append (id s) post rfl),
        if_pos (show s.length < Consts.LENGTH_16K from h)]; rfl
    · have hge : 16384 ≤ s.length := by omega
      have hb := frag_bounds hge
      have hl : (id (List.take (min (s.length / 16384) 4 * 16384) s)).length
          = min (s.length / 16384) 4 * 16384 := by
        rw [id, List.length_take]; omega
      rw [rBitFrag_step acc _ _ _ _ _ (rLen_fragU_ge id s post hge)
        (rdBits_append _ _ hl),
        if_neg (show ¬ min (s.length / 16384) 4 * 16384 < Consts.LENGTH_16K from
          Nat.not_lt.2 hb.1),
        dif_pos (fragU_length_lt id s post hge),
        ih (s.length - min (s.length / 16384) 4 * 16384) (by omega) _ (by simp),
        id, List.append_assoc, List.take_append_drop]

theorem good_rBitFrag : ∀ (n : Nat) (bs : Bits), bs.length = n → ∀ acc : Bits,
    Good bs (rBitFrag acc bs) := by
  intro n
  induction n using Nat.strongRecOn with
  | ind n ih =>
    intro bs hn acc
    cases h1 : rLen none none bs with
    | err k => rw [rBitFrag, h1]; exact good_err _ _
    | panic => exact absurd h1 (good_rLen none none bs).1
    | ok p =>
      obtain ⟨m, r⟩ := p
      have hr : r <:+ bs := (good_rLen none none bs).2 m r h1
      have hrl := rLen_unc_consumes h1
      cases h2 : rdBits m r with
      | err k => rw [rBitFrag, h1]; dsimp only; rw [h2]; exact good_err _ _
      | panic => exact absurd h2 (good_rdBits _ r).1
      | ok q =>
        obtain ⟨data, r'⟩ := q
        have hr' : r' <:+ r := (good_rdBits _ r).2 data r' h2
        have hlt : r'.length < bs.length := by
          have := suffix_length_le hr'; omega
        rw [rBitFrag_step acc bs m r data r' h1 h2]
        refine Good.ite (fun _ => good_ok _ (hr'.trans hr)) (fun _ => ?_)
        rw [dif_pos hlt]
        exact (ih r'.length (by omega) r' rfl _).mono (hr'.trans hr)

/-! ### `rBitString` -/

/-- the closure `body` of `rBitString` -/
def bitRBody (bitLen : Nat) (frag : Bool) (r : Bits) : Outcome (Bits × Bits) := do
  let (data, r') ← rdBits bitLen r
  if frag && decide (bitLen ≥ Consts.LENGTH_16K) then rBitFrag data r'
  else ok (data, r')

theorem rBitString_eq (lb ub : Option Nat) (ext : Bool) (bs : Bits) :
    rBitString lb ub ext bs = (do
      let (isExt, r0) ← (if ext then rdBit bs else ok (false, bs))
      if isExt then do
        let (n, r1) ← rLen none none r0
        bitRBody n true r1
      else if lb.isSome && lb = ub && decide (ub.getD I64MAXu < Consts.LENGTH_64K) then
        bitRBody (ub.getD I64MAXu) false r0
      else do
        let (n, r1) ← rLen lb ub r0
        bitRBody n (lb.isNone && ub.isNone) r1) := rfl

theorem bitRBody_plain (s : Bits) (frag : Bool) (post : Bits)
    (h : frag = false ∨ s.length < 16384) :
    bitRBody s.length frag (s ++ post) = ok (s, post) := by
  unfold bitRBody
  rw [rdBits_append _ _ rfl]
  simp only [Outcome.bind_ok, c_LENGTH_16K]
  have : (frag && decide (s.length ≥ 16384)) = false := by
    rcases h with h | h
    · simp [h]
    · have : ¬ s.length ≥ 16384 := by omega
      simp [this]
  simp [this]

theorem rBit_unc (s post : Bits) :
    ∃ N R, rLen none none (X691.fragU id s ++ post) = ok (N, R) ∧
      bitRBody N true R = ok (s, post) := by
  by_cases h : s.length < 16384
  · exact ⟨_, _, rLen_fragU_lt id s post h, bitRBody_plain s true post (Or.inr h)⟩
  · have hge : 16384 ≤ s.length := by omega
    have hb := frag_bounds hge
    refine ⟨_, _, rLen_fragU_ge id s post hge, ?_⟩
    have hl : (id (List.take (min (s.length / 16384) 4 * 16384) s)).length
        = min (s.length / 16384) 4 * 16384 := by
      rw [id, List.length_take]; omega
    unfold bitRBody
    rw [rdBits_append _ _ hl]
    have hc : (true && decide (min (s.length / 16384) 4 * 16384 ≥ Consts.LENGTH_16K)) = true := by
      have : min (s.length / 16384) 4 * 16384 ≥ 16384 := hb.1
      simp [this]
    simp only [Outcome.bind_ok, hc, if_true]
    rw [rBitFrag_rt _ _ rfl, id, List.take_append_drop]

/-- self-consistency for **every** shape of bounds -/
theorem rBitString_wBitString (lb ub : Option Nat) (ext : Bool) (s bits post : Bits)
    (hub : ∀ u, ub = some u → u ≤ U64_MAX)
    (hw : wBitString lb ub ext s = ok bits) : rBitString lb ub ext (bits ++ post) = ok (s, post) := by
  rw [rBitString_eq]
  by_cases hoor : s.length < lb.getD 0 ∨ s.length > ub.getD I64MAXu
  · cases ext with
    | false => rw [wBitString_rejects lb ub s hoor] at hw; cases hw
    | true =>
      rw [wBitString_ext_out lb ub s hoor] at hw
      injection hw with hw; subst hw
      obtain ⟨N, R, h1, h2⟩ := rBit_unc s post
      simp only [if_true, List.cons_append, rdBit_cons, Outcome.bind_ok, h1]
      exact h2
  · rw [wBitString_in lb ub ext s hoor] at hw
    have hupper : ub.getD I64MAXu ≤ U64_MAX := by
      cases ub with
      | none => decide
      | some u => exact hub u rfl
    by_cases cf : (lb.isSome && lb = ub && decide (ub.getD I64MAXu < Consts.LENGTH_64K)) = true
    · rw [if_pos cf, bitBody_none] at hw
      injection hw with hw; subst hw
      have hlen : ub.getD I64MAXu = s.length := by
        simp only [Bool.and_eq_true, decide_eq_true_eq] at cf
        obtain ⟨⟨h1, h2⟩, _⟩ := cf
        subst h2
        cases lb with
        | none => simp at h1
        | some l => simp at hoor ⊢; omega
      have := rd_pre ext (s ++ post)
      simp only [List.append_assoc, List.append_nil] at this ⊢
      rw [this]
      simp only [Outcome.bind_ok, Bool.false_eq_true, if_false, cf, if_true]
      rw [hlen]; exact bitRBody_plain s false post (Or.inl rfl)
    · rw [if_neg cf] at hw
      cases hwl : wLen lb ub s.length with
      | err k => rw [hwl] at hw; cases hw
      | panic => rw [hwl] at hw; cases hw
      | ok p =>
        obtain ⟨hdr, f⟩ := p
        rw [hwl] at hw
        simp only [Outcome.bind_ok] at hw
        by_cases hs : (lb.isSome || ub.isSome) = true
        · have hf := wLen_bounded_none lb ub _ hdr f hs hwl
          subst hf
          rw [bitBody_none] at hw
          injection hw with hw; subst hw
          have hrl := rLen_wLen lb ub s.length hdr (s ++ post) hwl (by omega) (by omega)
            (by omega)
          have := rd_pre ext (hdr ++ (s ++ post))
          simp only [List.append_assoc] at this ⊢
          rw [this]
          simp only [Outcome.bind_ok, Bool.false_eq_true, if_false, cf, hrl]
          have hfr : (lb.isNone && ub.isNone) = false := by
            cases lb <;> cases ub <;> simp_all
          rw [hfr]; exact bitRBody_plain s false post (Or.inl rfl)
        · have hl : lb = none := by cases lb <;> simp_all
          have hu : ub = none := by cases ub <;> simp_all
          subst hl; subst hu
          rw [wLen_unc'] at hwl
          obtain ⟨e1, e2⟩ := ok_pair_inj hwl
          subst e1; subst e2
          rw [bitBody_unc] at hw
          injection hw with hw; subst hw
          obtain ⟨N, R, h1, h2⟩ := rBit_unc s post
          have := rd_pre ext (X691.fragU id s ++ post)
          simp only [List.append_assoc] at this ⊢
          rw [this]
          simp only [Outcome.bind_ok, Bool.false_eq_true, if_false, h1]
          exact h2

theorem good_bitRBody (n : Nat) (frag : Bool) (r : Bits) : Good r (bitRBody n frag r) := by
  unfold bitRBody
  refine Good.bind (good_rdBits _ r) (fun data r' _ _ => ?_)
  exact Good.ite (fun _ => good_rBitFrag _ r' rfl _) (fun _ => good_ok _ (List.suffix_refl r'))

theorem good_rBitString (lb ub : Option Nat) (ext : Bool) (bs : Bits) :
    Good bs (rBitString lb ub ext bs) := by
  rw [rBitString_eq]
  have h0 : Good bs (if ext = true then rdBit bs else ok (false, bs)) :=
    Good.ite (fun _ => good_rdBit bs) (fun _ => good_ok _ (List.suffix_refl bs))
  refine Good.bind h0 (fun b r0 _ _ => ?_)
  refine Good.ite (fun _ => ?_) (fun _ => Good.ite (fun _ => good_bitRBody _ _ r0) (fun _ => ?_))
  · exact Good.bind (good_rLen _ _ r0) (fun n r1 _ _ => good_bitRBody _ _ r1)
  · exact Good.bind (good_rLen _ _ r0) (fun n r1 _ _ => good_bitRBody _ _ r1)

end Asn1Verif.Per
