import Asn1Verif.Per.Prim
/-
  Facts about the notations shared by the code mirror (`Per/Prim.lean`) and the specification
  (`X691/Prim.lean`): `natBits`, `bitsToNat`, `bytesBits`, `bitsBytes`, `bitWidth`, and about the
  three raw readers `rdBit`, `rdNat`, `rdBits`.
-/
namespace Asn1Verif.Per
open Asn1Verif Outcome

/-! ### constants -/

@[simp] theorem c_LENGTH_127 : Consts.LENGTH_127 = 127 := rfl
@[simp] theorem c_LENGTH_16K : Consts.LENGTH_16K = 16384 := rfl
@[simp] theorem c_LENGTH_64K : Consts.LENGTH_64K = 65536 := rfl
@[simp] theorem c_MAX_FRAGMENTS : Consts.MAX_FRAGMENTS = 4 := rfl
@[simp] theorem c_MIN_FRAGMENT_SIZE : Consts.MIN_FRAGMENT_SIZE = 16384 := rfl
@[simp] theorem c_SMALL : Consts.SMALL_NON_NEGATIVE_NUMBER = 64 := rfl

theorem I64MAXu_eq : I64MAXu = 9223372036854775807 := by decide
theorem U64_MAX_eq : U64_MAX = 18446744073709551615 := by decide
theorem I64_MAX_eq : I64_MAX = 9223372036854775807 := by decide
theorem I64_MIN_eq : I64_MIN = -9223372036854775808 := by decide

/-! ### `bitWidth` -/

theorem bitWidth_zero : bitWidth 0 = 0 := rfl

theorem lt_two_pow_bitWidth (n : Nat) : n < 2 ^ bitWidth n := by
  unfold bitWidth
  split
  · subst_vars; exact Nat.one_pos
  · exact Nat.lt_log2_self

theorem bitWidth_le_of_lt {n k : Nat} (h : n < 2 ^ k) : bitWidth n ≤ k := by
  unfold bitWidth
  split
  · exact Nat.zero_le _
  · rename_i hn
    exact (Nat.log2_lt hn).2 h

theorem two_pow_le_of_bitWidth {n : Nat} (hn : n ≠ 0) : 2 ^ (bitWidth n - 1) ≤ n := by
  unfold bitWidth
  rw [if_neg hn, Nat.add_sub_cancel]
  exact Nat.log2_self_le hn

/-- `bitWidth n ≤ k ↔ n < 2^k`: `bitWidth n` is the least field width that holds `n` -/
theorem bitWidth_le_iff {n k : Nat} : bitWidth n ≤ k ↔ n < 2 ^ k :=
  ⟨fun h => Nat.lt_of_lt_of_le (lt_two_pow_bitWidth n) (Nat.pow_le_pow_right (by decide) h),
   bitWidth_le_of_lt⟩

theorem bitWidth_mono {a b : Nat} (h : a ≤ b) : bitWidth a ≤ bitWidth b :=
  bitWidth_le_of_lt (Nat.lt_of_le_of_lt h (lt_two_pow_bitWidth b))

theorem bitWidth_le_64 {n : Nat} (h : n ≤ U64_MAX) : bitWidth n ≤ 64 :=
  bitWidth_le_of_lt (by rw [U64_MAX_eq] at h; omega)

theorem bitWidth_le_63 {n : Nat} (h : n ≤ I64MAXu) : bitWidth n ≤ 63 :=
  bitWidth_le_of_lt (by rw [I64MAXu_eq] at h; omega)

theorem bitWidth_pos {n : Nat} (h : n ≠ 0) : 0 < bitWidth n := by
  unfold bitWidth; rw [if_neg h]; exact Nat.succ_pos _

theorem bitWidth_eq_of {n k : Nat} (h1 : 2 ^ k ≤ n) (h2 : n < 2 ^ (k + 1)) : bitWidth n = k + 1 := by
  have hle := bitWidth_le_of_lt h2
  have : ¬ bitWidth n ≤ k := fun h => by
    have := bitWidth_le_iff.1 h; omega
  omega

@[simp] theorem bitWidth_127 : bitWidth 127 = 7 := by decide
@[simp] theorem bitWidth_16383 : bitWidth 16383 = 14 := by decide
@[simp] theorem bitWidth_63 : bitWidth 63 = 6 := by decide

/-! ### `natBits`, `bitsToNat` -/

@[simp] theorem natBits_length (w v : Nat) : (natBits w v).length = w := by
  induction w with
  | zero => rfl
  | succ w ih => simp [natBits, ih]

@[simp] theorem natBits_zero_width (v : Nat) : natBits 0 v = [] := rfl

theorem bitsToNat_foldl (bs : Bits) (a : Nat) :
    bs.foldl (fun acc b => 2 * acc + b.toNat) a = a * 2 ^ bs.length + bitsToNat bs := by
  induction bs generalizing a with
  | nil => simp [bitsToNat]
  | cons b r ih =>
    simp only [List.foldl_cons, bitsToNat, List.length_cons]
    rw [ih (2 * a + b.toNat), ih (2 * 0 + b.toNat)]
    simp only [bitsToNat, Nat.pow_succ]
    rw [Nat.add_mul, Nat.add_mul]
    simp only [Nat.mul_zero, Nat.zero_mul, Nat.zero_add]
    rw [Nat.mul_comm 2 a, Nat.mul_assoc, Nat.mul_comm 2 (2 ^ r.length)]
    omega

@[simp] theorem bitsToNat_nil : bitsToNat [] = 0 := rfl

theorem bitsToNat_cons (b : Bool) (r : Bits) :
    bitsToNat (b :: r) = b.toNat * 2 ^ r.length + bitsToNat r := by
  have := bitsToNat_foldl r (2 * 0 + b.toNat)
  simp only [bitsToNat, List.foldl_cons] at this ⊢
  rw [this]; simp

theorem bitsToNat_lt (bs : Bits) : bitsToNat bs < 2 ^ bs.length := by
  induction bs with
  | nil => simp
  | cons b r ih =>
    rw [bitsToNat_cons, List.length_cons, Nat.pow_succ]
    have : b.toNat ≤ 1 := Bool.toNat_le b
    have : b.toNat * 2 ^ r.length ≤ 1 * 2 ^ r.length := Nat.mul_le_mul_right _ this
    omega

theorem bitsToNat_natBits (w v : Nat) : bitsToNat (natBits w v) = v % 2 ^ w := by
  induction w with
  | zero => simp [Nat.mod_one]
  | succ w ih =>
    rw [natBits, bitsToNat_cons, ih, natBits_length]
    have h1 : v % 2 ^ (w + 1) = v % 2 ^ w + 2 ^ w * (v / 2 ^ w % 2) := by
      rw [Nat.pow_succ]; exact Nat.mod_mul
    rw [h1, Nat.testBit_eq_decide_div_mod_eq]
    have h2 : v / 2 ^ w % 2 < 2 := Nat.mod_lt _ (by decide)
    by_cases h : v / 2 ^ w % 2 = 1
    · simp [h]; omega
    · have : v / 2 ^ w % 2 = 0 := by omega
      simp [this]

theorem bitsToNat_natBits_of_lt {w v : Nat} (h : v < 2 ^ w) : bitsToNat (natBits w v) = v := by
  rw [bitsToNat_natBits, Nat.mod_eq_of_lt h]

/-- a field as wide as `bitWidth range` holds every offset `≤ range` exactly -/
theorem bitsToNat_natBits_bitWidth {range n : Nat} (h : n ≤ range) :
    bitsToNat (natBits (bitWidth range) n) = n :=
  bitsToNat_natBits_of_lt (Nat.lt_of_le_of_lt h (lt_two_pow_bitWidth range))

/-- `natBits w` only looks at the low `w` bits -/
theorem natBits_congr {w a b : Nat} (h : ∀ i, i < w → a.testBit i = b.testBit i) :
    natBits w a = natBits w b := by
  induction w with
  | zero => rfl
  | succ w ih =>
    simp only [natBits]
    rw [h w (Nat.lt_succ_self w), ih (fun i hi => h i (Nat.lt_succ_of_lt hi))]

theorem natBits_mod {w k : Nat} (v : Nat) (h : w ≤ k) : natBits w (v % 2 ^ k) = natBits w v := by
  apply natBits_congr
  intro i hi
  rw [Nat.testBit_mod_two_pow]
  have : i < k := Nat.lt_of_lt_of_le hi h
  simp [this]

theorem natBits_bitsToNat (bs : Bits) : natBits bs.length (bitsToNat bs) = bs := by
  induction bs with
  | nil => rfl
  | cons b r ih =>
    rw [List.length_cons, natBits, bitsToNat_cons]
    have hlt := bitsToNat_lt r
    congr 1
    · rw [Nat.testBit_eq_decide_div_mod_eq]
      cases b
      · simp only [Bool.toNat_false, Nat.zero_mul, Nat.zero_add]
        rw [Nat.div_eq_of_lt hlt]; rfl
      · simp only [Bool.toNat_true, Nat.one_mul]
        have : (2 ^ r.length + bitsToNat r) / 2 ^ r.length = 1 := by
          rw [Nat.add_div_left _ (Nat.two_pow_pos _), Nat.div_eq_of_lt hlt]
        rw [this]; rfl
    · have hm : (b.toNat * 2 ^ r.length + bitsToNat r) % 2 ^ r.length = bitsToNat r := by
        rw [Nat.add_comm, Nat.add_mul_mod_self_right, Nat.mod_eq_of_lt hlt]
      rw [← natBits_mod _ (Nat.le_refl r.length), hm, ih]

/-! ### octets -/

@[simp] theorem bytesBits_length (s : List (BitVec 8)) : (bytesBits s).length = 8 * s.length := by
  induction s with
  | nil => rfl
  | cons b r ih => simp [bytesBits, ih]; omega

theorem bytesBits_append (a b : List (BitVec 8)) : bytesBits (a ++ b) = bytesBits a ++ bytesBits b := by
  induction a with
  | nil => rfl
  | cons x r ih => simp [bytesBits, ih]

theorem bitsBytes_nil : bitsBytes [] = [] := by
  rw [bitsBytes]; simp

theorem bitsBytes_bytesBits (s : List (BitVec 8)) : bitsBytes (bytesBits s) = s := by
  induction s with
  | nil => exact bitsBytes_nil
  | cons b r ih =>
    rw [bitsBytes]
    have hne : ¬ (bytesBits (b :: r)).isEmpty = true := by
      simp [bytesBits, natBits]
    rw [dif_neg hne]
    simp only [bytesBits]
    have h8 : (natBits 8 b.toNat).length = 8 := natBits_length _ _
    rw [List.take_left' h8, List.drop_left' h8, ih, bitsToNat_natBits]
    congr 1
    apply BitVec.eq_of_toNat_eq
    simp [Nat.mod_eq_of_lt b.isLt]

/-! ### the raw readers on `field ++ post` -/

@[simp] theorem rdBit_cons (b : Bool) (r : Bits) : rdBit (b :: r) = ok (b, r) := rfl

theorem rdNat_append {w : Nat} (f post : Bits) (h : f.length = w) :
    rdNat w (f ++ post) = ok (bitsToNat f, post) := by
  unfold rdNat
  have : ¬ (f ++ post).length < w := by simp [List.length_append]; omega
  rw [if_neg this, List.take_left' h, List.drop_left' h]

theorem rdNat_natBits (w v : Nat) (post : Bits) :
    rdNat w (natBits w v ++ post) = ok (v % 2 ^ w, post) := by
  rw [rdNat_append _ _ (natBits_length w v), bitsToNat_natBits]

theorem rdBits_append {n : Nat} (f post : Bits) (h : f.length = n) :
    rdBits n (f ++ post) = ok (f, post) := by
  unfold rdBits
  have : ¬ (f ++ post).length < n := by simp [List.length_append]; omega
  rw [if_neg this, List.take_left' h, List.drop_left' h]

/-! ### "no panic, no over-read" as a predicate on one reader call -/

/-- the result of a reader started on `bs` is not a panic and, when `ok`, leaves a suffix of `bs` -/
def Good {α : Type} (bs : Bits) (x : Outcome (α × Bits)) : Prop :=
  x ≠ panic ∧ ∀ v rest, x = ok (v, rest) → rest <:+ bs

theorem good_ok {α : Type} {bs rest : Bits} (v : α) (h : rest <:+ bs) : Good bs (ok (v, rest)) :=
  ⟨by simp, fun v' r' e => by cases e; exact h⟩

theorem good_err {α : Type} (bs : Bits) (k : ErrKind) : Good bs (err k : Outcome (α × Bits)) :=
  ⟨by simp, fun _ _ e => by cases e⟩

theorem Good.mono {α : Type} {bs bs' : Bits} {x : Outcome (α × Bits)} (h : Good bs x)
    (hs : bs <:+ bs') : Good bs' x :=
  ⟨h.1, fun v r e => (h.2 v r e).trans hs⟩

theorem Good.bind {α β : Type} {bs : Bits} {x : Outcome (α × Bits)}
    {k : α × Bits → Outcome (β × Bits)} (hx : Good bs x)
    (hk : ∀ v r, x = ok (v, r) → r <:+ bs → Good r (k (v, r))) : Good bs (x >>= k) := by
  cases x with
  | ok p =>
    obtain ⟨v, r⟩ := p
    have hr := hx.2 v r rfl
    exact (hk v r rfl hr).mono hr
  | err e => exact good_err bs e
  | panic => exact absurd rfl hx.1

theorem Good.ite {α : Type} {bs : Bits} {c : Prop} [Decidable c] {x y : Outcome (α × Bits)}
    (hx : c → Good bs x) (hy : ¬ c → Good bs y) : Good bs (if c then x else y) := by
  split
  · exact hx ‹_›
  · exact hy ‹_›

theorem good_rdBit (bs : Bits) : Good bs (rdBit bs) := by
  cases bs with
  | nil => exact good_err _ _
  | cons b r => exact good_ok b (List.suffix_cons b r)

theorem good_rdNat (w : Nat) (bs : Bits) : Good bs (rdNat w bs) := by
  unfold rdNat
  exact Good.ite (fun _ => good_err _ _) (fun _ => good_ok _ (List.drop_suffix w bs))

theorem good_rdBits (n : Nat) (bs : Bits) : Good bs (rdBits n bs) := by
  unfold rdBits
  exact Good.ite (fun _ => good_err _ _) (fun _ => good_ok _ (List.drop_suffix n bs))

/-- one bit read: the rest is strictly shorter -/
theorem rdBit_ok_length {bs r : Bits} {b : Bool} (h : rdBit bs = ok (b, r)) :
    r.length + 1 = bs.length := by
  cases bs with
  | nil => cases h
  | cons x xs => cases h; rfl

theorem suffix_length_le {a b : Bits} (h : a <:+ b) : a.length ≤ b.length := h.length_le

end Asn1Verif.Per
