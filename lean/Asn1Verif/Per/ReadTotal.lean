import Asn1Verif.Per.Prim
/-
  L1 reader totality (C04, part 1): every reader of `Per/Prim.lean`, for ALL arguments and ALL
  inputs,
    * never panics, and
    * on success returns a remaining input that is a suffix of the input it was started on
      (it only ever consumes from the front: no over-read, no rewind).
  Both facts are packaged as `Good bs (r bs)`; `Good` composes along `>>=` (`Good.bind`).

  The fragment loops `rOctFrag` / `rBitFrag` are defined by well-founded recursion on the length
  of the remaining input and contain an "unreachable" `panic` branch guarded by
  `r'.length < bs.length`.  `rLen_none_consumes` shows that an unconstrained length determinant
  consumes at least 8 bits on success, hence the guard always holds and the branch is dead.

  Quantitative part (allocation bounded by the input): `rOctets_len_le`, `rBitString_len_le`.
-/
/- everything lives in `Asn1Verif.Per.RT` (the lemma files `Per/PrimLemmas*.lean` of C10 use some of the
   same short names in `Asn1Verif.Per`; the two developments are independent) -/
namespace Asn1Verif.Per.RT
open Asn1Verif Outcome Per

/-- `rest` is what is left of `bs` after consuming a prefix -/
abbrev IsSuffix (rest bs : Bits) : Prop := rest <:+ bs

theorem isSuffix_iff {rest bs : Bits} : IsSuffix rest bs ↔ ∃ pre, bs = pre ++ rest :=
  ⟨fun ⟨t, h⟩ => ⟨t, h.symm⟩, fun ⟨t, h⟩ => ⟨t, h.symm⟩⟩

theorem IsSuffix.trans {a b c : Bits} (h1 : IsSuffix a b) (h2 : IsSuffix b c) : IsSuffix a c :=
  List.IsSuffix.trans h1 h2

/-- the equivalent "length" form of the suffix property -/
theorem isSuffix_iff_drop {rest bs : Bits} :
    IsSuffix rest bs ↔ rest.length ≤ bs.length ∧ rest = bs.drop (bs.length - rest.length) := by
  constructor
  · rintro ⟨t, rfl⟩
    refine ⟨by simp, ?_⟩
    have : (t ++ rest).length - rest.length = t.length := by simp
    rw [this]; simp
  · rintro ⟨_, h⟩; rw [h]; exact List.drop_suffix _ _

/-- Outcome of a reader that was started on `bs`: it did not panic, and if it succeeded the
    remaining input is a suffix of `bs`. -/
def Good {α : Type} (bs : Bits) : Outcome (α × Bits) → Prop
  | .ok (_, rest) => IsSuffix rest bs
  | .err _ => True
  | .panic => False

@[simp] theorem good_ok {α : Type} (bs : Bits) (a : α) (rest : Bits) :
    Good bs (ok (a, rest)) ↔ rest <:+ bs := Iff.rfl
@[simp] theorem good_err {α : Type} (bs : Bits) (k : ErrKind) :
    Good bs (err k : Outcome (α × Bits)) := trivial
@[simp] theorem good_panic {α : Type} (bs : Bits) :
    ¬ Good bs (panic : Outcome (α × Bits)) := id

theorem Good.ne_panic {α : Type} {bs : Bits} {o : Outcome (α × Bits)} (h : Good bs o) :
    o ≠ .panic := by
  intro e; subst e; exact h

theorem Good.suffix {α : Type} {bs : Bits} {o : Outcome (α × Bits)} (h : Good bs o)
    {a : α} {rest : Bits} (e : o = ok (a, rest)) : IsSuffix rest bs := by
  subst e; exact h

theorem good_iff {α : Type} {bs : Bits} {o : Outcome (α × Bits)} :
    Good bs o ↔ o ≠ .panic ∧ ∀ a rest, o = ok (a, rest) → ∃ pre, bs = pre ++ rest := by
  constructor
  · intro h; exact ⟨h.ne_panic, fun a rest e => isSuffix_iff.1 (h.suffix e)⟩
  · rintro ⟨h1, h2⟩
    match o, h1, h2 with
    | .ok (a, rest), _, h2 => exact isSuffix_iff.2 (h2 a rest rfl)
    | .err _, _, _ => trivial
    | .panic, h1, _ => exact h1 rfl

/-- continuing on a suffix -/
theorem Good.mono {α : Type} {bs rest : Bits} {o : Outcome (α × Bits)} (hs : rest <:+ bs)
    (h : Good rest o) : Good bs o := by
  match o, h with
  | .ok (_, r), h => exact List.IsSuffix.trans h hs
  | .err _, _ => trivial

/-- sequential composition -/
theorem Good.bind {α β : Type} {bs : Bits} {x : Outcome (α × Bits)}
    {f : α × Bits → Outcome (β × Bits)} (hx : Good bs x)
    (hf : ∀ a rest, x = ok (a, rest) → rest <:+ bs → Good rest (f (a, rest))) :
    Good bs (x >>= f) := by
  match x, hx, hf with
  | .ok (a, rest), hx, hf => exact Good.mono hx (hf a rest rfl hx)
  | .err _, _, _ => trivial

/-! ### the primitive readers -/

theorem rdBit_good (bs : Bits) : Good bs (rdBit bs) := by
  cases bs with
  | nil => trivial
  | cons b r => exact List.suffix_cons b r

theorem rdNat_good (w : Nat) (bs : Bits) : Good bs (rdNat w bs) := by
  unfold rdNat; split
  · trivial
  · exact List.drop_suffix w bs

theorem rdBits_good (n : Nat) (bs : Bits) : Good bs (rdBits n bs) := by
  unfold rdBits; split
  · trivial
  · exact List.drop_suffix n bs

/-- exact consumption of the fixed-width readers -/
theorem rdBit_len {bs rest : Bits} {b : Bool} (h : rdBit bs = ok (b, rest)) :
    rest.length + 1 = bs.length := by
  cases bs with
  | nil => simp [rdBit] at h
  | cons c r => simp only [rdBit, ok.injEq, Prod.mk.injEq] at h; rw [← h.2]; rfl

theorem rdNat_len {w : Nat} {bs rest : Bits} {v : Nat} (h : rdNat w bs = ok (v, rest)) :
    rest.length + w = bs.length := by
  unfold rdNat at h; split at h
  · simp at h
  · simp only [ok.injEq, Prod.mk.injEq] at h; rw [← h.2, List.length_drop]; omega

theorem rdBits_len {n : Nat} {bs rest data : Bits} (h : rdBits n bs = ok (data, rest)) :
    data.length = n ∧ rest.length + n = bs.length := by
  unfold rdBits at h; split at h
  · simp at h
  · simp only [ok.injEq, Prod.mk.injEq] at h
    rw [← h.1, ← h.2, List.length_take, List.length_drop]; omega

theorem rNNBIc_good (lb ub : Option Nat) (bs : Bits) : Good bs (rNNBIc lb ub bs) := by
  unfold rNNBIc
  refine Good.bind (rdNat_good _ _) (fun v rest _ _ => ?_)
  dsimp only
  split
  · trivial
  · exact List.suffix_refl rest

theorem rNNBIc_len {lb ub : Option Nat} {bs rest : Bits} {v : Nat}
    (h : rNNBIc lb ub bs = ok (v, rest)) :
    rest.length + bitWidth (ub.getD I64MAXu - lb.getD 0) = bs.length := by
  unfold rNNBIc at h
  simp only [bind_eq_ok] at h
  obtain ⟨⟨v', r'⟩, h1, h2⟩ := h
  dsimp only at h2
  split at h2
  · simp at h2
  · simp only [ok.injEq, Prod.mk.injEq] at h2
    rw [← h2.2]; exact rdNat_len h1

theorem rLen_good (lb ub : Option Nat) (bs : Bits) : Good bs (rLen lb ub bs) := by
  unfold rLen
  dsimp only
  split
  · split
    · exact List.suffix_refl bs
    · exact rNNBIc_good _ _ _
  · split
    · exact rNNBIc_good _ _ _
    · refine Good.bind (rdBit_good _) (fun b0 r0 _ _ => ?_)
      dsimp only
      split
      · exact rNNBIc_good _ _ _
      · refine Good.bind (rdBit_good _) (fun b1 r1 _ _ => ?_)
        dsimp only
        split
        · exact rNNBIc_good _ _ _
        · refine Good.bind (rdNat_good _ _) (fun m r2 _ _ => ?_)
          exact List.suffix_refl r2

/-- An unconstrained length determinant takes at least 8 bits (8 for ≤ 127 and for a fragment
    header, 16 for 128 … 16383) and announces at most `MAX_FRAGMENTS` · 16K. -/
theorem rLen_none_consumes {bs rest : Bits} {n : Nat} (h : rLen none none bs = ok (n, rest)) :
    rest.length + 8 ≤ bs.length := by
  unfold rLen at h
  simp only [Option.isSome_none, Bool.or_self, Bool.false_and, Bool.false_eq_true, ↓reduceIte,
    bind_eq_ok] at h
  obtain ⟨⟨b0, r0⟩, h0, h⟩ := h
  have l0 := rdBit_len h0
  dsimp only at h
  split at h
  · have := rNNBIc_len h
    have e : bitWidth ((some Consts.LENGTH_127).getD I64MAXu - (none : Option Nat).getD 0) = 7 := by
      decide
    omega
  · simp only [bind_eq_ok] at h
    obtain ⟨⟨b1, r1⟩, h1, h⟩ := h
    have l1 := rdBit_len h1
    dsimp only at h
    split at h
    · have := rNNBIc_len h
      have e : bitWidth ((some (Consts.LENGTH_16K - 1)).getD I64MAXu - (none : Option Nat).getD 0)
          = 14 := by decide
      omega
    · simp only [bind_eq_ok] at h
      obtain ⟨⟨m, r2⟩, h2, h⟩ := h
      have l2 := rdNat_len h2
      simp only [ok.injEq, Prod.mk.injEq] at h
      rw [← h.2]; omega

theorem rNNBI_good (lb ub : Option Nat) (bs : Bits) : Good bs (rNNBI lb ub bs) := by
  unfold rNNBI
  split
  · refine Good.bind (rLen_good _ _ _) (fun n rest _ _ => ?_)
    dsimp only
    split
    · exact rdNat_good _ _
    · trivial
  · exact rNNBIc_good _ _ _

theorem r2s_good (bitLen : Nat) (bs : Bits) : Good bs (r2s bitLen bs) := by
  unfold r2s
  split
  · trivial
  · refine Good.bind (rdNat_good _ _) (fun v rest _ _ => ?_)
    dsimp only
    split <;> exact List.suffix_refl rest

theorem rConstrained_good (lb ub : Int) (bs : Bits) : Good bs (rConstrained lb ub bs) := by
  unfold rConstrained
  split
  · refine Good.bind (rNNBI_good _ _ _) (fun o rest _ _ => ?_)
    dsimp only
    split
    · trivial
    · exact List.suffix_refl rest
  · exact List.suffix_refl bs

theorem rSmall_good (bs : Bits) : Good bs (rSmall bs) := by
  unfold rSmall
  refine Good.bind (rdBit_good _) (fun big rest _ _ => ?_)
  dsimp only
  split <;> exact rNNBI_good _ _ _

theorem rSemi_good (lb : Int) (bs : Bits) : Good bs (rSemi lb bs) := by
  unfold rSemi
  refine Good.bind (rNNBI_good _ _ _) (fun n rest _ _ => ?_)
  dsimp only
  split
  · exact List.suffix_refl rest
  · trivial

theorem rUnconstrained_good (bs : Bits) : Good bs (rUnconstrained bs) := by
  unfold rUnconstrained
  refine Good.bind (rLen_good _ _ _) (fun n rest _ _ => ?_)
  exact r2s_good _ _

/-- the optional leading extension bit of `rIndex`, `rOctets`, `rBitString` -/
theorem extBit_good (extensible : Bool) (bs : Bits) :
    Good bs (if extensible then rdBit bs else ok (false, bs)) := by
  split
  · exact rdBit_good bs
  · exact List.suffix_refl bs

theorem rIndex_good (stdVariants : Nat) (extensible : Bool) (bs : Bits) :
    Good bs (rIndex stdVariants extensible bs) := by
  unfold rIndex
  refine Good.bind (extBit_good _ _) (fun isExt rest _ _ => ?_)
  dsimp only
  split
  · refine Good.bind (rSmall_good _) (fun n rest' _ _ => ?_)
    dsimp only
    split
    · trivial
    · exact List.suffix_refl rest'
  · split
    · trivial
    · exact rNNBI_good _ _ _

/-! ### fragment loops: the `panic` branch is dead -/

theorem rOctFrag_good (acc : List (BitVec 8)) (bs : Bits) : Good bs (rOctFrag acc bs) := by
  fun_induction rOctFrag acc bs with
  | case1 acc bs extLen r hl data r' hd hlt => exact (rdBits_good _ _).suffix hd |>.trans ((rLen_good _ _ _).suffix hl)
  | case2 acc bs extLen r hl data r' hd hge hlt ih =>
    exact Good.mono (((rdBits_good _ _).suffix hd).trans ((rLen_good _ _ _).suffix hl)) ih
  | case3 acc bs extLen r hl data r' hd hge hnlt =>
    -- unreachable
    have := rLen_none_consumes hl
    have := (rdBits_len hd).2
    omega
  | case4 => trivial
  | case5 acc bs extLen r hl hp => exact absurd hp (rdBits_good _ _).ne_panic
  | case6 => trivial
  | case7 acc bs hp => exact absurd hp (rLen_good _ _ _).ne_panic

theorem rBitFrag_good (acc : Bits) (bs : Bits) : Good bs (rBitFrag acc bs) := by
  fun_induction rBitFrag acc bs with
  | case1 acc bs extLen r hl data r' hd hlt => exact (rdBits_good _ _).suffix hd |>.trans ((rLen_good _ _ _).suffix hl)
  | case2 acc bs extLen r hl data r' hd hge hlt ih =>
    exact Good.mono (((rdBits_good _ _).suffix hd).trans ((rLen_good _ _ _).suffix hl)) ih
  | case3 acc bs extLen r hl data r' hd hge hnlt =>
    have := rLen_none_consumes hl
    have := (rdBits_len hd).2
    omega
  | case4 => trivial
  | case5 acc bs extLen r hl hp => exact absurd hp (rdBits_good _ _).ne_panic
  | case6 => trivial
  | case7 acc bs hp => exact absurd hp (rLen_good _ _ _).ne_panic

/-! ### octet string / bit string -/

/-- the common tail of `rOctets`: `byteLen` octets, then the fragments if announced -/
theorem octBody_good (byteLen : Nat) (frag : Bool) (r : Bits) :
    Good r (do
      let (data, r') ← rdBits (8 * byteLen) r
      if frag && decide (byteLen ≥ Consts.LENGTH_16K) then rOctFrag (bitsBytes data) r'
      else ok (bitsBytes data, r')) := by
  refine Good.bind (rdBits_good _ _) (fun data r' _ _ => ?_)
  dsimp only
  split
  · exact rOctFrag_good _ _
  · exact List.suffix_refl r'

theorem rOctets_good (lb ub : Option Nat) (extensible : Bool) (bs : Bits) :
    Good bs (rOctets lb ub extensible bs) := by
  unfold rOctets
  dsimp only
  refine Good.bind (extBit_good _ _) (fun isExt r0 _ _ => ?_)
  dsimp only
  split
  · refine Good.bind (rLen_good _ _ _) (fun n r1 _ _ => ?_)
    exact octBody_good _ _ _
  · split
    · exact List.suffix_refl r0
    · split
      · exact octBody_good _ _ _
      · refine Good.bind (rLen_good _ _ _) (fun n r1 _ _ => ?_)
        exact octBody_good _ _ _

theorem bitBody_good (bitLen : Nat) (frag : Bool) (r : Bits) :
    Good r (do
      let (data, r') ← rdBits bitLen r
      if frag && decide (bitLen ≥ Consts.LENGTH_16K) then rBitFrag data r'
      else ok (data, r')) := by
  refine Good.bind (rdBits_good _ _) (fun data r' _ _ => ?_)
  dsimp only
  split
  · exact rBitFrag_good _ _
  · exact List.suffix_refl r'

theorem rBitString_good (lb ub : Option Nat) (extensible : Bool) (bs : Bits) :
    Good bs (rBitString lb ub extensible bs) := by
  unfold rBitString
  dsimp only
  refine Good.bind (extBit_good _ _) (fun isExt r0 _ _ => ?_)
  dsimp only
  split
  · refine Good.bind (rLen_good _ _ _) (fun n r1 _ _ => ?_)
    exact bitBody_good _ _ _
  · split
    · exact bitBody_good _ _ _
    · refine Good.bind (rLen_good _ _ _) (fun n r1 _ _ => ?_)
      exact bitBody_good _ _ _

/-! ### allocation is bounded by the input: 8 bits of input per octet returned, 1 per bit -/

theorem bitsBytes_length (n : Nat) (d : Bits) (h : d.length = 8 * n) : (bitsBytes d).length = n := by
  induction n generalizing d with
  | zero =>
    have : d = [] := List.length_eq_zero_iff.1 (by omega)
    subst this
    rw [bitsBytes]; rfl
  | succ n ih =>
    cases d with
    | nil => exact absurd h (by simp only [List.length_nil]; omega)
    | cons b r =>
      rw [bitsBytes]
      simp only [List.isEmpty_cons, Bool.false_eq_true, ↓reduceDIte, List.length_cons]
      rw [ih ((b :: r).drop 8) (by rw [List.length_drop]; omega)]

/-- the fragment loop returns at most one octet per 8 bits it consumes (in fact it consumes 8
    more for every length determinant) -/
theorem rOctFrag_len_le (acc : List (BitVec 8)) (bs : Bits) :
    ∀ out rest, rOctFrag acc bs = ok (out, rest) →
      8 * out.length + rest.length + 8 ≤ 8 * acc.length + bs.length := by
  fun_induction rOctFrag acc bs with
  | case1 acc bs extLen r hl data r' hd hlt =>
    intro out rest h
    simp only [ok.injEq, Prod.mk.injEq] at h
    have := rLen_none_consumes hl
    have := rdBits_len hd
    have := bitsBytes_length extLen data (by omega)
    rw [← h.1, ← h.2, List.length_append]; omega
  | case2 acc bs extLen r hl data r' hd hge hlt ih =>
    intro out rest h
    have := ih out rest h
    have := rLen_none_consumes hl
    have := rdBits_len hd
    have := bitsBytes_length extLen data (by omega)
    rw [List.length_append] at *; omega
  | case3 => intro _ _ h; simp at h
  | case4 => intro _ _ h; simp at h
  | case5 => intro _ _ h; simp at h
  | case6 => intro _ _ h; simp at h
  | case7 => intro _ _ h; simp at h

theorem rBitFrag_len_le (acc : Bits) (bs : Bits) :
    ∀ out rest, rBitFrag acc bs = ok (out, rest) →
      out.length + rest.length + 8 ≤ acc.length + bs.length := by
  fun_induction rBitFrag acc bs with
  | case1 acc bs extLen r hl data r' hd hlt =>
    intro out rest h
    simp only [ok.injEq, Prod.mk.injEq] at h
    have := rLen_none_consumes hl
    have := rdBits_len hd
    rw [← h.1, ← h.2, List.length_append]; omega
  | case2 acc bs extLen r hl data r' hd hge hlt ih =>
    intro out rest h
    have := ih out rest h
    have := rLen_none_consumes hl
    have := rdBits_len hd
    rw [List.length_append] at *; omega
  | case3 => intro _ _ h; simp at h
  | case4 => intro _ _ h; simp at h
  | case5 => intro _ _ h; simp at h
  | case6 => intro _ _ h; simp at h
  | case7 => intro _ _ h; simp at h

theorem octBody_len_le {byteLen : Nat} {frag : Bool} {r rest : Bits} {out : List (BitVec 8)}
    (h : (do
      let (data, r') ← rdBits (8 * byteLen) r
      if frag && decide (byteLen ≥ Consts.LENGTH_16K) then rOctFrag (bitsBytes data) r'
      else ok (bitsBytes data, r')) = ok (out, rest)) :
    8 * out.length + rest.length ≤ r.length := by
  simp only [bind_eq_ok] at h
  obtain ⟨⟨data, r'⟩, h1, h⟩ := h
  have := rdBits_len h1
  have := bitsBytes_length byteLen data (by omega)
  dsimp only at h
  split at h
  · have := rOctFrag_len_le _ _ _ _ h; omega
  · simp only [ok.injEq, Prod.mk.injEq] at h
    rw [← h.1, ← h.2]; omega

theorem extBit_len_le {extensible : Bool} {bs r0 : Bits} {b : Bool}
    (h : (if extensible then rdBit bs else ok (false, bs)) = ok (b, r0)) :
    r0.length ≤ bs.length := by
  split at h
  · have := rdBit_len h; omega
  · simp only [ok.injEq, Prod.mk.injEq] at h; rw [h.2]; exact Nat.le_refl _

/-- **allocation bound**: an octet string reader that succeeds has consumed at least 8 bits of
    its input for every octet it returns -/
theorem rOctets_len_le {lb ub : Option Nat} {extensible : Bool} {bs rest : Bits}
    {data : List (BitVec 8)} (h : rOctets lb ub extensible bs = ok (data, rest)) :
    8 * data.length + rest.length ≤ bs.length := by
  unfold rOctets at h
  dsimp only at h
  obtain ⟨⟨isExt, r0⟩, h0, h⟩ := bind_eq_ok.1 h
  have l0 := extBit_len_le h0
  dsimp only at h
  split at h
  · obtain ⟨⟨n, r1⟩, h1, h⟩ := bind_eq_ok.1 h
    have := (rLen_good _ _ _).suffix h1 |>.length_le
    have := octBody_len_le (r := r1) h
    omega
  · split at h
    · simp only [ok.injEq, Prod.mk.injEq] at h
      rw [← h.1, ← h.2]; simpa using l0
    · split at h
      · have := octBody_len_le h; omega
      · obtain ⟨⟨n, r1⟩, h1, h⟩ := bind_eq_ok.1 h
        have := (rLen_good _ _ _).suffix h1 |>.length_le
        have := octBody_len_le (r := r1) h
        omega

theorem bitBody_len_le {bitLen : Nat} {frag : Bool} {r rest out : Bits}
    (h : (do
      let (data, r') ← rdBits bitLen r
      if frag && decide (bitLen ≥ Consts.LENGTH_16K) then rBitFrag data r'
      else ok (data, r')) = ok (out, rest)) :
    out.length + rest.length ≤ r.length := by
  simp only [bind_eq_ok] at h
  obtain ⟨⟨data, r'⟩, h1, h⟩ := h
  have := rdBits_len h1
  dsimp only at h
  split at h
  · have := rBitFrag_len_le _ _ _ _ h; omega
  · simp only [ok.injEq, Prod.mk.injEq] at h
    rw [← h.1, ← h.2]; omega

/-- the same for bit strings: one bit of input per bit returned -/
theorem rBitString_len_le {lb ub : Option Nat} {extensible : Bool} {bs rest data : Bits}
    (h : rBitString lb ub extensible bs = ok (data, rest)) :
    data.length + rest.length ≤ bs.length := by
  unfold rBitString at h
  dsimp only at h
  obtain ⟨⟨isExt, r0⟩, h0, h⟩ := bind_eq_ok.1 h
  have l0 := extBit_len_le h0
  dsimp only at h
  split at h
  · obtain ⟨⟨n, r1⟩, h1, h⟩ := bind_eq_ok.1 h
    have := (rLen_good _ _ _).suffix h1 |>.length_le
    have := bitBody_len_le (r := r1) h
    omega
  · split at h
    · have := bitBody_len_le h; omega
    · obtain ⟨⟨n, r1⟩, h1, h⟩ := bind_eq_ok.1 h
      have := (rLen_good _ _ _).suffix h1 |>.length_le
      have := bitBody_len_le (r := r1) h
      omega

/-! ### lower bounds of the consumption (used for the work bound of SEQUENCE OF) -/

theorem bitWidth_pos {n : Nat} (h : 1 ≤ n) : 1 ≤ bitWidth n := by
  unfold bitWidth
  have : ¬ n = 0 := by omega
  simp only [this, ↓reduceIte]; omega

/-- `rNNBI none (some u)` reads exactly `bitWidth u` bits -/
theorem rNNBI_some_len {u : Nat} {bs rest : Bits} {v : Nat}
    (h : rNNBI none (some u) bs = ok (v, rest)) : rest.length + bitWidth u = bs.length := by
  unfold rNNBI at h
  have := rNNBIc_len h
  simpa using this

theorem rUnconstrained_consumes {bs rest : Bits} {v : Int}
    (h : rUnconstrained bs = ok (v, rest)) : rest.length + 8 ≤ bs.length := by
  unfold rUnconstrained at h
  obtain ⟨⟨n, r1⟩, h1, h2⟩ := bind_eq_ok.1 h
  have := rLen_none_consumes h1
  have := ((r2s_good _ _).suffix h2).length_le
  omega

theorem rConstrained_consumes {lb ub : Int} (hr : ub > lb) {bs rest : Bits} {v : Int}
    (h : rConstrained lb ub bs = ok (v, rest)) : rest.length + 1 ≤ bs.length := by
  unfold rConstrained at h
  rw [if_pos hr] at h
  obtain ⟨⟨o, r1⟩, h1, h2⟩ := bind_eq_ok.1 h
  have l1 := rNNBI_some_len h1
  have : 1 ≤ bitWidth (ub - lb).toNat := bitWidth_pos (by omega)
  dsimp only at h2
  split at h2
  · simp at h2
  · simp only [ok.injEq, Prod.mk.injEq] at h2
    rw [← h2.2]; omega

/-- the index of an extensible ENUMERATED/CHOICE takes at least the extension bit, the index of
    a non-extensible one with at least two alternatives at least one bit -/
theorem rIndex_consumes {std : Nat} {ext : Bool} (hc : ext = true ∨ 2 ≤ std) {bs rest : Bits}
    {v : Nat} (h : rIndex std ext bs = ok (v, rest)) : rest.length + 1 ≤ bs.length := by
  unfold rIndex at h
  obtain ⟨⟨isExt, r0⟩, h0, h1⟩ := bind_eq_ok.1 h
  dsimp only at h1
  -- what follows the extension bit consumes `c` bits, `c ≥ 1` if there are ≥ 2 alternatives
  have tail : rest.length ≤ r0.length ∧ (isExt = false → 2 ≤ std → rest.length + 1 ≤ r0.length) := by
    split at h1
    · rename_i hx
      obtain ⟨⟨n, r'⟩, h2, h3⟩ := bind_eq_ok.1 h1
      have := ((rSmall_good _).suffix h2).length_le
      dsimp only at h3
      split at h3
      · simp at h3
      · simp only [ok.injEq, Prod.mk.injEq] at h3
        rw [← h3.2]
        exact ⟨this, fun e => by rw [e] at hx; exact absurd hx (by decide)⟩
    · split at h1
      · simp at h1
      · have l1 := rNNBI_some_len h1
        refine ⟨by omega, fun _ h2 => ?_⟩
        have : 1 ≤ bitWidth (std - 1) := bitWidth_pos (by omega)
        omega
  cases ext with
  | true =>
    simp only [↓reduceIte] at h0
    have := rdBit_len h0
    omega
  | false =>
    simp only [Bool.false_eq_true, ↓reduceIte, ok.injEq, Prod.mk.injEq] at h0
    have h2 : 2 ≤ std := by simpa using hc
    have := tail.2 h0.1.symm h2
    rw [← h0.2] at this
    exact this

/-- an extensible OCTET STRING takes at least the extension bit, an unconstrained one at least
    the length determinant -/
theorem rOctets_consumes {lb ub : Option Nat} {ext : Bool}
    (hc : ext = true ∨ (lb = none ∧ ub = none)) {bs rest : Bits} {v : List (BitVec 8)}
    (h : rOctets lb ub ext bs = ok (v, rest)) : rest.length + 1 ≤ bs.length := by
  unfold rOctets at h
  dsimp only at h
  obtain ⟨⟨isExt, r0⟩, h0, h1⟩ := bind_eq_ok.1 h
  dsimp only at h1
  cases ext with
  | true =>
    simp only [↓reduceIte] at h0
    have := rdBit_len h0
    -- what follows the extension bit never rewinds
    split at h1
    · obtain ⟨⟨n, r1⟩, h2, h3⟩ := bind_eq_ok.1 h1
      have := ((rLen_good _ _ _).suffix h2).length_le
      have := octBody_len_le (r := r1) h3
      omega
    · split at h1
      · simp only [ok.injEq, Prod.mk.injEq] at h1; rw [← h1.2]; omega
      · split at h1
        · have := octBody_len_le (r := r0) h1; omega
        · obtain ⟨⟨n, r1⟩, h2, h3⟩ := bind_eq_ok.1 h1
          have := ((rLen_good _ _ _).suffix h2).length_le
          have := octBody_len_le (r := r1) h3
          omega
  | false =>
    obtain ⟨rfl, rfl⟩ : lb = none ∧ ub = none := by simpa using hc
    simp only [Bool.false_eq_true, ↓reduceIte, ok.injEq, Prod.mk.injEq] at h0
    obtain ⟨rfl, rfl⟩ := h0
    have hI : ¬ ((none : Option Nat).getD I64MAXu = 0) := by decide
    simp only [Bool.false_eq_true, ↓reduceIte, hI, Option.isSome_none, Bool.false_and] at h1
    obtain ⟨⟨n, r1⟩, h2, h3⟩ := bind_eq_ok.1 h1
    have := rLen_none_consumes h2
    have := octBody_len_le (r := r1) h3
    omega

theorem rBitString_consumes {lb ub : Option Nat} {ext : Bool}
    (hc : ext = true ∨ (lb = none ∧ ub = none)) {bs rest : Bits} {v : Bits}
    (h : rBitString lb ub ext bs = ok (v, rest)) : rest.length + 1 ≤ bs.length := by
  unfold rBitString at h
  dsimp only at h
  obtain ⟨⟨isExt, r0⟩, h0, h1⟩ := bind_eq_ok.1 h
  dsimp only at h1
  cases ext with
  | true =>
    simp only [↓reduceIte] at h0
    have := rdBit_len h0
    split at h1
    · obtain ⟨⟨n, r1⟩, h2, h3⟩ := bind_eq_ok.1 h1
      have := ((rLen_good _ _ _).suffix h2).length_le
      have := bitBody_len_le (r := r1) h3
      omega
    · split at h1
      · have := bitBody_len_le (r := r0) h1; omega
      · obtain ⟨⟨n, r1⟩, h2, h3⟩ := bind_eq_ok.1 h1
        have := ((rLen_good _ _ _).suffix h2).length_le
        have := bitBody_len_le (r := r1) h3
        omega
  | false =>
    obtain ⟨rfl, rfl⟩ : lb = none ∧ ub = none := by simpa using hc
    simp only [Bool.false_eq_true, ↓reduceIte, ok.injEq, Prod.mk.injEq] at h0
    obtain ⟨rfl, rfl⟩ := h0
    simp only [Bool.false_eq_true, ↓reduceIte, Option.isSome_none, Bool.false_and] at h1
    obtain ⟨⟨n, r1⟩, h2, h3⟩ := bind_eq_ok.1 h1
    have := rLen_none_consumes h2
    have := bitBody_len_le (r := r1) h3
    omega

end Asn1Verif.Per.RT
