import Asn1Verif.Base.Outcome
import Asn1Verif.Gen.Consts
/-
  L1 — mirror of `src/protocol/per/unaligned/mod.rs` (`PackedRead`/`PackedWrite` blanket impls).

  The L1 functions only ever *append* bits to the writer (`write_bit`, `write_bits*`) and only ever
  read *forward*, so they are modelled on the abstraction of L0 (see `Bits/BufferLemmas.lean`:
  a successful `BitBuffer` write appends exactly the source bits to `abs`; a read through `Bits`
  consumes bits up to the declared length and fails with an error beyond it):
    writers  return the list of bits they append           `Outcome Bits` (+ result value)
    readers  consume from the front of the remaining input  `Bits → Outcome (α × Bits)`
  A writer that fails part-way has already appended some bits in the real code; nothing observes
  them (the property only speaks about successful writes), so the model drops them.

  Numbers: `u64`/`i64` arguments are `Nat`/`Int`; the theorems assume they are in range (the Rust
  types guarantee it), and every place where the Rust code could overflow is either proved
  unreachable in range or modelled (`panic`).
-/
namespace Asn1Verif.Per
open Asn1Verif Outcome

abbrev Bits := List Bool

/-- `i64::MAX as u64` -/
def I64MAXu : Nat := 2 ^ 63 - 1

/-- `w` bits of `v`, most significant first (what `write_bits_with_offset(&v.to_be_bytes(), 64 - w)`
    appends for `w ≤ 64`) -/
def natBits : Nat → Nat → Bits
  | 0, _ => []
  | w + 1, v => v.testBit w :: natBits w v

/-- big-endian value of a bit list -/
def bitsToNat (bs : Bits) : Nat := bs.foldl (fun acc b => 2 * acc + b.toNat) 0

/-- the bits of a byte slice -/
def bytesBits : List (BitVec 8) → Bits
  | [] => []
  | b :: r => natBits 8 b.toNat ++ bytesBits r

/-- bits to whole bytes (`len` must be a multiple of 8 for an exact inverse) -/
def bitsBytes (bs : Bits) : List (BitVec 8) :=
  if h : bs.isEmpty then []      -- O(1); `bs.length = 0` made the compiled driver quadratic
  else BitVec.ofNat 8 (bitsToNat (bs.take 8)) :: bitsBytes (bs.drop 8)
termination_by bs.length
decreasing_by
  have : bs.length ≠ 0 := fun e => h (by simp [List.length_eq_zero_iff.1 e])
  simp only [List.length_drop]; omega

/-! ### reading -/

abbrev Rd (α : Type) := Bits → Outcome (α × Bits)

/-- `read_bit` -/
def rdBit : Rd Bool
  | [] => err .endOfStream
  | b :: r => ok (b, r)

/-- `w` bits as a number (`read_bits_with_offset(&mut [0u8; 8], 64 - w)` + `from_be_bytes`) -/
def rdNat (w : Nat) : Rd Nat := fun bs =>
  if bs.length < w then err .endOfStream else ok (bitsToNat (bs.take w), bs.drop w)

/-- `n` raw bits -/
def rdBits (n : Nat) : Rd Bits := fun bs =>
  if bs.length < n then err .endOfStream else ok (bs.take n, bs.drop n)

/-! ### 11.3 non-negative-binary-integer, constrained case (`lb` or `ub` is `Some`) -/

def wNNBIc (lb ub : Option Nat) (value : Nat) : Outcome Bits :=
  let lower := lb.getD 0
  let upper := ub.getD I64MAXu
  if value < lower ∨ value > upper then err .valueNotInRange
  else ok (natBits (bitWidth (upper - lower)) (value - lower))

def rNNBIc (lb ub : Option Nat) : Rd Nat := fun bs => do
  let lower := lb.getD 0
  let upper := ub.getD I64MAXu
  let range := upper - lower                       -- saturating_sub
  let (v, rest) ← rdNat (bitWidth range) bs
  if lower + v > U64_MAX then err .valueNotInRange  -- checked_add → ValueExceedsMaxInt
  else ok (lower + v, rest)

/-! ### 11.9 length determinant -/

/-- `write_length_determinant`: appended bits and `Some(fragment)` when only a fragment is announced -/
def wLen (lb ub : Option Nat) (value : Nat) : Outcome (Bits × Option Nat) :=
  let lbu := lb.getD 0
  let ubu := ub.getD I64MAXu
  if (lb.isSome || ub.isSome) && decide (ubu ≥ Consts.LENGTH_64K) then
    -- "11.9.4.2" as implemented: a constrained/semi-constrained field, never fragmented
    if lb = ub then ok ([], none)
    else if value < lbu then err .valueNotInRange
    else do
      let b ← wNNBIc lb ub value
      ok (b, none)
  else if ub.isSome && decide (ubu ≤ Consts.LENGTH_64K) then do
    let b ← wNNBIc lb ub value
    ok (b, none)
  else if value ≤ Consts.LENGTH_127 then do
    let b ← wNNBIc none (some Consts.LENGTH_127) value
    ok (false :: b, none)
  else if value < Consts.LENGTH_16K then do
    let b ← wNNBIc none (some (Consts.LENGTH_16K - 1)) value
    ok (true :: false :: b, none)
  else
    let multiple := min (value / Consts.LENGTH_16K) Consts.MAX_FRAGMENTS
    ok (true :: true :: natBits 6 multiple, some (multiple * Consts.LENGTH_16K))

def rLen (lb ub : Option Nat) : Rd Nat := fun bs =>
  let lbu := lb.getD 0
  let ubu := ub.getD I64MAXu
  if (lb.isSome || ub.isSome) && decide (ubu ≥ Consts.LENGTH_64K) then
    if lb = ub then ok (lbu, bs)
    else rNNBIc lb ub bs
  else if ub.isSome && decide (ubu ≤ Consts.LENGTH_64K) then rNNBIc lb ub bs
  else do
    let (b0, r0) ← rdBit bs
    if !b0 then rNNBIc none (some Consts.LENGTH_127) r0
    else do
      let (b1, r1) ← rdBit r0
      if !b1 then rNNBIc none (some (Consts.LENGTH_16K - 1)) r1
      else do
        let (m, r2) ← rdNat 6 r1
        ok (Consts.LENGTH_16K * min m Consts.MAX_FRAGMENTS, r2)

/-! ### 11.3 non-negative-binary-integer, general -/

def wNNBI (lb ub : Option Nat) (value : Nat) : Outcome Bits :=
  match lb, ub with
  | none, none => do
    let offset := min (lz64 value / 8) 7
    let len := 8 - offset
    let (lbits, _) ← wLen none none len
    ok (lbits ++ natBits (8 * len) value)
  | lb, ub => wNNBIc lb ub value

def rNNBI (lb ub : Option Nat) : Rd Nat := fun bs =>
  match lb, ub with
  | none, none => do
    let (length, rest) ← rLen none none bs
    if length ≤ 8 then rdNat (8 * length) rest
    else err .lengthExceedsLimit
  | lb, ub => rNNBIc lb ub bs

/-! ### 11.4 2's-complement-binary-integer -/

def w2s (bitLen : Nat) (value : Int) : Outcome Bits :=
  if bitLen = 0 ∨ bitLen > 64 then err .bitLenNotInRange
  else ok (natBits bitLen (i64AsU64 value))

def r2s (bitLen : Nat) : Rd Int := fun bs =>
  if bitLen = 0 ∨ bitLen > 64 then err .bitLenNotInRange
  else do
    let (v, rest) ← rdNat bitLen bs
    -- sign extension by hand
    if v.testBit (bitLen - 1) then ok ((v : Int) - 2 ^ bitLen, rest) else ok ((v : Int), rest)

/-! ### 11.5 constrained whole number -/

def wConstrained (lb ub value : Int) : Outcome Bits :=
  if value < lb ∨ value > ub then err .valueNotInRange
  else if ub > lb then
    wNNBI none (some (ub - lb).toNat) (value - lb).toNat
  else ok []

def rConstrained (lb ub : Int) : Rd Int := fun bs =>
  if ub > lb then do
    let range := (ub - lb).toNat
    let (offset, rest) ← rNNBI none (some range) bs
    if offset > range then err .valueNotInRange
    else ok (lb + offset, rest)
  else ok (lb, bs)

/-! ### 11.6 normally small non-negative whole number (= `normally_small_length`) -/

def wSmall (value : Nat) : Outcome Bits :=
  if value ≥ Consts.SMALL_NON_NEGATIVE_NUMBER then do
    let b ← wNNBI none none value
    ok (true :: b)
  else do
    let b ← wNNBI none (some (Consts.SMALL_NON_NEGATIVE_NUMBER - 1)) value
    ok (false :: b)

def rSmall : Rd Nat := fun bs => do
  let (big, rest) ← rdBit bs
  if big then rNNBI none none rest
  else rNNBI none (some (Consts.SMALL_NON_NEGATIVE_NUMBER - 1)) rest

/-! ### 11.7 semi-constrained whole number -/

def wSemi (lb value : Int) : Outcome Bits :=
  if value < lb then err .valueNotInRange
  else wNNBI none none (value - lb).toNat

def rSemi (lb : Int) : Rd Int := fun bs => do
  let (n, rest) ← rNNBI none none bs
  let r := (n : Int) + lb
  if inI64 r then ok (r, rest) else err .valueNotInRange

/-! ### 11.8 unconstrained whole number -/

/-- `i64::leading_ones` -/
def lo64 (v : Int) : Nat := lz64 (U64_MAX - i64AsU64 v)

def wUnconstrained (value : Int) : Outcome Bits := do
  let prefixLen := (if value < 0 then lo64 value - 1 else lz64 (i64AsU64 value) - 1) / 8
  let octetLen := 8 - prefixLen
  let (lbits, _) ← wLen none none octetLen
  let b ← w2s (octetLen * 8) value
  ok (lbits ++ b)

def rUnconstrained : Rd Int := fun bs => do
  let (octetLen, rest) ← rLen none none bs
  r2s (octetLen * 8) rest

/-! ### enumeration / choice index -/

def wIndex (stdVariants : Nat) (extensible : Bool) (index : Nat) : Outcome Bits :=
  let outOfRange := decide (index ≥ stdVariants)
  let pre : Bits := if extensible then [outOfRange] else []
  if outOfRange then
    if extensible then do
      let b ← wSmall (index - stdVariants)
      ok (pre ++ b)
    else err .invalidChoiceIndex
  else do
    let b ← wNNBI none (some (stdVariants - 1)) index
    ok (pre ++ b)

def rIndex (stdVariants : Nat) (extensible : Bool) : Rd Nat := fun bs => do
  let (isExt, rest) ← (if extensible then rdBit bs else ok (false, bs))
  if isExt then do
    let (n, rest') ← rSmall rest
    if n + stdVariants > U64_MAX then err .valueNotInRange else ok (n + stdVariants, rest')
  else if stdVariants = 0 then err .invalidChoiceIndex
  else rNNBI none (some (stdVariants - 1)) rest

/-! ### 17 octet string (with 16K fragmentation) -/

/-- the fragment loop of `write_octetstring`, on the bytes not yet written -/
def wOctFrag (rest : List (BitVec 8)) : Outcome Bits :=
  match wLen none none rest.length with
  | .ok (lbits, f) =>
    let fs := f.getD rest.length
    if fs ≤ rest.length then      -- `&src[written..written + fs]`
      if _hfs : fs < Consts.MIN_FRAGMENT_SIZE then ok (lbits ++ bytesBits (rest.take fs))
      else
        match wOctFrag (rest.drop fs) with
        | .ok more => ok (lbits ++ bytesBits (rest.take fs) ++ more)
        | .err k => err k
        | .panic => panic
    else panic
  | .err k => err k
  | .panic => panic
termination_by rest.length
decreasing_by
  simp only [List.length_drop]
  have : 0 < Consts.MIN_FRAGMENT_SIZE := by decide
  omega

def wOctets (lb ub : Option Nat) (extensible : Bool) (src : List (BitVec 8)) : Outcome Bits :=
  let lower := lb.getD 0
  let upper := ub.getD I64MAXu
  let length := src.length
  let outOfRange := decide (length < lower ∨ length > upper)
  let pre : Bits := if extensible then [outOfRange] else []
  let body (hdr : Bits) (fragment : Option Nat) : Outcome Bits :=
    let first := fragment.getD length
    if first ≤ length then
      match fragment with
      | none => ok (pre ++ hdr ++ bytesBits (src.take first))
      | some _ => do
        let more ← wOctFrag (src.drop first)
        ok (pre ++ hdr ++ bytesBits (src.take first) ++ more)
    else panic
  if outOfRange then
    if extensible then do
      let (hdr, f) ← wLen none none length
      body hdr f
    else err .sizeNotInRange
  else if upper = 0 then ok pre
  else if lb.isSome && lb = ub && decide (upper < Consts.LENGTH_64K) then body [] none
  else do
    let (hdr, f) ← wLen lb ub length
    body hdr f

/-- the fragment loop of `read_octetstring`; every iteration consumes a length determinant -/
def rOctFrag (acc : List (BitVec 8)) (bs : Bits) : Outcome (List (BitVec 8) × Bits) :=
  match rLen none none bs with
  | .ok (extLen, r) =>
    match rdBits (8 * extLen) r with
    | .ok (data, r') =>
      if extLen < Consts.LENGTH_16K then ok (acc ++ bitsBytes data, r')
      else if _hlt : r'.length < bs.length then rOctFrag (acc ++ bitsBytes data) r'
      else panic   -- unreachable: a length determinant consumes at least 8 bits
    | .err k => err k
    | .panic => panic
  | .err k => err k
  | .panic => panic
termination_by bs.length

def rOctets (lb ub : Option Nat) (extensible : Bool) : Rd (List (BitVec 8)) := fun bs => do
  let upper := ub.getD I64MAXu
  let (isExt, r0) ← (if extensible then rdBit bs else ok (false, bs))
  let body (byteLen : Nat) (frag : Bool) (r : Bits) : Outcome (List (BitVec 8) × Bits) := do
    let (data, r') ← rdBits (8 * byteLen) r
    if frag && decide (byteLen ≥ Consts.LENGTH_16K) then rOctFrag (bitsBytes data) r'
    else ok (bitsBytes data, r')
  if isExt then do
    let (n, r1) ← rLen none none r0
    body n true r1
  else if upper = 0 then ok ([], r0)
  else if lb.isSome && lb = ub && decide (upper < Consts.LENGTH_64K) then body upper false r0
  else do
    let (n, r1) ← rLen lb ub r0
    -- only the unconstrained length determinant announces fragments
    body n (lb.isNone && ub.isNone) r1

/-! ### 16 bit string (same fragmentation, counted in bits) -/

def wBitFrag (rest : Bits) : Outcome Bits :=
  match wLen none none rest.length with
  | .ok (lbits, f) =>
    let fs := f.getD rest.length
    if fs ≤ rest.length then
      if _hfs : fs < Consts.MIN_FRAGMENT_SIZE then ok (lbits ++ rest.take fs)
      else
        match wBitFrag (rest.drop fs) with
        | .ok more => ok (lbits ++ rest.take fs ++ more)
        | .err k => err k
        | .panic => panic
    else err .endOfStream   -- `write_bits_with_offset_len` beyond the source
  | .err k => err k
  | .panic => panic
termination_by rest.length
decreasing_by
  simp only [List.length_drop]
  have : 0 < Consts.MIN_FRAGMENT_SIZE := by decide
  omega

/-- `write_bitstring(lb, ub, ext, src, offset, len)` with `bits` = the `len` bits of `src` from
    `offset` (the harness makes sure the source is long enough; a short source is an error) -/
def wBitString (lb ub : Option Nat) (extensible : Bool) (bits : Bits) : Outcome Bits :=
  let lower := lb.getD 0
  let upper := ub.getD I64MAXu
  let length := bits.length
  let outOfRange := decide (length < lower ∨ length > upper)
  let pre : Bits := if extensible then [outOfRange] else []
  let body (hdr : Bits) (fragment : Option Nat) : Outcome Bits :=
    let first := fragment.getD length
    if first ≤ length then
      match fragment with
      | none => ok (pre ++ hdr ++ bits.take first)
      | some _ => do
        let more ← wBitFrag (bits.drop first)
        ok (pre ++ hdr ++ bits.take first ++ more)
    else err .endOfStream
  if outOfRange then
    if extensible then do
      let (hdr, f) ← wLen none none length
      body hdr f
    else err .sizeNotInRange
  else if lb.isSome && lb = ub && decide (upper < Consts.LENGTH_64K) then body [] none
  else do
    let (hdr, f) ← wLen lb ub length
    body hdr f

def rBitFrag (acc : Bits) (bs : Bits) : Outcome (Bits × Bits) :=
  match rLen none none bs with
  | .ok (extLen, r) =>
    match rdBits extLen r with
    | .ok (data, r') =>
      if extLen < Consts.LENGTH_16K then ok (acc ++ data, r')
      else if _hlt : r'.length < bs.length then rBitFrag (acc ++ data) r'
      else panic
    | .err k => err k
    | .panic => panic
  | .err k => err k
  | .panic => panic
termination_by bs.length

/-- `read_bitstring`: the bits (the real code returns them packed into bytes plus the bit length) -/
def rBitString (lb ub : Option Nat) (extensible : Bool) : Rd Bits := fun bs => do
  let upper := ub.getD I64MAXu
  let (isExt, r0) ← (if extensible then rdBit bs else ok (false, bs))
  let body (bitLen : Nat) (frag : Bool) (r : Bits) : Outcome (Bits × Bits) := do
    let (data, r') ← rdBits bitLen r
    if frag && decide (bitLen ≥ Consts.LENGTH_16K) then rBitFrag data r'
    else ok (data, r')
  if isExt then do
    let (n, r1) ← rLen none none r0
    body n true r1
  else if lb.isSome && lb = ub && decide (upper < Consts.LENGTH_64K) then body upper false r0
  else do
    let (n, r1) ← rLen lb ub r0
    -- only the unconstrained length determinant announces fragments
    body n (lb.isNone && ub.isNone) r1

end Asn1Verif.Per
