import Asn1Verif.Per.PrimLemmasNum
/-
  Whole numbers (11.4–11.8) and the enumeration / choice index against `X691/Prim.lean`.
-/
namespace Asn1Verif.Per
open Asn1Verif Outcome

/-! ### `nnbi(None, None)`: minimum octets with a length (the body of 11.7) -/

theorem nnOctets_le_8 {v : Nat} (hv : v ≤ U64_MAX) : 1 ≤ X691.nnOctets v ∧ X691.nnOctets v ≤ 8 := by
  have := bitWidth_le_64 hv
  unfold X691.nnOctets; omega

/-- the octet count computed from `leading_zeros` is the minimum octet count of the standard -/
theorem nnbi_len_eq {v : Nat} (hv : v ≤ U64_MAX) : 8 - min (lz64 v / 8) 7 = X691.nnOctets v := by
  have := bitWidth_le_64 hv
  unfold X691.nnOctets lz64; omega

/-- `v` fits into its minimum number of octets -/
theorem lt_two_pow_nnOctets (v : Nat) : v < 2 ^ (8 * X691.nnOctets v) := by
  apply bitWidth_le_iff.1
  unfold X691.nnOctets; omega

/-- … and into no smaller number of octets (≥ 1) -/
theorem nnOctets_min (v k : Nat) (hk : 1 ≤ k) (h : v < 2 ^ (8 * k)) : X691.nnOctets v ≤ k := by
  have := bitWidth_le_of_lt h
  unfold X691.nnOctets; omega

theorem lenU_small {k : Nat} (hk : k ≤ 127) : X691.lenU k = (false :: natBits 7 k, none) := by
  unfold X691.lenU; simp [hk]

theorem wNNBI_unb (v : Nat) (hv : v ≤ U64_MAX) : wNNBI none none v = ok (X691.semiNat v) := by
  simp only [wNNBI]
  rw [nnbi_len_eq hv, wLen_unc]
  simp only [Outcome.bind_ok, X691.semiNat]

theorem rNNBI_unb (v : Nat) (post : Bits) (hv : v ≤ U64_MAX) :
    rNNBI none none (X691.semiNat v ++ post) = ok (v, post) := by
  have hk := nnOctets_le_8 hv
  simp only [rNNBI, X691.semiNat, List.append_assoc]
  rw [rLen_unc, lenU_small (by omega)]
  simp only [Outcome.bind_ok, Option.getD_none]
  rw [if_pos hk.2, rdNat_natBits, Nat.mod_eq_of_lt (lt_two_pow_nnOctets v)]

theorem wNNBI_bounded (lb ub : Option Nat) (v : Nat) (h : lb.isSome ∨ ub.isSome) :
    wNNBI lb ub v = wNNBIc lb ub v := by
  cases lb <;> cases ub <;> simp_all [wNNBI]

theorem rNNBI_bounded (lb ub : Option Nat) (bs : Bits) (h : lb.isSome ∨ ub.isSome) :
    rNNBI lb ub bs = rNNBIc lb ub bs := by
  cases lb <;> cases ub <;> simp_all [rNNBI]

theorem good_rNNBI (lb ub : Option Nat) (bs : Bits) : Good bs (rNNBI lb ub bs) := by
  by_cases h : lb.isSome ∨ ub.isSome
  · rw [rNNBI_bounded lb ub bs h]; exact good_rNNBIc lb ub bs
  · have hl : lb = none := by cases lb <;> simp_all
    have hu : ub = none := by cases ub <;> simp_all
    subst hl; subst hu
    simp only [rNNBI]
    refine Good.bind (good_rLen none none bs) (fun n r _ _ => ?_)
    exact Good.ite (fun _ => good_rdNat _ r) (fun _ => good_err _ _)

/-! ### 11.4 2's-complement-binary-integer -/

theorem two_pow_int_pos (w : Nat) : (0 : Int) < (2 : Int) ^ w := Int.pow_pos (by decide)

theorem two_pow_cast (n : Nat) : (2 : Int) ^ n = ((2 ^ n : Nat) : Int) := by
  rw [Int.natCast_pow]; rfl

/-- the low `w ≤ 64` bits of `value as u64` are `value mod 2^w` -/
theorem i64AsU64_mod (w : Nat) (hw : w ≤ 64) (v : Int) :
    i64AsU64 v % 2 ^ w = (v % (2 : Int) ^ w).toNat := by
  unfold i64AsU64
  have h64 : (0 : Int) ≤ v % 2 ^ 64 := Int.emod_nonneg _ (Int.ne_of_gt (two_pow_int_pos 64))
  have hw0 : (0 : Int) ≤ v % 2 ^ w := Int.emod_nonneg _ (Int.ne_of_gt (two_pow_int_pos w))
  apply Int.natCast_inj.1
  rw [Int.natCast_emod, Int.toNat_of_nonneg h64, Int.toNat_of_nonneg hw0, Int.natCast_pow]
  apply Int.emod_emod_of_dvd
  have : (2 : Nat) ^ w ∣ 2 ^ 64 := Nat.pow_dvd_pow 2 hw
  have := Int.natCast_dvd_natCast.2 this
  simpa [Int.natCast_pow] using this

theorem natBits_i64AsU64 (w : Nat) (hw : w ≤ 64) (v : Int) :
    natBits w (i64AsU64 v) = X691.twos w v := by
  unfold X691.twos
  rw [← i64AsU64_mod w hw v, natBits_mod _ (Nat.le_refl w)]

theorem w2s_ok (w : Nat) (v : Int) (h1 : 1 ≤ w) (h2 : w ≤ 64) : w2s w v = ok (X691.twos w v) := by
  unfold w2s
  rw [if_neg (by omega), natBits_i64AsU64 w h2 v]

theorem w2s_err (w : Nat) (v : Int) (h : w = 0 ∨ 64 < w) : w2s w v = err .bitLenNotInRange := by
  unfold w2s
  rw [if_pos (by omega)]

/-- value of `v mod 2^w` for `v` in the 2's-complement range of `w` bits, with `P = 2^(w−1)` -/
theorem twos_val (P : Nat) (hP : 0 < P) (v : Int) (h1 : -(P : Int) ≤ v) (h2 : v < (P : Int)) :
    (v % ((2 * P : Nat) : Int)).toNat = if 0 ≤ v then v.toNat else (v + 2 * P).toNat := by
  have h2P : ((2 * P : Nat) : Int) = 2 * (P : Int) := by simp
  rw [h2P]
  split
  · rw [Int.emod_eq_of_lt (by omega) (by omega)]
  · rw [← Int.add_emod_right, Int.emod_eq_of_lt (by omega) (by omega)]

/-- the sign bit of a `w`-bit field -/
theorem testBit_top (w n : Nat) (hw : 1 ≤ w) (hn : n < 2 ^ w) :
    n.testBit (w - 1) = decide (2 ^ (w - 1) ≤ n) := by
  by_cases h : 2 ^ (w - 1) ≤ n
  · simp only [h, decide_true]
    apply Nat.testBit_of_two_pow_le_and_two_pow_add_one_gt h
    rwa [Nat.sub_add_cancel hw]
  · simp only [h, decide_false]
    exact Nat.testBit_lt_two_pow (by omega)

theorem r2s_rt (w : Nat) (v : Int) (post : Bits) (hw1 : 1 ≤ w) (hw2 : w ≤ 64)
    (h1 : -(2 : Int) ^ (w - 1) ≤ v) (h2 : v < (2 : Int) ^ (w - 1)) :
    r2s w (X691.twos w v ++ post) = ok (v, post) := by
  simp only [r2s]
  rw [if_neg (by omega)]
  unfold X691.twos
  rw [rdNat_natBits]
  simp only [Outcome.bind_ok]
  -- P = 2^(w-1), 2^w = 2 * P
  have hP : (0 : Nat) < 2 ^ (w - 1) := Nat.two_pow_pos _
  have e2 : (2 : Nat) ^ w = 2 * 2 ^ (w - 1) := by
    have : w = (w - 1) + 1 := by omega
    conv => lhs; rw [this, Nat.pow_succ]
    omega
  have e2i : (2 : Int) ^ w = ((2 * 2 ^ (w - 1) : Nat) : Int) := by
    rw [← e2, Int.natCast_pow]; rfl
  have e2i' : (2 : Int) ^ w = 2 * ((2 ^ (w - 1) : Nat) : Int) := by
    rw [e2i]; simp
  have h1' : -((2 ^ (w - 1) : Nat) : Int) ≤ v := by rw [Int.natCast_pow]; exact h1
  have h2' : v < ((2 ^ (w - 1) : Nat) : Int) := by rw [Int.natCast_pow]; exact h2
  have hval := twos_val (2 ^ (w - 1)) hP v h1' h2'
  rw [← e2i] at hval
  have hlt : (v % (2 : Int) ^ w).toNat < 2 ^ w := by
    rw [hval, e2]; split <;> omega
  rw [Nat.mod_eq_of_lt hlt, testBit_top w _ hw1 hlt, hval]
  by_cases hv : 0 ≤ v
  · rw [if_pos hv]
    have : ¬ 2 ^ (w - 1) ≤ v.toNat := by omega
    simp only [this, decide_false, Bool.false_eq_true, if_false]
    rw [Int.toNat_of_nonneg hv]
  · rw [if_neg hv]
    have : 2 ^ (w - 1) ≤ (v + 2 * ((2 ^ (w - 1) : Nat) : Int)).toNat := by omega
    simp only [this, decide_true, if_true]
    rw [Int.toNat_of_nonneg (by omega), e2i']
    have : v + 2 * ((2 ^ (w - 1) : Nat) : Int) - 2 * ((2 ^ (w - 1) : Nat) : Int) = v := by omega
    rw [this]

theorem good_r2s (w : Nat) (bs : Bits) : Good bs (r2s w bs) := by
  simp only [r2s]
  refine Good.ite (fun _ => good_err _ _) (fun _ => ?_)
  refine Good.bind (good_rdNat w bs) (fun v r _ _ => ?_)
  exact Good.ite (fun _ => good_ok _ (List.suffix_refl r)) (fun _ => good_ok _ (List.suffix_refl r))

/-! ### 11.5 constrained whole number -/

theorem wConstrained_ok (lb ub v : Int) (h1 : lb ≤ v) (h2 : v ≤ ub) :
    wConstrained lb ub v = ok (X691.constrained lb ub v) := by
  unfold wConstrained X691.constrained X691.offsetField
  rw [if_neg (by omega)]
  by_cases h : ub > lb
  · rw [if_pos h, wNNBI_bounded _ _ _ (Or.inr rfl), wNNBIc_field _ _ (by omega)]
    rw [if_neg (by omega)]
  · rw [if_neg h, if_pos (by omega)]

theorem wConstrained_err (lb ub v : Int) (h : v < lb ∨ ub < v) :
    wConstrained lb ub v = err .valueNotInRange := by
  unfold wConstrained
  rw [if_pos (by omega)]

theorem rConstrained_rt (lb ub v : Int) (post : Bits) (h1 : lb ≤ v) (h2 : v ≤ ub)
    (hl : I64_MIN ≤ lb) (hu : ub ≤ I64_MAX) :
    rConstrained lb ub (X691.constrained lb ub v ++ post) = ok (v, post) := by
  simp only [rConstrained, X691.constrained, X691.offsetField]
  by_cases h : ub > lb
  · rw [if_pos h, if_neg (by omega), rNNBI_bounded _ _ _ (Or.inr rfl),
      rNNBIc_field _ _ _ (by omega) (by rw [U64_MAX_eq]; rw [I64_MIN_eq] at hl; rw [I64_MAX_eq] at hu; omega)]
    simp only [Outcome.bind_ok]
    rw [if_neg (by omega)]
    have : lb + ((v - lb).toNat : Int) = v := by omega
    rw [this]
  · rw [if_neg h, if_pos (by omega)]
    have : lb = v := by omega
    simp [this]

theorem good_rConstrained (lb ub : Int) (bs : Bits) : Good bs (rConstrained lb ub bs) := by
  simp only [rConstrained]
  refine Good.ite (fun _ => ?_) (fun _ => good_ok _ (List.suffix_refl bs))
  refine Good.bind (good_rNNBI _ _ bs) (fun o r _ _ => ?_)
  exact Good.ite (fun _ => good_err _ _) (fun _ => good_ok _ (List.suffix_refl r))

/-! ### 11.7 semi-constrained whole number -/

theorem semi_offset_le (lb v : Int) (hl : I64_MIN ≤ lb) (hv : v ≤ I64_MAX) :
    (v - lb).toNat ≤ U64_MAX := by
  rw [U64_MAX_eq]; rw [I64_MIN_eq] at hl; rw [I64_MAX_eq] at hv; omega

theorem wSemi_ok (lb v : Int) (h : lb ≤ v) (hl : I64_MIN ≤ lb) (hv : v ≤ I64_MAX) :
    wSemi lb v = ok (X691.semi lb v) := by
  unfold wSemi X691.semi
  rw [if_neg (by omega), wNNBI_unb _ (semi_offset_le lb v hl hv)]

theorem wSemi_err (lb v : Int) (h : v < lb) : wSemi lb v = err .valueNotInRange := by
  unfold wSemi
  rw [if_pos h]

theorem rSemi_rt (lb v : Int) (post : Bits) (h : lb ≤ v) (hl : I64_MIN ≤ lb) (hv : v ≤ I64_MAX) :
    rSemi lb (X691.semi lb v ++ post) = ok (v, post) := by
  simp only [rSemi, X691.semi]
  rw [rNNBI_unb _ post (semi_offset_le lb v hl hv)]
  simp only [Outcome.bind_ok]
  have e : ((v - lb).toNat : Int) + lb = v := by omega
  rw [e]
  have : inI64 v = true := by
    simp only [inI64, Bool.and_eq_true, decide_eq_true_eq]; omega
  rw [if_pos this]

theorem good_rSemi (lb : Int) (bs : Bits) : Good bs (rSemi lb bs) := by
  simp only [rSemi]
  refine Good.bind (good_rNNBI _ _ bs) (fun n r _ _ => ?_)
  exact Good.ite (fun _ => good_ok _ (List.suffix_refl r)) (fun _ => good_err _ _)

/-! ### 11.8 unconstrained whole number -/

theorem i64AsU64_nonneg {v : Int} (h0 : 0 ≤ v) (hv : v ≤ I64_MAX) : i64AsU64 v = v.toNat := by
  unfold i64AsU64; rw [I64_MAX_eq] at hv
  have : v % 2 ^ 64 = v := by omega
  rw [this]

theorem i64AsU64_neg {v : Int} (h0 : v < 0) (hv : I64_MIN ≤ v) :
    U64_MAX - i64AsU64 v = (-v - 1).toNat := by
  unfold i64AsU64; rw [I64_MIN_eq] at hv; rw [U64_MAX_eq]
  have : v % 2 ^ 64 = v + 18446744073709551616 := by omega
  rw [this]; omega

theorem twosOctets_le_8 {v : Int} (hl : I64_MIN ≤ v) (hu : v ≤ I64_MAX) :
    1 ≤ X691.twosOctets v ∧ X691.twosOctets v ≤ 8 := by
  unfold X691.twosOctets
  rw [I64_MIN_eq] at hl; rw [I64_MAX_eq] at hu
  split
  · have := bitWidth_le_63 (n := v.toNat) (by rw [I64MAXu_eq]; omega); omega
  · have := bitWidth_le_63 (n := (-v - 1).toNat) (by rw [I64MAXu_eq]; omega); omega

/-- the octet count computed from `leading_zeros`/`leading_ones` is the minimum of the standard -/
theorem unc_len_eq {v : Int} (hl : I64_MIN ≤ v) (hu : v ≤ I64_MAX) :
    8 - (if v < 0 then lo64 v - 1 else lz64 (i64AsU64 v) - 1) / 8 = X691.twosOctets v := by
  unfold X691.twosOctets
  by_cases h0 : v < 0
  · rw [if_pos h0, if_neg (by omega)]
    unfold lo64 lz64
    rw [i64AsU64_neg h0 hl]
    have := bitWidth_le_63 (n := (-v - 1).toNat)
      (by rw [I64MAXu_eq]; rw [I64_MIN_eq] at hl; omega)
    omega
  · rw [if_neg h0, if_pos (by omega)]
    unfold lz64
    rw [i64AsU64_nonneg (by omega) hu]
    have := bitWidth_le_63 (n := v.toNat) (by rw [I64MAXu_eq]; rw [I64_MAX_eq] at hu; omega)
    omega

/-- `v` lies in the 2's-complement range of its minimum number of octets … -/
theorem twosOctets_range (v : Int) :
    -(2 : Int) ^ (8 * X691.twosOctets v - 1) ≤ v ∧ v < (2 : Int) ^ (8 * X691.twosOctets v - 1) := by
  unfold X691.twosOctets
  split
  · rename_i h0
    have hlt := lt_two_pow_bitWidth v.toNat
    have hle : 2 ^ bitWidth v.toNat ≤ 2 ^ (8 * (bitWidth v.toNat / 8 + 1) - 1) :=
      Nat.pow_le_pow_right (by decide) (by omega)
    rw [two_pow_cast]
    omega
  · rename_i h0
    have hlt := lt_two_pow_bitWidth (-v - 1).toNat
    have hle : 2 ^ bitWidth (-v - 1).toNat ≤ 2 ^ (8 * (bitWidth (-v - 1).toNat / 8 + 1) - 1) :=
      Nat.pow_le_pow_right (by decide) (by omega)
    rw [two_pow_cast]
    omega

/-- … and of no smaller number of octets -/
theorem twosOctets_min (v : Int) (k : Nat) (hk : 1 ≤ k)
    (h1 : -(2 : Int) ^ (8 * k - 1) ≤ v) (h2 : v < (2 : Int) ^ (8 * k - 1)) :
    X691.twosOctets v ≤ k := by
  unfold X691.twosOctets
  rw [two_pow_cast] at h1 h2
  split
  · have : bitWidth v.toNat ≤ 8 * k - 1 := bitWidth_le_of_lt (by omega)
    omega
  · have : bitWidth (-v - 1).toNat ≤ 8 * k - 1 := bitWidth_le_of_lt (by omega)
    omega

theorem wUnconstrained_ok (v : Int) (hl : I64_MIN ≤ v) (hu : v ≤ I64_MAX) :
    wUnconstrained v = ok (X691.unconstrained v) := by
  have hk := twosOctets_le_8 hl hu
  simp only [wUnconstrained]
  rw [unc_len_eq hl hu, wLen_unc]
  simp only [Outcome.bind_ok]
  rw [w2s_ok _ _ (by omega) (by omega)]
  simp only [Outcome.bind_ok, X691.unconstrained, Nat.mul_comm]

theorem rUnconstrained_rt (v : Int) (post : Bits) (hl : I64_MIN ≤ v) (hu : v ≤ I64_MAX) :
    rUnconstrained (X691.unconstrained v ++ post) = ok (v, post) := by
  have hk := twosOctets_le_8 hl hu
  have hr := twosOctets_range v
  simp only [rUnconstrained, X691.unconstrained, List.append_assoc]
  rw [rLen_unc, lenU_small (by omega)]
  simp only [Outcome.bind_ok, Option.getD_none]
  rw [Nat.mul_comm]
  exact r2s_rt _ v post (by omega) (by omega) hr.1 hr.2

theorem good_rUnconstrained (bs : Bits) : Good bs (rUnconstrained bs) := by
  simp only [rUnconstrained]
  exact Good.bind (good_rLen _ _ bs) (fun n r _ _ => good_r2s _ r)

/-! ### 11.6 normally small non-negative whole number -/

theorem wSmall_ok (v : Nat) (hv : v ≤ U64_MAX) : wSmall v = ok (X691.small v) := by
  unfold wSmall X691.small
  by_cases h : v ≥ 64
  · have h' : ¬ v ≤ 63 := by omega
    simp only [c_SMALL, h, h', if_true, if_false, wNNBI_unb v hv, Outcome.bind_ok]
  · have h' : v ≤ 63 := by omega
    simp only [c_SMALL, h, h', if_true, if_false]
    rw [wNNBI_bounded _ _ _ (Or.inr rfl), wNNBIc_field _ _ (by omega)]
    simp

theorem rSmall_rt (v : Nat) (post : Bits) (hv : v ≤ U64_MAX) :
    rSmall (X691.small v ++ post) = ok (v, post) := by
  simp only [rSmall, X691.small, c_SMALL]
  by_cases h : v ≤ 63
  · rw [if_pos h]
    simp only [List.cons_append, rdBit_cons, Outcome.bind_ok, Bool.false_eq_true, if_false]
    rw [rNNBI_bounded _ _ _ (Or.inr rfl)]
    have := rNNBIc_field (64 - 1) v post (by omega) (by decide)
    simpa using this
  · rw [if_neg h]
    simp only [List.cons_append, rdBit_cons, Outcome.bind_ok, if_true]
    exact rNNBI_unb v post hv

theorem good_rSmall (bs : Bits) : Good bs (rSmall bs) := by
  simp only [rSmall]
  refine Good.bind (good_rdBit bs) (fun b r _ _ => ?_)
  exact Good.ite (fun _ => good_rNNBI _ _ r) (fun _ => good_rNNBI _ _ r)

/-! ### enumeration / choice index -/

theorem wIndex_root (std : Nat) (ext : Bool) (i : Nat) (h : i < std) :
    wIndex std ext i = ok (X691.index std ext i) := by
  unfold wIndex X691.index X691.constrainedNat X691.offsetField
  have c : ¬ i ≥ std := by omega
  simp only [c, decide_false, Bool.false_eq_true, if_false, h, if_true]
  rw [wNNBI_bounded _ _ _ (Or.inr rfl), wNNBIc_field _ _ (by omega)]
  simp only [Outcome.bind_ok, Nat.sub_zero]
  by_cases hr : std - 1 = 0
  · simp [hr, bitWidth_zero]
  · simp [hr]

theorem wIndex_ext (std : Nat) (i : Nat) (h : std ≤ i) (hi : i ≤ U64_MAX) :
    wIndex std true i = ok (X691.index std true i) := by
  unfold wIndex X691.index
  have c : i ≥ std := h
  have c' : ¬ i < std := by omega
  simp only [c, c', decide_true, if_true, if_false]
  rw [wSmall_ok _ (by omega)]
  simp

theorem wIndex_err (std : Nat) (i : Nat) (h : std ≤ i) :
    wIndex std false i = err .invalidChoiceIndex := by
  unfold wIndex
  have c : i ≥ std := h
  simp [c]

theorem rIndex_rt (std : Nat) (ext : Bool) (i : Nat) (post : Bits) (h : i < std ∨ ext = true)
    (hs : std ≤ U64_MAX) (hi : i ≤ U64_MAX) :
    rIndex std ext (X691.index std ext i ++ post) = ok (i, post) := by
  simp only [rIndex, X691.index]
  by_cases c : i < std
  · rw [if_pos c]
    have hfield : rNNBI none (some (std - 1)) (X691.constrainedNat 0 (std - 1) i ++ post)
        = ok (i, post) := by
      rw [rNNBI_bounded _ _ _ (Or.inr rfl)]
      have := rNNBIc_field (std - 1) i post (by omega) (by omega)
      unfold X691.constrainedNat X691.offsetField
      by_cases hr : std - 1 = 0
      · rw [hr, bitWidth_zero] at this
        simpa [hr] using this
      · simpa [hr] using this
    have hs0 : ¬ std = 0 := by omega
    cases ext
    · simpa [hs0] using hfield
    · simpa [hs0] using hfield
  · rw [if_neg c]
    have he : ext = true := by
      rcases h with h | h
      · exact absurd h c
      · exact h
    subst he
    simp only [if_true, List.cons_append, rdBit_cons, Outcome.bind_ok]
    rw [rSmall_rt _ post (by omega)]
    simp only [Outcome.bind_ok]
    have e : i - std + std = i := by omega
    rw [e, if_neg (by omega)]

theorem good_rIndex (std : Nat) (ext : Bool) (bs : Bits) : Good bs (rIndex std ext bs) := by
  simp only [rIndex]
  have h0 : Good bs (if ext = true then rdBit bs else ok (false, bs)) :=
    Good.ite (fun _ => good_rdBit bs) (fun _ => good_ok _ (List.suffix_refl bs))
  refine Good.bind h0 (fun b r _ _ => ?_)
  refine Good.ite (fun _ => ?_) (fun _ => Good.ite (fun _ => good_err _ _) (fun _ => good_rNNBI _ _ r))
  refine Good.bind (good_rSmall r) (fun n r' _ _ => ?_)
  exact Good.ite (fun _ => good_err _ _) (fun _ => good_ok _ (List.suffix_refl r'))

end Asn1Verif.Per
