import Asn1Verif.Per.Concrete
import Asn1Verif.Per.PrimLemmasBits
import Asn1Verif.Bits.BufferLemmas
/-
  Glue, part 1: numbers ↔ bytes ↔ bits.

  The notations of L1 (`natBits`, `bytesBits`, `bitsToNat`, `bitsBytes` — lists of bits) against the
  notations of L0 (`getBit`, `bitsOf`, `CopySpec` — byte lists) and the number/byte conversions of
  the Rust code (`to_be_bytes`, `from_be_bytes`).
-/
namespace Asn1Verif.Per.Glue
open Asn1Verif Asn1Verif.Bits Asn1Verif.Per Asn1Verif.Per.Concrete Outcome

/-! ### `natBits`, `bitsToNat` -/

theorem getElem_natBits (w v i : Nat) (h : i < (natBits w v).length) :
    (natBits w v)[i] = v.testBit (w - 1 - i) := by
  induction w generalizing i with
  | zero => simp at h
  | succ w ih =>
    cases i with
    | zero => simp [natBits]
    | succ i =>
      simp only [natBits, List.getElem_cons_succ]
      rw [ih]
      congr 1; omega

theorem natBits_drop (k w v : Nat) : (natBits (k + w) v).drop k = natBits w v := by
  induction k with
  | zero => simp
  | succ k ih =>
    have : k + 1 + w = (k + w) + 1 := by omega
    rw [this, natBits, List.drop_succ_cons, ih]

theorem bitsToNat_append (a b : Bits) :
    bitsToNat (a ++ b) = bitsToNat a * 2 ^ b.length + bitsToNat b := by
  have := bitsToNat_foldl b (bitsToNat a)
  simp only [bitsToNat, List.foldl_append] at this ⊢
  exact this

theorem bitsToNat_replicate_false (k : Nat) : bitsToNat (List.replicate k false) = 0 := by
  induction k with
  | zero => rfl
  | succ k ih => rw [List.replicate_succ, bitsToNat_cons, ih]; simp

theorem bitsToNat_replicate_true (k : Nat) : bitsToNat (List.replicate k true) = 2 ^ k - 1 := by
  induction k with
  | zero => rfl
  | succ k ih =>
    rw [List.replicate_succ, bitsToNat_cons, ih, List.length_replicate, Nat.pow_succ]
    have : 0 < 2 ^ k := Nat.two_pow_pos k
    simp only [Bool.toNat_true]; omega

/-- leading zero bits do not change the value -/
theorem bitsToNat_zeros_append (k : Nat) (bs : Bits) :
    bitsToNat (List.replicate k false ++ bs) = bitsToNat bs := by
  rw [bitsToNat_append, bitsToNat_replicate_false]; simp

/-! ### bits of a byte list -/

theorem getBit_cons_lt (x : Byte) (r : List Byte) (i : Nat) (h : i < 8) :
    getBit (x :: r) i = x.getMsbD i := by
  unfold getBit
  have e1 : i / 8 = 0 := by omega
  have e2 : i % 8 = i := by omega
  simp [e1, e2]

theorem getBit_cons_add (x : Byte) (r : List Byte) (i : Nat) :
    getBit (x :: r) (8 + i) = getBit r i := by
  unfold getBit
  have e1 : (8 + i) / 8 = i / 8 + 1 := by omega
  have e2 : (8 + i) % 8 = i % 8 := by omega
  simp [e1, e2]

theorem bitsOf_cons_shift (x : Byte) (r : List Byte) (off len : Nat) :
    bitsOf (x :: r) (8 + off) len = bitsOf r off len := by
  apply bitsOf_congr
  intro i _
  rw [Nat.add_assoc, getBit_cons_add]

theorem byte_getMsbD (x : Byte) (i : Nat) (h : i < 8) : x.getMsbD i = x.toNat.testBit (7 - i) := by
  rw [BitVec.getMsbD_eq_getLsbD, BitVec.testBit_toNat]
  simp [h]

/-- the 8 bits of one byte -/
theorem bitsOf_byte (x : Byte) (r : List Byte) : bitsOf (x :: r) 0 8 = natBits 8 x.toNat := by
  apply List.ext_getElem
  · simp
  · intro i h1 h2
    have hi : i < 8 := by simpa using h1
    rw [getElem_bitsOf, getElem_natBits, Nat.zero_add, getBit_cons_lt _ _ _ hi, byte_getMsbD _ _ hi]

/-- `bytesBits` (L1 notation) is `bitsOf` (L0 notation) -/
theorem bytesBits_eq_bitsOf (bs : List Byte) : bytesBits bs = bitsOf bs 0 (8 * bs.length) := by
  induction bs with
  | nil => rfl
  | cons x r ih =>
    have : 8 * (x :: r).length = 8 + 8 * r.length := by simp; omega
    rw [this, bitsOf_append, bytesBits, bitsOf_byte, Nat.zero_add]
    have := bitsOf_cons_shift x r 0 (8 * r.length)
    rw [Nat.add_zero] at this
    rw [this, ih]

/-- any window of a byte list in terms of `bytesBits` -/
theorem bitsOf_eq_drop_take (bs : List Byte) (off len : Nat) (h : off + len ≤ 8 * bs.length) :
    bitsOf bs off len = ((bytesBits bs).drop off).take len := by
  rw [bytesBits_eq_bitsOf]
  have e : 8 * bs.length = off + (len + (8 * bs.length - off - len)) := by omega
  rw [e, bitsOf_append, bitsOf_append]
  rw [List.drop_left' (by simp), List.take_left' (by simp)]
  simp

/-! ### `from_be_bytes` -/

theorem fromBe_foldl (bs : List Byte) (a : Nat) :
    bs.foldl (fun acc b => acc * 256 + b.toNat) a = a * 2 ^ (8 * bs.length) + fromBeBytes bs := by
  induction bs generalizing a with
  | nil => simp [fromBeBytes]
  | cons x r ih =>
    simp only [List.foldl_cons, fromBeBytes, List.length_cons]
    rw [ih (a * 256 + x.toNat), ih (0 * 256 + x.toNat)]
    simp only [fromBeBytes]
    have e : 2 ^ (8 * (r.length + 1)) = 256 * 2 ^ (8 * r.length) := by
      rw [Nat.mul_add, Nat.pow_add]; simp [Nat.mul_comm]
    rw [e, Nat.add_mul, Nat.add_mul, Nat.mul_assoc]
    omega

@[simp] theorem fromBeBytes_nil : fromBeBytes [] = 0 := rfl

theorem fromBeBytes_cons (x : Byte) (r : List Byte) :
    fromBeBytes (x :: r) = x.toNat * 2 ^ (8 * r.length) + fromBeBytes r := by
  have := fromBe_foldl r (0 * 256 + x.toNat)
  simp only [fromBeBytes, List.foldl_cons] at this ⊢
  rw [this]; simp

/-- `from_be_bytes` is the big-endian value of the bits -/
theorem bitsToNat_bytesBits (bs : List Byte) : bitsToNat (bytesBits bs) = fromBeBytes bs := by
  induction bs with
  | nil => rfl
  | cons x r ih =>
    rw [bytesBits, bitsToNat_append, bitsToNat_natBits, ih, fromBeBytes_cons, bytesBits_length,
      Nat.mod_eq_of_lt x.isLt]

theorem fromBeBytes_lt (bs : List Byte) : fromBeBytes bs < 2 ^ (8 * bs.length) := by
  rw [← bitsToNat_bytesBits]
  have := bitsToNat_lt (bytesBits bs)
  rwa [bytesBits_length] at this

/-- all the bits of a byte list are the binary digits of its big-endian value -/
theorem bytesBits_eq_natBits (bs : List Byte) :
    bytesBits bs = natBits (8 * bs.length) (fromBeBytes bs) := by
  have := natBits_bitsToNat (bytesBits bs)
  rw [bytesBits_length, bitsToNat_bytesBits] at this
  exact this.symm

/-- the low `w` bits of a byte list (a window ending at its end) are the low `w` binary digits of
    its big-endian value -/
theorem bitsOf_low (bs : List Byte) (w : Nat) (h : w ≤ 8 * bs.length) :
    bitsOf bs (8 * bs.length - w) w = natBits w (fromBeBytes bs) := by
  rw [bitsOf_eq_drop_take bs _ _ (by omega), bytesBits_eq_natBits]
  have e : 8 * bs.length = (8 * bs.length - w) + w := by omega
  conv => lhs; arg 2; arg 2; rw [e]
  rw [natBits_drop, List.take_of_length_le (by simp)]

/-! ### `to_be_bytes` -/

@[simp] theorem length_toBeBytes (v : Nat) : (toBeBytes v).length = 8 := rfl

/-- `u64::from_be_bytes(v.to_be_bytes()) = v` (for a `Nat`: the low 64 bits) -/
theorem fromBeBytes_toBeBytes (v : Nat) : fromBeBytes (toBeBytes v) = v % 2 ^ 64 := by
  simp only [toBeBytes, fromBeBytes, List.foldl_cons, List.foldl_nil, BitVec.toNat_ofNat,
    Nat.shiftRight_eq_div_pow]
  omega

theorem fromBeBytes_toBeBytes_of_lt {v : Nat} (h : v < 2 ^ 64) : fromBeBytes (toBeBytes v) = v := by
  rw [fromBeBytes_toBeBytes, Nat.mod_eq_of_lt h]

/-- **key lemma** (writing): what `write_bits_with_offset(&v.to_be_bytes(), 64 - w)` appends — the
    low `w` bits of the 8 big-endian bytes — is `natBits w v`.  (No range hypothesis on `v`: both
    sides only look at the low 64 bits.) -/
theorem bitsOf_toBeBytes (w v : Nat) (hw : w ≤ 64) :
    bitsOf (toBeBytes v) (64 - w) w = natBits w v := by
  have := bitsOf_low (toBeBytes v) w (by simpa using hw)
  rw [length_toBeBytes] at this
  rw [this, fromBeBytes_toBeBytes, natBits_mod v hw]

/-- the whole-byte tail `&bytes[8 - k ..]` of `to_be_bytes` carries the low `8k` bits -/
theorem bytesBits_toBeBytes_drop (k v : Nat) (hk : k ≤ 8) :
    bytesBits ((toBeBytes v).drop (8 - k)) = natBits (8 * k) v := by
  have h1 : bytesBits (toBeBytes v) = bytesBits ((toBeBytes v).take (8 - k)) ++
      bytesBits ((toBeBytes v).drop (8 - k)) := by
    rw [← bytesBits_append, List.take_append_drop]
  have h2 : bytesBits ((toBeBytes v).drop (8 - k)) =
      (bytesBits (toBeBytes v)).drop (8 * (8 - k)) := by
    rw [h1, List.drop_left' (by simp)]
  rw [h2, bytesBits_eq_natBits, length_toBeBytes, fromBeBytes_toBeBytes]
  have e : 8 * 8 = 8 * (8 - k) + 8 * k := by omega
  rw [e, natBits_drop, natBits_mod v (by omega)]

/-- a one-byte source: `write_bits_with_offset(&[m], 8 - w)` -/
theorem bitsOf_singleton (w m : Nat) (hw : w ≤ 8) :
    bitsOf [BitVec.ofNat 8 m] (8 - w) w = natBits w m := by
  have := bitsOf_low [BitVec.ofNat 8 m] w (by simpa using hw)
  simp only [List.length_cons, List.length_nil] at this
  rw [this, fromBeBytes_cons]
  simp only [BitVec.toNat_ofNat, List.length_nil, Nat.mul_zero, Nat.pow_zero, Nat.mul_one,
    fromBeBytes_nil, Nat.add_zero]
  exact natBits_mod m hw

/-! ### reading into a zeroed array -/

theorem getBit_zeroBytes (n j : Nat) : getBit (zeroBytes n) j = false := by
  unfold getBit zeroBytes
  simp only [List.getD_eq_getElem?_getD, List.getElem?_replicate]
  split <;> simp

@[simp] theorem length_zeroBytes (n : Nat) : (zeroBytes n).length = n := by simp [zeroBytes]

/-- the bits of the destination after a copy: untouched bits before, the source window, … -/
theorem bitsOf_copy_window {src : List Byte} {sp : Nat} {dst : List Byte} {dp len : Nat}
    {dst' : List Byte} (h : CopySpec src sp dst dp len dst') :
    bitsOf dst' dp len = bitsOf src sp len := by
  apply bitsOf_congr
  intro i hi
  rw [h.2, if_pos (by omega)]
  congr 1; omega

theorem bitsOf_copy_before {src : List Byte} {sp : Nat} {dst : List Byte} {dp len : Nat}
    {dst' : List Byte} (h : CopySpec src sp dst dp len dst') :
    bitsOf dst' 0 dp = bitsOf dst 0 dp := by
  apply bitsOf_congr
  intro i hi
  rw [h.2, if_neg (by omega)]

theorem bitsOf_zeroBytes (n off len : Nat) : bitsOf (zeroBytes n) off len = List.replicate len false := by
  apply List.ext_getElem
  · simp
  · intro i h1 h2
    rw [getElem_bitsOf, getBit_zeroBytes]; simp

/-- **key lemma** (reading): `read_bits_with_offset(&mut [0u8; n], 8n - w)` followed by
    `from_be_bytes` yields the big-endian value of the `w` bits read -/
theorem fromBeBytes_of_copy {src : List Byte} {sp n w : Nat} {dst' : List Byte} (hw : w ≤ 8 * n)
    (h : CopySpec src sp (zeroBytes n) (8 * n - w) w dst') :
    fromBeBytes dst' = bitsToNat (bitsOf src sp w) := by
  have hl : dst'.length = n := by rw [h.1]; simp
  rw [← bitsToNat_bytesBits, bytesBits_eq_bitsOf, hl]
  have e : 8 * n = (8 * n - w) + w := by omega
  conv => lhs; arg 1; arg 3; rw [e]
  rw [bitsOf_append, Nat.zero_add, bitsOf_copy_window h, bitsOf_copy_before h, bitsOf_zeroBytes,
    bitsToNat_zeros_append]

/-- a destination completely overwritten by a copy *is* the bytes of the bits read -/
theorem eq_bitsBytes_of_copy {src : List Byte} {sp n : Nat} {dst' : List Byte}
    (h : CopySpec src sp (zeroBytes n) 0 (n * 8) dst') :
    dst' = bitsBytes (bitsOf src sp (8 * n)) := by
  have hl : dst'.length = n := by rw [h.1]; simp
  have := bitsOf_copy_window h
  rw [Nat.mul_comm n 8] at this
  rw [← this, ← hl, ← bytesBits_eq_bitsOf, bitsBytes_bytesBits]

/-! ### `i64` -/

/-- `i64::to_be_bytes` is `to_be_bytes` of the value reinterpreted as `u64` -/
theorem toBeBytesI64_eq (v : Int) : toBeBytesI64 v = toBeBytes (i64AsU64 v) := by
  unfold toBeBytesI64 i64AsU64
  rw [BitVec.toNat_ofInt]
  rfl

theorem fromBeBytesI64_eq (bs : List Byte) (h : fromBeBytes bs < 2 ^ 64) :
    fromBeBytesI64 bs = u64AsI64 (fromBeBytes bs) := by
  unfold fromBeBytesI64 u64AsI64
  rw [BitVec.toInt_eq_toNat_cond, BitVec.toNat_ofNat, Nat.mod_eq_of_lt h]
  by_cases c : fromBeBytes bs < 2 ^ 63
  · have : 2 * fromBeBytes bs < 2 ^ 64 := by omega
    simp [c, this]
  · have : ¬ 2 * fromBeBytes bs < 2 ^ 64 := by omega
    simp [c, this]

/-- `i64::from_be_bytes(v.to_be_bytes()) = v` -/
theorem fromBeBytesI64_toBeBytesI64 (v : Int) (h1 : I64_MIN ≤ v) (h2 : v ≤ I64_MAX) :
    fromBeBytesI64 (toBeBytesI64 v) = v := by
  have hlt : fromBeBytes (toBeBytes (i64AsU64 v)) < 2 ^ 64 := by
    have := fromBeBytes_lt (toBeBytes (i64AsU64 v)); simpa using this
  rw [toBeBytesI64_eq, fromBeBytesI64_eq _ hlt, fromBeBytes_toBeBytes]
  rw [I64_MIN_eq] at h1; rw [I64_MAX_eq] at h2
  unfold i64AsU64 u64AsI64
  by_cases c : 0 ≤ v
  · have e : v % 2 ^ 64 = v := by omega
    rw [e]
    have : v.toNat % 2 ^ 64 = v.toNat := by omega
    rw [this]
    have : v.toNat < 2 ^ 63 := by omega
    rw [if_pos this]; omega
  · have e : v % 2 ^ 64 = v + 18446744073709551616 := by omega
    rw [e]
    have : (v + 18446744073709551616).toNat % 2 ^ 64 = (v + 18446744073709551616).toNat := by omega
    rw [this]
    have : ¬ (v + 18446744073709551616).toNat < 2 ^ 63 := by omega
    rw [if_neg this]; omega

/-! ### `leading_zeros` -/

theorem lz64_width {range : Nat} (h : range ≤ U64_MAX) :
    lz64 range ≤ 64 ∧ 64 - lz64 range = bitWidth range := by
  have := bitWidth_le_64 h
  unfold lz64; omega

theorem optGetD_le {ub : Option Nat} (h : ∀ u, ub = some u → u ≤ U64_MAX) :
    ub.getD I64MAXu ≤ U64_MAX := by
  cases ub with
  | none => decide
  | some u => exact h u rfl

theorem lz64_le (n : Nat) : lz64 n ≤ 64 := by unfold lz64; omega

end Asn1Verif.Per.Glue
