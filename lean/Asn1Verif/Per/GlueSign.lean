import Asn1Verif.Per.GlueBits
import Asn1Verif.Per.PrimLemmasWhole
/-
  Glue, part 3a: the sign extension of `read_2s_compliment_binary_integer` as coded — probing the
  most significant bit with `bytes[k] & (0x80 >> i)`, filling whole bytes with `0xFF`, or-ing single
  bits with `0x80 >> i` — against the arithmetic `v - 2^w` of `Per.r2s`.
-/
namespace Asn1Verif.Per.Glue
open Asn1Verif Asn1Verif.Bits Asn1Verif.Per Asn1Verif.Per.Concrete Outcome

/-! ### byte masks -/

theorem x80_getMsbD (j : Nat) : (0x80#8).getMsbD j = decide (j = 0) := by
  by_cases h : j < 8
  · have : j = 0 ∨ j = 1 ∨ j = 2 ∨ j = 3 ∨ j = 4 ∨ j = 5 ∨ j = 6 ∨ j = 7 := by omega
    rcases this with h|h|h|h|h|h|h|h <;> subst h <;> decide
  · rw [BitVec.getMsbD_of_ge _ _ (by omega)]; simp; omega

/-- `0x80 >> k` has exactly bit `k` (counted from the most significant) set -/
theorem x80_shift_getMsbD (k i : Nat) (hi : i < 8) : (0x80#8 >>> k).getMsbD i = decide (i = k) := by
  rw [BitVec.getMsbD_ushiftRight, x80_getMsbD]
  by_cases h1 : i < k
  · have : ¬ i = k := by omega
    simp [h1, this]
  · by_cases h2 : i = k
    · subst h2; simp [hi]
    · have : ¬ (i - k = 0) := by omega
      simp [h1, h2, this]

/-- `byte & (0x80 >> k) != 0` tests bit `k` -/
theorem byte_probe (x : Byte) (k : Nat) (hk : k < 8) :
    (x &&& (0x80#8 >>> k) ≠ 0#8) ↔ x.getMsbD k = true := by
  constructor
  · intro hne
    apply Classical.byContradiction
    intro hb
    apply hne
    apply BitVec.eq_of_getMsbD_eq
    intro i hi
    rw [BitVec.getMsbD_and, x80_shift_getMsbD k i hi]
    by_cases c : i = k
    · subst c; simp at hb; simp [hb]
    · simp [c]
  · intro hb heq
    have := congrArg (fun y => y.getMsbD k) heq
    simp only [BitVec.getMsbD_and, x80_shift_getMsbD k k hk, hb] at this
    simp at this

theorem byte_or_mask (d : Byte) (n i : Nat) (hi : i < 8) :
    (d ||| (0x80#8 >>> n)).getMsbD i = (d.getMsbD i || decide (i = n)) := by
  rw [BitVec.getMsbD_or, x80_shift_getMsbD n i hi]

/-! ### the two loops -/

@[simp] theorem length_orLoop (bytes : List Byte) (k n : Nat) :
    (orLoop bytes k n).length = bytes.length := by
  unfold orLoop
  induction n with
  | zero => simp
  | succ n ih => rw [List.range_succ, List.foldl_append]; simp [ih]

theorem orLoop_succ (bytes : List Byte) (k n : Nat) :
    orLoop bytes k (n + 1) = (orLoop bytes k n).modify k (fun d => d ||| (0x80#8 >>> n)) := by
  unfold orLoop
  rw [List.range_succ, List.foldl_append]; rfl

/-- `for i in 0..n { bytes[k] |= 0x80 >> i }` sets the first `n` bits of byte `k` -/
theorem getBit_orLoop (bytes : List Byte) (k n : Nat) (hk : k < bytes.length) (j : Nat) :
    getBit (orLoop bytes k n) j = if j / 8 = k ∧ j % 8 < n then true else getBit bytes j := by
  induction n with
  | zero => simp [orLoop]
  | succ n ih =>
    rw [orLoop_succ, getBit_modify _ _ _ _ (by simpa using hk)]
    have hm : j % 8 < 8 := Nat.mod_lt _ (by decide)
    by_cases c : j / 8 = k
    · simp only [c, true_and, if_true]
      rw [byte_or_mask _ _ _ hm]
      have hj : j / 8 < (orLoop bytes k n).length := by simpa [c] using hk
      have := getBit_eq_getElem (orLoop bytes k n) j hj
      simp only [c] at this
      rw [← this, ih]
      simp only [c, true_and]
      by_cases c1 : j % 8 < n
      · have : j % 8 < n + 1 := by omega
        simp [c1, this]
      · by_cases c2 : j % 8 = n
        · simp [c2]
        · have : ¬ j % 8 < n + 1 := by omega
          simp [c1, c2, this]
    · simp only [c, false_and, if_false]
      rw [ih]; simp [c]

@[simp] theorem length_fillFF (bytes : List Byte) (n : Nat) : (fillFF bytes n).length = bytes.length := by
  induction bytes generalizing n with
  | nil => simp [fillFF]
  | cons x r ih =>
    cases n with
    | zero => simp [fillFF]
    | succ n => simp [fillFF, ih]

/-- `for byte in bytes.iter_mut().take(n) { *byte = 0xFF }` sets the bits of the first `n` bytes -/
theorem getBit_fillFF (bytes : List Byte) (n j : Nat) :
    getBit (fillFF bytes n) j = if j / 8 < n ∧ j / 8 < bytes.length then true else getBit bytes j := by
  induction bytes generalizing n j with
  | nil => simp [fillFF]
  | cons x r ih =>
    cases n with
    | zero => simp [fillFF]
    | succ n =>
      simp only [fillFF]
      by_cases c : j < 8
      · rw [getBit_cons_lt _ _ _ c, ff_getMsbD]
        have : j / 8 < n + 1 ∧ j / 8 < (x :: r).length := by simp; omega
        rw [if_pos this]; simp [c]
      · obtain ⟨j', rfl⟩ : ∃ j', j = 8 + j' := ⟨j - 8, by omega⟩
        rw [getBit_cons_add, getBit_cons_add, ih]
        have e : (8 + j') / 8 = j' / 8 + 1 := by omega
        simp only [e, List.length_cons, Nat.add_lt_add_iff_right]

/-- the sign extension as coded: all bits in front of bit `off` are set, the others are unchanged -/
theorem getBit_signExtend (dst : List Byte) (hlen : dst.length = 8) (off : Nat) (hoff : off < 64)
    (j : Nat) :
    getBit (orLoop (fillFF dst (off / 8)) (off / 8) (off % 8)) j =
      if j < off then true else getBit dst j := by
  rw [getBit_orLoop _ _ _ (by simp [hlen]; omega), getBit_fillFF, hlen]
  by_cases c : j < off
  · simp only [c, if_true]
    by_cases c1 : j / 8 = off / 8 ∧ j % 8 < off % 8
    · simp [c1]
    · have : j / 8 < off / 8 ∧ j / 8 < 8 := by omega
      simp [c1, this]
  · have c1 : ¬ (j / 8 = off / 8 ∧ j % 8 < off % 8) := by omega
    have c2 : ¬ (j / 8 < off / 8 ∧ j / 8 < 8) := by omega
    simp [c, c1, c2]

/-- value of the sign-extended array: `64 - w` one bits in front of the `w` bits read -/
theorem fromBeBytes_signExtend (dst : List Byte) (hlen : dst.length = 8) (w : Nat) (hw1 : 1 ≤ w)
    (hw : w ≤ 64) :
    fromBeBytes (orLoop (fillFF dst ((64 - w) / 8)) ((64 - w) / 8) ((64 - w) % 8)) =
      (2 ^ (64 - w) - 1) * 2 ^ w + bitsToNat (bitsOf dst (64 - w) w) := by
  generalize hX : orLoop (fillFF dst ((64 - w) / 8)) ((64 - w) / 8) ((64 - w) % 8) = X
  have hXl : X.length = 8 := by subst hX; simp [hlen]
  have hbit : ∀ j, getBit X j = if j < 64 - w then true else getBit dst j := by
    intro j; subst hX; exact getBit_signExtend dst hlen (64 - w) (by omega) j
  rw [← bitsToNat_bytesBits, bytesBits_eq_bitsOf, hXl]
  have e : 8 * 8 = (64 - w) + w := by omega
  rw [e, bitsOf_append, Nat.zero_add, bitsToNat_append, length_bitsOf]
  have h1 : bitsOf X 0 (64 - w) = List.replicate (64 - w) true := by
    apply List.ext_getElem
    · simp
    · intro i h1 h2
      have hi : i < 64 - w := by simpa using h1
      rw [getElem_bitsOf, hbit, Nat.zero_add, if_pos hi]; simp
  have h2 : bitsOf X (64 - w) w = bitsOf dst (64 - w) w := by
    apply bitsOf_congr
    intro i _
    rw [hbit, if_neg (by omega)]
  rw [h1, h2, bitsToNat_replicate_true]

/-! ### the 64-bit pattern as a signed number -/

theorem toInt_signExtended (w x : Nat) (hw1 : 1 ≤ w) (hw : w ≤ 64) (hx : x < 2 ^ w)
    (hs : 2 ^ (w - 1) ≤ x) :
    (BitVec.ofNat 64 ((2 ^ (64 - w) - 1) * 2 ^ w + x)).toInt = (x : Int) - (2 : Int) ^ w := by
  have hQ : 2 ^ (64 - w) * 2 ^ w = 2 ^ 64 := by rw [← Nat.pow_add]; congr 1; omega
  have e2 : (2 : Nat) ^ w = 2 * 2 ^ (w - 1) := by
    have : w = (w - 1) + 1 := by omega
    conv => lhs; rw [this, Nat.pow_succ]
    omega
  have hQ1 : 1 ≤ 2 ^ (64 - w) := Nat.one_le_two_pow
  have hW : 2 ^ w ≤ 2 ^ 64 := Nat.pow_le_pow_right (by decide) hw
  have e3 : (2 ^ (64 - w) - 1) * 2 ^ w = 2 ^ 64 - 2 ^ w := by
    rw [Nat.sub_mul, hQ, Nat.one_mul]
  rw [e3, two_pow_cast w, BitVec.toInt_eq_toNat_cond, BitVec.toNat_ofNat]
  generalize (2 : Nat) ^ w = W at *
  generalize (2 : Nat) ^ (w - 1) = P at *
  have hn : (2 ^ 64 - W + x) % 2 ^ 64 = 2 ^ 64 - W + x := Nat.mod_eq_of_lt (by omega)
  rw [hn]
  have : ¬ 2 * (2 ^ 64 - W + x) < 2 ^ 64 := by omega
  rw [if_neg this]
  omega

theorem toInt_nonneg (w x : Nat) (hw1 : 1 ≤ w) (hw : w ≤ 64) (hs : x < 2 ^ (w - 1)) :
    (BitVec.ofNat 64 x).toInt = (x : Int) := by
  have hP : 2 ^ (w - 1) ≤ 2 ^ 63 := Nat.pow_le_pow_right (by decide) (by omega)
  rw [BitVec.toInt_eq_toNat_cond, BitVec.toNat_ofNat]
  have hn : x % 2 ^ 64 = x := Nat.mod_eq_of_lt (by omega)
  rw [hn]
  have : 2 * x < 2 ^ 64 := by omega
  rw [if_pos this]

/-- the most significant of `w ≥ 1` bits is the top binary digit of their value -/
theorem testBit_top_bitsOf (src : List Byte) (sp w : Nat) (hw : 1 ≤ w) :
    (bitsToNat (bitsOf src sp w)).testBit (w - 1) = getBit src sp := by
  have hnb := natBits_bitsToNat (bitsOf src sp w)
  rw [length_bitsOf] at hnb
  have h0 : 0 < (natBits w (bitsToNat (bitsOf src sp w))).length := by simp; omega
  have := List.getElem_of_eq hnb h0
  rw [getElem_natBits, getElem_bitsOf] at this
  simpa using this

end Asn1Verif.Per.Glue
