import Asn1Verif.Bits.Buffer
import Asn1Verif.Per.Prim
/-
  L1 on L0 — a *byte-level* mirror of a representative set of the functions of
  `src/protocol/per/unaligned/mod.rs` (`PackedWrite`/`PackedRead` blanket impls), written directly
  on the L0 operations of `Bits/Buffer.lean` exactly as the Rust code calls them:

    writers   run on a `BitBuffer`   (`write_bit`, `write_bits`, `write_bits_with_offset`)
    readers   run on a `BitsView`    (`Bits<'a>`: `read_bit`, `read_bits`, `read_bits_with_offset`)

  with the same calls and the same arguments (`to_be_bytes`, `leading_zeros`, `[0u8; 8]`,
  `from_be_bytes`, the byte/bit masks of the sign extension, the slices `&bytes[offset..]`, the
  `written_bytes` loop of the octet string).  `Per/Prim.lean` is the same code written on the
  abstraction "writers return the bits they append / readers consume from the front of the rest";
  `Props/Glue.lean` proves that the two agree.

  Numbers: `u64`/`i64` are `Nat`/`Int` (the theorems assume the arguments in range); every
  subtraction/addition/indexing/slicing that could unwind in a dev build is modelled
  (`uSub`, `idx`, slice bound checks → `panic`).  Error classes as in `Per/Prim.lean`
  (`ValueExceedsMaxInt` ↦ `valueNotInRange`).

  The mutual recursion `write_non_negative_binary_integer(None, None, _)` →
  `write_length_determinant(None, None, _)` → `write_non_negative_binary_integer(None, Some(_), _)`
  is cut as in `Per/Prim.lean`: `wNNBIc`/`rNNBIc` is the `Some((lower, upper))` branch, which is the
  only one `write/read_length_determinant` can reach.
-/
namespace Asn1Verif.Per.Concrete
open Asn1Verif Asn1Verif.Bits Outcome

/-! ### numbers and bytes -/

/-- `u64::to_be_bytes` -/
def toBeBytes (v : Nat) : List Byte :=
  [BitVec.ofNat 8 (v >>> 56), BitVec.ofNat 8 (v >>> 48), BitVec.ofNat 8 (v >>> 40),
   BitVec.ofNat 8 (v >>> 32), BitVec.ofNat 8 (v >>> 24), BitVec.ofNat 8 (v >>> 16),
   BitVec.ofNat 8 (v >>> 8), BitVec.ofNat 8 v]

/-- `u64::from_be_bytes` (for any number of bytes) -/
def fromBeBytes (bs : List Byte) : Nat := bs.foldl (fun acc b => acc * 256 + b.toNat) 0

/-- `i64::to_be_bytes`: the bytes of the 64-bit two's complement pattern -/
def toBeBytesI64 (v : Int) : List Byte := toBeBytes (BitVec.ofInt 64 v).toNat

/-- `i64::from_be_bytes`: the 64-bit pattern read as two's complement -/
def fromBeBytesI64 (bs : List Byte) : Int := (BitVec.ofNat 64 (fromBeBytes bs)).toInt

/-- `[0u8; N]` -/
def zeroBytes (n : Nat) : List Byte := List.replicate n 0#8

/-- `bytes[i]` -/
def idx (bytes : List Byte) (i : Nat) : Outcome Byte :=
  match bytes[i]? with
  | some x => ok x
  | none => panic

/-- `a.wrapping_sub(b) as u64` on `i64` -/
def wrappingSubAsU64 (a b : Int) : Nat := i64AsU64 (a - b)

/-- `a.wrapping_add(n as i64)` on `i64`, `n : u64` -/
def wrappingAddU64 (a : Int) (n : Nat) : Int := u64AsI64 (i64AsU64 (a + u64AsI64 n))

/-! ## writers (on `BitBuffer`) -/

/-- `write_non_negative_binary_integer`, branch `Some((lower, upper))` -/
def wNNBIc (lb ub : Option Nat) (value : Nat) (b : BitBuffer) : Outcome BitBuffer :=
  let lower := lb.getD 0
  let upper := ub.getD I64MAXu
  if value < lower ∨ value > upper then err .valueNotInRange
  else do
    let range ← uSub upper lower
    let offsetBits := lz64 range                       -- `range.leading_zeros() as usize`
    let bytes := toBeBytes (← uSub value lower)        -- `(value - lower).to_be_bytes()`
    b.writeBitsWithOffset bytes offsetBits

/-- `write_length_determinant` -/
def wLen (lb ub : Option Nat) (value : Nat) (b : BitBuffer) : Outcome (Option Nat × BitBuffer) :=
  let lbu := lb.getD 0
  let ubu := ub.getD I64MAXu
  if (lb.isSome || ub.isSome) && decide (ubu ≥ Consts.LENGTH_64K) then
    if lb = ub then ok (none, b)
    else if value < lbu then err .valueNotInRange
    else do
      let b ← wNNBIc lb ub value b
      ok (none, b)
  else if ub.isSome && decide (ubu ≤ Consts.LENGTH_64K) then do
    let b ← wNNBIc lb ub value b
    ok (none, b)
  else if value ≤ Consts.LENGTH_127 then do
    let b ← b.writeBit false
    let b ← wNNBIc none (some Consts.LENGTH_127) value b
    ok (none, b)
  else if value < Consts.LENGTH_16K then do
    let b ← b.writeBit true
    let b ← b.writeBit false
    let b ← wNNBIc none (some (Consts.LENGTH_16K - 1)) value b
    ok (none, b)
  else do
    let b ← b.writeBit true
    let b ← b.writeBit true
    -- `(value / LENGTH_16K).min(u64::from(MAX_FRAGMENTS)) as u8`
    let multiple : Byte := BitVec.ofNat 8 (min (value / Consts.LENGTH_16K) Consts.MAX_FRAGMENTS)
    let b ← b.writeBitsWithOffset [multiple] 2
    ok (some (multiple.toNat * Consts.LENGTH_16K), b)

/-- `write_non_negative_binary_integer` -/
def wNNBI (lb ub : Option Nat) (value : Nat) (b : BitBuffer) : Outcome BitBuffer :=
  match lb, ub with
  | none, none => do
    let offset := min (lz64 value / 8) 7
    let len ← uSub 8 offset
    let bytes := toBeBytes value
    let (_, b) ← wLen none none len b
    b.writeBits (bytes.drop offset)                    -- `&bytes[offset as usize..]`
  | lb, ub => wNNBIc lb ub value b

/-- `write_2s_compliment_binary_integer` -/
def w2s (bitLen : Nat) (value : Int) (b : BitBuffer) : Outcome BitBuffer :=
  let bytes := toBeBytesI64 value
  if bitLen = 0 ∨ bitLen > bytes.length * Consts.BYTE_LEN then err .bitLenNotInRange
  else do
    let bitsOffset ← uSub (bytes.length * Consts.BYTE_LEN) bitLen
    b.writeBitsWithOffset bytes bitsOffset

/-- `write_constrained_whole_number` -/
def wConstrained (lb ub value : Int) (b : BitBuffer) : Outcome BitBuffer :=
  if value < lb ∨ value > ub then err .valueNotInRange
  else if ub > lb then
    let range := wrappingSubAsU64 ub lb
    wNNBI none (some range) (wrappingSubAsU64 value lb) b
  else ok b

/-- `write_normally_small_non_negative_whole_number` (= `write_normally_small_length`) -/
def wSmall (value : Nat) (b : BitBuffer) : Outcome BitBuffer := do
  let ge64 := decide (value ≥ Consts.SMALL_NON_NEGATIVE_NUMBER)
  let b ← b.writeBit ge64
  if ge64 then wNNBI none none value b
  else wNNBI none (some (Consts.SMALL_NON_NEGATIVE_NUMBER - 1)) value b

/-- `write_semi_constrained_whole_number` -/
def wSemi (lb value : Int) (b : BitBuffer) : Outcome BitBuffer :=
  if value < lb then err .valueNotInRange
  else wNNBI none none (wrappingSubAsU64 value lb) b

/-- `write_unconstrained_whole_number` -/
def wUnconstrained (value : Int) (b : BitBuffer) : Outcome BitBuffer := do
  let prefixLen := (if value < 0 then lo64 value - 1 else lz64 (i64AsU64 value) - 1) / 8
  let octetLen ← uSub 8 prefixLen
  let (_, b) ← wLen none none octetLen b
  w2s (octetLen * Consts.BYTE_LEN) value b

/-- `write_enumeration_index` (= `write_choice_index`) -/
def wIndex (stdVariants : Nat) (extensible : Bool) (index : Nat) (b : BitBuffer) :
    Outcome BitBuffer := do
  let outOfRange := decide (index ≥ stdVariants)
  let b ← (if extensible then b.writeBit outOfRange else ok b)
  if outOfRange then
    if extensible then do
      let n ← uSub index stdVariants
      wSmall n b
    else err .invalidChoiceIndex
  else do
    let top ← uSub stdVariants 1
    wNNBI none (some top) index b

/-- `&src[from..to]` -/
def slice (src : List Byte) (start stop : Nat) : Outcome (List Byte) :=
  if start ≤ stop ∧ stop ≤ src.length then ok ((src.drop start).take (stop - start)) else panic

/-- the `loop` of `write_octetstring`, entered with `written_bytes = written` -/
def wOctLoop (src : List Byte) (written : Nat) (b : BitBuffer) : Outcome BitBuffer :=
  match uSub src.length written with
  | .ok remaining =>
    match wLen none none remaining b with
    | .ok (f, b) =>
      let fs := f.getD remaining
      match slice src written (written + fs) with
      | .ok part =>
        match b.writeBits part with
        | .ok b =>
          if _h : fs < Consts.MIN_FRAGMENT_SIZE then ok b
          else if _h2 : written + fs ≤ src.length then wOctLoop src (written + fs) b
          else panic     -- unreachable: the slice above has just been taken
        | .err k => err k
        | .panic => panic
      | .err k => err k
      | .panic => panic
    | .err k => err k
    | .panic => panic
  | .err k => err k
  | .panic => panic
termination_by src.length - written
decreasing_by
  have : 0 < Consts.MIN_FRAGMENT_SIZE := by decide
  omega

/-- the tail of `write_octetstring`: `write_bits(&src[..fragment_size.unwrap_or(length)])`, then
    the loop when a fragment was announced -/
def wOctBody (src : List Byte) (fragment : Option Nat) (b : BitBuffer) : Outcome BitBuffer := do
  let first ← slice src 0 (fragment.getD src.length)
  let b ← b.writeBits first
  match fragment with
  | none => ok b
  | some written => wOctLoop src written b

/-- `write_octetstring` -/
def wOctets (lb ub : Option Nat) (extensible : Bool) (src : List Byte) (b : BitBuffer) :
    Outcome BitBuffer := do
  let lower := lb.getD 0
  let upper := ub.getD I64MAXu
  let length := src.length
  let outOfRange := decide (length < lower ∨ length > upper)
  let b ← (if extensible then b.writeBit outOfRange else ok b)
  if outOfRange then
    if extensible then do
      let (f, b) ← wLen none none length b
      wOctBody src f b
    else err .sizeNotInRange
  else if upper = 0 then ok b
  else if lb.isSome && lb = ub && decide (upper < Consts.LENGTH_64K) then wOctBody src none b
  else do
    let (f, b) ← wLen lb ub length b
    wOctBody src f b

/-! ## readers (on `BitsView`, the `Bits<'a>` of buffer.rs) -/

/-- `read_non_negative_binary_integer`, branch `Some((lower, upper))` -/
def rNNBIc (lb ub : Option Nat) (v : BitsView) : Outcome (Nat × BitsView) := do
  let lower := lb.getD 0
  let upper := ub.getD I64MAXu
  let range := upper - lower                           -- saturating_sub
  let offsetBits := lz64 range
  let (bytes, v) ← v.readBitsWithOffset (zeroBytes 8) offsetBits
  let x := fromBeBytes bytes
  if lower + x > U64_MAX then err .valueNotInRange     -- checked_add → ValueExceedsMaxInt
  else ok (lower + x, v)

/-- `read_length_determinant` -/
def rLen (lb ub : Option Nat) (v : BitsView) : Outcome (Nat × BitsView) :=
  let lbu := lb.getD 0
  let ubu := ub.getD I64MAXu
  if (lb.isSome || ub.isSome) && decide (ubu ≥ Consts.LENGTH_64K) then
    if lb = ub then ok (lbu, v)
    else rNNBIc lb ub v
  else if ub.isSome && decide (ubu ≤ Consts.LENGTH_64K) then rNNBIc lb ub v
  else do
    let (b0, v) ← v.readBit
    if !b0 then rNNBIc none (some Consts.LENGTH_127) v
    else do
      let (b1, v) ← v.readBit
      if !b1 then rNNBIc none (some (Consts.LENGTH_16K - 1)) v
      else do
        let (multiple, v) ← v.readBitsWithOffset (zeroBytes 1) 2
        let m ← idx multiple 0
        -- `LENGTH_16K * u64::from(multiple[0].min(MAX_FRAGMENTS))`
        ok (Consts.LENGTH_16K * min m.toNat Consts.MAX_FRAGMENTS, v)

/-- `read_non_negative_binary_integer` -/
def rNNBI (lb ub : Option Nat) (v : BitsView) : Outcome (Nat × BitsView) :=
  match lb, ub with
  | none, none => do
    let bytes := zeroBytes 8
    let (length, v) ← rLen none none v
    if length ≤ bytes.length then do                   -- `bytes.len().checked_sub(length)`
      let offset := bytes.length - length
      let (tail, v) ← v.readBits (bytes.drop offset)   -- `&mut bytes[offset..]`
      ok (fromBeBytes (bytes.take offset ++ tail), v)
    else err .lengthExceedsLimit
  | lb, ub => rNNBIc lb ub v

/-- `for byte in bytes.iter_mut().take(n) { *byte = 0xFF }` -/
def fillFF : List Byte → Nat → List Byte
  | [], _ => []
  | bs, 0 => bs
  | _ :: r, n + 1 => 0xFF#8 :: fillFF r n

/-- `for i in 0..n { bytes[k] |= 0x80 >> i }` -/
def orLoop (bytes : List Byte) (k n : Nat) : List Byte :=
  (List.range n).foldl (fun bs i => bs.modify k (fun d => d ||| (0x80#8 >>> i))) bytes

/-- `read_2s_compliment_binary_integer` -/
def r2s (bitLen : Nat) (v : BitsView) : Outcome (Int × BitsView) :=
  let bytes := zeroBytes 8
  if bitLen = 0 ∨ bitLen > bytes.length * Consts.BYTE_LEN then err .bitLenNotInRange
  else do
    let bitsOffset ← uSub (bytes.length * Consts.BYTE_LEN) bitLen
    let (bytes, v) ← v.readBitsWithOffset bytes bitsOffset
    let byteOffset := bitsOffset / Consts.BYTE_LEN
    let bitOffset := bitsOffset % Consts.BYTE_LEN
    let probe ← idx bytes byteOffset
    -- most significant bit set: expand the sign
    let bytes :=
      if probe &&& (0x80#8 >>> bitOffset) ≠ 0#8 then orLoop (fillFF bytes byteOffset) byteOffset bitOffset
      else bytes
    ok (fromBeBytesI64 bytes, v)

/-- `read_constrained_whole_number` -/
def rConstrained (lb ub : Int) (v : BitsView) : Outcome (Int × BitsView) :=
  if ub > lb then do
    let range := wrappingSubAsU64 ub lb
    let (offset, v) ← rNNBI none (some range) v
    if offset > range then err .valueNotInRange
    else ok (wrappingAddU64 lb offset, v)
  else ok (lb, v)

/-- `read_normally_small_non_negative_whole_number` (= `read_normally_small_length`) -/
def rSmall (v : BitsView) : Outcome (Nat × BitsView) := do
  let (big, v) ← v.readBit
  if big then rNNBI none none v
  else rNNBI none (some (Consts.SMALL_NON_NEGATIVE_NUMBER - 1)) v

/-- `read_semi_constrained_whole_number` (`i128` arithmetic, `i64::try_from`) -/
def rSemi (lb : Int) (v : BitsView) : Outcome (Int × BitsView) := do
  let (n, v) ← rNNBI none none v
  let r := (n : Int) + lb
  if inI64 r then ok (r, v) else err .valueNotInRange

/-- `read_unconstrained_whole_number` -/
def rUnconstrained (v : BitsView) : Outcome (Int × BitsView) := do
  let (octetLen, v) ← rLen none none v
  r2s (octetLen * Consts.BYTE_LEN) v

/-- `read_enumeration_index` (= `read_choice_index`) -/
def rIndex (stdVariants : Nat) (extensible : Bool) (v : BitsView) : Outcome (Nat × BitsView) := do
  let (isExt, v) ← (if extensible then v.readBit else ok (false, v))
  if isExt then do
    let (n, v) ← rSmall v
    if n + stdVariants > U64_MAX then err .valueNotInRange else ok (n + stdVariants, v)
  else if stdVariants = 0 then err .invalidChoiceIndex
  else do
    let top ← uSub stdVariants 1
    rNNBI none (some top) v

/-- `read_bytes_chunked(read, buffer, byte_len)` with `CHUNK = chunk`
    (the Rust constant is the literal `64 * 1024` local to the function) -/
def readBytesChunked (chunk : Nat) (v : BitsView) (buffer : List Byte) (remaining : Nat) :
    Outcome (List Byte × BitsView) :=
  if _h : remaining = 0 ∨ chunk = 0 then
    (if remaining = 0 then ok (buffer, v) else panic)   -- `chunk = 0` would loop for ever
  else
    let c := min remaining chunk
    let start := buffer.length
    let buffer := buffer ++ zeroBytes c                 -- `buffer.resize(start + chunk, 0x00)`
    match v.readBits (buffer.drop start) with           -- `read_bits(&mut buffer[start..])`
    | .ok (tail, v) => readBytesChunked chunk v (buffer.take start ++ tail) (remaining - c)
    | .err k => err k
    | .panic => panic
termination_by remaining
decreasing_by omega

/-- `CHUNK` of `read_bytes_chunked` -/
def READ_CHUNK : Nat := 64 * 1024

/-- the `loop` of `read_octetstring`, entered with `buffer` (its length is `byte_len`) -/
def rOctLoop (buffer : List Byte) (v : BitsView) : Outcome (List Byte × BitsView) :=
  match rLen none none v with
  | .ok (extLen, v1) =>
    let byteLen := buffer.length
    let buffer := buffer ++ zeroBytes extLen           -- `buffer.extend(repeat(0u8).take(ext))`
    match v1.readBits (buffer.drop byteLen) with       -- `read_bits(&mut buffer[byte_len..])`
    | .ok (tail, v2) =>
      let buffer := buffer.take byteLen ++ tail
      if extLen < Consts.LENGTH_16K then ok (buffer, v2)
      else if _hlt : v2.len - v2.pos < v.len - v.pos then rOctLoop buffer v2
      else panic   -- unreachable (as in `Per.rOctFrag`): a length determinant consumes ≥ 8 bits
    | .err k => err k
    | .panic => panic
  | .err k => err k
  | .panic => panic
termination_by v.len - v.pos

/-- the tail of `read_octetstring`: `read_bytes_chunked`, then the loop when fragments may follow -/
def rOctBody (byteLen : Nat) (frag : Bool) (v : BitsView) : Outcome (List Byte × BitsView) := do
  let (buffer, v) ← readBytesChunked READ_CHUNK v [] byteLen
  if frag && decide (byteLen ≥ Consts.LENGTH_16K) then rOctLoop buffer v
  else ok (buffer, v)

/-- `read_octetstring` -/
def rOctets (lb ub : Option Nat) (extensible : Bool) (v : BitsView) :
    Outcome (List Byte × BitsView) := do
  let upper := ub.getD I64MAXu
  let (isExt, v) ← (if extensible then v.readBit else ok (false, v))
  if isExt then do
    let (n, v) ← rLen none none v
    rOctBody n true v
  else if upper = 0 then ok ([], v)
  else if lb.isSome && lb = ub && decide (upper < Consts.LENGTH_64K) then rOctBody upper false v
  else do
    let (n, v) ← rLen lb ub v
    -- only the unconstrained length determinant announces fragments
    rOctBody n (lb.isNone && ub.isNone) v

end Asn1Verif.Per.Concrete
