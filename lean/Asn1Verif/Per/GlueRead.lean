import Asn1Verif.Per.GlueBits
import Asn1Verif.Per.GlueSign
import Asn1Verif.Per.PrimLemmasWhole
/-
  Glue, part 3: the byte-level readers of `Per/Concrete.lean` (on a `BitsView`, the `Bits<'a>` of
  buffer.rs) return what the L1 readers of `Per/Prim.lean` return on the remaining bits of the view,
  advance the cursor by exactly the bits the L1 reader consumes, and fail exactly when (and how) the
  L1 readers fail.
-/
namespace Asn1Verif.Per.Glue
open Asn1Verif Asn1Verif.Bits Asn1Verif.Per Outcome

/-! ### the remaining input of a view -/

/-- the bits a `Bits` view has not yet consumed: positions `pos … len-1` of its slice -/
def remaining (v : BitsView) : Bits := (bitsOf v.slice 0 v.len).drop v.pos

@[simp] theorem length_remaining (v : BitsView) : (remaining v).length = v.len - v.pos := by
  simp [remaining]

theorem remaining_take (v : BitsView) (n : Nat) (h : v.pos + n ≤ v.len) :
    (remaining v).take n = bitsOf v.slice v.pos n := by
  unfold remaining
  have e : v.len = v.pos + (n + (v.len - v.pos - n)) := by omega
  conv => lhs; rw [e]
  rw [bitsOf_append, bitsOf_append, List.drop_left' (by simp), List.take_left' (by simp)]
  simp

theorem remaining_advance (v : BitsView) (n : Nat) :
    remaining { v with pos := v.pos + n } = (remaining v).drop n := by
  simp [remaining, List.drop_drop]

theorem inv_advance (v : BitsView) (n : Nat) (h : v.Inv) (hn : v.pos + n ≤ v.len) :
    BitsView.Inv { v with pos := v.pos + n } := ⟨h.1, hn⟩

/-! ### refinement relation for readers -/

/-- the outcome `c` of a concrete reader started on the view `v` refines the outcome `m` of the L1
    reader started on `remaining v`: same value, the view afterwards is the same slice with the same
    declared length, satisfies its invariant and its remaining bits are exactly the L1 rest
    (so the cursor is `len - rest.length`); same error class; panic ↔ panic -/
def RRel {α : Type} (v : BitsView) (m : Outcome (α × Bits)) (c : Outcome (α × BitsView)) : Prop :=
  match m with
  | .ok (a, rest) => ∃ v', c = ok (a, v') ∧ v'.slice = v.slice ∧ v'.len = v.len ∧ v'.Inv ∧
      remaining v' = rest
  | .err k => c = err k
  | .panic => c = panic

theorem RRel.err_iff {α : Type} {v : BitsView} {k : ErrKind} {c : Outcome (α × BitsView)} :
    RRel v (err k) c ↔ c = err k := Iff.rfl

theorem RRel.of_view {α : Type} {v v' : BitsView} {m : Outcome (α × Bits)}
    {c : Outcome (α × BitsView)} (hs : v'.slice = v.slice) (hl : v'.len = v.len)
    (h : RRel v' m c) : RRel v m c := by
  cases m with
  | ok p =>
    obtain ⟨a, rest⟩ := p
    obtain ⟨v'', h1, h2, h3, h4, h5⟩ := h
    exact ⟨v'', h1, h2.trans hs, h3.trans hl, h4, h5⟩
  | err k => exact h
  | panic => exact h

theorem RRel.bind {α β : Type} {v : BitsView} {m : Outcome (α × Bits)}
    {c : Outcome (α × BitsView)} {f : α × Bits → Outcome (β × Bits)}
    {g : α × BitsView → Outcome (β × BitsView)} (h : RRel v m c)
    (hk : ∀ a v', v'.slice = v.slice → v'.len = v.len → v'.Inv →
      RRel v' (f (a, remaining v')) (g (a, v'))) :
    RRel v (m >>= f) (c >>= g) := by
  cases m with
  | ok p =>
    obtain ⟨a, rest⟩ := p
    obtain ⟨v', h1, h2, h3, h4, h5⟩ := h
    subst h5
    rw [h1]
    exact RRel.of_view h2 h3 (hk a v' h2 h3 h4)
  | err k => have : c = err k := h; rw [this]; exact RRel.err_iff.2 rfl
  | panic => have : c = panic := h; rw [this]; rfl

theorem RRel.ok {α : Type} {v : BitsView} (a : α) (h : v.Inv) :
    RRel v (ok (a, remaining v)) (ok (a, v)) := ⟨v, rfl, rfl, rfl, h, rfl⟩

/-- the view after a successful read, explicitly: same slice, same length, cursor at
    `len - rest.length` -/
theorem RRel.explicit {α : Type} {v : BitsView} {a : α} {rest : Bits} {c : Outcome (α × BitsView)}
    (h : RRel v (Outcome.ok (a, rest)) c) :
    c = Outcome.ok (a, { v with pos := v.len - rest.length }) ∧
      BitsView.Inv { v with pos := v.len - rest.length } ∧
      remaining { v with pos := v.len - rest.length } = rest := by
  obtain ⟨v', h1, h2, h3, h4, h5⟩ := h
  have hp : v'.pos = v.len - rest.length := by
    have hl := length_remaining v'
    rw [h5, h3] at hl
    have := h4.2
    omega
  have hv : v' = { v with pos := v.len - rest.length } := by
    cases v'; cases v; simp only at h2 h3 hp; subst h2; subst h3; subst hp; rfl
  rw [← hv]
  exact ⟨h1, h4, h5⟩

/-- `RRel` with the resulting view spelled out (the form used in `Props/Glue.lean`) -/
theorem RRel.spelled {α : Type} {v : BitsView} {m : Outcome (α × Bits)} {c : Outcome (α × BitsView)} :
    RRel v m c →
    match m with
    | .ok (a, rest) => c = Outcome.ok (a, { v with pos := v.len - rest.length }) ∧
        BitsView.Inv { v with pos := v.len - rest.length } ∧
        remaining { v with pos := v.len - rest.length } = rest
    | .err k => c = Outcome.err k
    | .panic => c = Outcome.panic := by
  intro h
  cases m with
  | ok p => obtain ⟨a, rest⟩ := p; exact RRel.explicit h
  | err k => exact h
  | panic => exact h

/-! ### the L0 read entry points used by `Per/Concrete.lean` -/

theorem readBitsWithOffset_eq (v : BitsView) (dst : List Byte) (off : Nat)
    (ho : off ≤ dst.length * 8) :
    v.readBitsWithOffset dst off = v.readBitsWithOffsetLen dst off (dst.length * 8 - off) := by
  unfold BitsView.readBitsWithOffset BitsView.readBitsWithOffsetLen sliceReadBitsWithOffset failIf
  rw [byte_len_eq]
  have h1 : ¬ (dst.length * 8 < off) := by omega
  simp only [h1, decide_false, Bool.false_eq_true, ite_false, Outcome.bind_ok]

theorem readBits_eq (v : BitsView) (dst : List Byte) :
    v.readBits dst = v.readBitsWithOffsetLen dst 0 (dst.length * 8) := by
  unfold BitsView.readBits BitsView.readBitsWithOffsetLen sliceReadBits
  rw [byte_len_eq]

/-- `read_bit` -/
theorem readBit_refines (v : BitsView) (h : v.Inv) : RRel v (rdBit (remaining v)) v.readBit := by
  rw [BitsView.readBit_spec v h]
  by_cases hp : v.pos < v.len
  · rw [if_pos hp]
    have ht := remaining_take v 1 (by omega)
    have hd := remaining_advance v 1
    cases hr : remaining v with
    | nil =>
      have := length_remaining v
      rw [hr] at this; simp at this; omega
    | cons x r =>
      rw [hr] at ht hd
      have hx : x = getBit v.slice v.pos := by
        have : [x] = bitsOf v.slice v.pos 1 := by simpa using ht
        simpa [bitsOf] using this
      refine ⟨{ v with pos := v.pos + 1 }, by rw [hx], rfl, rfl, inv_advance v 1 h (by omega), ?_⟩
      rw [hd]; rfl
  · rw [if_neg hp]
    have : remaining v = [] := by
      apply List.eq_nil_of_length_eq_zero; rw [length_remaining]; omega
    rw [this]; rfl

/-- `read_bits_with_offset(&mut [0u8; n], off)`: either the view holds fewer than `8n - off` more
    bits (error), or those bits land in the low end of the zeroed array, whose big-endian value is
    then their value -/
theorem readBitsWithOffset_zero (v : BitsView) (h : v.Inv) (n off : Nat) (ho : off ≤ 8 * n) :
    ((remaining v).length < 8 * n - off ∧
      v.readBitsWithOffset (Concrete.zeroBytes n) off = err .endOfStream) ∨
    (8 * n - off ≤ (remaining v).length ∧ ∃ dst' v',
      v.readBitsWithOffset (Concrete.zeroBytes n) off = ok (dst', v') ∧
      v'.slice = v.slice ∧ v'.len = v.len ∧ v'.Inv ∧
      remaining v' = (remaining v).drop (8 * n - off) ∧
      CopySpec v.slice v.pos (Concrete.zeroBytes n) off (8 * n - off) dst' ∧
      bitsOf v.slice v.pos (8 * n - off) = (remaining v).take (8 * n - off) ∧
      Concrete.fromBeBytes dst' = bitsToNat ((remaining v).take (8 * n - off))) := by
  rw [readBitsWithOffset_eq _ _ _ (by simpa [Nat.mul_comm] using ho), length_zeroBytes,
    Nat.mul_comm n 8]
  by_cases hl : v.pos + (8 * n - off) ≤ v.len
  · right
    refine ⟨by rw [length_remaining]; omega, ?_⟩
    obtain ⟨dst', e1, hspec⟩ := BitsView.readBitsWithOffsetLen_ok v (Concrete.zeroBytes n) off
      (8 * n - off) h hl (by simp; omega)
    refine ⟨dst', _, e1, rfl, rfl, inv_advance v _ h hl, remaining_advance v _, hspec,
      (remaining_take v _ hl).symm, ?_⟩
    have hspec' : CopySpec v.slice v.pos (Concrete.zeroBytes n) (8 * n - (8 * n - off))
        (8 * n - off) dst' := by
      have : 8 * n - (8 * n - off) = off := by omega
      rw [this]; exact hspec
    rw [fromBeBytes_of_copy (by omega) hspec', remaining_take v _ hl]
  · left
    have hpl := h.2
    refine ⟨by rw [length_remaining]; omega, ?_⟩
    exact BitsView.readBitsWithOffsetLen_eos v _ off _ h.2 (by omega)

/-- `read_bits(&mut zeroed[..k])`: `k` whole bytes -/
theorem readBits_zero (v : BitsView) (h : v.Inv) (k : Nat) :
    ((remaining v).length < 8 * k ∧ v.readBits (Concrete.zeroBytes k) = err .endOfStream) ∨
    (8 * k ≤ (remaining v).length ∧ ∃ dst' v',
      v.readBits (Concrete.zeroBytes k) = ok (dst', v') ∧
      v'.slice = v.slice ∧ v'.len = v.len ∧ v'.Inv ∧
      remaining v' = (remaining v).drop (8 * k) ∧
      dst'.length = k ∧ bytesBits dst' = (remaining v).take (8 * k)) := by
  rw [readBits_eq, length_zeroBytes, Nat.mul_comm k 8]
  by_cases hl : v.pos + 8 * k ≤ v.len
  · right
    refine ⟨by rw [length_remaining]; omega, ?_⟩
    obtain ⟨dst', e1, hspec⟩ := BitsView.readBitsWithOffsetLen_ok v (Concrete.zeroBytes k) 0
      (8 * k) h hl (by simp; omega)
    have hlen : dst'.length = k := by rw [hspec.1]; simp
    refine ⟨dst', _, e1, rfl, rfl, inv_advance v _ h hl, remaining_advance v _, hlen, ?_⟩
    rw [bytesBits_eq_bitsOf, hlen, remaining_take v _ hl]
    exact bitsOf_copy_window hspec
  · left
    have hpl := h.2
    refine ⟨by rw [length_remaining]; omega, ?_⟩
    exact BitsView.readBitsWithOffsetLen_eos v _ 0 _ h.2 (by omega)

/-! ### 11.3 non-negative-binary-integer, constrained case -/

theorem rNNBIc_refines (lb ub : Option Nat) (v : BitsView) (h : v.Inv)
    (hub : ub.getD I64MAXu ≤ U64_MAX) :
    RRel v (Per.rNNBIc lb ub (remaining v)) (Concrete.rNNBIc lb ub v) := by
  unfold Per.rNNBIc Concrete.rNNBIc
  simp only []
  have hr : ub.getD I64MAXu - lb.getD 0 ≤ U64_MAX := by omega
  generalize ub.getD I64MAXu - lb.getD 0 = range at *
  obtain ⟨hz, hw⟩ := lz64_width hr
  have hw' : 8 * 8 - lz64 range = bitWidth range := hw
  rcases readBitsWithOffset_zero v h 8 (lz64 range) (by omega) with
    ⟨hlt, herr⟩ | ⟨hge, dst', v', e1, hs, hl, hi, hrem, _, _, hval⟩
  · rw [hw'] at hlt
    rw [herr]; simp only [Per.rdNat, if_pos hlt]; rfl
  · rw [hw'] at hge hrem hval
    have : ¬ (remaining v).length < bitWidth range := by omega
    rw [e1]; simp only [Per.rdNat, if_neg this, Outcome.bind_ok, hval]
    by_cases hov : lb.getD 0 + bitsToNat ((remaining v).take (bitWidth range)) > U64_MAX
    · simp only [hov, if_true]; rfl
    · simp only [hov, if_false]
      exact ⟨v', rfl, hs, hl, hi, hrem⟩

/-! ### 11.9 length determinant -/

theorem idx_ok (bytes : List Byte) (i : Nat) (h : i < bytes.length) :
    Concrete.idx bytes i = ok bytes[i] := by
  unfold Concrete.idx
  rw [List.getElem?_eq_getElem h]

theorem rLen_refines (lb ub : Option Nat) (v : BitsView) (h : v.Inv)
    (hub : ub.getD I64MAXu ≤ U64_MAX) :
    RRel v (Per.rLen lb ub (remaining v)) (Concrete.rLen lb ub v) := by
  unfold Per.rLen Concrete.rLen
  simp only []
  split
  · split
    · exact RRel.ok _ h
    · exact rNNBIc_refines lb ub v h hub
  · split
    · exact rNNBIc_refines lb ub v h hub
    · refine RRel.bind (readBit_refines v h) (fun b0 v1 _ _ hi1 => ?_)
      cases b0 with
      | false =>
        simp only [Bool.not_false, if_true]
        exact rNNBIc_refines none (some Consts.LENGTH_127) v1 hi1 (by decide)
      | true =>
        simp only [Bool.not_true, Bool.false_eq_true, if_false]
        refine RRel.bind (readBit_refines v1 hi1) (fun b1 v2 _ _ hi2 => ?_)
        cases b1 with
        | false =>
          simp only [Bool.not_false, if_true]
          exact rNNBIc_refines none (some (Consts.LENGTH_16K - 1)) v2 hi2 (by decide)
        | true =>
          simp only [Bool.not_true, Bool.false_eq_true, if_false]
          have e6 : 8 * 1 - 2 = 6 := rfl
          rcases readBitsWithOffset_zero v2 hi2 1 2 (by omega) with
            ⟨hlt, herr⟩ | ⟨hge, dst', v', e1, hs, hl, hi, hrem, hspec, _, hval⟩
          · rw [e6] at hlt
            rw [herr]; simp only [Per.rdNat, if_pos hlt]; rfl
          · rw [e6] at hge hrem hval
            have hnl : ¬ (remaining v2).length < 6 := by omega
            have hlen : dst'.length = 1 := by rw [hspec.1]; simp
            rw [e1]; simp only [Per.rdNat, if_neg hnl, Outcome.bind_ok]
            rw [idx_ok dst' 0 (by omega)]
            simp only [Outcome.bind_ok]
            have hx : dst'[0].toNat = bitsToNat ((remaining v2).take 6) := by
              rw [← hval]
              match dst', hlen with
              | [x], _ => simp [Concrete.fromBeBytes]
            rw [hx]
            exact ⟨v', rfl, hs, hl, hi, hrem⟩

/-! ### 11.3 non-negative-binary-integer, general -/

theorem zeroBytes_drop (n k : Nat) : (Concrete.zeroBytes n).drop k = Concrete.zeroBytes (n - k) := by
  simp [Concrete.zeroBytes, List.drop_replicate]

theorem zeroBytes_take (n k : Nat) (h : k ≤ n) :
    (Concrete.zeroBytes n).take k = Concrete.zeroBytes k := by
  simp [Concrete.zeroBytes, List.take_replicate, Nat.min_eq_left h]

theorem fromBeBytes_zero_append (j : Nat) (bs : List Byte) :
    Concrete.fromBeBytes (Concrete.zeroBytes j ++ bs) = Concrete.fromBeBytes bs := by
  rw [← bitsToNat_bytesBits, bytesBits_append, bytesBits_eq_bitsOf (Concrete.zeroBytes j),
    bitsOf_zeroBytes, bitsToNat_zeros_append, bitsToNat_bytesBits]

theorem rNNBI_refines (lb ub : Option Nat) (v : BitsView) (h : v.Inv)
    (hub : ub.getD I64MAXu ≤ U64_MAX) :
    RRel v (Per.rNNBI lb ub (remaining v)) (Concrete.rNNBI lb ub v) := by
  cases lb with
  | some l => exact rNNBIc_refines (some l) ub v h hub
  | none =>
    cases ub with
    | some u => exact rNNBIc_refines none (some u) v h hub
    | none =>
      simp only [Per.rNNBI, Concrete.rNNBI]
      refine RRel.bind (rLen_refines none none v h (by decide)) (fun length v1 _ _ hi1 => ?_)
      simp only [length_zeroBytes]
      by_cases hl8 : length ≤ 8
      · simp only [hl8, if_true]
        have e8 : 8 - (8 - length) = length := by omega
        rw [zeroBytes_drop, e8, zeroBytes_take 8 (8 - length) (by omega)]
        rcases readBits_zero v1 hi1 length with
          ⟨hlt, herr⟩ | ⟨hge, dst', v', e1, hs, hl, hi, hrem, hlen, hbits⟩
        · rw [herr]; simp only [Per.rdNat, if_pos hlt]; rfl
        · have hnl : ¬ (remaining v1).length < 8 * length := by omega
          rw [e1]; simp only [Per.rdNat, if_neg hnl, Outcome.bind_ok]
          rw [fromBeBytes_zero_append, ← bitsToNat_bytesBits, hbits]
          exact ⟨v', rfl, hs, hl, hi, hrem⟩
      · simp only [hl8, if_false]; rfl

/-! ### 11.4 2's-complement-binary-integer -/

theorem r2s_refines (bitLen : Nat) (v : BitsView) (h : v.Inv) :
    RRel v (Per.r2s bitLen (remaining v)) (Concrete.r2s bitLen v) := by
  unfold Per.r2s Concrete.r2s
  simp only [length_zeroBytes, byte_len_eq, Nat.reduceMul]
  by_cases hr : bitLen = 0 ∨ bitLen > 64
  · simp only [hr, if_true]; rfl
  · simp only [hr, if_false]
    have hle : bitLen ≤ 64 := by omega
    have hw1 : 1 ≤ bitLen := by omega
    simp only [uSub, hle, if_true, Outcome.bind_ok]
    have ew : 8 * 8 - (64 - bitLen) = bitLen := by omega
    rcases readBitsWithOffset_zero v h 8 (64 - bitLen) (by omega) with
      ⟨hlt, herr⟩ | ⟨hge, dst', v', e1, hs, hl, hi, hrem, hspec, htake, hval⟩
    · rw [ew] at hlt
      rw [herr]; simp only [Per.rdNat, if_pos hlt]; rfl
    · rw [ew] at hge hrem hspec htake hval
      have hnl : ¬ (remaining v).length < bitLen := by omega
      have hlen : dst'.length = 8 := by rw [hspec.1]; simp
      have hbo : (64 - bitLen) / 8 < dst'.length := by omega
      rw [e1]; simp only [Per.rdNat, if_neg hnl, Outcome.bind_ok]
      rw [idx_ok dst' _ hbo]
      simp only [Outcome.bind_ok]
      -- the probed bit is the first bit read, i.e. the top binary digit of the value
      have hprobe : dst'[(64 - bitLen) / 8].getMsbD ((64 - bitLen) % 8) = getBit v.slice v.pos := by
        rw [← getBit_eq_getElem dst' (64 - bitLen) hbo, hspec.2, if_pos (by omega)]
        simp
      have htop := testBit_top_bitsOf v.slice v.pos bitLen hw1
      rw [htake] at htop
      have hxlt : bitsToNat ((remaining v).take bitLen) < 2 ^ bitLen := by
        have := bitsToNat_lt ((remaining v).take bitLen)
        rwa [List.length_take, Nat.min_eq_left hge] at this
      have hwin : bitsOf dst' (64 - bitLen) bitLen = (remaining v).take bitLen := by
        rw [bitsOf_copy_window hspec, htake]
      by_cases hsign : getBit v.slice v.pos = true
      · have hc : dst'[(64 - bitLen) / 8] &&& (0x80#8 >>> ((64 - bitLen) % 8)) ≠ 0#8 :=
          (byte_probe _ _ (Nat.mod_lt _ (by decide))).2 (by rw [hprobe, hsign])
        rw [hsign] at htop
        simp only [hc, ne_eq, not_false_eq_true, if_true, htop]
        unfold Concrete.fromBeBytesI64
        rw [fromBeBytes_signExtend dst' hlen bitLen hw1 hle, hwin]
        have h2 := (testBit_top bitLen _ hw1 hxlt).symm.trans htop
        rw [toInt_signExtended bitLen _ hw1 hle hxlt (by simpa using h2)]
        exact ⟨v', rfl, hs, hl, hi, hrem⟩
      · have hsf : getBit v.slice v.pos = false := by simpa using hsign
        have hc : ¬ (dst'[(64 - bitLen) / 8] &&& (0x80#8 >>> ((64 - bitLen) % 8)) ≠ 0#8) := by
          rw [byte_probe _ _ (Nat.mod_lt _ (by decide)), hprobe, hsf]; simp
        rw [hsf] at htop
        simp only [hc, if_false, htop, Bool.false_eq_true]
        unfold Concrete.fromBeBytesI64
        rw [hval]
        have h2 := (testBit_top bitLen _ hw1 hxlt).symm.trans htop
        rw [toInt_nonneg bitLen _ hw1 hle (by simpa using h2)]
        exact ⟨v', rfl, hs, hl, hi, hrem⟩

/-! ### 11.5 constrained whole number -/

theorem wrappingSubAsU64_eq' (a c : Int) (h : c ≤ a) (hl : I64_MIN ≤ c) (hu : a ≤ I64_MAX) :
    Concrete.wrappingSubAsU64 a c = (a - c).toNat := by
  unfold Concrete.wrappingSubAsU64 i64AsU64
  rw [I64_MIN_eq] at hl; rw [I64_MAX_eq] at hu
  have : (a - c) % 2 ^ 64 = a - c := by omega
  rw [this]

theorem wrappingAddU64_eq (lb : Int) (offset : Nat) (hl : I64_MIN ≤ lb)
    (hu : lb + offset ≤ I64_MAX) : Concrete.wrappingAddU64 lb offset = lb + offset := by
  unfold Concrete.wrappingAddU64 u64AsI64 i64AsU64
  rw [I64_MIN_eq] at hl; rw [I64_MAX_eq] at hu
  by_cases c : offset < 2 ^ 63
  · simp only [c, if_true]
    by_cases c2 : 0 ≤ lb + (offset : Int)
    · have e : (lb + (offset : Int)) % 2 ^ 64 = lb + offset := by omega
      rw [e]
      have : (lb + (offset : Int)).toNat < 2 ^ 63 := by omega
      simp only [this, if_true]; omega
    · have e : (lb + (offset : Int)) % 2 ^ 64 = lb + offset + 18446744073709551616 := by omega
      rw [e]
      have : ¬ (lb + (offset : Int) + 18446744073709551616).toNat < 2 ^ 63 := by omega
      simp only [this, if_false]; omega
  · simp only [c, if_false]
    by_cases c2 : 0 ≤ lb + (offset : Int)
    · have e : (lb + ((offset : Int) - 2 ^ 64)) % 2 ^ 64 = lb + offset := by omega
      rw [e]
      have : (lb + (offset : Int)).toNat < 2 ^ 63 := by omega
      simp only [this, if_true]; omega
    · have e : (lb + ((offset : Int) - 2 ^ 64)) % 2 ^ 64 = lb + offset + 18446744073709551616 := by
        omega
      rw [e]
      have : ¬ (lb + (offset : Int) + 18446744073709551616).toNat < 2 ^ 63 := by omega
      simp only [this, if_false]; omega

theorem rConstrained_refines (lb ub : Int) (v : BitsView) (h : v.Inv)
    (hl : I64_MIN ≤ lb) (hu : ub ≤ I64_MAX) :
    RRel v (Per.rConstrained lb ub (remaining v)) (Concrete.rConstrained lb ub v) := by
  unfold Per.rConstrained Concrete.rConstrained
  by_cases hlt : ub > lb
  · simp only [hlt, if_true]
    rw [wrappingSubAsU64_eq' ub lb (by omega) hl hu]
    have hrange : (some (ub - lb).toNat).getD I64MAXu ≤ U64_MAX := by
      rw [I64_MIN_eq] at hl; rw [I64_MAX_eq] at hu
      simp only [Option.getD_some, U64_MAX_eq]; omega
    refine RRel.bind (rNNBI_refines none (some (ub - lb).toNat) v h hrange)
      (fun offset v1 _ _ hi1 => ?_)
    by_cases ho : offset > (ub - lb).toNat
    · simp only [ho, if_true]; rfl
    · simp only [ho, if_false]
      rw [wrappingAddU64_eq lb offset hl (by omega)]
      exact RRel.ok _ hi1
  · simp only [hlt, if_false]
    exact RRel.ok _ h

/-! ### 11.6 normally small, 11.7 semi-constrained, 11.8 unconstrained -/

theorem rSmall_refines (v : BitsView) (h : v.Inv) :
    RRel v (Per.rSmall (remaining v)) (Concrete.rSmall v) := by
  unfold Per.rSmall Concrete.rSmall
  refine RRel.bind (readBit_refines v h) (fun big v1 _ _ hi1 => ?_)
  cases big with
  | true => exact rNNBI_refines none none v1 hi1 (by decide)
  | false => exact rNNBI_refines none (some (Consts.SMALL_NON_NEGATIVE_NUMBER - 1)) v1 hi1 (by decide)

theorem rSemi_refines (lb : Int) (v : BitsView) (h : v.Inv) :
    RRel v (Per.rSemi lb (remaining v)) (Concrete.rSemi lb v) := by
  unfold Per.rSemi Concrete.rSemi
  refine RRel.bind (rNNBI_refines none none v h (by decide)) (fun n v1 _ _ hi1 => ?_)
  simp only []
  split
  · exact RRel.ok _ hi1
  · rfl

theorem rUnconstrained_refines (v : BitsView) (h : v.Inv) :
    RRel v (Per.rUnconstrained (remaining v)) (Concrete.rUnconstrained v) := by
  unfold Per.rUnconstrained Concrete.rUnconstrained
  refine RRel.bind (rLen_refines none none v h (by decide)) (fun n v1 _ _ hi1 => ?_)
  simp only [byte_len_eq]
  exact r2s_refines (n * 8) v1 hi1

/-! ### enumeration / choice index -/

theorem rIndex_refines (std : Nat) (ext : Bool) (v : BitsView) (h : v.Inv) (hstd : std ≤ U64_MAX) :
    RRel v (Per.rIndex std ext (remaining v)) (Concrete.rIndex std ext v) := by
  unfold Per.rIndex Concrete.rIndex
  have hfirst : RRel v (if ext then rdBit (remaining v) else ok (false, remaining v))
      (if ext then v.readBit else ok (false, v)) := by
    cases ext with
    | true => exact readBit_refines v h
    | false => exact RRel.ok _ h
  refine RRel.bind hfirst (fun isExt v1 _ _ hi1 => ?_)
  cases isExt with
  | true =>
    simp only [if_true]
    refine RRel.bind (rSmall_refines v1 hi1) (fun n v2 _ _ hi2 => ?_)
    simp only []
    split
    · rfl
    · exact RRel.ok _ hi2
  | false =>
    simp only [Bool.false_eq_true, if_false]
    by_cases h0 : std = 0
    · simp only [h0, if_true]; rfl
    · simp only [h0, if_false]
      have h1 : 1 ≤ std := by omega
      simp only [uSub, h1, if_true, Outcome.bind_ok]
      exact rNNBI_refines none (some (std - 1)) v1 hi1 (by simp only [Option.getD_some]; omega)

end Asn1Verif.Per.Glue
