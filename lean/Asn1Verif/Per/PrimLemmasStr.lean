import Asn1Verif.Per.PrimLemmasNum
/-
  OCTET STRING (17) against `X691.octets`: the fragment loops `wOctFrag` / `rOctFrag` by strong
  induction on the number of remaining octets, then the heads of `wOctets` / `rOctets`.
  (`PrimLemmasBitStr.lean` is the same for BIT STRING.)

  Proof hygiene: conditions of `if`s that carry a proof (`dite`) are decided with `rw [dif_pos/neg]`
  on the *unsimplified* condition — `simp only` with `rfl`-lemmas would rewrite the proposition but
  not its `Decidable` instance.
-/
namespace Asn1Verif.Per
open Asn1Verif Outcome

/-! ### facts about the unconstrained length determinant and the fragment size -/

theorem wLen_unc' (v : Nat) : wLen none none v = ok ((X691.lenU v).1, (X691.lenU v).2) := wLen_unc v

theorem lenU_snd_lt {n : Nat} (h : n < 16384) : (X691.lenU n).2 = none := by
  unfold X691.lenU
  by_cases h1 : n ≤ 127
  · simp [h1]
  · simp [h1, h]

theorem lenU_snd_ge {n : Nat} (h : 16384 ≤ n) :
    (X691.lenU n).2 = some (min (n / 16384) 4 * 16384) := by
  unfold X691.lenU
  have h1 : ¬ n ≤ 127 := by omega
  have h2 : ¬ n < 16384 := by omega
  simp [h1, h2]

theorem frag_bounds {n : Nat} (h : 16384 ≤ n) :
    16384 ≤ min (n / 16384) 4 * 16384 ∧ min (n / 16384) 4 * 16384 ≤ n := by
  omega

theorem fragU_lt {α : Type} (enc : List α → Bits) (xs : List α) (h : xs.length < 16384) :
    X691.fragU enc xs = (X691.lenU xs.length).1 ++ enc xs := by
  rw [X691.fragU]
  simp only [h, dite_true]

theorem fragU_ge {α : Type} (enc : List α → Bits) (xs : List α) (h : 16384 ≤ xs.length) :
    X691.fragU enc xs = (X691.lenU xs.length).1 ++ enc (xs.take (min (xs.length / 16384) 4 * 16384))
      ++ X691.fragU enc (xs.drop (min (xs.length / 16384) 4 * 16384)) := by
  rw [X691.fragU]
  have : ¬ xs.length < 16384 := by omega
  simp only [this, dite_false]

theorem wOctFrag_lt (rest : List (BitVec 8)) (h : rest.length < 16384) :
    wOctFrag rest = ok ((X691.lenU rest.length).1 ++ bytesBits rest) := by
  rw [wOctFrag, wLen_unc']
  dsimp only
  have hfs : (X691.lenU rest.length).2.getD rest.length = rest.length := by
    rw [lenU_snd_lt h]; rfl
  rw [hfs, if_pos (Nat.le_refl _), dif_pos (show rest.length < Consts.MIN_FRAGMENT_SIZE from h),
    List.take_length]

theorem wOctFrag_ge (rest : List (BitVec 8)) (h : 16384 ≤ rest.length) :
    wOctFrag rest =
      (wOctFrag (rest.drop (min (rest.length / 16384) 4 * 16384)) >>= fun more =>
        ok ((X691.lenU rest.length).1
          ++ bytesBits (rest.take (min (rest.length / 16384) 4 * 16384)) ++ more)) := by
  have hb := frag_bounds h
  rw [wOctFrag, wLen_unc']
  dsimp only
  have hfs : (X691.lenU rest.length).2.getD rest.length = min (rest.length / 16384) 4 * 16384 := by
    rw [lenU_snd_ge h]; rfl
  rw [hfs, if_pos hb.2,
    dif_neg (show ¬ min (rest.length / 16384) 4 * 16384 < Consts.MIN_FRAGMENT_SIZE from
      Nat.not_lt.2 hb.1)]
  cases wOctFrag (List.drop (min (rest.length / 16384) 4 * 16384) rest) <;> rfl

theorem wOctFrag_eq : ∀ (n : Nat) (rest : List (BitVec 8)), rest.length = n →
    wOctFrag rest = ok (X691.fragU bytesBits rest) := by
  intro n
  induction n using Nat.strongRecOn with
  | ind n ih =>
    intro rest hn
    by_cases h : rest.length < 16384
    · rw [wOctFrag_lt rest h, fragU_lt _ _ h]
    · have hge : 16384 ≤ rest.length := by omega
      have hb := frag_bounds hge
      rw [wOctFrag_ge rest hge, fragU_ge _ _ hge,
        ih (rest.length - min (rest.length / 16384) 4 * 16384) (by omega) _ (by simp)]
      rfl

def octBody (pre : Bits) (src : List (BitVec 8)) (hdr : Bits) (fragment : Option Nat) : Outcome Bits :=
  let first := fragment.getD src.length
  if first ≤ src.length then
    match fragment with
    | none => ok (pre ++ hdr ++ bytesBits (src.take first))
    | some _ => do
      let more ← wOctFrag (src.drop first)
      ok (pre ++ hdr ++ bytesBits (src.take first) ++ more)
  else panic

theorem wOctets_eq (lb ub : Option Nat) (ext : Bool) (src : List (BitVec 8)) :
    wOctets lb ub ext src =
      (let oor := decide (src.length < lb.getD 0 ∨ src.length > ub.getD I64MAXu)
       let pre : Bits := if ext then [oor] else []
       if oor then
        if ext then do
          let (hdr, f) ← wLen none none src.length
          octBody pre src hdr f
        else err .sizeNotInRange
      else if ub.getD I64MAXu = 0 then ok pre
      else if lb.isSome && lb = ub && decide (ub.getD I64MAXu < Consts.LENGTH_64K) then
        octBody pre src [] none
      else do
        let (hdr, f) ← wLen lb ub src.length
        octBody pre src hdr f) := rfl

theorem wOctets_out (lb ub : Option Nat) (ext : Bool) (src : List (BitVec 8))
    (h : src.length < lb.getD 0 ∨ src.length > ub.getD I64MAXu) :
    wOctets lb ub ext src =
      (if ext then do
        let (hdr, f) ← wLen none none src.length
        octBody [true] src hdr f
      else err .sizeNotInRange) := by
  rw [wOctets_eq]
  cases ext <;> simp [h]

theorem wOctets_in (lb ub : Option Nat) (ext : Bool) (src : List (BitVec 8))
    (h : ¬ (src.length < lb.getD 0 ∨ src.length > ub.getD I64MAXu)) :
    wOctets lb ub ext src =
      (if ub.getD I64MAXu = 0 then ok (if ext then [false] else [])
      else if lb.isSome && lb = ub && decide (ub.getD I64MAXu < Consts.LENGTH_64K) then
        octBody (if ext then [false] else []) src [] none
      else do
        let (hdr, f) ← wLen lb ub src.length
        octBody (if ext then [false] else []) src hdr f) := by
  rw [wOctets_eq]
  simp only [h, decide_false, Bool.false_eq_true, if_false]

theorem lenU_fst_length_pos (n : Nat) : 0 < (X691.lenU n).1.length := by
  unfold X691.lenU
  split
  · simp
  · split <;> simp

theorem octBody_none (pre : Bits) (src : List (BitVec 8)) (hdr : Bits) :
    octBody pre src hdr none = ok (pre ++ hdr ++ bytesBits src) := by
  simp [octBody]

/-- length determinant in the unconstrained form + fragments = `fragU` -/
theorem octBody_unc (pre : Bits) (src : List (BitVec 8)) :
    octBody pre src (X691.lenU src.length).1 (X691.lenU src.length).2
      = ok (pre ++ X691.fragU bytesBits src) := by
  unfold octBody
  by_cases h : src.length < 16384
  · rw [lenU_snd_lt h, fragU_lt _ _ h]
    simp
  · have hge : 16384 ≤ src.length := by omega
    have hb := frag_bounds hge
    rw [lenU_snd_ge hge, fragU_ge _ _ hge]
    simp only [Option.getD_some, hb.2, if_true]
    rw [wOctFrag_eq _ _ rfl]
    simp

/-- `out_of_range` of the code is the complement of "inside the root" as long as the length is a
    valid `i64` (Rust slices are) -/
theorem outOfRange_iff (lb ub : Option Nat) (n : Nat) (hn : n ≤ I64MAXu) :
    (n < lb.getD 0 ∨ n > ub.getD I64MAXu) ↔ X691.inRoot lb ub n = false := by
  unfold X691.inRoot
  cases ub with
  | none => simp; omega
  | some u => simp; omega

theorem not_inRoot_outOfRange (lb ub : Option Nat) (n : Nat) (h : X691.inRoot lb ub n = false) :
    (n < lb.getD 0 ∨ n > ub.getD I64MAXu) := by
  unfold X691.inRoot at h
  cases ub with
  | none => simp at h; exact Or.inl h
  | some u => simp at h ⊢; omega

theorem wOctets_ext_out (lb ub : Option Nat) (src : List (BitVec 8))
    (h : src.length < lb.getD 0 ∨ src.length > ub.getD I64MAXu) :
    wOctets lb ub true src = ok (true :: X691.fragU bytesBits src) := by
  rw [wOctets_out _ _ _ _ h, wLen_unc']
  simp only [if_true, Outcome.bind_ok]
  rw [octBody_unc]; rfl

theorem wOctets_rejects (lb ub : Option Nat) (src : List (BitVec 8))
    (h : src.length < lb.getD 0 ∨ src.length > ub.getD I64MAXu) :
    wOctets lb ub false src = err .sizeNotInRange := by
  rw [wOctets_out _ _ _ _ h]; rfl

theorem not_dev_none {lb : Option Nat} (hd : ¬ LenDeviates lb none) : lb = none := by
  cases lb with
  | none => rfl
  | some l => exact absurd ⟨Or.inl rfl, by simp [I64MAXu_eq]⟩ hd

theorem not_dev_some {lb : Option Nat} {u : Nat} (hd : ¬ LenDeviates lb (some u)) : u < 65536 := by
  apply Nat.lt_of_not_le; intro hge
  exact hd ⟨Or.inr rfl, by simpa using hge⟩

/-- the pattern outside the deviating region -/
theorem wOctets_pattern (lb ub : Option Nat) (ext : Bool) (src : List (BitVec 8))
    (hd : ¬ LenDeviates lb ub) (hn : src.length ≤ I64MAXu)
    (hadm : ext = true ∨ X691.inRoot lb ub src.length = true) :
    wOctets lb ub ext src = ok (X691.octets lb ub ext src) := by
  unfold X691.octets X691.sized
  by_cases hin : X691.inRoot lb ub src.length = true
  · -- inside the root
    have hoor : ¬ (src.length < lb.getD 0 ∨ src.length > ub.getD I64MAXu) := by
      rw [outOfRange_iff lb ub _ hn, hin]; simp
    have hc : (ext && !X691.inRoot lb ub src.length) = false := by simp [hin]
    rw [wOctets_in _ _ _ _ hoor]
    simp only [hc, Bool.false_eq_true, if_false]
    cases ub with
    | none =>
      have := not_dev_none hd; subst this
      have : ¬ I64MAXu = 0 := by decide
      simp only [Option.getD_none, this, if_false, Option.isSome_none, Bool.false_and,
        Bool.false_eq_true]
      rw [wLen_unc']
      simp only [Outcome.bind_ok]
      rw [octBody_unc]
    | some u =>
      have hu : u < 65536 := not_dev_some hd
      have hlen : lb.getD 0 ≤ src.length ∧ src.length ≤ u := by
        simp only [Option.getD_some] at hoor; omega
      simp only [Option.getD_some, c_LENGTH_64K, hu, decide_true, Bool.and_true, if_true]
      by_cases hu0 : u = 0
      · simp [hu0]
      · simp only [hu0, if_false]
        by_cases hfix : lb = some u
        · simp only [hfix, Option.isSome_some, Bool.true_and, decide_true, if_true, true_and]
          rw [octBody_none]; simp
        · simp only [hfix, decide_false, Bool.and_false, Bool.false_eq_true, if_false, false_and]
          rw [wLen_con lb u _ hu hlen.1 hlen.2]
          simp only [Outcome.bind_ok]
          rw [octBody_none]
          simp only [List.append_assoc]
  · -- outside the root: only with the extension bit
    have hin' : X691.inRoot lb ub src.length = false := by simpa using hin
    have hext : ext = true := by
      rcases hadm with h | h
      · exact h
      · exact absurd h hin
    subst hext
    rw [wOctets_ext_out lb ub src (not_inRoot_outOfRange lb ub _ hin')]
    simp [hin']

/-! ### the reader's fragment loop -/

theorem rOctFrag_step (acc : List (BitVec 8)) (bs : Bits) (n : Nat) (r data r' : Bits)
    (h1 : rLen none none bs = ok (n, r)) (h2 : rdBits (8 * n) r = ok (data, r')) :
    rOctFrag acc bs =
      if n < Consts.LENGTH_16K then ok (acc ++ bitsBytes data, r')
      else if _hlt : r'.length < bs.length then rOctFrag (acc ++ bitsBytes data) r'
      else panic := by
  rw [rOctFrag, h1]; dsimp only; rw [h2]

theorem rLen_fragU_lt {α : Type} (enc : List α → Bits) (s : List α) (post : Bits)
    (h : s.length < 16384) :
    rLen none none (X691.fragU enc s ++ post) = ok (s.length, enc s ++ post) := by
  rw [fragU_lt _ _ h, List.append_assoc, rLen_unc, lenU_snd_lt h]; rfl

theorem rLen_fragU_ge {α : Type} (enc : List α → Bits) (s : List α) (post : Bits)
    (h : 16384 ≤ s.length) :
    rLen none none (X691.fragU enc s ++ post) = ok (min (s.length / 16384) 4 * 16384,
      enc (s.take (min (s.length / 16384) 4 * 16384)) ++
        (X691.fragU enc (s.drop (min (s.length / 16384) 4 * 16384)) ++ post)) := by
  rw [fragU_ge _ _ h, List.append_assoc, List.append_assoc, rLen_unc, lenU_snd_ge h]; rfl

theorem fragU_length_lt {α : Type} (enc : List α → Bits) (s : List α) (post : Bits)
    (h : 16384 ≤ s.length) :
    (X691.fragU enc (s.drop (min (s.length / 16384) 4 * 16384)) ++ post).length
      < (X691.fragU enc s ++ post).length := by
  conv => rhs; rw [fragU_ge _ _ h]
  simp only [List.length_append]
  have := lenU_fst_length_pos s.length
  omega

theorem rOctFrag_rt : ∀ (n : Nat) (s : List (BitVec 8)), s.length = n → ∀ (acc : List (BitVec 8))
    (post : Bits), rOctFrag acc (X691.fragU bytesBits s ++ post) = ok (acc ++ s, post) := by
  intro n
  induction n using Nat.strongRecOn with
  | ind n ih =>
    intro s hn acc post
    by_cases h : s.length < 16384
    · rw [rOctFrag_step acc _ _ _ _ _ (rLen_fragU_lt bytesBits s post h)
        (rdBits_append _ _ (bytesBits_length s)),
        if_pos (show s.length < Consts.LENGTH_16K from h), bitsBytes_bytesBits]
    · have hge : 16384 ≤ s.length := by omega
      have hb := frag_bounds hge
      have hl : (List.take (min (s.length / 16384) 4 * 16384) s).length
          = min (s.length / 16384) 4 * 16384 := by
        rw [List.length_take]; omega
      rw [rOctFrag_step acc _ _ _ _ _ (rLen_fragU_ge bytesBits s post hge)
        (rdBits_append _ _ (by rw [bytesBits_length, hl])),
        if_neg (show ¬ min (s.length / 16384) 4 * 16384 < Consts.LENGTH_16K from
          Nat.not_lt.2 hb.1),
        dif_pos (fragU_length_lt bytesBits s post hge), bitsBytes_bytesBits,
        ih (s.length - min (s.length / 16384) 4 * 16384) (by omega) _ (by simp),
        List.append_assoc, List.take_append_drop]

theorem good_rOctFrag : ∀ (n : Nat) (bs : Bits), bs.length = n → ∀ acc : List (BitVec 8),
    Good bs (rOctFrag acc bs) := by
  intro n
  induction n using Nat.strongRecOn with
  | ind n ih =>
    intro bs hn acc
    cases h1 : rLen none none bs with
    | err k => rw [rOctFrag, h1]; exact good_err _ _
    | panic => exact absurd h1 (good_rLen none none bs).1
    | ok p =>
      obtain ⟨m, r⟩ := p
      have hr : r <:+ bs := (good_rLen none none bs).2 m r h1
      have hrl := rLen_unc_consumes h1
      cases h2 : rdBits (8 * m) r with
      | err k => rw [rOctFrag, h1]; dsimp only; rw [h2]; exact good_err _ _
      | panic => exact absurd h2 (good_rdBits _ r).1
      | ok q =>
        obtain ⟨data, r'⟩ := q
        have hr' : r' <:+ r := (good_rdBits _ r).2 data r' h2
        have hlt : r'.length < bs.length := by
          have := suffix_length_le hr'; omega
        rw [rOctFrag_step acc bs m r data r' h1 h2]
        refine Good.ite (fun _ => good_ok _ (hr'.trans hr)) (fun _ => ?_)
        rw [dif_pos hlt]
        exact (ih r'.length (by omega) r' rfl _).mono (hr'.trans hr)

/-! ### `rOctets` -/

/-- the closure `body` of `rOctets` -/
def octRBody (byteLen : Nat) (frag : Bool) (r : Bits) : Outcome (List (BitVec 8) × Bits) := do
  let (data, r') ← rdBits (8 * byteLen) r
  if frag && decide (byteLen ≥ Consts.LENGTH_16K) then rOctFrag (bitsBytes data) r'
  else ok (bitsBytes data, r')

theorem rOctets_eq (lb ub : Option Nat) (ext : Bool) (bs : Bits) :
    rOctets lb ub ext bs = (do
      let (isExt, r0) ← (if ext then rdBit bs else ok (false, bs))
      if isExt then do
        let (n, r1) ← rLen none none r0
        octRBody n true r1
      else if ub.getD I64MAXu = 0 then ok ([], r0)
      else if lb.isSome && lb = ub && decide (ub.getD I64MAXu < Consts.LENGTH_64K) then
        octRBody (ub.getD I64MAXu) false r0
      else do
        let (n, r1) ← rLen lb ub r0
        octRBody n (lb.isNone && ub.isNone) r1) := rfl

/-- no fragment loop: the flag is off or the length is below 16K -/
theorem octRBody_plain (s : List (BitVec 8)) (frag : Bool) (post : Bits)
    (h : frag = false ∨ s.length < 16384) :
    octRBody s.length frag (bytesBits s ++ post) = ok (s, post) := by
  unfold octRBody
  rw [rdBits_append _ _ (bytesBits_length s)]
  simp only [Outcome.bind_ok, bitsBytes_bytesBits, c_LENGTH_16K]
  have : (frag && decide (s.length ≥ 16384)) = false := by
    rcases h with h | h
    · simp [h]
    · have : ¬ s.length ≥ 16384 := by omega
      simp [this]
  simp [this]

/-- the unconstrained form, any length: length determinant, first fragment, fragment loop -/
theorem rOct_unc (s : List (BitVec 8)) (post : Bits) :
    ∃ N R, rLen none none (X691.fragU bytesBits s ++ post) = ok (N, R) ∧
      octRBody N true R = ok (s, post) := by
  by_cases h : s.length < 16384
  · exact ⟨_, _, rLen_fragU_lt bytesBits s post h, octRBody_plain s true post (Or.inr h)⟩
  · have hge : 16384 ≤ s.length := by omega
    have hb := frag_bounds hge
    refine ⟨_, _, rLen_fragU_ge bytesBits s post hge, ?_⟩
    have hl : (List.take (min (s.length / 16384) 4 * 16384) s).length
        = min (s.length / 16384) 4 * 16384 := by
      rw [List.length_take]; omega
    unfold octRBody
    rw [rdBits_append _ _ (by rw [bytesBits_length, hl])]
    have hc : (true && decide (min (s.length / 16384) 4 * 16384 ≥ Consts.LENGTH_16K)) = true := by
      have : min (s.length / 16384) 4 * 16384 ≥ 16384 := hb.1
      simp [this]
    simp only [Outcome.bind_ok, hc, if_true, bitsBytes_bytesBits]
    rw [rOctFrag_rt _ _ rfl, List.take_append_drop]

theorem rd_pre (ext : Bool) (X : Bits) :
    (if ext = true then rdBit ((if ext = true then [false] else []) ++ X)
      else ok (false, (if ext = true then [false] else []) ++ X)) = ok (false, X) := by
  cases ext <;> rfl

/-- a bounded length determinant never announces a fragment -/
theorem wLen_bounded_none (lb ub : Option Nat) (v : Nat) (hdr : Bits) (f : Option Nat)
    (hs : (lb.isSome || ub.isSome) = true) (hw : wLen lb ub v = ok (hdr, f)) : f = none := by
  by_cases c1 : ub.getD I64MAXu ≥ 65536
  · rw [wLen_dev lb ub v hs c1] at hw
    split at hw
    · exact (ok_pair_inj hw).2.symm
    · split at hw
      · cases hw
      · cases hn : wNNBIc lb ub v with
        | ok b => rw [hn] at hw; exact (ok_pair_inj hw).2.symm
        | err k => rw [hn] at hw; cases hw
        | panic => rw [hn] at hw; cases hw
  · cases ub with
    | none => exact absurd (by simp [I64MAXu_eq]) c1
    | some u =>
      have hu : u < 65536 := by simpa using c1
      rw [wLen_lt64K lb u v hu] at hw
      cases hn : wNNBIc lb (some u) v with
      | ok b => rw [hn] at hw; exact (ok_pair_inj hw).2.symm
      | err k => rw [hn] at hw; cases hw
      | panic => rw [hn] at hw; cases hw

/-- self-consistency for **every** shape of bounds (so also in the region of finding F-64k):
    what `wOctets` wrote, `rOctets` reads back, leaving exactly what followed -/
theorem rOctets_wOctets (lb ub : Option Nat) (ext : Bool) (s : List (BitVec 8)) (bits post : Bits)
    (hub : ∀ u, ub = some u → u ≤ U64_MAX)
    (hw : wOctets lb ub ext s = ok bits) : rOctets lb ub ext (bits ++ post) = ok (s, post) := by
  rw [rOctets_eq]
  by_cases hoor : s.length < lb.getD 0 ∨ s.length > ub.getD I64MAXu
  · -- outside the root
    cases ext with
    | false => rw [wOctets_rejects lb ub s hoor] at hw; cases hw
    | true =>
      rw [wOctets_ext_out lb ub s hoor] at hw
      injection hw with hw; subst hw
      obtain ⟨N, R, h1, h2⟩ := rOct_unc s post
      simp only [if_true, List.cons_append, rdBit_cons, Outcome.bind_ok, h1]
      exact h2
  · -- inside
    rw [wOctets_in lb ub ext s hoor] at hw
    have hupper : ub.getD I64MAXu ≤ U64_MAX := by
      cases ub with
      | none => decide
      | some u => exact hub u rfl
    by_cases c0 : ub.getD I64MAXu = 0
    · rw [if_pos c0] at hw
      injection hw with hw; subst hw
      have hs : s = [] := List.eq_nil_of_length_eq_zero (by omega)
      have := rd_pre ext post
      rw [this]; simp [c0, hs]
    · rw [if_neg c0] at hw
      by_cases cf : (lb.isSome && lb = ub && decide (ub.getD I64MAXu < Consts.LENGTH_64K)) = true
      · rw [if_pos cf, octBody_none] at hw
        injection hw with hw; subst hw
        have hlen : ub.getD I64MAXu = s.length := by
          simp only [Bool.and_eq_true, decide_eq_true_eq] at cf
          obtain ⟨⟨h1, h2⟩, _⟩ := cf
          subst h2
          cases lb with
          | none => simp at h1
          | some l => simp at hoor ⊢; omega
        have := rd_pre ext (bytesBits s ++ post)
        simp only [List.append_assoc, List.append_nil] at this ⊢
        rw [this]
        simp only [Outcome.bind_ok, Bool.false_eq_true, if_false, c0, cf, if_true]
        rw [hlen]; exact octRBody_plain s false post (Or.inl rfl)
      · rw [if_neg cf] at hw
        cases hwl : wLen lb ub s.length with
        | err k => rw [hwl] at hw; cases hw
        | panic => rw [hwl] at hw; cases hw
        | ok p =>
          obtain ⟨hdr, f⟩ := p
          rw [hwl] at hw
          simp only [Outcome.bind_ok] at hw
          by_cases hs : (lb.isSome || ub.isSome) = true
          · have hf := wLen_bounded_none lb ub _ hdr f hs hwl
            subst hf
            rw [octBody_none] at hw
            injection hw with hw; subst hw
            have hrl := rLen_wLen lb ub s.length hdr (bytesBits s ++ post) hwl (by omega) (by omega)
              (by omega)
            have := rd_pre ext (hdr ++ (bytesBits s ++ post))
            simp only [List.append_assoc] at this ⊢
            rw [this]
            simp only [Outcome.bind_ok, Bool.false_eq_true, if_false, c0, cf, hrl]
            have hfr : (lb.isNone && ub.isNone) = false := by
              cases lb <;> cases ub <;> simp_all
            rw [hfr]; exact octRBody_plain s false post (Or.inl rfl)
          · have hl : lb = none := by cases lb <;> simp_all
            have hu : ub = none := by cases ub <;> simp_all
            subst hl; subst hu
            rw [wLen_unc'] at hwl
            obtain ⟨e1, e2⟩ := ok_pair_inj hwl
            subst e1; subst e2
            rw [octBody_unc] at hw
            injection hw with hw; subst hw
            obtain ⟨N, R, h1, h2⟩ := rOct_unc s post
            have := rd_pre ext (X691.fragU bytesBits s ++ post)
            simp only [List.append_assoc] at this ⊢
            rw [this]
            simp only [Outcome.bind_ok, Bool.false_eq_true, if_false, c0, h1]
            exact h2

theorem good_octRBody (n : Nat) (frag : Bool) (r : Bits) : Good r (octRBody n frag r) := by
  unfold octRBody
  refine Good.bind (good_rdBits _ r) (fun data r' _ _ => ?_)
  exact Good.ite (fun _ => good_rOctFrag _ r' rfl _) (fun _ => good_ok _ (List.suffix_refl r'))

theorem good_rOctets (lb ub : Option Nat) (ext : Bool) (bs : Bits) :
    Good bs (rOctets lb ub ext bs) := by
  rw [rOctets_eq]
  have h0 : Good bs (if ext = true then rdBit bs else ok (false, bs)) :=
    Good.ite (fun _ => good_rdBit bs) (fun _ => good_ok _ (List.suffix_refl bs))
  refine Good.bind h0 (fun b r0 _ _ => ?_)
  refine Good.ite (fun _ => ?_) (fun _ => Good.ite (fun _ => good_ok _ (List.suffix_refl r0))
    (fun _ => Good.ite (fun _ => good_octRBody _ _ r0) (fun _ => ?_)))
  · exact Good.bind (good_rLen _ _ r0) (fun n r1 _ _ => good_octRBody _ _ r1)
  · exact Good.bind (good_rLen _ _ r0) (fun n r1 _ _ => good_octRBody _ _ r1)

end Asn1Verif.Per
