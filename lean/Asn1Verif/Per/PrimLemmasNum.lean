import Asn1Verif.Per.PrimLemmasBits
import Asn1Verif.X691.Prim
/-
  The whole-number primitives of `Per/Prim.lean` against `X691/Prim.lean`:
  non-negative-binary-integer, length determinant, 2's complement, constrained / semi-constrained /
  unconstrained / normally small whole numbers, enumeration index.
  For each: what the writer produces, what the reader makes of it, when the writer refuses, and
  `Good` (no panic, no over-read) for the reader on arbitrary input.
-/
namespace Asn1Verif.Per
open Asn1Verif Outcome

/-- the region where `write/read_length_determinant` deviate from X.691 11.9.4.2 (known finding
    F-64k): some bound is given and the upper bound (default `i64::MAX`) is at least 64K -/
def LenDeviates (lb ub : Option Nat) : Prop :=
  (lb.isSome ∨ ub.isSome) ∧ ub.getD I64MAXu ≥ 65536

instance (lb ub : Option Nat) : Decidable (LenDeviates lb ub) :=
  inferInstanceAs (Decidable (_ ∧ _))

/-! ### 11.3 non-negative-binary-integer in a field (`lb` or `ub` given) -/

theorem wNNBIc_ok (lb ub : Option Nat) (v : Nat) (h1 : lb.getD 0 ≤ v) (h2 : v ≤ ub.getD I64MAXu) :
    wNNBIc lb ub v = ok (natBits (bitWidth (ub.getD I64MAXu - lb.getD 0)) (v - lb.getD 0)) := by
  unfold wNNBIc
  have : ¬ (v < lb.getD 0 ∨ v > ub.getD I64MAXu) := by omega
  simp only [this, if_false]

theorem wNNBIc_err (lb ub : Option Nat) (v : Nat) (h : v < lb.getD 0 ∨ ub.getD I64MAXu < v) :
    wNNBIc lb ub v = err .valueNotInRange := by
  unfold wNNBIc
  have : v < lb.getD 0 ∨ v > ub.getD I64MAXu := h
  simp only [this, if_true]

theorem rNNBIc_rt (lb ub : Option Nat) (v : Nat) (post : Bits) (h1 : lb.getD 0 ≤ v)
    (h2 : v ≤ ub.getD I64MAXu) (hv : v ≤ U64_MAX) :
    rNNBIc lb ub (natBits (bitWidth (ub.getD I64MAXu - lb.getD 0)) (v - lb.getD 0) ++ post)
      = ok (v, post) := by
  simp only [rNNBIc]
  rw [rdNat_append _ _ (natBits_length _ _), bitsToNat_natBits_bitWidth (by omega)]
  simp only [Outcome.bind_ok]
  have e : lb.getD 0 + (v - lb.getD 0) = v := by omega
  rw [e, if_neg (by omega)]

/-- the field of a range `0 … range` -/
theorem wNNBIc_field (range v : Nat) (h : v ≤ range) :
    wNNBIc none (some range) v = ok (natBits (bitWidth range) v) := by
  have := wNNBIc_ok none (some range) v (Nat.zero_le _) h
  simpa using this

theorem rNNBIc_field (range v : Nat) (post : Bits) (h : v ≤ range) (hr : range ≤ U64_MAX) :
    rNNBIc none (some range) (natBits (bitWidth range) v ++ post) = ok (v, post) := by
  have := rNNBIc_rt none (some range) v post (Nat.zero_le _) h (Nat.le_trans h hr)
  simpa using this

theorem good_rNNBIc (lb ub : Option Nat) (bs : Bits) : Good bs (rNNBIc lb ub bs) := by
  simp only [rNNBIc]
  refine Good.bind (good_rdNat _ bs) (fun v r _ hr => ?_)
  exact Good.ite (fun _ => good_err _ _) (fun _ => good_ok _ (List.suffix_refl r))

/-! ### 11.9 length determinant -/

/-- the unconstrained form, for every `v` -/
theorem wLen_unc (v : Nat) : wLen none none v = ok (X691.lenU v) := by
  unfold wLen X691.lenU
  simp only [Option.isSome_none, Bool.or_self, Bool.false_and, Bool.false_eq_true, if_false,
    c_LENGTH_127, c_LENGTH_16K, c_MAX_FRAGMENTS]
  by_cases h1 : v ≤ 127
  · simp only [h1, if_true]
    rw [wNNBIc_field 127 v h1]; simp
  · simp only [h1, if_false]
    by_cases h2 : v < 16384
    · simp only [h2, if_true]
      rw [wNNBIc_field (16384 - 1) v (by omega)]; simp
    · simp only [h2, if_false]

theorem rLen_unc (v : Nat) (post : Bits) :
    rLen none none ((X691.lenU v).1 ++ post) = ok ((X691.lenU v).2.getD v, post) := by
  unfold X691.lenU
  simp only [rLen, Option.isSome_none, Bool.or_self, Bool.false_and, Bool.false_eq_true, if_false,
    c_LENGTH_127, c_LENGTH_16K, c_MAX_FRAGMENTS]
  by_cases h1 : v ≤ 127
  · simp only [h1, if_true, List.cons_append, rdBit_cons, Outcome.bind_ok, Bool.not_false]
    have := rNNBIc_field 127 v post h1 (by decide)
    simpa using this
  · simp only [h1, if_false]
    by_cases h2 : v < 16384
    · simp only [h2, if_true, List.cons_append, rdBit_cons, Outcome.bind_ok, Bool.not_true,
        Bool.not_false, Bool.false_eq_true, if_false]
      have := rNNBIc_field (16384 - 1) v post (by omega) (by decide)
      simpa using this
    · simp only [h2, if_false, List.cons_append, rdBit_cons, Outcome.bind_ok, Bool.not_true,
        Bool.false_eq_true, if_false]
      rw [rdNat_natBits]
      simp only [Outcome.bind_ok, Option.getD_some]
      have hm : min (v / 16384) 4 % 2 ^ 6 = min (v / 16384) 4 := Nat.mod_eq_of_lt (by omega)
      rw [hm]
      have : min (min (v / 16384) 4) 4 = min (v / 16384) 4 := by omega
      rw [this, Nat.mul_comm]

/-- the constrained form `ub < 64K` -/
theorem wLen_con (lb : Option Nat) (u v : Nat) (hu : u < 65536) (h1 : lb.getD 0 ≤ v) (h2 : v ≤ u) :
    wLen lb (some u) v = ok (X691.constrainedNat (lb.getD 0) u v, none) := by
  unfold wLen
  have c1 : ¬ u ≥ 65536 := by omega
  have c2 : u ≤ 65536 := by omega
  simp only [Option.isSome_some, Bool.or_true, Bool.true_and, Option.getD_some, c_LENGTH_64K,
    decide_eq_true_eq, c1, c2, if_false, if_true]
  rw [wNNBIc_ok lb (some u) v h1 h2]
  simp only [Outcome.bind_ok, Option.getD_some, X691.constrainedNat, X691.offsetField]
  by_cases hr : u - lb.getD 0 = 0
  · have : v - lb.getD 0 = 0 := by omega
    simp [hr, bitWidth_zero]
  · simp [hr]

theorem wLen_con_err (lb : Option Nat) (u v : Nat) (hu : u < 65536) (h : v < lb.getD 0 ∨ u < v) :
    wLen lb (some u) v = err .valueNotInRange := by
  unfold wLen
  have c1 : ¬ u ≥ 65536 := by omega
  have c2 : u ≤ 65536 := by omega
  simp only [Option.isSome_some, Bool.or_true, Bool.true_and, Option.getD_some, c_LENGTH_64K,
    decide_eq_true_eq, c1, c2, if_false, if_true]
  rw [wNNBIc_err lb (some u) v (by simpa using h)]
  rfl

theorem rLen_con (lb : Option Nat) (u v : Nat) (post : Bits) (hu : u < 65536) (h1 : lb.getD 0 ≤ v)
    (h2 : v ≤ u) :
    rLen lb (some u) (X691.constrainedNat (lb.getD 0) u v ++ post) = ok (v, post) := by
  have c1 : ¬ u ≥ 65536 := by omega
  have c2 : u ≤ 65536 := by omega
  simp only [rLen, Option.isSome_some, Bool.or_true, Bool.true_and, Option.getD_some, c_LENGTH_64K,
    decide_eq_true_eq, c1, c2, if_false, if_true]
  have hv : v ≤ U64_MAX := by rw [U64_MAX_eq]; omega
  have := rNNBIc_rt lb (some u) v post h1 h2 hv
  simp only [Option.getD_some] at this
  simp only [X691.constrainedNat, X691.offsetField]
  by_cases hr : u - lb.getD 0 = 0
  · rw [hr, bitWidth_zero] at this
    simpa [hr] using this
  · simpa [hr] using this

/-- `X691.len` outside the deviating region, in one statement (with the announced fragment) -/
theorem wLen_pattern (lb ub : Option Nat) (v : Nat) (hd : ¬ LenDeviates lb ub)
    (h1 : lb.getD 0 ≤ v) (h2 : ∀ u, ub = some u → v ≤ u) :
    wLen lb ub v = ok (X691.len lb ub v) := by
  cases ub with
  | none =>
    cases lb with
    | none => simpa [X691.len] using wLen_unc v
    | some l => exact absurd ⟨Or.inl rfl, by simp [I64MAXu_eq]⟩ hd
  | some u =>
    have hu : u < 65536 := by
      apply Nat.lt_of_not_le; intro hge
      exact hd ⟨Or.inr rfl, by simpa using hge⟩
    simp only [X691.len, hu, if_true]
    exact wLen_con lb u v hu h1 (h2 u rfl)

theorem rLen_pattern (lb ub : Option Nat) (v : Nat) (post : Bits) (hd : ¬ LenDeviates lb ub)
    (h1 : lb.getD 0 ≤ v) (h2 : ∀ u, ub = some u → v ≤ u) :
    rLen lb ub ((X691.len lb ub v).1 ++ post) = ok ((X691.len lb ub v).2.getD v, post) := by
  cases ub with
  | none =>
    cases lb with
    | none => simpa [X691.len] using rLen_unc v post
    | some l => exact absurd ⟨Or.inl rfl, by simp [I64MAXu_eq]⟩ hd
  | some u =>
    have hu : u < 65536 := by
      apply Nat.lt_of_not_le; intro hge
      exact hd ⟨Or.inr rfl, by simpa using hge⟩
    simp only [X691.len, hu, if_true, Option.getD_none]
    exact rLen_con lb u v post hu h1 (h2 u rfl)

/-- inadmissible lengths are refused outside the deviating region (the unconstrained form admits
    every length, so only the constrained form can refuse) -/
theorem wLen_rejects (lb ub : Option Nat) (v : Nat) (hd : ¬ LenDeviates lb ub)
    (h : v < lb.getD 0 ∨ ∃ u, ub = some u ∧ u < v) : ∃ k, wLen lb ub v = err k := by
  cases ub with
  | none =>
    cases lb with
    | none => simp at h
    | some l => exact absurd ⟨Or.inl rfl, by simp [I64MAXu_eq]⟩ hd
  | some u =>
    have hu : u < 65536 := by
      apply Nat.lt_of_not_le; intro hge
      exact hd ⟨Or.inr rfl, by simpa using hge⟩
    refine ⟨_, wLen_con_err lb u v hu ?_⟩
    rcases h with h | ⟨u', hu', h⟩
    · exact Or.inl h
    · cases hu'; exact Or.inr h

theorem ok_pair_inj {α β : Type} {a b : α} {c d : β}
    (h : (ok (a, c) : Outcome (α × β)) = ok (b, d)) : a = b ∧ c = d := by
  injection h with h; injection h with h1 h2; exact ⟨h1, h2⟩

/-- branch selection: the deviating region -/
theorem wLen_dev (lb ub : Option Nat) (v : Nat) (hs : (lb.isSome || ub.isSome) = true)
    (c1 : ub.getD I64MAXu ≥ 65536) :
    wLen lb ub v = if lb = ub then ok ([], none)
      else if v < lb.getD 0 then err .valueNotInRange
      else (wNNBIc lb ub v >>= fun b => ok (b, none)) := by
  unfold wLen
  simp only [hs, Bool.true_and, c_LENGTH_64K, ge_iff_le, c1, decide_true, if_true]

/-- in the deviating region lengths outside non-degenerate bounds are still refused -/
theorem wLen_dev_rejects (lb ub : Option Nat) (v : Nat) (hs : (lb.isSome || ub.isSome) = true)
    (c1 : ub.getD I64MAXu ≥ 65536) (hne : lb ≠ ub) (h : v < lb.getD 0 ∨ ub.getD I64MAXu < v) :
    wLen lb ub v = err .valueNotInRange := by
  rw [wLen_dev lb ub v hs c1, if_neg hne]
  by_cases hl : v < lb.getD 0
  · rw [if_pos hl]
  · rw [if_neg hl, wNNBIc_err lb ub v h]; rfl

theorem rLen_dev (lb ub : Option Nat) (bs : Bits) (hs : (lb.isSome || ub.isSome) = true)
    (c1 : ub.getD I64MAXu ≥ 65536) :
    rLen lb ub bs = if lb = ub then ok (lb.getD 0, bs) else rNNBIc lb ub bs := by
  simp only [rLen, hs, Bool.true_and, c_LENGTH_64K, ge_iff_le, c1, decide_true, if_true]

/-- branch selection: the constrained form -/
theorem wLen_lt64K (lb : Option Nat) (u v : Nat) (hu : u < 65536) :
    wLen lb (some u) v = (wNNBIc lb (some u) v >>= fun b => ok (b, none)) := by
  unfold wLen
  have c1 : ¬ 65536 ≤ u := by omega
  have c2 : u ≤ 65536 := by omega
  simp only [Option.isSome_some, Bool.or_true, Bool.true_and, Option.getD_some, c_LENGTH_64K,
    ge_iff_le, c1, c2, decide_false, decide_true, Bool.false_eq_true, if_false, if_true]

theorem rLen_lt64K (lb : Option Nat) (u : Nat) (bs : Bits) (hu : u < 65536) :
    rLen lb (some u) bs = rNNBIc lb (some u) bs := by
  have c1 : ¬ 65536 ≤ u := by omega
  have c2 : u ≤ 65536 := by omega
  simp only [rLen, Option.isSome_some, Bool.or_true, Bool.true_and, Option.getD_some, c_LENGTH_64K,
    ge_iff_le, c1, c2, decide_false, decide_true, Bool.false_eq_true, if_false, if_true]

/-- self-consistency in *every* region (so also where the bit pattern deviates): whatever the
    writer produced without announcing a fragment, the reader reads back, provided the value is
    inside the bounds (for the degenerate `lb = ub ≥ 64K` the writer writes nothing and does not
    look at the value, the reader answers `lb`) -/
theorem rLen_wLen (lb ub : Option Nat) (v : Nat) (bits post : Bits)
    (hw : wLen lb ub v = ok (bits, none)) (h1 : lb.getD 0 ≤ v) (h2 : v ≤ ub.getD I64MAXu)
    (hv : v ≤ U64_MAX) : rLen lb ub (bits ++ post) = ok (v, post) := by
  have hrt := rNNBIc_rt lb ub v post h1 h2 hv
  have hwn := wNNBIc_ok lb ub v h1 h2
  by_cases hs : (lb.isSome || ub.isSome) = true
  · by_cases c1 : ub.getD I64MAXu ≥ 65536
    · rw [wLen_dev lb ub v hs c1] at hw
      rw [rLen_dev lb ub _ hs c1]
      by_cases c2 : lb = ub
      · rw [if_pos c2] at hw ⊢
        have hb : bits = [] := by injection hw with hw; injection hw with hb _; exact hb.symm
        subst hb; subst c2
        cases lb with
        | none => simp at hs
        | some l =>
          have : l = v := by simp at h1 h2; omega
          simp [this]
      · have c3 : ¬ v < lb.getD 0 := by omega
        rw [if_neg c2, if_neg c3, hwn] at hw
        rw [if_neg c2]
        simp only [Outcome.bind_ok] at hw
        obtain ⟨hb, _⟩ := ok_pair_inj hw
        rw [← hb]; exact hrt
    · cases ub with
      | none => exact absurd (by simp [I64MAXu_eq]) c1
      | some u =>
        have hu : u < 65536 := by simpa using c1
        rw [wLen_lt64K lb u v hu, hwn] at hw
        rw [rLen_lt64K lb u _ hu]
        simp only [Outcome.bind_ok] at hw
        obtain ⟨hb, _⟩ := ok_pair_inj hw
        rw [← hb]; exact hrt
  · have hl : lb = none := by cases lb <;> simp_all
    have hu : ub = none := by cases ub <;> simp_all
    subst hl; subst hu
    rw [wLen_unc] at hw
    have e := rLen_unc v post
    have hb : (X691.lenU v) = (bits, none) := by injection hw
    rw [hb] at e; simpa using e

theorem good_rLen (lb ub : Option Nat) (bs : Bits) : Good bs (rLen lb ub bs) := by
  simp only [rLen]
  refine Good.ite (fun _ => Good.ite (fun _ => good_ok _ (List.suffix_refl bs))
    (fun _ => good_rNNBIc lb ub bs)) (fun _ => Good.ite (fun _ => good_rNNBIc lb ub bs) (fun _ => ?_))
  refine Good.bind (good_rdBit bs) (fun b0 r0 _ _ => ?_)
  refine Good.ite (fun _ => good_rNNBIc _ _ r0) (fun _ => ?_)
  refine Good.bind (good_rdBit r0) (fun b1 r1 _ _ => ?_)
  refine Good.ite (fun _ => good_rNNBIc _ _ r1) (fun _ => ?_)
  refine Good.bind (good_rdNat 6 r1) (fun m r2 _ _ => ?_)
  exact good_ok _ (List.suffix_refl r2)

/-- the unconstrained length determinant consumes at least one bit -/
theorem rLen_unc_consumes {bs r : Bits} {n : Nat} (h : rLen none none bs = ok (n, r)) :
    r.length < bs.length := by
  simp only [rLen, Option.isSome_none, Bool.or_self, Bool.false_and, Bool.false_eq_true,
    if_false] at h
  cases hb : rdBit bs with
  | ok p =>
    obtain ⟨b0, r0⟩ := p
    have hl := rdBit_ok_length hb
    rw [hb] at h
    simp only [Outcome.bind_ok] at h
    have hg : Good r0 (ok (n, r)) := by
      rw [← h]
      refine Good.ite (fun _ => good_rNNBIc _ _ r0) (fun _ => ?_)
      refine Good.bind (good_rdBit r0) (fun b1 r1 _ _ => ?_)
      refine Good.ite (fun _ => good_rNNBIc _ _ r1) (fun _ => ?_)
      refine Good.bind (good_rdNat 6 r1) (fun m r2 _ _ => ?_)
      exact good_ok _ (List.suffix_refl r2)
    have := suffix_length_le (hg.2 n r rfl)
    omega
  | err k => rw [hb] at h; cases h
  | panic => rw [hb] at h; cases h

end Asn1Verif.Per
