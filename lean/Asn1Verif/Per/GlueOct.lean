import Asn1Verif.Per.GlueWrite
import Asn1Verif.Per.GlueRead
import Asn1Verif.Per.PrimLemmasStr
/-
  Glue, part 4: OCTET STRING at byte level, including the 16K fragmentation loops of
  `write_octetstring` / `read_octetstring` and the chunked read `read_bytes_chunked`.
-/
namespace Asn1Verif.Per.Glue
open Asn1Verif Asn1Verif.Bits Asn1Verif.Per Outcome

/-! ### writing -/

theorem slice_ok (src : List Byte) (a c : Nat) (h1 : a ≤ c) (h2 : c ≤ src.length) :
    Concrete.slice src a c = ok ((src.drop a).take (c - a)) := by
  unfold Concrete.slice
  rw [if_pos ⟨h1, h2⟩]

theorem slice_panic (src : List Byte) (a c : Nat) (h : ¬ (a ≤ c ∧ c ≤ src.length)) :
    Concrete.slice src a c = panic := by
  unfold Concrete.slice
  rw [if_neg h]

/-- the `written_bytes` loop of `write_octetstring` is `Per.wOctFrag` on the bytes not yet written -/
theorem wOctLoop_refines (src : List Byte) : ∀ (n written : Nat) (b : BitBuffer),
    src.length - written = n → written ≤ src.length → b.Inv →
    WRel b (Per.wOctFrag (src.drop written)) (Concrete.wOctLoop src written b) := by
  intro n
  induction n using Nat.strongRecOn with
  | _ n ih =>
    intro written b hn hle h
    rw [Per.wOctFrag, Concrete.wOctLoop]
    simp only [List.length_drop, uSub, hle, if_true]
    have hL := wLen_refines none none (src.length - written) b h (by decide)
    cases hm : Per.wLen none none (src.length - written) with
    | ok p =>
      obtain ⟨lbits, f⟩ := p
      rw [hm] at hL
      obtain ⟨b1, e1, i1, a1, r1⟩ := hL
      rw [e1]
      simp only []
      generalize hfs : f.getD (src.length - written) = fs
      by_cases hfit : fs ≤ src.length - written
      · rw [if_pos hfit, slice_ok src written (written + fs) (by omega) (by omega)]
        simp only [Nat.add_sub_cancel_left]
        obtain ⟨b2, e2, i2, a2, r2⟩ := writeBits_abs b1 ((src.drop written).take fs) i1
        rw [e2]
        simp only []
        by_cases hmin : fs < Consts.MIN_FRAGMENT_SIZE
        · rw [dif_pos hmin, dif_pos hmin]
          exact ⟨b2, rfl, i2, by rw [a2, a1, List.append_assoc], by rw [r2, r1]⟩
        · rw [dif_neg hmin, dif_neg hmin, dif_pos (show written + fs ≤ src.length by omega),
            List.drop_drop]
          have hpos : 0 < Consts.MIN_FRAGMENT_SIZE := by decide
          have hrec := ih (src.length - (written + fs)) (by omega) (written + fs) b2 rfl
            (by omega) i2
          cases hw : Per.wOctFrag (src.drop (written + fs)) with
          | ok more =>
            rw [hw] at hrec
            obtain ⟨b3, e3, i3, a3, r3⟩ := hrec
            refine ⟨b3, e3, i3, ?_, by rw [r3, r2, r1]⟩
            rw [a3, a2, a1]; simp only [List.append_assoc]
          | err k => rw [hw] at hrec; exact hrec
          | panic => rw [hw] at hrec; exact hrec
      · rw [if_neg hfit, slice_panic src written (written + fs) (by omega)]
        rfl
    | err k => rw [hm] at hL; have : Concrete.wLen none none _ b = err k := hL; rw [this]; rfl
    | panic => rw [hm] at hL; have : Concrete.wLen none none _ b = panic := hL; rw [this]; rfl

/-- the tail of `write_octetstring` after `pre ++ hdr` has been appended -/
theorem wOctBody_refines (src : List Byte) (pre hdr : Bits) (fragment : Option Nat)
    (b b1 : BitBuffer) (i1 : b1.Inv) (a1 : b1.abs = b.abs ++ (pre ++ hdr)) (r1 : b1.rp = b.rp) :
    WRel b (Per.octBody pre src hdr fragment) (Concrete.wOctBody src fragment b1) := by
  unfold Per.octBody Concrete.wOctBody
  simp only []
  by_cases hf : fragment.getD src.length ≤ src.length
  · rw [if_pos hf, slice_ok src 0 _ (Nat.zero_le _) hf]
    simp only [Outcome.bind_ok, List.drop_zero, Nat.sub_zero]
    obtain ⟨b2, e2, i2, a2, r2⟩ := writeBits_abs b1 (src.take (fragment.getD src.length)) i1
    rw [e2]
    simp only [Outcome.bind_ok]
    cases fragment with
    | none =>
      exact ⟨b2, rfl, i2, by rw [a2, a1]; simp, by rw [r2, r1]⟩
    | some w =>
      simp only [Option.getD_some] at hf a2 ⊢
      exact WRel.pre (pre := pre ++ hdr ++ bytesBits (src.take w))
        (by rw [a2, a1]; simp) (by rw [r2, r1]) (wOctLoop_refines src _ w b2 rfl hf i2)
  · rw [if_neg hf, slice_panic src 0 _ (by omega)]
    rfl

theorem writeExt_abs (b : BitBuffer) (h : b.Inv) (ext x : Bool) :
    ∃ b1, (if ext then b.writeBit x else ok b) = ok b1 ∧ b1.Inv ∧
      b1.abs = b.abs ++ (if ext then [x] else []) ∧ b1.rp = b.rp := by
  cases ext with
  | true => simpa using BitBuffer.writeBit_abs b x h
  | false => exact ⟨b, rfl, h, by simp, rfl⟩

/-- a length determinant followed by the tail -/
theorem wLen_body_refines (lb ub : Option Nat) (src : List Byte) (pre : Bits) (b b1 : BitBuffer)
    (hub : ub.getD I64MAXu ≤ U64_MAX)
    (i1 : b1.Inv) (a1 : b1.abs = b.abs ++ pre) (r1 : b1.rp = b.rp) :
    WRel b (Per.wLen lb ub src.length >>= fun p => Per.octBody pre src p.1 p.2)
      (Concrete.wLen lb ub src.length b1 >>= fun p => Concrete.wOctBody src p.1 p.2) := by
  have hL := wLen_refines lb ub src.length b1 i1 hub
  cases hm : Per.wLen lb ub src.length with
  | ok p =>
    obtain ⟨hdr, f⟩ := p
    rw [hm] at hL
    obtain ⟨b2, e2, i2, a2, r2⟩ := hL
    rw [e2]
    exact wOctBody_refines src pre hdr f b b2 i2 (by rw [a2, a1, List.append_assoc])
      (by rw [r2, r1])
  | err k => rw [hm] at hL; have : Concrete.wLen lb ub _ b1 = err k := hL; rw [this]; rfl
  | panic => rw [hm] at hL; have : Concrete.wLen lb ub _ b1 = panic := hL; rw [this]; rfl

theorem wOctets_refines (lb ub : Option Nat) (ext : Bool) (src : List Byte) (b : BitBuffer)
    (h : b.Inv) (hub : ub.getD I64MAXu ≤ U64_MAX) :
    WRel b (Per.wOctets lb ub ext src) (Concrete.wOctets lb ub ext src b) := by
  rw [Per.wOctets_eq]
  unfold Concrete.wOctets
  simp only []
  generalize decide (src.length < lb.getD 0 ∨ src.length > ub.getD I64MAXu) = oor
  obtain ⟨b1, e1, i1, a1, r1⟩ := writeExt_abs b h ext oor
  rw [e1]
  simp only [Outcome.bind_ok]
  cases oor with
  | true =>
    simp only [if_true]
    cases ext with
    | false => simp only [Bool.false_eq_true, if_false]; rfl
    | true =>
      simp only [if_true] at a1 ⊢
      exact wLen_body_refines none none src [true] b b1 (by decide) i1 a1 r1
  | false =>
    simp only [Bool.false_eq_true, if_false]
    split
    · exact ⟨b1, rfl, i1, a1, r1⟩
    · split
      · exact wOctBody_refines src _ [] none b b1 i1 (by rw [a1]; simp) r1
      · exact wLen_body_refines lb ub src _ b b1 hub i1 a1 r1

/-! ### reading -/

theorem bitsBytes_bytesBits_append (s : List Byte) (B : Bits) :
    bitsBytes (bytesBits s ++ B) = s ++ bitsBytes B := by
  induction s with
  | nil => rfl
  | cons x r ih =>
    rw [bitsBytes]
    have hne : ¬ (bytesBits (x :: r) ++ B).isEmpty = true := by simp [bytesBits, natBits]
    rw [dif_neg hne]
    simp only [bytesBits, List.append_assoc]
    have h8 : (natBits 8 x.toNat).length = 8 := natBits_length _ _
    rw [List.take_left' h8, List.drop_left' h8, ih, bitsToNat_natBits]
    simp only [List.cons_append, List.cons.injEq, and_true]
    apply BitVec.eq_of_toNat_eq
    simp [Nat.mod_eq_of_lt x.isLt]

/-- `read_bytes_chunked`: whatever the chunk size, `n` whole bytes are appended to the buffer, or
    the input is too short (end of stream) -/
theorem readBytesChunked_spec (chunk : Nat) (hc : 0 < chunk) : ∀ (n : Nat) (v : BitsView)
    (buffer : List Byte), v.Inv →
    ((remaining v).length < 8 * n ∧
      Concrete.readBytesChunked chunk v buffer n = err .endOfStream) ∨
    (8 * n ≤ (remaining v).length ∧ ∃ v',
      Concrete.readBytesChunked chunk v buffer n =
        ok (buffer ++ bitsBytes ((remaining v).take (8 * n)), v') ∧
      v'.slice = v.slice ∧ v'.len = v.len ∧ v'.Inv ∧
      remaining v' = (remaining v).drop (8 * n)) := by
  intro n
  induction n using Nat.strongRecOn with
  | _ n ih =>
    intro v buffer h
    rw [Concrete.readBytesChunked]
    by_cases hn : n = 0
    · subst hn
      right
      refine ⟨by omega, v, ?_, rfl, rfl, h, by simp⟩
      simp [bitsBytes_nil]
    · have hcond : ¬ (n = 0 ∨ chunk = 0) := by omega
      rw [dif_neg hcond]
      simp only [List.drop_left, List.take_left]
      have hc1 : 1 ≤ min n chunk := by omega
      have hcn : min n chunk ≤ n := Nat.min_le_left _ _
      rcases readBits_zero v h (min n chunk) with
        ⟨hlt, herr⟩ | ⟨hge, dst', v1, e1, hs, hl, hi, hrem, hlen, hbits⟩
      · left
        refine ⟨by omega, ?_⟩
        rw [herr]
      · rw [e1]
        simp only []
        rcases ih (n - min n chunk) (by omega) v1 (buffer ++ dst') hi with
          ⟨hlt2, herr2⟩ | ⟨hge2, v2, e2, hs2, hl2, hi2, hrem2⟩
        · left
          rw [hrem, List.length_drop] at hlt2
          exact ⟨by omega, herr2⟩
        · right
          rw [hrem, List.length_drop] at hge2
          refine ⟨by omega, v2, ?_, hs2.trans hs, hl2.trans hl, hi2, ?_⟩
          · rw [e2, hrem]
            have e : 8 * n = 8 * min n chunk + 8 * (n - min n chunk) := by omega
            rw [e, List.take_add, ← hbits, bitsBytes_bytesBits_append, List.append_assoc]
          · rw [hrem2, hrem, List.drop_drop]
            congr 1; omega

/-- the fragment loop of `read_octetstring` is `Per.rOctFrag` -/
theorem rOctLoop_refines : ∀ (n : Nat) (v : BitsView) (acc : List Byte),
    v.len - v.pos = n → v.Inv →
    RRel v (Per.rOctFrag acc (remaining v)) (Concrete.rOctLoop acc v) := by
  intro n
  induction n using Nat.strongRecOn with
  | _ n ih =>
    intro v acc hn h
    rw [Per.rOctFrag, Concrete.rOctLoop]
    have hL := rLen_refines none none v h (by decide)
    cases hm : Per.rLen none none (remaining v) with
    | ok p =>
      obtain ⟨extLen, r⟩ := p
      rw [hm] at hL
      obtain ⟨v1, e1, hs1, hl1, hi1, hrem1⟩ := hL
      subst hrem1
      rw [e1]
      simp only [List.drop_left, List.take_left]
      rcases readBits_zero v1 hi1 extLen with
        ⟨hlt, herr⟩ | ⟨hge, dst', v2, e2, hs2, hl2, hi2, hrem2, hlen, hbits⟩
      · rw [herr]; simp only [Per.rdBits, if_pos hlt]; rfl
      · have hnl : ¬ (remaining v1).length < 8 * extLen := by omega
        rw [e2]; simp only [Per.rdBits, if_neg hnl]
        have hdata : bitsBytes ((remaining v1).take (8 * extLen)) = dst' := by
          rw [← hbits, bitsBytes_bytesBits]
        rw [hdata, ← hrem2]
        by_cases hlast : extLen < Consts.LENGTH_16K
        · simp only [hlast, if_true]
          exact ⟨v2, rfl, hs2.trans hs1, hl2.trans hl1, hi2, rfl⟩
        · simp only [hlast, if_false]
          by_cases hprog : (remaining v2).length < (remaining v).length
          · have hprog' : v2.len - v2.pos < v.len - v.pos := by simpa using hprog
            rw [dif_pos hprog, dif_pos hprog']
            exact RRel.of_view (hs2.trans hs1) (hl2.trans hl1)
              (ih (v2.len - v2.pos) (by omega) v2 (acc ++ dst') rfl hi2)
          · have hprog' : ¬ v2.len - v2.pos < v.len - v.pos := by simpa using hprog
            rw [dif_neg hprog, dif_neg hprog']
            rfl
    | err k => rw [hm] at hL; have : Concrete.rLen none none v = err k := hL; rw [this]; rfl
    | panic => rw [hm] at hL; have : Concrete.rLen none none v = panic := hL; rw [this]; rfl

theorem rOctBody_refines (byteLen : Nat) (frag : Bool) (v : BitsView) (h : v.Inv) :
    RRel v (Per.octRBody byteLen frag (remaining v)) (Concrete.rOctBody byteLen frag v) := by
  unfold Per.octRBody Concrete.rOctBody
  rcases readBytesChunked_spec Concrete.READ_CHUNK (by decide) byteLen v [] h with
    ⟨hlt, herr⟩ | ⟨hge, v1, e1, hs1, hl1, hi1, hrem1⟩
  · rw [herr]; simp only [Per.rdBits, if_pos hlt]; rfl
  · have hnl : ¬ (remaining v).length < 8 * byteLen := by omega
    rw [e1]; simp only [Per.rdBits, if_neg hnl, Outcome.bind_ok, List.nil_append]
    rw [← hrem1]
    split
    · exact RRel.of_view hs1 hl1 (rOctLoop_refines _ v1 _ rfl hi1)
    · exact ⟨v1, rfl, hs1, hl1, hi1, rfl⟩

theorem rOctets_refines (lb ub : Option Nat) (ext : Bool) (v : BitsView) (h : v.Inv)
    (hub : ub.getD I64MAXu ≤ U64_MAX) :
    RRel v (Per.rOctets lb ub ext (remaining v)) (Concrete.rOctets lb ub ext v) := by
  rw [Per.rOctets_eq]
  unfold Concrete.rOctets
  have hfirst : RRel v (if ext then rdBit (remaining v) else ok (false, remaining v))
      (if ext then v.readBit else ok (false, v)) := by
    cases ext with
    | true => exact readBit_refines v h
    | false => exact RRel.ok _ h
  refine RRel.bind hfirst (fun isExt v1 _ _ hi1 => ?_)
  cases isExt with
  | true =>
    simp only [if_true]
    refine RRel.bind (rLen_refines none none v1 hi1 (by decide)) (fun n v2 _ _ hi2 => ?_)
    exact rOctBody_refines n true v2 hi2
  | false =>
    simp only [Bool.false_eq_true, if_false]
    split
    · exact RRel.ok _ hi1
    · split
      · exact rOctBody_refines _ false v1 hi1
      · refine RRel.bind (rLen_refines lb ub v1 hi1 hub) (fun n v2 _ _ hi2 => ?_)
        exact rOctBody_refines n _ v2 hi2

end Asn1Verif.Per.Glue
