import Asn1Verif.Per.GlueBits
import Asn1Verif.Per.PrimLemmasNum
/-
  Glue, part 2: the byte-level writers of `Per/Concrete.lean` (on a `BitBuffer`) append exactly the
  bits the L1 writers of `Per/Prim.lean` return, preserve the buffer invariant, leave the read cursor
  alone, and fail exactly when (and how) the L1 writers fail.
-/
namespace Asn1Verif.Per.Glue
open Asn1Verif Asn1Verif.Bits Asn1Verif.Per Outcome

/-! ### the remaining L0 write entry points, on the abstraction -/

theorem writeBitsWithOffset_eq (b : BitBuffer) (src : List Byte) (off : Nat)
    (ho : off ≤ src.length * 8) :
    b.writeBitsWithOffset src off = b.writeBitsWithOffsetLen src off (src.length * 8 - off) := by
  unfold BitBuffer.writeBitsWithOffset BitBuffer.writeBitsWithOffsetLen sliceWriteBitsWithOffset failIf
  rw [byte_len_eq]
  have h1 : ¬ (src.length * 8 < off) := by omega
  have h2 : ¬ (src.length * 8 < off + (src.length * 8 - off)) := by omega
  simp only [h1, h2, decide_false, Bool.false_eq_true, ite_false, Outcome.bind_ok]

theorem writeBits_eq (b : BitBuffer) (src : List Byte) :
    b.writeBits src = b.writeBitsWithOffsetLen src 0 (src.length * 8) := by
  unfold BitBuffer.writeBits BitBuffer.writeBitsWithOffsetLen sliceWriteBits sliceWriteBitsWithOffset
    failIf
  rw [byte_len_eq]
  have h1 : ¬ (src.length * 8 < 0) := by omega
  have h2 : ¬ (src.length * 8 < 0 + src.length * 8) := by omega
  simp only [h1, h2, decide_false, Bool.false_eq_true, ite_false, Outcome.bind_ok, Nat.sub_zero]

/-- `write_bits_with_offset(src, off)` appends the bits of `src` from `off` to its end -/
theorem writeBitsWithOffset_abs (b : BitBuffer) (src : List Byte) (off : Nat) (h : b.Inv)
    (ho : off ≤ src.length * 8) :
    ∃ b', b.writeBitsWithOffset src off = ok b' ∧ b'.Inv ∧
      b'.abs = b.abs ++ bitsOf src off (src.length * 8 - off) ∧ b'.rp = b.rp := by
  rw [writeBitsWithOffset_eq b src off ho]
  exact BitBuffer.writeBitsWithOffsetLen_abs b src off _ h (by omega)

/-- `write_bits(src)` appends `bytesBits src` -/
theorem writeBits_abs (b : BitBuffer) (src : List Byte) (h : b.Inv) :
    ∃ b', b.writeBits src = ok b' ∧ b'.Inv ∧ b'.abs = b.abs ++ bytesBits src ∧ b'.rp = b.rp := by
  rw [writeBits_eq, bytesBits_eq_bitsOf, Nat.mul_comm 8]
  exact BitBuffer.writeBitsWithOffsetLen_abs b src 0 _ h (by omega)

/-! ### refinement relations -/

/-- the outcome `c` of a concrete writer started on `b` refines the outcome `m` of the L1 writer:
    success ↔ success with exactly the bits of `m` appended (invariant kept, read cursor untouched),
    same error class, panic ↔ panic -/
def WRel (b : BitBuffer) (m : Outcome Bits) (c : Outcome BitBuffer) : Prop :=
  match m with
  | .ok bits => ∃ b', c = ok b' ∧ b'.Inv ∧ b'.abs = b.abs ++ bits ∧ b'.rp = b.rp
  | .err k => c = err k
  | .panic => c = panic

/-- the same for a writer that also returns a value -/
def WRelV {α : Type} (b : BitBuffer) (m : Outcome (Bits × α)) (c : Outcome (α × BitBuffer)) : Prop :=
  match m with
  | .ok (bits, a) => ∃ b', c = ok (a, b') ∧ b'.Inv ∧ b'.abs = b.abs ++ bits ∧ b'.rp = b.rp
  | .err k => c = err k
  | .panic => c = panic

theorem WRel.nil {b : BitBuffer} (h : b.Inv) : WRel b (ok []) (ok b) :=
  ⟨b, rfl, h, by simp, rfl⟩

/-- bits already appended in front (`b → b1`), then a refined writer on `b1` -/
theorem WRel.pre {b b1 : BitBuffer} {pre : Bits} {m : Outcome Bits} {c : Outcome BitBuffer}
    (habs : b1.abs = b.abs ++ pre) (hrp : b1.rp = b.rp) (h : WRel b1 m c) :
    WRel b (m >>= fun bits => ok (pre ++ bits)) c := by
  cases m with
  | ok bits =>
    obtain ⟨b', h1, h2, h3, h4⟩ := h
    exact ⟨b', h1, h2, by rw [h3, habs, List.append_assoc], by rw [h4, hrp]⟩
  | err k => exact h
  | panic => exact h

theorem WRelV.pre {α : Type} {b b1 : BitBuffer} {pre : Bits} (a : α) {m : Outcome Bits}
    {c : Outcome BitBuffer} (habs : b1.abs = b.abs ++ pre) (hrp : b1.rp = b.rp) (h : WRel b1 m c) :
    WRelV b (m >>= fun bits => ok (pre ++ bits, a)) (c >>= fun b' => ok (a, b')) := by
  cases m with
  | ok bits =>
    obtain ⟨b', h1, h2, h3, h4⟩ := h
    refine ⟨b', by rw [h1]; rfl, h2, by rw [h3, habs, List.append_assoc], by rw [h4, hrp]⟩
  | err k => have : c = err k := h; rw [this]; rfl
  | panic => have : c = panic := h; rw [this]; rfl

/-! ### 11.3 non-negative-binary-integer, constrained case -/

theorem wNNBIc_refines (lb ub : Option Nat) (value : Nat) (b : BitBuffer) (h : b.Inv)
    (hub : ub.getD I64MAXu ≤ U64_MAX) :
    WRel b (Per.wNNBIc lb ub value) (Concrete.wNNBIc lb ub value b) := by
  unfold Per.wNNBIc Concrete.wNNBIc
  by_cases hr : value < lb.getD 0 ∨ value > ub.getD I64MAXu
  · simp only [hr, if_true]; rfl
  · simp only [hr, if_false]
    have h1 : lb.getD 0 ≤ ub.getD I64MAXu := by omega
    have h2 : lb.getD 0 ≤ value := by omega
    simp only [uSub, h1, h2, if_true, Outcome.bind_ok]
    obtain ⟨hz, hw⟩ := lz64_width (range := ub.getD I64MAXu - lb.getD 0) (by omega)
    obtain ⟨b', e1, e2, e3, e4⟩ := writeBitsWithOffset_abs b
      (Concrete.toBeBytes (value - lb.getD 0)) (lz64 (ub.getD I64MAXu - lb.getD 0)) h
      (by simpa using hz)
    refine ⟨b', e1, e2, ?_, e4⟩
    rw [e3, length_toBeBytes]
    have : 8 * 8 - lz64 (ub.getD I64MAXu - lb.getD 0) = bitWidth (ub.getD I64MAXu - lb.getD 0) := hw
    rw [this]
    have hz' : lz64 (ub.getD I64MAXu - lb.getD 0) = 64 - bitWidth (ub.getD I64MAXu - lb.getD 0) := rfl
    rw [hz', bitsOf_toBeBytes _ _ (by omega)]

/-! ### 11.9 length determinant -/

theorem wLen_refines (lb ub : Option Nat) (value : Nat) (b : BitBuffer) (h : b.Inv)
    (hub : ub.getD I64MAXu ≤ U64_MAX) :
    WRelV b (Per.wLen lb ub value) (Concrete.wLen lb ub value b) := by
  unfold Per.wLen Concrete.wLen
  simp only []
  split
  · -- some bound, upper ≥ 64K
    split
    · exact ⟨b, rfl, h, by simp, rfl⟩
    · split
      · rfl
      · exact WRelV.pre (pre := []) none (by simp) rfl (wNNBIc_refines lb ub value b h hub)
  · split
    · exact WRelV.pre (pre := []) none (by simp) rfl (wNNBIc_refines lb ub value b h hub)
    · split
      · obtain ⟨b1, e1, i1, a1, r1⟩ := BitBuffer.writeBit_abs b false h
        rw [e1]; simp only [Outcome.bind_ok]
        exact WRelV.pre (pre := [false]) none a1 r1
          (wNNBIc_refines none (some Consts.LENGTH_127) value b1 i1 (by decide))
      · split
        · obtain ⟨b1, e1, i1, a1, r1⟩ := BitBuffer.writeBit_abs b true h
          obtain ⟨b2, e2, i2, a2, r2⟩ := BitBuffer.writeBit_abs b1 false i1
          rw [e1]; simp only [Outcome.bind_ok]
          rw [e2]; simp only [Outcome.bind_ok]
          exact WRelV.pre (pre := [true, false]) none (by rw [a2, a1]; simp) (by rw [r2, r1])
            (wNNBIc_refines none (some (Consts.LENGTH_16K - 1)) value b2 i2 (by decide))
        · obtain ⟨b1, e1, i1, a1, r1⟩ := BitBuffer.writeBit_abs b true h
          obtain ⟨b2, e2, i2, a2, r2⟩ := BitBuffer.writeBit_abs b1 true i1
          obtain ⟨b3, e3, i3, a3, r3⟩ := writeBitsWithOffset_abs b2
            [BitVec.ofNat 8 (min (value / Consts.LENGTH_16K) Consts.MAX_FRAGMENTS)] 2 i2 (by simp)
          rw [e1]; simp only [Outcome.bind_ok]
          rw [e2]; simp only [Outcome.bind_ok]
          rw [e3]; simp only [Outcome.bind_ok]
          have hm : min (value / Consts.LENGTH_16K) Consts.MAX_FRAGMENTS ≤ 4 := by
            simp only [c_MAX_FRAGMENTS]; omega
          have hto : (BitVec.ofNat 8 (min (value / Consts.LENGTH_16K) Consts.MAX_FRAGMENTS)).toNat
              = min (value / Consts.LENGTH_16K) Consts.MAX_FRAGMENTS := by
            rw [BitVec.toNat_ofNat]; exact Nat.mod_eq_of_lt (Nat.lt_of_le_of_lt hm (by decide))
          rw [hto]
          refine ⟨b3, rfl, i3, ?_, by rw [r3, r2, r1]⟩
          rw [a3, a2, a1]
          have := bitsOf_singleton 6 (min (value / Consts.LENGTH_16K) Consts.MAX_FRAGMENTS) (by omega)
          simp only [List.length_cons, List.length_nil] at this ⊢
          rw [this]; simp

/-! ### 11.3 non-negative-binary-integer, general -/

theorem wNNBI_refines (lb ub : Option Nat) (value : Nat) (b : BitBuffer) (h : b.Inv)
    (hub : ub.getD I64MAXu ≤ U64_MAX) :
    WRel b (Per.wNNBI lb ub value) (Concrete.wNNBI lb ub value b) := by
  cases lb with
  | some l => exact wNNBIc_refines (some l) ub value b h hub
  | none =>
    cases ub with
    | some u => exact wNNBIc_refines none (some u) value b h hub
    | none =>
      simp only [Per.wNNBI, Concrete.wNNBI]
      have hoff : min (lz64 value / 8) 7 ≤ 8 := by omega
      simp only [uSub, hoff, if_true, Outcome.bind_ok]
      have hL := wLen_refines none none (8 - min (lz64 value / 8) 7) b h (by decide)
      cases hm : Per.wLen none none (8 - min (lz64 value / 8) 7) with
      | ok p =>
        obtain ⟨lbits, f⟩ := p
        rw [hm] at hL
        obtain ⟨b1, e1, i1, a1, r1⟩ := hL
        rw [e1]
        simp only [Outcome.bind_ok]
        obtain ⟨b2, e2, i2, a2, r2⟩ := writeBits_abs b1
          ((Concrete.toBeBytes value).drop (min (lz64 value / 8) 7)) i1
        refine ⟨b2, e2, i2, ?_, by rw [r2, r1]⟩
        have hd := bytesBits_toBeBytes_drop (8 - min (lz64 value / 8) 7) value (by omega)
        have e8 : 8 - (8 - min (lz64 value / 8) 7) = min (lz64 value / 8) 7 := by omega
        rw [e8] at hd
        rw [a2, a1, hd, List.append_assoc]
      | err k => rw [hm] at hL; have : Concrete.wLen none none _ b = err k := hL; rw [this]; rfl
      | panic => rw [hm] at hL; have : Concrete.wLen none none _ b = panic := hL; rw [this]; rfl

/-! ### 11.4 2's-complement-binary-integer -/

theorem w2s_refines (bitLen : Nat) (value : Int) (b : BitBuffer) (h : b.Inv) :
    WRel b (Per.w2s bitLen value) (Concrete.w2s bitLen value b) := by
  unfold Per.w2s Concrete.w2s
  simp only [toBeBytesI64_eq, length_toBeBytes, byte_len_eq, Nat.reduceMul]
  by_cases hr : bitLen = 0 ∨ bitLen > 64
  · simp only [hr, if_true]; rfl
  · simp only [hr, if_false]
    have hle : bitLen ≤ 64 := by omega
    simp only [uSub, hle, if_true, Outcome.bind_ok]
    obtain ⟨b', e1, e2, e3, e4⟩ := writeBitsWithOffset_abs b
      (Concrete.toBeBytes (i64AsU64 value)) (64 - bitLen) h (by simp)
    refine ⟨b', e1, e2, ?_, e4⟩
    rw [e3, length_toBeBytes]
    have : 8 * 8 - (64 - bitLen) = bitLen := by omega
    rw [this, bitsOf_toBeBytes _ _ hle]

/-! ### 11.5 constrained whole number -/

theorem wrappingSubAsU64_eq (a c : Int) (h : c ≤ a) (hl : I64_MIN ≤ c) (hu : a ≤ I64_MAX) :
    Concrete.wrappingSubAsU64 a c = (a - c).toNat := by
  unfold Concrete.wrappingSubAsU64 i64AsU64
  rw [I64_MIN_eq] at hl; rw [I64_MAX_eq] at hu
  have : (a - c) % 2 ^ 64 = a - c := by omega
  rw [this]

theorem wConstrained_refines (lb ub value : Int) (b : BitBuffer) (h : b.Inv)
    (hl : I64_MIN ≤ lb) (hu : ub ≤ I64_MAX) :
    WRel b (Per.wConstrained lb ub value) (Concrete.wConstrained lb ub value b) := by
  unfold Per.wConstrained Concrete.wConstrained
  by_cases hr : value < lb ∨ value > ub
  · simp only [hr, if_true]; rfl
  · simp only [hr, if_false]
    by_cases hlt : ub > lb
    · simp only [hlt, if_true]
      rw [wrappingSubAsU64_eq ub lb (by omega) hl hu,
        wrappingSubAsU64_eq value lb (by omega) hl (by omega)]
      refine wNNBI_refines none (some (ub - lb).toNat) _ b h ?_
      rw [I64_MIN_eq] at hl; rw [I64_MAX_eq] at hu
      simp only [Option.getD_some, U64_MAX_eq]; omega
    · simp only [hlt, if_false]
      exact WRel.nil h

/-! ### 11.6 normally small non-negative whole number -/

theorem wSmall_refines (value : Nat) (b : BitBuffer) (h : b.Inv) :
    WRel b (Per.wSmall value) (Concrete.wSmall value b) := by
  unfold Per.wSmall Concrete.wSmall
  by_cases hc : value ≥ Consts.SMALL_NON_NEGATIVE_NUMBER
  · simp only [hc, if_true, decide_true]
    obtain ⟨b1, e1, i1, a1, r1⟩ := BitBuffer.writeBit_abs b true h
    rw [e1]; simp only [Outcome.bind_ok]
    exact WRel.pre (pre := [true]) a1 r1 (wNNBI_refines none none value b1 i1 (by decide))
  · simp only [hc, if_false, decide_false]
    obtain ⟨b1, e1, i1, a1, r1⟩ := BitBuffer.writeBit_abs b false h
    rw [e1]; simp only [Outcome.bind_ok, Bool.false_eq_true, if_false]
    exact WRel.pre (pre := [false]) a1 r1
      (wNNBI_refines none (some (Consts.SMALL_NON_NEGATIVE_NUMBER - 1)) value b1 i1 (by decide))

/-! ### 11.7 semi-constrained whole number -/

theorem wSemi_refines (lb value : Int) (b : BitBuffer) (h : b.Inv)
    (hl : I64_MIN ≤ lb) (hv : value ≤ I64_MAX) :
    WRel b (Per.wSemi lb value) (Concrete.wSemi lb value b) := by
  unfold Per.wSemi Concrete.wSemi
  by_cases hr : value < lb
  · simp only [hr, if_true]; rfl
  · simp only [hr, if_false]
    rw [wrappingSubAsU64_eq value lb (by omega) hl hv]
    exact wNNBI_refines none none _ b h (by decide)

/-! ### 11.8 unconstrained whole number -/

theorem wUnconstrained_refines (value : Int) (b : BitBuffer) (h : b.Inv) :
    WRel b (Per.wUnconstrained value) (Concrete.wUnconstrained value b) := by
  unfold Per.wUnconstrained Concrete.wUnconstrained
  simp only []
  generalize hp : (if value < 0 then lo64 value - 1 else lz64 (i64AsU64 value) - 1) / 8 = p
  have hp8 : p ≤ 8 := by
    have h1 := lz64_le (i64AsU64 value)
    have h2 : lo64 value ≤ 64 := lz64_le _
    subst hp; split <;> omega
  simp only [uSub, hp8, if_true, Outcome.bind_ok, byte_len_eq]
  have hL := wLen_refines none none (8 - p) b h (by decide)
  cases hm : Per.wLen none none (8 - p) with
  | ok q =>
    obtain ⟨lbits, f⟩ := q
    rw [hm] at hL
    obtain ⟨b1, e1, i1, a1, r1⟩ := hL
    rw [e1]
    simp only [Outcome.bind_ok]
    exact WRel.pre (pre := lbits) a1 r1 (w2s_refines ((8 - p) * 8) value b1 i1)
  | err k => rw [hm] at hL; have : Concrete.wLen none none _ b = err k := hL; rw [this]; rfl
  | panic => rw [hm] at hL; have : Concrete.wLen none none _ b = panic := hL; rw [this]; rfl

/-! ### enumeration / choice index -/

theorem wIndex_refines (std : Nat) (ext : Bool) (index : Nat) (b : BitBuffer) (h : b.Inv)
    (hstd : std ≤ U64_MAX) :
    WRel b (Per.wIndex std ext index) (Concrete.wIndex std ext index b) := by
  unfold Per.wIndex Concrete.wIndex
  by_cases hc : index ≥ std
  · simp only [hc, decide_true, if_true]
    cases ext with
    | false => simp only [Bool.false_eq_true, if_false, Outcome.bind_ok]; rfl
    | true =>
      simp only [if_true]
      obtain ⟨b1, e1, i1, a1, r1⟩ := BitBuffer.writeBit_abs b true h
      rw [e1]; simp only [Outcome.bind_ok, uSub, hc, if_true]
      exact WRel.pre (pre := [true]) a1 r1 (wSmall_refines (index - std) b1 i1)
  · simp only [hc, decide_false, Bool.false_eq_true, if_false]
    have h1 : 1 ≤ std := by omega
    have htop : (some (std - 1)).getD I64MAXu ≤ U64_MAX := by simp only [Option.getD_some]; omega
    cases ext with
    | false =>
      simp only [Bool.false_eq_true, if_false, Outcome.bind_ok, uSub, h1, if_true]
      exact WRel.pre (pre := []) (by simp) rfl (wNNBI_refines none (some (std - 1)) index b h htop)
    | true =>
      simp only [if_true]
      obtain ⟨b1, e1, i1, a1, r1⟩ := BitBuffer.writeBit_abs b false h
      rw [e1]; simp only [Outcome.bind_ok, uSub, h1, if_true]
      exact WRel.pre (pre := [false]) a1 r1 (wNNBI_refines none (some (std - 1)) index b1 i1 htop)

end Asn1Verif.Per.Glue
