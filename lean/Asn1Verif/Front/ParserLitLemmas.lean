import Asn1Verif.Front.ParserLemmas
/-
  Front end — parse ∘ print for literals (`read_literal`, `LiteralValue::try_from_asn_str`):
  TRUE/FALSE, integers, one-word strings, octet strings in hex notation.
-/
namespace Asn1Verif.Front.Syn
open Except

/-! ### hex digits -/

theorem hexDigitVal_hexChar : ∀ n, n < 16 → hexDigitVal (hexChar n) = n := by decide
theorem isHex_hexChar : ∀ n, n < 16 → isAsciiHexDigit (hexChar n) = true := by decide

theorem hexPairs_hexOfBytes (bs : List Nat) (h : bs.all (fun b => decide (b < 256)) = true) :
    hexPairs (hexOfBytes bs) = bs := by
  induction bs with
  | nil => rfl
  | cons b tl ih =>
    simp only [List.all_cons, Bool.and_eq_true, decide_eq_true_eq] at h
    simp only [hexOfBytes, hexPairs, ih h.2, hexDigitVal_hexChar (b / 16) (by omega),
      hexDigitVal_hexChar (b % 16) (by omega)]
    congr 1
    omega

theorem hexOfBytes_all_hex (bs : List Nat) (h : bs.all (fun b => decide (b < 256)) = true) :
    (hexOfBytes bs).all isAsciiHexDigit = true := by
  induction bs with
  | nil => rfl
  | cons b tl ih =>
    simp only [List.all_cons, Bool.and_eq_true, decide_eq_true_eq] at h
    simp only [hexOfBytes, List.all_cons, ih h.2, isHex_hexChar (b / 16) (by omega),
      isHex_hexChar (b % 16) (by omega), Bool.and_self]

theorem hexOfBytes_length (bs : List Nat) : (hexOfBytes bs).length = 2 * bs.length := by
  induction bs with
  | nil => rfl
  | cons b tl ih => simp only [hexOfBytes, List.length_cons, ih]; omega

theorem hexOfBytes_ne_nil (bs : List Nat) (h : bs ≠ []) : hexOfBytes bs ≠ [] := by
  cases bs with
  | nil => exact absurd rfl h
  | cons b tl => simp [hexOfBytes]

/-! ### `try_from_asn_str` on what the printer produces -/

theorem eqIC_quote (c : Char) (r : List Char) (kw : String) (d : Char) (r' : List Char)
    (hk : lowerL kw = d :: r') (hne : c.toLower ≠ d) : eqICL (c :: r) kw = false := by
  unfold eqICL
  rw [hk]
  simp [hne]

theorem tryFromAsnStr_string (s : String) :
    tryFromAsnStr ('"' :: (s.toList ++ ['"'])) = some (.string s) := by
  have h1 := eqIC_quote '"' (s.toList ++ ['"']) "true" 't' "rue".toList (by decide) (by decide)
  have h2 := eqIC_quote '"' (s.toList ++ ['"']) "false" 'f' "alse".toList (by decide) (by decide)
  simp [tryFromAsnStr, h1, h2, endsWith1]

theorem tryFromAsnStr_hex (bs : List Nat) (hb : bs.all (fun b => decide (b < 256)) = true) :
    tryFromAsnStr ('\'' :: (hexOfBytes bs ++ ['\'', 'H'])) = some (.octetString bs) := by
  have h1 := eqIC_quote '\'' (hexOfBytes bs ++ ['\'', 'H']) "true" 't' "rue".toList
    (by decide) (by decide)
  have h2 := eqIC_quote '\'' (hexOfBytes bs ++ ['\'', 'H']) "false" 'f' "alse".toList
    (by decide) (by decide)
  have h3 : looksLikeInt ('\'' :: (hexOfBytes bs ++ ['\'', 'H'])) = false := by
    simp [looksLikeInt, isAsciiDigit]
  have hlen : (hexOfBytes bs).length % 2 = 0 := by rw [hexOfBytes_length]; omega
  simp [tryFromAsnStr, h1, h2, h3, endsWith2, hexOfBytes_all_hex bs hb, hlen,
    hexPairs_hexOfBytes bs hb]

theorem tryFromAsnStr_num (s : String) (i : Int) (h1 : eqIC s "true" = false)
    (h2 : eqIC s "false" = false) (h3 : looksLikeInt s.toList = true)
    (h4 : parseI64L s.toList = some i) (h5 : s.toList.head? ≠ some '"') :
    tryFromAsnStr s.toList = some (.integer i) := by
  have h1' : eqICL s.toList "true" = false := h1
  have h2' : eqICL s.toList "false" = false := h2
  simp [tryFromAsnStr, h1', h2', h3, h4, h5]

theorem toString_int_head_ne_quote (i : Int) : (toString i).toList.head? ≠ some '"' := by
  obtain ⟨c, r, hs, hc⟩ := toString_int_head i
  rw [hs]
  simp only [List.head?_cons, ne_eq, Option.some.injEq]
  intro h
  subst h
  cases hc with
  | inl h => exact absurd h (by decide)
  | inr h => exact absurd h (by decide)

theorem tryFromAsnStr_int (i : Int) (h : inI64 i = true) :
    tryFromAsnStr (toString i).toList = some (.integer i) := by
  have h' : I64_MIN ≤ i ∧ i ≤ I64_MAX := by simpa [inI64] using h
  exact tryFromAsnStr_num (toString i) i (eqIC_int_true i) (eqIC_int_false i)
    (looksLikeInt_toString i) (parseI64_toString i h'.1 h'.2) (toString_int_head_ne_quote i)

theorem tryFromAsnStr_TRUE : tryFromAsnStr "TRUE".toList = some (.boolean true) := by decide
theorem tryFromAsnStr_FALSE : tryFromAsnStr "FALSE".toList = some (.boolean false) := by decide

/-! ### `read_literal` -/

theorem readLiteral_plain (s : String) (v : LiteralValue) (rest : List Token)
    (hp : (eqIC s "true" || eqIC s "false" || looksLikeInt s.toList) = true)
    (hv : tryFromAsnStr s.toList = some v) :
    readLiteral (.text s :: rest) = .ok (.lit v, rest) := by
  simp only [readLiteral, peekOrErr_cons, FR.bind_ok, hp, if_true, nextTextOrErr_text, hv]
  rfl

/-! ### `read_string_literal` -/

/-- the loop over any tokens none of which is the delimiter: every token is kept, separator or
    not, with `gap` blanks before the first and one blank before each of the others -/
theorem stringLoop_tokens (delim : Char) (ws : List Token) (hws : ∀ t ∈ ws, t.eqSep delim = false)
    (gap : Nat) (rest : List Token) :
    stringLoop delim (ws ++ .sep delim :: rest) gap =
      .ok (if ws.isEmpty then [] else List.replicate gap ' ' ++ litText ws, rest) := by
  induction ws generalizing gap with
  | nil => simp [stringLoop]
  | cons t tl ih =>
    have ht : t.eqSep delim = false := hws t (by simp)
    have htl : ∀ x ∈ tl, x.eqSep delim = false := fun x hx => hws x (by simp [hx])
    simp only [List.cons_append, stringLoop, ht, Bool.false_eq_true, if_false, ih htl 1, FR.bind_ok,
      List.isEmpty_cons]
    cases tl with
    | nil => simp [litText]
    | cons u tl' => simp [litText]

theorem readStringLiteral_tokens' (delim : Char) (ws : List Token)
    (hws : ∀ t ∈ ws, t.eqSep delim = false) (rest : List Token) :
    readStringLiteral delim (.sep delim :: (ws ++ .sep delim :: rest)) =
      .ok (delim :: (litText ws ++ [delim]), rest) := by
  have hp : ∃ t, peekOrErr (ws ++ .sep delim :: rest) = .ok t := by
    cases ws with
    | nil => exact ⟨_, rfl⟩
    | cons t tl => exact ⟨_, rfl⟩
  obtain ⟨t0, hp⟩ := hp
  simp only [readStringLiteral, nextSepEq_cons, eqSep_sep, beq_self_eq_true, if_true, FR.bind_ok,
    hp, stringLoop_tokens delim ws hws 0 rest]
  cases ws with
  | nil => rfl
  | cons t tl => simp

/-- **string literals of any number of tokens**: the opening delimiter, any tokens (words and
    separator characters other than the delimiter — none at all for the empty literal, a
    separator in first position included), the closing delimiter: the literal is the tokens
    joined by single blanks, between the delimiters -/
theorem readStringLiteral_tokens (delim : Char) (ws : List Token)
    (hws : ∀ t ∈ ws, t.eqSep delim = false) (rest : List Token) :
    readStringLiteral delim (printStringTokens delim ws ++ rest) =
      .ok (delim :: (litText ws ++ [delim]), rest) := by
  have := readStringLiteral_tokens' delim ws hws rest
  simpa [printStringTokens] using this

theorem printWord_noDelim (delim : Char) (cs : List Char) :
    ∀ t ∈ printWord cs, t.eqSep delim = false := by
  intro t ht
  unfold printWord at ht
  split at ht
  · simp at ht
  · simp only [List.mem_singleton] at ht; subst ht; rfl

theorem litText_printWord (cs : List Char) : litText (printWord cs) = cs := by
  unfold printWord
  split
  · rename_i h; simp only [List.isEmpty_iff] at h; subst h; rfl
  · simp [litText, Token.chars]

/-- DEFAULT / value literals: what the printer writes is read back -/
theorem readLiteral_print (v : LiteralValue) (hw : litWf v = true) (rest : List Token) :
    readLiteral (printLit v ++ rest) = .ok (.lit v, rest) := by
  cases v with
  | boolean b =>
    cases b with
    | true => exact readLiteral_plain "TRUE" _ rest (by decide) tryFromAsnStr_TRUE
    | false => exact readLiteral_plain "FALSE" _ rest (by decide) tryFromAsnStr_FALSE
  | integer i =>
    exact readLiteral_plain (toString i) _ rest (by rw [looksLikeInt_toString]; simp)
      (tryFromAsnStr_int i (by simpa [litWf] using hw))
  | string s =>
    have h := readStringLiteral_tokens' '"' (printWord s.toList) (printWord_noDelim _ _) rest
    rw [litText_printWord] at h
    simp [printLit, readLiteral, h, tryFromAsnStr_string s]
  | octetString bs =>
    simp only [litWf] at hw
    have h := readStringLiteral_tokens' '\'' (printWord (hexOfBytes bs)) (printWord_noDelim _ _)
      (.text "H" :: rest)
    rw [litText_printWord] at h
    have := tryFromAsnStr_hex bs hw
    simp [printLit, readLiteral, readHexOrBitStringLiteral, h, this,
      show eqIC "H" "H" = true by decide]
  | enumeratedVariant t x => simp [litWf] at hw

end Asn1Verif.Front.Syn
