import Asn1Verif.Front.TotalBase
import Asn1Verif.Front.Resolve
/-
  Front end — totality of the resolver model.

  `ResolveScope::try_resolve` walks the module once (structural recursion over the types); the
  only unbounded recursion of the real code is the import chase of `value_reference` /
  `definition`, which has no visited set.  The mirror gives the chase `scope.length + 1` steps and
  answers the pseudo error `fuel` when they are used up (= the real code recurses for ever).

  `tryResolve_post`: if no chase of the scope runs out of budget, resolving does not either —
  the chase is the ONLY source of non-termination.  `chase_noSelfImport`: with the one-module
  scope of `Model::try_resolve` the chase cannot run out unless the module imports from itself.
-/
namespace Asn1Verif.Front.Syn
open Except

/-- no chase in this scope exhausts its budget -/
structure ChaseTotal (sc : Scope) : Prop where
  value : ∀ n, Post (sc.valueReference n) (fun _ => True)
  defn : ∀ n, Post (sc.definition n) (fun _ => True)

section
set_option linter.unusedSectionVars false
variable (sc : Scope) (hc : ChaseTotal sc)
include hc

theorem resolveInt_post (l : URange) : Post (sc.resolveInt l) (fun _ => True) := by
  unfold Scope.resolveInt
  post_auto_with [hc.value _]

theorem resolveSizeVal_post (l : USz) : Post (sc.resolveSizeVal l) (fun _ => True) := by
  unfold Scope.resolveSizeVal
  post_auto_with [hc.value _]

theorem resolveConst_post (l : UConst) : Post (sc.resolveConst l) (fun _ => True) := by
  unfold Scope.resolveConst
  post_auto_with [hc.value _]

theorem resolveTypeRef_post (n : String) : Post (sc.resolveTypeRef n) (fun _ => True) := by
  unfold Scope.resolveTypeRef
  post_auto_with [hc.defn _]

theorem resolveSize_post (s : Size USz) : Post (sc.resolveSize s) (fun _ => True) := by
  unfold Scope.resolveSize
  post_auto_with [resolveSizeVal_post sc hc _]

theorem resolveOptInt_post (l : Option URange) : Post (sc.resolveOptInt l) (fun _ => True) := by
  unfold Scope.resolveOptInt
  post_auto_with [resolveInt_post sc hc _]

theorem resolveRange_post (r : Range URange) : Post (sc.resolveRange r) (fun _ => True) := by
  unfold Scope.resolveRange
  post_auto_with [resolveOptInt_post sc hc _]

theorem resolveDefault_post (ty : RTy) (d : UConst) :
    Post (sc.resolveDefault ty d) (fun _ => True) := by
  unfold Scope.resolveDefault
  split
  · exact Post.ok trivial
  · split
    · have h := resolveTypeRef_post sc hc ‹String›
      split
      · rename_i heq; rw [heq] at h; exact absurd rfl h
      · post_auto_with [resolveConst_post sc hc _]
      · exact resolveConst_post sc hc _
    · exact resolveConst_post sc hc _

mutual
theorem resolveTy_post (t : UTy) : Post (sc.resolveTy t) (fun _ => True) := by
  cases t with
  | boolean => exact Post.ok trivial
  | null => exact Post.ok trivial
  | enumerated e => exact Post.ok trivial
  | typeReference n tag => exact Post.ok trivial
  | integer r cs =>
    unfold Scope.resolveTy
    post_auto_with [resolveRange_post sc hc _]
  | string s cs =>
    unfold Scope.resolveTy
    post_auto_with [resolveSize_post sc hc _]
  | octetString s =>
    unfold Scope.resolveTy
    post_auto_with [resolveSize_post sc hc _]
  | bitString s cs =>
    unfold Scope.resolveTy
    post_auto_with [resolveSize_post sc hc _]
  | optional inner =>
    unfold Scope.resolveTy
    post_auto_with [resolveTy_post inner]
  | sequence fs e =>
    unfold Scope.resolveTy
    post_auto_with [resolveFields_post fs]
  | sequenceOf inner s =>
    unfold Scope.resolveTy
    post_auto_with [resolveTy_post inner, resolveSize_post sc hc _]
  | set fs e =>
    unfold Scope.resolveTy
    post_auto_with [resolveFields_post fs]
  | setOf inner s =>
    unfold Scope.resolveTy
    post_auto_with [resolveTy_post inner, resolveSize_post sc hc _]
  | choice vs e =>
    unfold Scope.resolveTy
    post_auto_with [resolveVariants_post vs]

theorem resolveFields_post (fs : UFields) : Post (sc.resolveFields fs) (fun _ => True) := by
  cases fs with
  | nil => exact Post.ok trivial
  | cons name tag ty dflt rest =>
    unfold Scope.resolveFields
    refine Post.bind (resolveTy_post ty) ?_; intro t _
    refine Post.bind (P := fun _ => True) ?_ ?_
    · split
      · exact Post.pure trivial
      · post_auto_with [resolveDefault_post sc hc _ _]
    intro d _
    post_auto_with [resolveFields_post rest]

theorem resolveVariants_post (vs : UVariants) : Post (sc.resolveVariants vs) (fun _ => True) := by
  cases vs with
  | nil => exact Post.ok trivial
  | cons name tag ty rest =>
    unfold Scope.resolveVariants
    post_auto_with [resolveTy_post ty, resolveVariants_post rest]
end

theorem resolveValueRefs_post (l : List UValueReference) :
    Post (sc.resolveValueRefs l) (fun _ => True) := by
  induction l with
  | nil => exact Post.ok trivial
  | cons vr rest ih =>
    unfold Scope.resolveValueRefs
    post_auto_with [resolveTy_post sc hc _, ih]

theorem resolveDefinitions_post (l : List UDefinition) :
    Post (sc.resolveDefinitions l) (fun _ => True) := by
  induction l with
  | nil => exact Post.ok trivial
  | cons d rest ih =>
    unfold Scope.resolveDefinitions
    post_auto_with [resolveTy_post sc hc _, ih]

/-- **the chase is the only source of non-termination** of `ResolveScope::try_resolve` -/
theorem tryResolve_post : Post sc.tryResolve (fun _ => True) := by
  unfold Scope.tryResolve
  post_auto_with [resolveValueRefs_post sc hc _, resolveDefinitions_post sc hc _]

end

/-! ### the one-module scope of `Model::try_resolve` -/

/-- the import `imp` of `m` designates `m` itself (by object identifier or by name) -/
def Import.designates (imp : Import) (m : UModule) : Bool :=
  (m.oid.isSome && m.oid == imp.fromOid) || m.name == imp.«from»

/-- no import of the module designates the module itself -/
def NoSelfImport (m : UModule) : Prop := ∀ imp ∈ m.imports, imp.designates m = false

instance (m : UModule) : Decidable (NoSelfImport m) :=
  inferInstanceAs (Decidable (∀ imp ∈ m.imports, _))

theorem modelWithImportedItem_self (m : UModule) (h : NoSelfImport m) (item : String) :
    modelWithImportedItem m [m] item = none := by
  unfold modelWithImportedItem
  cases hf : m.imports.find? (fun i => i.what.any (· == item)) with
  | none => rfl
  | some imp =>
    have hmem : imp ∈ m.imports := List.mem_of_find?_eq_some hf
    have := h imp hmem
    simp only [Import.designates] at this
    simp [List.find?, this]

theorem chase_noSelfImport (m : UModule) (h : NoSelfImport m) : ChaseTotal ⟨m, [m]⟩ := by
  constructor
  · intro n
    show Post (valueReference 2 m [m] n) _
    unfold valueReference
    split
    · exact Post.ok trivial
    · rw [modelWithImportedItem_self m h]; exact Post.ok trivial
  · intro n
    show Post (definition 2 m [m] n) _
    unfold definition
    split
    · exact Post.ok trivial
    · rw [modelWithImportedItem_self m h]; exact Post.ok trivial

/-- `Model::try_resolve` terminates for every module that does not import from itself -/
theorem tryResolve_ne_fuel (m : UModule) (h : NoSelfImport m) : tryResolve m ≠ .error .fuel :=
  (tryResolve_post ⟨m, [m]⟩ (chase_noSelfImport m h)).ne_fuel

end Asn1Verif.Front.Syn
