import Asn1Verif.Front.TotalBase
import Asn1Verif.Front.Resolve
/-
  Front end — totality of the resolver model.

  `ResolveScope::try_resolve` walks the module once (structural recursion over the types); the
  only other recursion of the real code is the import chase of `value_reference` / `definition`,
  which follows at most `scope.len()` imports (repaired code; before, it had no bound and a
  cyclic import of an undefined name overflowed the stack).  The mirror of the chase is a
  structural recursion on that bound and has no budget of its own.

  `chaseTotal`: every chase of every scope comes back.  `tryResolve_post`: resolving never
  answers the pseudo error `fuel` — for every scope, hence for `Model::try_resolve`
  (`tryResolve_ne_fuel`) and `MultiModuleResolver::try_resolve_all` (`tryResolveAll_ne_fuel`),
  without any hypothesis on the imports.
-/
namespace Asn1Verif.Front.Syn
open Except

/-- no chase in this scope fails -/
structure ChaseTotal (sc : Scope) : Prop where
  value : ∀ n, Post (sc.valueReference n) (fun _ => True)
  defn : ∀ n, Post (sc.definition n) (fun _ => True)

theorem valueReference_post (S : List UModule) (n : String) :
    ∀ (k : Nat) (m : UModule), Post (valueReference k m S n) (fun _ => True) := by
  intro k
  induction k with
  | zero => intro m; exact Post.ok trivial
  | succ k ih =>
    intro m
    unfold valueReference
    split
    · exact Post.ok trivial
    · split
      · exact ih _
      · exact Post.ok trivial

theorem definition_post (S : List UModule) (n : String) :
    ∀ (k : Nat) (m : UModule), Post (definition k m S n) (fun _ => True) := by
  intro k
  induction k with
  | zero => intro m; exact Post.ok trivial
  | succ k ih =>
    intro m
    unfold definition
    split
    · exact Post.ok trivial
    · split
      · exact ih _
      · exact Post.ok trivial

/-- **every chase of every scope comes back** (no hypothesis on the imports) -/
theorem chaseTotal (sc : Scope) : ChaseTotal sc :=
  ⟨fun n => valueReference_post sc.scope n _ sc.model,
   fun n => definition_post sc.scope n _ sc.model⟩

section
set_option linter.unusedSectionVars false
variable (sc : Scope) (hc : ChaseTotal sc)
include hc

theorem resolveInt_post (l : URange) : Post (sc.resolveInt l) (fun _ => True) := by
  unfold Scope.resolveInt
  post_auto_with [hc.value _]

theorem resolveSizeVal_post (l : USz) : Post (sc.resolveSizeVal l) (fun _ => True) := by
  unfold Scope.resolveSizeVal
  post_auto_with [hc.value _]

theorem resolveConst_post (l : UConst) : Post (sc.resolveConst l) (fun _ => True) := by
  unfold Scope.resolveConst
  post_auto_with [hc.value _]

theorem resolveTypeRef_post (n : String) : Post (sc.resolveTypeRef n) (fun _ => True) := by
  unfold Scope.resolveTypeRef
  post_auto_with [hc.defn _]

theorem resolveSize_post (s : Size USz) : Post (sc.resolveSize s) (fun _ => True) := by
  unfold Scope.resolveSize
  post_auto_with [resolveSizeVal_post sc hc _]

theorem resolveOptInt_post (l : Option URange) : Post (sc.resolveOptInt l) (fun _ => True) := by
  unfold Scope.resolveOptInt
  post_auto_with [resolveInt_post sc hc _]

theorem resolveRange_post (r : Range URange) : Post (sc.resolveRange r) (fun _ => True) := by
  unfold Scope.resolveRange
  post_auto_with [resolveOptInt_post sc hc _]

theorem resolveDefault_post (ty : RTy) (d : UConst) :
    Post (sc.resolveDefault ty d) (fun _ => True) := by
  unfold Scope.resolveDefault
  split
  · exact Post.ok trivial
  · split
    · split
      · post_auto_with [resolveConst_post sc hc _]
      · exact resolveConst_post sc hc _
    · exact resolveConst_post sc hc _

mutual
theorem resolveTy_post (t : UTy) : Post (sc.resolveTy t) (fun _ => True) := by
  cases t with
  | boolean => exact Post.ok trivial
  | null => exact Post.ok trivial
  | enumerated e => exact Post.ok trivial
  | typeReference n tag => exact Post.ok trivial
  | integer r cs =>
    unfold Scope.resolveTy
    post_auto_with [resolveRange_post sc hc _]
  | string s cs =>
    unfold Scope.resolveTy
    post_auto_with [resolveSize_post sc hc _]
  | octetString s =>
    unfold Scope.resolveTy
    post_auto_with [resolveSize_post sc hc _]
  | bitString s cs =>
    unfold Scope.resolveTy
    post_auto_with [resolveSize_post sc hc _]
  | optional inner =>
    unfold Scope.resolveTy
    post_auto_with [resolveTy_post inner]
  | sequence fs e =>
    unfold Scope.resolveTy
    post_auto_with [resolveFields_post fs]
  | sequenceOf inner s =>
    unfold Scope.resolveTy
    post_auto_with [resolveTy_post inner, resolveSize_post sc hc _]
  | set fs e =>
    unfold Scope.resolveTy
    post_auto_with [resolveFields_post fs]
  | setOf inner s =>
    unfold Scope.resolveTy
    post_auto_with [resolveTy_post inner, resolveSize_post sc hc _]
  | choice vs e =>
    unfold Scope.resolveTy
    post_auto_with [resolveVariants_post vs]

theorem resolveFields_post (fs : UFields) : Post (sc.resolveFields fs) (fun _ => True) := by
  cases fs with
  | nil => exact Post.ok trivial
  | cons name tag ty dflt rest =>
    unfold Scope.resolveFields
    refine Post.bind (resolveTy_post ty) ?_; intro t _
    refine Post.bind (P := fun _ => True) ?_ ?_
    · split
      · exact Post.pure trivial
      · post_auto_with [resolveDefault_post sc hc _ _]
    intro d _
    post_auto_with [resolveFields_post rest]

theorem resolveVariants_post (vs : UVariants) : Post (sc.resolveVariants vs) (fun _ => True) := by
  cases vs with
  | nil => exact Post.ok trivial
  | cons name tag ty rest =>
    unfold Scope.resolveVariants
    post_auto_with [resolveTy_post ty, resolveVariants_post rest]
end

theorem resolveValueRefs_post (l : List UValueReference) :
    Post (sc.resolveValueRefs l) (fun _ => True) := by
  induction l with
  | nil => exact Post.ok trivial
  | cons vr rest ih =>
    unfold Scope.resolveValueRefs
    post_auto_with [resolveTy_post sc hc _, ih]

theorem resolveDefinitions_post (l : List UDefinition) :
    Post (sc.resolveDefinitions l) (fun _ => True) := by
  induction l with
  | nil => exact Post.ok trivial
  | cons d rest ih =>
    unfold Scope.resolveDefinitions
    post_auto_with [resolveTy_post sc hc _, ih]

/-- `ResolveScope::try_resolve` does not fail with the pseudo error when no chase does -/
theorem tryResolve_post : Post sc.tryResolve (fun _ => True) := by
  unfold Scope.tryResolve
  post_auto_with [resolveValueRefs_post sc hc _, resolveDefinitions_post sc hc _]

end

/-- **`ResolveScope::try_resolve` is total**: a resolved model or one of the three error classes
    of `resolve::Error`, for every module and every scope -/
theorem Scope.tryResolve_ne_fuel (sc : Scope) : sc.tryResolve ≠ .error .fuel :=
  (tryResolve_post sc (chaseTotal sc)).ne_fuel

/-- `Model::try_resolve` (the scope is the module itself) -/
theorem tryResolve_ne_fuel (m : UModule) : tryResolve m ≠ .error .fuel :=
  Scope.tryResolve_ne_fuel ⟨m, [m]⟩

theorem resolveAllAux_post (scope : List UModule) :
    ∀ l : List UModule, Post (resolveAllAux scope l) (fun _ => True) := by
  intro l
  induction l with
  | nil => exact Post.ok trivial
  | cons m rest ih =>
    unfold resolveAllAux
    post_auto_with [tryResolve_post ⟨m, scope⟩ (chaseTotal _), ih]

/-- `MultiModuleResolver::try_resolve_all` -/
theorem tryResolveAll_ne_fuel (models : List UModule) : tryResolveAll models ≠ .error .fuel :=
  (resolveAllAux_post models models).ne_fuel

end Asn1Verif.Front.Syn
