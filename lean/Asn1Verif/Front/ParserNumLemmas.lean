import Asn1Verif.Front.ParserBase
import Asn1Verif.Front.Printer
/-
  Front end — numbers: what `toString` prints, `str::parse` (the model's `parseU64`/`parseI64`)
  reads back; a printed number is never taken for a keyword.
-/
namespace Asn1Verif.Front.Syn

theorem toLower_of_isDigit (c : Char) (h : c.isDigit = true) : c.toLower = c := by
  unfold Char.toLower
  unfold Char.isDigit at h
  simp only [Bool.and_eq_true, decide_eq_true_eq, ge_iff_le] at h
  have h1 := h.1
  have h2 := h.2
  rw [UInt32.le_iff_toNat_le] at h1 h2
  split
  · rename_i h3
    have h4 := h3.1
    rw [ge_iff_le, UInt32.le_iff_toNat_le] at h4
    simp at h1 h2 h4
    omega
  · rfl

theorem toDigits_all_isDigit (n : Nat) : (Nat.toDigits 10 n).all Char.isDigit = true := by
  rw [List.all_eq_true]
  intro c hc
  exact Nat.isDigit_of_mem_toDigits (by decide) (by decide) hc

theorem toDigits_cons (n : Nat) : ∃ c r, Nat.toDigits 10 n = c :: r ∧ c.isDigit = true := by
  cases h : Nat.toDigits 10 n with
  | nil => exact absurd h Nat.toDigits_ne_nil
  | cons c r =>
    refine ⟨c, r, rfl, ?_⟩
    have := toDigits_all_isDigit n
    rw [h] at this
    simp only [List.all_cons, Bool.and_eq_true] at this
    exact this.1

theorem parseDigits_toDigits (n : Nat) : parseDigits (Nat.toDigits 10 n) = some n := by
  unfold parseDigits
  obtain ⟨c, r, h, _⟩ := toDigits_cons n
  have h1 : (Nat.toDigits 10 n).isEmpty = false := by rw [h]; rfl
  simp [h1, toDigits_all_isDigit]

theorem toString_nat_toList (n : Nat) : (toString n).toList = Nat.toDigits 10 n := by
  show (Nat.repr n).toList = _
  exact Nat.toList_repr

theorem toString_int_toList (i : Int) :
    (toString i).toList =
      if 0 ≤ i then Nat.toDigits 10 i.toNat else '-' :: Nat.toDigits 10 (-i).toNat := by
  rw [Int.toString_eq_repr, Int.repr_eq_if]
  split
  · exact Nat.toList_repr
  · rw [String.toList_append, Nat.toList_repr]; rfl

/-! ### reading back -/

theorem parseU64L_toDigits (n : Nat) (h : n ≤ U64_MAX) : parseU64L (Nat.toDigits 10 n) = some n := by
  obtain ⟨c, r, hc, hd⟩ := toDigits_cons n
  unfold parseU64L
  have hstrip : stripPlus (Nat.toDigits 10 n) = Nat.toDigits 10 n := by
    unfold stripPlus
    split
    · rename_i ds heq
      rw [hc] at heq
      injection heq with h1 _
      subst h1
      exact absurd hd (by decide)
    · rfl
  simp only [hstrip, parseDigits_toDigits, h, if_true]

theorem parseU64_toString (n : Nat) (h : n ≤ U64_MAX) : parseU64 (toString n) = some n := by
  unfold parseU64
  rw [toString_nat_toList]
  exact parseU64L_toDigits n h

theorem parseI64L_toDigits (n : Nat) (h : n < 2 ^ 63) :
    parseI64L (Nat.toDigits 10 n) = some (n : Int) := by
  obtain ⟨c, r, hc, hd⟩ := toDigits_cons n
  unfold parseI64L
  split
  · rename_i ds heq
    rw [hc] at heq
    injection heq with h1 _
    subst h1
    exact absurd hd (by decide)
  · rename_i ds heq
    rw [hc] at heq
    injection heq with h1 _
    subst h1
    exact absurd hd (by decide)
  · simp only [parseDigits_toDigits, h, if_true]

theorem parseI64_toString (i : Int) (h1 : I64_MIN ≤ i) (h2 : i ≤ I64_MAX) :
    parseI64 (toString i) = some i := by
  unfold parseI64
  rw [toString_int_toList]
  unfold I64_MIN at h1
  unfold I64_MAX at h2
  split
  · rename_i h0
    rw [parseI64L_toDigits _ (by omega)]
    congr 1
    omega
  · rename_i h0
    show (match parseDigits (Nat.toDigits 10 (-i).toNat) with
      | some n => if n ≤ 2 ^ 63 then some (-(n : Int)) else none
      | none => none) = some i
    rw [parseDigits_toDigits]
    have : (-i).toNat ≤ 2 ^ 63 := by omega
    simp only [this, if_true]
    congr 1
    omega

/-! ### a printed number is not a keyword and looks like a number -/

theorem eqIC_false_of_heads (s kw : String) (c d : Char) (r r' : List Char)
    (hs : s.toList = c :: r) (hk : lowerL kw = d :: r') (hne : c.toLower ≠ d) :
    eqIC s kw = false := by
  unfold eqIC eqICL
  rw [hk, hs]
  simp [hne]

/-- the first character of a printed integer: a digit or `-` -/
theorem toString_int_head (i : Int) :
    ∃ c r, (toString i).toList = c :: r ∧ (c.isDigit = true ∨ c = '-') := by
  rw [toString_int_toList]
  split
  · obtain ⟨c, r, h, hd⟩ := toDigits_cons i.toNat
    exact ⟨c, r, h, Or.inl hd⟩
  · exact ⟨'-', _, rfl, Or.inr rfl⟩

theorem toString_nat_head (n : Nat) :
    ∃ c r, (toString n).toList = c :: r ∧ c.isDigit = true := by
  rw [toString_nat_toList]
  exact toDigits_cons n

theorem toLower_num_head (c : Char) (h : c.isDigit = true ∨ c = '-') (d : Char)
    (hd : d.isDigit = false) (hd' : d ≠ '-') : c.toLower ≠ d := by
  cases h with
  | inl h =>
    rw [toLower_of_isDigit c h]
    intro heq
    subst heq
    rw [h] at hd
    exact absurd hd (by decide)
  | inr h =>
    subst h
    intro heq
    exact hd' heq.symm

/-- a printed integer is none of the keywords the parser compares bounds and literals with -/
theorem eqIC_int_kw (i : Int) (kw : String) (d : Char) (r' : List Char)
    (hk : lowerL kw = d :: r') (hd : d.isDigit = false) (hd' : d ≠ '-') :
    eqIC (toString i) kw = false := by
  obtain ⟨c, r, hs, hc⟩ := toString_int_head i
  exact eqIC_false_of_heads _ _ c d r r' hs hk (toLower_num_head c hc d hd hd')

theorem eqIC_nat_kw (n : Nat) (kw : String) (d : Char) (r' : List Char)
    (hk : lowerL kw = d :: r') (hd : d.isDigit = false) (hd' : d ≠ '-') :
    eqIC (toString n) kw = false := by
  obtain ⟨c, r, hs, hc⟩ := toString_nat_head n
  exact eqIC_false_of_heads _ _ c d r r' hs hk (toLower_num_head c (Or.inl hc) d hd hd')

theorem eqIC_int_MIN (i : Int) : eqIC (toString i) "MIN" = false :=
  eqIC_int_kw i "MIN" 'm' ['i', 'n'] (by decide) (by decide) (by decide)
theorem eqIC_int_MAX (i : Int) : eqIC (toString i) "MAX" = false :=
  eqIC_int_kw i "MAX" 'm' ['a', 'x'] (by decide) (by decide) (by decide)
theorem eqIC_int_true (i : Int) : eqIC (toString i) "true" = false :=
  eqIC_int_kw i "true" 't' ['r', 'u', 'e'] (by decide) (by decide) (by decide)
theorem eqIC_int_false (i : Int) : eqIC (toString i) "false" = false :=
  eqIC_int_kw i "false" 'f' ['a', 'l', 's', 'e'] (by decide) (by decide) (by decide)
theorem eqIC_nat_MIN (n : Nat) : eqIC (toString n) "MIN" = false :=
  eqIC_nat_kw n "MIN" 'm' ['i', 'n'] (by decide) (by decide) (by decide)
theorem eqIC_nat_MAX (n : Nat) : eqIC (toString n) "MAX" = false :=
  eqIC_nat_kw n "MAX" 'm' ['a', 'x'] (by decide) (by decide) (by decide)

theorem toString_nat_all_isDigit (n : Nat) : (toString n).toList.all Char.isDigit = true := by
  rw [toString_nat_toList]; exact toDigits_all_isDigit n

theorem looksLikeInt_toString (i : Int) : looksLikeInt (toString i).toList = true := by
  unfold looksLikeInt isAsciiDigit
  rw [toString_int_toList]
  split
  · simp [toDigits_all_isDigit]
  · obtain ⟨c, r, h, _⟩ := toDigits_cons (-i).toNat
    have hall := toDigits_all_isDigit (-i).toNat
    have hne : (Nat.toDigits 10 (-i).toNat).isEmpty = false := by rw [h]; rfl
    simp only [Bool.or_eq_true]
    right
    show (!(Nat.toDigits 10 (-i).toNat).isEmpty && (Nat.toDigits 10 (-i).toNat).all fun c => c.isDigit) = true
    rw [hne]
    simpa using hall

end Asn1Verif.Front.Syn
