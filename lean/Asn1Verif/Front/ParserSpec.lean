import Asn1Verif.Front.Parser
import Asn1Verif.Front.Printer
/-
  Front end — vocabulary of property C07's theorems:

  * `canon`: the fixed canonical projection.  It contains exactly one normalisation, the one the
    property allows for SIZE constraints: `SIZE(0..MAX)` is no constraint, `SIZE(n..n)` is
    `SIZE(n)`.  Nothing else is changed.
  * `…Wf`: the supported subset (decidable): numbers fit the crate's integer types, names are not
    keywords where a keyword could be read (a reference in a bound position is not spelled exactly
    `MIN` / `MAX`; `min`, `Max`, … are ordinary references since the keyword match became exact),
    lists that must not be empty are not empty, marker positions are inside the list, `OPTIONAL`
    only on components.
  * the two *lossy* behaviours of the parser are separate decidable predicates, so that the
    partial theorem names them as hypotheses: `…NoWiden` (no `INTEGER (0..MAX)` /
    `(MIN..i64::MAX)`), `niceName` (module names without `Module` suffix).
-/
namespace Asn1Verif.Front.Syn

/-! ### canon -/

def canonSize : Size USz → Size USz
  | .range a b e =>
    if a = .lit 0 ∧ b = .lit SIZE_MAX ∧ e = false then .any
    else if a = b then .fix a e
    else .range a b e
  | s => s

mutual
def canonTy : UTy → UTy
  | .boolean => .boolean
  | .integer r cs => .integer r cs
  | .string s c => .string (canonSize s) c
  | .octetString s => .octetString (canonSize s)
  | .bitString s cs => .bitString (canonSize s) cs
  | .null => .null
  | .optional t => .optional (canonTy t)
  | .sequence fs e => .sequence (canonFields fs) e
  | .sequenceOf t s => .sequenceOf (canonTy t) (canonSize s)
  | .set fs e => .set (canonFields fs) e
  | .setOf t s => .setOf (canonTy t) (canonSize s)
  | .enumerated e => .enumerated e
  | .choice vs e => .choice (canonVariants vs) e
  | .typeReference n t => .typeReference n t
def canonFields : UFields → UFields
  | .nil => .nil
  | .cons n tag ty d rest => .cons n tag (canonTy ty) d (canonFields rest)
def canonVariants : UVariants → UVariants
  | .nil => .nil
  | .cons n tag ty rest => .cons n tag (canonTy ty) (canonVariants rest)
end

def canon (m : UModule) : UModule :=
  { m with
    definitions := m.definitions.map fun d => { d with ty := canonTy d.ty }
    valueReferences := m.valueReferences.map fun v => { v with ty := canonTy v.ty } }

/-! ### the supported subset -/

def inI64 (i : Int) : Bool := decide (I64_MIN ≤ i) && decide (i ≤ I64_MAX)
def inU64 (n : Nat) : Bool := decide (n ≤ U64_MAX)

def tagWf : Option Tag → Bool
  | none => true
  | some (.universal n) => inU64 n
  | some (.application n) => inU64 n
  | some (.contextSpecific n) => inU64 n
  | some (.priv n) => inU64 n

/-- a name where an `i64` bound is read: it must not read as a number -/
def intRefWf (s : String) : Bool := (parseI64 s).isNone

/-- a bound where the keyword `kw` (`MIN` resp. `MAX`) could be read: a reference is not that
    keyword itself (exact spelling; value references start with a lower-case letter anyway) -/
def boundWf (kw : String) : Option URange → Bool
  | none => true
  | some (.lit i) => inI64 i
  | some (.ref s) => intRefWf s && s != kw

def rangeWf (r : Range URange) : Bool := boundWf "MIN" r.min && boundWf "MAX" r.max

/-- lossy behaviour 1: `(0..MAX)` and `(MIN..i64::MAX)` are widened to "no range" -/
def rangeNoWiden (r : Range URange) : Bool :=
  !(r.min == some (.lit 0) && r.max == none) && !(r.min == none && r.max == some (.lit I64_MAX))

def constsWfI (cs : List (String × Int)) : Bool := cs.all fun c => inI64 c.2
def constsWfU (cs : List (String × Nat)) : Bool := cs.all fun c => inU64 c.2

/-- a size bound where the keyword `kw` could be read (see `boundWf`) -/
def sizeAtomWf (kw : String) : USz → Bool
  | .lit n => inU64 n
  | .ref s => (parseU64 s).isNone && s != kw

/-- `SIZE(0..MAX, ...)` is refused by the parser (outside the subset) -/
def sizeWf : Size USz → Bool
  | .any => true
  | .fix n _ => sizeAtomWf "MIN" n
  | .range a b e =>
    sizeAtomWf "MIN" a && sizeAtomWf "MAX" b

def extWf (e : Option Nat) (len : Nat) : Bool :=
  match e with
  | none => true
  | some k => decide (k < len)

def enumWf (e : Enumerated) : Bool :=
  !e.variants.isEmpty && (e.variants.all fun v => match v.number with | none => true | some n => inU64 n)
    && extWf e.extAfter e.variants.length

def litWf : LiteralValue → Bool
  | .boolean _ => true
  | .integer i => inI64 i
  | .string _ => true
  | .octetString bs => bs.all fun b => decide (b < 256)
  | .enumeratedVariant _ _ => false

def defaultWf : UConst → Bool
  | .lit v => litWf v
  | .ref s => !eqIC s "true" && !eqIC s "false" && !looksLikeInt s.toList

mutual
/-- a type in a non-component position -/
def tyWf : UTy → Bool
  | .boolean => true
  | .integer r cs => rangeWf r && constsWfI cs
  | .string s _ => sizeWf s
  | .octetString s => sizeWf s
  | .bitString s cs => sizeWf s && constsWfU cs
  | .null => true
  | .optional _ => false
  | .sequence fs e => fieldsWf fs && extWf e fs.length
  | .sequenceOf t s => tyWf t && sizeWf s
  | .set fs e => fieldsWf fs && extWf e fs.length
  | .setOf t s => tyWf t && sizeWf s
  | .enumerated e => enumWf e
  | .choice vs e => decide (0 < vs.length) && variantsWf vs && extWf e vs.length
  | .typeReference n tag => decide (kwClass n = .other) && tag.isNone
/-- components: `OPTIONAL` (`Ty.optional`) only here, not together with a default -/
def fieldsWf : UFields → Bool
  | .nil => true
  | .cons _ tag ty d rest =>
    tagWf tag &&
      (match ty, d with
       | .optional t, none => tyWf t
       | .optional _, some _ => false
       | t, none => tyWf t
       | t, some d => tyWf t && defaultWf d) && fieldsWf rest
def variantsWf : UVariants → Bool
  | .nil => true
  | .cons _ tag ty rest => tagWf tag && tyWf ty && variantsWf rest
end

mutual
def tyNoWiden : UTy → Bool
  | .integer r _ => rangeNoWiden r
  | .optional t => tyNoWiden t
  | .sequence fs _ => fieldsNoWiden fs
  | .sequenceOf t _ => tyNoWiden t
  | .set fs _ => fieldsNoWiden fs
  | .setOf t _ => tyNoWiden t
  | .choice vs _ => variantsNoWiden vs
  | _ => true
def fieldsNoWiden : UFields → Bool
  | .nil => true
  | .cons _ _ ty _ rest => tyNoWiden ty && fieldsNoWiden rest
def variantsNoWiden : UVariants → Bool
  | .nil => true
  | .cons _ _ ty rest => tyNoWiden ty && variantsNoWiden rest
end

/-! ### module level -/

/-- lossy behaviour 2: `make_name_nice` -/
def niceName (s : String) : Bool := makeNameNice s == s

/-- a name at the start of a top-level item: not `END`/`IMPORTS` (the body loop would take it for
    the keyword) and not `SIZE` (an unconstrained string type before it would take it for a size
    constraint) -/
def topNameWf (s : String) : Bool := !eqIC s "END" && !eqIC s "IMPORTS" && !eqIC s "SIZE"

def oidComponentWf : OidComponent → Bool
  | .nameForm n => !n.toList.all Char.isDigit
  | .numberForm k => inU64 k
  | .nameAndNumberForm n k => !n.toList.all Char.isDigit && inU64 k

def oidWf : Option Oid → Bool
  | none => true
  | some cs => cs.all oidComponentWf

def importWf (i : Import) : Bool := !i.what.isEmpty && oidWf i.fromOid

def definitionWf (d : UDefinition) : Bool := topNameWf d.name && tagWf d.tag && tyWf d.ty

def valueReferenceWf (v : UValueReference) : Bool := topNameWf v.name && tyWf v.ty && litWf v.value

/-- the supported subset -/
def moduleWf (m : UModule) : Bool :=
  oidWf m.oid && m.imports.all importWf && m.definitions.all definitionWf &&
    m.valueReferences.all valueReferenceWf

def moduleNoWiden (m : UModule) : Bool :=
  (m.definitions.all fun d => tyNoWiden d.ty) && (m.valueReferences.all fun v => tyNoWiden v.ty)

def moduleNiceNames (m : UModule) : Bool :=
  niceName m.name && m.imports.all fun i => niceName i.«from»

end Asn1Verif.Front.Syn
