import Asn1Verif.Front.ParserLemmas
/-
  Front end — parse ∘ print for ENUMERATED (variant names in order, numbers, marker position).
-/
namespace Asn1Verif.Front.Syn
open Except

/-- the marker position when it lies among the `len` items that start at index `i` -/
def extIn (ext : Option Nat) (i len : Nat) : Option Nat :=
  match ext with
  | some k => if i ≤ k ∧ k < i + len then some k else none
  | none => none

theorem extIn_here (i len : Nat) (h : 0 < len) : extIn (some i) i len = some i := by
  simp [extIn]; omega

theorem extIn_step (ext : Option Nat) (i len : Nat) (h : ext ≠ some i) :
    extIn ext i (len + 1) = extIn ext (i + 1) len := by
  cases ext with
  | none => rfl
  | some k =>
    have hk : k ≠ i := fun e => h (by rw [e])
    simp only [extIn]
    by_cases h1 : i ≤ k ∧ k < i + (len + 1)
    · rw [if_pos h1, if_pos (by omega)]
    · rw [if_neg h1, if_neg (by omega)]

theorem extIn_past (i j len : Nat) (h : i < j) : extIn (some i) j len = none := by
  simp [extIn]; omega

theorem extIn_zero (ext : Option Nat) (i : Nat) : extIn ext i 0 = none := by
  cases ext with
  | none => rfl
  | some k => simp [extIn]

theorem extIn_all (ext : Option Nat) (len : Nat) (h : extWf ext len = true) :
    extIn ext 0 len = ext := by
  cases ext with
  | none => rfl
  | some k =>
    have : k < len := by simpa [extWf] using h
    simp [extIn, this]

def enumNumsWf (vs : List EnumVariant) : Bool :=
  vs.all fun v => match v.number with | none => true | some n => inU64 n

/-! one iteration of the loop on the token shapes the printer produces -/

theorem tNat_bind_parseU64 (k : Nat) (h : inU64 k = true) :
    (tNat k).text?.bind parseU64 = some k := by
  have h' : k ≤ U64_MAX := by simpa [inU64] using h
  simp only [tNat, text?_text, Option.bind_some, parseU64_toString k h']

theorem enumLoop_name_comma (f n : Nat) (seen : Bool) (name : String) (ts : List Token) :
    enumLoop (f + 1) n seen (.text name :: .sep ',' :: ts) =
      (enumLoop f (n + 1) seen ts >>= fun r => .ok ((⟨name, none⟩ :: r.1.1, r.1.2), r.2)) := by
  rw [enumLoop]; simp

theorem enumLoop_name_brace (f n : Nat) (seen : Bool) (name : String) (ts : List Token) :
    enumLoop (f + 1) n seen (.text name :: .sep '}' :: ts) = .ok (([⟨name, none⟩], none), ts) := by
  rw [enumLoop]; simp

theorem enumLoop_num_comma (f n : Nat) (seen : Bool) (name : String) (k : Nat)
    (h : inU64 k = true) (ts : List Token) :
    enumLoop (f + 1) n seen (.text name :: .sep '(' :: tNat k :: .sep ')' :: .sep ',' :: ts) =
      (enumLoop f (n + 1) seen ts >>= fun r => .ok ((⟨name, some k⟩ :: r.1.1, r.1.2), r.2)) := by
  rw [enumLoop]; simp [tNat_bind_parseU64 k h]

theorem enumLoop_num_brace (f n : Nat) (seen : Bool) (name : String) (k : Nat)
    (h : inU64 k = true) (ts : List Token) :
    enumLoop (f + 1) n seen (.text name :: .sep '(' :: tNat k :: .sep ')' :: .sep '}' :: ts) =
      .ok (([⟨name, some k⟩], none), ts) := by
  rw [enumLoop]; simp [tNat_bind_parseU64 k h]

theorem enumLoop_marker_comma (f n : Nat) (ts : List Token) :
    enumLoop (f + 1) (n + 1) false (.sep '.' :: .sep '.' :: .sep '.' :: .sep ',' :: ts) =
      (enumLoop f (n + 1) true ts >>= fun r => .ok ((r.1.1, some n), r.2)) := by
  rw [enumLoop]; simp

theorem enumLoop_marker_brace (f n : Nat) (ts : List Token) :
    enumLoop (f + 1) (n + 1) false (.sep '.' :: .sep '.' :: .sep '.' :: .sep '}' :: ts) =
      .ok (([], some n), ts) := by
  rw [enumLoop]; simp

theorem enumLoop_print (vs : List EnumVariant) (ext : Option Nat) (hne : vs ≠ [])
    (hnum : enumNumsWf vs = true) :
    ∀ (i : Nat) (seen : Bool) (fuel : Nat) (rest : List Token), 2 * vs.length ≤ fuel →
      (seen = true → extIn ext i vs.length = none) →
      enumLoop fuel i seen (printEnumLoop vs ext i ++ rest) =
        .ok ((vs, extIn ext i vs.length), rest) := by
  induction vs with
  | nil => exact absurd rfl hne
  | cons v tl ih =>
    intro i seen fuel rest hfuel hseen
    obtain ⟨f, rfl⟩ : ∃ f, fuel = f + 2 := ⟨fuel - 2, by simp at hfuel; omega⟩
    simp only [enumNumsWf, List.all_cons, Bool.and_eq_true] at hnum
    obtain ⟨name, num⟩ := v
    cases tl with
    | nil =>
      by_cases hm : ext = some i
      · subst hm
        have hs : seen = false := by
          cases seen with
          | false => rfl
          | true => have := hseen rfl; simp [extIn_here] at this
        subst hs
        cases num with
        | none =>
          simp [printEnumLoop, printEnumItem, enumLoop_name_comma, enumLoop_marker_brace, extIn_here]
        | some k =>
          simp [printEnumLoop, printEnumItem, enumLoop_num_comma _ _ _ _ k hnum.1,
            enumLoop_marker_brace, extIn_here]
      · have he : extIn ext i 1 = none := by rw [extIn_step ext i 0 hm, extIn_zero]
        cases num with
        | none => simp [printEnumLoop, printEnumItem, enumLoop_name_brace, hm, he]
        | some k =>
          simp [printEnumLoop, printEnumItem, enumLoop_num_brace _ _ _ _ k hnum.1, hm, he]
    | cons v2 tl2 =>
      have ih' := ih (by simp) (by simpa [enumNumsWf] using hnum.2) (i + 1)
      by_cases hm : ext = some i
      · subst hm
        have hs : seen = false := by
          cases seen with
          | false => rfl
          | true =>
            have := hseen rfl
            simp [extIn_here] at this
        subst hs
        have h2 := ih' true f rest (by simp at hfuel ⊢; omega)
          (fun _ => extIn_past i (i + 1) _ (by omega))
        cases num with
        | none =>
          simp [printEnumLoop, printEnumItem, enumLoop_name_comma, enumLoop_marker_comma, h2,
            extIn_here]
        | some k =>
          simp [printEnumLoop, printEnumItem, enumLoop_num_comma _ _ _ _ k hnum.1,
            enumLoop_marker_comma, h2, extIn_here]
      · have he : extIn ext i (tl2.length + 1 + 1) = extIn ext (i + 1) (tl2.length + 1) :=
          extIn_step ext i _ hm
        have h2 := ih' seen (f + 1) rest (by simp at hfuel ⊢; omega)
          (fun hs => by simp only [List.length_cons] at hseen ⊢; rw [← he]; exact hseen hs)
        cases num with
        | none =>
          simp [printEnumLoop, printEnumItem, enumLoop_name_comma, hm, h2, he]
        | some k =>
          simp [printEnumLoop, printEnumItem, enumLoop_num_comma _ _ _ _ k hnum.1, hm, h2, he]

/-- `parse_print_Enumerated` -/
theorem parseEnumerated_print (e : Enumerated) (hw : enumWf e = true) (fuel : Nat)
    (hfuel : 2 * e.variants.length ≤ fuel) (rest : List Token) :
    parseEnumerated fuel (printEnumerated e ++ rest) = .ok (e, rest) := by
  simp only [enumWf, Bool.and_eq_true, Bool.not_eq_true', List.isEmpty_eq_false_iff] at hw
  obtain ⟨⟨hne, hnum⟩, hext⟩ := hw
  have := enumLoop_print e.variants e.extAfter hne hnum 0 false fuel rest hfuel (by simp)
  simp [parseEnumerated, printEnumerated, this, extIn_all _ _ hext]

end Asn1Verif.Front.Syn
