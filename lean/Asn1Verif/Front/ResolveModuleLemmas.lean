import Asn1Verif.Front.ResolveScopeLemmas
/-
  Front end — the substitution theorem for whole modules: the literal variant of a module
  resolves, in the same scope of sibling modules, to the same resolved module.
-/
namespace Asn1Verif.Front.Syn
open Except

/-- `substTy` keeps what `Asn::try_resolve` looks at in a definition -/
theorem enumerated_substTy (σ : Sigma) (t : UTy) (e : Enumerated) :
    substTy σ t = .enumerated e ↔ t = .enumerated e := by
  cases t <;> simp [substTy]

def substVR (σ : Sigma) (v : UValueReference) : UValueReference := { v with ty := substTy σ v.ty }
def substDef (σ : Sigma) (d : UDefinition) : UDefinition := { d with ty := substTy σ d.ty }

theorem find?_substVR (σ : Sigma) (l : List UValueReference) (n : String) :
    (l.map (substVR σ)).find? (fun vr => vr.name == n) =
      (l.find? (fun vr => vr.name == n)).map (substVR σ) := by
  induction l with
  | nil => rfl
  | cons a tl ih =>
    simp only [List.map_cons, List.find?_cons]
    have : (substVR σ a).name = a.name := rfl
    rw [this]
    cases a.name == n <;> simp [ih]

theorem find?_substDef (σ : Sigma) (l : List UDefinition) (n : String) :
    (l.map (substDef σ)).find? (fun d => d.name == n) =
      (l.find? (fun d => d.name == n)).map (substDef σ) := by
  induction l with
  | nil => rfl
  | cons a tl ih =>
    simp only [List.map_cons, List.find?_cons]
    have : (substDef σ a).name = a.name := rfl
    rw [this]
    cases a.name == n <;> simp [ih]

theorem valueReference_substModule (σ : Sigma) (A : UModule) (S : List UModule) (n : String)
    (fuel : Nat) :
    valueReference (fuel + 1) (substModule σ A) S n =
      match A.valueReferences.find? fun vr => vr.name == n with
      | some vr => .ok (some (substVR σ vr))
      | none => valueReference (fuel + 1) A S n := by
  rw [valueReference, valueReference]
  have h1 : (substModule σ A).valueReferences = A.valueReferences.map (substVR σ) := rfl
  have h2 : modelWithImportedItem (substModule σ A) S n = modelWithImportedItem A S n := rfl
  rw [h1, find?_substVR, h2]
  cases A.valueReferences.find? fun vr => vr.name == n <;> rfl

theorem definition_substModule (σ : Sigma) (A : UModule) (S : List UModule) (n : String)
    (fuel : Nat) :
    definition (fuel + 1) (substModule σ A) S n =
      match A.definitions.find? fun d => d.name == n with
      | some d => .ok (some (substDef σ d))
      | none => definition (fuel + 1) A S n := by
  rw [definition, definition]
  have h1 : (substModule σ A).definitions = A.definitions.map (substDef σ) := rfl
  have h2 : modelWithImportedItem (substModule σ A) S n = modelWithImportedItem A S n := rfl
  rw [h1, find?_substDef, h2]
  cases A.definitions.find? fun d => d.name == n <;> rfl

/-- the literal variant of the module sees the same values and the same ENUMERATED types -/
theorem scopeEquiv_substModule (σ : Sigma) (A : UModule) (S : List UModule) :
    ScopeEquiv ⟨A, S⟩ ⟨substModule σ A, S⟩ := by
  constructor
  · intro n
    simp only [Scope.valueOf, Scope.valueReference, chaseFuel, valueReference_substModule]
    rw [valueReference]
    cases A.valueReferences.find? fun vr => vr.name == n <;> rfl
  · intro n
    simp only [Scope.enumView, Scope.resolveTypeRef, Scope.definition, chaseFuel,
      definition_substModule]
    rw [definition]
    cases hfind : A.definitions.find? fun d => d.name == n with
    | none => rfl
    | some d =>
      simp only [FRr.bind_ok, substDef]
      cases hd : d.ty <;> simp [substTy]

theorem resolveValueRefs_subst (sc sc' : Scope) (σ : Sigma) (heq : ScopeEquiv sc sc')
    (ha : Agrees sc σ) (vrs : List UValueReference)
    (hs : ∀ v ∈ vrs, SafeTy sc σ v.ty) :
    sc'.resolveValueRefs (vrs.map (substVR σ)) = sc.resolveValueRefs vrs := by
  induction vrs with
  | nil => rfl
  | cons v tl ih =>
    simp only [List.map_cons, Scope.resolveValueRefs, substVR, resolveTy_congr heq,
      resolveTy_subst sc σ ha v.ty (hs v (by simp))]
    rw [ih (fun x hx => hs x (by simp [hx]))]

theorem resolveDefinitions_subst (sc sc' : Scope) (σ : Sigma) (heq : ScopeEquiv sc sc')
    (ha : Agrees sc σ) (ds : List UDefinition)
    (hs : ∀ d ∈ ds, SafeTy sc σ d.ty) :
    sc'.resolveDefinitions (ds.map (substDef σ)) = sc.resolveDefinitions ds := by
  induction ds with
  | nil => rfl
  | cons d tl ih =>
    simp only [List.map_cons, Scope.resolveDefinitions, substDef, resolveTy_congr heq,
      resolveTy_subst sc σ ha d.ty (hs d (by simp))]
    rw [ih (fun x hx => hs x (by simp [hx]))]

/-- all default names of the table are fresh in every item of the module -/
def SafeModule (sc : Scope) (σ : Sigma) (A : UModule) : Prop :=
  (∀ v ∈ A.valueReferences, SafeTy sc σ v.ty) ∧ (∀ d ∈ A.definitions, SafeTy sc σ d.ty)

/-- **subst**, one module in a scope of siblings: the module with value references and its
    literal variant resolve to the same `Model<Asn<Resolved>>` -/
theorem tryResolve_substModule (σ : Sigma) (A : UModule) (S : List UModule)
    (ha : Agrees ⟨A, S⟩ σ) (hs : SafeModule ⟨A, S⟩ σ A) :
    Scope.tryResolve ⟨substModule σ A, S⟩ = Scope.tryResolve ⟨A, S⟩ := by
  have heq := scopeEquiv_substModule σ A S
  have h1 := resolveValueRefs_subst ⟨A, S⟩ ⟨substModule σ A, S⟩ σ heq ha A.valueReferences hs.1
  have h2 := resolveDefinitions_subst ⟨A, S⟩ ⟨substModule σ A, S⟩ σ heq ha A.definitions hs.2
  simp only [Scope.tryResolve]
  have e1 : (substModule σ A).valueReferences = A.valueReferences.map (substVR σ) := rfl
  have e2 : (substModule σ A).definitions = A.definitions.map (substDef σ) := rfl
  rw [e1, e2, h1, h2]
  rfl

end Asn1Verif.Front.Syn
