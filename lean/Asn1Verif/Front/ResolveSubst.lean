import Asn1Verif.Front.Resolve
/-
  Front end — vocabulary of property C12: the *literal variant* of a type / module (every use of
  a value reference in an INTEGER range, a SIZE constraint or after DEFAULT replaced by the
  literal it names) and the side conditions of the substitution theorems.
-/
namespace Asn1Verif.Front.Syn
open Except

/-- a table of value references: name ↦ literal -/
abbrev Sigma := String → Option LiteralValue

def substInt (σ : Sigma) : URange → URange
  | .ref n =>
    match σ n with
    | some (.integer i) => .lit i
    | _ => .ref n
  | l => l

/-- a SIZE bound: only non-negative integers have a literal form -/
def substSizeAtom (σ : Sigma) : USz → USz
  | .ref n =>
    match σ n with
    | some (.integer i) => if 0 ≤ i then .lit i.toNat else .ref n
    | _ => .ref n
  | l => l

def substSize (σ : Sigma) : Size USz → Size USz
  | .any => .any
  | .fix n e => .fix (substSizeAtom σ n) e
  | .range a b e => .range (substSizeAtom σ a) (substSizeAtom σ b) e

def substRange (σ : Sigma) (r : Range URange) : Range URange :=
  ⟨r.min.map (substInt σ), r.max.map (substInt σ), r.ext⟩

def substDefault (σ : Sigma) : UConst → UConst
  | .ref n =>
    match σ n with
    | some v => .lit v
    | none => .ref n
  | l => l

mutual
def substTy (σ : Sigma) : UTy → UTy
  | .boolean => .boolean
  | .integer r cs => .integer (substRange σ r) cs
  | .string s c => .string (substSize σ s) c
  | .octetString s => .octetString (substSize σ s)
  | .bitString s cs => .bitString (substSize σ s) cs
  | .null => .null
  | .optional t => .optional (substTy σ t)
  | .sequence fs e => .sequence (substFields σ fs) e
  | .sequenceOf t s => .sequenceOf (substTy σ t) (substSize σ s)
  | .set fs e => .set (substFields σ fs) e
  | .setOf t s => .setOf (substTy σ t) (substSize σ s)
  | .enumerated e => .enumerated e
  | .choice vs e => .choice (substVariants σ vs) e
  | .typeReference n t => .typeReference n t
def substFields (σ : Sigma) : UFields → UFields
  | .nil => .nil
  | .cons n tag ty d rest => .cons n tag (substTy σ ty) (d.map (substDefault σ)) (substFields σ rest)
def substVariants (σ : Sigma) : UVariants → UVariants
  | .nil => .nil
  | .cons n tag ty rest => .cons n tag (substTy σ ty) (substVariants σ rest)
end

/-- the literal variant of a module: the uses are replaced, the value reference definitions
    (names and values) and the imports stay -/
def substModule (σ : Sigma) (m : UModule) : UModule :=
  { m with
    definitions := m.definitions.map fun d => { d with ty := substTy σ d.ty }
    valueReferences := m.valueReferences.map fun v => { v with ty := substTy σ v.ty } }

/-! ### side conditions -/

/-- every entry of the table is what the scope finds under that name -/
def Agrees (sc : Scope) (σ : Sigma) : Prop :=
  ∀ n v, σ n = some v → ∃ vr, sc.valueReference n = .ok (some vr) ∧ vr.value = v

/-- `DEFAULT n` on a component whose type is a reference to an ENUMERATED type is looked up among
    the variants first: a name of the table must not also be such a variant (the names are
    *fresh*) -/
def DefaultSafe (sc : Scope) (ty : UTy) (n : String) : Prop :=
  match ty with
  | .typeReference r _ =>
    match sc.resolveTypeRef r with
    | .ok (.enumerated e) => (e.variants.find? fun v => n == v.name) = none
    | _ => True
  | _ => True

def DefaultOk (sc : Scope) (σ : Sigma) (ty : UTy) : Option UConst → Prop
  | some (.ref n) => (σ n).isSome → DefaultSafe sc ty n
  | _ => True

mutual
def SafeTy (sc : Scope) (σ : Sigma) : UTy → Prop
  | .optional t => SafeTy sc σ t
  | .sequence fs _ => SafeFields sc σ fs
  | .sequenceOf t _ => SafeTy sc σ t
  | .set fs _ => SafeFields sc σ fs
  | .setOf t _ => SafeTy sc σ t
  | .choice vs _ => SafeVariants sc σ vs
  | _ => True
def SafeFields (sc : Scope) (σ : Sigma) : UFields → Prop
  | .nil => True
  | .cons _ _ ty d rest => SafeTy sc σ ty ∧ DefaultOk sc σ ty d ∧ SafeFields sc σ rest
def SafeVariants (sc : Scope) (σ : Sigma) : UVariants → Prop
  | .nil => True
  | .cons _ _ ty rest => SafeTy sc σ ty ∧ SafeVariants sc σ rest
end

end Asn1Verif.Front.Syn
