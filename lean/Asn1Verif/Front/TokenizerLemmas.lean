import Asn1Verif.Front.TokenizerFlat
import Asn1Verif.Front.TokenizerLayout
/-
  Lemmas behind C13/C14: how the single-pass presentation `run` of the tokenizer model consumes
  each kind of separator piece and each lexical item, and the induction over the item list.
-/
namespace Asn1Verif.Front
open Asn1Verif Outcome

/-! ### character classes -/

theorem isSeparator_cases {c : Char} (h : isSeparator c = true) :
    c.toNat ∈ Consts.TOKENIZER_SEPARATORS := by
  simpa [isSeparator] using h

theorem sep_ne {c : Char} (h : isSeparator c = true) :
    c ≠ '-' ∧ c ≠ '/' ∧ c ≠ '*' ∧ c ≠ '\n' ∧ c ≠ '\r' := by
  have h := isSeparator_cases h
  refine ⟨?_, ?_, ?_, ?_, ?_⟩ <;> (intro e; subst e; revert h; decide)

theorem textChar_ne {c : Char} (h : isTextChar c = true) :
    c ≠ '\n' ∧ c ≠ '\r' ∧ isSeparator c = false ∧ isTextStart c = true := by
  simp only [isTextChar, Bool.and_eq_true, Bool.not_eq_true'] at h
  refine ⟨?_, ?_, h.2, h.1⟩ <;> (intro e; subst e; revert h; decide)

/-! ### one character outside a comment -/

theorem run_nl (ln col0 : Nat) (mode : Mode) (st : St) (R : List Char) :
    run ln col0 mode st ('\n' :: R) = run (ln + 1) 0 .normal st.flush R := by
  rw [run_cons]; simp

theorem run_crnl (ln col0 : Nat) (mode : Mode) (st : St) (R : List Char) :
    run ln col0 mode st ('\r' :: '\n' :: R) = run (ln + 1) 0 .normal st.flush R := by
  rw [run_cons]
  have : ('\r' : Char) ≠ '\n' := by decide
  simp only [this, if_false, List.head?_cons, and_self, if_true]
  exact run_nl ..

/-- a character that is neither a line feed nor a dropped carriage return is handed to the
    loop body -/
theorem run_step (ln col0 : Nat) (st : St) (c : Char) (R : List Char)
    (h1 : c ≠ '\n') (h2 : c ≠ '\r') :
    run ln col0 .normal st (c :: R) =
      stepChar (atEndOfLast R) ln col0 c (peekC R) st >>= fun (mode', st') =>
        run ln (col0 + 1) mode' st' R := by
  rw [run_cons]; simp [h1, h2]

theorem run_sep (ln col0 : Nat) (st : St) (c : Char) (R : List Char)
    (hc : isSeparator c = true) (hn : st.nest = 0) :
    run ln col0 .normal st (c :: R) =
      run ln (col0 + 1) .normal (st.push (.separator ⟨ln, col0 + 1⟩ c)) R := by
  obtain ⟨h1, h2, _, h4, h5⟩ := sep_ne hc
  rw [run_step _ _ _ _ _ h4 h5]
  simp [stepChar, hn, h1, h2, hc]

theorem run_textChar (ln col0 : Nat) (st : St) (c : Char) (R : List Char)
    (hc : isTextChar c = true) (hn : st.nest = 0) (hp : okPair c R.head? = true) :
    run ln col0 .normal st (c :: R) =
      run ln (col0 + 1) .normal (st.push (.text ⟨ln, col0 + 1⟩ [c])) R := by
  obtain ⟨h1, h2, h3, h4⟩ := textChar_ne hc
  rw [run_step _ _ _ _ _ h1 h2]
  have a1 : ¬ (c = '-' ∧ peekC R = some '-') := by
    rw [peekC_eq_some (by decide) (by decide)]
    intro ⟨e1, e2⟩
    simp [okPair, e1, e2] at hp
  have a2 : ¬ (c = '/' ∧ peekC R = some '*') := by
    rw [peekC_eq_some (by decide) (by decide)]
    intro ⟨e1, e2⟩
    simp [okPair, e1, e2] at hp
  simp [stepChar, hn, a1, a2, h3, h4]

theorem run_blank (ln col0 : Nat) (st : St) (c : Char) (R : List Char)
    (hc : c = ' ' ∨ c = '\t') (hn : st.nest = 0) :
    run ln col0 .normal st (c :: R) = run ln (col0 + 1) .normal st.flush R := by
  rcases hc with rfl | rfl
  · rw [run_step _ _ _ _ _ (by decide) (by decide)]
    have e1 : isSeparator ' ' = false := by decide
    have e2 : isTextStart ' ' = false := by decide
    have e3 : isFlush ' ' = true := by decide
    simp [stepChar, hn, e1, e2, e3]
  · rw [run_step _ _ _ _ _ (by decide) (by decide)]
    have e1 : isSeparator '\t' = false := by decide
    have e2 : isTextStart '\t' = false := by decide
    have e3 : isFlush '\t' = true := by decide
    simp [stepChar, hn, e1, e2, e3]

/-! ### line comments -/

theorem run_skipLine (b : List Char) : ∀ (ln col0 : Nat) (st : St) (R : List Char),
    b.contains '\n' = false →
    run ln col0 .skipLine st (b ++ '\n' :: R) = run (ln + 1) 0 .normal st.flush R := by
  induction b with
  | nil => intro ln col0 st R _; exact run_nl ..
  | cons c b ih =>
    intro ln col0 st R hb
    simp only [List.contains_cons, Bool.or_eq_false_iff, beq_eq_false_iff_ne, ne_eq] at hb
    have hc : c ≠ '\n' := fun e => hb.1 e.symm
    rw [List.cons_append, run_cons]
    simp only [hc, if_false]
    split
    · exact ih _ _ _ _ hb.2
    · exact ih _ _ _ _ hb.2

theorem run_lineComment (ln col0 : Nat) (st : St) (b R : List Char)
    (hn : st.nest = 0) (hb : b.contains '\n' = false) :
    run ln col0 .normal st ((Piece.lineComment b).chars ++ R) =
      run (ln + 1) 0 .normal st.flush R := by
  simp only [Piece.chars, List.cons_append, List.append_assoc, List.nil_append]
  rw [run_step _ _ _ _ _ (by decide) (by decide)]
  have : peekC ('-' :: (b ++ '\n' :: R)) = some '-' := by
    rw [peekC_eq_some (by decide) (by decide)]; rfl
  simp only [stepChar, hn, Nat.lt_irrefl, if_false, this, and_self, if_true, bind_ok]
  have := run_skipLine ('-' :: b) ln (col0 + 1) st R (by simpa using hb)
  simpa using this

/-! ### block comments -/

/-- state after a block comment: the pending token is pushed iff the comment contained a line
    feed (end of a line), the nesting counter is back at zero -/
def St.close (st : St) (fl : Bool) : St := { (if fl then st.flush else st) with nest := 0 }

theorem St.close_setNest (st : St) (m : Nat) (fl : Bool) :
    ({ st with nest := m } : St).close fl = st.close fl := by
  obtain ⟨p, t, n⟩ := st; cases fl <;> cases p <;> rfl

theorem St.close_flush (st : St) (fl : Bool) : st.flush.close fl = st.close true := by
  cases fl <;> simp [St.close]

theorem posAfter_cons (p : Nat × Nat) (c : Char) (s : List Char) :
    posAfter p (c :: s) = posAfter (advance p c) s := rfl

theorem posAfter_append (p : Nat × Nat) (s t : List Char) :
    posAfter p (s ++ t) = posAfter (posAfter p s) t := by
  simp [posAfter, List.foldl_append]

theorem run_step' (ln col0 : Nat) (st : St) (c : Char) (R : List Char)
    (h1 : c ≠ '\n') (h2 : ¬ (c = '\r' ∧ R.head? = some '\n')) :
    run ln col0 .normal st (c :: R) =
      stepChar (atEndOfLast R) ln col0 c (peekC R) st >>= fun (mode', st') =>
        run ln (col0 + 1) mode' st' R := by
  rw [run_cons]; simp only [h1, h2, if_false]

theorem run_skip1 (ln col0 : Nat) (st : St) (c : Char) (R : List Char)
    (h1 : c ≠ '\n') (h2 : c ≠ '\r') :
    run ln col0 .skip1 st (c :: R) = run ln (col0 + 1) .normal st R := by
  rw [run_cons]; simp [h1, h2]

theorem peekC_cons_eq_some {d y : Char} {X : List Char} (h : peekC (d :: X) = some y) : d = y := by
  simp only [peekC] at h
  split at h
  · simp at h
  · simpa using h

theorem closeScan_cons_cons (n : Nat) (c d : Char) (rest' : List Char) :
    closeScan n (c :: d :: rest') =
      if c = '*' ∧ d = '/' then (if n ≤ 1 then some rest' else closeScan (n - 1) rest')
      else if c = '/' ∧ d = '*' then (if n < NEST_MAX then closeScan (n + 1) rest' else none)
      else closeScan n (d :: rest') := by
  rw [closeScan.eq_def]

theorem closeScan_not_atEnd {n : Nat} {x : List Char} (R : List Char)
    (h : closeScan n x = some []) : atEndOfLast (x ++ R) = false := by
  cases x with
  | nil => simp [closeScan] at h
  | cons a x =>
    cases x with
    | nil => simp [closeScan] at h
    | cons b x =>
      simp only [atEndOfLast, Bool.or_eq_false_iff, decide_eq_false_iff_not]
      refine ⟨⟨by simp, by simp⟩, ?_⟩
      intro e
      simp only [List.cons_append, List.cons.injEq, List.append_eq_nil_iff] at e
      obtain ⟨rfl, rfl, rfl, _⟩ := e
      simp [closeScan] at h

/-- inside a block comment: a text that `closeScan` accepts at depth `n` is consumed entirely,
    without a panic; the pending token is pushed at every line feed -/
theorem run_comment (n : Nat) (x : List Char) :
    closeScan n x = some [] → 0 < n → ∀ (ln col0 : Nat) (st : St) (R : List Char), st.nest = n →
    run ln col0 .normal st (x ++ R) =
      run (posAfter (ln, col0) x).1 (posAfter (ln, col0) x).2 .normal
        (st.close (x.contains '\n')) R := by
  induction n, x using closeScan.induct with
  | case1 n => intro h; simp [closeScan] at h
  | case2 n c => intro h; simp [closeScan] at h
  | case3 n c d rest' hcd hn =>
    obtain ⟨rfl, rfl⟩ := hcd
    intro h hpos ln col0 st R hst
    rw [closeScan_cons_cons] at h
    simp only [and_self, if_true, hn, Option.some.injEq] at h
    subst h
    have h1 : n = 1 := by omega
    subst h1
    simp only [List.cons_append, List.nil_append]
    rw [run_step _ _ _ _ _ (by decide) (by decide)]
    have pk : peekC ('/' :: R) = some '/' := by
      rw [peekC_eq_some (by decide) (by decide)]; rfl
    simp only [stepChar, hst, Nat.zero_lt_one, if_true, pk, bind_ok]
    rw [run_skip1 _ _ _ _ _ (by decide) (by decide)]
    have : (['*', '/'] : List Char).contains '\n' = false := by decide
    rw [this]
    simp only [posAfter, List.foldl_cons, List.foldl_nil, advance]
    have e1 : ('*' : Char) ≠ '\n' := by decide
    have e2 : ('/' : Char) ≠ '\n' := by decide
    simp only [e1, e2, if_false]
    congr 1
  | case4 n c d rest' hcd hn ih =>
    obtain ⟨rfl, rfl⟩ := hcd
    intro h hpos ln col0 st R hst
    rw [closeScan_cons_cons] at h
    simp only [and_self, if_true, hn, if_false] at h
    simp only [List.cons_append]
    rw [run_step _ _ _ _ _ (by decide) (by decide)]
    have pk : peekC ('/' :: (rest' ++ R)) = some '/' := by
      rw [peekC_eq_some (by decide) (by decide)]; rfl
    have hp : 0 < st.nest := by omega
    simp only [stepChar, hp, if_true, pk, bind_ok]
    rw [run_skip1 _ _ _ _ _ (by decide) (by decide)]
    rw [ih h (by omega) ln (col0 + 1 + 1) _ R (by simp [hst])]
    rw [St.close_setNest]
    have e : ('*' :: '/' :: rest').contains '\n' = rest'.contains '\n' := by
      simp only [List.contains_cons]
      have a : ('\n' == '*') = false := by decide
      have b : ('\n' == '/') = false := by decide
      simp [a, b]
    rw [e]
    rfl
  | case5 n c d rest' hncd hcd hn ih =>
    obtain ⟨rfl, rfl⟩ := hcd
    intro h hpos ln col0 st R hst
    rw [closeScan_cons_cons] at h
    have a0 : ¬ (('/' : Char) = '*' ∧ ('*' : Char) = '/') := by decide
    simp only [a0, if_false, and_self, if_true, hn] at h
    simp only [List.cons_append]
    rw [run_step _ _ _ _ _ (by decide) (by decide)]
    have pk : peekC ('*' :: (rest' ++ R)) = some '*' := by
      rw [peekC_eq_some (by decide) (by decide)]; rfl
    have hp : 0 < st.nest := by omega
    have a1 : ('/' : Char) ≠ '*' := by decide
    have hlt : st.nest < NEST_MAX := by omega
    simp only [stepChar, hp, if_true, a1, if_false, pk, St.incNest, hlt, bind_ok]
    rw [run_skip1 _ _ _ _ _ (by decide) (by decide)]
    rw [ih h (by omega) ln (col0 + 1 + 1) _ R (by simp [hst])]
    rw [St.close_setNest]
    have e : ('/' :: '*' :: rest').contains '\n' = rest'.contains '\n' := by
      simp only [List.contains_cons]
      have a : ('\n' == '*') = false := by decide
      have b : ('\n' == '/') = false := by decide
      simp [a, b]
    rw [e]
    rfl
  | case6 n c d rest' hncd hcd hn =>
    intro h
    rw [closeScan_cons_cons] at h
    simp [hcd, hn] at h
  | case7 n c d rest' h1 h2 ih =>
    intro h hpos ln col0 st R hst
    rw [closeScan_cons_cons] at h
    simp only [h1, h2, if_false] at h
    have IH := ih h hpos
    simp only [List.cons_append] at IH ⊢
    by_cases hnl : c = '\n'
    · subst hnl
      rw [run_nl, IH _ _ _ _ (by rw [St.flush_nest, hst]), St.close_flush]
      simp [posAfter_cons, advance, St.close]
    · have hcont : (c :: d :: rest').contains '\n' = (d :: rest').contains '\n' := by
        have : ('\n' == c) = false := by simpa using fun e => hnl e.symm
        rw [List.contains_cons, this, Bool.false_or]
      have hadv : posAfter (ln, col0) (c :: d :: rest') = posAfter (ln, col0 + 1) (d :: rest') := by
        rw [posAfter_cons]; simp [advance, hnl]
      rw [hcont, hadv]
      by_cases hcr : c = '\r' ∧ d = '\n'
      · obtain ⟨rfl, rfl⟩ := hcr
        rw [run_cons]
        simp only [hnl, if_false, List.head?_cons, and_self, if_true]
        exact IH _ _ _ _ hst
      · rw [run_step' _ _ _ _ _ hnl (by simpa using fun a b => hcr ⟨a, b⟩)]
        have hp : 0 < st.nest := by omega
        have hend : atEndOfLast (d :: (rest' ++ R)) = false := by
          have := closeScan_not_atEnd R h
          simpa using this
        have step : stepChar (atEndOfLast (d :: (rest' ++ R))) ln col0 c
            (peekC (d :: (rest' ++ R))) st = ok (.normal, st) := by
          simp only [stepChar, hp, if_true, hend, Bool.and_false]
          by_cases hs : c = '*'
          · subst hs
            have : peekC (d :: (rest' ++ R)) ≠ some '/' := fun e =>
              h1 ⟨rfl, peekC_cons_eq_some e⟩
            simp [this]
          · by_cases hsl : c = '/'
            · subst hsl
              have : peekC (d :: (rest' ++ R)) ≠ some '*' := fun e =>
                h2 ⟨rfl, peekC_cons_eq_some e⟩
              simp [this]
            · simp [hs, hsl]
        rw [step]
        simp only [bind_ok]
        exact IH _ _ _ _ hst

theorem contains_nl_close (b : List Char) :
    (b ++ ['*', '/']).contains '\n' = b.contains '\n' := by
  induction b with
  | nil => decide
  | cons x b ih => simp only [List.cons_append, List.contains_cons, ih]

theorem stepChar_open (last : Bool) (ln col0 : Nat) (st : St) (peek : Option Char)
    (hn : st.nest = 0) (hp : peek = some '*') :
    stepChar last ln col0 '/' peek st =
      ok (.skip1, if Consts.TOKENIZER_OPEN_FLUSHES then ({ st with nest := 1 } : St).flush
        else { st with nest := 1 }) := by
  subst hp
  have a1 : ¬ (('/' : Char) = '-' ∧ some '*' = some '-') := by decide
  have hlt : st.nest < NEST_MAX := by rw [hn]; decide
  simp only [stepChar, hn, Nat.lt_irrefl, if_false, a1, and_self, if_true, St.incNest]
  rw [hn] at hlt
  simp only [hlt, if_true, bind_ok]

theorem run_blockComment (ln col0 : Nat) (st : St) (b R : List Char)
    (hn : st.nest = 0) (hb : (Piece.blockComment b).ok = true) :
    run ln col0 .normal st ((Piece.blockComment b).chars ++ R) =
      run (posAfter (ln, col0) (Piece.blockComment b).chars).1
        (posAfter (ln, col0) (Piece.blockComment b).chars).2 .normal
        (if (Piece.blockComment b).flushes then st.flush else st) R := by
  simp only [Piece.ok, decide_eq_true_eq] at hb
  have hfl : (Piece.blockComment b).flushes =
      (Consts.TOKENIZER_OPEN_FLUSHES || b.contains '\n') := rfl
  rw [hfl]
  simp only [Piece.chars, List.cons_append]
  rw [run_step _ _ _ _ _ (by decide) (by decide)]
  have pk : peekC ('*' :: (b ++ ['*', '/'] ++ R)) = some '*' := by
    rw [peekC_eq_some (by decide) (by decide)]; rfl
  rw [stepChar_open _ _ _ _ _ hn pk]
  simp only [bind_ok]
  rw [run_skip1 _ _ _ _ _ (by decide) (by decide)]
  have hpos : posAfter (ln, col0) ('/' :: '*' :: (b ++ ['*', '/'])) =
      posAfter (ln, col0 + 1 + 1) (b ++ ['*', '/']) := by
    simp [posAfter_cons, advance]
  rw [hpos]
  cases Consts.TOKENIZER_OPEN_FLUSHES with
  | false =>
    simp only [Bool.false_eq_true, if_false, Bool.false_or]
    rw [run_comment 1 _ hb (by decide) ln (col0 + 1 + 1) _ R rfl, St.close_setNest,
      contains_nl_close]
    congr 1
    obtain ⟨p, t, m⟩ := st
    simp only at hn; subst hn
    cases b.contains '\n' <;> cases p <;> rfl
  | true =>
    simp only [if_true, Bool.true_or]
    rw [run_comment 1 _ hb (by decide) ln (col0 + 1 + 1) _ R (by rw [St.flush_nest]),
      St.close_flush, St.close_setNest]
    congr 1
    obtain ⟨p, t, m⟩ := st
    simp only at hn; subst hn
    cases p <;> rfl

/-! ### a whole gap -/

theorem posAfter_noNl (p : Nat × Nat) (s : List Char) (h : s.contains '\n' = false) :
    posAfter p s = (p.1, p.2 + s.length) := by
  induction s generalizing p with
  | nil => rfl
  | cons c s ih =>
    simp only [List.contains_cons, Bool.or_eq_false_iff, beq_eq_false_iff_ne, ne_eq] at h
    have hc : c ≠ '\n' := fun e => h.1 e.symm
    rw [posAfter_cons, ih _ h.2]
    simp only [advance, hc, if_false, List.length_cons]
    congr 1; omega

theorem run_piece (p : Piece) (ln col0 : Nat) (st : St) (R : List Char)
    (hn : st.nest = 0) (hp : p.ok = true) :
    run ln col0 .normal st (p.chars ++ R) =
      run (posAfter (ln, col0) p.chars).1 (posAfter (ln, col0) p.chars).2 .normal
        (if p.flushes then st.flush else st) R := by
  cases p with
  | space => exact run_blank ln col0 st ' ' R (Or.inl rfl) hn
  | tab => exact run_blank ln col0 st '\t' R (Or.inr rfl) hn
  | crlf => exact run_crnl ln col0 .normal st R
  | lf => exact run_nl ln col0 .normal st R
  | lineComment b =>
    have hb : b.contains '\n' = false := by simpa [Piece.ok] using hp
    rw [run_lineComment ln col0 st b R hn hb]
    have : posAfter (ln, col0) (Piece.lineComment b).chars = (ln + 1, 0) := by
      have e : (Piece.lineComment b).chars = ('-' :: '-' :: b) ++ ['\n'] := by simp [Piece.chars]
      have hb' : ('-' :: '-' :: b).contains '\n' = false := by
        rw [List.contains_cons, List.contains_cons, hb]; decide
      rw [e, posAfter_append, posAfter_noNl (ln, col0) ('-' :: '-' :: b) hb']
      rfl
    rw [this]
    rfl
  | blockComment b => exact run_blockComment ln col0 st b R hn hp

theorem run_gap (g : Gap) : ∀ (ln col0 : Nat) (st : St) (R : List Char),
    st.nest = 0 → g.all Piece.ok = true →
    run ln col0 .normal st (Gap.chars g ++ R) =
      run (posAfter (ln, col0) (Gap.chars g)).1 (posAfter (ln, col0) (Gap.chars g)).2 .normal
        (if g.any Piece.flushes then st.flush else st) R := by
  induction g with
  | nil => intro ln col0 st R _ _; rfl
  | cons p g ih =>
    intro ln col0 st R hn hg
    simp only [List.all_cons, Bool.and_eq_true] at hg
    have e : Gap.chars (p :: g) = p.chars ++ Gap.chars g := by simp [Gap.chars]
    rw [e, List.append_assoc, run_piece p ln col0 st _ hn hg.1, posAfter_append]
    have hn' : (if p.flushes then st.flush else st).nest = 0 := by
      split
      · rw [St.flush_nest, hn]
      · exact hn
    rw [ih _ _ _ R hn' hg.2]
    congr 1
    simp only [List.any_cons]
    by_cases h1 : p.flushes = true <;> by_cases h2 : g.any Piece.flushes = true <;> simp [h1, h2]

/-! ### lexical items -/

def Token.isText : Token → Bool
  | .text _ _ => true
  | .separator _ _ => false

/-- the pending token is a text token (the next text character would be appended to it) -/
def St.pendingText (st : St) : Bool :=
  match st.previous with
  | some t => t.isText
  | none => false

theorem St.push_new (st : St) (t : Token) (h : (st.pendingText && t.isText) = false) :
    st.push t = { st with tokens := st.tokens ++ st.previous.toList, previous := some t } := by
  obtain ⟨p, ts, n⟩ := st
  cases p with
  | none => simp [St.push]
  | some cur =>
    cases cur with
    | separator l c => cases t <;> simp [St.push, Token.append]
    | text l x =>
      cases t with
      | separator l' c => simp [St.push, Token.append]
      | text l' y => simp [St.pendingText, Token.isText] at h

theorem St.push_text (st : St) (loc loc' : Location) (pre : List Char) (c : Char)
    (h : st.previous = some (.text loc pre)) :
    st.push (.text loc' [c]) = { st with previous := some (.text loc (pre ++ [c])) } := by
  obtain ⟨p, ts, n⟩ := st
  simp only at h; subst h
  simp [St.push, Token.append]

theorem St.flush_out (st : St) :
    st.flush.tokens ++ st.flush.previous.toList = st.tokens ++ st.previous.toList := by
  obtain ⟨p, ts, n⟩ := st
  cases p <;> simp [St.flush]

theorem St.flush_tokens (st : St) : st.flush.tokens = st.tokens ++ st.previous.toList := by
  obtain ⟨p, ts, n⟩ := st
  cases p <;> simp [St.flush]

theorem St.flush_pendingText (st : St) : st.flush.pendingText = false := by
  obtain ⟨p, ts, n⟩ := st
  cases p <;> simp [St.flush, St.pendingText]

theorem head?_append_or (s R : List Char) : (s ++ R).head? = s.head?.or R.head? := by
  cases s <;> simp

theorem run_textRun (s : List Char) : ∀ (ln col0 : Nat) (st : St) (R : List Char) (loc : Location)
    (pre : List Char), s.all isTextChar = true → noOpener s R.head? = true → st.nest = 0 →
    st.previous = some (.text loc pre) →
    run ln col0 .normal st (s ++ R) =
      run ln (col0 + s.length) .normal { st with previous := some (.text loc (pre ++ s)) } R := by
  induction s with
  | nil =>
    intro ln col0 st R loc pre _ _ _ hp
    obtain ⟨p, ts, n⟩ := st
    simp only at hp; subst hp
    simp
  | cons c s ih =>
    intro ln col0 st R loc pre hs hno hn hp
    simp only [List.all_cons, Bool.and_eq_true] at hs
    simp only [noOpener, Bool.and_eq_true] at hno
    rw [List.cons_append, run_textChar ln col0 st c (s ++ R) hs.1 hn
      (by rw [head?_append_or]; exact hno.1), St.push_text st loc _ pre c hp]
    rw [ih ln (col0 + 1) { st with previous := some (.text loc (pre ++ [c])) } R loc (pre ++ [c])
      hs.2 hno.2 hn rfl]
    simp only [List.length_cons, List.append_assoc, List.singleton_append]
    congr 1; omega

/-- the characters of one lexical item, seen from a state outside comments whose pending token
    is not a text token when the item is one: the pending token is pushed and the item becomes
    the pending token, located at its first character -/
theorem run_item (it : LexItem) (ln col0 : Nat) (st : St) (R : List Char)
    (hok : it.ok = true) (hn : st.nest = 0) (hpt : (st.pendingText && it.isText) = false)
    (hnext : ∀ s, it = .text s → noOpener s R.head? = true) :
    run ln col0 .normal st (it.chars ++ R) =
      run ln (col0 + it.chars.length) .normal
        { st with tokens := st.tokens ++ st.previous.toList,
                  previous := some (it.tokenAt ⟨ln, col0 + 1⟩) } R := by
  cases it with
  | sep c =>
    simp only [LexItem.ok] at hok
    simp only [LexItem.chars, List.cons_append, List.nil_append, List.length_singleton,
      LexItem.tokenAt]
    rw [run_sep ln col0 st c R hok hn, St.push_new st _ (by simp [Token.isText])]
  | text s =>
    have hno := hnext s rfl
    simp only [LexItem.ok, Bool.and_eq_true, Bool.not_eq_true'] at hok
    obtain ⟨⟨hne, hall⟩, _⟩ := hok
    cases s with
    | nil => simp at hne
    | cons c s =>
      simp only [List.all_cons, Bool.and_eq_true] at hall
      simp only [noOpener, Bool.and_eq_true] at hno
      simp only [LexItem.chars, List.cons_append, LexItem.tokenAt, List.length_cons]
      rw [run_textChar ln col0 st c (s ++ R) hall.1 hn (by rw [head?_append_or]; exact hno.1),
        St.push_new st _ (by simpa [Token.isText, LexItem.isText] using hpt)]
      rw [run_textRun s ln (col0 + 1)
        { st with tokens := st.tokens ++ st.previous.toList,
                  previous := some (.text ⟨ln, col0 + 1⟩ [c]) } R ⟨ln, col0 + 1⟩ [c]
        hall.2 hno.2 hn rfl]
      simp only [List.singleton_append]
      congr 1; omega

/-! ### the item list -/

theorem noOpener_next (s : List Char) (h : Option Char) (h0 : noOpener s none = true)
    (hl : ∀ c, s.getLast? = some c → okPair c h = true) : noOpener s h = true := by
  induction s with
  | nil => rfl
  | cons c s ih =>
    simp only [noOpener, Bool.and_eq_true] at h0 ⊢
    cases s with
    | nil =>
      refine ⟨?_, rfl⟩
      simpa using hl c (by simp)
    | cons d s =>
      refine ⟨by simpa using h0.1, ih h0.2 ?_⟩
      intro x hx
      exact hl x (by simpa [List.getLast?_cons_cons] using hx)

theorem item_chars_noNl (it : LexItem) (hok : it.ok = true) : it.chars.contains '\n' = false := by
  cases it with
  | sep c =>
    simp only [LexItem.ok] at hok
    have := (sep_ne hok).2.2.2.1
    simp only [LexItem.chars, List.contains_cons, List.contains_nil, Bool.or_false,
      beq_eq_false_iff_ne, ne_eq]
    exact fun e => this e.symm
  | text s =>
    simp only [LexItem.ok, Bool.and_eq_true] at hok
    have hall := hok.1.2
    simp only [LexItem.chars]
    rw [Bool.eq_false_iff]
    intro hc
    have hmem : '\n' ∈ s := by simpa using hc
    have := List.all_eq_true.mp hall _ hmem
    exact (textChar_ne this).1 rfl

theorem piece_head (p : Piece) :
    ∃ c, p.chars.head? = some c ∧ c ≠ '*' ∧ (c = '-' → p.isLineComment = true) := by
  cases p <;> simp [Piece.chars, Piece.isLineComment]

/-- first character of what follows a text item in a valid layout: never `*`, and `-` only as
    the start of a line comment -/
theorem next_after_text (strict : Bool) (g : Gap) (its : List LexItem) (gs : List Gap)
    (hits : itemsOk strict (!(if strict then g.any Piece.flushes else !g.isEmpty)) its gs = true) :
    ∀ h, (Gap.chars g ++ renderItems its gs).head? = some h →
      h ≠ '*' ∧ (h = '-' → (g.head?.map Piece.isLineComment).getD false = true) := by
  intro h hh
  cases g with
  | cons p g =>
    obtain ⟨c, hc, h1, h2⟩ := piece_head p
    have : (Gap.chars (p :: g) ++ renderItems its gs).head? = some c := by
      have e : Gap.chars (p :: g) = p.chars ++ Gap.chars g := by simp [Gap.chars]
      rw [e, List.append_assoc, head?_append_or, hc]; rfl
    rw [this] at hh
    obtain rfl := Option.some.inj hh
    exact ⟨h1, fun e => by simpa using h2 e⟩
  | nil =>
    have hpt : (!(if strict then ([] : Gap).any Piece.flushes else !([] : Gap).isEmpty)) = true := by
      cases strict <;> rfl
    rw [hpt] at hits
    simp only [Gap.chars, List.map_nil, List.flatten_nil, List.nil_append] at hh
    cases its with
    | nil => simp [renderItems] at hh
    | cons it2 its =>
      simp only [itemsOk, Bool.and_eq_true, Bool.not_eq_true', Bool.true_and] at hits
      obtain ⟨⟨⟨⟨hok2, hnt⟩, _⟩, _⟩, _⟩ := hits
      cases it2 with
      | text s => simp [LexItem.isText] at hnt
      | sep c =>
        simp only [renderItems, LexItem.chars, List.cons_append, List.nil_append, List.head?_cons,
          Option.some.injEq] at hh
        subst hh
        simp only [LexItem.ok] at hok2
        have := sep_ne hok2
        exact ⟨this.2.2.1, fun e => absurd e this.1⟩

/-- Induction over the item list.  `pt` = "the previous item is a text item and nothing that
    ends a token stands between it and the next item"; the state's pending token may be a text
    token only in that case. -/
theorem run_items (items : List LexItem) : ∀ (gs : List Gap) (pt : Bool) (ln col0 : Nat) (st : St),
    st.nest = 0 → (st.pendingText = true → pt = true) → itemsOk true pt items gs = true →
    run ln col0 .normal st (renderItems items gs) =
      ok (st.tokens ++ st.previous.toList ++ located (ln, col0) items gs) := by
  induction items with
  | nil =>
    intro gs pt ln col0 st _ _ _
    simp [renderItems, run, located, St.flush_tokens]
  | cons it its ih =>
    intro gs pt ln col0 st hn hpt hok
    simp only [itemsOk, Bool.and_eq_true, Bool.not_eq_true', if_true] at hok
    obtain ⟨⟨⟨⟨hit, hnt⟩, hg⟩, hdash⟩, hrest⟩ := hok
    have hpt' : (st.pendingText && it.isText) = false := by
      cases hp : st.pendingText with
      | false => rfl
      | true => rw [hpt hp] at hnt; simpa using hnt
    -- the item
    have hnext : ∀ s, it = .text s →
        noOpener s (Gap.chars (gs.headD []) ++ renderItems its gs.tail).head? = true := by
      intro s hs
      subst hs
      have h0 : noOpener s none = true := by
        simp only [LexItem.ok, Bool.and_eq_true] at hit; exact hit.2
      apply noOpener_next s _ h0
      intro c hc
      cases hh : (Gap.chars (gs.headD []) ++ renderItems its gs.tail).head? with
      | none => simp [okPair]
      | some h =>
        have hrest' : itemsOk true (!(if true then (gs.headD []).any Piece.flushes
            else !(gs.headD []).isEmpty)) its gs.tail = true := by
          simpa [LexItem.isText] using hrest
        obtain ⟨h1, h2⟩ := next_after_text true (gs.headD []) its gs.tail hrest' h hh
        simp only [okPair, Bool.and_eq_true, Bool.not_eq_true', Bool.and_eq_false_iff,
          decide_eq_false_iff_not, Option.some.injEq]
        refine ⟨?_, Or.inr h1⟩
        by_cases hd : h = '-'
        · left
          intro hc'
          subst hc'
          have := h2 hd
          rw [this] at hdash
          simp [LexItem.endsWithDash, hc] at hdash
        · exact Or.inr hd
    rw [renderItems, run_item it ln col0 st _ hit hn hpt' hnext]
    generalize hst₁ : St.mk (some (it.tokenAt ⟨ln, col0 + 1⟩)) (st.tokens ++ st.previous.toList)
      st.nest = st₁
    have hn₁ : st₁.nest = 0 := by rw [← hst₁]; exact hn
    have hout₁ : st₁.tokens ++ st₁.previous.toList =
        st.tokens ++ st.previous.toList ++ [it.tokenAt ⟨ln, col0 + 1⟩] := by
      rw [← hst₁]; rfl
    have hpend₁ : st₁.pendingText = it.isText := by
      rw [← hst₁]; cases it <;> rfl
    -- the gap
    rw [run_gap (gs.headD []) ln (col0 + it.chars.length) st₁ _ hn₁ hg]
    -- the remaining items
    have hpos : posAfter (ln, col0 + it.chars.length) (Gap.chars (gs.headD [])) =
        posAfter (ln, col0) (it.chars ++ Gap.chars (gs.headD [])) := by
      rw [posAfter_append, posAfter_noNl (ln, col0) it.chars (item_chars_noNl it hit)]
    rw [hpos]
    by_cases hfl : (gs.headD []).any Piece.flushes = true
    · simp only [hfl, if_true]
      rw [ih gs.tail _ _ _ st₁.flush (by rw [St.flush_nest, hn₁])
        (by rw [St.flush_pendingText]; intro h; cases h) hrest]
      rw [St.flush_out, hout₁]
      simp [located, locOf]
    · have hfl' : (gs.headD []).any Piece.flushes = false := by simpa using hfl
      rw [hfl'] at hrest ⊢
      simp only [Bool.false_eq_true, if_false]
      rw [ih gs.tail _ _ _ st₁ hn₁
        (by rw [hpend₁]; intro h; simp [h]) hrest]
      rw [hout₁]
      simp [located, locOf]

/-- the whole rendered text -/
theorem run_render (items : List LexItem) (L : Layout) (h : layoutOk true items L = true) :
    run 1 0 .normal {} (render items L) = ok (expectedTokens items L) := by
  simp only [layoutOk, Bool.and_eq_true] at h
  rw [render, run_gap L.lead 1 0 {} _ rfl h.1]
  have e : (if L.lead.any Piece.flushes then ({} : St).flush else {}) = ({} : St) := by
    split <;> rfl
  rw [e, run_items items L.after false _ _ {} rfl (by intro h; cases h) h.2]
  simp [expectedTokens]

/-! ### what `located` means, index by index -/

theorem located_length (p : Nat × Nat) (items : List LexItem) (gs : List Gap) :
    (located p items gs).length = items.length := by
  induction items generalizing p gs with
  | nil => rfl
  | cons it its ih => simp [located, ih]

theorem located_strip (p : Nat × Nat) (items : List LexItem) (gs : List Gap) :
    (located p items gs).map Token.strip = items := by
  induction items generalizing p gs with
  | nil => rfl
  | cons it its ih =>
    simp only [located, List.map_cons, ih]
    cases it <;> rfl

/-- the `i`-th expected token stands where the text rendered for the first `i` items (with
    their gaps) ends -/
theorem located_getElem? (items : List LexItem) : ∀ (p : Nat × Nat) (gs : List Gap) (i : Nat)
    (h : i < items.length),
    (located p items gs)[i]? =
      some (items[i].tokenAt (locOf (posAfter p (renderItems (items.take i) gs)))) := by
  induction items with
  | nil => intro p gs i h; simp at h
  | cons it its ih =>
    intro p gs i h
    cases i with
    | zero => simp [located, renderItems, posAfter]
    | succ i =>
      have h' : i < its.length := by simpa using h
      simp only [located, List.getElem?_cons_succ, List.take_succ_cons, renderItems,
        List.getElem_cons_succ]
      rw [ih _ _ i h']
      simp only [posAfter_append]

/-- the text rendered for the first `i` items is a prefix of the whole text and item `i`
    follows it immediately -/
theorem renderItems_split (items : List LexItem) : ∀ (gs : List Gap) (i : Nat)
    (h : i < items.length),
    ∃ post, renderItems items gs = renderItems (items.take i) gs ++ (items[i].chars ++ post) := by
  induction items with
  | nil => intro gs i h; simp at h
  | cons it its ih =>
    intro gs i h
    cases i with
    | zero => exact ⟨Gap.chars (gs.headD []) ++ renderItems its gs.tail, by simp [renderItems]⟩
    | succ i =>
      have h' : i < its.length := by simpa using h
      obtain ⟨post, hp⟩ := ih gs.tail i h'
      refine ⟨post, ?_⟩
      simp only [renderItems, List.take_succ_cons, List.getElem_cons_succ, List.append_assoc]
      rw [hp]

/-! ### layouts without one-line block comments: every non-empty gap ends the pending token -/

/-- every non-empty gap contains a piece that ends the pending token -/
def gapsSeparate (gs : List Gap) : Bool := gs.all fun g => g.isEmpty || g.any Piece.flushes

theorem itemsOk_strict_of (items : List LexItem) : ∀ (gs : List Gap) (pt : Bool),
    gapsSeparate gs = true → itemsOk false pt items gs = true → itemsOk true pt items gs = true := by
  induction items with
  | nil => intro _ _ _ _; rfl
  | cons it its ih =>
    intro gs pt hs h
    have hg : (gs.headD []).any Piece.flushes = !(gs.headD []).isEmpty := by
      cases gs with
      | nil => rfl
      | cons g gs =>
        simp only [gapsSeparate, List.all_cons, Bool.and_eq_true, Bool.or_eq_true] at hs
        simp only [List.headD_cons]
        rcases hs.1 with h | h
        · cases g with
          | nil => rfl
          | cons _ _ => simp at h
        · rw [h]
          cases g with
          | nil => simp at h
          | cons _ _ => rfl
    have hs' : gapsSeparate gs.tail = true := by
      cases gs with
      | nil => rfl
      | cons g gs =>
        simp only [gapsSeparate, List.all_cons, Bool.and_eq_true] at hs
        exact hs.2
    simp only [itemsOk, Bool.and_eq_true, if_true, Bool.false_eq_true, if_false] at h ⊢
    refine ⟨h.1, ?_⟩
    rw [hg]
    exact ih _ _ hs' h.2

/-- with repair R5 in the source (the arm that opens a block comment pushes the pending token)
    every piece ends the pending token, so every non-empty gap separates -/
theorem gapsSeparate_of_open_flushes (hf : Consts.TOKENIZER_OPEN_FLUSHES = true) (gs : List Gap) :
    gapsSeparate gs = true := by
  simp only [gapsSeparate, List.all_eq_true, Bool.or_eq_true]
  intro g _
  cases g with
  | nil => left; rfl
  | cons p g =>
    right
    simp only [List.any_cons, Bool.or_eq_true]
    left
    cases p <;> simp [Piece.flushes, hf]

end Asn1Verif.Front
