import Asn1Verif.Front.ParserSpec
import Asn1Verif.Front.ParserNumLemmas
/-
  Front end — parse ∘ print for the constructs that do not nest:
  primitives of the token interface, numbers as tokens, tags, named numbers, INTEGER ranges,
  SIZE constraints, ENUMERATED, literals.

  Every lemma has the form `parseX (printX x ++ rest) = ok (x', rest)` for arbitrary following
  tokens `rest` (with a side condition on how `rest` starts where the parser looks ahead), so
  that the lemmas compose.
-/
namespace Asn1Verif.Front.Syn
open Except

/-! ### the `Except` monad -/

@[simp] theorem FR.bind_ok {α β : Type} (a : α) (f : α → FR β) :
    ((Except.ok a : FR α) >>= f) = f a := rfl
@[simp] theorem FR.bind_error {α β : Type} (e : FErr) (f : α → FR β) :
    ((Except.error e : FR α) >>= f) = .error e := rfl
@[simp] theorem FR.map_ok {α β : Type} (a : α) (f : α → β) :
    (f <$> (Except.ok a : FR α)) = .ok (f a) := rfl
@[simp] theorem FR.pure_eq {α : Type} (a : α) : (pure a : FR α) = .ok a := rfl

/-! ### token interface on explicit lists -/

@[simp] theorem eqSep_sep (c d : Char) : (Token.sep c).eqSep d = (c == d) := rfl
@[simp] theorem eqSep_text (s : String) (d : Char) : (Token.text s).eqSep d = false := rfl
@[simp] theorem eqTextIC_text (s kw : String) : (Token.text s).eqTextIC kw = eqIC s kw := rfl
@[simp] theorem eqTextIC_sep (c : Char) (kw : String) : (Token.sep c).eqTextIC kw = false := rfl
@[simp] theorem isText_text (s : String) : (Token.text s).isText = true := rfl
@[simp] theorem isText_sep (c : Char) : (Token.sep c).isText = false := rfl
@[simp] theorem text?_text (s : String) : (Token.text s).text? = some s := rfl
@[simp] theorem text?_sep (c : Char) : (Token.sep c).text? = none := rfl

@[simp] theorem nextOrErr_cons (t : Token) (r : List Token) : nextOrErr (t :: r) = .ok (t, r) := rfl
@[simp] theorem peekOrErr_cons (t : Token) (r : List Token) : peekOrErr (t :: r) = .ok t := rfl
@[simp] theorem nextTextOrErr_text (s : String) (r : List Token) :
    nextTextOrErr (.text s :: r) = .ok (s, r) := rfl
@[simp] theorem nextSepEq_cons (c : Char) (t : Token) (r : List Token) :
    nextSepEq c (t :: r) = if t.eqSep c then .ok r else .error .expectedSeparatorGot := rfl
@[simp] theorem nextIsSep_cons (c : Char) (t : Token) (r : List Token) :
    nextIsSep c (t :: r) = if t.eqSep c then some r else none := rfl
@[simp] theorem nextIsSep_nil (c : Char) : nextIsSep c [] = none := rfl
@[simp] theorem peekIsSep_cons (c : Char) (t : Token) (r : List Token) :
    peekIsSep c (t :: r) = t.eqSep c := rfl
@[simp] theorem peekIsSep_nil (c : Char) : peekIsSep c [] = false := rfl
@[simp] theorem peekIsTextIC_cons (kw : String) (t : Token) (r : List Token) :
    peekIsTextIC kw (t :: r) = t.eqTextIC kw := rfl
@[simp] theorem peekIsTextIC_nil (kw : String) : peekIsTextIC kw [] = false := rfl
@[simp] theorem nextTextEqIC_cons (kw : String) (t : Token) (r : List Token) :
    nextTextEqIC kw (t :: r) = if t.eqTextIC kw then .ok r else .error .expectedTextGot := rfl
@[simp] theorem nextIsTextEqIC_cons (kw : String) (t : Token) (r : List Token) :
    nextIsTextEqIC kw (t :: r) = if t.eqTextIC kw then some r else none := rfl
@[simp] theorem nextIsTextEqIC_nil (kw : String) : nextIsTextEqIC kw [] = none := rfl

@[simp] theorem dots_zero (ts : List Token) : dots 0 ts = .ok ts := rfl
@[simp] theorem dots_succ_dot (n : Nat) (ts : List Token) :
    dots (n + 1) (.sep '.' :: ts) = dots n ts := by
  simp [dots]

@[simp] theorem loopCtrl_comma : loopCtrl (.sep ',') = .ok true := by simp [loopCtrl]
@[simp] theorem loopCtrl_brace : loopCtrl (.sep '}') = .ok false := by simp [loopCtrl]

/-! ### how the rest of the input may start -/

/-- the parser looks one token ahead after a type: for `(` (constraint), `{` (named numbers) and
    `SIZE` -/
structure RestOk (rest : List Token) : Prop where
  paren : nextIsSep '(' rest = none
  brace : nextIsSep '{' rest = none
  size : peekIsTextIC "SIZE" rest = false

theorem RestOk.sep (c : Char) (r : List Token) (h1 : c ≠ '(') (h2 : c ≠ '{') :
    RestOk (.sep c :: r) := by
  constructor <;> simp [h1, h2]

theorem RestOk.text (s : String) (r : List Token) (h : eqIC s "SIZE" = false) :
    RestOk (.text s :: r) := by
  constructor <;> simp [h]

theorem RestOk.nil : RestOk [] := by constructor <;> rfl

/-! ### numbers as tokens -/

@[simp] theorem tNat_eqSep (n : Nat) (c : Char) : (tNat n).eqSep c = false := rfl
@[simp] theorem tInt_eqSep (i : Int) (c : Char) : (tInt i).eqSep c = false := rfl
@[simp] theorem tNat_isText (n : Nat) : (tNat n).isText = true := rfl

theorem tNat_eqTextIC (n : Nat) (kw : String) (d : Char) (r' : List Char)
    (hk : lowerL kw = d :: r') (hd : d.isDigit = false) (hd' : d ≠ '-') :
    (tNat n).eqTextIC kw = false := eqIC_nat_kw n kw d r' hk hd hd'

@[simp] theorem tNat_not_UNIVERSAL (n : Nat) : (tNat n).eqTextIC "UNIVERSAL" = false :=
  tNat_eqTextIC n _ 'u' "niversal".toList (by decide) (by decide) (by decide)
@[simp] theorem tNat_not_APPLICATION (n : Nat) : (tNat n).eqTextIC "APPLICATION" = false :=
  tNat_eqTextIC n _ 'a' "pplication".toList (by decide) (by decide) (by decide)
@[simp] theorem tNat_not_PRIVATE (n : Nat) : (tNat n).eqTextIC "PRIVATE" = false :=
  tNat_eqTextIC n _ 'p' "rivate".toList (by decide) (by decide) (by decide)

@[simp] theorem parseTagNumber_tNat (n : Nat) (h : inU64 n = true) :
    parseTagNumber (tNat n) = .ok n := by
  have h' : n ≤ U64_MAX := by simpa [inU64] using h
  simp only [parseTagNumber, tNat, text?_text, Option.bind_some, parseU64_toString n h']

@[simp] theorem constantI64_tInt (i : Int) (h : inI64 i = true) : constantI64 (tInt i) = .ok i := by
  have h' : I64_MIN ≤ i ∧ i ≤ I64_MAX := by simpa [inI64] using h
  simp only [constantI64, tInt, text?_text, Option.bind_some, parseI64_toString i h'.1 h'.2]

@[simp] theorem constantU64_tNat (n : Nat) (h : inU64 n = true) : constantU64 (tNat n) = .ok n := by
  have h' : n ≤ U64_MAX := by simpa [inU64] using h
  simp only [constantU64, tNat, text?_text, Option.bind_some, parseU64_toString n h']

/-! ### tags -/

theorem eqIC_refl_UNIVERSAL : eqIC "UNIVERSAL" "UNIVERSAL" = true := by decide
theorem eqIC_refl_APPLICATION : eqIC "APPLICATION" "APPLICATION" = true := by decide
theorem eqIC_refl_PRIVATE : eqIC "PRIVATE" "PRIVATE" = true := by decide
theorem eqIC_APPLICATION_UNIVERSAL : eqIC "APPLICATION" "UNIVERSAL" = false := by decide
theorem eqIC_PRIVATE_UNIVERSAL : eqIC "PRIVATE" "UNIVERSAL" = false := by decide
theorem eqIC_PRIVATE_APPLICATION : eqIC "PRIVATE" "APPLICATION" = false := by decide

/-- `parse_print_Tag`: a printed tag in front of any text token is read back, class and number -/
theorem nextWithOptTag_print (tag : Option Tag) (h : tagWf tag = true) (s : String)
    (rest : List Token) :
    nextWithOptTag (printTag tag ++ .text s :: rest) = .ok ((.text s, tag), rest) := by
  cases tag with
  | none => simp [nextWithOptTag, printTag]
  | some t =>
    cases t <;>
      simp_all [nextWithOptTag, printTag, printTagToks, parseTag, tagWf, eqIC_refl_UNIVERSAL,
        eqIC_refl_APPLICATION, eqIC_refl_PRIVATE, eqIC_APPLICATION_UNIVERSAL,
        eqIC_PRIVATE_UNIVERSAL, eqIC_PRIVATE_APPLICATION]

/-! ### named numbers -/

theorem constantsLoop_print {α : Type} (f : α → Token) (parser : Token → FR α) (ok : α → Bool)
    (hf : ∀ a, ok a = true → parser (f a) = .ok a)
    (cs : List (String × α)) (hne : cs ≠ []) (hcs : cs.all (fun c => ok c.2) = true)
    (fuel : Nat) (hfuel : cs.length ≤ fuel) (rest : List Token) :
    constantsLoop parser fuel (printConstantsLoop f cs ++ rest) = .ok (cs, rest) := by
  induction cs generalizing fuel with
  | nil => exact absurd rfl hne
  | cons c tl ih =>
    obtain ⟨n, v⟩ := c
    simp only [List.all_cons, Bool.and_eq_true] at hcs
    cases fuel with
    | zero => simp at hfuel
    | succ fuel =>
      cases tl with
      | nil =>
        simp [printConstantsLoop, constantsLoop, readConstant, hf v hcs.1]
      | cons c2 tl2 =>
        have ih' := ih (by simp) hcs.2 fuel (by simpa using hfuel)
        simp [printConstantsLoop, constantsLoop, readConstant, hf v hcs.1, ih']

theorem maybeReadConstants_print {α : Type} (f : α → Token) (parser : Token → FR α) (ok : α → Bool)
    (hf : ∀ a, ok a = true → parser (f a) = .ok a)
    (cs : List (String × α)) (hcs : cs.all (fun c => ok c.2) = true)
    (fuel : Nat) (hfuel : cs.length ≤ fuel) (rest : List Token)
    (hrest : nextIsSep '{' rest = none) :
    maybeReadConstants parser fuel (printConstants f cs ++ rest) = .ok (cs, rest) := by
  cases cs with
  | nil => simp [printConstants, maybeReadConstants, hrest]
  | cons c tl =>
    simp only [printConstants, maybeReadConstants, List.cons_append, nextIsSep_cons, eqSep_sep,
      beq_self_eq_true, if_true]
    exact constantsLoop_print f parser ok hf (c :: tl) (by simp) hcs fuel hfuel rest

end Asn1Verif.Front.Syn
