import Asn1Verif.Front.Tokenizer
/-
  A second presentation of the tokenizer model: one pass over the *unsplit* character list, the
  line structure of `str::lines()` folded into the machine (`run`), and the proof that it is the
  same function as the mirror `tokenize` (`tokenize_eq_run`).

  `run` exists for the proofs only (a rendered text is a concatenation of items and separators,
  not of lines, so the layout theorems of C13 are inductions over `run`); the loop body is the
  shared `stepChar` of Tokenizer.lean.  The driver executes `tokenize`, not `run`.
-/
namespace Asn1Verif.Front
open Asn1Verif Outcome

/-- `content_iterator.peek()` seen from the unsplit text: the next character unless the line ends
    here (`\n`, or `\r\n` whose `\r` `str::lines()` drops) -/
def peekC : List Char → Option Char
  | [] => none
  | c :: rest => if c = '\n' ∨ (c = '\r' ∧ rest.head? = some '\n') then none else some c

/-- only a line terminator (or nothing) follows: the current line ends here and is the last one -/
def atEndOfLast (rest : List Char) : Bool :=
  rest = [] || rest = ['\n'] || rest = ['\r', '\n']

/-- the tokenizer as a single pass; `ln` = 1-based line number, `col0` = 0-based column -/
def run : Nat → Nat → Mode → St → List Char → Outcome (List Token)
  | _, _, _, st, [] => ok st.flush.tokens
  | ln, col0, mode, st, c :: rest =>
    if c = '\n' then run (ln + 1) 0 .normal st.flush rest
    else if c = '\r' ∧ rest.head? = some '\n' then run ln (col0 + 1) mode st rest
    else
      match mode with
      | .skipLine => run ln (col0 + 1) .skipLine st rest
      | .skip1 => run ln (col0 + 1) .normal st rest
      | .normal =>
        stepChar (atEndOfLast rest) ln col0 c (peekC rest) st >>= fun (mode', st') =>
          run ln (col0 + 1) mode' st' rest

/-! ### basic facts -/

theorem St.flush_nest (st : St) : st.flush.nest = st.nest := by
  obtain ⟨p, t, n⟩ := st; cases p <;> rfl

theorem St.push_nest (st : St) (t : Token) : (st.push t).nest = st.nest := by
  obtain ⟨p, ts, n⟩ := st
  cases p with
  | none => rfl
  | some cur =>
    simp only [St.push]
    split <;> rfl

/-- looking for a character that is not part of a line terminator: `peek` is just the next
    character of the text -/
theorem peekC_eq_some {R : List Char} {x : Char} (h1 : x ≠ '\n') (h2 : x ≠ '\r') :
    peekC R = some x ↔ R.head? = some x := by
  cases R with
  | nil => simp [peekC]
  | cons c rest =>
    simp only [peekC, List.head?_cons, Option.some.injEq]
    constructor
    · intro h
      split at h
      · simp at h
      · simpa using h
    · intro h
      subst h
      simp [h1, h2]

/-! ### `tokenize = run` -/

theorem bind_assoc' {α β γ : Type} (x : Outcome α) (f : α → Outcome β) (g : β → Outcome γ) :
    (x >>= f >>= g) = (x >>= fun a => f a >>= g) := by
  cases x <;> rfl

@[simp] theorem St.flush_flush (st : St) : st.flush.flush = st.flush := by
  obtain ⟨p, t, n⟩ := st
  cases p <;> rfl

theorem lexLine_skipLine (last : Bool) (ln col0 : Nat) (l : List Char) (st : St) :
    lexLine last ln col0 .skipLine l st = ok st := by
  cases l <;> simp [lexLine]

theorem run_cons (ln col0 : Nat) (mode : Mode) (st : St) (c : Char) (rest : List Char) :
    run ln col0 mode st (c :: rest) =
      if c = '\n' then run (ln + 1) 0 .normal st.flush rest
      else if c = '\r' ∧ rest.head? = some '\n' then run ln (col0 + 1) mode st rest
      else
        match mode with
        | .skipLine => run ln (col0 + 1) .skipLine st rest
        | .skip1 => run ln (col0 + 1) .normal st rest
        | .normal =>
          stepChar (atEndOfLast rest) ln col0 c (peekC rest) st >>= fun (mode', st') =>
            run ln (col0 + 1) mode' st' rest := by
  rw [run.eq_def]

theorem lexLine_cons (last : Bool) (ln col0 : Nat) (mode : Mode) (st : St) (c : Char)
    (rest : List Char) :
    lexLine last ln col0 mode (c :: rest) st =
      match mode with
      | .skipLine => ok st
      | .skip1 => lexLine last ln (col0 + 1) .normal rest st
      | .normal =>
        stepChar last ln col0 c rest.head? st >>= fun (mode', st') =>
          lexLine last ln (col0 + 1) mode' rest st' := by
  rw [lexLine.eq_def]
  rfl

theorem splitLines_nl (rest : List Char) : splitLines ('\n' :: rest) = [] :: splitLines rest := by
  rw [splitLines.eq_def]; simp

theorem splitLines_crnl (rest : List Char) :
    splitLines ('\r' :: '\n' :: rest) = [] :: splitLines rest := by
  rw [splitLines.eq_def]; simp

theorem splitLines_single (c : Char) (hc : c ≠ '\n') : splitLines [c] = [[c]] := by
  rw [splitLines.eq_def]; simp [hc]

theorem splitLines_eq_nil {s : List Char} : splitLines s = [] ↔ s = [] := by
  constructor
  · intro h
    cases s with
    | nil => rfl
    | cons c rest =>
      exfalso
      rw [splitLines.eq_def] at h
      simp only at h
      split at h
      · simp at h
      · split at h
        · simp at h
        · split at h
          · simp at h
          · split at h <;> simp at h
  · intro h; subst h; rfl

theorem splitLines_cons_cons (c d : Char) (rest' l : List Char) (ls : List (List Char))
    (hc : c ≠ '\n') (hcr : ¬ (c = '\r' ∧ d = '\n')) (hs : splitLines (d :: rest') = l :: ls) :
    splitLines (c :: d :: rest') = (c :: l) :: ls := by
  rw [splitLines.eq_def]
  simp only [hc, if_false, hcr, hs]

/-- the part of the current line still to come and the lines after it -/
def midLines (s : List Char) : List Char × List (List Char) :=
  match splitLines s with
  | [] => ([], [])
  | l :: ls => (l, ls)

theorem stepChar_congr {l1 l2 : Bool} {p1 p2 : Option Char} (ln col0 : Nat) (c : Char) (st : St)
    (hp : p1 = p2) (hl : (p1.isNone && l1) = (p2.isNone && l2)) :
    stepChar l1 ln col0 c p1 st = stepChar l2 ln col0 c p2 st := by
  subst hp
  simp only [stepChar, hl]

theorem splitLines_isEmpty (rest : List Char) : (splitLines rest).isEmpty = decide (rest = []) := by
  cases rest with
  | nil => rfl
  | cons a b =>
    have : splitLines (a :: b) ≠ [] := fun e => by simpa using splitLines_eq_nil.mp e
    cases hh : splitLines (a :: b) with
    | nil => exact absurd hh this
    | cons _ _ => simp

/-- `peek` and the panic test agree between the two presentations -/
theorem peek_agree (R : List Char) (l : List Char) (ls : List (List Char))
    (h : splitLines R = l :: ls) :
    peekC R = l.head? ∧ ((peekC R).isNone && atEndOfLast R) = (l.head?.isNone && ls.isEmpty) := by
  cases R with
  | nil => simp [splitLines] at h
  | cons d rest =>
    by_cases hd : d = '\n'
    · subst hd
      rw [splitLines_nl] at h
      obtain ⟨rfl, rfl⟩ := List.cons.inj h
      simp [peekC, atEndOfLast, splitLines_isEmpty]
    · cases rest with
      | nil =>
        rw [splitLines_single d hd] at h
        obtain ⟨rfl, rfl⟩ := List.cons.inj h
        simp [peekC, hd, atEndOfLast]
      | cons e rest' =>
        by_cases hcr : d = '\r' ∧ e = '\n'
        · obtain ⟨rfl, rfl⟩ := hcr
          rw [splitLines_crnl] at h
          obtain ⟨rfl, rfl⟩ := List.cons.inj h
          simp [peekC, atEndOfLast, splitLines_isEmpty]
        · have hne : splitLines (e :: rest') ≠ [] := fun e => by simpa using splitLines_eq_nil.mp e
          cases hh : splitLines (e :: rest') with
          | nil => exact absurd hh hne
          | cons l' ls' =>
            rw [splitLines_cons_cons d e rest' l' ls' hd hcr hh] at h
            obtain ⟨rfl, rfl⟩ := List.cons.inj h
            have h1 : ¬ (d = '\n' ∨ d = '\r' ∧ (e :: rest').head? = some '\n') := by
              simp only [List.head?_cons, Option.some.injEq, not_or, not_and]
              exact ⟨hd, fun a b => hcr ⟨a, b⟩⟩
            have h2 : atEndOfLast (d :: e :: rest') = false := by
              simp only [atEndOfLast, Bool.or_eq_false_iff, decide_eq_false_iff_not]
              refine ⟨⟨by simp, by simp⟩, ?_⟩
              intro hx
              simp only [List.cons.injEq] at hx
              exact hcr ⟨hx.1, hx.2.1⟩
            simp only [peekC, if_neg h1, h2]
            simp

/-- the single pass, started in the middle of line `line0 + 1`, is the rest of that line's
    `lexLine` followed by `lexLines` of the remaining lines -/
theorem run_eq_mid (s : List Char) : ∀ (line0 col0 : Nat) (mode : Mode) (st : St) (count : Nat),
    count = line0 + 1 + (midLines s).2.length →
    run (line0 + 1) col0 mode st s =
      (lexLine (line0 == count - 1) (line0 + 1) col0 mode (midLines s).1 st >>= fun st' =>
        lexLines count (line0 + 1) (midLines s).2 st'.flush >>= fun st'' => ok st''.flush.tokens) := by
  -- what happens at a line break: both sides continue with the following lines
  have brk : ∀ (rest : List Char),
      (∀ (line0 col0 : Nat) (mode : Mode) (st : St) (count : Nat),
        count = line0 + 1 + (midLines rest).2.length →
        run (line0 + 1) col0 mode st rest =
          (lexLine (line0 == count - 1) (line0 + 1) col0 mode (midLines rest).1 st >>= fun st' =>
            lexLines count (line0 + 1) (midLines rest).2 st'.flush >>= fun st'' =>
              ok st''.flush.tokens)) →
      ∀ (line0 : Nat) (st : St) (count : Nat), count = line0 + 1 + (splitLines rest).length →
        run (line0 + 1 + 1) 0 .normal st.flush rest =
          (lexLines count (line0 + 1) (splitLines rest) st.flush >>= fun st'' =>
            ok st''.flush.tokens) := by
    intro rest ih line0 st count hc
    cases hs : splitLines rest with
    | nil =>
      have : rest = [] := splitLines_eq_nil.mp hs
      subst this
      simp [run, lexLines]
    | cons l' ls' =>
      have hm : midLines rest = (l', ls') := by simp [midLines, hs]
      have := ih (line0 + 1) 0 .normal st.flush count (by rw [hm, hc, hs]; simp; omega)
      rw [this, hm]
      simp only [lexLines, bind_assoc']
  induction s using splitLines.induct with
  | case1 =>
    intro line0 col0 mode st count _
    simp [run, midLines, splitLines, lexLine, lexLines]
  | case2 rest ih =>
    -- '\n' :: rest
    intro line0 col0 mode st count hc
    have hm : midLines ('\n' :: rest) = ([], splitLines rest) := by
      simp [midLines, splitLines_nl]
    rw [hm] at hc ⊢
    rw [run_cons]
    simp only [if_true, lexLine, bind_ok]
    exact brk rest ih line0 st count hc
  | case3 c hc' =>
    -- [c], no line break
    intro line0 col0 mode st count hc
    have hm : midLines [c] = ([c], []) := by simp [midLines, splitLines_single c hc']
    rw [hm] at hc ⊢
    simp only [List.length_nil, Nat.add_zero] at hc
    subst hc
    cases mode with
    | skipLine => simp [run, hc', lexLine, lexLines]
    | skip1 => simp [run, hc', lexLine, lexLines]
    | normal =>
      rw [run_cons, lexLine_cons]
      simp only [hc', if_false, List.head?_nil, and_false, reduceCtorEq]
      have : stepChar (atEndOfLast []) (line0 + 1) col0 c (peekC []) st =
          stepChar (line0 == line0 + 1 - 1) (line0 + 1) col0 c none st :=
        stepChar_congr _ _ _ _ rfl (by simp [peekC, atEndOfLast])
      rw [this]
      cases stepChar (line0 == line0 + 1 - 1) (line0 + 1) col0 c none st with
      | ok p => obtain ⟨m, st'⟩ := p; simp [run, lexLine, lexLines]
      | err k => rfl
      | panic => rfl
  | case4 c hc' d rest' hcr ih =>
    -- '\r' :: '\n' :: rest'
    obtain ⟨rfl, rfl⟩ := hcr
    intro line0 col0 mode st count hc
    have hm : midLines ('\r' :: '\n' :: rest') = ([], splitLines rest') := by
      simp [midLines, splitLines_crnl]
    rw [hm] at hc ⊢
    rw [run_cons, run_cons]
    simp only [hc', if_false, List.head?_cons, and_self, if_true, lexLine, bind_ok]
    exact brk rest' ih line0 st count hc
  | case5 c hc' d rest' hcr hnil ih =>
    exact absurd (splitLines_eq_nil.mp hnil) (by simp)
  | case6 c hc' d rest' hcr l ls hs ih =>
    intro line0 col0 mode st count hc
    have hm : midLines (c :: d :: rest') = (c :: l, ls) := by
      simp [midLines, splitLines_cons_cons c d rest' l ls hc' hcr hs]
    have hm' : midLines (d :: rest') = (l, ls) := by simp [midLines, hs]
    rw [hm] at hc ⊢
    rw [hm'] at ih
    have hcr' : ¬ (c = '\r' ∧ (d :: rest').head? = some '\n') := by
      simpa using fun a b => hcr ⟨a, b⟩
    simp only [] at hc
    rw [run_cons, lexLine_cons]
    simp only [hc', hcr', if_false]
    cases mode with
    | skipLine =>
      simp only []
      rw [ih line0 (col0 + 1) .skipLine st count hc, lexLine_skipLine]
    | skip1 =>
      simp only []
      rw [ih line0 (col0 + 1) .normal st count hc]
    | normal =>
      simp only []
      obtain ⟨hp, hl⟩ := peek_agree (d :: rest') l ls hs
      have : stepChar (atEndOfLast (d :: rest')) (line0 + 1) col0 c (peekC (d :: rest')) st =
          stepChar (line0 == count - 1) (line0 + 1) col0 c l.head? st := by
        apply stepChar_congr _ _ _ _ hp
        rw [hl]; congr 1
        subst hc
        cases ls <;> simp <;> omega
      rw [this]
      cases stepChar (line0 == count - 1) (line0 + 1) col0 c l.head? st with
      | ok p =>
        obtain ⟨m, st'⟩ := p
        simp only [bind_ok]
        exact ih line0 (col0 + 1) m st' count hc
      | err k => rfl
      | panic => rfl

/-- the mirror `tokenize` (lines, then characters) and the single pass are the same function -/
theorem tokenize_eq_run (s : List Char) : tokenize s = run 1 0 .normal {} s := by
  cases hs : splitLines s with
  | nil =>
    have : s = [] := splitLines_eq_nil.mp hs
    subst this
    simp [tokenize, splitLines, lexLines, run]
  | cons l ls =>
    have hm : midLines s = (l, ls) := by simp [midLines, hs]
    have := run_eq_mid s 0 0 .normal {} (1 + ls.length) (by rw [hm])
    rw [hm] at this
    simp only [tokenize, hs, List.length_cons, lexLines]
    rw [this]
    have e2 : ls.length + 1 = 1 + ls.length := by omega
    simp only [Nat.zero_add, e2, bind_assoc']

end Asn1Verif.Front
