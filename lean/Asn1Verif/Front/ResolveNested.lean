import Asn1Verif.Front.ResolveLemmas
/-
  Front end — the substitution theorem for nested types, component lists and whole modules
  (fixed scope), by mutual structural recursion.
-/
namespace Asn1Verif.Front.Syn
open Except

theorem FR.bind_eq_ok {α β : Type} (x : FR α) (f : α → FR β) (b : β) :
    (x >>= f) = .ok b ↔ ∃ a, x = .ok a ∧ f a = .ok b := by
  cases x with
  | error e => simp
  | ok a => simp

/-- only a type reference resolves to a type reference -/
theorem resolveTy_typeReference_inv (sc : Scope) (u : UTy) (r : String) (tag : Option Tag)
    (h : sc.resolveTy u = .ok (.typeReference r tag)) : u = .typeReference r tag := by
  cases u <;> simp only [Scope.resolveTy, FR.bind_eq_ok, FRr.pure_eq, Except.ok.injEq,
    reduceCtorEq, and_false, exists_false, exists_const] at h
  case typeReference n t =>
    injection h with h1 h2
    subst h1 h2
    rfl

variable (sc : Scope) (σ : Sigma) (ha : Agrees sc σ)

include ha in
mutual
/-- every nested type resolves like its literal variant -/
theorem resolveTy_subst : ∀ t : UTy, SafeTy sc σ t → sc.resolveTy (substTy σ t) = sc.resolveTy t
  | .boolean, _ => rfl
  | .integer r cs, _ => by
    simp only [substTy, Scope.resolveTy, resolveRange_subst sc σ ha]
  | .string s c, _ => by
    simp only [substTy, Scope.resolveTy, resolveSize_subst sc σ ha]
  | .octetString s, _ => by
    simp only [substTy, Scope.resolveTy, resolveSize_subst sc σ ha]
  | .bitString s cs, _ => by
    simp only [substTy, Scope.resolveTy, resolveSize_subst sc σ ha]
  | .null, _ => rfl
  | .optional t, hs => by
    simp only [SafeTy] at hs
    simp only [substTy, Scope.resolveTy, resolveTy_subst t hs]
  | .sequence fs e, hs => by
    simp only [SafeTy] at hs
    simp only [substTy, Scope.resolveTy, resolveFields_subst fs hs]
  | .sequenceOf t s, hs => by
    simp only [SafeTy] at hs
    simp only [substTy, Scope.resolveTy, resolveTy_subst t hs, resolveSize_subst sc σ ha]
  | .set fs e, hs => by
    simp only [SafeTy] at hs
    simp only [substTy, Scope.resolveTy, resolveFields_subst fs hs]
  | .setOf t s, hs => by
    simp only [SafeTy] at hs
    simp only [substTy, Scope.resolveTy, resolveTy_subst t hs, resolveSize_subst sc σ ha]
  | .enumerated e, _ => rfl
  | .choice vs e, hs => by
    simp only [SafeTy] at hs
    simp only [substTy, Scope.resolveTy, resolveVariants_subst vs hs]
  | .typeReference n t, _ => rfl

theorem resolveFields_subst : ∀ fs : UFields, SafeFields sc σ fs →
    sc.resolveFields (substFields σ fs) = sc.resolveFields fs
  | .nil, _ => rfl
  | .cons name tag ty d rest, hs => by
    simp only [SafeFields] at hs
    obtain ⟨hty, hd, hrest⟩ := hs
    simp only [substFields, Scope.resolveFields, resolveTy_subst ty hty,
      resolveFields_subst rest hrest]
    cases hres : sc.resolveTy ty with
    | error e => rfl
    | ok t =>
      cases d with
      | none => rfl
      | some d =>
        have hinv : ∀ r tg, t = .typeReference r tg → ∃ tag', ty = .typeReference r tag' := by
          intro r tg ht
          subst ht
          exact ⟨tg, resolveTy_typeReference_inv sc ty r tg hres⟩
        simp only [Option.map_some, FRr.bind_ok,
          resolveDefault_subst sc σ ha t ty hinv d hd]

theorem resolveVariants_subst : ∀ vs : UVariants, SafeVariants sc σ vs →
    sc.resolveVariants (substVariants σ vs) = sc.resolveVariants vs
  | .nil, _ => rfl
  | .cons name tag ty rest, hs => by
    simp only [SafeVariants] at hs
    simp only [substVariants, Scope.resolveVariants, resolveTy_subst ty hs.1,
      resolveVariants_subst rest hs.2]
end

end Asn1Verif.Front.Syn
