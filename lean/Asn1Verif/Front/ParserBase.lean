import Asn1Verif.Front.Ast
/-
  Front end — primitives below the parser:

  * ASCII case folding / `eq_ignore_ascii_case` on `String` (through `String.toList`, so that the
    kernel can evaluate them on literals),
  * `str::parse::<u64>() / ::<usize>() / ::<i64>()` of Rust's `core::num` (`from_str_radix`, radix 10),
  * the `PeekableTokens` interface of `src/asn/peekable.rs` over a plain token list
    (a function that consumes returns the remaining tokens),
  * `LiteralValue::try_from_asn_str` (`src/asn/mod.rs`).
-/
namespace Asn1Verif.Front.Syn
open Except

/-! ### strings -/

/-- `str::to_ascii_lowercase` as a character list -/
def lowerL (s : String) : List Char := s.toList.map Char.toLower

/-- `a.eq_ignore_ascii_case(b)` for `a` given as a character list -/
def eqICL (a : List Char) (b : String) : Bool := a.map Char.toLower == lowerL b

/-- `a.eq_ignore_ascii_case(b)` -/
def eqIC (a b : String) : Bool := eqICL a.toList b

/-- `c.is_ascii_digit()` -/
def isAsciiDigit (c : Char) : Bool := c.isDigit

/-- `c.is_ascii_hexdigit()` -/
def isAsciiHexDigit (c : Char) : Bool :=
  c.isDigit || ('a' ≤ c && c ≤ 'f') || ('A' ≤ c && c ≤ 'F')

def hexDigitVal (c : Char) : Nat :=
  if c.isDigit then c.toNat - 48
  else if 'a' ≤ c && c ≤ 'f' then c.toNat - 87
  else c.toNat - 55

/-! ### `str::parse` for the integer types (radix 10)

  `from_str_radix`: empty ⇒ `Err`; a single `+` or `-` ⇒ `Err`; a leading `+` is accepted for
  every type, a leading `-` only for signed types (for unsigned types it is an invalid digit);
  then ASCII digits only; overflow ⇒ `Err`. -/

/-- a non-empty list of ASCII digits, as a number -/
def parseDigits (cs : List Char) : Option Nat :=
  if cs.isEmpty then none
  else if cs.all Char.isDigit then some (Nat.ofDigitChars 10 cs 0) else none

/-- `s.parse::<u64>()` = `s.parse::<usize>()` on the 64-bit targets the crate is built for -/
def stripPlus : List Char → List Char
  | '+' :: ds => ds
  | ds => ds

def parseU64L (cs : List Char) : Option Nat :=
  match parseDigits (stripPlus cs) with
  | some n => if n ≤ U64_MAX then some n else none
  | none => none

def parseU64 (s : String) : Option Nat := parseU64L s.toList

/-- `s.parse::<i64>()` -/
def parseI64L (cs : List Char) : Option Int :=
  match cs with
  | '-' :: ds =>
    match parseDigits ds with
    | some n => if n ≤ 2 ^ 63 then some (-(n : Int)) else none
    | none => none
  | '+' :: ds =>
    match parseDigits ds with
    | some n => if n < 2 ^ 63 then some (n : Int) else none
    | none => none
  | ds =>
    match parseDigits ds with
    | some n => if n < 2 ^ 63 then some (n : Int) else none
    | none => none

def parseI64 (s : String) : Option Int := parseI64L s.toList

/-! ### tokens -/

def Token.text? : Token → Option String
  | .text s => some s
  | .sep _ => none

def Token.isText : Token → Bool
  | .text _ => true
  | .sep _ => false

/-- `token.eq_text_ignore_ascii_case(kw)` -/
def Token.eqTextIC (t : Token) (kw : String) : Bool :=
  match t with
  | .text s => eqIC s kw
  | .sep _ => false

/-- `token.eq_separator(c)` -/
def Token.eqSep (t : Token) (c : Char) : Bool :=
  match t with
  | .sep d => d == c
  | .text _ => false

/-! ### `PeekableTokens` -/

/-- `next_or_err` -/
def nextOrErr : List Token → FR (Token × List Token)
  | [] => .error .unexpectedEndOfStream
  | t :: r => .ok (t, r)

/-- `peek_or_err` -/
def peekOrErr : List Token → FR Token
  | [] => .error .unexpectedEndOfStream
  | t :: _ => .ok t

/-- `next_text_or_err` -/
def nextTextOrErr : List Token → FR (String × List Token)
  | [] => .error .unexpectedEndOfStream
  | .text s :: r => .ok (s, r)
  | .sep _ :: _ => .error .expectedText

/-- `next_text_eq_ignore_case_or_err(kw)` (consumes only when it matches) -/
def nextTextEqIC (kw : String) : List Token → FR (List Token)
  | [] => .error .unexpectedEndOfStream
  | t :: r => if t.eqTextIC kw then .ok r else .error .expectedTextGot

/-- `next_is_text_and_eq_ignore_case(kw)`: `some rest` when consumed -/
def nextIsTextEqIC (kw : String) : List Token → Option (List Token)
  | [] => none
  | t :: r => if t.eqTextIC kw then some r else none

/-- `next_separator_eq_or_err(c)` (consumes only when it matches) -/
def nextSepEq (c : Char) : List Token → FR (List Token)
  | [] => .error .unexpectedEndOfStream
  | t :: r => if t.eqSep c then .ok r else .error .expectedSeparatorGot

/-- `next_is_separator_and_eq(c)`: `some rest` when consumed -/
def nextIsSep (c : Char) : List Token → Option (List Token)
  | [] => none
  | t :: r => if t.eqSep c then some r else none

/-- `peek_is_separator_eq(c)` -/
def peekIsSep (c : Char) : List Token → Bool
  | [] => false
  | t :: _ => t.eqSep c

/-- `peek_is_text_eq_ignore_case(kw)` -/
def peekIsTextIC (kw : String) : List Token → Bool
  | [] => false
  | t :: _ => t.eqTextIC kw

/-- the three dots that follow a consumed `,` resp. first `.` -/
def dots (n : Nat) (ts : List Token) : FR (List Token) :=
  match n with
  | 0 => .ok ts
  | n + 1 => do
    let ts ← nextSepEq '.' ts
    dots n ts

/-- `loop_ctrl_separator!(token)`: `true` = `continue`, `false` = `break` -/
def loopCtrl (t : Token) : FR Bool :=
  if t.eqSep ',' then .ok true
  else if t.eqSep '}' then .ok false
  else .error .unexpectedToken

/-! ### `LiteralValue::try_from_asn_str` -/

/-- the digit test shared by `read_literal` and `try_from_asn_str`:
    all ASCII digits, or `-` followed by at least one byte that are all ASCII digits.
    (`"".chars().all(..)` is `true`: the empty string passes and then fails to parse.) -/
def looksLikeInt (cs : List Char) : Bool :=
  cs.all isAsciiDigit ||
    (match cs with
     | '-' :: rest => !rest.isEmpty && rest.all isAsciiDigit
     | _ => false)

/-- pairs of hex digits, most significant first (the list has even length) -/
def hexPairs : List Char → List Nat
  | a :: b :: rest => (hexDigitVal a * 16 + hexDigitVal b) :: hexPairs rest
  | _ => []

/-- groups of eight bits, most significant first (the list length is a multiple of eight) -/
def bitOctets : List Char → List Nat
  | b0 :: b1 :: b2 :: b3 :: b4 :: b5 :: b6 :: b7 :: rest =>
    ([b0, b1, b2, b3, b4, b5, b6, b7].foldl (fun acc b => 2 * acc + (if b = '1' then 1 else 0)) 0)
      :: bitOctets rest
  | _ => []

/-- does `cs` end with the two characters `a b`?  -/
def endsWith2 (cs : List Char) (a b : Char) : Bool :=
  match cs.reverse with
  | y :: x :: _ => x == a && y == b
  | _ => false

def endsWith1 (cs : List Char) (a : Char) : Bool :=
  match cs.reverse with
  | y :: _ => y == a
  | _ => false

/-- `LiteralValue::try_from_asn_str(asn)`; the branches in source order.
    Unreachable corner (not produced by `read_literal`, which always adds both delimiters): the
    one-character string `"` would make `slice[1..0]` panic in the real code; here it is `none`. -/
def tryFromAsnStr (cs : List Char) : Option LiteralValue :=
  if eqICL cs "true" then some (.boolean true)
  else if eqICL cs "false" then some (.boolean false)
  else if cs.head? = some '"' && endsWith1 cs '"' then
    if cs.length < 2 then none
    else some (.string (String.ofList ((cs.drop 1).take (cs.length - 2))))
  else if looksLikeInt cs then
    (parseI64L cs).map .integer
  else if cs.head? = some '\'' && (endsWith2 cs '\'' 'h' || endsWith2 cs '\'' 'H') then
    if cs.length < 3 then none
    else
      let hex := (cs.drop 1).take (cs.length - 3)
      if hex.all isAsciiHexDigit then
        some (.octetString (hexPairs (if hex.length % 2 = 1 then '0' :: hex else hex)))
      else none
  else if cs.head? = some '\'' && (endsWith2 cs '\'' 'b' || endsWith2 cs '\'' 'B') then
    if cs.length < 3 then none
    else
      let bits := (cs.drop 1).take (cs.length - 3)
      if bits.all (fun c => c = '0' || c = '1') then
        some (.octetString (bitOctets (List.replicate ((8 - bits.length % 8) % 8) '0' ++ bits)))
      else none
  else none

end Asn1Verif.Front.Syn
