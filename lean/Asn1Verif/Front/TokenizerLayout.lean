import Asn1Verif.Front.Tokenizer
/-
  Specification side of C13 (no proofs here): lexical items, layouts, the token-level printer
  `render`, positions, the expected token sequence, and the (decidable) side conditions.

  Everything is a plain structural function so that concrete instances evaluate by `decide`.
-/
namespace Asn1Verif.Front
open Asn1Verif

/-! ### lexical items of asn1rs -/

/-- asn1rs's two lexical classes: a run of text characters, or one separator character.
    (A stripped token, i.e. a `Token` without its location, is the same thing.) -/
inductive LexItem where
  | text (s : List Char)
  | sep (c : Char)
  deriving DecidableEq, Repr, Inhabited

def Token.strip : Token → LexItem
  | .text _ s => .text s
  | .separator _ c => .sep c

def LexItem.chars : LexItem → List Char
  | .text s => s
  | .sep c => [c]

def LexItem.isText : LexItem → Bool
  | .text _ => true
  | .sep _ => false

/-- the token this item is expected to become when its first character stands at `loc` -/
def LexItem.tokenAt (loc : Location) : LexItem → Token
  | .text s => .text loc s
  | .sep c => .separator loc c

/-- a character that extends a text token: not a separator, not a control character, not a space -/
def isTextChar (c : Char) : Bool := isTextStart c && !isSeparator c

/-- `c` followed by `next` does not open a comment (`--`, `/*`) -/
def okPair (c : Char) (next : Option Char) : Bool :=
  !(c = '-' && next = some '-') && !(c = '/' && next = some '*')

/-- no two adjacent characters of `s`, nor its last character together with the character
    `next` that follows it in the text, open a comment -/
def noOpener : List Char → Option Char → Bool
  | [], _ => true
  | c :: rest, next => okPair c (rest.head?.or next) && noOpener rest next

def LexItem.ok : LexItem → Bool
  | .text s => !s.isEmpty && s.all isTextChar && noOpener s none
  | .sep c => isSeparator c

def LexItem.endsWithDash : LexItem → Bool
  | .text s => s.getLast? = some '-'
  | .sep _ => false

/-! ### separators between items -/

/-- Scanner for a block comment in the sense of X.680 12.6.4, started after an opening `/*` at
    nesting depth `n ≥ 1`: counts `/*` and `*/` left to right and returns the text that follows
    the `*/` that brings the depth to zero (`none`: never closed, or nested deeper than the
    tokenizer's counter can count). -/
def closeScan : Nat → List Char → Option (List Char)
  | _, [] => none
  | n, c :: rest =>
    match rest with
    | [] => none
    | d :: rest' =>
      if c = '*' ∧ d = '/' then (if n ≤ 1 then some rest' else closeScan (n - 1) rest')
      else if c = '/' ∧ d = '*' then (if n < NEST_MAX then closeScan (n + 1) rest' else none)
      else closeScan n (d :: rest')

/-- one separator piece of a layout -/
inductive Piece where
  | space
  | tab
  | crlf
  | lf
  | lineComment (body : List Char)      -- `--` body `\n`
  | blockComment (body : List Char)     -- `/*` body `*/`, body may contain nested comments
  deriving DecidableEq, Repr, Inhabited

def Piece.chars : Piece → List Char
  | .space => [' ']
  | .tab => ['\t']
  | .crlf => ['\r', '\n']
  | .lf => ['\n']
  | .lineComment b => '-' :: '-' :: (b ++ ['\n'])
  | .blockComment b => '/' :: '*' :: (b ++ ['*', '/'])

/-- side conditions on comment bodies: a line comment body contains no line feed (X.680 12.6.3
    also ends it at a second `--`; bodies with `--` are admitted here because the theorems hold
    for them, see the note on `--` in Props/C13.lean); a block comment body followed by `*/` is
    closed by exactly that `*/` (so it does not contain the closing sequence at depth 1, and
    every nested `/*` in it has its `*/`). -/
def Piece.ok : Piece → Bool
  | .lineComment b => !b.contains '\n'
  | .blockComment b => closeScan 1 (b ++ ['*', '/']) = some []
  | _ => true

/-- the piece ends the pending token of the real tokenizer: everything except — for the code
    without repair R5 (`Consts.TOKENIZER_OPEN_FLUSHES = false`) — a block comment that stays on
    one line -/
def Piece.flushes : Piece → Bool
  | .blockComment b => Consts.TOKENIZER_OPEN_FLUSHES || b.contains '\n'
  | _ => true

def Piece.isLineComment : Piece → Bool
  | .lineComment _ => true
  | _ => false

abbrev Gap := List Piece

def Gap.chars (g : Gap) : List Char := (g.map Piece.chars).flatten

/-- a layout of `n` items: what stands before the first item and after each item (the last
    entry is what follows the last item; missing entries count as empty) -/
structure Layout where
  lead : Gap
  after : List Gap
  deriving DecidableEq, Repr, Inhabited

/-- the token-level printer -/
def renderItems : List LexItem → List Gap → List Char
  | [], _ => []
  | it :: its, gs => it.chars ++ (Gap.chars (gs.headD []) ++ renderItems its gs.tail)

def render (items : List LexItem) (L : Layout) : List Char :=
  Gap.chars L.lead ++ renderItems items L.after

/-- Validity of the gaps after each item.  `prevText` = the previous item is a text item and
    nothing separating stands between it and the next item.

    * every item is a lexical item, every comment body satisfies its side condition;
    * a text item does not directly follow a text item: the gap between two adjacent text items
      must separate them.  `strict = false` is the property as stated — any non-empty gap
      separates.  `strict = true` is what the code needs — the gap must contain a piece that
      ends the pending token (`Piece.flushes`: for the code without repair R5 anything but a
      one-line block comment; with R5 any piece, and then the two notions coincide);
    * a text item ending in `-` is not directly followed by a line comment (`a-` `--c` would
      read `a` `---c`, also under X.680). -/
def itemsOk (strict : Bool) : Bool → List LexItem → List Gap → Bool
  | _, [], _ => true
  | prevText, it :: its, gs =>
    let g := gs.headD []
    it.ok && !(prevText && it.isText) && g.all Piece.ok &&
      !(it.endsWithDash && (g.head?.map Piece.isLineComment).getD false) &&
      itemsOk strict (it.isText && !(if strict then g.any Piece.flushes else !g.isEmpty)) its gs.tail

def layoutOk (strict : Bool) (items : List LexItem) (L : Layout) : Bool :=
  L.lead.all Piece.ok && itemsOk strict false items L.after

/-- no block comments at all -/
def Layout.blockFree (L : Layout) : Bool :=
  (L.lead :: L.after).all fun g => g.all fun p =>
    match p with | .blockComment _ => false | _ => true

/-- only space, tab, CR LF, LF -/
def Layout.whitespaceOnly (L : Layout) : Bool :=
  (L.lead :: L.after).all fun g => g.all fun p =>
    match p with | .blockComment _ => false | .lineComment _ => false | _ => true

/-! ### positions -/

/-- position (line, 0-based column) of the character after `c` standing at `p` -/
def advance (p : Nat × Nat) (c : Char) : Nat × Nat :=
  if c = '\n' then (p.1 + 1, 0) else (p.1, p.2 + 1)

/-- position after the text `s` that starts at `p` -/
def posAfter (p : Nat × Nat) (s : List Char) : Nat × Nat := s.foldl advance p

/-- the `Location` the tokenizer is expected to report: line and column both 1-based -/
def locOf (p : Nat × Nat) : Location := ⟨p.1, p.2 + 1⟩

/-- the expected tokens with the position at which `renderItems` (started at `p`) puts the
    first character of each item -/
def located : Nat × Nat → List LexItem → List Gap → List Token
  | _, [], _ => []
  | p, it :: its, gs =>
    it.tokenAt (locOf p) ::
      located (posAfter p (it.chars ++ Gap.chars (gs.headD []))) its gs.tail

/-- expected result for a whole rendered text (which starts at line 1, column 1) -/
def expectedTokens (items : List LexItem) (L : Layout) : List Token :=
  located (posAfter (1, 0) (Gap.chars L.lead)) items L.after

end Asn1Verif.Front
