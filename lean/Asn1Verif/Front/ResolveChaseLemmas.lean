import Asn1Verif.Front.ResolveLookupLemmas
/-
  Front end — the hop bound of the import chase is never observable (the pigeonhole step).

  `valueReference` and `definition` are the same chase with a different local lookup; `chase` is
  that common shape (`valueReference_eq_chase`, `definition_eq_chase`).  `orbit loc S n j m` is the
  module the chase for `n` stands in after `j` imports followed from `m` (`none`: it has stopped
  before — found locally, no import lists the name, or the imported module is not loaded).

    * `chase_of_orbit_none`   the chase stopped within `k` calls ⇒ every budget ≥ `k` answers alike
    * `chase_of_orbit_some`   `j` hops lead from `m` to `m'` ⇒ budget `j + k` at `m` = budget `k` at `m'`
    * `chase_none_of_cycle`   `j ≥ 1` hops lead from `m` back to `m` ⇒ every budget answers `none`
    * `exists_dup_of_subset`  pigeonhole: more positions than modules in `S`, all of them in `S`
                              ⇒ two positions hold the same module
    * `chase_fuel_irrelevant` `S.length + 1 ≤ k` ⇒ budget `k` = budget `S.length + 1`

  Counting: budget `S.length + 1` = calls in the modules `m₀ = A, m₁, …, m_L` (`L = S.length`).  A
  larger budget can only differ when the chase wants a call in `m_{L+1}`.  `A` need not be in `S`,
  but `m₁ … m_{L+1}` are: `L + 1` positions, `L` modules, so `m_i = m_j` for some
  `1 ≤ i < j ≤ L + 1`; the chase from `m_i` comes back to `m_i`, never stops, and every budget — the
  repaired one included — answers `none`.
-/
namespace Asn1Verif.Front.Syn
open Except

/-- the common shape of `valueReference` and `definition`: `loc` is the lookup in the module -/
def chase {α : Type} (loc : UModule → Option α) (S : List UModule) (n : String) :
    Nat → UModule → FR (Option α)
  | 0, _ => .ok none
  | k + 1, m =>
    match loc m with
    | some a => .ok (some a)
    | none =>
      match modelWithImportedItem m S n with
      | some m' => chase loc S n k m'
      | none => .ok none

theorem valueReference_eq_chase (S : List UModule) (n : String) : ∀ (k : Nat) (m : UModule),
    valueReference k m S n =
      chase (fun m => m.valueReferences.find? fun vr => vr.name == n) S n k m := by
  intro k
  induction k with
  | zero => intro m; rfl
  | succ k ih =>
    intro m
    rw [valueReference, chase]
    cases m.valueReferences.find? fun vr => vr.name == n with
    | some vr => rfl
    | none =>
      cases modelWithImportedItem m S n with
      | none => rfl
      | some m' => exact ih m'

theorem definition_eq_chase (S : List UModule) (n : String) : ∀ (k : Nat) (m : UModule),
    definition k m S n = chase (fun m => m.definitions.find? fun d => d.name == n) S n k m := by
  intro k
  induction k with
  | zero => intro m; rfl
  | succ k ih =>
    intro m
    rw [definition, chase]
    cases m.definitions.find? fun d => d.name == n with
    | some d => rfl
    | none =>
      cases modelWithImportedItem m S n with
      | none => rfl
      | some m' => exact ih m'

/-- one step of the chase: the module it goes to next (`none`: it stops in `m`) -/
def hop {α : Type} (loc : UModule → Option α) (S : List UModule) (n : String) (m : UModule) :
    Option UModule :=
  match loc m with
  | some _ => none
  | none => modelWithImportedItem m S n

/-- where the chase stands after `j` hops from `m` (`none`: it has stopped before) -/
def orbit {α : Type} (loc : UModule → Option α) (S : List UModule) (n : String) :
    Nat → UModule → Option UModule
  | 0, m => some m
  | j + 1, m => (hop loc S n m).bind (orbit loc S n j)

section
variable {α : Type} (loc : UModule → Option α) (S : List UModule) (n : String)

theorem hop_mem (m m' : UModule) (h : hop loc S n m = some m') : m' ∈ S := by
  unfold hop at h
  cases hl : loc m with
  | some a => simp [hl] at h
  | none =>
    simp only [hl] at h
    exact modelWithImportedItem_mem m S n m' h

theorem orbit_add : ∀ (i j : Nat) (m : UModule),
    orbit loc S n (i + j) m = (orbit loc S n i m).bind (orbit loc S n j) := by
  intro i
  induction i with
  | zero => intro j m; simp [orbit]
  | succ i ih =>
    intro j m
    rw [Nat.add_right_comm, orbit, orbit]
    cases hop loc S n m with
    | none => rfl
    | some m' => simpa using ih j m'

/-- an orbit that exists after `j` hops exists after fewer hops -/
theorem orbit_isSome_of_le (i j : Nat) (hij : i ≤ j) (m : UModule)
    (h : (orbit loc S n j m).isSome) : (orbit loc S n i m).isSome := by
  obtain ⟨d, rfl⟩ : ∃ d, j = i + d := ⟨j - i, by omega⟩
  rw [orbit_add] at h
  cases ho : orbit loc S n i m with
  | none => simp [ho] at h
  | some _ => rfl

/-- every module after the first is a module of the scope -/
theorem orbit_succ_mem : ∀ (j : Nat) (m m' : UModule),
    orbit loc S n (j + 1) m = some m' → m' ∈ S := by
  intro j
  induction j with
  | zero =>
    intro m m' h
    rw [orbit] at h
    cases hh : hop loc S n m with
    | none => simp [hh] at h
    | some m₁ =>
      simp only [hh, Option.bind_some, orbit, Option.some.injEq] at h
      exact h ▸ hop_mem loc S n m m₁ hh
  | succ j ih =>
    intro m m' h
    rw [orbit] at h
    cases hh : hop loc S n m with
    | none => simp [hh] at h
    | some m₁ =>
      simp only [hh, Option.bind_some] at h
      exact ih m₁ m' h

/-- the chase stopped within `k` calls: a larger budget changes nothing -/
theorem chase_of_orbit_none : ∀ (k : Nat) (m : UModule), orbit loc S n k m = none →
    ∀ k', k ≤ k' → chase loc S n k' m = chase loc S n k m := by
  intro k
  induction k with
  | zero => intro m h; simp [orbit] at h
  | succ k ih =>
    intro m h k' hk'
    obtain ⟨k'', rfl⟩ : ∃ k'', k' = k'' + 1 := ⟨k' - 1, by omega⟩
    rw [chase, chase]
    rw [orbit, hop] at h
    cases hl : loc m with
    | some a => rfl
    | none =>
      simp only [hl] at h
      cases hi : modelWithImportedItem m S n with
      | none => rfl
      | some m' =>
        simp only [hi, Option.bind_some] at h
        exact ih m' h k'' (by omega)

/-- `j` hops lead from `m` to `m'`: budget `j + k` in `m` is budget `k` in `m'` -/
theorem chase_of_orbit_some : ∀ (j : Nat) (m m' : UModule), orbit loc S n j m = some m' →
    ∀ k, chase loc S n (j + k) m = chase loc S n k m' := by
  intro j
  induction j with
  | zero =>
    intro m m' h k
    simp only [orbit, Option.some.injEq] at h
    rw [Nat.zero_add, h]
  | succ j ih =>
    intro m m' h k
    rw [Nat.add_right_comm, chase]
    rw [orbit, hop] at h
    cases hl : loc m with
    | some a => simp [hl] at h
    | none =>
      simp only [hl] at h
      cases hi : modelWithImportedItem m S n with
      | none => simp [hi] at h
      | some m₁ =>
        simp only [hi, Option.bind_some] at h
        exact ih m₁ m' h k

/-- a chase that is still running after `k` hops has found nothing with budget `k` -/
theorem chase_none_of_orbit_isSome (k : Nat) (m : UModule) (h : (orbit loc S n k m).isSome) :
    chase loc S n k m = .ok none := by
  cases ho : orbit loc S n k m with
  | none => simp [ho] at h
  | some m' =>
    have := chase_of_orbit_some loc S n k m m' ho 0
    simpa [chase] using this

/-- the chase comes back to `m` after `j ≥ 1` hops: it runs for ever -/
theorem orbit_isSome_of_cycle (j : Nat) (hj : 0 < j) (m : UModule)
    (hc : orbit loc S n j m = some m) : ∀ i, (orbit loc S n i m).isSome := by
  intro i
  induction i using Nat.strongRecOn with
  | _ i ih =>
    by_cases hi : i < j
    · exact orbit_isSome_of_le loc S n i j (by omega) m (by simp [hc])
    · obtain ⟨d, rfl⟩ : ∃ d, i = j + d := ⟨i - j, by omega⟩
      rw [orbit_add, hc, Option.bind_some]
      exact ih d (by omega)

/-- … and finds nothing, whatever the budget -/
theorem chase_none_of_cycle (j : Nat) (hj : 0 < j) (m : UModule)
    (hc : orbit loc S n j m = some m) (k : Nat) : chase loc S n k m = .ok none :=
  chase_none_of_orbit_isSome loc S n k m (orbit_isSome_of_cycle loc S n j hj m hc k)

end

/-- pigeonhole: a list longer than `S` whose elements all are in `S` holds some element at two
    positions -/
theorem exists_dup_of_subset {β : Type} (S l : List β) (hsub : ∀ x ∈ l, x ∈ S)
    (hlen : S.length < l.length) :
    ∃ (i j : Nat) (hi : i < l.length) (hj : j < l.length), i < j ∧ l[i] = l[j] := by
  apply Classical.byContradiction
  intro hno
  have hnd : l.Nodup := by
    rw [List.nodup_iff_pairwise_ne, List.pairwise_iff_getElem]
    intro i j hi hj hij heq
    exact hno ⟨i, j, hi, hj, hij, heq⟩
  have := hnd.length_le_of_subset (fun x hx => hsub x hx)
  omega

/-- **the hop bound is not observable**: with a budget of `S.length + 1` calls or more the chase
    answers what it answers with `S.length + 1` calls -/
theorem chase_fuel_irrelevant {α : Type} (loc : UModule → Option α) (S : List UModule)
    (n : String) (A : UModule) (k : Nat) (hk : S.length + 1 ≤ k) :
    chase loc S n k A = chase loc S n (S.length + 1) A := by
  cases hend : orbit loc S n (S.length + 1) A with
  | none => exact chase_of_orbit_none loc S n (S.length + 1) A hend k hk
  | some mEnd =>
    -- the chase is still running after `S.length + 1` hops
    have hsome : ∀ i, i ≤ S.length + 1 → (orbit loc S n i A).isSome := fun i hi =>
      orbit_isSome_of_le loc S n i (S.length + 1) hi A (by simp [hend])
    -- the modules it stands in after 1, …, S.length + 1 hops
    let l : List UModule := (List.range (S.length + 1)).map fun i => (orbit loc S n (i + 1) A).getD A
    have hl : l.length = S.length + 1 := by simp [l]
    have hget : ∀ i (hi : i < l.length), orbit loc S n (i + 1) A = some l[i] := by
      intro i hi
      have hi' : i < S.length + 1 := hl ▸ hi
      have := hsome (i + 1) (by omega)
      cases ho : orbit loc S n (i + 1) A with
      | none => simp [ho] at this
      | some m => simp [l, ho]
    have hsub : ∀ x ∈ l, x ∈ S := by
      intro x hx
      obtain ⟨i, hi, rfl⟩ := List.getElem_of_mem hx
      exact orbit_succ_mem loc S n i A _ (hget i hi)
    obtain ⟨i, j, hi, hj, hij, heq⟩ := exists_dup_of_subset S l hsub (by omega)
    -- from `l[i]` the chase comes back to `l[i]`
    obtain ⟨d, rfl⟩ : ∃ d, j = i + (d + 1) := ⟨j - i - 1, by omega⟩
    have hcyc : orbit loc S n (d + 1) l[i] = some l[i] := by
      have h1 := hget (i + (d + 1)) hj
      rw [show i + (d + 1) + 1 = (i + 1) + (d + 1) by omega, orbit_add, hget i hi,
        Option.bind_some] at h1
      rw [h1, heq]
    have hnone := chase_none_of_cycle loc S n (d + 1) (by omega) l[i] hcyc
    have hi' : i + 1 ≤ S.length := by omega
    have hshift : ∀ k', i + 1 ≤ k' → chase loc S n k' A = .ok none := by
      intro k' hk'
      obtain ⟨e, rfl⟩ : ∃ e, k' = (i + 1) + e := ⟨k' - (i + 1), by omega⟩
      rw [chase_of_orbit_some loc S n (i + 1) A l[i] (hget i hi) e]
      exact hnone e
    rw [hshift k (by omega), hshift (S.length + 1) (by omega)]

theorem valueReference_fuel_irrelevant (A : UModule) (S : List UModule) (n : String) (k : Nat)
    (hk : chaseFuel S ≤ k) : valueReference k A S n = valueReference (chaseFuel S) A S n := by
  rw [valueReference_eq_chase, valueReference_eq_chase]
  exact chase_fuel_irrelevant _ S n A k hk

theorem definition_fuel_irrelevant (A : UModule) (S : List UModule) (n : String) (k : Nat)
    (hk : chaseFuel S ≤ k) : definition k A S n = definition (chaseFuel S) A S n := by
  rw [definition_eq_chase, definition_eq_chase]
  exact chase_fuel_irrelevant _ S n A k hk

end Asn1Verif.Front.Syn
