import Asn1Verif.Front.TotalLeaf
import Asn1Verif.Front.TotalLit
/-
  Front end — totality of the parser model, part 4: the constructs that nest
  (`read_role_given_text`, `Choice::try_from`, `ComponentTypeList::try_from`, `read_field`).

  The three functions are mutually recursive; each passes the budget it received, minus one, to
  its callees.  One induction on the budget proves the three posts together: in the step every
  recursive call is covered by the induction hypothesis because it is made on a suffix of the
  input (one token shorter at least, since a `{`, a field name or `OF` was consumed first).
-/
namespace Asn1Verif.Front.Syn
open Except

/-- the post of the three nesting parsers for a given budget -/
def TypePosts (fuel : Nat) : Prop :=
  (∀ text (ts : List Token), ts.length < fuel →
      Post (parseRoleGiven fuel text ts) (fun r => r.2.length ≤ ts.length)) ∧
  (∀ n ext (ts : List Token), ts.length < fuel →
      Post (choiceLoop fuel n ext ts) (fun r => r.2.length ≤ ts.length)) ∧
  (∀ n (ts : List Token), ts.length < fuel →
      Post (componentLoop fuel n ts) (fun r => r.2.length ≤ ts.length))

theorem parseRoleGiven_step (fuel : Nat) (ih : TypePosts fuel) (text : String) (ts : List Token)
    (h : ts.length < fuel + 1) :
    Post (parseRoleGiven (fuel + 1) text ts) (fun r => r.2.length ≤ ts.length) := by
  obtain ⟨ihR, ihC, ihF⟩ := ih
  unfold parseRoleGiven
  split
  all_goals
    post_auto_with [ihR _ _ (by len_omega), ihC _ _ _ (by len_omega), ihF _ _ (by len_omega),
      parseEnumerated_post _ _ (by len_omega), maybeReadWithComponents_post _ _ (by len_omega),
      parseString_post _ _]

theorem choiceLoop_step (fuel : Nat) (ih : TypePosts fuel) (n : Nat) (ext : Bool)
    (ts : List Token) (h : ts.length < fuel + 1) :
    Post (choiceLoop (fuel + 1) n ext ts) (fun r => r.2.length ≤ ts.length) := by
  obtain ⟨ihR, ihC, ihF⟩ := ih
  unfold choiceLoop
  post_auto_with [ihR _ _ (by len_omega), ihC _ _ _ (by len_omega)]

theorem componentLoop_step (fuel : Nat) (ih : TypePosts fuel) (n : Nat)
    (ts : List Token) (h : ts.length < fuel + 1) :
    Post (componentLoop (fuel + 1) n ts) (fun r => r.2.length ≤ ts.length) := by
  obtain ⟨ihR, ihC, ihF⟩ := ih
  unfold componentLoop
  post_auto_with [ihR _ _ (by len_omega), ihF _ _ (by len_omega), fieldTail_post _]

/-- **the nesting parsers never exhaust their budget** when it exceeds the number of tokens -/
theorem typePosts (fuel : Nat) : TypePosts fuel := by
  induction fuel with
  | zero =>
    exact ⟨fun _ ts h => absurd h (Nat.not_lt_zero _), fun _ _ ts h => absurd h (Nat.not_lt_zero _),
      fun _ ts h => absurd h (Nat.not_lt_zero _)⟩
  | succ fuel ih =>
    exact ⟨parseRoleGiven_step fuel ih, choiceLoop_step fuel ih, componentLoop_step fuel ih⟩

theorem parseRoleGiven_post (fuel : Nat) (text : String) (ts : List Token) (h : ts.length < fuel) :
    Post (parseRoleGiven fuel text ts) (fun r => r.2.length ≤ ts.length) :=
  (typePosts fuel).1 text ts h

theorem choiceLoop_post (fuel n : Nat) (ext : Bool) (ts : List Token) (h : ts.length < fuel) :
    Post (choiceLoop fuel n ext ts) (fun r => r.2.length ≤ ts.length) :=
  (typePosts fuel).2.1 n ext ts h

theorem componentLoop_post (fuel n : Nat) (ts : List Token) (h : ts.length < fuel) :
    Post (componentLoop fuel n ts) (fun r => r.2.length ≤ ts.length) :=
  (typePosts fuel).2.2 n ts h

/-- `read_role` -/
theorem parseRole_post (fuel : Nat) (ts : List Token) (h : ts.length ≤ fuel) :
    Post (parseRole fuel ts) (fun r => r.2.length < ts.length) := by
  unfold parseRole
  post_auto_with [parseRoleGiven_post _ _ _ (by len_omega)]

end Asn1Verif.Front.Syn
