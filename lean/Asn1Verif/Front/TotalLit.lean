import Asn1Verif.Front.TotalBase
/-
  Front end — totality of the parser model, part 3: `( WITH COMPONENTS { … } )`, literals and the
  tail of a field (`OPTIONAL` / `DEFAULT …`).  `valueConstraint` and `stringLoop` recurse on the
  token list itself (no budget); the others are straight-line code or budgeted loops.
-/
namespace Asn1Verif.Front.Syn
open Except

/-! ### WITH COMPONENTS -/

theorem valueConstraint_post (ts : List Token) (level : Nat) :
    Post (valueConstraint ts level) (fun r => r.length ≤ ts.length) := by
  induction ts generalizing level with
  | nil => exact Post.error (by decide)
  | cons t r ih =>
    unfold valueConstraint
    have ih' : ∀ l, Post (valueConstraint r l) (fun x => x.length ≤ (t :: r).length) :=
      fun l => (ih l).mono (fun x hx => by simp only [List.length_cons]; omega)
    split
    · exact Post.ok (Nat.le_refl _)
    · split
      · exact ih' _
      · split
        · exact ih' _
        · exact ih' _

macro_rules | `(tactic| post_bind) => `(tactic| with_reducible refine Post.bind (valueConstraint_post _ _) ?_)
macro_rules | `(tactic| post_tail) => `(tactic| with_reducible refine Post.mono (valueConstraint_post _ _) ?_)

theorem presenceConstraint_post (ts : List Token) :
    Post (presenceConstraint ts) (fun r => r.length + 1 = ts.length) := by
  unfold presenceConstraint
  post_auto

macro_rules | `(tactic| post_bind) => `(tactic| with_reducible refine Post.bind (presenceConstraint_post _) ?_)
macro_rules | `(tactic| post_tail) => `(tactic| with_reducible refine Post.mono (presenceConstraint_post _) ?_)

theorem innerEntries_post (fuel : Nat) (ts : List Token) (h : ts.length < fuel) :
    Post (innerEntries fuel ts) (fun r => r.length ≤ ts.length) := by
  induction fuel generalizing ts with
  | zero => omega
  | succ fuel ih =>
    unfold innerEntries
    have ih' : ∀ (ts' : List Token), ts'.length < ts.length →
        Post (innerEntries fuel ts') (fun r => r.length ≤ ts.length) :=
      fun ts' h' => (ih ts' (by omega)).mono (fun r hr => by omega)
    split
    · exact Post.ok (Nat.le_refl _)
    · post_bind; rintro ⟨name, ts1⟩ h1
      dsimp only at h1 ⊢
      -- the optional value constraint
      refine Post.bind (P := fun r => r.length ≤ ts1.length) ?_ ?_
      · post_auto
      intro ts2 h2
      post_bind; intro p _
      -- the optional presence constraint
      refine Post.bind (P := fun r => r.length ≤ ts2.length) ?_ ?_
      · post_auto
      intro ts3 h3
      split
      · post_bind; intro ts4 h4
        exact ih' ts4 (by omega)
      · exact Post.pure (by omega)

theorem innerTypeConstraints_post (fuel : Nat) (ts : List Token) (h : ts.length ≤ fuel) :
    Post (innerTypeConstraints fuel ts) (fun r => r.length ≤ ts.length) := by
  unfold innerTypeConstraints
  post_bind; intro ts1 h1
  post_bind; intro ts2 h2
  post_bind; intro ts3 h3
  refine Post.bind (P := fun r => r.length ≤ ts3.length) ?_ ?_
  · post_auto
  intro ts4 h4
  refine Post.bind (innerEntries_post fuel ts4 (by omega)) ?_
  intro ts5 h5
  post_auto

theorem maybeReadWithComponents_post (fuel : Nat) (ts : List Token) (h : ts.length ≤ fuel) :
    Post (maybeReadWithComponents fuel ts) (fun r => r.length ≤ ts.length) := by
  unfold maybeReadWithComponents
  post_split
  · rename_i ts1 _ _
    refine Post.bind (innerTypeConstraints_post fuel ts1 (by omega)) ?_
    intro ts2 h2
    post_auto
  · exact Post.ok (Nat.le_refl _)

/-! ### literals -/

theorem stringLoop_post (delim : Char) (ts : List Token) (gap : Nat) :
    Post (stringLoop delim ts gap) (fun r => r.2.length < ts.length) := by
  induction ts generalizing gap with
  | nil => exact Post.error (by decide)
  | cons t r ih =>
    unfold stringLoop
    split
    · exact Post.ok (by simp)
    · refine Post.bind (ih 1) ?_
      rintro ⟨cs, r'⟩ h'
      exact Post.pure (by simp only [List.length_cons]; dsimp only at h'; omega)

macro_rules | `(tactic| post_bind) => `(tactic| with_reducible refine Post.bind (stringLoop_post _ _ _) ?_)
macro_rules | `(tactic| post_tail) => `(tactic| with_reducible refine Post.mono (stringLoop_post _ _ _) ?_)

theorem readStringLiteral_post (delim : Char) (ts : List Token) :
    Post (readStringLiteral delim ts) (fun r => r.2.length < ts.length) := by
  unfold readStringLiteral
  post_auto

macro_rules | `(tactic| post_bind) => `(tactic| with_reducible refine Post.bind (readStringLiteral_post _ _) ?_)
macro_rules | `(tactic| post_tail) => `(tactic| with_reducible refine Post.mono (readStringLiteral_post _ _) ?_)

theorem readHexOrBitStringLiteral_post (ts : List Token) :
    Post (readHexOrBitStringLiteral ts) (fun r => r.2.length < ts.length) := by
  unfold readHexOrBitStringLiteral
  post_auto

macro_rules | `(tactic| post_bind) => `(tactic| with_reducible refine Post.bind (readHexOrBitStringLiteral_post _) ?_)
macro_rules | `(tactic| post_tail) => `(tactic| with_reducible refine Post.mono (readHexOrBitStringLiteral_post _) ?_)

theorem readLiteral_post (ts : List Token) :
    Post (readLiteral ts) (fun r => r.2.length ≤ ts.length) := by
  unfold readLiteral
  post_auto

macro_rules | `(tactic| post_bind) => `(tactic| with_reducible refine Post.bind (readLiteral_post _) ?_)
macro_rules | `(tactic| post_tail) => `(tactic| with_reducible refine Post.mono (readLiteral_post _) ?_)

/-! ### the tail of a field -/

theorem fieldTail_post (ts : List Token) :
    Post (fieldTail ts) (fun r => r.2.length < ts.length) := by
  unfold fieldTail
  post_bind; rintro ⟨t, ts1⟩ h1
  dsimp only at h1 ⊢
  refine Post.bind (P := fun r => r.2.length ≤ ts1.length) ?_ ?_
  · post_auto
  rintro ⟨⟨opt, dflt, t'⟩, ts2⟩ h2
  post_auto

end Asn1Verif.Front.Syn
