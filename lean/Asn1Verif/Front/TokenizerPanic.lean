import Asn1Verif.Front.TokenizerFlat
/-
  The panic condition of the tokenizer (for C14, stated in Props/C13.lean): a token-free
  skeleton of the machine that only tracks the comment nesting counter, and the proof that the
  tokenizer model panics exactly when the skeleton says so and never returns an error.
-/
namespace Asn1Verif.Front
open Asn1Verif Outcome

/-- What one character does to the nesting counter (`none` = the Rust code panics here).
    `atEnd` = this is the last character of the last line; `next` = the character after it. -/
def stepNest (atEnd : Bool) (c : Char) (next : Option Char) (nest : Nat) : Option (Mode × Nat) :=
  if 0 < nest then
    if c = '*' then
      if next = some '/' then some (.skip1, nest - 1) else some (.normal, nest)
    else if c = '/' then
      if next = some '*' then (if nest < NEST_MAX then some (.skip1, nest + 1) else none)
      else some (.normal, nest)
    else if atEnd then none      -- `panic!("The file has unclosed comment blocks. …")`
    else some (.normal, nest)
  else if c = '-' ∧ next = some '-' then some (.skipLine, nest)
  else if c = '/' ∧ next = some '*' then
    (if nest < NEST_MAX then some (.skip1, nest + 1) else none)
  else some (.normal, nest)

/-- The decidable panic condition on the raw text: scan left to right, keeping the nesting
    depth of `/* … */` and whether the scanner is inside a `--` comment (`skipLine`) or has just
    consumed the first half of a two-character sequence (`skip1`).  `true` iff the scan reaches,
    at depth > 0, a character other than `*` and `/` after which only a line terminator (`\n`
    or `\r\n`) or nothing follows — or the depth counter would exceed `i32::MAX`. -/
def panicScan : Nat → Mode → List Char → Bool
  | _, _, [] => false
  | nest, mode, c :: rest =>
    if c = '\n' then panicScan nest .normal rest
    else if c = '\r' ∧ rest.head? = some '\n' then panicScan nest mode rest
    else
      match mode with
      | .skipLine => panicScan nest .skipLine rest
      | .skip1 => panicScan nest .normal rest
      | .normal =>
        match stepNest (atEndOfLast rest) c rest.head? nest with
        | none => true
        | some (mode', nest') => panicScan nest' mode' rest

/-- the loop body and the skeleton agree on the mode and on the nesting counter -/
theorem stepChar_nest_map (last : Bool) (ln col0 : Nat) (c : Char) (peek : Option Char) (st : St) :
    (fun p : Mode × St => (p.1, p.2.nest)) <$> stepChar last ln col0 c peek st =
      match stepNest (peek.isNone && last) c peek st.nest with
      | none => panic
      | some r => ok r := by
  unfold stepNest stepChar St.incNest
  by_cases h0 : 0 < st.nest
  · simp only [h0, if_true]
    by_cases h1 : c = '*'
    · simp only [h1, if_true]
      by_cases h3 : peek = some '/' <;> simp [h3]
    · simp only [h1, if_false]
      by_cases h2 : c = '/'
      · simp only [h2, if_true]
        by_cases h3 : peek = some '*' <;> by_cases h4 : st.nest < NEST_MAX <;> simp [h3, h4]
      · simp only [h2, if_false]
        by_cases h5 : (peek.isNone && last) = true <;> simp [h5]
  · simp only [h0, if_false]
    by_cases h1 : c = '-' ∧ peek = some '-'
    · simp [h1]
    · simp only [h1, if_false]
      by_cases h2 : c = '/' ∧ peek = some '*'
      · simp only [h2, and_self, if_true]
        by_cases h4 : st.nest < NEST_MAX <;> cases Consts.TOKENIZER_OPEN_FLUSHES <;>
          simp [h4, St.flush_nest]
      · simp only [h2, if_false]
        by_cases h6 : isSeparator c = true <;> by_cases h7 : isTextStart c = true <;>
          by_cases h8 : isFlush c = true <;> simp [h6, h7, h8, St.push_nest, St.flush_nest]

theorem stepChar_nest (last : Bool) (ln col0 : Nat) (c : Char) (peek : Option Char) (st : St) :
    match stepNest (peek.isNone && last) c peek st.nest with
    | none => stepChar last ln col0 c peek st = panic
    | some (m, n) => ∃ st', stepChar last ln col0 c peek st = ok (m, st') ∧ st'.nest = n := by
  have h := stepChar_nest_map last ln col0 c peek st
  cases hn : stepNest (peek.isNone && last) c peek st.nest with
  | none =>
    rw [hn] at h
    simp only at h ⊢
    cases hs : stepChar last ln col0 c peek st with
    | ok p => rw [hs] at h; simp at h
    | err k => rw [hs] at h; simp at h
    | panic => rfl
  | some r =>
    obtain ⟨m, n⟩ := r
    rw [hn] at h
    simp only at h ⊢
    cases hs : stepChar last ln col0 c peek st with
    | ok p =>
      rw [hs] at h
      simp only [map_ok, ok.injEq, Prod.mk.injEq] at h
      exact ⟨p.2, by rw [← h.1], h.2⟩
    | err k => rw [hs] at h; simp at h
    | panic => rw [hs] at h; simp at h

theorem atEnd_peek (R : List Char) : ((peekC R).isNone && atEndOfLast R) = atEndOfLast R := by
  by_cases h : atEndOfLast R = true
  · have : peekC R = none := by
      simp only [atEndOfLast, Bool.or_eq_true, decide_eq_true_eq] at h
      rcases h with (rfl | rfl) | rfl <;> simp [peekC]
    simp [this]
  · simp [Bool.eq_false_iff.mpr h]

theorem stepNest_peek (c : Char) (R : List Char) (n : Nat) :
    stepNest ((peekC R).isNone && atEndOfLast R) c (peekC R) n =
      stepNest (atEndOfLast R) c R.head? n := by
  have e1 : (peekC R = some '/') = (R.head? = some '/') :=
    propext (peekC_eq_some (by decide) (by decide))
  have e2 : (peekC R = some '*') = (R.head? = some '*') :=
    propext (peekC_eq_some (by decide) (by decide))
  have e3 : (peekC R = some '-') = (R.head? = some '-') :=
    propext (peekC_eq_some (by decide) (by decide))
  simp only [stepNest, atEnd_peek, e1, e2, e3]

theorem panicScan_cons (nest : Nat) (mode : Mode) (c : Char) (rest : List Char) :
    panicScan nest mode (c :: rest) =
      if c = '\n' then panicScan nest .normal rest
      else if c = '\r' ∧ rest.head? = some '\n' then panicScan nest mode rest
      else
        match mode with
        | .skipLine => panicScan nest .skipLine rest
        | .skip1 => panicScan nest .normal rest
        | .normal =>
          match stepNest (atEndOfLast rest) c rest.head? nest with
          | none => true
          | some (mode', nest') => panicScan nest' mode' rest := by
  rw [panicScan.eq_def]

/-- the single pass panics exactly when the skeleton says so, and never returns an error -/
theorem run_panic_iff (s : List Char) : ∀ (ln col0 : Nat) (mode : Mode) (st : St),
    (run ln col0 mode st s = panic ↔ panicScan st.nest mode s = true) ∧
      ∀ k, run ln col0 mode st s ≠ err k := by
  induction s with
  | nil => intro ln col0 mode st; simp [run, panicScan]
  | cons c rest ih =>
    intro ln col0 mode st
    rw [run_cons, panicScan_cons]
    by_cases h1 : c = '\n'
    · simp only [h1, if_true]
      have := ih (ln + 1) 0 .normal st.flush
      rwa [St.flush_nest] at this
    · simp only [h1, if_false]
      by_cases h2 : c = '\r' ∧ rest.head? = some '\n'
      · simp only [h2, and_self, if_true]
        exact ih ln (col0 + 1) mode st
      · simp only [h2, if_false]
        cases mode with
        | skipLine => exact ih ln (col0 + 1) .skipLine st
        | skip1 => exact ih ln (col0 + 1) .normal st
        | normal =>
          simp only []
          have hs := stepChar_nest (atEndOfLast rest) ln col0 c (peekC rest) st
          rw [stepNest_peek] at hs
          cases hn : stepNest (atEndOfLast rest) c rest.head? st.nest with
          | none =>
            rw [hn] at hs
            simp only at hs
            rw [hs]
            simp
          | some p =>
            obtain ⟨m, n⟩ := p
            rw [hn] at hs
            obtain ⟨st', hst', hnest⟩ := hs
            rw [hst']
            simp only [bind_ok]
            have := ih ln (col0 + 1) m st'
            rwa [hnest] at this

/-- `Tokenizer::parse` panics exactly under `panicScan`; otherwise it returns tokens -/
theorem tokenize_panic_iff (s : List Char) :
    (tokenize s = panic ↔ panicScan 0 .normal s = true) ∧ ∀ k, tokenize s ≠ err k := by
  rw [tokenize_eq_run]
  exact run_panic_iff s 1 0 .normal {}

/-- without a `/*` anywhere in the text the nesting counter never leaves zero: no panic -/
def hasOpen : List Char → Bool
  | c :: d :: rest => (c = '/' && d = '*') || hasOpen (d :: rest)
  | _ => false

theorem panicScan_noOpen (s : List Char) : ∀ (mode : Mode), hasOpen s = false →
    panicScan 0 mode s = false := by
  induction s with
  | nil => intro _ _; rfl
  | cons c rest ih =>
    intro mode h
    have hrest : hasOpen rest = false := by
      cases rest with
      | nil => rfl
      | cons d rest' =>
        simp only [hasOpen, Bool.or_eq_false_iff] at h
        exact h.2
    have hpair : ¬ (c = '/' ∧ rest.head? = some '*') := by
      cases rest with
      | nil => simp
      | cons d rest' =>
        simp only [hasOpen, Bool.or_eq_false_iff, Bool.and_eq_false_iff,
          decide_eq_false_iff_not] at h
        simp only [List.head?_cons, Option.some.injEq]
        intro ⟨a, b⟩
        rcases h.1 with h | h
        · exact h a
        · exact h b
    rw [panicScan_cons]
    split
    · exact ih _ hrest
    · split
      · exact ih _ hrest
      · cases mode with
        | skipLine => exact ih _ hrest
        | skip1 => exact ih _ hrest
        | normal =>
          have : stepNest (atEndOfLast rest) c rest.head? 0 = some (.skipLine, 0) ∨
              stepNest (atEndOfLast rest) c rest.head? 0 = some (.normal, 0) := by
            simp only [stepNest, Nat.lt_irrefl, if_false, hpair]
            split <;> simp
          rcases this with h | h <;> rw [h] <;> exact ih _ hrest

end Asn1Verif.Front
