import Asn1Verif.Front.ParserRoundTrip
/-
  Front end — parse ∘ print for nested types: SEQUENCE / SET (components, marker position,
  OPTIONAL / DEFAULT), SEQUENCE OF / SET OF, CHOICE, by mutual structural recursion.
-/
namespace Asn1Verif.Front.Syn
open Except

theorem length_printItemEnd (m last : Bool) : 1 ≤ (printItemEnd m last).length := by
  cases m <;> simp [printItemEnd]

/-- SEQUENCE / SET from the component loop -/
theorem tyRT_components (isSet : Bool) (fs : UFields) (e : Option Nat) (hfs : FieldsRT fs) :
    TyRT (if isSet then .set fs e else .sequence fs e) := by
  intro fuel rest hw hnw _ hf
  obtain ⟨f, rfl⟩ : ∃ f, fuel = f + 1 := ⟨fuel - 1, by omega⟩
  cases isSet with
  | false =>
    simp only [Bool.false_eq_true, if_false, tyWf, Bool.and_eq_true, tyNoWiden, tyTail,
      List.length_cons] at hw hnw hf
    have := hfs e 0 f rest hw.1 hnw (by omega)
    simp only [Bool.false_eq_true, if_false, tyHead, tyTail]
    rw [parseRoleGiven]
    simp [kwClass_SEQUENCE, maybeReadSize, this, extIn_all e _ hw.2, canonTy]
  | true =>
    simp only [if_true, tyWf, Bool.and_eq_true, tyNoWiden, tyTail,
      List.length_cons] at hw hnw hf
    have := hfs e 0 f rest hw.1 hnw (by omega)
    simp only [if_true, tyHead, tyTail]
    rw [parseRoleGiven]
    simp [kwClass_SET, maybeReadSize, this, extIn_all e _ hw.2, canonTy]

/-- SEQUENCE OF / SET OF from the element type -/
theorem tyRT_listOf (isSet : Bool) (t : UTy) (s : Size USz) (ht : TyRT t) :
    TyRT (if isSet then .setOf t s else .sequenceOf t s) := by
  intro fuel rest hw hnw hr hf
  obtain ⟨f, rfl⟩ : ∃ f, fuel = f + 1 := ⟨fuel - 1, by omega⟩
  cases isSet with
  | false =>
    simp only [Bool.false_eq_true, if_false, tyWf, Bool.and_eq_true, tyNoWiden, tyTail,
      List.length_append, List.length_cons] at hw hnw hf
    have hin := ht f rest hw.1 hnw hr (by omega)
    have hs := maybeReadSize_print s hw.2 (.text "OF" :: .text (tyHead t) :: (tyTail t ++ rest))
      (RestOk.text _ _ eqIC_OF_SIZE)
    simp only [Bool.false_eq_true, if_false, tyHead, tyTail, List.append_assoc, List.cons_append]
    rw [parseRoleGiven]
    simp [kwClass_SEQUENCE, hs, eqIC_OF, hin, canonTy]
  | true =>
    simp only [if_true, tyWf, Bool.and_eq_true, tyNoWiden, tyTail,
      List.length_append, List.length_cons] at hw hnw hf
    have hin := ht f rest hw.1 hnw hr (by omega)
    have hs := maybeReadSize_print s hw.2 (.text "OF" :: .text (tyHead t) :: (tyTail t ++ rest))
      (RestOk.text _ _ eqIC_OF_SIZE)
    simp only [if_true, tyHead, tyTail, List.append_assoc, List.cons_append]
    rw [parseRoleGiven]
    simp [kwClass_SET, hs, eqIC_OF, hin, canonTy]

/-- CHOICE from the alternative loop -/
theorem tyRT_choice (vs : UVariants) (e : Option Nat) (hvs : VariantsRT vs) :
    TyRT (.choice vs e) := by
  intro fuel rest hw hnw _ hf
  obtain ⟨f, rfl⟩ : ∃ f, fuel = f + 1 := ⟨fuel - 1, by omega⟩
  simp only [tyWf, Bool.and_eq_true, decide_eq_true_eq, tyNoWiden, tyTail,
    List.length_cons] at hw hnw hf
  have := hvs e 0 false f rest hw.1.1 hw.1.2 hnw (by simp) (by omega)
  simp only [tyHead, tyTail]
  rw [parseRoleGiven]
  simp [kwClass_CHOICE, this, extIn_all e _ hw.2, canonTy]

theorem fieldsRT_nil : FieldsRT .nil := by
  intro ext i fuel rest _ _ hf
  obtain ⟨f, rfl⟩ : ∃ f, fuel = f + 1 := ⟨fuel - 1, by simp [printFieldsLoop] at hf; omega⟩
  simp [printFieldsLoop, componentLoop_brace, canonFields, Fields.length, extIn_zero]

/-- one more component in front: the step of the induction over the component list -/
theorem fieldsRT_cons (name : String) (tag : Option Tag) (ty : UTy) (d : Option UConst)
    (tl : UFields) (hty : TyRT (fieldCore ty).1) (htl : FieldsRT tl) :
    FieldsRT (.cons name tag ty d tl) := by
  intro ext i fuel rest hw hnw hf
  obtain ⟨htag, hcw, hod, hd, htlw⟩ := fieldsWf_cons name tag ty d tl hw
  simp only [fieldsNoWiden, Bool.and_eq_true] at hnw
  rw [← tyNoWiden_core] at hnw
  rw [printFieldsLoop_cons name tag ty d tl ext i hod] at hf ⊢
  obtain ⟨f, rfl⟩ : ∃ f, fuel = f + 1 := ⟨fuel - 1, by simp at hf; omega⟩
  simp only [List.length_cons, List.length_append] at hf
  -- the four shapes of the end of the component
  have hcanon : canonFields (.cons name tag ty d tl) =
      .cons name tag (if (fieldCore ty).2 then .optional (canonTy (fieldCore ty).1)
        else canonTy (fieldCore ty).1) d (canonFields tl) := by
    rw [canonFields, canonTy_core]
  have step := fun (c : Char) (hc : c = ',' ∨ c = '}') (more : List Token) =>
    componentLoop_field f i name tag htag (tyHead (fieldCore ty).1) (tyTail (fieldCore ty).1)
      (canonTy (fieldCore ty).1) (fieldCore ty).2 d hod hd c hc more
      (hty f _ hcw hnw.1 (presenceToks_restOk _ _ c more hc) (by omega))
  cases tl with
  | nil =>
    by_cases hm : ext = some i
    · -- `, ... }`
      subst hm
      obtain ⟨f', rfl⟩ : ∃ f', f = f' + 1 := ⟨f - 1, by
        simp [fieldsEnd, printItemEnd] at hf; omega⟩
      have := step ',' (Or.inl rfl) (.sep '.' :: .sep '.' :: .sep '.' :: .sep '}' :: rest)
      simp only [fieldsEnd, printItemEnd, beq_self_eq_true, if_true, List.cons_append,
        List.nil_append, List.append_assoc] at this ⊢
      rw [this]
      simp [componentLoop_marker_brace, canonFields, Fields.length, extIn_here]
      exact (canonTy_core ty).symm
    · -- `}`
      have hb : (ext == some i) = false := by simpa using hm
      have := step '}' (Or.inr rfl) rest
      simp only [fieldsEnd, printItemEnd, hb, Bool.false_eq_true, if_false, if_true,
        List.cons_append, List.nil_append, List.append_assoc] at this ⊢
      rw [this]
      have he : extIn ext i 1 = none := by rw [extIn_step ext i 0 hm, extIn_zero]
      simp [canonFields, Fields.length, he]
      exact (canonTy_core ty).symm
  | cons n2 tag2 ty2 d2 tl2 =>
    by_cases hm : ext = some i
    · -- `, ... ,` then the rest of the loop
      subst hm
      obtain ⟨f', rfl⟩ : ∃ f', f = f' + 1 := ⟨f - 1, by
        simp [fieldsEnd, printItemEnd] at hf; omega⟩
      have hrec := htl (some i) (i + 1) f' rest htlw hnw.2 (by
        simp [fieldsEnd, printItemEnd] at hf; omega)
      have := step ',' (Or.inl rfl)
        (.sep '.' :: .sep '.' :: .sep '.' :: .sep ',' ::
          (printFieldsLoop (.cons n2 tag2 ty2 d2 tl2) (some i) (i + 1) ++ rest))
      simp only [fieldsEnd, printItemEnd, beq_self_eq_true, if_true, Bool.false_eq_true, if_false,
        List.cons_append, List.nil_append, List.append_assoc] at this ⊢
      rw [this]
      simp [componentLoop_marker_comma, hrec, hcanon, Fields.length, extIn_here,
        extIn_past i (i + 1)]
    · -- `,` then the rest of the loop
      have hb : (ext == some i) = false := by simpa using hm
      have hrec := htl ext (i + 1) f rest htlw hnw.2 (by
        simp [fieldsEnd, printItemEnd, hb] at hf; omega)
      have := step ',' (Or.inl rfl) (printFieldsLoop (.cons n2 tag2 ty2 d2 tl2) ext (i + 1) ++ rest)
      simp only [fieldsEnd, printItemEnd, hb, Bool.false_eq_true, if_false, if_true,
        List.cons_append, List.nil_append, List.append_assoc] at this ⊢
      rw [this]
      have he := extIn_step ext i (Fields.length (.cons n2 tag2 ty2 d2 tl2)) hm
      simp [hrec, hcanon, Fields.length, he] at he ⊢

theorem variantsRT_nil : VariantsRT .nil := by
  intro ext i seen fuel rest h
  simp [Variants.length] at h

/-- one more alternative in front: the step of the induction over the alternative list -/
theorem variantsRT_cons (name : String) (tag : Option Tag) (ty : UTy) (tl : UVariants)
    (hty : TyRT ty) (htl : VariantsRT tl) : VariantsRT (.cons name tag ty tl) := by
  intro ext i seen fuel rest _ hw hnw hseen hf
  simp only [variantsWf, Bool.and_eq_true] at hw
  simp only [variantsNoWiden, Bool.and_eq_true] at hnw
  obtain ⟨⟨htag, htyw⟩, htlw⟩ := hw
  rw [printVariantsLoop_cons] at hf ⊢
  obtain ⟨f, rfl⟩ : ∃ f, fuel = f + 1 := ⟨fuel - 1, by simp at hf; omega⟩
  simp only [List.length_cons, List.length_append] at hf
  have step := fun (c : Char) (hc : c = ',' ∨ c = '}') (more : List Token) =>
    choiceLoop_alt f i seen name tag htag (tyHead ty) (tyTail ty) (canonTy ty) c hc more
      (hty f _ htyw hnw.1
        (by cases hc with
          | inl h => subst h; exact RestOk.sep _ _ (by decide) (by decide)
          | inr h => subst h; exact RestOk.sep _ _ (by decide) (by decide))
        (by omega))
  cases tl with
  | nil =>
    by_cases hm : ext = some i
    · subst hm
      have hs : seen = false := by
        cases seen with
        | false => rfl
        | true => have := hseen rfl; simp [Variants.length, extIn_here] at this
      subst hs
      obtain ⟨f', rfl⟩ : ∃ f', f = f' + 1 := ⟨f - 1, by
        simp [variantsEnd, printItemEnd] at hf; omega⟩
      have := step ',' (Or.inl rfl) (.sep '.' :: .sep '.' :: .sep '.' :: .sep '}' :: rest)
      simp only [variantsEnd, printItemEnd, beq_self_eq_true, if_true, List.cons_append,
        List.nil_append, List.append_assoc] at this ⊢
      rw [this]
      simp [choiceLoop_marker_brace, canonVariants, Variants.length, extIn_here]
    · have hb : (ext == some i) = false := by simpa using hm
      have := step '}' (Or.inr rfl) rest
      simp only [variantsEnd, printItemEnd, hb, Bool.false_eq_true, if_false, if_true,
        List.cons_append, List.nil_append, List.append_assoc] at this ⊢
      rw [this]
      have he : extIn ext i 1 = none := by rw [extIn_step ext i 0 hm, extIn_zero]
      simp [canonVariants, Variants.length, he]
  | cons n2 tag2 ty2 tl2 =>
    by_cases hm : ext = some i
    · subst hm
      have hs : seen = false := by
        cases seen with
        | false => rfl
        | true => have := hseen rfl; simp [Variants.length, extIn_here] at this
      subst hs
      obtain ⟨f', rfl⟩ : ∃ f', f = f' + 1 := ⟨f - 1, by
        simp [variantsEnd, printItemEnd] at hf; omega⟩
      have hrec := htl (some i) (i + 1) true f' rest (by simp [Variants.length]) htlw hnw.2
        (fun _ => extIn_past i (i + 1) _ (by omega))
        (by simp [variantsEnd, printItemEnd] at hf; omega)
      have := step ',' (Or.inl rfl)
        (.sep '.' :: .sep '.' :: .sep '.' :: .sep ',' ::
          (printVariantsLoop (.cons n2 tag2 ty2 tl2) (some i) (i + 1) ++ rest))
      simp only [variantsEnd, printItemEnd, beq_self_eq_true, if_true, Bool.false_eq_true,
        if_false, List.cons_append, List.nil_append, List.append_assoc] at this ⊢
      rw [this]
      simp [choiceLoop_marker_comma, hrec, canonVariants, Variants.length, extIn_here]
    · have hb : (ext == some i) = false := by simpa using hm
      have he := extIn_step ext i (Variants.length (.cons n2 tag2 ty2 tl2)) hm
      have hrec := htl ext (i + 1) seen f rest (by simp [Variants.length]) htlw hnw.2
        (fun hs => by rw [← he]; exact hseen hs)
        (by simp [variantsEnd, printItemEnd, hb] at hf; omega)
      have := step ',' (Or.inl rfl) (printVariantsLoop (.cons n2 tag2 ty2 tl2) ext (i + 1) ++ rest)
      simp only [variantsEnd, printItemEnd, hb, Bool.false_eq_true, if_false, if_true,
        List.cons_append, List.nil_append, List.append_assoc] at this ⊢
      rw [this]
      simp [hrec, canonVariants, Variants.length, he] at he ⊢

/-! ### the composition -/

theorem tyRT_optional_vacuous (t : UTy) : TyRT (.optional t) := by
  intro fuel rest hw
  simp [tyWf] at hw

mutual
/-- `parse_print` for every nested type, and for the type proper of every component type -/
theorem tyRT_all : ∀ t : UTy, TyRT t ∧ TyRT (fieldCore t).1
  | .boolean => ⟨tyRT_boolean, tyRT_boolean⟩
  | .integer r cs => ⟨tyRT_integer r cs, tyRT_integer r cs⟩
  | .string s c => ⟨tyRT_string s c, tyRT_string s c⟩
  | .octetString s => ⟨tyRT_octetString s, tyRT_octetString s⟩
  | .bitString s cs => ⟨tyRT_bitString s cs, tyRT_bitString s cs⟩
  | .null => ⟨tyRT_null, tyRT_null⟩
  | .optional t => ⟨tyRT_optional_vacuous t, (tyRT_all t).1⟩
  | .sequence fs e =>
    have h := tyRT_components false fs e (fieldsRT_all fs)
    ⟨h, h⟩
  | .sequenceOf t s =>
    have h := tyRT_listOf false t s (tyRT_all t).1
    ⟨h, h⟩
  | .set fs e =>
    have h := tyRT_components true fs e (fieldsRT_all fs)
    ⟨h, h⟩
  | .setOf t s =>
    have h := tyRT_listOf true t s (tyRT_all t).1
    ⟨h, h⟩
  | .enumerated e => ⟨tyRT_enumerated e, tyRT_enumerated e⟩
  | .choice vs e =>
    have h := tyRT_choice vs e (variantsRT_all vs)
    ⟨h, h⟩
  | .typeReference n tag => ⟨tyRT_typeReference n tag, tyRT_typeReference n tag⟩

theorem fieldsRT_all : ∀ fs : UFields, FieldsRT fs
  | .nil => fieldsRT_nil
  | .cons name tag ty d tl => fieldsRT_cons name tag ty d tl (tyRT_all ty).2 (fieldsRT_all tl)

theorem variantsRT_all : ∀ vs : UVariants, VariantsRT vs
  | .nil => variantsRT_nil
  | .cons name tag ty tl => variantsRT_cons name tag ty tl (tyRT_all ty).1 (variantsRT_all tl)
end

/-- `parse_print_Type`: a printed type followed by arbitrary tokens `rest` (that do not start with
    `(`, `{` or `SIZE`) is read back as its canonical form, and exactly `rest` is left.
    Nesting is unbounded. -/
theorem parseRoleGiven_print (t : UTy) (fuel : Nat) (rest : List Token) (hw : tyWf t = true)
    (hnw : tyNoWiden t = true) (hr : RestOk rest)
    (hf : (tyTail t).length < fuel) :
    parseRoleGiven fuel (tyHead t) (tyTail t ++ rest) = .ok (canonTy t, rest) :=
  (tyRT_all t).1 fuel rest hw hnw hr hf

end Asn1Verif.Front.Syn
