import Asn1Verif.Front.ResolveModuleLemmas
/-
  Front end — where a name is found (locally, through an import matched by module name or by
  object identifier), independence of the load order, and what happens when it is not found or
  is not an integer.
-/
namespace Asn1Verif.Front.Syn
open Except

/-! ### lookups -/

/-- the module matching of `model_with_imported_item` -/
def importMatches (imp : Import) (c : UModule) : Bool :=
  (c.oid.isSome && c.oid == imp.fromOid) || c.name == imp.«from»

theorem modelWithImportedItem_eq (m : UModule) (S : List UModule) (item : String) :
    modelWithImportedItem m S item =
      (m.imports.find? fun i => i.what.any (· == item)).bind fun imp => S.find? (importMatches imp) :=
  rfl

/-- a name defined in the module itself -/
theorem valueReference_local (A : UModule) (S : List UModule) (n : String) (vr : UValueReference)
    (h : A.valueReferences.find? (fun v => v.name == n) = some vr) :
    (Scope.mk A S).valueReference n = .ok (some vr) := by
  simp only [Scope.valueReference, chaseFuel]
  rw [valueReference, h]

/-- a name imported from a sibling that defines it: the first import listing the name, the
    first loaded module matching that import by identifier or by name -/
theorem valueReference_imported (A B : UModule) (S : List UModule) (n : String) (imp : Import)
    (vr : UValueReference)
    (hlocal : A.valueReferences.find? (fun v => v.name == n) = none)
    (himp : A.imports.find? (fun i => i.what.any (· == n)) = some imp)
    (hmod : S.find? (importMatches imp) = some B)
    (hdef : B.valueReferences.find? (fun v => v.name == n) = some vr) :
    (Scope.mk A S).valueReference n = .ok (some vr) := by
  have hlen : 0 < S.length := by
    cases S with
    | nil => simp at hmod
    | cons _ _ => simp
  obtain ⟨k, hk⟩ : ∃ k, S.length = k + 1 := ⟨S.length - 1, by omega⟩
  simp only [Scope.valueReference, chaseFuel, hk]
  rw [valueReference, hlocal]
  simp only [modelWithImportedItem_eq, himp, Option.bind_some, hmod]
  rw [valueReference, hdef]

/-- matched **by name** -/
theorem importMatches_name (imp : Import) (c : UModule) (h : c.name = imp.«from») :
    importMatches imp c = true := by
  simp [importMatches, h]

/-- matched **by object identifier** (whatever the name in the import says) -/
theorem importMatches_oid (imp : Import) (c : UModule) (o : Oid) (h1 : c.oid = some o)
    (h2 : imp.fromOid = some o) : importMatches imp c = true := by
  simp [importMatches, h1, h2]

/-! ### load order -/

/-- at most one loaded module matches the import -/
def Unambiguous (S : List UModule) (imp : Import) : Prop :=
  ∀ c1 ∈ S, ∀ c2 ∈ S, importMatches imp c1 = true → importMatches imp c2 = true → c1 = c2

theorem find?_perm_of_unique {α : Type} (p : α → Bool) (l l' : List α) (hp : l.Perm l')
    (hu : ∀ a ∈ l, ∀ b ∈ l, p a = true → p b = true → a = b) : l'.find? p = l.find? p := by
  cases h : l.find? p with
  | none =>
    rw [List.find?_eq_none] at h ⊢
    intro x hx
    exact h x (hp.mem_iff.mpr hx)
  | some a =>
    have ha : a ∈ l := List.mem_of_find?_eq_some h
    have hpa : p a = true := List.find?_some h
    cases h' : l'.find? p with
    | none =>
      rw [List.find?_eq_none] at h'
      exact absurd hpa (h' a (hp.mem_iff.mp ha))
    | some b =>
      have hb : b ∈ l := hp.mem_iff.mpr (List.mem_of_find?_eq_some h')
      have hpb : p b = true := List.find?_some h'
      rw [hu a ha b hb hpa hpb]

/-- every import of every loaded module is unambiguous -/
def AllUnambiguous (S : List UModule) : Prop :=
  ∀ m ∈ S, ∀ imp ∈ m.imports, Unambiguous S imp

theorem modelWithImportedItem_perm (m : UModule) (S S' : List UModule) (hp : S.Perm S')
    (hu : ∀ imp ∈ m.imports, Unambiguous S imp) (item : String) :
    modelWithImportedItem m S' item = modelWithImportedItem m S item := by
  simp only [modelWithImportedItem_eq]
  cases h : m.imports.find? fun i => i.what.any (· == item) with
  | none => rfl
  | some imp =>
    simp only [Option.bind_some]
    exact find?_perm_of_unique _ S S' hp (hu imp (List.mem_of_find?_eq_some h))

theorem modelWithImportedItem_mem (m : UModule) (S : List UModule) (item : String) (m' : UModule)
    (h : modelWithImportedItem m S item = some m') : m' ∈ S := by
  simp only [modelWithImportedItem_eq] at h
  cases h1 : m.imports.find? fun i => i.what.any (· == item) with
  | none => simp [h1] at h
  | some imp =>
    simp only [h1, Option.bind_some] at h
    exact List.mem_of_find?_eq_some h

theorem valueReference_perm (S S' : List UModule) (hp : S.Perm S') (hu : AllUnambiguous S)
    (n : String) : ∀ (fuel : Nat) (m : UModule), m ∈ S →
      valueReference fuel m S' n = valueReference fuel m S n := by
  intro fuel
  induction fuel with
  | zero => intro m _; rfl
  | succ f ih =>
    intro m hm
    rw [valueReference, valueReference, modelWithImportedItem_perm m S S' hp (hu m hm) n]
    cases (m.valueReferences.find? fun vr => vr.name == n) with
    | some vr => rfl
    | none =>
      cases h : modelWithImportedItem m S n with
      | none => rfl
      | some m' => exact ih m' (modelWithImportedItem_mem m S n m' h)

theorem definition_perm (S S' : List UModule) (hp : S.Perm S') (hu : AllUnambiguous S)
    (n : String) : ∀ (fuel : Nat) (m : UModule), m ∈ S →
      definition fuel m S' n = definition fuel m S n := by
  intro fuel
  induction fuel with
  | zero => intro m _; rfl
  | succ f ih =>
    intro m hm
    rw [definition, definition, modelWithImportedItem_perm m S S' hp (hu m hm) n]
    cases (m.definitions.find? fun d => d.name == n) with
    | some d => rfl
    | none =>
      cases h : modelWithImportedItem m S n with
      | none => rfl
      | some m' => exact ih m' (modelWithImportedItem_mem m S n m' h)

theorem scopeEquiv_perm (m : UModule) (S S' : List UModule) (hm : m ∈ S) (hp : S.Perm S')
    (hu : AllUnambiguous S) : ScopeEquiv ⟨m, S⟩ ⟨m, S'⟩ := by
  have hlen : S'.length = S.length := hp.length_eq.symm
  constructor
  · intro n
    simp only [Scope.valueOf, Scope.valueReference, chaseFuel, hlen,
      valueReference_perm S S' hp hu n _ m hm]
  · intro n
    simp only [Scope.enumView, Scope.resolveTypeRef, Scope.definition, chaseFuel, hlen,
      definition_perm S S' hp hu n _ m hm]

theorem resolveValueRefs_congr {sc sc' : Scope} (h : ScopeEquiv sc sc')
    (vrs : List UValueReference) : sc'.resolveValueRefs vrs = sc.resolveValueRefs vrs := by
  induction vrs with
  | nil => rfl
  | cons v tl ih => simp only [Scope.resolveValueRefs, resolveTy_congr h, ih]

theorem resolveDefinitions_congr {sc sc' : Scope} (h : ScopeEquiv sc sc')
    (ds : List UDefinition) : sc'.resolveDefinitions ds = sc.resolveDefinitions ds := by
  induction ds with
  | nil => rfl
  | cons d tl ih => simp only [Scope.resolveDefinitions, resolveTy_congr h, ih]

/-- **load order**: a module resolves to the same result whatever the order in which the
    modules were loaded, as long as no import matches two loaded modules -/
theorem tryResolve_perm (m : UModule) (S S' : List UModule) (hm : m ∈ S) (hp : S.Perm S')
    (hu : AllUnambiguous S) : Scope.tryResolve ⟨m, S'⟩ = Scope.tryResolve ⟨m, S⟩ := by
  have h := scopeEquiv_perm m S S' hm hp hu
  simp only [Scope.tryResolve, resolveValueRefs_congr h, resolveDefinitions_congr h]

/-! ### unresolved and ill-typed references -/

theorem resolveInt_unresolved (sc : Scope) (n : String) (h : sc.valueReference n = .ok none) :
    sc.resolveInt (.ref n) = .error .failedToResolveReference := by
  simp [Scope.resolveInt, h]

theorem resolveSizeVal_unresolved (sc : Scope) (n : String) (h : sc.valueReference n = .ok none) :
    sc.resolveSizeVal (.ref n) = .error .failedToResolveReference := by
  simp [Scope.resolveSizeVal, h]

theorem resolveConst_unresolved (sc : Scope) (n : String) (h : sc.valueReference n = .ok none) :
    sc.resolveConst (.ref n) = .error .failedToResolveReference := by
  simp [Scope.resolveConst, h]

theorem resolveInt_illtyped (sc : Scope) (n : String) (vr : UValueReference)
    (h : sc.valueReference n = .ok (some vr)) (hv : vr.value.toInteger = none) :
    sc.resolveInt (.ref n) = .error .failedToParseLiteral := by
  simp [Scope.resolveInt, h, hv]

theorem resolveSizeVal_illtyped (sc : Scope) (n : String) (vr : UValueReference)
    (h : sc.valueReference n = .ok (some vr)) (hv : vr.value.toInteger = none) :
    sc.resolveSizeVal (.ref n) = .error .failedToParseLiteral := by
  simp [Scope.resolveSizeVal, h, hv]

/-- a name that no module in reach defines: not in the module, and no import lists it -/
theorem valueReference_none_no_import (A : UModule) (S : List UModule) (n : String)
    (hlocal : A.valueReferences.find? (fun v => v.name == n) = none)
    (himp : A.imports.find? (fun i => i.what.any (· == n)) = none) :
    (Scope.mk A S).valueReference n = .ok none := by
  simp only [Scope.valueReference, chaseFuel]
  rw [valueReference, hlocal]
  simp [modelWithImportedItem_eq, himp]

/-- … or the import points to a module that is not loaded -/
theorem valueReference_none_not_loaded (A : UModule) (S : List UModule) (n : String) (imp : Import)
    (hlocal : A.valueReferences.find? (fun v => v.name == n) = none)
    (himp : A.imports.find? (fun i => i.what.any (· == n)) = some imp)
    (hmod : S.find? (importMatches imp) = none) :
    (Scope.mk A S).valueReference n = .ok none := by
  simp only [Scope.valueReference, chaseFuel]
  rw [valueReference, hlocal]
  simp [modelWithImportedItem_eq, himp, hmod]

/-! ### the hop bound of the import chase -/

/-- **the chase always comes back** — whatever the imports look like (cycles included) -/
theorem valueReference_total (S : List UModule) (n : String) :
    ∀ (k : Nat) (m : UModule), ∃ r, valueReference k m S n = .ok r := by
  intro k
  induction k with
  | zero => intro m; exact ⟨none, rfl⟩
  | succ k ih =>
    intro m
    rw [valueReference]
    cases m.valueReferences.find? fun vr => vr.name == n with
    | some vr => exact ⟨some vr, rfl⟩
    | none =>
      cases modelWithImportedItem m S n with
      | none => exact ⟨none, rfl⟩
      | some m' => exact ih m'

theorem definition_total (S : List UModule) (n : String) :
    ∀ (k : Nat) (m : UModule), ∃ r, definition k m S n = .ok r := by
  intro k
  induction k with
  | zero => intro m; exact ⟨none, rfl⟩
  | succ k ih =>
    intro m
    rw [definition]
    cases m.definitions.find? fun d => d.name == n with
    | some d => exact ⟨some d, rfl⟩
    | none =>
      cases modelWithImportedItem m S n with
      | none => exact ⟨none, rfl⟩
      | some m' => exact ih m'

/-- a name that neither the module nor any module in scope defines is not found, however the
    imports are wired — in particular when they form a cycle -/
theorem valueReference_none_of_undefined (S : List UModule) (n : String)
    (hS : ∀ m ∈ S, (m.valueReferences.find? fun vr => vr.name == n) = none) :
    ∀ (k : Nat) (m : UModule), (m.valueReferences.find? fun vr => vr.name == n) = none →
      valueReference k m S n = .ok none := by
  intro k
  induction k with
  | zero => intro m _; rfl
  | succ k ih =>
    intro m hm
    rw [valueReference, hm]
    cases himp : modelWithImportedItem m S n with
    | none => rfl
    | some m' => exact ih m' (hS m' (modelWithImportedItem_mem m S n m' himp))

theorem definition_none_of_undefined (S : List UModule) (n : String)
    (hS : ∀ m ∈ S, (m.definitions.find? fun d => d.name == n) = none) :
    ∀ (k : Nat) (m : UModule), (m.definitions.find? fun d => d.name == n) = none →
      definition k m S n = .ok none := by
  intro k
  induction k with
  | zero => intro m _; rfl
  | succ k ih =>
    intro m hm
    rw [definition, hm]
    cases himp : modelWithImportedItem m S n with
    | none => rfl
    | some m' => exact ih m' (hS m' (modelWithImportedItem_mem m S n m' himp))

/-- **the bound does not cut an acyclic chase short**: when the imports followed for `n` from
    the modules in reach are acyclic — witnessed by a rank that decreases along every step of
    the chase — one more hop changes nothing as soon as the budget exceeds the rank -/
theorem valueReference_succ_of_rank (A : UModule) (S : List UModule) (n : String)
    (rank : UModule → Nat)
    (hdec : ∀ m ∈ A :: S, ∀ m', (m.valueReferences.find? fun vr => vr.name == n) = none →
      modelWithImportedItem m S n = some m' → rank m' < rank m) :
    ∀ (k : Nat) (m : UModule), m ∈ A :: S → rank m < k →
      valueReference (k + 1) m S n = valueReference k m S n := by
  intro k
  induction k with
  | zero => intro m _ h; omega
  | succ k ih =>
    intro m hm hk
    rw [valueReference, valueReference]
    cases hfind : m.valueReferences.find? fun vr => vr.name == n with
    | some vr => rfl
    | none =>
      cases himp : modelWithImportedItem m S n with
      | none => rfl
      | some m' =>
        have := hdec m hm m' hfind himp
        exact ih m' (List.mem_cons_of_mem _ (modelWithImportedItem_mem m S n m' himp)) (by omega)

theorem valueReference_le_of_rank (A : UModule) (S : List UModule) (n : String)
    (rank : UModule → Nat)
    (hdec : ∀ m ∈ A :: S, ∀ m', (m.valueReferences.find? fun vr => vr.name == n) = none →
      modelWithImportedItem m S n = some m' → rank m' < rank m)
    (k k' : Nat) (hk : rank A < k) (hle : k ≤ k') :
    valueReference k' A S n = valueReference k A S n := by
  induction hle with
  | refl => rfl
  | @step j hle' ih =>
    have hj : k ≤ j := hle'
    rw [valueReference_succ_of_rank A S n rank hdec j A (by simp) (by omega), ih]

end Asn1Verif.Front.Syn
