import Asn1Verif.Front.Ast
/-
  Front end — the pretty-printer property C07 quantifies over: abstract module → token list.

  `printTokens : UModule → List Token` produces the tokens the real tokenizer yields for the
  ASN.1 text of the module (without locations).  `renderTokens` is the canonical text of a token
  list: tokens joined by single blanks (separators as single characters).  Other layouts of the
  same tokens (blanks, line breaks, comments) are the subject of property C13 (tokenizer).

  Conventions of the printed text: keywords in upper case; a SIZE constraint in parentheses
  `( SIZE ( … ) )`; an INTEGER without any range prints no constraint, every other range prints
  `( lo .. hi [, ...] )` with `MIN`/`MAX` for absent bounds; named numbers `{ a ( 1 ) , … }`;
  an extension marker `...` after the component with index `extAfter`; `OPTIONAL` for
  `Ty.optional`, `DEFAULT …` for a default; string literals `" word "` (one text token — see the
  scope notes in Props/C07; literals of several tokens: `printStringTokens`), the empty string
  `" "` (no token between the quotes), octet strings `' HEX ' H`, the empty one `' ' H`; value
  references first, then definitions.
-/
namespace Asn1Verif.Front.Syn

def tNat (n : Nat) : Token := .text (toString n)
def tInt (i : Int) : Token := .text (toString i)

def printExt (e : Bool) : List Token :=
  if e then [.sep ',', .sep '.', .sep '.', .sep '.'] else []

def printTagToks : Tag → List Token
  | .universal n => [.sep '[', .text "UNIVERSAL", tNat n, .sep ']']
  | .application n => [.sep '[', .text "APPLICATION", tNat n, .sep ']']
  | .priv n => [.sep '[', .text "PRIVATE", tNat n, .sep ']']
  | .contextSpecific n => [.sep '[', tNat n, .sep ']']

def printTag : Option Tag → List Token
  | none => []
  | some t => printTagToks t

/-! ### constants `{ a ( 1 ) , b ( 2 ) }` -/

def printConstantsLoop {α : Type} (f : α → Token) : List (String × α) → List Token
  | [] => [.sep '}']          -- not reached for a non-empty list
  | [(n, v)] => [.text n, .sep '(', f v, .sep ')', .sep '}']
  | (n, v) :: rest => [.text n, .sep '(', f v, .sep ')', .sep ','] ++ printConstantsLoop f rest

def printConstants {α : Type} (f : α → Token) : List (String × α) → List Token
  | [] => []
  | cs => .sep '{' :: printConstantsLoop f cs

/-! ### INTEGER -/

def printRangeBound (kw : String) : Option URange → Token
  | none => .text kw
  | some (.lit i) => tInt i
  | some (.ref n) => .text n

def printRange (r : Range URange) : List Token :=
  if r.min = none ∧ r.max = none ∧ r.ext = false then []
  else [.sep '(', printRangeBound "MIN" r.min, .sep '.', .sep '.', printRangeBound "MAX" r.max]
    ++ printExt r.ext ++ [.sep ')']

/-! ### SIZE -/

def printSizeBound : USz → Token
  | .lit n => tNat n
  | .ref n => .text n

def printSize : Size USz → List Token
  | .any => []
  | .fix n e => [.sep '(', .text "SIZE", .sep '(', printSizeBound n] ++ printExt e ++ [.sep ')', .sep ')']
  | .range a b e =>
    [.sep '(', .text "SIZE", .sep '(', printSizeBound a, .sep '.', .sep '.', printSizeBound b]
      ++ printExt e ++ [.sep ')', .sep ')']

/-! ### literals -/

def hexChar (n : Nat) : Char :=
  if n < 10 then Char.ofNat (48 + n) else Char.ofNat (55 + n)

def hexOfBytes : List Nat → List Char
  | [] => []
  | b :: rest => hexChar (b / 16) :: hexChar (b % 16) :: hexOfBytes rest

/-- the content of a literal of one word: no token at all for the empty word (the tokenizer never
    yields an empty text token) -/
def printWord (cs : List Char) : List Token :=
  if cs.isEmpty then [] else [.text (String.ofList cs)]

/-- a string literal given by its tokens (words and separator characters other than the
    delimiter): it denotes the tokens joined by single blanks, `litText` -/
def printStringTokens (delim : Char) (ws : List Token) : List Token :=
  .sep delim :: (ws ++ [.sep delim])

def litText : List Token → List Char
  | [] => []
  | [t] => t.chars
  | t :: rest => t.chars ++ ' ' :: litText rest

def printLit : LiteralValue → List Token
  | .boolean true => [.text "TRUE"]
  | .boolean false => [.text "FALSE"]
  | .integer i => [tInt i]
  | .string s => .sep '"' :: (printWord s.toList ++ [.sep '"'])
  | .octetString bs => .sep '\'' :: (printWord (hexOfBytes bs) ++ [.sep '\'', .text "H"])
  | .enumeratedVariant _ v => [.text v]     -- does not occur in an unresolved module

def printDefault : UConst → List Token
  | .lit v => printLit v
  | .ref n => [.text n]

/-! ### ENUMERATED -/

def printEnumItem (v : EnumVariant) : List Token :=
  match v.number with
  | none => [.text v.name]
  | some n => [.text v.name, .sep '(', tNat n, .sep ')']

/-- variants from index `i` on, up to and including the closing brace; the marker follows the
    variant with index `ext` -/
def printEnumLoop : List EnumVariant → Option Nat → Nat → List Token
  | [], _, _ => [.sep '}']     -- not reached for a non-empty list
  | [v], ext, i =>
    printEnumItem v ++ (if ext = some i then [.sep ',', .sep '.', .sep '.', .sep '.', .sep '}'] else [.sep '}'])
  | v :: rest, ext, i =>
    printEnumItem v ++
      (if ext = some i then [.sep ',', .sep '.', .sep '.', .sep '.', .sep ','] else [.sep ',']) ++
      printEnumLoop rest ext (i + 1)

def printEnumerated (e : Enumerated) : List Token :=
  .sep '{' :: printEnumLoop e.variants e.extAfter 0

/-! ### types -/

def charsetKeyword : Charset → String
  | .utf8 => "UTF8String"
  | .numeric => "NumericString"
  | .printable => "PrintableString"
  | .ia5 => "IA5String"
  | .visible => "VisibleString"

/-- what follows a component / alternative: the marker (when it sits here) and `,` or `}` -/
def printItemEnd (markerHere last : Bool) : List Token :=
  (if markerHere then [.sep ',', .sep '.', .sep '.', .sep '.'] else []) ++
    [if last then .sep '}' else .sep ',']

mutual
/-- first token of a type (a keyword or the referenced name) -/
def tyHead : UTy → String
  | .boolean => "BOOLEAN"
  | .integer _ _ => "INTEGER"
  | .string _ c => charsetKeyword c
  | .octetString _ => "OCTET"
  | .bitString _ _ => "BIT"
  | .null => "NULL"
  | .optional t => tyHead t
  | .sequence _ _ => "SEQUENCE"
  | .sequenceOf _ _ => "SEQUENCE"
  | .set _ _ => "SET"
  | .setOf _ _ => "SET"
  | .enumerated _ => "ENUMERATED"
  | .choice _ _ => "CHOICE"
  | .typeReference n _ => n

/-- the tokens of a type after its first one -/
def tyTail : UTy → List Token
  | .boolean => []
  | .integer r cs => printConstants tInt cs ++ printRange r
  | .string s _ => printSize s
  | .octetString s => .text "STRING" :: printSize s
  | .bitString s cs => .text "STRING" :: (printConstants tNat cs ++ printSize s)
  | .null => []
  | .optional t => tyTail t ++ [.text "OPTIONAL"]     -- component position only
  | .sequence fs e => .sep '{' :: printFieldsLoop fs e 0
  | .sequenceOf t s => printSize s ++ (.text "OF" :: .text (tyHead t) :: tyTail t)
  | .set fs e => .sep '{' :: printFieldsLoop fs e 0
  | .setOf t s => printSize s ++ (.text "OF" :: .text (tyHead t) :: tyTail t)
  | .enumerated e => printEnumerated e
  | .choice vs e => .sep '{' :: printVariantsLoop vs e 0
  | .typeReference _ _ => []

/-- components from index `i` on, up to and including the closing brace -/
def printFieldsLoop : UFields → Option Nat → Nat → List Token
  | .nil, _, _ => [.sep '}']
  | .cons n tag ty d rest, ext, i =>
    (.text n :: printTag tag) ++ (.text (tyHead ty) :: tyTail ty) ++
      (match d with
       | none => []
       | some d => .text "DEFAULT" :: printDefault d) ++
      (match rest with
       | .nil => printItemEnd (ext == some i) true
       | .cons .. => printItemEnd (ext == some i) false ++ printFieldsLoop rest ext (i + 1))

/-- alternatives from index `i` on, up to and including the closing brace -/
def printVariantsLoop : UVariants → Option Nat → Nat → List Token
  | .nil, _, _ => [.sep '}']     -- not reached for a non-empty list
  | .cons n tag ty rest, ext, i =>
    (.text n :: printTag tag) ++ (.text (tyHead ty) :: tyTail ty) ++
      (match rest with
       | .nil => printItemEnd (ext == some i) true
       | .cons .. => printItemEnd (ext == some i) false ++ printVariantsLoop rest ext (i + 1))
end

def printTy (t : UTy) : List Token := .text (tyHead t) :: tyTail t

/-! ### module level -/

def printOidComponent : OidComponent → List Token
  | .nameForm n => [.text n]
  | .numberForm k => [tNat k]
  | .nameAndNumberForm n k => [.text n, .sep '(', tNat k, .sep ')']

def printOid : Option Oid → List Token
  | none => []
  | some cs => .sep '{' :: (cs.flatMap printOidComponent ++ [.sep '}'])

def printSymbols : List String → List Token
  | [] => []
  | [s] => [.text s]
  | s :: rest => .text s :: .sep ',' :: printSymbols rest

def printImport (i : Import) : List Token :=
  printSymbols i.what ++ (.text "FROM" :: .text i.«from» :: printOid i.fromOid)

def printImports : List Import → List Token
  | [] => []
  | is => .text "IMPORTS" :: (is.flatMap printImport ++ [.sep ';'])

def printValueReference (v : UValueReference) : List Token :=
  .text v.name :: (printTy v.ty ++ [.sep ':', .sep ':', .sep '='] ++ printLit v.value)

def printDefinition (d : UDefinition) : List Token :=
  [.text d.name, .sep ':', .sep ':', .sep '='] ++ printTag d.tag ++ printTy d.ty

def printHeader (m : UModule) : List Token :=
  .text m.name :: (printOid m.oid ++
    [.text "DEFINITIONS", .text "AUTOMATIC", .text "TAGS", .sep ':', .sep ':', .sep '=', .text "BEGIN"])

/-- the pretty-printer of property C07 -/
def printTokens (m : UModule) : List Token :=
  printHeader m ++ printImports m.imports ++ m.valueReferences.flatMap printValueReference ++
    m.definitions.flatMap printDefinition ++ [.text "END"]

/-! ### canonical text of a token list -/

def Token.render : Token → String
  | .text s => s
  | .sep c => String.singleton c

/-- tokens joined by single blanks -/
def renderTokens (ts : List Token) : String := " ".intercalate (ts.map Token.render)

end Asn1Verif.Front.Syn
