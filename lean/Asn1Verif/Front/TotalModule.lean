import Asn1Verif.Front.TotalType
/-
  Front end — totality of the parser model, part 5: the module level
  (`read_oid`, `read_imports`, `read_definition`, `read_value_reference`, the body loop of
  `Model::try_from`) and the top-level theorem: with the budget `tokens.length + 1` that
  `parseModule` supplies, the pseudo error `fuel` is unreachable — for every token list.
-/
namespace Asn1Verif.Front.Syn
open Except

/-! ### object identifiers -/

theorem oidLoop_post (fuel : Nat) (ts : List Token) (h : ts.length < fuel) :
    Post (oidLoop fuel ts) (fun r => r.2.length ≤ ts.length) := by
  induction fuel generalizing ts with
  | zero => omega
  | succ fuel ih =>
    cases ts with
    | nil => exact Post.ok (Nat.le_refl _)
    | cons t ts =>
      have ih' : ∀ (ts' : List Token), ts'.length ≤ ts.length →
          Post (oidLoop fuel ts') (fun r => r.2.length ≤ (t :: ts).length) :=
        fun ts' h' => (ih ts' (by simp only [List.length_cons] at h; omega)).mono
          (fun r hr => by simp only [List.length_cons]; omega)
      unfold oidLoop
      post_auto_with [ih' _ (by len_omega)]

theorem maybeReadOid_post (fuel : Nat) (ts : List Token) (h : ts.length ≤ fuel) :
    Post (maybeReadOid fuel ts) (fun r => r.2.length ≤ ts.length) := by
  unfold maybeReadOid
  post_auto_with [oidLoop_post _ _ (by len_omega)]

theorem skipUntilAfter_post (kw : String) (ts : List Token) :
    Post (skipUntilAfter kw ts) (fun r => r.length < ts.length) := by
  induction ts with
  | nil => exact Post.error (by decide)
  | cons t r ih =>
    unfold skipUntilAfter
    split
    · exact Post.ok (by simp)
    · exact ih.mono (fun x hx => by simp only [List.length_cons]; omega)

/-! ### imports -/

theorem importsLoop_post (fuel : Nat) (what : List String) (ts : List Token)
    (h : ts.length < fuel) :
    Post (importsLoop fuel what ts) (fun r => r.2.length ≤ ts.length) := by
  induction fuel generalizing what ts with
  | zero => omega
  | succ fuel ih =>
    cases ts with
    | nil => exact Post.error (by decide)
    | cons t ts =>
      have ih' : ∀ what (ts' : List Token), ts'.length ≤ ts.length →
          Post (importsLoop fuel what ts') (fun r => r.2.length ≤ (t :: ts).length) :=
        fun what ts' h' => (ih what ts' (by simp only [List.length_cons] at h; omega)).mono
          (fun r hr => by simp only [List.length_cons]; omega)
      have hfuel : ts.length ≤ fuel := by simp only [List.length_cons] at h; omega
      unfold importsLoop
      post_auto_with [ih' _ _ (by len_omega), maybeReadOid_post _ _ (by len_omega)]

/-! ### assignments -/

theorem readDefinition_post (fuel : Nat) (name : String) (ts : List Token) (h : ts.length ≤ fuel) :
    Post (readDefinition fuel name ts) (fun r => r.2.length ≤ ts.length) := by
  unfold readDefinition
  post_auto_with [parseRoleGiven_post _ _ _ (by len_omega)]

theorem readValueReference_post (fuel : Nat) (name : String) (ts : List Token)
    (h : ts.length ≤ fuel) :
    Post (readValueReference fuel name ts) (fun r => r.2.length ≤ ts.length) := by
  unfold readValueReference
  post_auto_with [parseRole_post _ _ (by len_omega)]

/-! ### the module -/

theorem bodyLoop_post (fuel : Nat) (ts : List Token) (h : ts.length < fuel) :
    Post (bodyLoop fuel ts) (fun _ => True) := by
  induction fuel generalizing ts with
  | zero => omega
  | succ fuel ih =>
    cases ts with
    | nil => exact Post.error (by decide)
    | cons t ts =>
      have hfuel : ts.length < fuel := by simp only [List.length_cons] at h; omega
      unfold bodyLoop
      post_auto_with [ih _ (by len_omega), importsLoop_post _ _ _ (by len_omega),
        readDefinition_post _ _ _ (by len_omega), readValueReference_post _ _ _ (by len_omega)]

theorem parseModuleFuel_post (fuel : Nat) (ts : List Token) (h : ts.length < fuel) :
    Post (parseModuleFuel fuel ts) (fun _ => True) := by
  unfold parseModuleFuel
  refine Post.bind (P := fun r => r.2.length < ts.length) ?_ ?_
  · split
    · exact Post.pure (by simp)
    · exact Post.error (by decide)
  rintro ⟨name, ts1⟩ h1
  post_auto_with [maybeReadOid_post _ _ (by len_omega), skipUntilAfter_post _ _,
    bodyLoop_post _ _ (by len_omega)]

/-- **The parser terminates on every token list**: the budget `parseModule` supplies is never
    exhausted. -/
theorem parseModule_ne_fuel (ts : List Token) : parseModule ts ≠ .error .fuel :=
  (parseModuleFuel_post (ts.length + 1) ts (Nat.lt_succ_self _)).ne_fuel

end Asn1Verif.Front.Syn
