import Asn1Verif.Front.Ast
/-
  Front end — mirror of the resolver

    src/asn/resolve_scope.rs  `ResolveScope::{try_resolve, model_with_imported_item,
                               value_reference, definition}`, the four `Resolver` impls,
                               `MultiModuleResolver::try_resolve_all`
    src/asn/mod.rs            `Asn::try_resolve`, `Type::try_resolve`
    src/asn/{integer,size,bit_string,components,choice}.rs   `try_resolve`, `reconsider_constraints`

  `value_reference` / `definition` chase imports recursively.  The chase carries the number of
  imports it may still follow (`value_reference_within(name, hops)`, started with
  `hops = scope.len()`): every module after the first is a module of `scope` and the next module
  depends only on the current one and the name, so a chase that wants to follow more than
  `scope.len()` imports has been in some module twice and would never end — it finds nothing
  (`None`, i.e. `FailedToResolveReference` / `FailedToResolveType` for the caller).  The mirror
  counts calls instead of hops: `chaseFuel scope = scope.length + 1` calls, structural recursion,
  no budget of the mirror's own.  (Before the repair the chase had no bound and a cyclic import of
  an undefined name overflowed the stack.)

  The argument above is proved, not only told: `chase_fuel_irrelevant` in
  `Front/ResolveChaseLemmas.lean` (pigeonhole `exists_dup_of_subset`, periodicity
  `chase_none_of_cycle`), stated for the two chases as `chase_bound_never_observable` and
  `chase_bound_never_observable_definition` in Props/C12.lean: for every module, scope, name and
  every budget `k ≥ chaseFuel scope` the chase with budget `k` answers what the chase with budget
  `chaseFuel scope` answers.  The first module need not be in `scope`; the bound is exactly the
  smallest one with that property (`chase_bound_sharp` in Props/C12.lean).

  The result type of the chase stays `FR`: the chase itself never fails (`chase_total` in
  Props/C12.lean), its callers turn `none` into their error.
-/
namespace Asn1Verif.Front.Syn
open Except

/-- `model_with_imported_item(item)`: the first import that lists `item`, then the first module in
    scope with the import's object identifier (when that module has one) or the import's name -/
def modelWithImportedItem (m : UModule) (scope : List UModule) (item : String) : Option UModule :=
  (m.imports.find? fun i => i.what.any (· == item)).bind fun imp =>
    scope.find? fun c => (c.oid.isSome && c.oid == imp.fromOid) || c.name == imp.«from»

/-- `value_reference_within(name, hops)`; the first argument is `hops + 1` (`0`: the
    `hops.checked_sub(1)?` of the caller failed) -/
def valueReference : Nat → UModule → List UModule → String → FR (Option UValueReference)
  | 0, _, _, _ => .ok none
  | fuel + 1, m, scope, name =>
    match m.valueReferences.find? fun vr => vr.name == name with
    | some vr => .ok (some vr)
    | none =>
      match modelWithImportedItem m scope name with
      | some m' => valueReference fuel m' scope name
      | none => .ok none

/-- `definition_within(name, hops)`, likewise -/
def definition : Nat → UModule → List UModule → String → FR (Option UDefinition)
  | 0, _, _, _ => .ok none
  | fuel + 1, m, scope, name =>
    match m.definitions.find? fun d => d.name == name with
    | some d => .ok (some d)
    | none =>
      match modelWithImportedItem m scope name with
      | some m' => definition fuel m' scope name
      | none => .ok none

/-- `self.scope.len()` hops, i.e. `scope.len() + 1` calls -/
def chaseFuel (scope : List UModule) : Nat := scope.length + 1

/-- `ResolveScope { model, scope }` -/
structure Scope where
  model : UModule
  scope : List UModule

def Scope.valueReference (sc : Scope) (name : String) : FR (Option UValueReference) :=
  Syn.valueReference (chaseFuel sc.scope) sc.model sc.scope name

def Scope.definition (sc : Scope) (name : String) : FR (Option UDefinition) :=
  Syn.definition (chaseFuel sc.scope) sc.model sc.scope name

/-- `LiteralValue::to_integer` -/
def LiteralValue.toInteger : LiteralValue → Option Int
  | .integer i => some i
  | _ => none

/-- `usize::try_from(value).ok()` for an `i64` (64-bit `usize`: exactly the non-negative values) -/
def usizeTryFrom (i : Int) : Option Nat := if 0 ≤ i then some i.toNat else none

/-- `impl Resolver<i64> for ResolveScope` -/
def Scope.resolveInt (sc : Scope) : URange → FR Int
  | .lit i => .ok i
  | .ref name => do
    match ← sc.valueReference name with
    | some vr =>
      match vr.value.toInteger with
      | some v => .ok v
      | none => .error .failedToParseLiteral
    | none => .error .failedToResolveReference

/-- `impl Resolver<usize> for ResolveScope` -/
def Scope.resolveSizeVal (sc : Scope) : USz → FR Nat
  | .lit n => .ok n
  | .ref name => do
    match ← sc.valueReference name with
    | some vr =>
      match vr.value.toInteger with
      | some v =>
        -- `usize::try_from(value).map_err(|_| Error::FailedToResolveReference(name))`
        match usizeTryFrom v with
        | some n => .ok n
        | none => .error .failedToResolveReference
      | none => .error .failedToParseLiteral
    | none => .error .failedToResolveReference

/-- `impl Resolver<LiteralValue> for ResolveScope` -/
def Scope.resolveConst (sc : Scope) : UConst → FR LiteralValue
  | .lit v => .ok v
  | .ref name => do
    match ← sc.valueReference name with
    | some vr => .ok vr.value
    | none => .error .failedToResolveReference

/-- `impl Resolver<Type<Unresolved>> for ResolveScope`, applied to `LitOrRef::Ref(name)` -/
def Scope.resolveTypeRef (sc : Scope) (name : String) : FR UTy := do
  match ← sc.definition name with
  | some d => .ok d.ty
  | none => .error .failedToResolveType

/-- `Size::<usize>::reconsider_constraints` -/
def reconsiderConstraints : Size Nat → Size Nat
  | .range min max ext =>
    if min = 0 ∧ max = SIZE_MAX ∧ ext = false then .any
    else if min = max then .fix min ext
    else .range min max ext
  | s => s

/-- `Size::try_resolve` -/
def Scope.resolveSize (sc : Scope) : Size USz → FR (Size Nat)
  | .any => .ok .any
  | .fix n ext => do
    let n ← sc.resolveSizeVal n
    pure (reconsiderConstraints (.fix n ext))
  | .range a b ext => do
    let a ← sc.resolveSizeVal a
    let b ← sc.resolveSizeVal b
    pure (reconsiderConstraints (.range a b ext))

def Scope.resolveOptInt (sc : Scope) : Option URange → FR (Option Int)
  | none => .ok none
  | some l => do
    let v ← sc.resolveInt l
    pure (some v)

/-- `Integer::try_resolve` (range only; the constants are cloned) -/
def Scope.resolveRange (sc : Scope) (r : Range URange) : FR (Range Int) := do
  let a ← sc.resolveOptInt r.min
  let b ← sc.resolveOptInt r.max
  pure ⟨a, b, r.ext⟩

/-- the `default` part of `Asn::try_resolve`; `ty` is the already resolved type of the field -/
def Scope.resolveDefault (sc : Scope) (ty : RTy) : UConst → FR LiteralValue
  | .lit v => .ok v
  | .ref name =>
    match ty with
    | .typeReference referenced _ =>
      -- `if let Ok(Type::Enumerated(e)) = resolver.resolve(&LitOrRef::Ref(referenced))`
      match sc.resolveTypeRef referenced with
      | .ok (.enumerated e) =>
        match e.variants.find? fun v => name == v.name with
        | some v => .ok (.enumeratedVariant referenced v.name)
        | none => sc.resolveConst (.ref name)
      | _ => sc.resolveConst (.ref name)
    | _ => sc.resolveConst (.ref name)

mutual
/-- `Type::<Unresolved>::try_resolve` -/
def Scope.resolveTy (sc : Scope) : UTy → FR RTy
  | .boolean => .ok .boolean
  | .integer range constants => do
    let r ← sc.resolveRange range
    pure (.integer r constants)
  | .string size cs => do
    let s ← sc.resolveSize size
    pure (.string s cs)
  | .octetString size => do
    let s ← sc.resolveSize size
    pure (.octetString s)
  | .bitString size constants => do
    let s ← sc.resolveSize size
    pure (.bitString s constants)
  | .null => .ok .null
  | .optional inner => do
    let t ← sc.resolveTy inner
    pure (.optional t)
  | .sequence fields ext => do
    let fs ← sc.resolveFields fields
    pure (.sequence fs ext)
  | .sequenceOf inner size => do
    let t ← sc.resolveTy inner
    let s ← sc.resolveSize size
    pure (.sequenceOf t s)
  | .set fields ext => do
    let fs ← sc.resolveFields fields
    pure (.set fs ext)
  | .setOf inner size => do
    let t ← sc.resolveTy inner
    let s ← sc.resolveSize size
    pure (.setOf t s)
  | .enumerated e => .ok (.enumerated e)
  | .choice variants ext => do
    let vs ← sc.resolveVariants variants
    pure (.choice vs ext)
  | .typeReference name tag => .ok (.typeReference name tag)

/-- `fields.iter().map(|f| f.try_resolve(resolver)).collect::<Result<Vec<_>, _>>()`;
    one field = `Asn::try_resolve`: the type first, then the default -/
def Scope.resolveFields (sc : Scope) : UFields → FR RFields
  | .nil => .ok .nil
  | .cons name tag ty dflt rest => do
    let t ← sc.resolveTy ty
    let d ← (match dflt with
      | none => pure none
      | some d => do
        let v ← sc.resolveDefault t d
        pure (some v) : FR (Option LiteralValue))
    let r ← sc.resolveFields rest
    pure (.cons name tag t d r)

def Scope.resolveVariants (sc : Scope) : UVariants → FR RVariants
  | .nil => .ok .nil
  | .cons name tag ty rest => do
    let t ← sc.resolveTy ty
    let r ← sc.resolveVariants rest
    pure (.cons name tag t r)
end

def Scope.resolveValueRefs (sc : Scope) : List UValueReference → FR (List RValueReference)
  | [] => .ok []
  | vr :: rest => do
    let t ← sc.resolveTy vr.ty
    let r ← sc.resolveValueRefs rest
    pure (⟨vr.name, t, vr.value⟩ :: r)

def Scope.resolveDefinitions (sc : Scope) : List UDefinition → FR (List RDefinition)
  | [] => .ok []
  | d :: rest => do
    let t ← sc.resolveTy d.ty
    let r ← sc.resolveDefinitions rest
    pure (⟨d.name, d.tag, t⟩ :: r)

/-- `ResolveScope::try_resolve`: value references first, then definitions -/
def Scope.tryResolve (sc : Scope) : FR RModule := do
  let vrs ← sc.resolveValueRefs sc.model.valueReferences
  let defs ← sc.resolveDefinitions sc.model.definitions
  pure {
    name := sc.model.name
    oid := sc.model.oid
    imports := sc.model.imports
    definitions := defs
    valueReferences := vrs }

/-- `Model::<Asn<Unresolved>>::try_resolve`: the scope is the module itself -/
def tryResolve (m : UModule) : FR RModule := Scope.tryResolve ⟨m, [m]⟩

def resolveAllAux (scope : List UModule) : List UModule → FR (List RModule)
  | [] => .ok []
  | m :: rest => do
    let r ← Scope.tryResolve ⟨m, scope⟩
    let rs ← resolveAllAux scope rest
    pure (r :: rs)

/-- `MultiModuleResolver::try_resolve_all` -/
def tryResolveAll (models : List UModule) : FR (List RModule) := resolveAllAux models models

end Asn1Verif.Front.Syn
