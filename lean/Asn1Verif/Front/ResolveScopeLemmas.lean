import Asn1Verif.Front.ResolveNested
/-
  Front end — resolution depends on the scope only through two views: the *value* found under a
  name and whether a type name denotes an ENUMERATED type.  Scopes with equal views resolve
  every type, component list and module item alike (`resolveTy_congr`); used to move from the
  module with references to its literal variant (whose value reference definitions have
  substituted types but the same names and values).
-/
namespace Asn1Verif.Front.Syn
open Except

/-- the value found under a name -/
def Scope.valueOf (sc : Scope) (n : String) : FR (Option LiteralValue) :=
  match sc.valueReference n with
  | .ok o => .ok (o.map (·.value))
  | .error e => .error e

/-- what `Asn::try_resolve` looks at in the definition found under a type name -/
inductive EnumView where
  | enumerated (e : Enumerated)
  | other

def Scope.enumView (sc : Scope) (n : String) : EnumView :=
  match sc.resolveTypeRef n with
  | .ok (.enumerated e) => .enumerated e
  | _ => .other

structure ScopeEquiv (sc sc' : Scope) : Prop where
  value : ∀ n, sc'.valueOf n = sc.valueOf n
  enum : ∀ n, sc'.enumView n = sc.enumView n

theorem resolveInt_view (sc : Scope) (l : URange) :
    sc.resolveInt l =
      match l with
      | .lit i => .ok i
      | .ref n =>
        match sc.valueOf n with
        | .ok (some v) => (match v.toInteger with | some i => .ok i | none => .error .failedToParseLiteral)
        | .ok none => .error .failedToResolveReference
        | .error e => .error e := by
  cases l with
  | lit i => rfl
  | ref n =>
    simp only [Scope.resolveInt, Scope.valueOf]
    cases sc.valueReference n with
    | error e => rfl
    | ok o => cases o <;> rfl

theorem resolveSizeVal_view (sc : Scope) (l : USz) :
    sc.resolveSizeVal l =
      match l with
      | .lit i => .ok i
      | .ref n =>
        match sc.valueOf n with
        | .ok (some v) =>
          (match v.toInteger with
           | some i =>
             (match usizeTryFrom i with
              | some k => .ok k
              | none => .error .failedToResolveReference)
           | none => .error .failedToParseLiteral)
        | .ok none => .error .failedToResolveReference
        | .error e => .error e := by
  cases l with
  | lit i => rfl
  | ref n =>
    simp only [Scope.resolveSizeVal, Scope.valueOf]
    cases sc.valueReference n with
    | error e => rfl
    | ok o => cases o <;> rfl

theorem resolveConst_view (sc : Scope) (l : UConst) :
    sc.resolveConst l =
      match l with
      | .lit v => .ok v
      | .ref n =>
        match sc.valueOf n with
        | .ok (some v) => .ok v
        | .ok none => .error .failedToResolveReference
        | .error e => .error e := by
  cases l with
  | lit i => rfl
  | ref n =>
    simp only [Scope.resolveConst, Scope.valueOf]
    cases sc.valueReference n with
    | error e => rfl
    | ok o => cases o <;> rfl

theorem enumView_enumerated (sc : Scope) (r : String) (e : Enumerated)
    (h : sc.resolveTypeRef r = .ok (.enumerated e)) : sc.enumView r = .enumerated e := by
  simp [Scope.enumView, h]

theorem enumView_other (sc : Scope) (r : String)
    (h2 : ∀ e, sc.resolveTypeRef r ≠ .ok (.enumerated e)) : sc.enumView r = .other := by
  unfold Scope.enumView
  split
  · rename_i e h3; exact absurd h3 (h2 e)
  · rfl

theorem resolveDefault_view (sc : Scope) (ty : RTy) (d : UConst) :
    sc.resolveDefault ty d =
      match d with
      | .lit v => .ok v
      | .ref name =>
        match ty with
        | .typeReference referenced _ =>
          match sc.enumView referenced with
          | .enumerated e =>
            (match e.variants.find? fun v => name == v.name with
             | some v => .ok (.enumeratedVariant referenced v.name)
             | none => sc.resolveConst (.ref name))
          | .other => sc.resolveConst (.ref name)
        | _ => sc.resolveConst (.ref name) := by
  cases d with
  | lit v => rfl
  | ref name =>
    cases ty <;> try rfl
    case typeReference referenced tag =>
      simp only [Scope.resolveDefault]
      split
      · rename_i e he
        rw [enumView_enumerated sc referenced e he]
        cases hfind : List.find? (fun v => name == v.name) e.variants <;> simp [hfind]
      · rename_i h2
        rw [enumView_other sc referenced h2]

variable {sc sc' : Scope} (h : ScopeEquiv sc sc')

include h in
theorem resolveInt_congr (l : URange) : sc'.resolveInt l = sc.resolveInt l := by
  rw [resolveInt_view, resolveInt_view]; cases l <;> simp only [h.value]

include h in
theorem resolveSizeVal_congr (l : USz) : sc'.resolveSizeVal l = sc.resolveSizeVal l := by
  rw [resolveSizeVal_view, resolveSizeVal_view]; cases l <;> simp only [h.value]

include h in
theorem resolveConst_congr (l : UConst) : sc'.resolveConst l = sc.resolveConst l := by
  rw [resolveConst_view, resolveConst_view]; cases l <;> simp only [h.value]

include h in
theorem resolveDefault_congr (ty : RTy) (d : UConst) :
    sc'.resolveDefault ty d = sc.resolveDefault ty d := by
  rw [resolveDefault_view, resolveDefault_view]
  cases d with
  | lit v => rfl
  | ref n => cases ty <;> simp only [h.enum, resolveConst_congr h]

include h in
theorem resolveSize_congr (s : Size USz) : sc'.resolveSize s = sc.resolveSize s := by
  cases s <;> simp only [Scope.resolveSize, resolveSizeVal_congr h]

include h in
theorem resolveRange_congr (r : Range URange) : sc'.resolveRange r = sc.resolveRange r := by
  have : ∀ o : Option URange, sc'.resolveOptInt o = sc.resolveOptInt o := by
    intro o; cases o <;> simp only [Scope.resolveOptInt, resolveInt_congr h]
  simp only [Scope.resolveRange, this]

include h in
mutual
theorem resolveTy_congr : ∀ t : UTy, sc'.resolveTy t = sc.resolveTy t
  | .boolean => rfl
  | .integer r cs => by simp only [Scope.resolveTy, resolveRange_congr h]
  | .string s c => by simp only [Scope.resolveTy, resolveSize_congr h]
  | .octetString s => by simp only [Scope.resolveTy, resolveSize_congr h]
  | .bitString s cs => by simp only [Scope.resolveTy, resolveSize_congr h]
  | .null => rfl
  | .optional t => by simp only [Scope.resolveTy, resolveTy_congr t]
  | .sequence fs e => by simp only [Scope.resolveTy, resolveFields_congr fs]
  | .sequenceOf t s => by simp only [Scope.resolveTy, resolveTy_congr t, resolveSize_congr h]
  | .set fs e => by simp only [Scope.resolveTy, resolveFields_congr fs]
  | .setOf t s => by simp only [Scope.resolveTy, resolveTy_congr t, resolveSize_congr h]
  | .enumerated e => rfl
  | .choice vs e => by simp only [Scope.resolveTy, resolveVariants_congr vs]
  | .typeReference n t => rfl
theorem resolveFields_congr : ∀ fs : UFields, sc'.resolveFields fs = sc.resolveFields fs
  | .nil => rfl
  | .cons name tag ty d rest => by
    simp only [Scope.resolveFields, resolveTy_congr ty, resolveFields_congr rest,
      resolveDefault_congr h]
theorem resolveVariants_congr : ∀ vs : UVariants, sc'.resolveVariants vs = sc.resolveVariants vs
  | .nil => rfl
  | .cons name tag ty rest => by
    simp only [Scope.resolveVariants, resolveTy_congr ty, resolveVariants_congr rest]
end

end Asn1Verif.Front.Syn
